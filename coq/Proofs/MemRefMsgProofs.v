(* Proofs/MemRefMsgProofs.v — C09, message level: partial ranges never index out of bounds
   (int64 arithmetic, any origin and size a client can send), body sections never panic.  *)
From Coq Require Import ZifyN ZifyNat ZifyBool.
From GoImap.Base Require Import Bytes.
From GoImap.Model Require Import NumSet MatchList Search MemRefMsg MemRef.
From GoImap.Proofs Require Import MemRefSpec.
Open Scope Z_scope.

(* the slice a client asks for with <off.size>: at most size octets starting at off *)
Definition partial_spec (b : bytes) (off size : Z) : bytes :=
  firstn (Z.to_nat size) (skipn (Z.to_nat off) b).

Lemma I63_eq : I63 = 9223372036854775808. Proof. reflexivity. Qed.
Lemma I64_eq : I64 = I63. Proof. reflexivity. Qed.
Local Opaque I63 I64.

Lemma wrap64_small : forall z, - I63 <= z < I63 -> wrap64 z = z.
Proof.
  intros z H. unfold wrap64. rewrite I64_eq. rewrite Z.mod_small; lia.
Qed.

Lemma I63_pos : 0 < I63. Proof. rewrite I63_eq. lia. Qed.

Lemma firstn_ge_all : forall (A : Type) n m (l : list A), (length l <= n)%nat -> (length l <= m)%nat ->
  firstn n l = firstn m l.
Proof. intros. rewrite !firstn_all2 by assumption. reflexivity. Qed.

(* for ANY origin and size in 0 .. 2^63-1 (everything ExpectNumber64 accepts) and any section
   shorter than 2^63 octets the extraction is defined and is the requested slice *)
Theorem ext_partial_exact : forall b off size,
  0 <= off < I63 -> 0 <= size < I63 -> Z.of_nat (length b) < I63 ->
  ext_partial b (Some (off, size)) = Some (partial_spec b off size).
Proof.
  intros b off size Ho Hs Hb. pose proof I63_pos as HP.
  unfold ext_partial, partial_spec.
  destruct (Z.ltb_spec (Z.of_nat (length b)) off) as [Hlt|Hge].
  - rewrite skipn_all2 by lia. rewrite firstn_nil. reflexivity.
  - rewrite (wrap64_small (Z.of_nat (length b) - off)) by lia.
    destruct (Z.ltb_spec (Z.of_nat (length b) - off) size) as [H1|H1].
    + rewrite wrap64_small by lia. unfold slice.
      replace (0 <=? off) with true by lia.
      replace (off <=? off + (Z.of_nat (length b) - off)) with true by lia.
      replace (off + (Z.of_nat (length b) - off) <=? Z.of_nat (length b)) with true by lia.
      cbn [andb]. f_equal. apply firstn_ge_all; rewrite skipn_length; lia.
    + rewrite wrap64_small by lia. unfold slice.
      replace (0 <=? off) with true by lia.
      replace (off <=? off + size) with true by lia.
      replace (off + size <=? Z.of_nat (length b)) with true by lia.
      cbn [andb]. f_equal. f_equal. lia.
Qed.

Theorem ext_partial_none : forall b, ext_partial b None = Some b.
Proof. reflexivity. Qed.

Corollary ext_partial_total : forall b p, wire_partial p = true -> Z.of_nat (length b) < I63 ->
  ext_partial b p <> None.
Proof.
  intros b [[off size]|] Hw Hb.
  - unfold wire_partial in Hw. rewrite ext_partial_exact by lia. discriminate.
  - discriminate.
Qed.

(* the code before the fix: the sum wraps and the slice expression panics *)
Lemma ext_partial_old_crashes : forall b off, b <> [] -> 1 <= off <= Z.of_nat (length b) ->
  Z.of_nat (length b) < I63 ->
  ext_partial_old b (Some (off, I63 - 1)) = None.
Proof.
  intros b off Hne Ho Hb. unfold ext_partial_old.
  replace (Z.of_nat (length b) <? off) with false by lia.
  assert (He : wrap64 (off + (I63 - 1)) = off - 1 - I63).
  { unfold wrap64. rewrite I64_eq.
    replace (off + (I63 - 1) + I63) with ((off - 1) + 1 * (2 * I63)) by lia.
    rewrite Z.mod_add by lia. rewrite Z.mod_small by lia. lia. }
  rewrite He.
  replace (Z.of_nat (length b) <? off - 1 - I63) with false by lia.
  unfold slice.
  replace (off <=? off - 1 - I63) with false by lia.
  rewrite andb_false_r. reflexivity.
Qed.

(* the result never has more octets than asked for, nor than there are *)
Lemma ext_partial_length : forall b off size r,
  0 <= off < I63 -> 0 <= size < I63 -> Z.of_nat (length b) < I63 ->
  ext_partial b (Some (off, size)) = Some r ->
  Z.of_nat (length r) <= size /\ Z.of_nat (length r) <= Z.of_nat (length b).
Proof.
  intros b off size r Ho Hs Hb H. rewrite ext_partial_exact in H by assumption.
  injection H as <-. unfold partial_spec. rewrite firstn_length, skipn_length. lia.
Qed.

Section SectionLengths.
Local Open Scope nat_scope.

(* ---- lengths: every octet of a section comes from the message ---- *)
(* octets WriteHeader emits for the fields (without the final CRLF) *)
Definition hw (h : list hfield) : nat := length (concat (map hf_raw h)).

Lemma hw_cons : forall f h, hw (f :: h) = length (hf_raw f) + hw h.
Proof. intros. unfold hw. cbn [map concat]. apply app_length. Qed.

Lemma hw_app : forall a b, hw (a ++ b) = hw a + hw b.
Proof.
  induction a as [|f a IH]; intro b; [reflexivity|].
  cbn [app]. rewrite !hw_cons, IH. lia.
Qed.

Lemma hw_rev : forall a, hw (rev a) = hw a.
Proof.
  induction a as [|f a IH]; [reflexivity|].
  cbn [rev]. rewrite hw_app, !hw_cons, IH. unfold hw at 2. cbn [map concat length]. lia.
Qed.

Lemma hw_filter : forall p h, hw (filter p h) <= hw h.
Proof.
  intros p h. induction h as [|f h IH]; [cbn [filter]; lia|].
  cbn [filter]. destruct (p f); rewrite ?hw_cons; lia.
Qed.

Lemma hw_del_keys : forall ks h, hw (fold_left (fun h k => del_key k h) ks h) <= hw h.
Proof.
  induction ks as [|k ks IH]; intro h; cbn [fold_left]; [lia|].
  etransitivity; [apply IH|]. unfold del_key. apply hw_filter.
Qed.

Lemma chomp_len : forall l, length (chomp l) <= length l.
Proof.
  intro l. unfold chomp. rewrite <- (rev_length l). destruct (rev l) as [|c r] eqn:E; [cbn; lia|].
  destruct (beqb c LF).
  - destruct r as [|d r']; [cbn; lia|]. destruct (beqb d CR); rewrite rev_length; cbn [length]; lia.
  - rewrite <- (rev_involutive l), E, rev_length. lia.
Qed.

Lemma raw_lines_aux_concat : forall s cur, concat (raw_lines_aux s cur) = rev cur ++ s.
Proof.
  induction s as [|c r IH]; intro cur; cbn [raw_lines_aux].
  - destruct cur as [|x cur]; [reflexivity|]. cbn [concat]. rewrite !app_nil_r. reflexivity.
  - destruct (beqb c LF).
    + cbn [concat]. rewrite IH. cbn [rev app]. rewrite <- app_assoc. reflexivity.
    + rewrite IH. cbn [rev]. rewrite <- app_assoc. reflexivity.
Qed.

Lemma raw_lines_concat : forall s, concat (raw_lines s) = s.
Proof. intro s. unfold raw_lines. rewrite raw_lines_aux_concat. reflexivity. Qed.

Lemma concat_cons_len : forall (l : bytes) ls, length (concat (l :: ls)) = length l + length (concat ls).
Proof. intros. cbn [concat]. apply app_length. Qed.

Lemma cont_lines_len : forall ls acc kv rest, cont_lines ls acc = (kv, rest) ->
  length kv + 3 * length (concat rest) <= length acc + 3 * length (concat ls).
Proof.
  induction ls as [|l ls IH]; intros acc kv rest H; cbn [cont_lines] in H.
  - injection H as <- <-. lia.
  - destruct l as [|c l'].
    + injection H as <- <-. lia.
    + destruct (is_space c).
      * apply IH in H. rewrite concat_cons_len. rewrite !app_length in H.
        change (length CRLF) with 2 in H.
        pose proof (chomp_len (c :: l')). cbn [length] in *. lia.
      * injection H as <- <-. lia.
Qed.

Lemma read_fields_len : forall fuel ls acc fs rest st, read_fields fuel ls acc = (fs, rest, st) ->
  hw fs + 3 * length (concat rest) <= hw acc + 3 * length (concat ls).
Proof.
  induction fuel as [|f IH]; intros ls acc fs rest st H; cbn [read_fields] in H.
  - injection H as <- <- <-. rewrite hw_rev. lia.
  - destruct ls as [|l ls'].
    + injection H as <- <- <-. rewrite hw_rev. lia.
    + rewrite concat_cons_len. pose proof (chomp_len l) as Hc.
      destruct (chomp l) as [|c0 line'] eqn:Ec.
      * injection H as <- <- <-. rewrite hw_rev. lia.
      * destruct (cont_lines ls' ((c0 :: line') ++ CRLF)) as [kv rest'] eqn:Ecl.
        apply cont_lines_len in Ecl. rewrite app_length in Ecl. change (length CRLF) with 2 in Ecl.
        cbn [length] in Ecl, Hc.
        destruct (index_of (ch ":") kv) as [i|].
        2:{ injection H as <- <- <-. rewrite hw_rev. lia. }
        destruct (negb (forallb valid_key_byte (trim_sp (firstn i kv)))).
        { injection H as <- <- <-. rewrite hw_rev. lia. }
        destruct (canon_key (trim_sp (firstn i kv))) as [|k0 key'].
        { apply IH in H. lia. }
        { apply IH in H. rewrite hw_cons in H. cbn [hf_raw] in H. lia. }
Qed.

Lemma read_header_st_len : forall s fs rest st, read_header_st s = (fs, rest, st) ->
  hw fs + 3 * length rest <= 3 * length s.
Proof.
  intros s fs rest st H. unfold read_header_st in H.
  assert (Hs : length (concat (raw_lines s)) = length s) by (rewrite raw_lines_concat; reflexivity).
  set (fuel := S (length (raw_lines s))) in H.
  assert (G : forall ls : list bytes, length (concat ls) <= length s ->
     (let '(fs0, rest0, st0) := read_fields fuel ls [] in (fs0, concat rest0, st0)) = (fs, rest, st) ->
     hw fs + 3 * length rest <= 3 * length s).
  { intros ls Hl H0. destruct (read_fields fuel ls []) as [[fs0 rest0] st0] eqn:E.
    injection H0 as <- <- <-. apply read_fields_len in E. unfold hw at 2 in E. cbn [map concat length] in E. lia. }
  clearbody fuel.
  destruct (raw_lines s) as [|[|c l0] ls'].
  - apply (G []); [cbn [concat length]; lia|exact H].
  - apply (G ([] :: ls')); [apply Nat.eq_le_incl; exact Hs|exact H].
  - destruct (is_space c).
    + injection H as <- <- <-. rewrite concat_cons_len in Hs. unfold hw. cbn [map concat length]. lia.
    + apply (G ((c :: l0) :: ls')); [apply Nat.eq_le_incl; exact Hs|exact H].
Qed.

Lemma read_header_len : forall s fs rest e, read_header s = (fs, rest, e) ->
  hw fs + 3 * length rest <= 3 * length s.
Proof.
  intros s fs rest e H. unfold read_header in H.
  destruct (read_header_st s) as [[fs0 rest0] st0] eqn:E. injection H as <- <- <-.
  eapply read_header_st_len. exact E.
Qed.

Lemma read_header_r_len : forall r fs rest e, read_header_r r = (fs, rest, e) ->
  hw fs + 3 * length rest <= 3 * length (fst r).
Proof.
  intros r fs rest e H. unfold read_header_r in H.
  destruct (read_header_st (fst r)) as [[fs0 rest0] st0] eqn:E. injection H as <- <- <-.
  eapply read_header_st_len. exact E.
Qed.

Lemma has_prefix_len : forall p s, has_prefix p s = true -> length p <= length s.
Proof.
  induction p as [|x p IH]; intros s H; [cbn; lia|].
  destruct s as [|y s]; cbn [has_prefix] in H; [discriminate|].
  apply andb_true_iff in H. destruct H as [_ H]. apply IH in H. cbn [length]. lia.
Qed.

Lemma scan_part_len : forall fuel data dashb nldashb at_start acc b c rest,
  scan_part fuel data dashb nldashb at_start acc = (b, c, rest) ->
  length b <= length acc + length data /\ length rest <= length data.
Proof.
  induction fuel as [|f IH]; intros data dashb nldashb at_start acc b c rest H; cbn [scan_part] in H.
  - injection H as <- <- <-. cbn [length]. lia.
  - destruct (at_start && has_prefix dashb data && after_prefix_ok (skipn (length dashb) data)).
    { injection H as <- <- <-. lia. }
    destruct (at_start && has_prefix dashb data) eqn:E2.
    { apply IH in H. apply andb_true_iff in E2. destruct E2 as [_ E2]. apply has_prefix_len in E2.
      rewrite app_length, skipn_length in H. lia. }
    destruct (at_start && prefix_of data dashb).
    { injection H as <- <- <-. cbn [length]. lia. }
    destruct (index_sub nldashb data) as [i|].
    + destruct (after_prefix_ok (skipn (i + length nldashb) data)).
      * injection H as <- <- <-. rewrite app_length, firstn_length, skipn_length. lia.
      * apply IH in H. rewrite app_length, firstn_length, skipn_length in H. lia.
    + destruct (prefix_of data nldashb).
      { injection H as <- <- <-. cbn [length]. lia. }
      destruct nldashb as [|nl0 x].
      { injection H as <- <- <-. rewrite app_length. cbn [length]. lia. }
      destruct (last_index_byte nl0 data) as [i|].
      * destruct (prefix_of (skipn i data) (nl0 :: x)); injection H as <- <- <-;
          rewrite app_length, ?firstn_length; cbn [length]; lia.
      * injection H as <- <- <-. rewrite app_length. cbn [length]. lia.
Qed.

Lemma read_slice_len : forall s acc line rest c, read_slice s acc = (line, rest, c) ->
  length rest <= length s.
Proof.
  induction s as [|x s IH]; intros acc line rest c H; cbn [read_slice] in H.
  - injection H as <- <- <-. lia.
  - destruct (beqb x LF).
    + injection H as <- <- <-. cbn [length]. lia.
    + apply IH in H. cbn [length]. lia.
Qed.

Lemma next_part_lines_len : forall fuel s clean boundary nl first en h body rest nl',
  next_part_lines fuel s clean boundary nl first en = MPPart h body rest nl' ->
  hw h + 3 * length (fst body) <= 3 * length s /\ length rest <= length s.
Proof.
  induction fuel as [|f IH]; intros s clean boundary nl first en h body rest nl' H;
    cbn [next_part_lines] in H; [discriminate|].
  destruct (read_slice s []) as [[line rest0] complete] eqn:Ers.
  apply read_slice_len in Ers.
  destruct (negb complete); [discriminate|].
  match type of H with (if ?c then _ else _) = _ => destruct c end.
  - destruct (read_header_r (rest0, clean)) as [[h0 body0] herr] eqn:Erh.
    apply read_header_r_len in Erh. cbn [fst] in Erh.
    destruct herr; [discriminate|].
    match type of H with context [scan_part ?a1 ?a2 ?a3 ?a4 ?a5 ?a6] =>
      destruct (scan_part a1 a2 a3 a4 a5 a6) as [[b0 bclean] brest] eqn:Esp end.
    apply scan_part_len in Esp. cbn [length] in Esp.
    injection H as <- <- <- <-. cbn [fst]. lia.
  - match type of H with (if ?c then _ else _) = _ => destruct c end; [discriminate|].
    destruct en; [discriminate|].
    destruct first.
    + apply IH in H. lia.
    + destruct (bytes_eqb line nl); [|discriminate]. apply IH in H. lia.
Qed.

Lemma next_part_len : forall s clean boundary nl first h body rest nl',
  next_part s clean boundary nl first = MPPart h body rest nl' ->
  hw h + 3 * length (fst body) <= 3 * length s /\ length rest <= length s.
Proof.
  intros s clean boundary nl first h body rest nl' H. unfold next_part in H.
  destruct boundary; [discriminate|]. eapply next_part_lines_len. exact H.
Qed.

Lemma nth_part_len : forall fuel s clean boundary nl first j h body,
  nth_part fuel s clean boundary nl first j = Some (h, body) ->
  hw h + 3 * length (fst body) <= 3 * length s.
Proof.
  induction fuel as [|f IH]; intros s clean boundary nl first j h body H; cbn [nth_part] in H;
    [discriminate|].
  destruct (j =? 0)%N; [discriminate|].
  destruct (next_part s clean boundary nl first) as [|h0 body0 rest0 nl0] eqn:En; [discriminate|].
  apply next_part_len in En.
  destruct (j =? 1)%N.
  - injection H as <- <-. lia.
  - apply IH in H. lia.
Qed.

(* the header was read from a part of the message disjoint from the body that follows *)
Definition part_inv (n : nat) (h : list hfield) (body : rdr) : Prop :=
  hw h + 3 * length (fst body) <= 3 * n.

Lemma open_message_part_len : forall n h body parent h' body',
  part_inv n h body -> open_message_part h body parent = (h', body') -> part_inv n h' body'.
Proof.
  intros n h body parent h' body' Hi H. unfold open_message_part in H.
  match type of H with (if ?c then _ else _) = _ => destruct c end.
  - destruct (read_header (fst body)) as [[h1 rest1] e1] eqn:E. injection H as <- <-.
    apply read_header_len in E. unfold part_inv in *. cbn [fst]. lia.
  - injection H as <- <-. exact Hi.
Qed.

Lemma walk_parts_len : forall n path h body parent h' body' parent',
  part_inv n h body -> walk_parts path h body parent = Some (h', body', parent') ->
  part_inv n h' body'.
Proof.
  intros n path. induction path as [|pn path IH]; intros h body parent h' body' parent' Hi H;
    cbn [walk_parts] in H.
  - injection H as <- <- <-. exact Hi.
  - destruct (open_message_part h body parent) as [h1 body1] eqn:Eo.
    apply (open_message_part_len n) in Eo; [|exact Hi].
    destruct (content_type h1) as [mt boundary].
    destruct (negb (is_multipart mt)).
    + destruct (pn =? 1)%N; [|discriminate]. eapply IH; [exact Eo|exact H].
    + destruct (nth_part (S (length (fst body1))) (fst body1) (snd body1) boundary CRLF true pn)
        as [[h2 body2]|] eqn:En; [|discriminate].
      apply nth_part_len in En. eapply IH; [|exact H].
      unfold part_inv in *. lia.
Qed.


(* the end of section_text, once the part has been located *)
Definition section_tail (it : section) (h2 : list hfield) (body2 : rdr) : option bytes :=
  let h3 :=
    match sc_fields it with
    | [] => h2
    | fs => let keep := map ascii_lower fs in
            filter (fun f => mem_bytes (ascii_lower (hf_key f)) keep) h2
    end in
  let h4 := fold_left (fun h k => del_key k h) (sc_fields_not it) h3 in
  let write_hdr :=
    match sc_spec it with
    | SpecNone => match sc_part it with [] => true | _ => false end
    | SpecText => false
    | _ => true
    end in
  let hb := if write_hdr then write_header h4 else [] in
  match sc_spec it with
  | SpecNone | SpecText => if snd body2 then Some (hb ++ fst body2) else None
  | _ => Some hb
  end.

Lemma section_tail_len : forall n it h2 body2 t, part_inv n h2 body2 ->
  section_tail it h2 body2 = Some t -> length t <= 3 * n + 2.
Proof.
  intros n it h2 body2 t Hi H. unfold section_tail in H.
  set (h3 := match sc_fields it with [] => h2 | _ :: _ => _ end) in H.
  assert (H3 : hw h3 <= hw h2) by (unfold h3; destruct (sc_fields it); [lia | apply hw_filter]).
  pose proof (hw_del_keys (sc_fields_not it) h3) as H4.
  set (h4 := fold_left _ _ h3) in *.
  assert (Hw : length (write_header h4) = hw h4 + 2).
  { unfold write_header. rewrite app_length. reflexivity. }
  unfold part_inv in Hi.
  destruct (sc_spec it); destruct (sc_part it); try (destruct (snd body2); [|discriminate]);
    injection H as <-; rewrite ?app_length; cbn [length]; lia.
Qed.

Lemma section_text_eq : forall buf it, section_text buf it =
  match sc_part it, sc_spec it with
  | [], SpecNone => Some buf
  | _, _ =>
      let '(h0, rest0, err0) := read_header buf in
      if err0 then None
      else
        let mt0 := fst (content_type h0) in
        let path :=
          match sc_part it with
          | p :: path' => if negb (is_multipart mt0) && (p =? 1)%N then path' else sc_part it
          | [] => []
          end in
        match walk_parts path h0 (rest0, true) [] with
        | None => None
        | Some (h1, body1, parent) =>
            let '(h2, body2) :=
              match sc_part it, sc_spec it with
              | _ :: _, SpecHeader | _ :: _, SpecText => open_message_part h1 body1 parent
              | _, _ => (h1, body1)
              end in
            section_tail it h2 body2
        end
  end.
Proof. reflexivity. Qed.

(* sections are computed from the message and can only be longer than it by the CRLFs that
   ReadHeader/WriteHeader normalise or add: a crude but sufficient bound *)
Theorem section_text_bound : forall buf it t,
  section_text buf it = Some t -> (length t <= 3 * length buf + 2)%nat.
Proof.
  intros buf it t H. rewrite section_text_eq in H.
  assert (G : (let '(h0, rest0, err0) := read_header buf in
      if err0 then None
      else
        let mt0 := fst (content_type h0) in
        let path :=
          match sc_part it with
          | p :: path' => if negb (is_multipart mt0) && (p =? 1)%N then path' else sc_part it
          | [] => []
          end in
        match walk_parts path h0 (rest0, true) [] with
        | None => None
        | Some (h1, body1, parent) =>
            let '(h2, body2) :=
              match sc_part it, sc_spec it with
              | _ :: _, SpecHeader | _ :: _, SpecText => open_message_part h1 body1 parent
              | _, _ => (h1, body1)
              end in
            section_tail it h2 body2
        end) = Some t -> length t <= 3 * length buf + 2).
  { clear H. intro H.
    destruct (read_header buf) as [[h0 rest0] err0] eqn:Erh.
    apply read_header_len in Erh. destruct err0; [discriminate|].
    cbv zeta in H.
    match type of H with match walk_parts ?pth _ _ _ with _ => _ end = _ =>
      destruct (walk_parts pth h0 (rest0, true) []) as [[[h1 body1] parent]|] eqn:Ew; [|discriminate] end.
    apply (walk_parts_len (length buf)) in Ew; [|unfold part_inv; cbn [fst]; lia].
    match type of H with (match ?om with (_, _) => _ end) = _ => destruct om as [h2 body2] eqn:Eom end.
    apply (section_tail_len (length buf)) in H; [exact H|].
    destruct (sc_part it); [injection Eom as <- <-; exact Ew|].
    destruct (sc_spec it); try (injection Eom as <- <-; exact Ew);
      eapply open_message_part_len; eassumption. }
  destruct (sc_part it); [destruct (sc_spec it)|]; try (apply G; exact H).
  injection H as <-. lia.
Qed.

End SectionLengths.

(* body_section never panics on a request the wire can deliver, for a message that fits in
   memory (3|buf|+2 < 2^63) *)
Theorem body_section_total : forall buf it,
  wire_partial (sc_partial it) = true -> 3 * Z.of_nat (length buf) + 2 < I63 ->
  body_section buf it <> None.
Proof.
  intros buf it Hw Hb. unfold body_section.
  destruct (section_text buf it) as [t|] eqn:E; [|discriminate].
  apply section_text_bound in E. apply ext_partial_total; [assumption|lia].
Qed.

(* ... and is the requested slice of the section *)
Theorem body_section_exact : forall buf it t off size,
  section_text buf it = Some t -> sc_partial it = Some (off, size) ->
  0 <= off < I63 -> 0 <= size < I63 -> 3 * Z.of_nat (length buf) + 2 < I63 ->
  body_section buf it = Some (partial_spec t off size).
Proof.
  intros buf it t off size E Hp Ho Hs Hb. unfold body_section. rewrite E, Hp.
  apply section_text_bound in E. apply ext_partial_exact; lia.
Qed.
