(* Proofs/RespSpec.v — specification vocabulary for C03 (no proofs here):
   - the hypotheses under which the library functions of [ext] are used (ext_ok),
   - for every kind of data a backend can hand to the server: the domain on which the property
     can hold (boolean predicates wf_X) and the normal form in which the client delivers the
     data (norm_X): nil = empty, sender/reply-to default to from, transfer encoding upper-cased
     with "" = 7BIT, parameter names lower-cased, times to the second, INBOX canonical,
     well-known flags and attributes canonical, only the requested STATUS items, an absent
     APPENDLIMIT delivered as 2^32-1, LIST-STATUS pairs joined. *)
From GoImap.Base Require Import Bytes.
From GoImap.Model Require Import NumSet MatchList Utf7 Wire Resp RespFetch RespCmd.
From GoImap.Proofs Require Import Utf7Spec WireSpec.
Open Scope N_scope.

(* ---------------------------------------------------------------------------------------- *)
(* sizes: literal headers carry an int64, numbers are uint32 / int64                          *)

Definition fits (s : bytes) : bool := N.of_nat (length s) <? 9223372036854775808.
Definition u32 (n : N) : bool := n <? 4294967296.
Definition i64 (z : Z) : bool := (0 <=? z)%Z && (z <? 9223372036854775808)%Z.
Definition seven (s : bytes) : bool := forallb (fun c => b2n c <? 128) s.

(* ---------------------------------------------------------------------------------------- *)
(* UTF-8 validity as a boolean (mailbox names)                                                *)

Fixpoint utf8_runes (fuel : nat) (s : list N) : option (list N) :=
  match fuel with
  | O => None
  | S k =>
      match s with
      | [] => Some []
      | _ =>
          let '(r, size) := decode_rune s in
          (* an invalid sequence decodes to (U+FFFD, 1); a genuine U+FFFD has width 3 *)
          if (r =? REPL) && Nat.eqb size 1 then None
          else match utf8_runes k (skipn size s) with Some l => Some (r :: l) | None => None end
      end
  end.
Definition valid_utf8_b (s : bytes) : bool :=
  match utf8_runes (S (length s)) (map b2n s) with Some _ => true | None => false end.

(* a mailbox name the server can write and the client can read back *)
Definition wf_mailbox (s : bytes) : bool := valid_utf8_b s && fits (utf7_encode s).
(* Decoder.ExpectMailbox / Encoder.Mailbox: INBOX in any case is "INBOX" *)
Definition norm_mailbox (s : bytes) : bytes := if equal_fold_ascii s INBOX then INBOX else s.

(* a hierarchy delimiter: none, or a Unicode scalar value other than U+FFFD *)
Definition wf_delim (d : N) : bool := (d =? 0) || (scalar d && negb (d =? REPL)).

(* ---------------------------------------------------------------------------------------- *)
(* library hypotheses                                                                         *)

Definition time_norm (t : time) : time := mkTime (t_sec t) 0 (t_off t).
(* years 0..9999 on the wall clock of the zone, zone offset in whole minutes below 24 h (the
   server writes times whose zone offset has seconds in UTC: zone_fix) *)
Definition time_ok (t : time) : bool :=
  ((-62167219200 <=? t_sec t + t_off t) && (t_sec t + t_off t <? 253402300800) &&
   (t_off t mod 60 =? 0) && (-86400 <? t_off t) && (t_off t <? 86400))%Z.

(* message identifiers go-message can parse: dot-atom-text "@" (dot-atom-text / "[" dtext "]"),
   7-bit *)
Definition is_atext (c : byte) : bool :=
  let n := b2n c in
  (33 <=? n) && (n <=? 126) &&
  negb (existsb (N.eqb n) [40; 41; 91; 93; 59; 64; 92; 44; 60; 62; 34; 58]).
Definition is_dtext (c : byte) : bool :=
  let n := b2n c in (33 <=? n) && (n <=? 126) && negb (existsb (N.eqb n) [91; 93; 92]).
Definition msgid_ok (id : bytes) : bool :=
  match index_of (ch "@") id with
  | None => false
  | Some i =>
      let l := firstn i id in
      let r := skipn (S i) id in
      negb (lnil l) && forallb is_atext l &&
      match r with
      | [] => false
      | c :: r' =>
          if b2n c =? 91 then
            match rev r' with
            | last :: mid => (b2n last =? 93) && forallb is_dtext mid
            | [] => false
            end
          else forallb is_atext r
      end
  end.

(* printable ASCII of at most 4096 bytes: always written as a quoted string *)
Definition plain (s : bytes) : bool :=
  (N.of_nat (length s) <=? 4096) && forallb (fun c => (32 <=? b2n c) && (b2n c <=? 126)) s.

Definition LT : bytes := s2b "<".
Definition GT : bytes := s2b ">".

Record ext_ok (x : ext) : Prop := mkExtOk {
  (* mime: DecodeHeader inverts QEncoding.Encode, and the server's own hideEncodedWords *)
  xo_qword : forall s, needs_encoding s = true -> decode_text x (x_qword x s) = s;
  xo_hide : forall s, contains_eqq s = true -> decode_text x (hide_words s) = s;
  (* time: parsing what Format printed gives the time to the second *)
  xo_env_date : forall t, time_ok t = true ->
    x_parse_env_date x (x_fmt_env_date x t) = time_norm t;
  xo_env_date_nil : x_parse_env_date x [] = zero_time;
  xo_idate : forall t, time_ok t = true -> x_parse_idate x (x_fmt_idate x t) = Some (time_norm t);
  xo_idate_plain : forall t, time_ok t = true -> plain (x_fmt_idate x t) = true;
  (* go-message *)
  xo_msgid : forall id, msgid_ok id = true -> x_msgid x (LT ++ id ++ GT) = id;
  xo_msgid_nil : x_msgid x [] = [];
  xo_msgid_list : forall ids, ids <> [] -> forallb msgid_ok ids = true ->
    x_msgid_list x (LT ++ join_bytes (s2b "> <") ids ++ GT) = ids;
  xo_msgid_list_nil : x_msgid_list x [] = []
}.

(* ---------------------------------------------------------------------------------------- *)
(* flags and attributes                                                                       *)

Definition norm_flags (l : list bytes) : list bytes := map canonical_flag l.
Definition norm_attrs (l : list bytes) : list bytes := map (fun a => canonical_attr (canonical_flag a)) l.

(* ---------------------------------------------------------------------------------------- *)
(* envelope                                                                                   *)

Definition norm_addrs (l : option (list address)) : option (list address) :=
  match l with Some (a :: r) => Some (a :: r) | _ => None end.

Definition norm_env (e : option envelope) : envelope :=
  let e := match e with Some e => e | None => empty_envelope end in
  mkEnv (let date := zone_fix (e_date e) in if time_is_zero date then zero_time else time_norm date)
        (e_subject e)
        (norm_addrs (e_from e))
        (norm_addrs (match e_sender e with None => e_from e | s => s end))
        (norm_addrs (match e_replyto e with None => e_from e | s => s end))
        (norm_addrs (e_to e)) (norm_addrs (e_cc e)) (norm_addrs (e_bcc e))
        (e_inreplyto e) (e_msgid e).

Definition wf_addr (x : ext) (a : address) : bool :=
  fits (header_text x (a_name a)) && fits (a_mailbox a) && fits (a_host a).
Definition wf_addrs (x : ext) (l : option (list address)) : bool :=
  match l with None => true | Some l => forallb (wf_addr x) l end.

Definition wf_env (x : ext) (e : option envelope) : bool :=
  match e with
  | None => true
  | Some e =>
      (let date := zone_fix (e_date e) in
       time_is_zero date || (time_ok date && fits (x_fmt_env_date x date))) &&
      fits (header_text x (e_subject e)) &&
      wf_addrs x (e_from e) && wf_addrs x (e_sender e) && wf_addrs x (e_replyto e) &&
      wf_addrs x (e_to e) && wf_addrs x (e_cc e) && wf_addrs x (e_bcc e) &&
      forallb msgid_ok (e_inreplyto e) &&
      fits (LT ++ join_bytes (s2b "> <") (e_inreplyto e) ++ GT) &&
      (is_nil (e_msgid e) || (msgid_ok (e_msgid e) && fits (LT ++ e_msgid e ++ GT)))
  end.

(* ---------------------------------------------------------------------------------------- *)
(* body structure                                                                             *)

Definition lower_keys (l : list (bytes * bytes)) : list (bytes * bytes) :=
  map (fun kv => (ascii_lower (fst kv), snd kv)) l.

Definition norm_params (p : params) : params :=
  match p with
  | Some (kv :: l) => Some (sort_kv (lower_keys (kv :: l)))
  | _ => None
  end.

Fixpoint nodup_b (l : list bytes) : bool :=
  match l with
  | [] => true
  | a :: r => negb (existsb (bytes_eqb a) r) && nodup_b r
  end.

(* a Go map: distinct names; names are 7-bit (possibly empty) and stay distinct when lower-cased *)
Definition wf_params (p : params) : bool :=
  match p with
  | None => true
  | Some l =>
      forallb (fun kv => seven (fst kv) && fits (fst kv) && fits (hide_words (snd kv))) l &&
      nodup_b (map fst l) && nodup_b (map fst (lower_keys l))
  end.

Definition norm_disp (d : dispo) : dispo :=
  match d with Some (v, p) => Some (v, norm_params p) | None => None end.
Definition wf_disp (d : dispo) : bool :=
  match d with Some (v, p) => fits v && wf_params p | None => true end.
Definition norm_lang (l : option (list bytes)) : option (list bytes) :=
  match l with Some (a :: r) => Some (a :: r) | _ => None end.
Definition wf_lang (l : option (list bytes)) : bool :=
  match l with Some l => forallb fits l | None => true end.

Definition norm_spx (e : sp_ext) : sp_ext := mkSPX (norm_disp (spx_disp e)) (norm_lang (spx_lang e)) (spx_loc e).
Definition wf_spx (e : sp_ext) : bool := wf_disp (spx_disp e) && wf_lang (spx_lang e) && fits (spx_loc e).
Definition norm_mpx (e : mp_ext) : mp_ext :=
  mkMPX (norm_params (mpx_params e)) (norm_disp (mpx_disp e)) (norm_lang (mpx_lang e)) (mpx_loc e).
Definition wf_mpx (e : mp_ext) : bool :=
  wf_params (mpx_params e) && wf_disp (mpx_disp e) && wf_lang (mpx_lang e) && fits (mpx_loc e).

Definition norm_encoding (enc : bytes) : bytes := if is_nil enc then s2b "7BIT" else ascii_upper enc.

(* a text part always travels with a line count: an unset Text is delivered as zero lines *)
Definition norm_text (typ : bytes) (msg : option (option envelope * bstruct * Z)) (text : option Z) : option Z :=
  match msg, text with
  | None, None => if is_text_type typ then Some 0%Z else None
  | _, _ => text
  end.

(* extended = BODYSTRUCTURE (extension data written and read), otherwise BODY *)
Fixpoint norm_bs (extended : bool) (b : bstruct) : bstruct :=
  match b with
  | BSingle typ subtyp pr id desc enc size msg text ext =>
      BSingle typ subtyp (norm_params pr) id desc (norm_encoding enc) size
        (match msg with
         | Some (e, b', lines) => Some (Some (norm_env e), norm_bs extended b', lines)
         | None => None
         end)
        (norm_text typ msg text)
        (if extended then option_map norm_spx ext else None)
  | BMulti children subtyp ext =>
      BMulti (map (norm_bs extended) children) subtyp (if extended then option_map norm_mpx ext else None)
  end.

(* nesting: the client refuses more than 1000 levels *)
Fixpoint bs_height (b : bstruct) : nat :=
  match b with
  | BSingle _ _ _ _ _ _ _ msg _ _ =>
      match msg with Some (_, b', _) => S (bs_height b') | None => 1%nat end
  | BMulti children _ _ => S (fold_right (fun c m => Nat.max (bs_height c) m) O children)
  end.

Fixpoint wf_bs (x : ext) (extended : bool) (b : bstruct) : bool :=
  match b with
  | BSingle typ subtyp pr id desc enc size msg text ext =>
      fits typ && fits subtyp && wf_params pr && fits id && fits (hide_words desc) &&
      seven enc && fits enc && u32 size &&
      (match msg with
       | Some (e, b', lines) =>
           is_message_type typ subtyp && wf_env x e && wf_bs x extended b' && i64 lines &&
           (match text with None => true | Some _ => false end)
       | None => true
       end) &&
      (match text with Some lines => is_text_type typ && i64 lines | None => true end) &&
      (if extended then
         (match ext with Some e => wf_spx e | None => false end) &&
         (negb (is_message_type typ subtyp) || (match msg with Some _ => true | None => false end))
       else true)
  | BMulti children subtyp ext =>
      negb (lnil children) && forallb (wf_bs x extended) children && fits subtyp &&
      (if extended then match ext with Some e => wf_mpx e | None => false end else true)
  end.

(* ---------------------------------------------------------------------------------------- *)
(* FETCH items                                                                                *)

Definition wf_part (p : list Z) : bool := forallb (fun z => (0 <=? z)%Z && (z <? 4294967296)%Z) p.

Definition known_spec (s : bytes) : bool :=
  is_nil s || bytes_eqb s (s2b "HEADER") || bytes_eqb s (s2b "TEXT") || bytes_eqb s (s2b "MIME").

Definition wf_section (s : section) : bool :=
  wf_part (sec_part s) && known_spec (sec_spec s) &&
  (lnil (sec_fields s) || lnil (sec_notfields s)) &&
  ((lnil (sec_fields s) && lnil (sec_notfields s)) || bytes_eqb (sec_spec s) (s2b "HEADER")) &&
  forallb fits (sec_fields s) && forallb fits (sec_notfields s) &&
  (match sec_partial s with Some (off, _) => i64 off | None => true end).

(* the size of the partial range and Peek are not part of the response *)
Definition norm_section (s : section) : section :=
  mkSec (sec_spec s) (sec_part s) (sec_fields s) (sec_notfields s)
        (match sec_partial s with Some (off, _) => Some (off, 0%Z) | None => None end) false.

Definition wf_item (x : ext) (nonext extd : bool) (i : fitem) : bool :=
  match i with
  | FUid n => (0 <? n) && u32 n
  | FFlags _ => true                                  (* invalid flags are refused by the writer *)
  | FSize z => i64 z
  | FIDate t =>
      let t := zone_fix t in time_ok t && negb (time_is_zero (time_norm t)) && fits (x_fmt_idate x t)
  | FEnvelope e => wf_env x e
  | FBody bs =>
      (if nonext then wf_bs x false bs else true) && (if extd then wf_bs x true bs else true) &&
      Nat.leb (bs_height bs) 1000
  | FSection s data => wf_section s && fits data
  | FBinary p data => wf_part p && fits data
  | FBinSize p n => wf_part p && u32 n
  end.

Definition norm_item (nonext extd : bool) (i : fitem) : list citem :=
  match i with
  | FUid n => [CUid n]
  | FFlags l => [CFlags (norm_flags l)]
  | FSize z => [CSize (Z.to_N z)]
  | FIDate t => [CIDate (time_norm (zone_fix t))]
  | FEnvelope e => [CEnvelope (norm_env e)]
  | FBody bs =>
      (if nonext then [CBody (norm_bs false bs) false] else []) ++
      (if extd then [CBody (norm_bs true bs) true] else [])
  | FSection s data => [CSection (norm_section s) (Some data)]
  | FBinary p data => [CBinary p (Some data)]
  | FBinSize p n => [CBinSize p n]
  end.

Definition norm_items (nonext extd : bool) (l : list fitem) : list citem := flat_map (norm_item nonext extd) l.
Definition norm_msgs (nonext extd : bool) (msgs : list (N * list fitem)) : list (N * list citem) :=
  map (fun m => (fst m, norm_items nonext extd (snd m))) msgs.

(* which number a message is matched to its command by: the sequence number, or for UID FETCH
   the UID, which the backend writes once, anywhere among the items *)
Fixpoint the_uid (l : list fitem) : option N :=
  match l with
  | [] => None
  | FUid u :: rest => if existsb (fun i => match i with FUid _ => true | _ => false end) rest then None else Some u
  | _ :: rest => the_uid rest
  end.
Definition msg_key (uid : bool) (m : N * list fitem) : option N :=
  if uid then the_uid (snd m) else Some (fst m).

Fixpoint nodup_n (l : list N) : bool :=
  match l with [] => true | a :: r => negb (existsb (N.eqb a) r) && nodup_n r end.

Definition keys_of (uid : bool) (msgs : list (N * list fitem)) : option (list N) :=
  fold_right (fun m acc => match msg_key uid m, acc with Some k, Some l => Some (k :: l) | _, _ => None end)
             (Some []) msgs.

(* the backend answers with messages the command asked for, each once *)
Definition wf_fetch (x : ext) (nonext extd uid : bool) (req : nset) (msgs : list (N * list fitem)) : bool :=
  canon req &&
  forallb (fun m => (0 <? fst m) && u32 (fst m) && forallb (wf_item x nonext extd) (snd m)) msgs &&
  match keys_of uid msgs with
  | Some ks => nodup_n ks && forallb (fun k => (0 <? k) && u32 k && den req k) ks
  | None => false
  end.

(* ---------------------------------------------------------------------------------------- *)
(* STATUS / LIST / SELECT                                                                     *)

Definition opt_u32 (v : option N) : bool := match v with Some n => u32 n | None => true end.
Definition opt_i64 (v : option Z) : bool := match v with Some z => i64 z | None => true end.

(* what is not requested is not sent; numbers fit their Go types *)
Definition wf_status (d : status_data) : bool :=
  wf_mailbox (sd_mailbox d) && opt_u32 (sd_messages d) && u32 (sd_uidnext d) && u32 (sd_uidvalidity d) &&
  opt_u32 (sd_unseen d) && opt_u32 (sd_deleted d) && opt_i64 (sd_size d) && opt_u32 (sd_appendlimit d) &&
  opt_i64 (sd_deleted_storage d).

Definition norm_status (o : status_opts) (d : status_data) : status_data :=
  mkSD (norm_mailbox (sd_mailbox d))
       (if so_messages o then sd_messages d else None)
       (if so_uidnext o then sd_uidnext d else 0)
       (if so_uidvalidity o then sd_uidvalidity d else 0)
       (if so_unseen o then sd_unseen d else None)
       (if so_deleted o then sd_deleted d else None)
       (if so_size o then sd_size d else None)
       (if so_appendlimit o then Some (match sd_appendlimit d with Some n => n | None => 4294967295 end) else None)
       (if so_deleted_storage o then sd_deleted_storage d else None).

Definition norm_list (rs : option status_opts) (d : list_data) : list_data :=
  mkLD (norm_attrs (ld_attrs d)) (ld_delim d) (norm_mailbox (ld_mailbox d)) (ld_childinfo d)
       (if is_nil (ld_oldname d) then [] else norm_mailbox (ld_oldname d))
       (match rs, ld_status d with Some o, Some sd => Some (norm_status o sd) | _, _ => None end).

(* with RETURN (STATUS ...) the status data supplied for a mailbox carries that mailbox's name *)
Definition wf_list (rs : option status_opts) (d : list_data) : bool :=
  wf_delim (ld_delim d) && wf_mailbox (ld_mailbox d) && (is_nil (ld_oldname d) || wf_mailbox (ld_oldname d)) &&
  match rs, ld_status d with
  | Some _, Some sd => wf_status sd && bytes_eqb (norm_mailbox (sd_mailbox sd)) (norm_mailbox (ld_mailbox d))
  | _, _ => true
  end.

Definition norm_select (d : select_data) : select_data :=
  mkSel (norm_flags (sl_flags d)) (norm_flags (sl_permflags d)) (sl_num d) (sl_uidnext d) (sl_uidvalidity d)
        (option_map (norm_list None) (sl_list d)).
Definition wf_select (mbox : bytes) (d : select_data) : bool :=
  u32 (sl_num d) && u32 (sl_uidnext d) && u32 (sl_uidvalidity d) &&
  match sl_list d with
  | Some l => wf_list None l && same_mailbox mbox (norm_mailbox (ld_mailbox l))
  | None => true
  end.

(* ---------------------------------------------------------------------------------------- *)
(* SEARCH                                                                                     *)

Definition wf_tag (t : bytes) : bool :=
  negb (is_nil t) && forallb is_atom_char t && negb (has_prefix (s2b "+") t).

Definition wf_search (d : search_data) : bool :=
  match sr_all d with
  | Some s => canon s && negb (dynamic s)
  | None => false
  end && u32 (sr_min d) && u32 (sr_max d) && u32 (sr_count d).

Definition norm_search (rev2 extended : bool) (o : search_opts) (d : search_data) : search_data :=
  let o := eff_search_opts o in
  if rev2 || extended then
    mkSeD (match sr_all d with Some (r :: s) => if se_all o then Some (r :: s) else None | _ => None end)
          (sr_uid d)
          (if se_min o then sr_min d else 0) (if se_max o then sr_max d else 0)
          (if se_count o then sr_count d else 0)
  else mkSeD (sr_all d) false 0 0 0.

(* ---------------------------------------------------------------------------------------- *)
(* APPENDUID / COPYUID / NAMESPACE / CAPABILITY / EXPUNGE                                     *)

Definition wf_append (d : option append_data) : bool :=
  match d with Some a => (0 <? ad_uid a) && u32 (ad_uid a) && u32 (ad_uidvalidity a) | None => true end.
Definition norm_append (d : option append_data) : append_data :=
  match d with Some a => a | None => mkAD 0 0 end.

Definition wf_copy (d : option copy_data) : bool :=
  match d with
  | Some c => u32 (cd_uidvalidity c) && canon (cd_src c) && negb (dynamic (cd_src c)) &&
              canon (cd_dst c) && negb (dynamic (cd_dst c))
  | None => true
  end.
(* nothing is reported when one of the sets is empty *)
Definition norm_copy (d : option copy_data) : copy_data :=
  match copy_code d with CCopyUID v s t => mkCD v s t | _ => mkCD 0 [] [] end.

Definition wf_nsl (l : option (list ns_descr)) : bool :=
  match l with Some l => forallb (fun d => fits (fst d) && wf_delim (snd d)) l | None => true end.
Definition wf_ns (d : ns_data) : bool := wf_nsl (ns_personal d) && wf_nsl (ns_other d) && wf_nsl (ns_shared d).
Definition norm_nsl (l : option (list ns_descr)) : option (list ns_descr) :=
  match l with Some (a :: r) => Some (a :: r) | _ => None end.
Definition norm_ns (d : ns_data) : ns_data :=
  mkNS (norm_nsl (ns_personal d)) (norm_nsl (ns_other d)) (norm_nsl (ns_shared d)).

Definition wf_cap (c : bytes) : bool := negb (is_nil c) && forallb is_atom_char c.
Definition wf_seqs (l : list N) : bool := forallb (fun n => (0 <? n) && u32 n) l.
