(* Proofs/CmdDateProofs.v — the two date layouts round-trip (Model/CmdDate.v). *)
From GoImap.Base Require Import Bytes.
From GoImap.Model Require Import NumSet MatchList Utf7 Wire CmdDate.
From GoImap.Proofs Require WireLemmas.
Open Scope Z_scope.

(* printable 7-bit text: what Encoder.String always writes as a quoted string *)
Definition plain_ascii (s : bytes) : bool :=
  forallb (fun c => (32 <=? Z.of_N (b2n c)) && (Z.of_N (b2n c) <=? 126) &&
                    negb (Z.of_N (b2n c) =? 34) && negb (Z.of_N (b2n c) =? 92)) s.

(* ---- helpers: civil dates ---------------------------------------------------------------- *)
(* the era-independent part of civil_of_days: (year of era, month, day) from the day of era *)
Definition coe (doe : Z) : Z * Z * Z :=
  let yoe := (doe - doe / 1460 + doe / 36524 - doe / 146096) / 365 in
  let doy := doe - (365 * yoe + yoe / 4 - yoe / 100) in
  let mp := (5 * doy + 2) / 153 in
  let dd := doy - (153 * mp + 2) / 5 + 1 in
  let mm := if mp <? 10 then mp + 3 else mp - 9 in
  (yoe, mm, dd).

Lemma civil_of_days_coe : forall d, civil_of_days d =
  let '(yoe, mm, dd) := coe ((d + 306) mod 146097) in
  ((if mm <=? 2 then yoe + 1 else yoe) + (d + 306) / 146097 * 400, mm, dd).
Proof.
  intro d. unfold civil_of_days, coe. cbv zeta.
  match goal with |- context [if ?c <=? 2 then _ else _] => destruct (c <=? 2) end;
    f_equal; f_equal; ring.
Qed.

Definition check (doe : Z) : bool :=
  let '(yoe, mm, dd) := coe doe in
  let Y := if mm <=? 2 then yoe + 1 else yoe in
  (0 <=? yoe) && (yoe <? 400) && (1 <=? mm) && (mm <=? 12) && (1 <=? dd) && (dd <=? days_in_month Y mm)
  && (yoe * 365 + yoe / 4 - yoe / 100 + ((153 * (if 2 <? mm then mm - 3 else mm + 9) + 2) / 5 + dd - 1) =? doe)
  && ((doe <? 306) || (1 <=? Y)) && ((146036 <? doe) || (Y <=? 399)).

Fixpoint check_range (n : nat) (z : Z) : bool :=
  match n with O => true | S n' => check z && check_range n' (z + 1) end.

Lemma check_range_ok : forall n z, check_range n z = true ->
  forall k, z <= k < z + Z.of_nat n -> check k = true.
Proof.
  induction n as [|n IH]; intros z H k Hk; [lia|].
  simpl in H. apply andb_true_iff in H. destruct H as [H1 H2].
  destruct (Z.eq_dec k z) as [->|Ne]; [exact H1|].
  apply (IH (z + 1) H2). lia.
Qed.

Lemma check_all : check_range (Z.to_nat 146097) 0 = true.
Proof. vm_cast_no_check (@eq_refl bool true). Qed.

Lemma check_ok : forall doe, 0 <= doe < 146097 -> check doe = true.
Proof.
  intros doe H. apply (check_range_ok _ _ check_all). lia.
Qed.

Lemma is_leap_add400 : forall y e, is_leap (y + e * 400) = is_leap y.
Proof.
  intros y e. unfold is_leap.
  replace ((y + e * 400) mod 4) with (y mod 4)
    by (replace (e * 400) with (e * 100 * 4) by ring; symmetry; apply Z.mod_add; lia).
  replace ((y + e * 400) mod 100) with (y mod 100)
    by (replace (e * 400) with (e * 4 * 100) by ring; symmetry; apply Z.mod_add; lia).
  replace ((y + e * 400) mod 400) with (y mod 400) by (symmetry; apply Z.mod_add; lia).
  reflexivity.
Qed.

Lemma civil_roundtrip : forall d, day_in_range d = true ->
  let '(y, m, dd) := civil_of_days d in
  days_of_civil y m dd = d /\ 1 <= y <= 9999 /\ 1 <= m <= 12 /\ valid_civil y m dd = true.
Proof.
  intros d H. unfold day_in_range, MAXDAY in H. apply andb_true_iff in H. destruct H as [H0 H1].
  apply Z.leb_le in H0. apply Z.leb_le in H1.
  rewrite civil_of_days_coe.
  pose proof (Z.div_mod (d + 306) 146097 ltac:(lia)) as E.
  pose proof (Z.mod_pos_bound (d + 306) 146097 ltac:(lia)) as B.
  set (era := (d + 306) / 146097) in *. set (doe := (d + 306) mod 146097) in *.
  pose proof (check_ok doe B) as C. unfold check in C.
  destruct (coe doe) as [[yoe mm] dd]. cbv zeta in C.
  repeat (apply andb_true_iff in C; let X := fresh "C" in destruct C as [C X]).
  apply Z.leb_le in C. apply Z.ltb_lt in C7. apply Z.leb_le in C6. apply Z.leb_le in C5.
  apply Z.leb_le in C4. apply Z.leb_le in C3. apply Z.eqb_eq in C2.
  assert (Era : 0 <= era <= 24) by lia.
  assert (Ylo : doe < 306 \/ 1 <= (if mm <=? 2 then yoe + 1 else yoe)).
  { apply orb_true_iff in C1. destruct C1 as [C1|C1]; [left; apply Z.ltb_lt in C1|right; apply Z.leb_le in C1]; exact C1. }
  assert (Yhi : 146036 < doe \/ (if mm <=? 2 then yoe + 1 else yoe) <= 399).
  { apply orb_true_iff in C0. destruct C0 as [C0|C0]; [left; apply Z.ltb_lt in C0|right; apply Z.leb_le in C0]; exact C0. }
  split; [|split; [|split]].
  - unfold days_of_civil. cbv zeta.
    assert (Y' : (if mm <=? 2 then (if mm <=? 2 then yoe + 1 else yoe) + era * 400 - 1
                  else (if mm <=? 2 then yoe + 1 else yoe) + era * 400) = yoe + era * 400)
      by (destruct (mm <=? 2); ring).
    rewrite Y'. rewrite Z.div_add by lia. rewrite Z.mod_add by lia.
    rewrite Z.div_small by lia. rewrite Z.mod_small by lia. lia.
  - destruct (mm <=? 2); lia.
  - lia.
  - unfold valid_civil. apply andb_true_iff. split; [apply Z.leb_le; lia|].
    apply Z.leb_le. unfold days_in_month in *. rewrite is_leap_add400. exact C3.
Qed.

(* ---- helpers: digits and numbers ---------------------------------------------------------- *)
Definition pb (c : byte) : bool :=
  (32 <=? Z.of_N (b2n c)) && (Z.of_N (b2n c) <=? 126) &&
  negb (Z.of_N (b2n c) =? 34) && negb (Z.of_N (b2n c) =? 92).

Lemma digit_spec : forall v,
  is_digit (digit v) = true /\ dval (digit v) = v mod 10 /\ pb (digit v) = true /\
  beqb (digit v) (ch " ") = false /\ beqb (digit v) (ch "-") = false.
Proof.
  intro v. unfold digit.
  assert (H : 0 <= v mod 10 < 10) by (apply Z.mod_pos_bound; lia).
  set (k := v mod 10) in *.
  assert (K : k = 0 \/ k = 1 \/ k = 2 \/ k = 3 \/ k = 4 \/ k = 5 \/ k = 6 \/ k = 7 \/ k = 8 \/ k = 9) by lia.
  clearbody k.
  repeat (destruct K as [K|K]; [subst k; vm_compute; auto 10|]). subst k; vm_compute; auto 10.
Qed.

Lemma is_digit_digit : forall v, is_digit (digit v) = true.
Proof. intro v. apply digit_spec. Qed.
Lemma dval_digit : forall v, dval (digit v) = v mod 10.
Proof. intro v. apply digit_spec. Qed.
Lemma pb_digit : forall v, pb (digit v) = true.
Proof. intro v. apply digit_spec. Qed.
Lemma digit_not_sp : forall v, beqb (digit v) (ch " ") = false.
Proof. intro v. apply digit_spec. Qed.
Lemma digit_not_dash : forall v, beqb (digit v) (ch "-") = false.
Proof. intro v. apply digit_spec. Qed.

Local Opaque digit.

Lemma dec2_val : forall v, 0 <= v < 100 -> dval (digit (v / 10)) * 10 + dval (digit v) = v.
Proof. intros v H. rewrite !dval_digit. Z.div_mod_to_equations. lia. Qed.

Lemma dec4_val : forall v, 0 <= v < 10000 ->
  dval (digit (v / 1000)) * 1000 + dval (digit (v / 100)) * 100 + dval (digit (v / 10)) * 10 + dval (digit v) = v.
Proof. intros v H. rewrite !dval_digit. Z.div_mod_to_equations. lia. Qed.

Lemma getnum_dec2 : forall fixed v r, 0 <= v < 100 -> getnum fixed (dec2 v ++ r) = Some (v, r).
Proof.
  intros fixed v r H. unfold dec2, getnum. simpl app. cbv beta iota. rewrite !is_digit_digit, dec2_val by exact H. reflexivity.
Qed.

Lemma is_digit_dash : is_digit (ch "-") = false.
Proof. reflexivity. Qed.

Lemma getnum_day1 : forall v r, 0 <= v < 10 ->
  getnum false (digit v :: ch "-" :: r) = Some (v, ch "-" :: r).
Proof.
  intros v r H. unfold getnum. cbv beta iota. rewrite is_digit_digit, is_digit_dash, dval_digit.
  rewrite Z.mod_small by lia. reflexivity.
Qed.

Lemma getyear_dec4 : forall v r, 0 <= v < 10000 -> getyear (dec4 v ++ r) = Some (v, r).
Proof.
  intros v r H. unfold dec4, getyear. simpl app. cbv beta iota. rewrite !is_digit_digit, dec4_val by exact H. reflexivity.
Qed.

Lemma lookup_month_name : forall m r, 1 <= m <= 12 ->
  lookup_month month_names 1 (month_name m ++ r) = Some (m, r).
Proof.
  intros m r H.
  assert (K : m = 1 \/ m = 2 \/ m = 3 \/ m = 4 \/ m = 5 \/ m = 6 \/ m = 7 \/ m = 8 \/ m = 9 \/ m = 10 \/ m = 11 \/ m = 12) by lia.
  repeat (destruct K as [K|K]; [subst m; reflexivity|]). subst m; reflexivity.
Qed.

Lemma expect_dash : forall r, expect_byte (ch "-") (s2b "-" ++ r) = Some r.
Proof. reflexivity. Qed.
Lemma expect_sp : forall r, expect_byte (ch " ") (s2b " " ++ r) = Some r.
Proof. reflexivity. Qed.
Lemma expect_colon : forall r, expect_byte (ch ":") (s2b ":" ++ r) = Some r.
Proof. reflexivity. Qed.

Lemma parse_dmy_tail : forall d m y r, 1 <= m <= 12 -> 0 <= y < 10000 ->
  match expect_byte (ch "-") (s2b "-" ++ month_name m ++ s2b "-" ++ dec4 y ++ r) with
  | Some s2 =>
      match lookup_month month_names 1 s2 with
      | Some (m, s3) =>
          match expect_byte (ch "-") s3 with
          | Some s4 =>
              match getyear s4 with
              | Some (y, s5) => Some (y, m, d, s5)
              | None => None
              end
          | None => None
          end
      | None => None
      end
  | None => None
  end = Some (y, m, d : Z, r) .
Proof.
  intros d m y r Hm Hy.
  rewrite expect_dash, lookup_month_name by exact Hm.
  rewrite expect_dash, getyear_dec4 by exact Hy. reflexivity.
Qed.

Lemma parse_dmy_plain : forall y m dd r, 1 <= dd < 100 -> 1 <= m <= 12 -> 0 <= y < 10000 ->
  parse_dmy false (dec_day dd ++ s2b "-" ++ month_name m ++ s2b "-" ++ dec4 y ++ r) = Some (y, m, dd, r).
Proof.
  intros y m dd r Hd Hm Hy. unfold parse_dmy, dec_day.
  destruct (dd <? 10) eqn:E.
  - apply Z.ltb_lt in E.
    change ([digit dd] ++ s2b "-" ++ month_name m ++ s2b "-" ++ dec4 y ++ r)
      with (digit dd :: ch "-" :: month_name m ++ s2b "-" ++ dec4 y ++ r).
    rewrite getnum_day1 by lia.
    apply (parse_dmy_tail dd m y r Hm Hy).
  - rewrite getnum_dec2 by lia.
    apply (parse_dmy_tail dd m y r Hm Hy).
Qed.

Lemma parse_dmy_under : forall y m dd r, 1 <= dd < 100 -> 1 <= m <= 12 -> 0 <= y < 10000 ->
  parse_dmy true ((if dd <? 10 then s2b " " ++ [digit dd] else dec2 dd) ++
                  s2b "-" ++ month_name m ++ s2b "-" ++ dec4 y ++ r) = Some (y, m, dd, r).
Proof.
  intros y m dd r Hd Hm Hy. unfold parse_dmy.
  set (R := month_name m ++ s2b "-" ++ dec4 y ++ r).
  destruct (dd <? 10) eqn:E.
  - apply Z.ltb_lt in E.
    change ((s2b " " ++ [digit dd]) ++ s2b "-" ++ R) with (ch " " :: digit dd :: ch "-" :: R).
    cbv beta iota. change (beqb (ch " ") (ch " ")) with true. cbv beta iota.
    rewrite getnum_day1 by lia.
    apply (parse_dmy_tail dd m y r Hm Hy).
  - change (dec2 dd ++ s2b "-" ++ R) with (digit (dd / 10) :: digit dd :: s2b "-" ++ R).
    cbv beta iota. rewrite digit_not_sp.
    change (digit (dd / 10) :: digit dd :: s2b "-" ++ R) with (dec2 dd ++ s2b "-" ++ R).
    rewrite getnum_dec2 by lia.
    apply (parse_dmy_tail dd m y r Hm Hy).
Qed.

Lemma year_text_range : forall y, 0 <= y <= 9999 -> year_text y = dec4 y.
Proof.
  intros y H. unfold year_text, pad4.
  replace (y <? 0) with false by (symmetry; apply Z.ltb_ge; lia).
  replace (y <=? 9999) with true by (symmetry; apply Z.leb_le; lia). reflexivity.
Qed.

Lemma date_roundtrip : forall d, day_in_range d = true -> parse_date (fmt_date d) = Some d.
Proof.
  intros d H. pose proof (civil_roundtrip d H) as C. unfold fmt_date, parse_date.
  destruct (civil_of_days d) as [[y m] dd]. destruct C as (C1 & C2 & C3 & C4).
  assert (Hd : 1 <= dd < 100).
  { unfold valid_civil in C4. apply andb_true_iff in C4. destruct C4 as [A B].
    apply Z.leb_le in A. apply Z.leb_le in B. unfold days_in_month in B.
    destruct (m =? 2); [destruct (is_leap y)|destruct (_ || _)]; lia. }
  rewrite (year_text_range y) by lia.
  replace (dec_day dd ++ s2b "-" ++ month_name m ++ s2b "-" ++ dec4 y)
    with (dec_day dd ++ s2b "-" ++ month_name m ++ s2b "-" ++ dec4 y ++ []) by (rewrite app_nil_r; reflexivity).
  rewrite parse_dmy_plain by lia. rewrite C4, C1. reflexivity.
Qed.

(* ---- helpers: zone and time of day -------------------------------------------------------- *)
Lemma parse_zone_dec : forall sg a b, 0 <= a <= 24 -> 0 <= b <= 60 ->
  parse_zone (sg :: dec2 a ++ dec2 b) =
  if beqb sg (ch "+") then Some ((a * 60 + b) * 60, [])
  else if beqb sg (ch "-") then Some (- ((a * 60 + b) * 60), []) else None.
Proof.
  intros sg a b Ha Hb. unfold parse_zone, dec2. simpl app. cbv beta iota.
  rewrite !is_digit_digit. simpl andb. cbv beta iota.
  rewrite !dec2_val by lia.
  replace (24 <? a) with false by (symmetry; apply Z.ltb_ge; lia).
  replace (60 <? b) with false by (symmetry; apply Z.ltb_ge; lia).
  reflexivity.
Qed.

Lemma parse_zone_fmt : forall off, off mod 60 = 0 -> -86400 < off < 86400 ->
  parse_zone (fmt_zone off) = Some (off, []).
Proof.
  intros off Hm Hr. unfold fmt_zone. cbv zeta.
  assert (Q : Z.quot off 60 * 60 = off) by (Z.to_euclidean_division_equations; lia).
  set (zone := Z.quot off 60) in *.
  destruct (zone <? 0) eqn:E.
  - apply Z.ltb_lt in E.
    change (s2b "-" ++ dec2 (- zone / 60) ++ dec2 ((- zone) mod 60))
      with (ch "-" :: dec2 (- zone / 60) ++ dec2 ((- zone) mod 60)).
    rewrite parse_zone_dec by (Z.div_mod_to_equations; lia).
    change (beqb (ch "-") (ch "+")) with false. change (beqb (ch "-") (ch "-")) with true. cbv iota.
    f_equal. f_equal. Z.div_mod_to_equations; lia.
  - apply Z.ltb_ge in E.
    change (s2b "+" ++ dec2 (zone / 60) ++ dec2 (zone mod 60))
      with (ch "+" :: dec2 (zone / 60) ++ dec2 (zone mod 60)).
    rewrite parse_zone_dec by (Z.div_mod_to_equations; lia).
    change (beqb (ch "+") (ch "+")) with true. cbv iota.
    f_equal. f_equal. Z.div_mod_to_equations; lia.
Qed.

Lemma valid_civil_day : forall y m dd, valid_civil y m dd = true -> 1 <= dd < 100.
Proof.
  intros y m dd C4. unfold valid_civil in C4. apply andb_true_iff in C4. destruct C4 as [A B].
  apply Z.leb_le in A. apply Z.leb_le in B. unfold days_in_month in B.
  destruct (m =? 2); [destruct (is_leap y)|destruct (_ || _)]; lia.
Qed.

Lemma datetime_roundtrip : forall t, day_in_range (t_day t) = true ->
  t_off t mod 60 = 0 -> -86400 < t_off t < 86400 ->
  parse_datetime (fmt_datetime t) = Some (mkT (t_sec t) 0 (t_off t)).
Proof.
  intros t H Hm Hr. pose proof (civil_roundtrip (t_day t) H) as C.
  unfold fmt_datetime, parse_datetime.
  destruct (civil_of_days (t_day t)) as [[y m] dd]. destruct C as (C1 & C2 & C3 & C4).
  pose proof (valid_civil_day y m dd C4) as Hd.
  cbv zeta.
  rewrite (year_text_range y) by lia.
  assert (S : 0 <= t_sod t < 86400) by (unfold t_sod, DAYSEC; apply Z.mod_pos_bound; lia).
  set (s := t_sod t) in *.
  rewrite parse_dmy_under by lia.
  rewrite expect_sp.
  rewrite getnum_dec2 by (Z.div_mod_to_equations; lia).
  rewrite expect_colon.
  rewrite getnum_dec2 by (Z.div_mod_to_equations; lia).
  rewrite expect_colon.
  rewrite getnum_dec2 by (Z.div_mod_to_equations; lia).
  rewrite expect_sp.
  rewrite parse_zone_fmt by assumption.
  rewrite C4.
  replace (s / 3600 <? 24) with true by (symmetry; apply Z.ltb_lt; Z.div_mod_to_equations; lia).
  replace ((s / 60) mod 60 <? 60) with true by (symmetry; apply Z.ltb_lt; Z.div_mod_to_equations; lia).
  replace (s mod 60 <? 60) with true by (symmetry; apply Z.ltb_lt; Z.div_mod_to_equations; lia).
  simpl andb. cbv iota.
  f_equal. f_equal. rewrite C1. subst s. unfold t_day, t_sod, DAYSEC in *.
  Z.div_mod_to_equations. lia.
Qed.

(* ---- plain text and lengths ---------------------------------------------------------------- *)
Lemma plain_app : forall a b, plain_ascii (a ++ b) = plain_ascii a && plain_ascii b.
Proof. intros a b. unfold plain_ascii. apply forallb_app. Qed.

Lemma plain_cons : forall c s, plain_ascii (c :: s) = pb c && plain_ascii s.
Proof. reflexivity. Qed.

Lemma plain_dec2 : forall v, plain_ascii (dec2 v) = true.
Proof. intro v. unfold dec2. rewrite !plain_cons, !pb_digit. reflexivity. Qed.

Lemma plain_dec4 : forall v, plain_ascii (dec4 v) = true.
Proof. intro v. unfold dec4. rewrite !plain_cons, !pb_digit. reflexivity. Qed.

Lemma plain_dec_day : forall v, plain_ascii (dec_day v) = true /\ (length (dec_day v) <= 2)%nat.
Proof.
  intro v. unfold dec_day. destruct (v <? 10).
  - rewrite plain_cons, pb_digit. split; [reflexivity|simpl; lia].
  - rewrite plain_dec2. split; [reflexivity|simpl; lia].
Qed.

Lemma plain_month : forall m, plain_ascii (month_name m) = true /\ (length (month_name m) <= 3)%nat.
Proof.
  intro m. unfold month_name. generalize (Z.to_nat (m - 1)). intro n.
  do 12 (destruct n as [|n]; [vm_compute; split; [reflexivity|lia]|]).
  destruct n; vm_compute; split; try reflexivity; lia.
Qed.

Lemma plain_zone : forall off, plain_ascii (fmt_zone off) = true /\ length (fmt_zone off) = 5%nat.
Proof.
  intro off. unfold fmt_zone. cbv zeta. destruct (Z.quot off 60 <? 0);
    rewrite !plain_app, !plain_dec2, !app_length; split; reflexivity.
Qed.

Lemma pb_of_digit : forall c, is_digit c = true -> pb c = true.
Proof.
  intros c H.
  assert (A : forallb (fun n => let c := n2b n in implb (is_digit c) (pb c)) (map N.of_nat (seq 0 256)) = true)
    by (vm_compute; reflexivity).
  rewrite forallb_forall in A.
  specialize (A (b2n c)).
  assert (I : In (b2n c) (map N.of_nat (seq 0 256))).
  { apply in_map_iff. exists (N.to_nat (b2n c)). split; [apply Nnat.N2Nat.id|].
    apply in_seq. pose proof (N_ascii_bounded c). unfold b2n. lia. }
  specialize (A I). cbv zeta in A. unfold n2b, b2n in A. rewrite ascii_N_embedding in A.
  rewrite H in A. exact A.
Qed.

Lemma plain_digits : forall s, forallb is_digit s = true -> plain_ascii s = true.
Proof.
  induction s as [|c s IH]; intro H; [reflexivity|].
  simpl in H. apply andb_true_iff in H. destruct H as [H1 H2].
  rewrite plain_cons, (pb_of_digit c H1), (IH H2). reflexivity.
Qed.

Lemma plain_pad4 : forall v, plain_ascii (pad4 v) = true.
Proof.
  intro v. unfold pad4. destruct (v <=? 9999); [apply plain_dec4|].
  apply plain_digits. unfold dec_Z. apply WireLemmas.dec_digits.
Qed.

Lemma plain_year : forall y, plain_ascii (year_text y) = true.
Proof.
  intro y. unfold year_text. destruct (y <? 0); [|apply plain_pad4].
  rewrite plain_app, plain_pad4. reflexivity.
Qed.

Lemma fmt_date_plain : forall d, plain_ascii (fmt_date d) = true /\
  (day_in_range d = true -> (length (fmt_date d) <= 11)%nat).
Proof.
  intro d. split.
  - unfold fmt_date. destruct (civil_of_days d) as [[y m] dd].
    destruct (plain_dec_day dd) as [A1 A2]. destruct (plain_month m) as [B1 B2].
    rewrite !plain_app, A1, B1, plain_year. reflexivity.
  - intro H. pose proof (civil_roundtrip d H) as C. unfold fmt_date.
    destruct (civil_of_days d) as [[y m] dd]. destruct C as (C1 & C2 & C3 & C4).
    rewrite (year_text_range y) by lia.
    destruct (plain_dec_day dd) as [A1 A2]. destruct (plain_month m) as [B1 B2].
    rewrite !app_length. change (length (s2b "-")) with 1%nat. change (length (dec4 y)) with 4%nat. lia.
Qed.

Lemma fmt_datetime_plain : forall t, plain_ascii (fmt_datetime t) = true /\
  (day_in_range (t_day t) = true -> (length (fmt_datetime t) <= 26)%nat).
Proof.
  intro t.
  assert (DDP : forall dd, plain_ascii (if dd <? 10 then s2b " " ++ [digit dd] else dec2 dd) = true /\
                           length (if dd <? 10 then s2b " " ++ [digit dd] else dec2 dd) = 2%nat).
  { intro dd. destruct (dd <? 10).
    - change (s2b " " ++ [digit dd]) with (ch " " :: [digit dd]). rewrite !plain_cons, pb_digit. split; reflexivity.
    - rewrite plain_dec2. split; reflexivity. }
  split.
  - unfold fmt_datetime. destruct (civil_of_days (t_day t)) as [[y m] dd]. cbv zeta.
    destruct (plain_month m) as [B1 B2]. destruct (plain_zone (t_off t)) as [Z1 Z2].
    match goal with |- context [?X ++ s2b "-" ++ month_name m ++ _] => set (DD := X) end.
    assert (D : plain_ascii DD = true /\ length DD = 2%nat) by (subst DD; apply DDP).
    clearbody DD. destruct D as [D1 D2].
    rewrite !plain_app, D1, B1, Z1, !plain_dec2, plain_year. reflexivity.
  - intro H. pose proof (civil_roundtrip (t_day t) H) as C. unfold fmt_datetime.
    destruct (civil_of_days (t_day t)) as [[y m] dd]. destruct C as (C1 & C2 & C3 & C4). cbv zeta.
    rewrite (year_text_range y) by lia.
    destruct (plain_month m) as [B1 B2]. destruct (plain_zone (t_off t)) as [Z1 Z2].
    match goal with |- context [?X ++ s2b "-" ++ month_name m ++ _] => set (DD := X) end.
    assert (D : plain_ascii DD = true /\ length DD = 2%nat) by (subst DD; apply DDP).
    clearbody DD. destruct D as [D1 D2].
    rewrite !app_length, D2, Z2.
    change (length (s2b "-")) with 1%nat. change (length (s2b " ")) with 1%nat. change (length (s2b ":")) with 1%nat.
    change (length (dec4 y)) with 4%nat.
    change (length (dec2 (t_sod t / 3600))) with 2%nat.
    change (length (dec2 ((t_sod t / 60) mod 60))) with 2%nat.
    change (length (dec2 (t_sod t mod 60))) with 2%nat. lia.
Qed.

(* next day: what the server computes for ON / SENTON (t.Add(24h)) stays a midnight *)
Lemma day_succ : forall d, t_day (mkT (d * DAYSEC + DAYSEC) 0 0) = d + 1 /\ t_day (t_of_day d) = d.
Proof.
  intro d. unfold t_day, t_of_day, DAYSEC. simpl t_sec. simpl t_off. split.
  - replace (d * 86400 + 86400 + 0) with ((d + 1) * 86400) by ring. apply Z.div_mul. lia.
  - rewrite Z.add_0_r. apply Z.div_mul. lia.
Qed.
