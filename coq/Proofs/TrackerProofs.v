(* Proofs/TrackerProofs.v — proofs for C07 about Model/Tracker.v. *)
From GoImap.Base Require Import Bytes.
From GoImap.Model Require Import Tracker.
From GoImap.Proofs Require Import TrackerSpec.
Open Scope N_scope.

(* For every history accepted by the tracker's own guards, in every reachable state and for
   every session: the queued updates, applied in order to the client's view, give the mailbox *)
Lemma replay_inv : forall n0 ops t s, fresh_sids [] ops = true -> run n0 ops = Some t ->
  In s (t_sess t) ->
  replay (s_view s) (s_queue s) = t_L t /\ NoDup (t_L t) /\ NoDup (s_view s) /\ t_n t = N.of_nat (length (t_L t)).
Admitted.

(* Poll emits a prefix of the queue, in order; when expunges are not allowed it emits none
   and stops right before the first one *)
Lemma poll_order : forall t sid allow s t' em, find_sess sid (t_sess t) = Some s ->
  step t (OPoll sid allow) = (t', OutPoll em) ->
  exists rest, s_queue s = em ++ rest /\
    (allow = false -> forallb (fun u => negb (is_expunge u)) em = true /\
                      (rest = [] \/ exists k r, rest = UExpunge k :: r)) /\
    (allow = true -> rest = []) /\
    (forall s', find_sess sid (t_sess t') = Some s' ->
                s_queue s' = rest /\ s_view s' = replay (s_view s) em).
Admitted.

(* client -> server translation identifies the same message, 0 exactly when it is gone *)
Lemma decode_spec : forall n0 ops t s c id, fresh_sids [] ops = true -> run n0 ops = Some t ->
  In s (t_sess t) -> nth1 (s_view s) c = Some id ->
  decode t s c = pos_of id (t_L t).
Admitted.

(* server -> client translation identifies the same message, 0 exactly when the client has
   not been told about it yet (for appends of any count) *)
Lemma encode_spec : forall n0 ops t s p id, fresh_sids [] ops = true -> run n0 ops = Some t ->
  In s (t_sess t) -> nth1 (t_L t) p = Some id ->
  encode t s p = pos_of id (s_view s).
Admitted.

(* numbers outside the respective view translate to 0 *)
Lemma encode_out_of_range : forall t s p, nth1 (t_L t) p = None -> t_n t = N.of_nat (length (t_L t)) ->
  encode t s p = 0.
Admitted.

(* there and back *)
Lemma decode_encode : forall n0 ops t s c, fresh_sids [] ops = true -> run n0 ops = Some t ->
  In s (t_sess t) -> 1 <= c <= N.of_nat (length (s_view s)) ->
  decode t s c <> 0 -> encode t s (decode t s c) = c.
Admitted.

(* pos_of is the position: it finds the element and is 0 only when absent *)
Lemma pos_of_spec : forall id l, (pos_of id l = 0 <-> ~ In id l) /\
  (forall p, p <> 0 -> pos_of id l = p -> nth1 l p = Some id).
Admitted.
