(* Proofs/TrackerProofs.v — proofs for C07 about Model/Tracker.v. *)
From GoImap.Base Require Import Bytes.
From GoImap.Model Require Import Tracker.
From GoImap.Proofs Require Import TrackerSpec TrackerLemmas.
From Coq Require Import ZifyN ZifyNat ZifyBool.
Open Scope N_scope.

(* a reachable state satisfies the invariant; a session's queue is consistent *)
Lemma reach_sess : forall n0 ops t s, fresh_sids [] ops = true -> run n0 ops = Some t ->
  In s (t_sess t) ->
  Inv t /\ exists b, qinv b (s_view s) (s_queue s) (t_L t) (t_next t).
Proof.
  intros n0 ops t s Hf Hrun Hin. pose proof (run_inv _ _ _ Hf Hrun) as HI.
  split; [assumption|]. apply (inv_sess _ HI). assumption.
Qed.

(* For every history accepted by the tracker's own guards, in every reachable state and for
   every session: the queued updates, applied in order to the client's view, give the mailbox *)
Lemma replay_inv : forall n0 ops t s, fresh_sids [] ops = true -> run n0 ops = Some t ->
  In s (t_sess t) ->
  replay (s_view s) (s_queue s) = t_L t /\ NoDup (t_L t) /\ NoDup (s_view s) /\ t_n t = N.of_nat (length (t_L t)).
Proof.
  intros n0 ops t s Hf Hrun Hin.
  destruct (reach_sess _ _ _ _ Hf Hrun Hin) as (HI & b & Hq).
  split; [eapply qinv_replay; eauto|].
  split; [apply (inv_nd _ HI)|].
  split; [apply (qinv_head _ _ _ _ _ Hq)|apply (inv_n _ HI)].
Qed.

Lemma split_at_expunge_spec : forall q a b, split_at_expunge q = (a, b) ->
  q = a ++ b /\ forallb (fun u => negb (is_expunge u)) a = true /\
  (b = [] \/ exists k r, b = UExpunge k :: r).
Proof.
  induction q as [|u q IH]; intros a b H; simpl in H.
  - inversion H; subst. simpl. auto.
  - destruct (is_expunge u) eqn:E.
    + inversion H; subst. split; [reflexivity|]. split; [reflexivity|].
      right. destruct u; try discriminate. eauto.
    + destruct (split_at_expunge q) as [a1 b1]. inversion H; subst.
      destruct (IH _ _ eq_refl) as (A & B & C).
      split; [simpl; f_equal; assumption|].
      split; [simpl; rewrite E; simpl; assumption|assumption].
Qed.

Lemma find_sess_map : forall sid f ss s, (forall a, s_id (f a) = s_id a) ->
  find_sess sid ss = Some s -> find_sess sid (map f ss) = Some (f s).
Proof.
  induction ss as [|a r IH]; intros s Hf H; simpl in *; [discriminate|].
  rewrite Hf. destruct (s_id a =? sid).
  - inversion H; subst. reflexivity.
  - apply IH; assumption.
Qed.

(* Poll emits a prefix of the queue, in order; when expunges are not allowed it emits none
   and stops right before the first one *)
Lemma poll_order : forall t sid allow s t' em, find_sess sid (t_sess t) = Some s ->
  step t (OPoll sid allow) = (t', OutPoll em) ->
  exists rest, s_queue s = em ++ rest /\
    (allow = false -> forallb (fun u => negb (is_expunge u)) em = true /\
                      (rest = [] \/ exists k r, rest = UExpunge k :: r)) /\
    (allow = true -> rest = []) /\
    (forall s', find_sess sid (t_sess t') = Some s' ->
                s_queue s' = rest /\ s_view s' = replay (s_view s) em).
Proof.
  intros t sid allow s t' em Hf Hstep.
  simpl in Hstep. rewrite Hf in Hstep.
  destruct (poll_split allow (s_queue s)) as [em0 rest] eqn:Eps.
  destruct (existsb bad_update em0) eqn:Ebad; [inversion Hstep|].
  inversion Hstep; subst; clear Hstep.
  exists rest.
  assert (Hfacts : s_queue s = em ++ rest /\
    (allow = false -> forallb (fun u => negb (is_expunge u)) em = true /\
                      (rest = [] \/ exists k r, rest = UExpunge k :: r)) /\
    (allow = true -> rest = [])).
  { unfold poll_split in Eps. destruct allow.
    - inversion Eps; subst. rewrite app_nil_r. split; [reflexivity|]. split; [discriminate|reflexivity].
    - apply split_at_expunge_spec in Eps. destruct Eps as (A & B & C).
      split; [assumption|]. split; [auto|discriminate]. }
  destruct Hfacts as (A & B & C).
  split; [assumption|]. split; [assumption|]. split; [assumption|].
  intros s' Hs'. simpl in Hs'.
  erewrite find_sess_map in Hs'; [| |exact Hf].
  - apply find_sess_some in Hf. destruct Hf as [_ Hid].
    rewrite Hid, N.eqb_refl in Hs'. inversion Hs'; subst. simpl. split; reflexivity.
  - intros a. simpl. destruct (s_id a =? sid) eqn:E; simpl; lia.
Qed.

(* client -> server translation identifies the same message, 0 exactly when it is gone *)
Lemma decode_spec : forall n0 ops t s c id, fresh_sids [] ops = true -> run n0 ops = Some t ->
  In s (t_sess t) -> nth1 (s_view s) c = Some id ->
  decode t s c = pos_of id (t_L t).
Proof.
  intros n0 ops t s c id Hf Hrun Hin Hc.
  destruct (reach_sess _ _ _ _ Hf Hrun Hin) as (HI & b & Hq).
  pose proof (nth1_range _ _ _ Hc) as Hr.
  unfold decode. replace (c =? 0) with false by lia.
  destruct (decode_q_spec _ _ _ _ _ _ _ Hq Hc) as [[Hz Hn]|[Hnz Hp]].
  - rewrite Hz. simpl. symmetry. apply pos_of_zero. assumption.
  - replace (decode_q (s_queue s) c =? 0) with false by lia.
    pose proof (nth1_range _ _ _ Hp) as Hr'. rewrite (inv_n _ HI).
    replace (N.of_nat (length (t_L t)) <? decode_q (s_queue s) c) with false by lia.
    symmetry. apply nth1_pos_of; [apply (inv_nd _ HI)|assumption].
Qed.

(* server -> client translation identifies the same message, 0 exactly when the client has
   not been told about it yet (for appends of any count) *)
Lemma encode_spec : forall n0 ops t s p id, fresh_sids [] ops = true -> run n0 ops = Some t ->
  In s (t_sess t) -> nth1 (t_L t) p = Some id ->
  encode t s p = pos_of id (s_view s).
Proof.
  intros n0 ops t s p id Hf Hrun Hin Hp.
  destruct (reach_sess _ _ _ _ Hf Hrun Hin) as (HI & b & Hq).
  pose proof (nth1_range _ _ _ Hp) as Hr.
  unfold encode. replace (p =? 0) with false by lia.
  rewrite (inv_n _ HI). replace (N.of_nat (length (t_L t)) <? p) with false by lia.
  eapply encode_q_spec; eauto.
Qed.

(* numbers outside the respective view translate to 0 *)
Lemma encode_out_of_range : forall t s p, nth1 (t_L t) p = None -> t_n t = N.of_nat (length (t_L t)) ->
  encode t s p = 0.
Proof.
  intros t s p Hp Hn. unfold encode.
  destruct (p =? 0) eqn:E0; [reflexivity|].
  apply nth1_none in Hp. rewrite Hn.
  replace (N.of_nat (length (t_L t)) <? p) with true by lia. reflexivity.
Qed.

(* there and back *)
Lemma decode_encode : forall n0 ops t s c, fresh_sids [] ops = true -> run n0 ops = Some t ->
  In s (t_sess t) -> 1 <= c <= N.of_nat (length (s_view s)) ->
  decode t s c <> 0 -> encode t s (decode t s c) = c.
Proof.
  intros n0 ops t s c Hf Hrun Hin Hc Hd.
  destruct (nth1_exists _ _ Hc) as (id & Hid).
  destruct (reach_sess _ _ _ _ Hf Hrun Hin) as (HI & b & Hq).
  pose proof (decode_spec _ _ _ _ _ _ Hf Hrun Hin Hid) as Hdec.
  assert (Hp : nth1 (t_L t) (decode t s c) = Some id).
  { apply pos_of_nth1; [assumption|symmetry; assumption]. }
  rewrite (encode_spec _ _ _ _ _ _ Hf Hrun Hin Hp).
  apply nth1_pos_of; [apply (qinv_head _ _ _ _ _ Hq)|assumption].
Qed.

(* pos_of is the position: it finds the element and is 0 only when absent *)
Lemma pos_of_spec : forall id l, (pos_of id l = 0 <-> ~ In id l) /\
  (forall p, p <> 0 -> pos_of id l = p -> nth1 l p = Some id).
Proof.
  intros id l. split; [apply pos_of_zero|].
  intros p Hp H. apply pos_of_nth1; assumption.
Qed.
