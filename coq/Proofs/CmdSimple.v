(* Proofs/CmdSimple.v — delivery of every command except FETCH and SEARCH. *)
From GoImap.Base Require Import Bytes.
From GoImap.Model Require Import NumSet NumSetCorr MatchList Utf7 Wire Search ClientWrite CmdDate CmdTypes CmdClient CmdServer.
From GoImap.Proofs Require Import NumSetSpec Utf7Spec WireSpec WireLemmas WireProofs CmdDateProofs CmdSpec CmdPrim.
Require Import ZifyN ZifyNat Lia.
Open Scope N_scope.

(* ---- the shape of a command line ----------------------------------------------------------- *)
Lemma w_line_split : forall tag body segs, w_line tag body = Some segs ->
  exists b, body = Some b /\ flatten segs = tag ++ SP_ :: flatten b ++ [CR_; LF_].
Proof.
  intros tag body segs H. unfold w_line in H.
  apply cat_some in H. destruct H as (x & y & Hx & Hy & ->).
  apply cat_some in Hy. destruct Hy as (s1 & z & Hs1 & Hz & ->).
  apply cat_some in Hz. destruct Hz as (b & e & Hb & He & ->).
  unfold lit in Hx. injection Hx as <-.
  unfold sp, lit in Hs1. injection Hs1 as <-.
  unfold lit, CRLF_ in He. injection He as <-.
  exists b. split; [exact Hb|].
  rewrite !flatten_app, !flatten_single. reflexivity.
Qed.

Lemma lit_some : forall b s, lit b = Some s -> s = [SBytes b].
Proof. intros b s H. unfold lit in H. injection H as <-. reflexivity. Qed.
Lemma slit_some : forall k s, slit k = Some s -> s = [SBytes (s2b k)].
Proof. intros k s H. apply lit_some in H. exact H. Qed.
Lemma sp_some : forall s, sp = Some s -> s = [SBytes [SP_]].
Proof. intros s H. apply lit_some in H. exact H. Qed.
Lemma nothing_some : forall s, nothing = Some s -> s = [].
Proof. intros s H. unfold nothing in H. injection H as <-. reflexivity. Qed.

Ltac split_cat :=
  repeat match goal with
  | H : ?a +++ ?b = Some ?s |- _ =>
      apply cat_some in H;
      let x := fresh "x" in let y := fresh "y" in let Hx := fresh "Hx" in let Hy := fresh "Hy" in
      destruct H as (x & y & Hx & Hy & ->)
  | H : lit ?b = Some ?s |- _ => apply lit_some in H; subst s
  | H : slit ?b = Some ?s |- _ => apply slit_some in H; subst s
  | H : sp = Some ?s |- _ => apply sp_some in H; subst s
  | H : nothing = Some ?s |- _ => apply nothing_some in H; subst s
  end.

Ltac flat := rewrite ?flatten_app, ?flatten_single; rewrite <- ?app_assoc; cbn [app flatten flat_map].

(* ---- first bytes ---------------------------------------------------------------------------- *)
Lemma item_start_after_sp : forall a b, item_start a -> after_sp (a ++ b).
Proof. intros [|c a] b H; [contradiction|]. destruct H as (_ & H1 & H2). split; assumption. Qed.

Lemma delimited_cr : forall r, delimited (CR_ :: r).
Proof. intros r. split; reflexivity. Qed.

(* an encoded string starts with a double quote or an opening brace *)
Definition str_start (b : bytes) : Prop :=
  match b with [] => False | c :: _ => c = DQ_ \/ c = ch "{" end.
Lemma enc_string_first : forall cfg s segs, enc_string cfg s = Some segs -> str_start (flatten segs).
Proof.
  intros cfg s segs H. destruct (enc_string_shape _ _ _ H) as [->|(plus & ->)]; cbn; auto.
Qed.
(* an encoded mailbox starts with a double quote, an opening brace or "I" *)
Definition mbox_start (b : bytes) : Prop :=
  match b with [] => False | c :: _ => c = DQ_ \/ c = ch "{" \/ c = ch "I" end.
Lemma enc_mailbox_first : forall cfg m segs, enc_mailbox cfg m = Some segs -> mbox_start (flatten segs).
Proof.
  intros cfg m segs H. unfold enc_mailbox in H. destruct (equal_fold_ascii m INBOX).
  - injection H as <-. rewrite flatten_single. cbn. auto.
  - pose proof (enc_string_first _ _ _ H) as Hs. destruct (flatten segs); [contradiction|].
    cbn in *. tauto.
Qed.

(* ---- Conn.readCommand's dispatch ------------------------------------------------------------ *)
Definition udispatch (sub : bytes) : P (list bcall) :=
    if is sub "FETCH" then h_fetch true
    else if is sub "STORE" then h_store true
    else if is sub "SEARCH" then h_search true
    else if is sub "COPY" then h_copy false true
    else if is sub "MOVE" then h_copy true true
    else if is sub "EXPUNGE" then h_uid_expunge
    else reject.

Definition dispatch (literal_plus : bool) (name : bytes) : P (list bcall) :=
  if is name "UID" then
    x_sp;; do sub0 <- x_atom; udispatch (upper sub0)
  else if is name "LOGIN" then h_login
  else if is name "SELECT" then h_select false
  else if is name "EXAMINE" then h_select true
  else if is name "CREATE" then h_create
  else if is name "DELETE" then h_mailbox1 BDelete
  else if is name "RENAME" then h_rename
  else if is name "SUBSCRIBE" then h_mailbox1 BSubscribe
  else if is name "UNSUBSCRIBE" then h_mailbox1 BUnsubscribe
  else if is name "STATUS" then h_status
  else if is name "LIST" then h_list
  else if is name "APPEND" then h_append literal_plus
  else if is name "FETCH" then h_fetch false
  else if is name "STORE" then h_store false
  else if is name "SEARCH" then h_search false
  else if is name "COPY" then h_copy false false
  else if is name "MOVE" then h_copy true false
  else if is name "EXPUNGE" then h_expunge
  else if is name "CLOSE" then x_crlf;; ret [BExpunge None; BUnselect]
  else if is name "UNSELECT" then x_crlf;; ret [BUnselect]
  else reject.

Lemma read_command_dispatch : forall lp,
  read_command lp = (do tag <- x_atom; x_sp;; do name0 <- x_atom; dispatch lp (upper name0)).
Proof. reflexivity. Qed.

Lemma after_sp_atom : forall a r, a <> [] -> forallb is_atom_char a = true -> after_sp (a ++ r).
Proof.
  intros [|c a] r Hn Ha; [congruence|]. cbn [forallb] in Ha. apply andb_true_iff in Ha.
  destruct Ha as [Hc _]. destruct (atom_char_facts c Hc) as (_&_&_&_&_&_&H2&H3&_).
  split; assumption.
Qed.

Lemma rc_plain : forall lp tag name rest h,
  wf_tag tag -> name <> [] -> forallb is_atom_char name = true ->
  dispatch lp (upper name) = h -> delimited rest ->
  read_command lp (tag ++ SP_ :: name ++ rest) = h rest.
Proof.
  intros lp tag name rest h [Ht1 Ht2] Hn Ha Hd Hr. rewrite read_command_dispatch. unfold bind.
  rewrite (x_atom_lit tag _ Ht1 Ht2 (delimited_sp _)).
  rewrite x_sp_sp by (apply after_sp_atom; assumption).
  rewrite (x_atom_lit name rest Hn Ha Hr). rewrite Hd. reflexivity.
Qed.

Lemma rc_uid : forall lp tag sub rest h,
  wf_tag tag -> sub <> [] -> forallb is_atom_char sub = true ->
  udispatch (upper sub) = h -> delimited rest ->
  read_command lp (tag ++ SP_ :: s2b "UID" ++ SP_ :: sub ++ rest) = h rest.
Proof.
  intros lp tag sub rest h Ht Hn Ha Hd Hr.
  rewrite (rc_plain lp tag (s2b "UID") _ (x_sp;; do sub0 <- x_atom; udispatch (upper sub0)) Ht);
    [|discriminate|reflexivity|reflexivity|apply delimited_sp].
  unfold bind. rewrite x_sp_sp by (apply after_sp_atom; assumption).
  rewrite (x_atom_lit sub rest Hn Ha Hr). rewrite Hd. reflexivity.
Qed.

Lemma ecfg_client : forall c, client_side (ecfg c) = true.
Proof. reflexivity. Qed.

Lemma numset_char_start : forall c, is_numset_char c = true ->
  beqb c (ch ")") = false /\ beqb c CR_ = false /\ beqb c LF_ = false.
Proof. intros [[] [] [] [] [] [] [] []]; vm_compute; intros H; try discriminate H; repeat split. Qed.

Lemma w_numarg_start : forall s sg, w_numarg s = Some sg -> item_start (flatten sg).
Proof.
  intros [|s] sg H; cbn [w_numarg] in H.
  - apply slit_some in H. subst. rewrite flatten_single. cbn. repeat split; reflexivity.
  - unfold enc_numset in H. pose proof (to_string_numset_chars s) as Hc.
    destruct (to_string s) as [|c t] eqn:E; [discriminate|]. injection H as <-.
    rewrite flatten_single. cbn [forallb] in Hc. apply andb_true_iff in Hc. destruct Hc as [Hc _].
    apply numset_char_start. exact Hc.
Qed.

Ltac delim := match goal with
  | |- delimited (SP_ :: _) => apply delimited_sp
  | |- delimited (CR_ :: _) => apply delimited_cr
  | |- delimited (ch ")" :: _) => apply delimited_close
  | |- delimited _ => split; reflexivity
  end.
Ltac istart :=
  first [ eapply enc_string_start; eassumption | eapply enc_mailbox_start; eassumption
        | eapply enc_flag_start; eassumption | eapply enc_attr_start; eassumption
        | eapply w_numarg_start; eassumption ].
Ltac asp := first [ apply item_start_after_sp; istart | (cbn; split; reflexivity) ].
Ltac r_sp := rewrite x_sp_sp by asp.
Ltac r_astring := match goal with
  | H : enc_string ?cfg ?s = Some ?sg |- context [x_astring (flatten ?sg ++ ?r)] =>
      rewrite (x_astring_enc cfg s sg r (ecfg_client _) ltac:(assumption) H) end.
Ltac r_mailbox := match goal with
  | H : enc_mailbox ?cfg ?m = Some ?sg |- context [x_mailbox (flatten ?sg ++ ?r)] =>
      rewrite (x_mailbox_enc cfg m sg r (ecfg_client _) ltac:(assumption) ltac:(delim) H) end.
Ltac r_numset := match goal with
  | H : w_numarg ?s = Some ?sg, W : wf_numarg ?uid ?s |- context [x_numset (flatten ?sg ++ ?r)] =>
      rewrite (x_numset_enc uid s sg r W ltac:(delim) H) end.
Ltac name_sp k k' :=
  match goal with |- context [s2b k ++ ?r] => change (s2b k ++ r) with (s2b k' ++ SP_ :: r) end.
Ltac rcp k h Ht := rewrite (rc_plain _ _ (s2b k) _ h Ht); [|discriminate|reflexivity|reflexivity|delim].
Ltac rcu k h Ht := rewrite (rc_uid _ _ (s2b k) _ h Ht); [|discriminate|reflexivity|reflexivity|delim].
Ltac start H := apply w_line_split in H; let b := fresh "b" in let Hb := fresh "Hb" in
  destruct H as (b & Hb & ->).

(* ---- LOGIN ----------------------------------------------------------------------------------- *)
Lemma d_login : forall c lp tag u p, wf_tag tag -> short u -> short p ->
  delivers lp tag (slit "LOGIN " +++ enc_string (ecfg c) u +++ sp +++ enc_string (ecfg c) p) [BLogin u p].
Proof.
  intros c lp tag u p Ht Hu Hp segs H. start H. split_cat. flat. unfold serve_line.
  name_sp "LOGIN "%string "LOGIN"%string. rcp "LOGIN"%string h_login Ht.
  unfold h_login, bind. r_sp. r_astring. r_sp. r_astring.
  rewrite x_crlf_crlf. reflexivity.
Qed.

(* ---- SELECT / EXAMINE ------------------------------------------------------------------------ *)
Lemma d_select : forall c lp tag m (ro : bool), wf_tag tag -> wf_name m ->
  delivers lp tag ((if ro then slit "EXAMINE " else slit "SELECT ") +++ enc_mailbox (ecfg c) m +++
                   when false (slit " (CONDSTORE)")) [BSelect (norm_mbox m) ro].
Proof.
  intros c lp tag m ro Ht Hm segs H. start H. cbn [when] in Hb.
  destruct ro; split_cat; flat; rewrite ?app_nil_r; unfold serve_line.
  - name_sp "EXAMINE "%string "EXAMINE"%string. rcp "EXAMINE"%string (h_select true) Ht.
    unfold h_select, bind. r_sp. r_mailbox. rewrite x_crlf_crlf. reflexivity.
  - name_sp "SELECT "%string "SELECT"%string. rcp "SELECT"%string (h_select false) Ht.
    unfold h_select, bind. r_sp. r_mailbox. rewrite x_crlf_crlf. reflexivity.
Qed.

(* ---- DELETE / SUBSCRIBE / UNSUBSCRIBE -------------------------------------------------------- *)
Lemma h_mailbox1_ok : forall k c m sg, wf_name m -> enc_mailbox (ecfg c) m = Some sg ->
  h_mailbox1 k (SP_ :: flatten sg ++ [CR_; LF_]) = Some ([k (norm_mbox m)], []).
Proof.
  intros k c m sg Hm H. unfold h_mailbox1, bind. r_sp. r_mailbox. rewrite x_crlf_crlf. reflexivity.
Qed.

Lemma d_delete : forall c lp tag m, wf_tag tag -> wf_name m ->
  delivers lp tag (slit "DELETE " +++ enc_mailbox (ecfg c) m) [BDelete (norm_mbox m)].
Proof.
  intros c lp tag m Ht Hm segs H. start H. split_cat. flat. unfold serve_line.
  name_sp "DELETE "%string "DELETE"%string. rcp "DELETE"%string (h_mailbox1 BDelete) Ht.
  erewrite h_mailbox1_ok by eassumption. reflexivity.
Qed.
Lemma d_subscribe : forall c lp tag m, wf_tag tag -> wf_name m ->
  delivers lp tag (slit "SUBSCRIBE " +++ enc_mailbox (ecfg c) m) [BSubscribe (norm_mbox m)].
Proof.
  intros c lp tag m Ht Hm segs H. start H. split_cat. flat. unfold serve_line.
  name_sp "SUBSCRIBE "%string "SUBSCRIBE"%string. rcp "SUBSCRIBE"%string (h_mailbox1 BSubscribe) Ht.
  erewrite h_mailbox1_ok by eassumption. reflexivity.
Qed.
Lemma d_unsubscribe : forall c lp tag m, wf_tag tag -> wf_name m ->
  delivers lp tag (slit "UNSUBSCRIBE " +++ enc_mailbox (ecfg c) m) [BUnsubscribe (norm_mbox m)].
Proof.
  intros c lp tag m Ht Hm segs H. start H. split_cat. flat. unfold serve_line.
  name_sp "UNSUBSCRIBE "%string "UNSUBSCRIBE"%string. rcp "UNSUBSCRIBE"%string (h_mailbox1 BUnsubscribe) Ht.
  erewrite h_mailbox1_ok by eassumption. reflexivity.
Qed.

(* ---- RENAME ---------------------------------------------------------------------------------- *)
Lemma d_rename : forall c lp tag a b, wf_tag tag -> wf_name a -> wf_name b ->
  delivers lp tag (slit "RENAME " +++ enc_mailbox (ecfg c) a +++ sp +++ enc_mailbox (ecfg c) b)
           [BRename (norm_mbox a) (norm_mbox b)].
Proof.
  intros c lp tag a b Ht Ha Hb' segs H. start H. split_cat. flat. unfold serve_line.
  name_sp "RENAME "%string "RENAME"%string. rcp "RENAME"%string h_rename Ht.
  unfold h_rename, bind. r_sp. r_mailbox. r_sp. r_mailbox. rewrite x_crlf_crlf. reflexivity.
Qed.

(* ---- EXPUNGE / UID EXPUNGE / CLOSE / UNSELECT ------------------------------------------------ *)
Lemma d_expunge : forall lp tag, wf_tag tag -> delivers lp tag (slit "EXPUNGE") [BExpunge None].
Proof.
  intros lp tag Ht segs H. start H. split_cat. flat. unfold serve_line.
  rcp "EXPUNGE"%string h_expunge Ht. reflexivity.
Qed.
Lemma d_close : forall lp tag, wf_tag tag -> delivers lp tag (slit "CLOSE") [BExpunge None; BUnselect].
Proof.
  intros lp tag Ht segs H. start H. split_cat. flat. unfold serve_line.
  rcp "CLOSE"%string (x_crlf;; ret [BExpunge None; BUnselect]) Ht. reflexivity.
Qed.
Lemma d_unselect : forall lp tag, wf_tag tag -> delivers lp tag (slit "UNSELECT") [BUnselect].
Proof.
  intros lp tag Ht segs H. start H. split_cat. flat. unfold serve_line.
  rcp "UNSELECT"%string (x_crlf;; ret [BUnselect]) Ht. reflexivity.
Qed.
Lemma d_uid_expunge : forall lp tag s, wf_tag tag -> wf_numarg true s ->
  delivers lp tag (slit "UID EXPUNGE " +++ w_numarg s) [BExpunge (Some s)].
Proof.
  intros lp tag s Ht Hs segs H. start H. split_cat. flat. unfold serve_line.
  match goal with |- context [s2b "UID EXPUNGE " ++ ?r] =>
    change (s2b "UID EXPUNGE " ++ r) with (s2b "UID" ++ SP_ :: s2b "EXPUNGE" ++ SP_ :: r) end.
  rcu "EXPUNGE"%string h_uid_expunge Ht.
  unfold h_uid_expunge, bind. r_sp. r_numset. rewrite x_crlf_crlf. reflexivity.
Qed.

(* ---- COPY / MOVE ----------------------------------------------------------------------------- *)
Lemma set_kind_wf : forall uid s, wf_numarg uid s -> set_kind uid s = uid.
Proof. intros uid [|s] H; cbn in *; congruence. Qed.

Lemma h_copy_ok : forall c mv uid0 uid s d x y, wf_numarg uid s -> wf_name d ->
  w_numarg s = Some x -> enc_mailbox (ecfg c) d = Some y ->
  h_copy mv uid0 (SP_ :: flatten x ++ SP_ :: flatten y ++ [CR_; LF_]) =
  Some ([if mv then BMove (set_kind uid0 s) s (norm_mbox d) else BCopy (set_kind uid0 s) s (norm_mbox d)], []).
Proof.
  intros c mv uid0 uid s d x y Hs Hd Hx Hy. unfold h_copy, bind.
  r_sp. r_numset. r_sp. r_mailbox. rewrite x_crlf_crlf. reflexivity.
Qed.

Lemma d_copy : forall c lp tag uid s d, wf_tag tag -> wf_numarg uid s -> wf_name d ->
  delivers lp tag (w_copy (ecfg c) "COPY" uid s d) [BCopy uid s (norm_mbox d)].
Proof.
  intros c lp tag uid s d Ht Hs Hd segs H. start H. unfold w_copy, cmd_name in Hb.
  destruct uid; split_cat; flat; unfold serve_line.
  - match goal with |- context [s2b "UID " ++ s2b "COPY" ++ ?r] =>
      change (s2b "UID " ++ s2b "COPY" ++ r) with (s2b "UID" ++ SP_ :: s2b "COPY" ++ r) end.
    rcu "COPY"%string (h_copy false true) Ht.
    erewrite h_copy_ok by eassumption. rewrite (set_kind_wf _ _ Hs). reflexivity.
  - rcp "COPY"%string (h_copy false false) Ht.
    erewrite h_copy_ok by eassumption. rewrite (set_kind_wf _ _ Hs). reflexivity.
Qed.
Lemma d_move : forall c lp tag uid s d, wf_tag tag -> wf_numarg uid s -> wf_name d ->
  delivers lp tag (w_copy (ecfg c) "MOVE" uid s d) [BMove uid s (norm_mbox d)].
Proof.
  intros c lp tag uid s d Ht Hs Hd segs H. start H. unfold w_copy, cmd_name in Hb.
  destruct uid; split_cat; flat; unfold serve_line.
  - match goal with |- context [s2b "UID " ++ s2b "MOVE" ++ ?r] =>
      change (s2b "UID " ++ s2b "MOVE" ++ r) with (s2b "UID" ++ SP_ :: s2b "MOVE" ++ r) end.
    rcu "MOVE"%string (h_copy true true) Ht.
    erewrite h_copy_ok by eassumption. rewrite (set_kind_wf _ _ Hs). reflexivity.
  - rcp "MOVE"%string (h_copy true false) Ht.
    erewrite h_copy_ok by eassumption. rewrite (set_kind_wf _ _ Hs). reflexivity.
Qed.

(* ---- lists ------------------------------------------------------------------------------------ *)
Lemma fold_snoc_map : forall A B (g : A -> B) l a,
  fold_left (fun acc x => acc ++ [g x]) l a = a ++ map g l.
Proof.
  intros A B g l. induction l as [|x l IH]; intros a; cbn [fold_left map].
  - rewrite app_nil_r. reflexivity.
  - rewrite IH, <- app_assoc. reflexivity.
Qed.

Lemma plist_start : forall l y, plist l = Some y -> exists t, flatten y = ch "(" :: t.
Proof.
  intros l y H. unfold plist in H. split_cat. flat. eexists. reflexivity.
Qed.
Lemma plist_item_start : forall l y, plist l = Some y -> item_start (flatten y).
Proof.
  intros l y H. destruct (plist_start l y H) as (t & ->). cbn. repeat split; reflexivity.
Qed.

Lemma x_special_hit : forall k r, x_special k (ch k :: r) = Some (tt, r).
Proof. intros k r. unfold x_special, expect. rewrite dec_special_hit. reflexivity. Qed.

Ltac asp ::= first [ apply item_start_after_sp; first [istart | eapply plist_item_start; eassumption]
                   | (cbn; split; reflexivity) ].

(* ---- CREATE ----------------------------------------------------------------------------------- *)
Lemma d_create : forall c lp tag m use, wf_tag tag -> wf_name m -> Forall wf_attr use ->
  delivers lp tag (slit "CREATE " +++ enc_mailbox (ecfg c) m +++
                   when (negb (nilb use)) (slit " (USE " +++ plist (map enc_mailbox_attr use) +++ slit ")"))
           [BCreate (norm_mbox m) (map norm_attr use)].
Proof.
  intros c lp tag m use Ht Hm Hu segs H. start H.
  destruct use as [|a use]; cbn [nilb negb when] in Hb; split_cat; flat; unfold serve_line;
    name_sp "CREATE "%string "CREATE"%string; rcp "CREATE"%string h_create Ht; unfold h_create, bind;
    r_sp; r_mailbox.
  - rewrite m_sp_crlf. reflexivity.
  - match goal with |- context [s2b " (USE " ++ ?r] =>
      change (s2b " (USE " ++ r) with (SP_ :: ch "(" :: s2b "USE" ++ SP_ :: r) end.
    rewrite m_sp_sp by (cbn; split; reflexivity).
    rewrite x_special_hit.
    rewrite x_atom_lit; [|discriminate|reflexivity|delim].
    r_sp.
    change (is (upper (s2b "USE")) "USE") with true. cbv iota.
    unfold bind.
    match goal with Hp : plist _ = Some ?y |- _ =>
      rewrite (x_list_plist _ _ (fun acc => do a <- x_attr; ret (acc ++ [a])) enc_mailbox_attr
                 (fun acc a => acc ++ [norm_attr a]) (a :: use) y [] _); [| | |exact Hp] end.
    + change (s2b ")" ++ [CR_; LF_]) with (ch ")" :: [CR_; LF_]).
      rewrite x_special_hit. rewrite fold_snoc_map. reflexivity.
    + intros a0 _ sg st r Hsg Hr. unfold bind. rewrite (x_attr_enc a0 sg r Hr Hsg). reflexivity.
    + intros a0 _ sg Hsg. eapply enc_attr_start. exact Hsg.
Qed.

(* ---- STATUS ----------------------------------------------------------------------------------- *)
Definition status_step (o : status_opts) (n : bytes) : status_opts :=
  mkSt (is n "MESSAGES" || st_messages o) (is n "UIDNEXT" || st_uidnext o)
       (is n "UIDVALIDITY" || st_uidvalidity o) (is n "UNSEEN" || st_unseen o)
       (is n "DELETED" || st_deleted o) (is n "SIZE" || st_size o)
       (is n "APPENDLIMIT" || st_appendlimit o) (is n "DELETED-STORAGE" || st_deletedstorage o)
       (st_highestmodseq o).

Definition has (k : string) (l : list bytes) : bool := existsb (fun n => is n k) l.

Lemma status_fold : forall l st, fold_left status_step l st =
  mkSt (has "MESSAGES" l || st_messages st) (has "UIDNEXT" l || st_uidnext st)
       (has "UIDVALIDITY" l || st_uidvalidity st) (has "UNSEEN" l || st_unseen st)
       (has "DELETED" l || st_deleted st) (has "SIZE" l || st_size st)
       (has "APPENDLIMIT" l || st_appendlimit st) (has "DELETED-STORAGE" l || st_deletedstorage st)
       (st_highestmodseq st).
Proof.
  induction l as [|n l IH]; intros st.
  - destruct st; reflexivity.
  - cbn [fold_left]. rewrite IH. unfold status_step, has.
    cbn [existsb st_messages st_uidnext st_uidvalidity st_unseen st_deleted st_size st_appendlimit
         st_deletedstorage st_highestmodseq].
    f_equal; match goal with |- ?a || (?b || ?c) = _ => destruct a, b; reflexivity end.
Qed.

Lemma has_items : forall names order (k : string) j b,
  nth_error names j = Some (s2b k, b) -> In j order ->
  (forall i n' b', nth_error names i = Some (n', b') -> n' = s2b k -> i = j) ->
  has k (map_items names order) = b.
Proof.
  intros names order k j b Hj Hin Hd. unfold has, is. destruct b.
  - apply existsb_exists. exists (s2b k). split; [|apply bytes_eqb_refl].
    apply map_items_in. exists j. split; assumption.
  - apply not_true_is_false. intro E. apply existsb_exists in E. destruct E as (n & Hn & E).
    apply bytes_eqb_true_iff in E. subst n. apply map_items_in in Hn. destruct Hn as (i & Hi & Hnth).
    pose proof (Hd i _ _ Hnth eq_refl). subst i. congruence.
Qed.

Definition status_atoms : list bytes :=
  map s2b ["MESSAGES"; "UIDNEXT"; "UIDVALIDITY"; "UNSEEN"; "DELETED"; "SIZE"; "APPENDLIMIT"; "DELETED-STORAGE"]%string.

Lemma status_items_atoms : forall o order a, wf_status o ->
  In a (map_items (status_names o) order) -> In a status_atoms.
Proof.
  intros o order a Hw Ha. apply map_items_in in Ha. destruct Ha as (i & _ & Hn).
  unfold status_names in Hn.
  do 8 (destruct i as [|i]; [cbn [nth_error] in Hn; injection Hn as <- _; cbn; tauto|]).
  destruct i as [|i]; [cbn [nth_error] in Hn; injection Hn as _ Hb; unfold wf_status in Hw; congruence|].
  destruct i; discriminate Hn.
Qed.

Lemma status_item_ok : forall a st r, In a status_atoms -> delimited r ->
  status_item st (a ++ r) = Some (status_step st a, r).
Proof.
  intros a st r Ha Hr. unfold status_item, bind. cbn in Ha.
  repeat (destruct Ha as [<-|Ha];
          [rewrite x_atom_lit; [destruct st; reflexivity|discriminate|reflexivity|exact Hr]|]).
  contradiction.
Qed.

Ltac distinct_names :=
  let i := fresh "i" in let n' := fresh "n" in let b' := fresh "b" in let Hn := fresh "Hn" in let E := fresh "E" in
  intros i n' b' Hn E;
  do 9 (destruct i as [|i]; [cbn [nth_error] in Hn; injection Hn as <- _;
                              first [reflexivity | (vm_compute in E; discriminate E)]|]);
  destruct i; discriminate Hn.

Lemma status_fold_items : forall o order, wf_status o -> covers order ->
  fold_left status_step (map_items (status_names o) order) status_empty = o.
Proof.
  intros o order Hw Hc. rewrite status_fold.
  rewrite (has_items (status_names o) order "MESSAGES" 0 (st_messages o));
    [|reflexivity|apply Hc; lia|unfold status_names; distinct_names].
  rewrite (has_items (status_names o) order "UIDNEXT" 1 (st_uidnext o));
    [|reflexivity|apply Hc; lia|unfold status_names; distinct_names].
  rewrite (has_items (status_names o) order "UIDVALIDITY" 2 (st_uidvalidity o));
    [|reflexivity|apply Hc; lia|unfold status_names; distinct_names].
  rewrite (has_items (status_names o) order "UNSEEN" 3 (st_unseen o));
    [|reflexivity|apply Hc; lia|unfold status_names; distinct_names].
  rewrite (has_items (status_names o) order "DELETED" 4 (st_deleted o));
    [|reflexivity|apply Hc; lia|unfold status_names; distinct_names].
  rewrite (has_items (status_names o) order "SIZE" 5 (st_size o));
    [|reflexivity|apply Hc; lia|unfold status_names; distinct_names].
  rewrite (has_items (status_names o) order "APPENDLIMIT" 6 (st_appendlimit o));
    [|reflexivity|apply Hc; lia|unfold status_names; distinct_names].
  rewrite (has_items (status_names o) order "DELETED-STORAGE" 7 (st_deletedstorage o));
    [|reflexivity|apply Hc; lia|unfold status_names; distinct_names].
  destruct o as [a b c0 d e f g h i]. unfold wf_status in Hw. cbn in Hw. subst i.
  cbn. rewrite !orb_false_r. reflexivity.
Qed.

Lemma status_items_ok : forall o order segs rest, wf_status o -> covers order ->
  w_status_items o order = Some segs ->
  x_list status_item status_empty (flatten segs ++ rest) = Some (o, rest).
Proof.
  intros o order segs rest Hw Hc H. unfold w_status_items in H.
  rewrite (x_list_plist _ _ status_item lit status_step (map_items (status_names o) order) segs status_empty rest); [| | |exact H].
  - rewrite (status_fold_items o order Hw Hc). reflexivity.
  - intros a Ha sg st r Hsg Hr. apply lit_some in Hsg. subst sg. rewrite flatten_single.
    apply status_item_ok; [|exact Hr]. eapply status_items_atoms; eassumption.
  - intros a Ha sg Hsg. apply lit_some in Hsg. subst sg. rewrite flatten_single.
    pose proof (status_items_atoms o order a Hw Ha) as Hi. cbn in Hi.
    repeat (destruct Hi as [<-|Hi]; [cbn; repeat split; reflexivity|]). contradiction.
Qed.

Lemma d_status : forall c lp tag m o order, wf_tag tag -> wf_name m -> wf_status o -> covers order ->
  delivers lp tag (w_status (ecfg c) m o order) [BStatus (norm_mbox m) o].
Proof.
  intros c lp tag m o order Ht Hm Ho Hc segs H. start H. unfold w_status in Hb.
  split_cat. flat. unfold serve_line.
  name_sp "STATUS "%string "STATUS"%string. rcp "STATUS"%string h_status Ht.
  unfold h_status, bind. r_sp. r_mailbox.
  match goal with Hs : w_status_items _ _ = Some ?y |- _ =>
    pose proof (plist_item_start _ _ Hs) as Hst;
    rewrite x_sp_sp by (apply item_start_after_sp; exact Hst);
    rewrite (status_items_ok o order y _ Ho Hc Hs) end.
  rewrite x_crlf_crlf. reflexivity.
Qed.

(* ---- STORE ------------------------------------------------------------------------------------ *)
Definition store_items : list (string * N * bool) :=
  [("FLAGS", 0, false); ("FLAGS.SILENT", 0, true); ("+FLAGS", 1, false); ("+FLAGS.SILENT", 1, true);
   ("-FLAGS", 2, false); ("-FLAGS.SILENT", 2, true)]%string.

Lemma flags_list_ok : forall flags y rest, plist (map enc_flag flags) = Some y ->
  m_list (fun acc => do f <- x_flag; ret (acc ++ [f])) [] (flatten y ++ rest) =
  Some ((true, map canonical_flag flags), rest).
Proof.
  intros flags y rest H.
  rewrite (m_list_plist _ _ (fun acc => do f <- x_flag; ret (acc ++ [f])) enc_flag
             (fun acc f => acc ++ [canonical_flag f]) flags y [] rest); [| | |exact H].
  - rewrite fold_snoc_map. reflexivity.
  - intros a _ sg st r Hsg Hr. unfold bind. rewrite (x_flag_enc a sg r Hr Hsg). reflexivity.
  - intros a _ sg Hsg. eapply enc_flag_start. exact Hsg.
Qed.

Lemma h_store_ok : forall uid0 uid s item op silent flags x y,
  In (item, op, silent) store_items -> wf_numarg uid s ->
  w_numarg s = Some x -> plist (map enc_flag flags) = Some y ->
  h_store uid0 (SP_ :: flatten x ++ SP_ :: s2b item ++ SP_ :: flatten y ++ [CR_; LF_]) =
  Some ([BStore (set_kind uid0 s) s op silent (map canonical_flag flags)], []).
Proof.
  intros uid0 uid s item op silent flags x y Hi Hs Hx Hy. unfold h_store, bind.
  r_sp. r_numset. cbn in Hi.
  repeat (destruct Hi as [Hi|Hi];
    [injection Hi as <- <- <-;
     rewrite x_sp_sp by (cbn; split; reflexivity);
     (rewrite x_atom_lit; [|discriminate|reflexivity|delim]);
     rewrite x_sp_sp by (apply item_start_after_sp; eapply plist_item_start; exact Hy);
     rewrite (flags_list_ok flags y _ Hy); cbn [fst snd];
     reflexivity|]).
  contradiction.
Qed.

Ltac store_fin item op silent Ht Hs :=
  match goal with
  | Hx : w_numarg ?s = Some ?x, Hy : plist _ = Some ?y |- context [read_command ?lp (?tag ++ SP_ :: ?inp)] =>
    first [ change inp with (s2b "UID" ++ SP_ :: s2b "STORE" ++ SP_ :: flatten x ++ SP_ :: s2b item ++ SP_ :: flatten y ++ [CR_; LF_]);
            rcu "STORE"%string (h_store true) Ht
          | change inp with (s2b "STORE" ++ SP_ :: flatten x ++ SP_ :: s2b item ++ SP_ :: flatten y ++ [CR_; LF_]);
            rcp "STORE"%string (h_store false) Ht ];
    rewrite (h_store_ok _ _ s item op silent _ x y ltac:(cbn; repeat (first [left; reflexivity | right])) Hs Hx Hy);
    rewrite (set_kind_wf _ _ Hs); reflexivity
  end.

Lemma d_store : forall lp tag uid s op silent flags, wf_tag tag -> wf_numarg uid s -> op <= 2 ->
  delivers lp tag (w_store uid s op silent flags 0) [BStore uid s op silent (map canonical_flag flags)].
Proof.
  intros lp tag uid s op silent flags Ht Hs Hop segs H. start H. unfold w_store, cmd_name in Hb.
  change (negb (0 =? 0)) with false in Hb. cbn [when] in Hb.
  assert (Hop' : op = 0 \/ op = 1 \/ op = 2) by lia.
  destruct Hop' as [ -> | [ -> | -> ] ]; cbn [N.eqb Pos.eqb] in Hb; destruct silent; cbn [when] in Hb;
    destruct uid; split_cat; flat; unfold serve_line.
  - store_fin "FLAGS.SILENT"%string 0 true Ht Hs.
  - store_fin "FLAGS.SILENT"%string 0 true Ht Hs.
  - store_fin "FLAGS"%string 0 false Ht Hs.
  - store_fin "FLAGS"%string 0 false Ht Hs.
  - store_fin "+FLAGS.SILENT"%string 1 true Ht Hs.
  - store_fin "+FLAGS.SILENT"%string 1 true Ht Hs.
  - store_fin "+FLAGS"%string 1 false Ht Hs.
  - store_fin "+FLAGS"%string 1 false Ht Hs.
  - store_fin "-FLAGS.SILENT"%string 2 true Ht Hs.
  - store_fin "-FLAGS.SILENT"%string 2 true Ht Hs.
  - store_fin "-FLAGS"%string 2 false Ht Hs.
  - store_fin "-FLAGS"%string 2 false Ht Hs.
Qed.

(* ---- LIST ------------------------------------------------------------------------------------- *)
Lemma ret_eq : forall A (a : A) s, ret a s = Some (a, s).
Proof. reflexivity. Qed.
Lemma guard_true : forall s, guard true s = Some (tt, s).
Proof. reflexivity. Qed.

Lemma str_start_after_sp : forall b r, str_start b -> after_sp (b ++ r).
Proof. intros [|x b] r H; [contradiction|]. cbn in *. destruct H as [->| ->]; split; reflexivity. Qed.
Lemma m_list_absent_str : forall T (item : T -> P T) st b r, str_start b ->
  m_list item st (b ++ r) = Some ((false, st), b ++ r).
Proof.
  intros T item st [|x b] r H; [contradiction|]. cbn [app]. apply m_list_absent.
  cbn in H. destruct H as [->| ->]; reflexivity.
Qed.
Lemma m_list_absent_mbox : forall T (item : T -> P T) st b r, mbox_start b ->
  m_list item st (b ++ r) = Some ((false, st), b ++ r).
Proof.
  intros T item st [|x b] r H; [contradiction|]. cbn [app]. apply m_list_absent.
  cbn in H. destruct H as [->|[->| ->]]; reflexivity.
Qed.

Lemma str_start_after_sp' : forall b, str_start b -> after_sp b.
Proof. intros b H. rewrite <- (app_nil_r b). apply str_start_after_sp. exact H. Qed.
Lemma m_list_absent_str' : forall T (item : T -> P T) st b, str_start b ->
  m_list item st b = Some ((false, st), b).
Proof. intros T item st b H. rewrite <- (app_nil_r b) at 1 2. apply m_list_absent_str. exact H. Qed.

Lemma x_astring_atom : forall a r, a <> [] -> forallb is_atom_char a = true -> delimited r ->
  x_astring (a ++ r) = Some (a, r).
Proof.
  intros [|x a] r Hn Ha Hr; [congruence|]. unfold x_astring, expect, s_astring.
  pose proof Ha as Ha'. cbn [forallb] in Ha'. apply andb_true_iff in Ha'. destruct Ha' as [Hc _].
  destruct (atom_char_facts x Hc) as (_&_&H1&H2&_). cbn [app]. rewrite (s_string_miss _ _ H1 H2).
  change (x :: a ++ r) with ((x :: a) ++ r).
  rewrite dec_atom_app; [reflexivity|discriminate|exact Ha|apply delimited_nonatom; exact Hr].
Qed.

Definition sel_names : list bytes := map s2b ["SUBSCRIBED"; "REMOTE"; "RECURSIVEMATCH"]%string.
Definition sel_step (o : list_opts) (n : bytes) : list_opts :=
  if is n "SUBSCRIBED" then set_sel o 0 else if is n "REMOTE" then set_sel o 1
  else if is n "RECURSIVEMATCH" then set_sel o 2 else o.
Definition sel_part (o : list_opts) : list_opts :=
  mkLO (lo_sel_subscribed o) (lo_sel_remote o) (lo_sel_recursive o) false false false None false.

Lemma sel_item_ok : forall a st r, In a sel_names -> delimited r ->
  list_select_item st (a ++ r) = Some (sel_step st a, r).
Proof.
  intros a st r Ha Hr. unfold list_select_item, bind. cbn in Ha.
  repeat (destruct Ha as [<-|Ha];
          [rewrite x_astring_atom; [reflexivity|discriminate|reflexivity|exact Hr]|]).
  contradiction.
Qed.

Lemma sel_incl : forall o a, lo_sel_specialuse o = false -> In a (list_select_opts o) -> In a sel_names.
Proof.
  intros [a0 b c0 d e f g h] a Hd. cbn in Hd. subst d. unfold list_select_opts.
  cbn [lo_sel_subscribed lo_sel_remote lo_sel_recursive lo_sel_specialuse].
  destruct a0, b, c0; cbn; tauto.
Qed.

Lemma sel_fold : forall o, lo_sel_specialuse o = false ->
  fold_left sel_step (list_select_opts o) list_empty = sel_part o.
Proof.
  intros [a0 b c0 d e f g h] Hd. cbn in Hd. subst d. destruct a0, b, c0; reflexivity.
Qed.

Lemma list_sel_ok : forall o y rest, lo_sel_specialuse o = false ->
  plist (map lit (list_select_opts o)) = Some y ->
  m_list list_select_item list_empty (flatten y ++ rest) = Some ((true, sel_part o), rest).
Proof.
  intros o y rest Hd H.
  rewrite (m_list_plist _ _ list_select_item lit sel_step (list_select_opts o) y list_empty rest); [| | |exact H].
  - rewrite sel_fold by assumption. reflexivity.
  - intros a Ha sg st r Hsg Hr. apply lit_some in Hsg. subst sg. rewrite flatten_single.
    apply sel_item_ok; [eapply sel_incl; eassumption|exact Hr].
  - intros a Ha sg Hsg. apply lit_some in Hsg. subst sg. rewrite flatten_single.
    pose proof (sel_incl _ _ Hd Ha) as Hi. cbn in Hi.
    repeat (destruct Hi as [<-|Hi]; [cbn; repeat split; reflexivity|]). contradiction.
Qed.

Inductive ritem := RSub | RChild | RStatus (st : status_opts).
Definition enc_ritem (order : list nat) (x : ritem) : eres :=
  match x with
  | RSub => slit "SUBSCRIBED"
  | RChild => slit "CHILDREN"
  | RStatus st => slit "STATUS " +++ w_status_items st order
  end.
Definition ritems (o : list_opts) : list ritem :=
  (if lo_ret_subscribed o then [RSub] else []) ++
  (if lo_ret_children o then [RChild] else []) ++
  (match lo_ret_status o with Some st => [RStatus st] | None => [] end).
Definition ret_step (o : list_opts) (x : ritem) : list_opts :=
  let '(mkLO a b c d e f g h) := o in
  match x with
  | RSub => mkLO a b c d true f g h
  | RChild => mkLO a b c d e true g h
  | RStatus st => mkLO a b c d e f (Some st) h
  end.

Lemma list_return_opts_eq : forall o order, lo_ret_specialuse o = false ->
  list_return_opts o order = map (enc_ritem order) (ritems o).
Proof.
  intros [a b c0 d e f g h] order H. cbn in H. subst h. unfold list_return_opts, ritems.
  cbn [lo_ret_subscribed lo_ret_children lo_ret_status lo_ret_specialuse].
  destruct e, f, g; reflexivity.
Qed.

Lemma ritems_status : forall o s, In (RStatus s) (ritems o) -> lo_ret_status o = Some s.
Proof.
  intros o s H. unfold ritems in H. apply in_app_or in H. destruct H as [H|H].
  { destruct (lo_ret_subscribed o); cbn in H; [destruct H as [H|[]]; discriminate H|contradiction]. }
  apply in_app_or in H. destruct H as [H|H].
  { destruct (lo_ret_children o); cbn in H; [destruct H as [H|[]]; discriminate H|contradiction]. }
  destruct (lo_ret_status o); cbn in H; [|contradiction].
  destruct H as [H|[]]. injection H as ->. reflexivity.
Qed.

Lemma ret_item_ok : forall order a sg st r, covers order ->
  (forall s, a = RStatus s -> wf_status s) ->
  enc_ritem order a = Some sg -> delimited r ->
  list_return_item st (flatten sg ++ r) = Some (ret_step st a, r).
Proof.
  intros order a sg st r Hc Hw H Hr. destruct a as [| |s]; cbn [enc_ritem] in H.
  - apply slit_some in H. subst sg. rewrite flatten_single. unfold list_return_item, bind.
    rewrite x_atom_lit; [destruct st; reflexivity|discriminate|reflexivity|exact Hr].
  - apply slit_some in H. subst sg. rewrite flatten_single. unfold list_return_item, bind.
    rewrite x_atom_lit; [destruct st; reflexivity|discriminate|reflexivity|exact Hr].
  - split_cat. flat. name_sp "STATUS "%string "STATUS"%string.
    unfold list_return_item, bind.
    rewrite x_atom_lit; [|discriminate|reflexivity|delim].
    destruct st as [a b c0 d e f g h]. cbv zeta.
    change (is (upper (s2b "STATUS")) "SUBSCRIBED") with false.
    change (is (upper (s2b "STATUS")) "CHILDREN") with false.
    change (is (upper (s2b "STATUS")) "STATUS") with true. cbv beta iota.
    match goal with Hs : w_status_items _ _ = Some ?y |- _ =>
      pose proof (plist_item_start _ _ Hs) as Hst;
      rewrite x_sp_sp by (apply item_start_after_sp; exact Hst);
      rewrite (status_items_ok s order y _ (Hw s eq_refl) Hc Hs) end.
    reflexivity.
Qed.

Lemma ret_item_start : forall order a sg, enc_ritem order a = Some sg -> item_start (flatten sg).
Proof.
  intros order a sg H. destruct a as [| |s]; cbn [enc_ritem] in H.
  - apply slit_some in H. subst sg. rewrite flatten_single. cbn. repeat split; reflexivity.
  - apply slit_some in H. subst sg. rewrite flatten_single. cbn. repeat split; reflexivity.
  - split_cat. flat. name_sp "STATUS "%string "STATUS"%string. cbn. repeat split; reflexivity.
Qed.

Definition h_list_tail (o0 : list_opts) : P (list bcall) :=
  do ref <- x_mailbox; x_sp;;
  do pl <- m_list (fun acc => do p <- list_mailbox; ret (add_pattern acc p)) [];
  do pats <- (if fst pl then (match snd pl with [] => reject | l => ret l end)
              else do p <- list_mailbox; ret (add_pattern [] p));
  do more <- m_sp;
  do o <- (if more then
             do a <- x_atom; guard (equal_fold_ascii a (s2b "RETURN"));; x_sp;;
             x_list list_return_item o0
           else ret o0);
  x_crlf;;
  guard (negb (lo_sel_recursive o && negb (lo_sel_subscribed o)));;
  ret [BList ref pats o].

Lemma h_list_eq : h_list =
  (x_sp;; do sel <- m_list list_select_item list_empty; (if fst sel then x_sp else ret tt);;
   h_list_tail (snd sel)).
Proof. reflexivity. Qed.

Lemma h_list_tail_ok : forall c order o o0 o' ref pat x y z,
  wf_name ref -> wf_name pat -> covers order ->
  (forall s, lo_ret_status o = Some s -> wf_status s) -> lo_ret_specialuse o = false ->
  enc_mailbox (ecfg c) ref = Some x -> enc_string (ecfg c) (utf7_encode pat) = Some y ->
  when (negb (nilb (list_return_opts o order))) (slit " RETURN " +++ plist (list_return_opts o order)) = Some z ->
  fold_left ret_step (ritems o) o0 = o' ->
  negb (lo_sel_recursive o' && negb (lo_sel_subscribed o')) = true ->
  h_list_tail o0 (flatten x ++ SP_ :: flatten y ++ flatten z ++ [CR_; LF_]) =
  Some ([BList (norm_mbox ref) (norm_patterns pat) o'], []).
Proof.
  intros c order o o0 o' ref pat x y z Href Hpat Hc Hw Hh Hx Hy Hz Hfold Hg.
  unfold h_list_tail, bind. rewrite list_return_opts_eq in Hz by assumption.
  r_mailbox. r_sp.
  rewrite m_list_absent_str by (eapply enc_string_first; eassumption). cbn [fst snd].
  rewrite (list_mailbox_enc (ecfg c) pat y _ (ecfg_client _) Hpat Hy). rewrite ret_eq.
  replace (add_pattern [] pat) with (norm_patterns pat) by (destruct pat; reflexivity).
  remember (ritems o) as ri eqn:E. destruct ri as [|a l]; cbn [map nilb negb when] in Hz.
  - apply nothing_some in Hz. subst z. cbn [flatten flat_map app]. rewrite m_sp_crlf.
    cbn [fold_left] in Hfold. subst o'. rewrite ret_eq, x_crlf_crlf, Hg. reflexivity.
  - split_cat. flat. name_sp " RETURN "%string " RETURN"%string.
    match goal with |- context [s2b " RETURN" ++ ?r] =>
      change (s2b " RETURN" ++ r) with (SP_ :: s2b "RETURN" ++ r) end.
    rewrite m_sp_sp by (cbn; split; reflexivity).
    rewrite x_atom_lit; [|discriminate|reflexivity|delim].
    change (equal_fold_ascii (s2b "RETURN") (s2b "RETURN")) with true. rewrite guard_true.
    r_sp.
    match goal with Hp : plist _ = Some ?w |- _ =>
      rewrite (x_list_plist _ _ list_return_item (enc_ritem order) ret_step (a :: l) w o0 _); [| | |exact Hp] end.
    + rewrite Hfold, x_crlf_crlf, Hg. reflexivity.
    + intros a0 Ha sg st r Hsg Hr. eapply ret_item_ok; try eassumption.
      intros s ->. apply Hw. apply ritems_status. rewrite <- E. exact Ha.
    + intros a0 _ sg Hsg. eapply ret_item_start. exact Hsg.
Qed.

Lemma d_list : forall c lp tag r p o order, wf_tag tag -> wf_name r -> wf_name p -> wf_lopts o ->
  covers order ->
  delivers lp tag (w_list (ecfg c) r p o order) [BList (norm_mbox r) (norm_patterns p) o].
Proof.
  intros c lp tag r p o order Ht Hr Hp Ho Hc segs H. start H. unfold w_list in Hb.
  destruct Ho as (Hd & Hh & Hrec & Hst).
  assert (Hfold : fold_left ret_step (ritems o) (sel_part o) = o).
  { destruct o as [a0 b0 c0 d e f g h]. cbn in Hd, Hh. subst d h. destruct e, f, g; reflexivity. }
  assert (Hg : negb (lo_sel_recursive o && negb (lo_sel_subscribed o)) = true).
  { destruct (lo_sel_recursive o); [rewrite Hrec by reflexivity|]; reflexivity. }
  assert (Hst' : forall s, lo_ret_status o = Some s -> wf_status s).
  { intros s E. rewrite E in Hst. exact Hst. }
  pose proof (sel_fold o Hd) as Hsel.
  remember (list_select_opts o) as so eqn:Eso. destruct so as [|a l]; cbn [nilb negb when] in Hb;
    split_cat; flat; unfold serve_line; (rcp "LIST"%string h_list Ht); rewrite h_list_eq; unfold bind; r_sp.
  - rewrite m_list_absent_mbox by (eapply enc_mailbox_first; eassumption). cbn [fst snd]. rewrite ret_eq.
    cbn [fold_left] in Hsel. rewrite <- Hsel in Hfold.
    erewrite (h_list_tail_ok c order o list_empty o r p); try eassumption. reflexivity.
  - match goal with Hp : plist _ = Some ?w |- _ => rewrite Eso in Hp; rewrite (list_sel_ok o w _ Hd Hp) end.
    cbn [fst snd]. r_sp.
    erewrite (h_list_tail_ok c order o (sel_part o) o r p); try eassumption. reflexivity.
Qed.

(* ---- APPEND ----------------------------------------------------------------------------------- *)
Definition h_append_tail (lp : bool) (m : bytes) (fl : list bytes) (t : ctime) : P (list bcall) :=
  do ext <- maybe dec_atom;
  do utf8 <- (match ext with
              | Some e => if is (upper e) "UTF8" then x_sp;; x_special "(";; x_special "~";; ret true else reject
              | None => do _ <- m_special "~"; ret false
              end);
  do hd <- expect lit_header;
  guard (fst hd <=? APPEND_LIMIT);;
  guard (negb (snd hd && (4096 <? fst hd) && negb lp));;
  do payload <- take_payload (fst hd);
  (if utf8 then x_special ")" else ret tt);;
  x_crlf;;
  ret [BAppend m fl t payload].

Definition h_append_mid (lp : bool) (m : bytes) (fl : list bytes) : P (list bcall) :=
  do q <- maybe dec_quoted;
  do t <- (match q with
           | None => ret tzero
           | Some txt => match parse_datetime txt with Some t => ret t | None => reject end
           end);
  (if t_is_zero t then ret tt else x_sp);;
  h_append_tail lp m fl t.

Lemma h_append_eq : forall lp, h_append lp =
  (x_sp;; do m <- x_mailbox; x_sp;;
   do fl <- m_list (fun acc => do f <- x_flag; ret (acc ++ [f])) [];
   (if fst fl then x_sp else ret tt);;
   h_append_mid lp m (snd fl)).
Proof. reflexivity. Qed.

Lemma append_literal_shape : forall c payload z, w_append_literal c payload = Some z ->
  exists plus : bool,
    flatten z = ch "{" :: dec_of_N (N.of_nat (length payload)) ++ (if plus then [ch "+"] else []) ++
                ch "}" :: CR_ :: LF_ :: payload /\
    (plus = true -> (4096 <? N.of_nat (length payload)) = false).
Proof.
  intros c payload z H. unfold w_append_literal in H. cbv zeta in H.
  destruct (append_literal_sync (c_caps c) (N.of_nat (length payload))) eqn:E.
  - destruct (c_cont c) as [[|]|]; try discriminate H. injection H as <-. exists false.
    split; [|discriminate]. cbn [flatten flat_map]. unfold CRLF_. cbn [app]. rewrite ?app_nil_r, <- ?app_assoc.
    reflexivity.
  - injection H as <-. exists true. split.
    + rewrite flatten_single. unfold CRLF_. cbn [app]. rewrite <- ?app_assoc. reflexivity.
    + intros _. unfold append_literal_sync in E. apply orb_false_iff in E. destruct E as [E _]. exact E.
Qed.

Lemma lit_first : forall c payload z, w_append_literal c payload = Some z ->
  exists t, flatten z = ch "{" :: t.
Proof.
  intros c payload z H. destruct (append_literal_shape _ _ _ H) as (plus & E & _). rewrite E.
  eexists. reflexivity.
Qed.

Lemma append_tail_ok : forall c lp m fl t payload z,
  w_append_literal c payload = Some z -> N.of_nat (length payload) <= APPEND_LIMIT ->
  h_append_tail lp m fl t (flatten z ++ [CR_; LF_]) = Some ([BAppend m fl t payload], []).
Proof.
  intros c lp m fl t payload z H Hl. destruct (append_literal_shape _ _ _ H) as (plus & E & Hp).
  rewrite E. clear E. unfold h_append_tail, bind. cbn [app]. rewrite <- !app_assoc. cbn [app].
  unfold maybe at 1. unfold dec_atom. rewrite dec_func_no by reflexivity.
  unfold m_special, present, bind, maybe. rewrite dec_special_miss by reflexivity. rewrite !ret_eq.
  unfold expect. unfold APPEND_LIMIT in Hl. rewrite lit_header_hdr by lia. cbn [fst snd].
  replace (N.of_nat (length payload) <=? APPEND_LIMIT) with true
    by (symmetry; apply N.leb_le; unfold APPEND_LIMIT; exact Hl).
  rewrite guard_true.
  replace (negb (plus && (4096 <? N.of_nat (length payload)) && negb lp)) with true
    by (destruct plus; [rewrite Hp by reflexivity|]; reflexivity).
  rewrite guard_true.
  unfold take_payload.
  match goal with |- context [if ?cnd then None else _] =>
    replace cnd with false by (symmetry; apply N.ltb_ge; rewrite app_length, Nat2N.inj_add; apply N.le_add_r) end.
  rewrite Nat2N.id, firstn_length_app, Utf7Codec.skipn_length_app. reflexivity.
Qed.

Lemma plain_valid_quoted : forall cfg s, plain_ascii s = true -> (length s <= 26)%nat ->
  valid_quoted cfg s = true.
Proof.
  intros cfg s Hp Hl. unfold valid_quoted. apply andb_true_iff. split; [apply N.leb_le; lia|].
  unfold plain_ascii in Hp. rewrite forallb_forall in *. intros x Hx. specialize (Hp x Hx).
  apply andb_true_iff in Hp. destruct Hp as [Hp _]. apply andb_true_iff in Hp. destruct Hp as [Hp _].
  apply andb_true_iff in Hp. destruct Hp as [H1 H2]. apply Z.leb_le in H1. apply Z.leb_le in H2.
  cbv zeta. set (n := b2n x) in *.
  destruct (n =? 0) eqn:E0; [apply N.eqb_eq in E0; lia|].
  destruct (n =? 13) eqn:E1; [apply N.eqb_eq in E1; lia|].
  destruct (n =? 10) eqn:E2; [apply N.eqb_eq in E2; lia|].
  replace (n <=? 127) with true by (symmetry; apply N.leb_le; lia).
  rewrite orb_true_r. reflexivity.
Qed.

Lemma append_time_facts : forall t,
  t_sec (append_time t) = t_sec t /\ (t_off (append_time t) mod 60 = 0)%Z /\
  ((-86400 < t_off t < 86400)%Z -> (-86400 < t_off (append_time t) < 86400)%Z).
Proof.
  intros t. unfold append_time. destruct (t_off t mod 60 =? 0)%Z eqn:E.
  - apply Z.eqb_eq in E. repeat split; try assumption; tauto.
  - cbn [t_sec t_off]. repeat split; lia.
Qed.

Lemma append_date_ok : forall c t sg rest, t_is_zero t = false -> wf_datetime t ->
  enc_string (ecfg c) (fmt_datetime (append_time t)) = Some sg ->
  maybe dec_quoted (flatten sg ++ rest) = Some (Some (fmt_datetime (append_time t)), rest) /\
  parse_datetime (fmt_datetime (append_time t)) = Some (norm_time t) /\
  t_is_zero (norm_time t) = false.
Proof.
  intros c t sg rest Hz Hw H. destruct Hw as [Hw|[Hd Ho]]; [congruence|].
  destruct (append_time_facts t) as (Hsec & Hmod & Hoff). specialize (Hoff Ho).
  assert (Hr : day_in_range (t_day (append_time t)) = true).
  { unfold day_in_range. apply andb_true_iff. split; apply Z.leb_le; lia. }
  destruct (fmt_datetime_plain (append_time t)) as [Hp Hl]. specialize (Hl Hr).
  pose proof (plain_valid_quoted (ecfg c) _ Hp Hl) as Hv.
  unfold enc_string in H. rewrite Hv in H. injection H as <-. rewrite flatten_single.
  split; [|split].
  - unfold maybe. rewrite quoted_roundtrip. reflexivity.
  - rewrite (datetime_roundtrip _ Hr Hmod Hoff). unfold norm_time. rewrite Hz, Hsec. reflexivity.
  - unfold norm_time. rewrite Hz. unfold t_is_zero. cbn [t_sec t_nsec].
    assert (t_sec t <> 0)%Z.
    { intro E0. rewrite <- Hsec in E0. unfold t_day, DAYSEC in Hd. rewrite E0 in Hd.
      assert (t_off (append_time t) / 86400 <= 0)%Z by (apply Z.div_le_upper_bound; lia).
      cbn [Z.add] in Hd. lia. }
    apply Z.eqb_neq in H. rewrite H. reflexivity.
Qed.

Lemma lit_not_quoted : forall c payload z r, w_append_literal c payload = Some z ->
  maybe dec_quoted (flatten z ++ r) = Some (None, flatten z ++ r).
Proof.
  intros c payload z r H. destruct (lit_first _ _ _ H) as (t & ->). cbn [app]. unfold maybe.
  rewrite dec_quoted_miss by reflexivity. reflexivity.
Qed.

Lemma append_mid_ok : forall c lp m fl t payload d z,
  wf_datetime t -> N.of_nat (length payload) <= APPEND_LIMIT ->
  when (negb (t_is_zero t)) (enc_string (ecfg c) (fmt_datetime (append_time t)) +++ sp) = Some d ->
  w_append_literal c payload = Some z ->
  h_append_mid lp m fl (flatten d ++ flatten z ++ [CR_; LF_]) =
  Some ([BAppend m fl (norm_time t) payload], []).
Proof.
  intros c lp m fl t payload d z Hw Hl Hd Hz. unfold h_append_mid, bind.
  destruct (t_is_zero t) eqn:Ez; cbn [negb when] in Hd.
  - apply nothing_some in Hd. subst d. cbn [flatten flat_map app].
    rewrite (lit_not_quoted _ _ _ _ Hz). rewrite ret_eq.
    change (t_is_zero tzero) with true. cbv iota. rewrite ret_eq.
    rewrite (append_tail_ok c lp m fl tzero payload z Hz Hl). unfold norm_time. rewrite Ez. reflexivity.
  - split_cat. flat.
    match goal with Hs : enc_string _ _ = Some ?sg |- _ =>
      destruct (append_date_ok c t sg (SP_ :: flatten z ++ [CR_; LF_]) Ez Hw Hs) as (Hq & Hpd & Hnz) end.
    unfold byte, bytes in *. rewrite Hq, Hpd, ret_eq, Hnz.
    destruct (lit_first _ _ _ Hz) as (t0 & E0).
    rewrite x_sp_sp by (rewrite E0; cbn; split; reflexivity).
    apply (append_tail_ok c lp m fl (norm_time t) payload z Hz Hl).
Qed.

Lemma mid_start : forall c t payload d z r,
  when (negb (t_is_zero t)) (enc_string (ecfg c) (fmt_datetime (append_time t)) +++ sp) = Some d ->
  w_append_literal c payload = Some z -> str_start (flatten d ++ flatten z ++ r).
Proof.
  intros c t payload d z r Hd Hz. destruct (negb (t_is_zero t)); cbn [when] in Hd.
  - split_cat. flat.
    match goal with Hs : enc_string _ _ = Some ?sg |- _ => pose proof (enc_string_first _ _ _ Hs) as Hf end.
    destruct (flatten x) as [|b0 t0]; [contradiction|]. exact Hf.
  - apply nothing_some in Hd. subst d. cbn [flatten flat_map app].
    destruct (lit_first _ _ _ Hz) as (t0 & ->). cbn. auto.
Qed.

Lemma d_append : forall c lp tag m flags t payload, wf_tag tag -> wf_name m ->
  wf_datetime t -> N.of_nat (length payload) <= APPEND_LIMIT ->
  delivers lp tag (w_append c m flags t payload)
           [BAppend (norm_mbox m) (map canonical_flag flags) (norm_time t) payload].
Proof.
  intros c lp tag m flags t payload Ht Hm Hw Hl segs H. start H. unfold w_append in Hb.
  destruct flags as [|f fl]; cbn [nilb negb when] in Hb; split_cat; flat; unfold serve_line;
    name_sp "APPEND "%string "APPEND"%string; (rcp "APPEND"%string (h_append lp) Ht);
    rewrite h_append_eq; unfold bind; r_sp; r_mailbox.
  - match goal with Hd : when _ _ = Some ?d, Hz : w_append_literal _ _ = Some ?z |- _ =>
      pose proof (mid_start _ _ _ _ _ [CR_; LF_] Hd Hz) as Hst;
      rewrite x_sp_sp by (apply str_start_after_sp'; exact Hst);
      rewrite (m_list_absent_str' _ _ _ _ Hst); cbn [fst snd]; rewrite ret_eq;
      rewrite (append_mid_ok c lp _ _ t payload d z Hw Hl Hd Hz) end.
    reflexivity.
  - match goal with Hd : when _ _ = Some ?d, Hz : w_append_literal _ _ = Some ?z, Hp : plist _ = Some ?w |- _ =>
      pose proof (mid_start _ _ _ _ _ [CR_; LF_] Hd Hz) as Hst;
      r_sp; rewrite (flags_list_ok (f :: fl) w _ Hp); cbn [fst snd];
      rewrite x_sp_sp by (apply str_start_after_sp'; exact Hst);
      rewrite (append_mid_ok c lp _ _ t payload d z Hw Hl Hd Hz) end.
    reflexivity.
Qed.

(* ---- every command but SEARCH and FETCH ------------------------------------------------------ *)
Lemma simple_delivery : forall c lp order tag q,
  is_search q = false -> is_fetch q = false ->
  wf_req q -> covers order -> wf_tag tag ->
  Forall2 (delivers lp tag) (w_req c order q) (norm_req c q).
Proof.
  intros c lp order tag q Hs Hf Hw Hc Ht.
  destruct q; cbn [is_search is_fetch] in Hs, Hf; try discriminate; cbn [w_req norm_req wf_req] in *.
  - destruct Hw as [Hu Hp]. constructor; [|constructor]. apply d_login; assumption.
  - destruct Hw as [Hm ->]. constructor; [|constructor]. apply d_select; assumption.
  - destruct Hw as [Hm Hu]. constructor; [|constructor]. apply d_create; assumption.
  - constructor; [|constructor]. apply d_delete; assumption.
  - destruct Hw as [Ha Hb]. constructor; [|constructor]. apply d_rename; assumption.
  - constructor; [|constructor]. apply d_subscribe; assumption.
  - constructor; [|constructor]. apply d_unsubscribe; assumption.
  - destruct Hw as (Hr & Hp & Ho). constructor; [|constructor]. apply d_list; assumption.
  - destruct Hw as [Hm Ho]. constructor; [|constructor]. apply d_status; assumption.
  - destruct Hw as (Hm & _ & Hd & Hl). constructor; [|constructor]. apply d_append; assumption.
  - constructor; [|constructor]. apply d_expunge; assumption.
  - constructor; [|constructor]. apply d_uid_expunge; assumption.
  - destruct Hw as (Hn & Hop & _ & ->). constructor; [|constructor]. apply d_store; assumption.
  - destruct Hw as [Hn Hd]. constructor; [|constructor]. apply d_copy; assumption.
  - destruct Hw as [Hn Hd]. destruct (has_move (c_caps c)).
    + constructor; [|constructor]. apply d_move; assumption.
    + constructor; [apply d_copy; assumption|].
      constructor; [exact (d_store lp tag uid s 1 true [DELETED] Ht Hn ltac:(lia))|].
      constructor; [|constructor].
      destruct (uid && has_uidplus (c_caps c)) eqn:E.
      * apply andb_true_iff in E. destruct E as [-> _]. apply d_uid_expunge; assumption.
      * apply d_expunge; assumption.
  - constructor; [|constructor]. apply d_unselect; assumption.
  - constructor; [|constructor]. apply d_close; assumption.
Qed.

(* ---- the encoder does not fail on well-formed requests --------------------------------------- *)
Lemma cat_ok : forall a b, a <> None -> b <> None -> a +++ b <> None.
Proof. intros [x|] [y|] Ha Hb; cbn; congruence. Qed.
Lemma lit_ok : forall b, lit b <> None.
Proof. discriminate. Qed.
Lemma slit_ok : forall k, slit k <> None.
Proof. discriminate. Qed.
Lemma sp_ok : sp <> None.
Proof. discriminate. Qed.
Lemma when_ok : forall b e, e <> None -> when b e <> None.
Proof. intros [|] e H; cbn; [exact H|discriminate]. Qed.

Lemma join_sp_ok : forall l, Forall (fun e => e <> None) l -> join_sp l <> None.
Proof.
  induction l as [|x l IH]; intros H.
  - discriminate.
  - inversion H as [|x' l' Hx Hl]; subst. destruct l as [|y l].
    + exact Hx.
    + rewrite join_sp_cons2. apply cat_ok; [exact Hx|]. apply cat_ok; [apply sp_ok|]. apply IH. exact Hl.
Qed.
Lemma plist_ok : forall l, Forall (fun e => e <> None) l -> plist l <> None.
Proof.
  intros l H. unfold plist. apply cat_ok; [apply slit_ok|]. apply cat_ok; [|apply slit_ok].
  apply join_sp_ok. exact H.
Qed.
Lemma Forall_map_ok : forall A (enc : A -> eres) (wf : A -> Prop) l,
  (forall a, wf a -> enc a <> None) -> Forall wf l -> Forall (fun e => e <> None) (map enc l).
Proof.
  intros A enc wf l H Hl. induction Hl as [|a l Ha Hl IH]; cbn [map]; constructor; auto.
Qed.

Lemma enc_string_ok : forall c s, c_cont c = Some true -> enc_string (ecfg c) s <> None.
Proof.
  intros c s Hc. unfold enc_string. destruct (valid_quoted (ecfg c) s); [discriminate|].
  unfold enc_literal. cbv zeta.
  match goal with |- (if ?b then _ else _) <> None => destruct b end; [|discriminate].
  unfold ecfg, client_cfg. cbn [cont_granted]. rewrite Hc. discriminate.
Qed.
Lemma enc_mailbox_ok : forall c m, c_cont c = Some true -> enc_mailbox (ecfg c) m <> None.
Proof.
  intros c m Hc. unfold enc_mailbox. destruct (equal_fold_ascii m INBOX); [discriminate|].
  apply enc_string_ok. exact Hc.
Qed.
Lemma w_numarg_ok : forall uid s, wf_numarg uid s -> w_numarg s <> None.
Proof.
  intros uid [|s] H; cbn [w_numarg]; [discriminate|]. destruct H as [_ Hn].
  unfold enc_numset. destruct (to_string_first s Hn) as (x & t & -> & _). discriminate.
Qed.
Lemma w_copy_ok : forall c name uid s d, c_cont c = Some true -> wf_numarg uid s ->
  w_copy (ecfg c) name uid s d <> None.
Proof.
  intros c name uid s d Hc Hs. unfold w_copy.
  apply cat_ok; [unfold cmd_name; destruct uid; discriminate|].
  apply cat_ok; [apply sp_ok|]. apply cat_ok; [eapply w_numarg_ok; exact Hs|].
  apply cat_ok; [apply sp_ok|]. apply enc_mailbox_ok. exact Hc.
Qed.
Lemma w_store_ok : forall uid s op silent flags us, wf_numarg uid s -> op <= 2 -> Forall wf_flag flags ->
  w_store uid s op silent flags us <> None.
Proof.
  intros uid s op silent flags us Hs Hop Hf. unfold w_store.
  apply cat_ok; [unfold cmd_name; destruct uid; discriminate|].
  apply cat_ok; [apply sp_ok|]. apply cat_ok; [eapply w_numarg_ok; exact Hs|].
  apply cat_ok; [apply sp_ok|].
  apply cat_ok; [apply when_ok; discriminate|].
  apply cat_ok.
  { assert (Hop' : op = 0 \/ op = 1 \/ op = 2) by lia.
    destruct Hop' as [ -> | [ -> | -> ] ]; discriminate. }
  apply cat_ok; [apply slit_ok|]. apply cat_ok; [apply when_ok; apply slit_ok|].
  apply cat_ok; [apply sp_ok|]. apply plist_ok.
  apply (Forall_map_ok _ enc_flag wf_flag); [intros a Ha; exact Ha|exact Hf].
Qed.
Lemma w_status_items_ok : forall o order, w_status_items o order <> None.
Proof.
  intros o order. unfold w_status_items. apply plist_ok.
  apply (Forall_map_ok _ lit (fun _ => True)); [intros; apply lit_ok|].
  apply Forall_forall. intros; exact I.
Qed.
Lemma w_line_ok : forall tag body, body <> None -> w_line tag body <> None.
Proof.
  intros tag body H. unfold w_line. apply cat_ok; [apply lit_ok|]. apply cat_ok; [apply sp_ok|].
  apply cat_ok; [exact H|apply lit_ok].
Qed.

Lemma simple_encodable : forall c order tag q,
  is_search q = false -> is_fetch q = false ->
  wf_req q -> c_cont c = Some true ->
  Forall (fun body => w_line tag body <> None) (w_req c order q).
Proof.
  intros c order tag q Hs Hf Hw Hc.
  destruct q; cbn [is_search is_fetch] in Hs, Hf; try discriminate; cbn [w_req wf_req] in *.
  - constructor; [|constructor]. apply w_line_ok.
    apply cat_ok; [apply slit_ok|]. apply cat_ok; [apply enc_string_ok; exact Hc|].
    apply cat_ok; [apply sp_ok|]. apply enc_string_ok; exact Hc.
  - constructor; [|constructor]. apply w_line_ok.
    apply cat_ok; [destruct readonly; apply slit_ok|]. apply cat_ok; [apply enc_mailbox_ok; exact Hc|].
    apply when_ok. apply slit_ok.
  - destruct Hw as [_ Hu]. constructor; [|constructor]. apply w_line_ok.
    apply cat_ok; [apply slit_ok|]. apply cat_ok; [apply enc_mailbox_ok; exact Hc|].
    apply when_ok. apply cat_ok; [apply slit_ok|]. apply cat_ok; [|apply slit_ok]. apply plist_ok.
    apply (Forall_map_ok _ enc_mailbox_attr wf_attr); [intros a Ha; exact Ha|exact Hu].
  - constructor; [|constructor]. apply w_line_ok.
    apply cat_ok; [apply slit_ok|apply enc_mailbox_ok; exact Hc].
  - constructor; [|constructor]. apply w_line_ok.
    apply cat_ok; [apply slit_ok|]. apply cat_ok; [apply enc_mailbox_ok; exact Hc|].
    apply cat_ok; [apply sp_ok|apply enc_mailbox_ok; exact Hc].
  - constructor; [|constructor]. apply w_line_ok.
    apply cat_ok; [apply slit_ok|apply enc_mailbox_ok; exact Hc].
  - constructor; [|constructor]. apply w_line_ok.
    apply cat_ok; [apply slit_ok|apply enc_mailbox_ok; exact Hc].
  - constructor; [|constructor]. apply w_line_ok. unfold w_list.
    apply cat_ok; [apply slit_ok|].
    apply cat_ok.
    { apply when_ok. apply cat_ok; [apply sp_ok|]. apply plist_ok.
      apply (Forall_map_ok _ lit (fun _ => True)); [intros; apply lit_ok|].
      apply Forall_forall. intros; exact I. }
    apply cat_ok; [apply sp_ok|]. apply cat_ok; [apply enc_mailbox_ok; exact Hc|].
    apply cat_ok; [apply sp_ok|]. apply cat_ok; [apply enc_string_ok; exact Hc|].
    apply when_ok. apply cat_ok; [apply slit_ok|]. apply plist_ok.
    unfold list_return_opts. apply Forall_app; split.
    + destruct (lo_ret_subscribed o); repeat constructor. apply slit_ok.
    + apply Forall_app; split; [destruct (lo_ret_children o); repeat constructor; apply slit_ok|].
      apply Forall_app; split.
      * destruct (lo_ret_status o); repeat constructor.
        apply cat_ok; [apply slit_ok|apply w_status_items_ok].
      * destruct (lo_ret_specialuse o); repeat constructor. apply slit_ok.
  - constructor; [|constructor]. apply w_line_ok. unfold w_status.
    apply cat_ok; [apply slit_ok|]. apply cat_ok; [apply enc_mailbox_ok; exact Hc|].
    apply cat_ok; [apply sp_ok|apply w_status_items_ok].
  - destruct Hw as (_ & Hfl & _ & _). constructor; [|constructor]. apply w_line_ok. unfold w_append.
    apply cat_ok; [apply slit_ok|]. apply cat_ok; [apply enc_mailbox_ok; exact Hc|].
    apply cat_ok; [apply sp_ok|].
    apply cat_ok.
    { apply when_ok. apply cat_ok; [|apply sp_ok]. apply plist_ok.
      apply (Forall_map_ok _ enc_flag wf_flag); [intros a Ha; exact Ha|exact Hfl]. }
    apply cat_ok; [apply when_ok; apply cat_ok; [apply enc_string_ok; exact Hc|apply sp_ok]|].
    unfold w_append_literal. cbv zeta.
    destruct (append_literal_sync (c_caps c) (N.of_nat (length payload))); [rewrite Hc|]; discriminate.
  - constructor; [|constructor]. apply w_line_ok. apply slit_ok.
  - constructor; [|constructor]. apply w_line_ok.
    apply cat_ok; [apply slit_ok|eapply w_numarg_ok; exact Hw].
  - destruct Hw as (Hn & Hop & Hfl & _). constructor; [|constructor]. apply w_line_ok.
    apply w_store_ok; assumption.
  - destruct Hw as [Hn _]. constructor; [|constructor]. apply w_line_ok. eapply w_copy_ok; eassumption.
  - destruct Hw as [Hn _]. destruct (has_move (c_caps c)).
    + constructor; [|constructor]. apply w_line_ok. eapply w_copy_ok; eassumption.
    + constructor; [apply w_line_ok; eapply w_copy_ok; eassumption|].
      constructor.
      { apply w_line_ok. apply (w_store_ok uid s 1 true [DELETED] 0 Hn); [lia|].
        constructor; [|constructor]. unfold wf_flag. vm_compute. discriminate. }
      constructor; [|constructor]. apply w_line_ok.
      destruct (uid && has_uidplus (c_caps c)); [|apply slit_ok].
      apply cat_ok; [apply slit_ok|eapply w_numarg_ok; exact Hn].
  - constructor; [|constructor]. apply w_line_ok. apply slit_ok.
  - constructor; [|constructor]. apply w_line_ok. apply slit_ok.
Qed.
