(* Proofs/ClientWriteProofs.v — C18: the client only uses syntax the server advertised. *)
From GoImap.Base Require Import Bytes.
From GoImap.Model Require Import NumSet MatchList Utf7 Wire ClientWrite.
From GoImap.Proofs Require Import WireSpec WireProofs.
Open Scope N_scope.

(* independent description of a legal rendering of the string [s] for a server that
   advertised LITERAL+ ([lp]), LITERAL-/IMAP4rev2 ([lm]) and accepts UTF-8 in quoted strings
   ([utf8]) *)
Definition lit_header (n : N) (plus : bool) : bytes :=
  s2b "{" ++ dec_of_N n ++ (if plus then s2b "+" else []) ++ s2b "}" ++ [CR_; LF_].

Definition quoted_char_ok (utf8 : bool) (c : byte) : bool :=
  let n := b2n c in negb ((n =? 0) || (n =? 13) || (n =? 10)) && (utf8 || (n <=? 127)).

Definition legal_string_segs (lp lm utf8 : bool) (s : bytes) (segs : list seg) : Prop :=
  (* a quoted string: no NUL/CR/LF, 8-bit only if allowed *)
  (segs = [SBytes (enc_quoted s)] /\ forallb (quoted_char_ok utf8) s = true) \/
  (* a non-synchronising literal: only with LITERAL+, or LITERAL-/rev2 up to 4096 bytes *)
  (segs = [SBytes (lit_header (N.of_nat (length s)) true ++ s)] /\
   (lp = true \/ (lm = true /\ N.of_nat (length s) <= 4096))) \/
  (* a synchronising literal: the payload comes after the continuation request *)
  (segs = [SBytes (lit_header (N.of_nat (length s)) false); SWait; SBytes s]).

Lemma valid_quoted_chars : forall cfg s,
  valid_quoted cfg s = true -> forallb (quoted_char_ok (quoted_utf8 cfg)) s = true.
Proof.
  intros cfg s H. unfold valid_quoted in H.
  apply andb_true_iff in H. destruct H as [_ H].
  rewrite forallb_forall in *. intros c Hc.
  specialize (H c Hc). unfold quoted_char_ok. exact H.
Qed.

Lemma lit_header_plus_app : forall n s,
  lit_header n true ++ s = s2b "{" ++ dec_of_N n ++ s2b "+" ++ s2b "}" ++ [CR_; LF_] ++ s.
Proof.
  intros n s. unfold lit_header. cbv iota.
  repeat rewrite <- app_assoc. reflexivity.
Qed.

Lemma literal_legal : forall caps en cont s segs,
  enc_literal (client_cfg caps en cont) s = Some segs ->
  (segs = [SBytes (lit_header (N.of_nat (length s)) true ++ s)] /\
   (cap_in "LITERAL+" caps = true \/
    (cap_in "LITERAL-" caps || cap_in "IMAP4rev2" caps || cap_in "LITERAL+" caps = true /\
     N.of_nat (length s) <= 4096))) \/
  (segs = [SBytes (lit_header (N.of_nat (length s)) false); SWait; SBytes s]).
Proof.
  intros caps en cont s segs H.
  unfold enc_literal, client_cfg, has_literal_minus, has_literal_plus, has_rev2 in H.
  cbn [client_side literal_minus literal_plus cont_granted] in H.
  rewrite lit_header_plus_app.
  set (n := N.of_nat (length s)) in *.
  set (lp := cap_in "LITERAL+" caps) in *.
  set (lm := cap_in "LITERAL-" caps || cap_in "IMAP4rev2" caps || lp) in *.
  destruct lp eqn:LP.
  - (* LITERAL+ *)
    rewrite andb_false_r in H. cbv iota in H.
    inversion H; subst. left. split; [reflexivity|]. left; reflexivity.
  - destruct lm eqn:LM.
    + destruct (N.ltb_spec 4096 n) as [L|L].
      * cbn [negb orb andb] in H.
        destruct cont as [[|]|]; try discriminate.
        inversion H; subst. right. reflexivity.
      * cbn [negb orb andb] in H. inversion H; subst.
        left. split; [reflexivity|]. right. split; [reflexivity|exact L].
    + cbn [negb orb andb] in H.
      destruct cont as [[|]|]; try discriminate.
      inversion H; subst. right. reflexivity.
Qed.

Lemma string_legal : forall caps en cont s segs,
  enc_string (client_cfg caps en cont) s = Some segs ->
  legal_string_segs (cap_in "LITERAL+" caps)
                    (cap_in "LITERAL-" caps || cap_in "IMAP4rev2" caps || cap_in "LITERAL+" caps)
                    (cap_in "IMAP4rev2" caps || en) s segs.
Proof.
  intros caps en cont s segs H.
  unfold enc_string in H.
  unfold legal_string_segs.
  destruct (valid_quoted (client_cfg caps en cont) s) eqn:V.
  - inversion H; subst; clear H. left. split; [reflexivity|].
    exact (valid_quoted_chars _ _ V).
  - right. exact (literal_legal _ _ _ _ _ H).
Qed.

(* a mailbox name is written as INBOX or as a legal string (of its modified UTF-7 form) *)
Lemma mailbox_legal : forall caps en cont name segs,
  enc_mailbox (client_cfg caps en cont) name = Some segs ->
  segs = [SBytes INBOX] \/
  legal_string_segs (cap_in "LITERAL+" caps)
                    (cap_in "LITERAL-" caps || cap_in "IMAP4rev2" caps || cap_in "LITERAL+" caps)
                    (cap_in "IMAP4rev2" caps || en) (utf7_encode name) segs.
Proof.
  intros caps en cont name segs H.
  unfold enc_mailbox in H.
  destruct (equal_fold_ascii name INBOX).
  - inversion H; subst. left; reflexivity.
  - right. eapply string_legal; exact H.
Qed.

(* the payload of a synchronising literal is never written when the server answers with a
   refusal instead of the continuation request: the encoder fails and nothing follows the header *)
Lemma refused_literal_no_payload : forall caps en s,
  valid_quoted (client_cfg caps en (Some false)) s = false ->
  cap_in "LITERAL+" caps = false ->
  (cap_in "LITERAL-" caps || cap_in "IMAP4rev2" caps = false \/ 4096 < N.of_nat (length s)) ->
  enc_string (client_cfg caps en (Some false)) s = None.
Proof.
  intros caps en s V LP H.
  unfold enc_string. rewrite V.
  unfold enc_literal, client_cfg, has_literal_minus, has_literal_plus, has_rev2 in *.
  cbn [client_side literal_minus literal_plus cont_granted].
  rewrite LP.
  assert (E : negb (cap_in "LITERAL-" caps || cap_in "IMAP4rev2" caps || false)
              || (4096 <? N.of_nat (length s)) = true).
  { destruct H as [H|H].
    - rewrite H. reflexivity.
    - apply N.ltb_lt in H. rewrite H. apply orb_true_r. }
  rewrite E. reflexivity.
Qed.

(* APPEND: the message literal is non-synchronising only with LITERAL-/rev2/LITERAL+ and at
   most 4096 bytes *)
Lemma append_literal_legal : forall caps size, append_literal_sync caps size = false ->
  (cap_in "LITERAL-" caps || cap_in "IMAP4rev2" caps || cap_in "LITERAL+" caps) = true /\ size <= 4096.
Proof.
  intros caps size H.
  unfold append_literal_sync, has_literal_minus, has_literal_plus, has_rev2 in H.
  apply orb_false_iff in H. destruct H as [H1 H2].
  apply negb_false_iff in H2. apply N.ltb_ge in H1.
  split; assumption.
Qed.

(* whole commands: every argument of a written command is legal *)
Lemma cmd_write_args_legal : forall caps en cont args segs,
  enc_cargs (client_cfg caps en cont) args = Some segs ->
  Forall (fun a => exists sg, enc_carg (client_cfg caps en cont) a = Some sg /\
            match a with
            | CAString s => legal_string_segs (cap_in "LITERAL+" caps)
                              (cap_in "LITERAL-" caps || cap_in "IMAP4rev2" caps || cap_in "LITERAL+" caps)
                              (cap_in "IMAP4rev2" caps || en) s sg
            | CAMailbox n => sg = [SBytes INBOX] \/
                             legal_string_segs (cap_in "LITERAL+" caps)
                              (cap_in "LITERAL-" caps || cap_in "IMAP4rev2" caps || cap_in "LITERAL+" caps)
                              (cap_in "IMAP4rev2" caps || en) (utf7_encode n) sg
            end) args.
Proof.
  intros caps en cont args.
  induction args as [|a r IH]; intros segs H.
  - constructor.
  - cbn [enc_cargs] in H.
    destruct (enc_carg (client_cfg caps en cont) a) as [x|] eqn:Ea; [|discriminate].
    destruct (enc_cargs (client_cfg caps en cont) r) as [y|] eqn:Er; [|discriminate].
    constructor.
    + exists x. split; [exact Ea|].
      destruct a as [s|n]; cbn [enc_carg] in Ea.
      * eapply string_legal; exact Ea.
      * eapply mailbox_legal; exact Ea.
    + eapply IH. reflexivity.
Qed.
