(* Proofs/ClientRespDepth.v — C11, theorem depth_bounded: the high-water mark of the Go call
   depth of the recursive readers never exceeds MAX_BODY_DEPTH + MAX_LIST_DEPTH.

   Method: a one-predicate Hoare framework.  [dp B p] says that the parser [p] keeps
   "s_maxd <= B" (in Ok and in Err results).  Every parser of the model that does not call
   [note_depth] has it for every B; the three recursive readers have it for
   B = MAX_BODY_DEPTH + MAX_LIST_DEPTH under a side condition on their depth arguments.    *)
From Coq Require Import Lia.
From GoImap.Base Require Import Bytes.
From GoImap.Model Require Import NumSet ClientResp.
From GoImap.Proofs Require Import ClientRespSpec.

(* ---------------------------------------------------------------------------------------- *)
(* the predicate                                                                             *)

Definition okd (B : nat) {A} (r : res A) : Prop :=
  match r with
  | Ok _ s' => (s_maxd s' <= B)%nat
  | Err s' => (s_maxd s' <= B)%nat
  | Fuel => True
  | Crash => True
  end.

Definition dp (B : nat) {A} (p : P A) : Prop :=
  forall s, (s_maxd s <= B)%nat -> okd B (p s).

Section Rules.
Variable B : nat.

Lemma dp_ret : forall A (v : A), dp B (ret v).
Proof. unfold dp, ret; intros; exact H. Qed.
Lemma dp_fail : forall A, dp B (@fail A).
Proof. unfold dp, fail; intros; exact H. Qed.
Lemma dp_crash : forall A, dp B (@crash A).
Proof. unfold dp, crash; intros; exact I. Qed.
Lemma dp_out_of_fuel : forall A, dp B (@out_of_fuel A).
Proof. unfold dp, out_of_fuel; intros; exact I. Qed.
Lemma dp_expect_fail : forall A, dp B (@expect_fail A).
Proof. unfold dp, expect_fail; intros; exact H. Qed.
Lemma dp_tick : dp B tick.
Proof. unfold dp, tick; intros; exact H. Qed.
Lemma dp_emit : forall e, dp B (emit e).
Proof. unfold dp, emit; intros; exact H. Qed.
Lemma dp_mark_err : dp B mark_err.
Proof. unfold dp, mark_err; intros; exact H. Qed.
Lemma dp_err_is_set : dp B err_is_set.
Proof. unfold dp, err_is_set; intros; exact H. Qed.
Lemma dp_note_depth : forall d, (d <= B)%nat -> dp B (note_depth d).
Proof. unfold dp, note_depth; intros; cbn [okd s_maxd]. apply Nat.max_lub; assumption. Qed.

Lemma dp_bind : forall A C (p : P A) (q : A -> P C),
  dp B p -> (forall v, dp B (q v)) -> dp B (bind p q).
Proof.
  intros A C p q Hp Hq s Hs. unfold bind. specialize (Hp s Hs).
  destruct (p s); cbn [okd] in *; auto. apply Hq; assumption.
Qed.

Lemma dp_with_fuel : forall A (f : nat -> P A), (forall k, dp B (f k)) -> dp B (with_fuel f).
Proof. intros A f H s Hs. unfold with_fuel. apply H; assumption. Qed.

End Rules.

(* a parser written as a raw function of the state *)
Ltac dp_raw :=
  let s := fresh "s" in let Hs := fresh "Hs" in
  unfold dp; intros s Hs; cbv zeta;
  repeat match goal with
         | |- context [match ?x with _ => _ end] => destruct x
         end;
  cbn [okd s_maxd set_in set_err]; auto.

Create HintDb dp.

Section Prims.
Variable B : nat.

Lemma dp_special : forall c, dp B (special c).
Proof. intros c. unfold special. dp_raw. Qed.
Lemma dp_sp : dp B sp.
Proof. unfold sp. dp_raw. Qed.
Lemma dp_func : forall v, dp B (func v).
Proof. intros v. unfold func. dp_raw. Qed.
Lemma dp_discard_until : forall c, dp B (discard_until c).
Proof. intros c. unfold discard_until. dp_raw. Qed.

End Prims.

#[export] Hint Resolve dp_ret dp_fail dp_crash dp_out_of_fuel dp_expect_fail dp_tick dp_emit
  dp_mark_err dp_err_is_set dp_special dp_sp dp_func dp_discard_until : dp.

(* one step of the syntax-directed proof *)
Ltac dp_hyp :=
  match goal with
  | H : dp _ ?p |- dp _ ?p => exact H
  | H : forall _, dp _ _ |- dp _ _ => apply H
  | H : forall _ _, dp _ _ |- dp _ _ => apply H
  | H : forall _ _ _, dp _ _ |- dp _ _ => apply H
  end.

Ltac dp_step :=
  match goal with
  | |- dp _ (bind _ _) => apply dp_bind; [ | intros ? ]
  | |- dp _ (with_fuel _) => apply dp_with_fuel; intros ?
  | |- dp _ (if ?b then _ else _) => destruct b eqn:?
  | |- dp _ (match ?x with _ => _ end) => destruct x eqn:?
  | |- dp _ _ => solve [ auto 1 with dp ]
  | |- dp _ _ => dp_hyp
  | |- dp _ (fun _ => _) => solve [ dp_raw ]
  end.
Ltac dp_auto := cbv beta zeta; repeat (dp_step; cbv beta zeta).

Section Basic.
Variable B : nat.

Lemma dp_expect_special : forall c, dp B (expect_special c).
Proof. intros; unfold expect_special. dp_auto. Qed.
Lemma dp_expect_sp : dp B expect_sp.
Proof. unfold expect_sp. dp_auto. Qed.
Lemma dp_crlf : dp B crlf.
Proof. unfold crlf. dp_auto. Qed.
Hint Resolve dp_crlf : dp.
Lemma dp_expect_crlf : dp B expect_crlf.
Proof. unfold expect_crlf. dp_auto. Qed.
Lemma dp_atom : dp B atom.
Proof. unfold atom. dp_auto. Qed.
Hint Resolve dp_atom : dp.
Lemma dp_expect_atom : dp B expect_atom.
Proof. unfold expect_atom. dp_auto. Qed.
Hint Resolve dp_expect_atom : dp.
Lemma dp_expect_nil : dp B expect_nil.
Proof. unfold expect_nil. dp_auto. Qed.
Lemma dp_text : dp B text.
Proof. unfold text. dp_auto. Qed.
Lemma dp_uint : forall b, dp B (uint b).
Proof. intros; unfold uint. dp_auto. Qed.
Hint Resolve dp_uint : dp.
Lemma dp_number : dp B number.
Proof. unfold number. dp_auto. Qed.
Lemma dp_number64 : dp B number64.
Proof. unfold number64. dp_auto. Qed.
Lemma dp_modseq : dp B modseq.
Proof. unfold modseq. dp_auto. Qed.
Hint Resolve dp_number dp_number64 dp_modseq : dp.
Lemma dp_expect_of : forall A (p : P (option A)), dp B p -> dp B (expect_of p).
Proof. intros; unfold expect_of. dp_auto. Qed.
Lemma dp_expect_number : dp B expect_number.
Proof. apply dp_expect_of; auto with dp. Qed.
Lemma dp_expect_number64 : dp B expect_number64.
Proof. apply dp_expect_of; auto with dp. Qed.
Lemma dp_expect_modseq : dp B expect_modseq.
Proof. apply dp_expect_of; auto with dp. Qed.
Hint Resolve dp_expect_number dp_expect_number64 dp_expect_modseq : dp.
Lemma dp_expect_body_fld_octets : dp B expect_body_fld_octets.
Proof. unfold expect_body_fld_octets. dp_auto. Qed.
Lemma dp_quoted : dp B quoted.
Proof. unfold quoted. dp_auto. Qed.
Hint Resolve dp_quoted : dp.
Lemma dp_literal : dp B literal.
Proof. unfold literal. dp_auto. Qed.
Hint Resolve dp_literal : dp.
Lemma dp_string_ : dp B string_.
Proof. unfold string_. dp_auto. Qed.
Hint Resolve dp_string_ : dp.
Lemma dp_expect_string : dp B expect_string.
Proof. apply dp_expect_of; auto with dp. Qed.
Hint Resolve dp_expect_string : dp.
Lemma dp_expect_astring : dp B expect_astring.
Proof. unfold expect_astring. dp_auto. Qed.
Hint Resolve dp_expect_astring : dp.
Lemma dp_expect_nstring : dp B expect_nstring.
Proof. unfold expect_nstring. dp_auto. Qed.
Lemma dp_expect_nstring_reader : dp B expect_nstring_reader.
Proof. unfold expect_nstring_reader. dp_auto. Qed.
Lemma dp_expect_mailbox : dp B expect_mailbox.
Proof. unfold expect_mailbox. dp_auto. Qed.
Lemma dp_expect_numset : dp B expect_numset.
Proof. unfold expect_numset. dp_auto. Qed.

End Basic.

#[export] Hint Resolve dp_expect_special dp_expect_sp dp_crlf dp_expect_crlf dp_atom dp_expect_atom
  dp_expect_nil dp_text dp_uint dp_number dp_number64 dp_modseq dp_expect_number
  dp_expect_number64 dp_expect_modseq dp_expect_body_fld_octets dp_quoted dp_literal dp_string_
  dp_expect_string dp_expect_astring dp_expect_nstring dp_expect_nstring_reader
  dp_expect_mailbox dp_expect_numset : dp.

(* ---------------------------------------------------------------------------------------- *)
(* lists                                                                                     *)

Section Lists.
Variable B : nat.

Lemma dp_list_items : forall A (item : P A), dp B item ->
  forall k acc, dp B (list_items k item acc).
Proof.
  intros A item Hi. induction k as [|k IH]; intros acc; cbn [list_items]; dp_auto.
Qed.

(* the item parser only runs below the depth cap *)
Lemma dp_plist_cond : forall A ld (item : nat -> P A),
  ((S ld < MAX_LIST_DEPTH)%nat -> dp B (item (S ld))) -> dp B (plist ld item).
Proof.
  intros A ld item Hi. unfold plist. dp_auto.
  apply dp_list_items. apply Hi. apply Nat.leb_gt. assumption.
Qed.

Lemma dp_plist : forall A ld (item : nat -> P A),
  (forall ld', dp B (item ld')) -> dp B (plist ld item).
Proof. intros. apply dp_plist_cond. intros _. apply H. Qed.

Lemma dp_expect_list : forall A ld (item : nat -> P A),
  (forall ld', dp B (item ld')) -> dp B (expect_list ld item).
Proof. intros. unfold expect_list. dp_auto. apply dp_plist; assumption. Qed.

Lemma dp_expect_nlist : forall A ld (item : nat -> P A),
  (forall ld', dp B (item ld')) -> dp B (expect_nlist ld item).
Proof. intros. unfold expect_nlist. dp_auto. apply dp_expect_list; assumption. Qed.

End Lists.

Ltac dp_step2 :=
  match goal with
  | |- dp _ (plist _ _) => apply dp_plist; intros ?
  | |- dp _ (expect_list _ _) => apply dp_expect_list; intros ?
  | |- dp _ (expect_nlist _ _) => apply dp_expect_nlist; intros ?
  | |- _ => dp_step
  end.
Ltac dp_auto2 := cbv beta zeta; repeat (dp_step2; cbv beta zeta).

(* ---------------------------------------------------------------------------------------- *)
(* parsers that never note a depth                                                           *)

Section Flat.
Variable B : nat.

Lemma dp_expect_datetime : dp B expect_datetime.
Proof. unfold expect_datetime. dp_auto2. Qed.
Lemma dp_expect_flag : dp B expect_flag.
Proof. unfold expect_flag. dp_auto2. Qed.
Hint Resolve dp_expect_flag : dp.
Lemma dp_expect_flag_list : forall ld, dp B (expect_flag_list ld).
Proof. intros; unfold expect_flag_list. dp_auto2. Qed.
Lemma dp_expect_mailbox_attr : dp B expect_mailbox_attr.
Proof. unfold expect_mailbox_attr. dp_auto2. Qed.
Lemma dp_read_caps : forall k acc, dp B (read_caps k acc).
Proof. induction k as [|k IH]; intros acc; cbn [read_caps]; dp_auto2. Qed.
Hint Resolve dp_read_caps : dp.
Lemma dp_read_capabilities : dp B read_capabilities.
Proof. unfold read_capabilities. dp_auto2. Qed.
Lemma dp_read_address : dp B read_address.
Proof. unfold read_address. dp_auto2. Qed.
Hint Resolve dp_read_address : dp.
Lemma dp_read_address_list : forall ld, dp B (read_address_list ld).
Proof. intros; unfold read_address_list. dp_auto2. Qed.
Hint Resolve dp_read_address_list : dp.
Lemma dp_read_envelope : forall ld, dp B (read_envelope ld).
Proof. intros; unfold read_envelope. dp_auto2. Qed.
Lemma dp_read_body_fld_param : forall ld, dp B (read_body_fld_param ld).
Proof. intros; unfold read_body_fld_param. dp_auto2. Qed.
Hint Resolve dp_read_body_fld_param : dp.
Lemma dp_read_body_fld_dsp : forall ld, dp B (read_body_fld_dsp ld).
Proof. intros; unfold read_body_fld_dsp. dp_auto2. Qed.
Hint Resolve dp_read_body_fld_dsp : dp.
Lemma dp_read_body_fld_lang : forall ld, dp B (read_body_fld_lang ld).
Proof. intros; unfold read_body_fld_lang. dp_auto2. Qed.
Hint Resolve dp_read_body_fld_lang : dp.
Lemma dp_read_body_ext_tail : forall ld, dp B (read_body_ext_tail ld).
Proof. intros; unfold read_body_ext_tail. dp_auto2. Qed.
Hint Resolve dp_read_body_ext_tail : dp.
Lemma dp_read_body_ext_1part : forall ld, dp B (read_body_ext_1part ld).
Proof. intros; unfold read_body_ext_1part. dp_auto2. Qed.
Lemma dp_read_body_ext_mpart : forall ld, dp B (read_body_ext_mpart ld).
Proof. intros; unfold read_body_ext_mpart. dp_auto2. Qed.
Lemma dp_read_section_part : forall k acc, dp B (read_section_part k acc).
Proof. induction k as [|k IH]; intros acc; cbn [read_section_part]; dp_auto2. Qed.
Hint Resolve dp_read_section_part : dp.
Lemma dp_section_part : dp B section_part.
Proof. unfold section_part. dp_auto2. Qed.
Hint Resolve dp_section_part : dp.
Lemma dp_read_partial_offset : dp B read_partial_offset.
Proof. unfold read_partial_offset. dp_auto2. Qed.
Hint Resolve dp_read_partial_offset : dp.
Lemma dp_read_section_spec : forall ld, dp B (read_section_spec ld).
Proof. intros; unfold read_section_spec. dp_auto2. Qed.

Lemma dp_search_nums : forall k, dp B (search_nums k).
Proof. induction k as [|k IH]; cbn [search_nums]; dp_auto2. Qed.
Lemma dp_handle_search : dp B handle_search.
Proof. unfold handle_search. apply dp_with_fuel. apply dp_search_nums. Qed.
Lemma dp_sort_nums : forall k, dp B (sort_nums k).
Proof. induction k as [|k IH]; cbn [sort_nums]; dp_auto2. Qed.
Lemma dp_handle_sort : dp B handle_sort.
Proof. unfold handle_sort. apply dp_with_fuel. apply dp_sort_nums. Qed.

Lemma dp_read_delim : dp B read_delim.
Proof. unfold read_delim. dp_auto2. Qed.
Lemma dp_handle_quota : dp B handle_quota.
Proof. unfold handle_quota. dp_auto2. Qed.
Lemma dp_quota_roots : forall k acc, dp B (quota_roots k acc).
Proof. induction k as [|k IH]; intros acc; cbn [quota_roots]; dp_auto2. Qed.
Hint Resolve dp_quota_roots : dp.
Lemma dp_handle_quotaroot : dp B handle_quotaroot.
Proof. unfold handle_quotaroot. dp_auto2. Qed.
Lemma dp_metadata_entries : forall k acc, dp B (metadata_entries k acc).
Proof. induction k as [|k IH]; intros acc; cbn [metadata_entries]; dp_auto2. Qed.
Hint Resolve dp_metadata_entries : dp.
Lemma dp_handle_metadata : dp B handle_metadata.
Proof. unfold handle_metadata. dp_auto2. Qed.
Lemma dp_read_copyuid : dp B read_copyuid.
Proof. unfold read_copyuid. dp_auto2. Qed.
Hint Resolve dp_read_copyuid dp_read_capabilities dp_expect_flag_list : dp.
Lemma dp_read_other_code : dp B read_other_code.
Proof. unfold read_other_code. dp_auto2. Qed.
Hint Resolve dp_read_other_code : dp.
Lemma dp_read_tagged_code : forall n, dp B (read_tagged_code n).
Proof. intros; unfold read_tagged_code. dp_auto2. Qed.
Lemma dp_read_untagged_code : forall n, dp B (read_untagged_code n).
Proof. intros; unfold read_untagged_code. dp_auto2. Qed.
Lemma dp_read_resp_text : forall cr, (forall n, dp B (cr n)) -> dp B (read_resp_text cr).
Proof. intros; unfold read_resp_text. dp_auto2. Qed.
Lemma dp_read_response_tagged : forall tags tag typ, dp B (read_response_tagged tags tag typ).
Proof.
  intros; unfold read_response_tagged. dp_auto2.
  apply dp_read_resp_text. apply dp_read_tagged_code.
Qed.
Lemma dp_read_continue_req : dp B read_continue_req.
Proof. unfold read_continue_req. dp_auto2. Qed.

End Flat.

#[export] Hint Resolve dp_expect_datetime dp_expect_flag dp_expect_flag_list dp_expect_mailbox_attr
  dp_read_caps dp_read_capabilities dp_read_address dp_read_address_list dp_read_envelope
  dp_read_body_fld_param dp_read_body_fld_dsp dp_read_body_fld_lang dp_read_body_ext_tail
  dp_read_body_ext_1part dp_read_body_ext_mpart dp_read_section_part dp_section_part
  dp_read_partial_offset dp_read_section_spec dp_search_nums dp_handle_search dp_sort_nums
  dp_handle_sort dp_read_delim dp_handle_quota dp_quota_roots dp_handle_quotaroot
  dp_metadata_entries dp_handle_metadata dp_read_copyuid dp_read_other_code dp_read_tagged_code
  dp_read_untagged_code dp_read_response_tagged dp_read_continue_req : dp.

(* ---------------------------------------------------------------------------------------- *)
(* the recursive readers, for B = MAX_BODY_DEPTH + MAX_LIST_DEPTH                            *)

Definition BND : nat := (MAX_BODY_DEPTH + MAX_LIST_DEPTH)%nat.

Lemma MLD_pos : (1 <= MAX_LIST_DEPTH)%nat.
Proof. apply Nat.leb_le. vm_compute. reflexivity. Qed.

(* arithmetic with the two caps kept abstract *)
Ltac dlia :=
  unfold BND in *; pose proof MLD_pos;
  repeat match goal with
         | H : Nat.leb _ _ = false |- _ => apply Nat.leb_gt in H
         | H : Nat.leb _ _ = true |- _ => apply Nat.leb_le in H
         end;
  lia.

(* DiscardValue: along nested lists rd grows exactly as ld does, and ld stays below the cap *)
Lemma dp_discard_value : forall fuel ld rd,
  (rd + (MAX_LIST_DEPTH - 1 - ld) <= BND)%nat -> dp BND (discard_value fuel ld rd).
Proof.
  induction fuel as [|f IH]; intros ld rd Hc; cbn [discard_value].
  - apply dp_out_of_fuel.
  - apply dp_bind; [apply dp_tick | intros _].
    apply dp_bind; [apply dp_note_depth; dlia | intros _].
    apply dp_bind; [apply dp_string_ | intros v]. destruct v.
    + apply dp_ret.
    + apply dp_bind.
      * apply dp_plist_cond. intros Hlt. apply IH. dlia.
      * intros l. dp_auto2.
Qed.

Lemma dp_discard_value_top : forall ld rd,
  (rd + (MAX_LIST_DEPTH - 1 - ld) <= BND)%nat -> dp BND (discard_value_top ld rd).
Proof. intros. unfold discard_value_top. apply dp_with_fuel. intros k. apply dp_discard_value. assumption. Qed.

Lemma dp_discard_values : forall k ld rd,
  (rd + (MAX_LIST_DEPTH - 1 - ld) <= BND)%nat -> dp BND (discard_values k ld rd).
Proof.
  induction k as [|k IH]; intros ld rd Hc; cbn [discard_values].
  - apply dp_out_of_fuel.
  - apply dp_bind; [apply dp_sp | intros b]. destruct b; [|apply dp_ret].
    apply dp_bind; [apply dp_tick | intros _].
    apply dp_bind; [apply dp_discard_value_top; assumption | intros _].
    apply IH; assumption.
Qed.

(* readThreadList: same shape *)
Lemma dp_read_thread_list : forall fuel ld rd,
  (rd + (MAX_LIST_DEPTH - 1 - ld) <= BND)%nat -> dp BND (read_thread_list fuel ld rd).
Proof.
  induction fuel as [|f IH]; intros ld rd Hc; cbn [read_thread_list].
  - apply dp_out_of_fuel.
  - apply dp_bind; [apply dp_tick | intros _].
    apply dp_bind; [apply dp_note_depth; dlia | intros _].
    apply dp_bind; [apply dp_special | intros o]. destruct o; [|apply dp_expect_fail].
    apply dp_bind; [apply dp_special | intros c]. destruct c; [apply dp_ret|].
    destruct (Nat.leb MAX_LIST_DEPTH (S ld)) eqn:Hd; [apply dp_expect_fail|].
    assert (Hrec : dp BND (read_thread_list f (S ld) (S rd))) by (apply IH; dlia).
    apply dp_with_fuel. intros k.
    generalize (@nil N) (@nil thread).
    induction k as [|k IHk]; intros chain subs; cbn beta iota.
    + apply dp_out_of_fuel.
    + dp_auto2.
Qed.

(* readNestedBody: rd is bd + 1 and bd never passes its cap; the trailing DiscardValue
   loop starts one level deeper *)
Lemma dp_read_body : forall fuel ld bd rd,
  (bd <= MAX_BODY_DEPTH)%nat -> (rd <= S bd)%nat -> dp BND (read_body fuel ld bd rd).
Proof.
  induction fuel as [|f IH]; intros ld bd rd Hb Hr; cbn [read_body].
  - apply dp_out_of_fuel.
  - apply dp_bind; [apply dp_tick | intros _].
    apply dp_bind; [apply dp_note_depth; dlia | intros _].
    destruct (Nat.leb MAX_BODY_DEPTH bd) eqn:Hd; [apply dp_fail|].
    assert (Hrec : dp BND (read_body f ld (S bd) (S rd))) by (apply IH; dlia).
    assert (Hdv : forall k, dp BND (discard_values k ld (S rd))) by (intros k; apply dp_discard_values; dlia).
    clear IH.
    apply dp_bind; [apply dp_expect_special | intros _].
    apply dp_bind; [apply dp_string_ | intros mt].
    apply dp_bind; [ | intros b; dp_auto2 ].
    destruct mt as [typ|].
    + dp_auto2.
    + apply dp_bind; [ | intros cs; dp_auto2 ].
      apply dp_with_fuel. intros k. generalize (@nil bstruct).
      induction k as [|k IHk]; intros acc; cbn beta iota.
      * apply dp_out_of_fuel.
      * dp_auto2.
Qed.

Lemma dp_read_body_top : forall ld, dp BND (read_body_top ld).
Proof.
  intros. unfold read_body_top. apply dp_with_fuel. intros k. apply dp_read_body.
  - apply Nat.le_0_l.
  - apply le_n.
Qed.

#[export] Hint Resolve dp_read_body_top : dp.

(* ---------------------------------------------------------------------------------------- *)
(* the callers of the recursive readers                                                      *)

Lemma dvt_0_1 : dp BND (discard_value_top 0 1).
Proof. apply dp_discard_value_top. dlia. Qed.
Lemma dvt_1_1 : dp BND (discard_value_top 1 1).
Proof. apply dp_discard_value_top. dlia. Qed.
Lemma dvs_1_1 : forall k, dp BND (discard_values k 1 1).
Proof. intros. apply dp_discard_values. dlia. Qed.
Lemma rtl_0_1 : forall j, dp BND (read_thread_list j 0 1).
Proof. intros. apply dp_read_thread_list. dlia. Qed.
#[export] Hint Resolve dvt_0_1 dvt_1_1 dvs_1_1 rtl_0_1 : dp.

Lemma dp_read_msg_att : dp BND read_msg_att.
Proof. unfold read_msg_att. dp_auto2. Qed.
#[export] Hint Resolve dp_read_msg_att : dp.

Lemma dp_handle_fetch : forall seq, dp BND (handle_fetch seq).
Proof. intros. unfold handle_fetch. dp_auto2. Qed.

Lemma dp_esearch_items : forall k name d, dp BND (esearch_items k name d).
Proof. induction k as [|k IH]; intros name d; cbn [esearch_items]; dp_auto2. Qed.
#[export] Hint Resolve dp_esearch_items : dp.

Lemma dp_read_esearch : dp BND read_esearch.
Proof. unfold read_esearch. dp_auto2. Qed.
#[export] Hint Resolve dp_read_esearch : dp.

Lemma dp_handle_esearch : dp BND handle_esearch.
Proof. unfold handle_esearch. dp_auto2. Qed.

Lemma dp_thread_lists : forall k, dp BND (thread_lists k).
Proof. induction k as [|k IH]; cbn [thread_lists]; dp_auto2. Qed.
Lemma dp_handle_thread : dp BND handle_thread.
Proof. unfold handle_thread. apply dp_with_fuel. apply dp_thread_lists. Qed.

Lemma dp_read_list_ext_item : dp BND read_list_ext_item.
Proof. unfold read_list_ext_item. dp_auto2. Qed.
#[export] Hint Resolve dp_read_list_ext_item : dp.
Lemma dp_handle_list : dp BND handle_list.
Proof. unfold handle_list. dp_auto2. Qed.

Lemma dp_read_status_att : dp BND read_status_att.
Proof. unfold read_status_att. dp_auto2. Qed.
#[export] Hint Resolve dp_read_status_att : dp.
Lemma dp_handle_status : dp BND handle_status.
Proof. unfold handle_status. dp_auto2. Qed.

Lemma dp_read_namespace_descr : dp BND read_namespace_descr.
Proof. unfold read_namespace_descr. dp_auto2. Qed.
#[export] Hint Resolve dp_read_namespace_descr : dp.
Lemma dp_read_namespace : dp BND read_namespace.
Proof. unfold read_namespace. dp_auto2. Qed.
#[export] Hint Resolve dp_read_namespace : dp.
Lemma dp_handle_namespace : dp BND handle_namespace.
Proof. unfold handle_namespace. dp_auto2. Qed.

#[export] Hint Resolve dp_handle_fetch dp_handle_esearch dp_handle_thread dp_handle_list
  dp_handle_status dp_handle_namespace : dp.

Lemma dp_read_response_data : forall typ0, dp BND (read_response_data typ0).
Proof.
  intros. unfold read_response_data. dp_auto2.
  apply dp_read_resp_text. apply dp_read_untagged_code.
Qed.
#[export] Hint Resolve dp_read_response_data : dp.

Lemma dp_read_response : forall tags, dp BND (read_response tags).
Proof. intros. unfold read_response. dp_auto2. Qed.

Lemma dp_read_loop : forall k tags, dp BND (read_loop k tags).
Proof.
  induction k as [|k IH]; intros tags; cbn [read_loop].
  - apply dp_out_of_fuel.
  - intros s Hs. destruct (s_in s) eqn:E.
    + exact Hs.
    + revert s Hs E. 
      assert (H : dp BND (tick;;; tags' <- read_response tags;; read_loop k tags')).
      { apply dp_bind; [apply dp_tick | intros _].
        apply dp_bind; [apply dp_read_response | intros tags']. apply IH. }
      intros s Hs _. apply H. exact Hs.
Qed.

Theorem depth_bounded : forall tags input s, final_state (read_stream tags input) = Some s ->
  (s_maxd s <= MAX_BODY_DEPTH + MAX_LIST_DEPTH)%nat.
Proof.
  intros tags input s H. unfold read_stream in H.
  pose proof (dp_read_loop (S (length input)) tags (init_st input)) as Hd.
  assert (H0 : (s_maxd (init_st input) <= BND)%nat) by apply Nat.le_0_l.
  specialize (Hd H0).
  destruct (read_loop (S (length input)) tags (init_st input)); cbn [final_state okd] in *;
    try discriminate; injection H as <-; exact Hd.
Qed.

Print Assumptions depth_bounded.
