(* Proofs/WireSpec.v — specification vocabulary for C01 (no proofs here). *)
From GoImap.Base Require Import Bytes.
From GoImap.Model Require Import NumSet MatchList Utf7 Wire.
From GoImap.Proofs Require Import Utf7Spec.
Open Scope N_scope.

(* what follows an encoded value on the wire: never the end of the stream (a line always ends
   with CRLF), and the next byte does not continue an atom / a number / a number set *)
Definition delimited (rest : bytes) : Prop :=
  match rest with [] => False | c :: _ => is_atom_char c = false /\ is_numset_char c = false end.

(* the peer of a client-side encoder is a server-side decoder and vice versa *)
Definition peer_server (cfg : enc_cfg) : bool := client_side cfg.

(* payload sizes are int64 in the implementation *)
Definition fits_int64 (s : bytes) : Prop := N.of_nat (length s) < 9223372036854775808.

(* well-known flags are compared ASCII-case-insensitively; for 7-bit names the lookup key is
   the ASCII lower-casing *)
Definition seven_bit (s : bytes) : Prop := Forall (fun c => b2n c < 128) s.

Fixpoint wdepth (v : wval) : nat :=
  match v with
  | WList l => match l with [] => O | _ => S (fold_right (fun x m => Nat.max (wdepth x) m) O l) end
  | _ => O
  end.

(* values the generic writer can be asked to write: atoms are non-empty atom-char strings
   that are not NIL-like ambiguous with strings; numbers are uint32 *)
Fixpoint wf_wval (v : wval) : Prop :=
  match v with
  | WAtom a => a <> [] /\ forallb is_atom_char a = true
  | WStr s => fits_int64 s
  | WNum n => n < 4294967296
  | WList l => (fix all (l : list wval) : Prop := match l with [] => True | x :: r => wf_wval x /\ all r end) l
  end.
