(* Proofs/SearchModSeqProofs.v — C19 for SearchCriteria.And with the ModSeq field. *)
From Coq Require Import Btauto.
From GoImap.Base Require Import Bytes.
From GoImap.Model Require Import NumSet Search SearchModSeq.
From GoImap.Proofs Require Import NumSetText SearchSpec SearchProofs.
Open Scope Z_scope.

Lemma xmatches_unfold : forall mq m seqs uids since before sentsince sentbefore hdr body text
                               flag notflag larger smaller q nots ors,
  xmatches mq m (XCrit seqs uids since before sentsince sentbefore hdr body text flag notflag
                       larger smaller q nots ors) =
  forallb (fun s => negb (N.eqb (m_seq m) 0) && set_has s (m_seq m)) seqs &&
  forallb (fun s => set_has s (m_uid m)) uids &&
  match_date (m_date m) since before &&
  forallb (m_flag m) flag &&
  forallb (fun f => negb (m_flag m f)) notflag &&
  larger_ok (m_size m) larger &&
  smaller_ok (m_size m) smaller &&
  forallb (m_text m) text &&
  forallb (fun kv => m_hdr m (fst kv) (snd kv)) hdr &&
  sent_block (m_sent m) sentsince sentbefore &&
  forallb (m_body m) body &&
  modseq_ok mq q &&
  forallb (fun n => negb (xmatches mq m n)) nots &&
  forallb (fun p => xmatches mq m (fst p) || xmatches mq m (snd p)) ors.
Proof. reflexivity. Qed.

Lemma xmatches_not_modseq : forall mq m q,
  xmatches mq m (xnot_modseq q) = negb (modseq_ok mq (Some q)).
Proof.
  intros. unfold xnot_modseq. rewrite xmatches_unfold. cbn [forallb].
  rewrite xmatches_unfold. cbn [forallb].
  rewrite !match_date_00, !sent_block_00, !larger_ok_0, !smaller_ok_0.
  change (modseq_ok mq None) with true.
  destruct (modseq_ok mq (Some q)); reflexivity.
Qed.

Lemma same_entry_eq : forall v1 n1 t1 v2 n2 t2,
  same_entry (v1, n1, t1) (v2, n2, t2) = true -> n1 = n2 /\ t1 = t2.
Proof.
  unfold same_entry. cbn. intros. apply andb_true_iff in H. destruct H as [H1 H2].
  split; apply bytes_eqb_eq; assumption.
Qed.

(* And = intersection, for every pair of criteria (any nesting, ModSeq set or not on either
   side, same or different metadata entries), every message and every assignment of
   mod-sequences to metadata entries *)
Lemma xand_intersection : forall mq a b m, 0 <= m_size m ->
  xmatches mq m (xand a b) = xmatches mq m a && xmatches mq m b.
Proof.
  intros mq a b m Hsz.
  destruct a as [s1 u1 si1 be1 ss1 sb1 h1 b1 t1 f1 nf1 la1 sm1 q1 n1 o1].
  destruct b as [s2 u2 si2 be2 ss2 sb2 h2 b2 t2 f2 nf2 la2 sm2 q2 n2 o2].
  unfold xand.
  assert (Hq : forall q extra,
    modseq_ok mq q && forallb (fun n => negb (xmatches mq m n)) extra =
      modseq_ok mq q1 && modseq_ok mq q2 ->
    xmatches mq m
      (XCrit (s1 ++ s2) (u1 ++ u2) (intersect_since si1 si2) (intersect_before be1 be2)
             (intersect_since ss1 ss2) (intersect_before sb1 sb2)
             (h1 ++ h2) (b1 ++ b2) (t1 ++ t2) (f1 ++ f2) (nf1 ++ nf2)
             (if (la1 =? 0) || (la1 <? la2) then la2 else la1)
             (if negb (sm2 =? 0) && ((sm1 =? 0) || (sm2 <? sm1)) then sm2 else sm1)
             q ((n1 ++ n2) ++ extra) (o1 ++ o2)) =
    xmatches mq m (XCrit s1 u1 si1 be1 ss1 sb1 h1 b1 t1 f1 nf1 la1 sm1 q1 n1 o1) &&
    xmatches mq m (XCrit s2 u2 si2 be2 ss2 sb2 h2 b2 t2 f2 nf2 la2 sm2 q2 n2 o2)).
  { intros q extra E.
    rewrite !xmatches_unfold, !forallb_app, match_date_and, sent_block_and,
      larger_ok_and, smaller_ok_and by assumption.
    set (X := forallb (fun n => negb (xmatches mq m n)) extra) in *.
    set (Q := modseq_ok mq q) in *. set (Q1 := modseq_ok mq q1) in *. set (Q2 := modseq_ok mq q2) in *.
    assert (E' : Q && X = Q1 && Q2) by exact E. clearbody X Q Q1 Q2.
    transitivity (
      forallb (fun s => negb (N.eqb (m_seq m) 0) && set_has s (m_seq m)) s1 &&
      forallb (fun s => negb (N.eqb (m_seq m) 0) && set_has s (m_seq m)) s2 &&
      (forallb (fun s => set_has s (m_uid m)) u1 && forallb (fun s => set_has s (m_uid m)) u2) &&
      (match_date (m_date m) si1 be1 && match_date (m_date m) si2 be2) &&
      (forallb (m_flag m) f1 && forallb (m_flag m) f2) &&
      (forallb (fun f => negb (m_flag m f)) nf1 && forallb (fun f => negb (m_flag m f)) nf2) &&
      (larger_ok (m_size m) la1 && larger_ok (m_size m) la2) &&
      (smaller_ok (m_size m) sm1 && smaller_ok (m_size m) sm2) &&
      (forallb (m_text m) t1 && forallb (m_text m) t2) &&
      (forallb (fun kv => m_hdr m (fst kv) (snd kv)) h1 && forallb (fun kv => m_hdr m (fst kv) (snd kv)) h2) &&
      (sent_block (m_sent m) ss1 sb1 && sent_block (m_sent m) ss2 sb2) &&
      (forallb (m_body m) b1 && forallb (m_body m) b2) &&
      (Q && X) &&
      (forallb (fun n => negb (xmatches mq m n)) n1 && forallb (fun n => negb (xmatches mq m n)) n2) &&
      (forallb (fun p => xmatches mq m (fst p) || xmatches mq m (snd p)) o1 &&
       forallb (fun p => xmatches mq m (fst p) || xmatches mq m (snd p)) o2)).
    - btauto.
    - rewrite E'. btauto. }
  destruct q2 as [m2|].
  - destruct q1 as [m1|].
    + destruct (same_entry m1 m2) eqn:Es.
      * destruct m1 as [[v1 a1] y1], m2 as [[v2 a2] y2].
        apply same_entry_eq in Es. destruct Es as [-> ->].
        cbn [fst snd].
        destruct (N.ltb_spec v1 v2); apply Hq; cbn [forallb modseq_ok]; rewrite andb_true_r.
        -- destruct (N.leb_spec v2 (mq a2 y2)), (N.leb_spec v1 (mq a2 y2)); try reflexivity; lia.
        -- destruct (N.leb_spec v2 (mq a2 y2)), (N.leb_spec v1 (mq a2 y2)); try reflexivity; lia.
      * apply Hq. cbn [forallb]. rewrite xmatches_not_modseq, negb_involutive, andb_true_r.
        reflexivity.
    + apply Hq. cbn [forallb modseq_ok]. rewrite andb_true_r. reflexivity.
  - apply Hq. cbn [forallb]. cbn [modseq_ok]. rewrite !andb_true_r. reflexivity.
Qed.

(* a ModSeq constraint of either operand is never lost: a message whose mod-sequence is below
   it does not match the result *)
Lemma xand_keeps_modseq : forall mq a b m v n t, 0 <= m_size m ->
  (match a with XCrit _ _ _ _ _ _ _ _ _ _ _ _ _ q _ _ => q end = Some (v, n, t) \/
   match b with XCrit _ _ _ _ _ _ _ _ _ _ _ _ _ q _ _ => q end = Some (v, n, t)) ->
  (mq n t < v)%N -> xmatches mq m (xand a b) = false.
Proof.
  intros mq a b m v n t Hsz H Hlt. rewrite xand_intersection by assumption.
  assert (Hf : modseq_ok mq (Some (v, n, t)) = false).
  { cbn. destruct (N.leb_spec v (mq n t)); [lia | reflexivity]. }
  destruct a, b. rewrite !xmatches_unfold. cbn in H. destruct H as [-> | ->]; rewrite Hf; btauto.
Qed.

(* on the ModSeq-free fragment (what the server parser builds) And is Search.and_ *)
Lemma xand_embed : forall a b, xand (embed a) (embed b) = embed (and_ a b).
Proof.
  intros a b. destruct a, b. cbn [embed and_ xand]. rewrite !map_app, app_nil_r. reflexivity.
Qed.
