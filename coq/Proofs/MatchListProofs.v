(* Proofs/MatchListProofs.v — proofs for C20 about Model/MatchList.v. *)
From GoImap.Base Require Import Bytes.
From GoImap.Model Require Import MatchList.
From GoImap.Proofs Require Import MatchListSpec.

Local Open Scope nat_scope.

(* ---- byte / byte-string equality ---- *)
Lemma beqb_true_iff : forall a b, beqb a b = true <-> a = b.
Proof. intros a b. unfold beqb. apply Ascii.eqb_eq. Qed.

Lemma beqb_refl : forall a, beqb a a = true.
Proof. intro a. apply beqb_true_iff. reflexivity. Qed.

Lemma bytes_eqb_eq : forall a b, bytes_eqb a b = true <-> a = b.
Proof.
  induction a as [|x a IH]; destruct b as [|y b]; simpl; split; intro H;
    try reflexivity; try discriminate.
  - apply andb_true_iff in H. destruct H as [H1 H2].
    apply beqb_true_iff in H1. apply IH in H2. subst. reflexivity.
  - injection H as Hx Ha. subst y b. apply andb_true_iff. split.
    + apply beqb_refl.
    + apply IH. reflexivity.
Qed.

(* ---- has_prefix / trim_prefix ---- *)
Lemma has_prefix_app : forall p r, has_prefix p (p ++ r) = true.
Proof.
  induction p as [|x p IH]; intro r; simpl.
  - reflexivity.
  - rewrite beqb_refl, IH. reflexivity.
Qed.

Lemma has_prefix_skipn : forall p s, has_prefix p s = true -> s = p ++ skipn (length p) s.
Proof.
  induction p as [|x p IH]; intros s H.
  - reflexivity.
  - destruct s as [|y s]; simpl in H; [discriminate|].
    apply andb_true_iff in H. destruct H as [H1 H2].
    apply beqb_true_iff in H1. subst y. simpl. f_equal. apply IH. exact H2.
Qed.

(* ---- wildcards ---- *)
Definition nowild (l : bytes) : Prop := Forall (fun c => is_wild c = false) l.

Lemma is_wild_STAR : is_wild STAR = true.
Proof. reflexivity. Qed.
Lemma is_wild_PCT : is_wild PCT = true.
Proof. reflexivity. Qed.
Lemma beqb_STAR_PCT : beqb STAR PCT = false.
Proof. reflexivity. Qed.

Lemma is_wild_cases : forall w, is_wild w = true -> w = STAR \/ w = PCT.
Proof.
  intros w H. unfold is_wild in H. apply orb_true_iff in H.
  destruct H as [H|H]; apply beqb_true_iff in H; auto.
Qed.

Lemma split_wild_none : forall pat, split_wild pat = None -> nowild pat.
Proof.
  induction pat as [|c r IH]; simpl; intro H.
  - constructor.
  - destruct (is_wild c) eqn:W; [discriminate|].
    destruct (split_wild r) as [[[ck w] rest]|]; [discriminate|].
    constructor; [exact W | apply IH; reflexivity].
Qed.

Lemma split_wild_some : forall pat chunk w rest,
  split_wild pat = Some (chunk, w, rest) ->
  pat = chunk ++ w :: rest /\ nowild chunk /\ is_wild w = true.
Proof.
  induction pat as [|c r IH]; simpl; intros chunk w rest H.
  - discriminate.
  - destruct (is_wild c) eqn:W.
    + injection H as H1 H2 H3. subst chunk w rest. repeat split; auto. constructor.
    + destruct (split_wild r) as [[[ck0 w0] rest0]|]; [|discriminate].
      injection H as H1 H2 H3. subst chunk w rest.
      destruct (IH _ _ _ eq_refl) as (E & N & Ww). subst r.
      repeat split; auto. constructor; [exact W | exact N].
Qed.

(* ---- inversion of the textbook relation ---- *)
Lemma wmatch_inv_nil : forall d n, wmatch d [] n -> n = [].
Proof. intros d n H. inversion H. reflexivity. Qed.

Lemma wmatch_inv_cons : forall d c p n, wmatch d (c :: p) n ->
  (is_wild c = false /\ exists n', n = c :: n' /\ wmatch d p n') \/
  (c = STAR /\ exists n1 n2, n = n1 ++ n2 /\ wmatch d p n2) \/
  (c = PCT /\ exists n1 n2, n = n1 ++ n2 /\ no_delim d n1 n2 /\ wmatch d p n2).
Proof.
  intros d c p n H.
  remember (c :: p) as pp eqn:Epp.
  destruct H as [|c0 p0 n0 W H|p0 n1 n2 H|p0 n1 n2 ND H].
  - discriminate.
  - injection Epp as E1 E2. subst c0 p0. left. split; auto. exists n0. auto.
  - injection Epp as E1 E2. subst c p0. right. left. split; auto. exists n1, n2. auto.
  - injection Epp as E1 E2. subst c p0. right. right. split; auto. exists n1, n2. auto.
Qed.

Lemma wmatch_wild : forall d w rest r, is_wild w = true ->
  (wmatch d (w :: rest) r <->
   exists n1 n2, r = n1 ++ n2 /\ wmatch d rest n2 /\ (beqb w PCT = true -> no_delim d n1 n2)).
Proof.
  intros d w rest r W. split.
  - intro H. apply wmatch_inv_cons in H.
    destruct H as [[Hc _]|[[Hw (n1 & n2 & Hr & H)]|[Hw (n1 & n2 & Hr & ND & H)]]].
    + rewrite W in Hc. discriminate.
    + subst w r. exists n1, n2. repeat split; auto.
      intro X. rewrite beqb_STAR_PCT in X. discriminate.
    + subst w r. exists n1, n2. auto.
  - intros (n1 & n2 & Hr & H & ND). subst r.
    apply is_wild_cases in W. destruct W as [Hw|Hw]; subst w.
    + apply wm_star. exact H.
    + apply wm_pct; [apply ND; apply beqb_refl | exact H].
Qed.

Lemma wmatch_chunk : forall d chunk p, nowild chunk ->
  forall n, wmatch d (chunk ++ p) n <-> exists r, n = chunk ++ r /\ wmatch d p r.
Proof.
  intros d chunk p N. induction N as [|a chunk Ha N IH]; intro n.
  - simpl. split.
    + intro H. exists n. auto.
    + intros (r & Hn & H). subst n. exact H.
  - rewrite <- app_comm_cons. split.
    + intro H. apply wmatch_inv_cons in H.
      destruct H as [[_ (n' & Hn & H)]|[[Hw _]|[Hw _]]].
      * subst n. apply IH in H. destruct H as (r & Hn & H). subst n'.
        exists r. auto.
      * subst a. rewrite is_wild_STAR in Ha. discriminate.
      * subst a. rewrite is_wild_PCT in Ha. discriminate.
    + intros (r & Hn & H). subst n. rewrite <- app_comm_cons.
      apply wm_lit; auto. apply IH. exists r. auto.
Qed.

Lemma wmatch_nowild : forall d pat n, nowild pat -> (wmatch d pat n <-> n = pat).
Proof.
  intros d pat n N.
  pose proof (wmatch_chunk d pat [] N n) as H. rewrite app_nil_r in H.
  rewrite H. split.
  - intros (r & Hn & Hr). apply wmatch_inv_nil in Hr. subst r n. apply app_nil_r.
  - intro Hn. exists []. split.
    + rewrite app_nil_r. exact Hn.
    + constructor.
Qed.

(* ---- no_delim, one position at a time ---- *)
Lemma no_delim_nil : forall d n2, no_delim d [] n2.
Proof. intros d n2 k Hk. simpl in Hk. lia. Qed.

Lemma no_delim_cons : forall d x n1 n2,
  no_delim d (x :: n1) n2 <-> (~ delim_at d (x :: n1 ++ n2) 0 /\ no_delim d n1 n2).
Proof.
  intros d x n1 n2. unfold no_delim. split.
  - intro H. split.
    + apply (H 0). simpl. lia.
    + intros k Hk D. apply (H (S k)).
      * simpl. lia.
      * exact D.
  - intros [H0 H] k Hk. destruct k as [|k].
    + exact H0.
    + intro D. apply (H k).
      * simpl in Hk. lia.
      * exact D.
Qed.

(* ---- the expansion loop ---- *)
Lemma expand_spec : forall (rec : bytes -> option bool) (P : bytes -> Prop) pct d,
  (forall n, exists b, rec n = Some b /\ (b = true <-> P n)) ->
  forall name, exists b, expand rec pct d name = Some b /\
    (b = true <->
     exists n1 n2, name = n1 ++ n2 /\ P n2 /\ (pct = true -> no_delim d n1 n2)).
Proof.
  intros rec P pct d R. induction name as [|c l IH].
  - simpl. destruct (R []) as (b & E & Hb). exists b. split; auto.
    rewrite Hb. split.
    + intro H. exists [], []. repeat split; auto. intros _. apply no_delim_nil.
    + intros (n1 & n2 & E' & H & _). symmetry in E'. apply app_eq_nil in E'.
      destruct E' as [_ E']. subst n2. exact H.
  - cbn [expand]. destruct (R (c :: l)) as (b0 & E0 & Hb0).
    destruct (pct && negb (is_nil d) && has_prefix d (c :: l)) eqn:T.
    + exists b0. split; auto. rewrite Hb0. split.
      * intro H. exists [], (c :: l). repeat split; auto. intros _. apply no_delim_nil.
      * intros (n1 & n2 & E' & H & ND). destruct n1 as [|x n1].
        -- simpl in E'. subst n2. exact H.
        -- exfalso. apply andb_true_iff in T. destruct T as [T T3].
           apply andb_true_iff in T. destruct T as [T1 T2].
           specialize (ND T1). apply no_delim_cons in ND. destruct ND as [ND _].
           apply ND. rewrite <- app_comm_cons in E'. rewrite <- E'. split.
           ++ destruct d; [discriminate T2 | discriminate].
           ++ exact T3.
    + rewrite E0. destruct b0.
      * exists true. split; auto. split; auto. intros _.
        exists [], (c :: l). repeat split; auto.
        -- apply Hb0. reflexivity.
        -- intros _. apply no_delim_nil.
      * destruct IH as (b & E & Hb). exists b. split; auto. rewrite Hb. split.
        -- intros (n1 & n2 & El & H & ND). subst l. exists (c :: n1), n2.
           repeat split; auto. intro Hp. apply no_delim_cons. split; auto.
           intros [D1 D2]. simpl skipn in D2.
           assert (X : pct && negb (is_nil d) && has_prefix d (c :: n1 ++ n2) = true).
           { rewrite Hp, D2. destruct d; [congruence | reflexivity]. }
           rewrite X in T. discriminate.
        -- intros (n1 & n2 & E' & H & ND). destruct n1 as [|x n1].
           ++ simpl in E'. subst n2. apply Hb0 in H. discriminate.
           ++ rewrite <- app_comm_cons in E'. injection E' as Ec El. subst x l.
              exists n1, n2. repeat split; auto. intro Hp.
              apply (no_delim_cons d c n1 n2). auto.
Qed.

(* ---- matchList decides the textbook relation and never runs out of fuel ---- *)
Lemma match_list_spec : forall fuel name d pat, length pat < fuel ->
  exists b, match_list fuel name d pat = Some b /\ (b = true <-> wmatch d pat name).
Proof.
  induction fuel as [|f IH]; intros name d pat L; [lia|].
  cbn [match_list].
  destruct (split_wild pat) as [[[chunk w] rest]|] eqn:SW.
  - apply split_wild_some in SW. destruct SW as (Ep & N & W). subst pat.
    assert (Lr : length rest < f).
    { rewrite app_length in L. simpl in L. lia. }
    destruct (has_prefix chunk name) eqn:HP.
    + replace (negb (is_nil chunk) && negb true) with false
        by (simpl; rewrite andb_false_r; reflexivity).
      unfold trim_prefix. rewrite HP. apply has_prefix_skipn in HP.
      remember (skipn (length chunk) name) as r eqn:Hr. clear Hr.
      destruct (expand_spec (fun n => match_list f n d rest) (fun n => wmatch d rest n)
                  (beqb w PCT) d (fun n => IH n d rest Lr) r) as (b & E & Hb).
      exists b. split; auto. rewrite Hb.
      rewrite (wmatch_chunk d chunk (w :: rest) N name). split.
      * intros (n1 & n2 & E' & H & ND). exists r. split; auto.
        apply wmatch_wild; auto. exists n1, n2. auto.
      * intros (r' & E' & H). rewrite E' in HP. apply app_inv_head in HP. subst r'.
        apply wmatch_wild in H; auto.
    + destruct chunk as [|a chunk]; [simpl in HP; discriminate|].
      change (negb (is_nil (a :: chunk)) && negb false) with true. cbv iota.
      exists false. split; auto. split; [discriminate|].
      intro H. apply wmatch_chunk in H; auto. destruct H as (r & En & _). subst name.
      rewrite has_prefix_app in HP. discriminate.
  - apply split_wild_none in SW. exists (bytes_eqb name pat). split; auto.
    rewrite bytes_eqb_eq. rewrite wmatch_nowild; auto. tauto.
Qed.

Lemma top_aux : forall name d lit p,
  exists b,
    (if negb (has_prefix lit name) then Some false
     else match_list (S (length p)) (trim_prefix lit name) d p) = Some b /\
    (b = true <-> exists rest, name = lit ++ rest /\ wmatch d p rest).
Proof.
  intros name d lit p. destruct (has_prefix lit name) eqn:HP; cbn [negb].
  - unfold trim_prefix. rewrite HP. apply has_prefix_skipn in HP.
    remember (skipn (length lit) name) as r eqn:Hr. clear Hr. subst name.
    destruct (match_list_spec (S (length p)) r d p (Nat.lt_succ_diag_r _)) as (b & E & Hb).
    exists b. split; auto. rewrite Hb. split.
    + intro H. exists r. auto.
    + intros (r' & E' & H). apply app_inv_head in E'. subst r'. exact H.
  - exists false. split; auto. split; [discriminate|].
    intros (r & En & _). subst name. rewrite has_prefix_app in HP. discriminate.
Qed.

Lemma top_nil : forall name d p,
  exists b, match_list (S (length p)) name d p = Some b /\
    (b = true <-> exists rest, name = [] ++ rest /\ wmatch d p rest).
Proof.
  intros name d p.
  destruct (match_list_spec (S (length p)) name d p (Nat.lt_succ_diag_r _)) as (b & E & Hb).
  exists b. split; auto. rewrite Hb. simpl. split.
  - intro H. exists name. auto.
  - intros (r & En & H). subst r. exact H.
Qed.

(* the model never runs out of fuel and decides exactly the textbook relation, for every
   name, delimiter (any byte string, [] = none), reference and pattern *)
Lemma matchlist_spec : forall name d ref pat,
  exists b, match_list_top name d ref pat = Some b /\ (b = true <-> list_matches name d ref pat).
Proof.
  intros name d ref pat. unfold match_list_top, list_matches, resolve.
  destruct (negb (is_nil d) && has_prefix d pat) eqn:E1.
  - apply andb_true_iff in E1. destruct E1 as [_ E1].
    unfold trim_prefix. rewrite E1. cbn [is_nil]. apply top_nil.
  - destruct (is_nil ref) eqn:E2.
    + apply top_nil.
    + destruct (negb (is_nil d) && negb (has_suffix d ref)); apply top_aux.
Qed.

(* for a one-byte delimiter, '%' stands for exactly the sequences not containing it *)
Lemma no_delim_single : forall c n1 n2, no_delim [c] n1 n2 <-> ~ In c n1.
Proof.
  intros c n1 n2. induction n1 as [|x n1 IH].
  - split.
    + intros _ H. exact H.
    + intros _. apply no_delim_nil.
  - rewrite no_delim_cons, IH. simpl In.
    assert (D : delim_at [c] (x :: n1 ++ n2) 0 <-> x = c).
    { unfold delim_at. simpl. rewrite andb_true_r, beqb_true_iff. split.
      - intros [_ H]. auto.
      - intro H. split; [discriminate | auto]. }
    rewrite D. tauto.
Qed.

(* without a delimiter '%' behaves like '*' *)
Lemma no_delim_none : forall n1 n2, no_delim [] n1 n2.
Proof. intros n1 n2 k _ [H _]. apply H. reflexivity. Qed.
