(* Proofs/MemRefInv.v — C09: invariants of every reachable state of the reference model, over
   ALL command histories: UIDs strictly increase and are never reused, UIDVALIDITY identifies
   one creation, names are bound consistently, and no wire-deliverable command panics.      *)
From Coq Require Import Sorting.Sorted.
From Coq Require Import ZifyN ZifyNat ZifyBool.
From GoImap.Base Require Import Bytes.
From GoImap.Model Require Import NumSet MatchList Search MemRefMsg MemRef.
From GoImap.Proofs Require Import MemRefSpec MemRefMsgProofs.
Open Scope N_scope.

(* ======== helper lemmas (lists, messages, mailboxes, states) ======== *)
(* ==== generic list lemmas ==== *)
Lemma beq_iff : forall a b, bytes_eqb a b = true <-> a = b.
Proof.
  induction a as [|x a IH]; destruct b as [|y b]; simpl; split; intro H; try discriminate; auto.
  - apply Bool.andb_true_iff in H. destruct H as [H1 H2]. unfold beqb in H1.
    apply Ascii.eqb_eq in H1. apply IH in H2. congruence.
  - inversion H; subst. apply Bool.andb_true_iff. split.
    + unfold beqb. apply Ascii.eqb_refl.
    + apply IH. reflexivity.
Qed.

Lemma beq_refl : forall a, bytes_eqb a a = true.
Proof. intro a. apply beq_iff. reflexivity. Qed.

Lemma upd_length : forall A i (f : A -> A) l, length (update_nth i f l) = length l.
Proof.
  intros A i f l. revert i. induction l as [|x l IH]; intros [|i]; simpl; auto.
Qed.

Lemma upd_nth_eq : forall A i (f : A -> A) l,
  nth_error (update_nth i f l) i = option_map f (nth_error l i).
Proof.
  intros A i f l. revert i. induction l as [|x l IH]; intros [|i]; simpl; auto.
Qed.

Lemma upd_nth_ne : forall A i j (f : A -> A) l, i <> j ->
  nth_error (update_nth i f l) j = nth_error l j.
Proof.
  intros A i j f l. revert i j. induction l as [|x l IH]; intros [|i] [|j] Hne; simpl; auto.
  - congruence.
Qed.

Lemma nth_some_lt : forall A (l : list A) i x, nth_error l i = Some x -> (i < length l)%nat.
Proof. intros A l i x H. apply nth_error_Some. congruence. Qed.

Lemma lt_nth_some : forall A (l : list A) i, (i < length l)%nat -> exists x, nth_error l i = Some x.
Proof.
  intros A l i H. destruct (nth_error l i) eqn:E; eauto.
  apply nth_error_None in E. lia.
Qed.

Lemma lookup_in : forall n l i, lookup n l = Some i -> In (n, i) l.
Proof.
  intros n l i. induction l as [|[k v] l IH]; simpl; intro H; try discriminate.
  destruct (bytes_eqb k n) eqn:E.
  - apply beq_iff in E. inversion H. subst. auto.
  - auto.
Qed.

Lemma lookup_none : forall n l, lookup n l = None -> ~ In n (map fst l).
Proof.
  intros n l. induction l as [|[k v] l IH]; simpl; intros H; auto.
  destruct (bytes_eqb k n) eqn:E; try discriminate.
  intros [Hk | Hin].
  - subst. rewrite beq_refl in E. discriminate.
  - apply IH; auto.
Qed.

Lemma lookup_app_none : forall n l l', lookup n l = None -> lookup n (l ++ l') = lookup n l'.
Proof.
  intros n l l'. induction l as [|[k v] l IH]; simpl; intros H; auto.
  destruct (bytes_eqb k n); try discriminate. auto.
Qed.

Lemma unbind_in : forall n l k v, In (k, v) (unbind n l) <-> In (k, v) l /\ k <> n.
Proof.
  intros n l k v. unfold unbind. rewrite filter_In. simpl. split; intros [H1 H2]; split; auto.
  - intro; subst. rewrite beq_refl in H2. discriminate.
  - destruct (bytes_eqb k n) eqn:E; auto. apply beq_iff in E. contradiction.
Qed.

Lemma nodup_map_filter : forall A B (g : A -> B) (p : A -> bool) l,
  NoDup (map g l) -> NoDup (map g (filter p l)).
Proof.
  intros A B g p l. induction l as [|x l IH]; simpl; intros H; auto.
  inversion H; subst. destruct (p x); simpl; auto.
  constructor; auto. intro Hin. apply H2.
  apply in_map_iff in Hin. destruct Hin as (y & Hy & Hin). apply filter_In in Hin.
  apply in_map_iff. exists y. tauto.
Qed.

Lemma nodup_snoc : forall A (l : list A) x, NoDup l -> ~ In x l -> NoDup (l ++ [x]).
Proof.
  intros A l x. induction l as [|y l IH]; simpl; intros H Hn.
  - repeat constructor; auto.
  - inversion H; subst. constructor.
    + rewrite in_app_iff. simpl. intros [H1 | [H1 | []]]; auto.
    + apply IH; auto.
Qed.

Lemma nodup_map_inj : forall A B (g : A -> B) l x y,
  NoDup (map g l) -> In x l -> In y l -> g x = g y -> x = y.
Proof.
  intros A B g l x y. induction l as [|z l IH]; simpl; intros H Hx Hy E; [contradiction|].
  inversion H; subst.
  destruct Hx as [Hx | Hx]; destruct Hy as [Hy | Hy]; subst; auto.
  - exfalso. apply H2. rewrite E. apply in_map. auto.
  - exfalso. apply H2. rewrite <- E. apply in_map. auto.
Qed.

Lemma ss_snoc : forall l y, StronglySorted N.lt l -> (forall x, In x l -> x < y) ->
  StronglySorted N.lt (l ++ [y]).
Proof.
  intros l y. induction l as [|a l IH]; simpl; intros H Hy.
  - constructor; constructor.
  - inversion H; subst. constructor.
    + apply IH; auto.
    + apply Forall_app. split; auto.
Qed.

(* ==== message lists ==== *)
Lemma same_msg_refl : forall m, same_msg m m.
Proof. intro m. unfold same_msg. auto. Qed.

Lemma same_msg_trans : forall a b c, same_msg a b -> same_msg b c -> same_msg a c.
Proof. unfold same_msg. intros a b c (?&?&?&?) (?&?&?&?). repeat split; congruence. Qed.

Definition derived (ms ms' : list mmsg) : Prop :=
  (StronglySorted N.lt (map mm_uid ms) -> StronglySorted N.lt (map mm_uid ms')) /\
  forall m', In m' ms' -> exists m, In m ms /\ same_msg m m'.

Lemma derived_filter : forall p ms, derived ms (filter p ms).
Proof.
  intros p ms. split.
  - induction ms as [|a l IH]; simpl; intros H; auto.
    inversion H; subst. destruct (p a); auto.
    simpl. constructor; auto.
    rewrite Forall_forall in *. intros x Hx. apply H3.
    apply in_map_iff in Hx. destruct Hx as (m & Hm & Hin). apply filter_In in Hin.
    apply in_map_iff. exists m. tauto.
  - intros m' Hin. apply filter_In in Hin. exists m'. split; [tauto | apply same_msg_refl].
Qed.

Lemma numfilter_in : forall (g : N * mmsg -> bool) l i m,
  In m (map snd (filter g (number_from i l))) -> In m l.
Proof.
  intros g l. induction l as [|a l IH]; intros i m; cbn [number_from filter map]; intros H; auto.
  destruct (g (i, a)); cbn [map snd In] in H.
  - destruct H as [H | H]; [left; auto | right; eauto].
  - right; eauto.
Qed.

Lemma derived_numfilter : forall (g : N * mmsg -> bool) ms i,
  derived ms (map snd (filter g (number_from i ms))).
Proof.
  intros g ms i. split.
  - revert i. induction ms as [|a l IH]; intros i H; cbn [number_from filter map]; auto.
    cbn [map] in H. inversion H; subst.
    destruct (g (i, a)); cbn [map snd]; auto.
    constructor; auto.
    rewrite Forall_forall in *. intros x Hx. apply H3.
    apply in_map_iff in Hx. destruct Hx as (m & Hm & Hin). apply numfilter_in in Hin.
    apply in_map_iff. exists m. tauto.
  - intros m' Hin. apply numfilter_in in Hin. exists m'. split; [auto | apply same_msg_refl].
Qed.

Lemma nummap_uid : forall (a : N * mmsg -> bool) (f : mmsg -> mmsg) l i,
  (forall m, mm_uid (f m) = mm_uid m) ->
  map mm_uid (map (fun sm => if a sm then f (snd sm) else snd sm) (number_from i l)) = map mm_uid l.
Proof.
  intros a f l i Hf. revert i. induction l as [|x l IH]; intros i; cbn [number_from map]; auto.
  rewrite IH. f_equal. destruct (a (i, x)); cbn [snd]; auto.
Qed.

Lemma nummap_in : forall (a : N * mmsg -> bool) (f : mmsg -> mmsg) l i m',
  In m' (map (fun sm => if a sm then f (snd sm) else snd sm) (number_from i l)) ->
  exists m, In m l /\ (m' = m \/ m' = f m).
Proof.
  intros a f l. induction l as [|x l IH]; intros i m'; cbn [number_from map In]; intros H; [contradiction|].
  destruct H as [H | H].
  - exists x. split; auto. destruct (a (i, x)); cbn [snd] in H; auto.
  - apply IH in H. destruct H as (m & Hm & H). exists m. auto.
Qed.

Lemma derived_nummap : forall (a : N * mmsg -> bool) (f : mmsg -> mmsg) l i,
  (forall m, same_msg m (f m)) ->
  derived l (map (fun sm => if a sm then f (snd sm) else snd sm) (number_from i l)).
Proof.
  intros a f l i Hf. split.
  - rewrite nummap_uid; auto. intro m. destruct (Hf m) as (E & _). auto.
  - intros m' Hin. apply nummap_in in Hin. destruct Hin as (m & Hm & [E | E]); subst; exists m; split; auto.
    apply same_msg_refl.
Qed.

Lemma same_store : forall op fs m, same_msg m (store_flags op fs m).
Proof. intros [] fs m; unfold same_msg; cbn; auto. Qed.

Lemma same_seen : forall m, same_msg m (mark_seen m).
Proof. intros m; unfold same_msg; cbn; auto. Qed.

(* ==== mailboxes ==== *)
Definition ext (mb mb' : mailbox) : Prop :=
  mb_uv mb' = mb_uv mb /\ mb_next mb <= mb_next mb' /\
  forall m', In m' (mb_msgs mb') -> mm_uid m' < mb_next mb ->
    exists m, In m (mb_msgs mb) /\ same_msg m m'.

Definition mb_fit (mb : mailbox) : Prop :=
  forall m, In m (mb_msgs mb) -> (3 * Z.of_nat (length (mm_buf m)) + 2 < I63)%Z.

Definition good (mb mb' : mailbox) : Prop :=
  (mailbox_ok mb -> mailbox_ok mb') /\ mb_name mb' = mb_name mb /\ ext mb mb'.

Lemma ext_refl : forall mb, ext mb mb.
Proof.
  intro mb. unfold ext. repeat split; try lia.
  intros m' H _. exists m'. split; auto. apply same_msg_refl.
Qed.

Lemma ext_trans : forall a b c, ext a b -> ext b c -> ext a c.
Proof.
  unfold ext. intros a b c (U1 & N1 & M1) (U2 & N2 & M2). repeat split; try congruence; try lia.
  intros m'' Hin Hlt.
  destruct (M2 m'' Hin) as (m' & Hin' & S'); [lia|].
  assert (mm_uid m' = mm_uid m'') by (destruct S'; auto).
  destruct (M1 m' Hin') as (m & Hin0 & S0); [lia|].
  exists m. split; auto. eapply same_msg_trans; eauto.
Qed.

Lemma good_refl : forall mb, good mb mb.
Proof. intro mb. unfold good. split; [auto | split; [auto | apply ext_refl]]. Qed.

Lemma good_trans : forall a b c, good a b -> good b c -> good a c.
Proof.
  unfold good. intros a b c (O1 & N1 & E1) (O2 & N2 & E2).
  split; [auto | split; [congruence | eapply ext_trans; eauto]].
Qed.

Lemma good_set_sub : forall b mb, good mb (set_sub b mb).
Proof.
  intros b mb. unfold good. split; [auto | split; [auto |]].
  - unfold ext. cbn [set_sub mb_uv mb_next mb_msgs]. split; [reflexivity | split; [lia|]].
    intros m' H _. exists m'. split; auto. apply same_msg_refl.
Qed.

Lemma good_set_msgs : forall ms' mb, derived (mb_msgs mb) ms' -> good mb (set_msgs ms' mb).
Proof.
  intros ms' mb (Hs & Hin). unfold good. split; [|split; [reflexivity|]].
  - intros (S & B & Nx). unfold mailbox_ok. cbn [set_msgs mb_msgs mb_next].
    split; [auto | split; [|auto]].
    intros m' H0. destruct (Hin _ H0) as (m0 & Hm0 & (E & _)). rewrite <- E. apply B; auto.
  - unfold ext. cbn [set_msgs mb_msgs mb_next mb_uv].
    split; [reflexivity | split; [lia|]]. intros m' H _. auto.
Qed.

Lemma fit_set_msgs : forall ms' mb, derived (mb_msgs mb) ms' -> mb_fit mb -> mb_fit (set_msgs ms' mb).
Proof.
  intros ms' mb (_ & Hin) F m' H. cbn [set_msgs mb_msgs] in H.
  destruct (Hin _ H) as (m & Hm & (_ & E & _)). rewrite <- E. apply F; auto.
Qed.

Definition app1 (mb : mailbox) (fl : list bytes) (t z : Z) (buf : bytes) : mailbox :=
  fst (append_msg mb fl t z buf).

Lemma good_app1 : forall mb fl t z buf, good mb (app1 mb fl t z buf).
Proof.
  intros mb fl t z buf. unfold good, app1, append_msg. cbn [fst].
  split; [|split; [reflexivity|]].
  - intros (S & B & Nx). unfold mailbox_ok. cbn [mb_msgs mb_next].
    split; [|split].
    + rewrite map_app. cbn [map mm_uid].
      apply ss_snoc; auto. intros x Hx. apply in_map_iff in Hx. destruct Hx as (m & <- & Hm).
      apply B; auto.
    + intros m H0. apply in_app_iff in H0.
      destruct H0 as [H0 | [<- | []]]; [apply B in H0; lia | cbn [mm_uid]; lia].
    + lia.
  - unfold ext. cbn [mb_msgs mb_next mb_uv]. split; [reflexivity | split; [lia|]].
    intros m' H Hlt. apply in_app_iff in H.
    destruct H as [H | [<- | []]].
    + exists m'. split; auto. apply same_msg_refl.
    + cbn [mm_uid] in Hlt. lia.
Qed.

Lemma fit_app1 : forall mb fl t z buf, mb_fit mb -> (3 * Z.of_nat (length buf) + 2 < I63)%Z ->
  mb_fit (app1 mb fl t z buf).
Proof.
  intros mb fl t z buf F Hb m H. unfold app1, append_msg in H. cbn [fst mb_msgs] in H.
  apply in_app_iff in H. destruct H as [H | [<- | []]]; auto.
Qed.

Lemma copy_all_cons : forall mb m r,
  fst (copy_all mb (m :: r)) = fst (copy_all (app1 mb (mm_flags m) (mm_time m) (mm_zone m) (mm_buf m)) r).
Proof.
  intros mb m r. unfold app1. cbn [copy_all].
  destruct (append_msg mb (mm_flags m) (mm_time m) (mm_zone m) (mm_buf m)) as [mb1 u]. cbn [fst].
  destruct (copy_all mb1 r) as [mb2 us]. reflexivity.
Qed.

Lemma good_copy_all : forall ms mb, good mb (fst (copy_all mb ms)).
Proof.
  induction ms as [|m r IH]; intros mb.
  - cbn [copy_all fst]. apply good_refl.
  - rewrite copy_all_cons. eapply good_trans; [apply good_app1 | apply IH].
Qed.

Lemma fit_copy_all : forall ms mb, mb_fit mb ->
  (forall m, In m ms -> (3 * Z.of_nat (length (mm_buf m)) + 2 < I63)%Z) ->
  mb_fit (fst (copy_all mb ms)).
Proof.
  induction ms as [|m r IH]; intros mb F H.
  - cbn [copy_all fst]. auto.
  - rewrite copy_all_cons. apply IH.
    + apply fit_app1; auto. apply H. left; auto.
    + intros m0 Hm0. apply H. right; auto.
Qed.

Lemma derived_map_addr : forall uid set mb f, (forall m, same_msg m (f m)) ->
  derived (mb_msgs mb) (map_addressed uid set mb f).
Proof. intros. unfold map_addressed, numbered. apply derived_nummap; auto. Qed.

Lemma select_addressed_in : forall uid set mb m,
  In m (map snd (select_addressed uid set mb)) -> In m (mb_msgs mb).
Proof. intros uid set mb m H. unfold select_addressed, numbered in H. eapply numfilter_in; eauto. Qed.

(* ==== states ==== *)
Lemma in_selected_inv : forall s i k s' r, in_selected s i k = Some (s', r) ->
  (s' = s /\ r = bad_state) \/
  exists id mb, sel_of s i = Some id /\ nth_error (st_heap s) id = Some mb /\ k id mb = Some (s', r).
Proof.
  intros s i k s' r H. unfold in_selected in H.
  destruct (sel_of s i) as [id|] eqn:E1.
  - destruct (nth_error (st_heap s) id) as [mb|] eqn:E2.
    + right. exists id, mb. auto.
    + left. inversion H; auto.
  - left. inversion H; auto.
Qed.

Definition both (s s' : state) : Prop :=
  state_ok s' /\
  forall i mb, nth_error (st_heap s) i = Some mb ->
    exists mb', nth_error (st_heap s') i = Some mb' /\ ext mb mb'.

Lemma both_refl : forall s, state_ok s -> both s s.
Proof.
  intros s Ok. split; auto. intros i mb E. exists mb. split; auto. apply ext_refl.
Qed.

Lemma both_trans : forall a b c, both a b -> both b c -> both a c.
Proof.
  intros a b c (O1 & E1) (O2 & E2). split; auto.
  intros i mb E. destruct (E1 _ _ E) as (mb1 & F1 & X1). destruct (E2 _ _ F1) as (mb2 & F2 & X2).
  exists mb2. split; auto. eapply ext_trans; eauto.
Qed.

Lemma both_upd : forall s id f, state_ok s ->
  (forall mb, nth_error (st_heap s) id = Some mb -> good mb (f mb)) ->
  both s (upd_mb s id f).
Proof.
  intros [heap names prev sel ro] id f (H1 & H2 & H3 & H4 & H5 & H6) Hf.
  unfold both, upd_mb, with_heap, state_ok. cbn [st_heap st_names st_prev st_sel] in *.
  split; [split; [|split; [|split; [|split; [|split]]]]|]; auto.
  - intros i mb' E. destruct (Nat.eq_dec id i) as [->|Hne].
    + rewrite upd_nth_eq in E. destruct (nth_error heap i) as [mb|] eqn:E0; [|discriminate].
      cbn [option_map] in E. inversion E; subst. destruct (H1 _ _ E0) as [Ok Uv].
      destruct (Hf _ eq_refl) as (G1 & G2 & (G3 & _)). split; auto. congruence.
    + rewrite upd_nth_ne in E; auto.
  - rewrite upd_length. auto.
  - intros n i Hin. destruct (H3 _ _ Hin) as (mb & E & Nm).
    destruct (Nat.eq_dec id i) as [->|Hne].
    + exists (f mb). rewrite upd_nth_eq, E. split; auto. destruct (Hf _ E) as (_ & G2 & _). congruence.
    + exists mb. rewrite upd_nth_ne; auto.
  - intros k i E. rewrite upd_length. eauto.
  - intros i mb E. destruct (Nat.eq_dec id i) as [->|Hne].
    + exists (f mb). rewrite upd_nth_eq, E. split; auto. apply Hf; auto.
    + exists mb. rewrite upd_nth_ne; auto. split; auto. apply ext_refl.
Qed.

Lemma both_sel : forall s s1 i o, both s s1 ->
  (forall id, o = Some id -> (id < length (st_heap s1))%nat) -> both s (set_sel s1 i o).
Proof.
  intros s [heap names prev sel ro] i o ((H1 & H2 & H3 & H4 & H5 & H6) & HE) Ho.
  unfold both, set_sel, with_sel, state_ok. cbn [st_heap st_names st_prev st_sel] in *.
  split; [split; [|split; [|split; [|split; [|split]]]]|]; auto.
  intros k j E. destruct (Nat.eq_dec i k) as [->|Hne].
  - rewrite upd_nth_eq in E. destruct (nth_error sel k); [|discriminate]. cbn in E. inversion E. auto.
  - rewrite upd_nth_ne in E; eauto.
Qed.

Lemma both_ro : forall s s1 i b, both s s1 -> both s (set_ro s1 i b).
Proof.
  intros s [heap names prev sel ro] i b H. exact H.
Qed.

Lemma sel_valid : forall s i id, state_ok s -> sel_of s i = Some id -> (id < length (st_heap s))%nat.
Proof.
  intros s i id (_ & _ & _ & _ & _ & H6) E. unfold sel_of in E.
  destruct (nth_error (st_sel s) i) as [o|] eqn:E1; [|discriminate]. subst o. eauto.
Qed.

Ltac brk H := repeat match type of H with
  | context [if ro_of ?s ?i then _ else _] => let E := fresh "Ero" in destruct (ro_of s i) eqn:E
  | context [match lookup ?n ?l with _ => _ end] => let E := fresh "El" in destruct (lookup n l) eqn:E
  | context [match nth_error ?l ?n with _ => _ end] => let E := fresh "En" in destruct (nth_error l n) eqn:E
  | context [if Nat.eqb ?a ?b then _ else _] => let E := fresh "Eq" in destruct (Nat.eqb a b) eqn:E
  | context [match copy_all ?a ?b with _ => _ end] => let E := fresh "Ec" in destruct (copy_all a b) eqn:E
  | context [match append_msg ?a ?b ?c ?d ?e with _ => _ end] =>
      let E := fresh "Ea" in destruct (append_msg a b c d e) eqn:E
  | context [match all_some ?a with _ => _ end] => let E := fresh "Es" in destruct (all_some a) eqn:E
  end.

Ltac insel H sid mb Hs Hm :=
  apply in_selected_inv in H; destruct H as [[-> ->] | (id & mb & Hs & Hm & H)]; cbv beta in H.

Lemma create_both : forall s n, state_ok s -> lookup n (st_names s) = None ->
  both s {| st_heap := st_heap s ++ [{| mb_name := n; mb_uv := st_prev s + 1; mb_next := 1; mb_sub := false; mb_msgs := [] |}];
            st_names := st_names s ++ [(n, length (st_heap s))];
            st_prev := st_prev s + 1; st_sel := st_sel s; st_ro := st_ro s |}.
Proof.
  intros [heap names prev sel ro] n (H1 & H2 & H3 & H4 & H5 & H6) El.
  unfold both, state_ok. cbn [st_heap st_names st_prev st_sel] in *.
  split; [split; [|split; [|split; [|split; [|split]]]]|].
  - intros i mb0 E. destruct (Nat.lt_ge_cases i (length heap)) as [Hlt|Hge].
    + rewrite nth_error_app1 in E; auto.
    + rewrite nth_error_app2 in E; auto. destruct (i - length heap)%nat as [|d] eqn:Ed.
      * cbn in E. inversion E; subst. split.
        -- unfold mailbox_ok. cbn [mb_msgs mb_next map]. split; [constructor | split; [intros m []| lia]].
        -- cbn [mb_uv]. lia.
      * cbn in E. destruct d; discriminate.
  - rewrite app_length. cbn [length]. lia.
  - intros n0 i Hin. apply in_app_iff in Hin. destruct Hin as [Hin | [Hin | []]].
    + destruct (H3 _ _ Hin) as (mb & E & Nm). exists mb. split; auto.
      rewrite nth_error_app1; auto. eapply nth_some_lt; eauto.
    + inversion Hin; subst. eexists. rewrite nth_error_app2, Nat.sub_diag; auto.
      cbn. split; reflexivity.
  - rewrite map_app. cbn [map fst]. apply nodup_snoc; auto. apply lookup_none; auto.
  - rewrite map_app. cbn [map snd]. apply nodup_snoc; auto.
    intro Hin. apply in_map_iff in Hin. destruct Hin as ([n0 i] & Ei & Hin). cbn [snd] in Ei. subst i.
    destruct (H3 _ _ Hin) as (mb & E & _). apply nth_some_lt in E. lia.
  - intros k i E. rewrite app_length. apply H6 in E. lia.
  - intros i mb E. exists mb. split; [|apply ext_refl].
    rewrite nth_error_app1; auto. eapply nth_some_lt; eauto.
Qed.

Lemma delete_both : forall s n, state_ok s ->
  both s {| st_heap := st_heap s; st_names := unbind n (st_names s); st_prev := st_prev s; st_sel := st_sel s; st_ro := st_ro s |}.
Proof.
  intros [heap names prev sel ro] n (H1 & H2 & H3 & H4 & H5 & H6).
  unfold both, state_ok. cbn [st_heap st_names st_prev st_sel] in *.
  split; [split; [|split; [|split; [|split; [|split]]]]|]; auto.
  - intros n0 i Hin. apply unbind_in in Hin. apply H3. tauto.
  - unfold unbind. apply nodup_map_filter; auto.
  - unfold unbind. apply nodup_map_filter; auto.
  - intros i mb E. exists mb. split; auto. apply ext_refl.
Qed.

Lemma ext_set_name : forall n mb, ext mb (set_name n mb).
Proof.
  intros n mb. unfold ext. cbn [set_name mb_uv mb_next mb_msgs]. split; [reflexivity | split; [lia|]].
  intros m' H _. exists m'. split; auto. apply same_msg_refl.
Qed.

Lemma rename_both : forall s o n id, state_ok s ->
  lookup o (st_names s) = Some id -> lookup n (st_names s) = None ->
  both s {| st_heap := update_nth id (set_name n) (st_heap s);
            st_names := unbind o (st_names s) ++ [(n, id)];
            st_prev := st_prev s; st_sel := st_sel s; st_ro := st_ro s |}.
Proof.
  intros [heap names prev sel ro] o n id (H1 & H2 & H3 & H4 & H5 & H6) Eo En.
  unfold both, state_ok. cbn [st_heap st_names st_prev st_sel] in *.
  apply lookup_in in Eo.
  split; [split; [|split; [|split; [|split; [|split]]]]|].
  - intros i mb' E. destruct (Nat.eq_dec id i) as [->|Hne].
    + rewrite upd_nth_eq in E. destruct (nth_error heap i) as [mb|] eqn:E0; [|discriminate].
      cbn [option_map] in E. inversion E; subst. destruct (H1 _ _ E0) as [Ok Uv].
      split; auto.
    + rewrite upd_nth_ne in E; auto.
  - rewrite upd_length. auto.
  - intros n0 i Hin. apply in_app_iff in Hin. destruct Hin as [Hin | [Hin | []]].
    + apply unbind_in in Hin. destruct Hin as [Hin Hno].
      destruct (H3 _ _ Hin) as (mb & E & Nm). exists mb. split; auto.
      rewrite upd_nth_ne; auto. intro; subst i.
      assert (X : (o, id) = (n0, id)) by (eapply (nodup_map_inj _ _ snd); eauto).
      inversion X. congruence.
    + inversion Hin; subst. destruct (H3 _ _ Eo) as (mb & E & Nm).
      exists (set_name n0 mb). rewrite upd_nth_eq, E. split; auto.
  - rewrite map_app. cbn [map fst]. apply nodup_snoc.
    + unfold unbind. apply nodup_map_filter; auto.
    + intro Hin. apply in_map_iff in Hin. destruct Hin as ([n0 i] & Ei & Hin). cbn [fst] in Ei. subst n0.
      apply unbind_in in Hin. apply (lookup_none _ _ En). apply in_map_iff. exists (n, i). tauto.
  - rewrite map_app. cbn [map snd]. apply nodup_snoc.
    + unfold unbind. apply nodup_map_filter; auto.
    + intro Hin. apply in_map_iff in Hin. destruct Hin as ([n0 i] & Ei & Hin). cbn [snd] in Ei. subst i.
      apply unbind_in in Hin. destruct Hin as [Hin Hno].
      assert (X : (o, id) = (n0, id)) by (eapply (nodup_map_inj _ _ snd); eauto).
      inversion X. congruence.
  - intros k i E. rewrite upd_length. eauto.
  - intros i mb E. destruct (Nat.eq_dec id i) as [->|Hne].
    + exists (set_name n mb). rewrite upd_nth_eq, E. split; auto. apply ext_set_name.
    + exists mb. rewrite upd_nth_ne; auto. split; auto. apply ext_refl.
Qed.

Lemma fst_eq : forall A B (p : A * B) a b, p = (a, b) -> a = fst p.
Proof. intros; subst; reflexivity. Qed.

Lemma step_both : forall s k c s' r, state_ok s -> step s (k, c) = Some (s', r) -> both s s'.
Proof.
  intros s k c s' r Ok H. unfold step in H. destruct c; cbv beta iota zeta in H.
  - (* CCreate *) brk H; inversion H; subst; clear H; [apply both_refl; auto|].
    apply create_both; auto.
  - (* CDelete *) brk H; inversion H; subst; clear H; [|apply both_refl; auto].
    apply delete_both; auto.
  - (* CRename *) brk H; inversion H; subst; clear H; try (apply both_refl; auto).
    apply rename_both; auto.
  - (* CSubscribe *) brk H; inversion H; subst; clear H; try (apply both_refl; auto).
    apply both_upd; auto. intros; apply good_set_sub.
  - (* CUnsubscribe *) brk H; inversion H; subst; clear H; try (apply both_refl; auto).
    apply both_upd; auto. intros; apply good_set_sub.
  - (* CList *) inversion H; subst. apply both_refl; auto.
  - (* CStatus *) brk H; inversion H; subst; clear H; apply both_refl; auto.
  - (* CAppend *) brk H; inversion H; subst; clear H; try (apply both_refl; auto).
    apply both_upd; auto. intros mb E. assert (mb = m) by congruence. subst mb.
    rewrite (fst_eq _ _ _ _ _ Ea). apply good_app1.
  - (* CSelect *) brk H; inversion H; subst; clear H.
    + apply both_ro. apply both_sel; [apply both_refl; auto|]. intros id E. inversion E; subst. eapply nth_some_lt; eauto.
    + apply both_sel; [apply both_refl; auto|]. discriminate.
    + apply both_sel; [apply both_refl; auto|]. discriminate.
  - (* CUnselect *) insel H sid mb Hs Hm; [apply both_refl; auto|].
    inversion H; subst. apply both_sel; [apply both_refl; auto|]. discriminate.
  - (* CClose *) insel H sid mb Hs Hm; [apply both_refl; auto|].
    brk H; inversion H; subst; [apply both_sel; [apply both_refl; auto|discriminate]|].
    apply both_sel; [|discriminate].
    apply both_upd; auto. intros mb0 E. unfold expunge_mb. apply good_set_msgs. apply derived_filter.
  - (* CStore *) insel H sid mb Hs Hm; [apply both_refl; auto|].
    brk H; inversion H; subst; [apply both_refl; auto|]. apply both_upd; auto. intros mb0 E. assert (mb0 = mb) by congruence. subst mb0.
    apply good_set_msgs. apply derived_map_addr. apply same_store.
  - (* CCopy *) insel H sid mb Hs Hm; [apply both_refl; auto|].
    brk H; inversion H; subst; clear H; try (apply both_refl; auto).
    apply both_upd; auto. intros mb0 E. assert (mb0 = m) by congruence. subst mb0.
    rewrite (fst_eq _ _ _ _ _ Ec). apply good_copy_all.
  - (* CMove *) insel H sid mb Hs Hm; [apply both_refl; auto|].
    brk H; inversion H; subst; clear H; try (apply both_refl; auto).
    apply Nat.eqb_neq in Eq.
    assert (B1 : both s (upd_mb s n (fun _ => m0))).
    { apply both_upd; auto. intros mb0 E. assert (mb0 = m) by congruence. subst mb0.
      rewrite (fst_eq _ _ _ _ _ Ec). apply good_copy_all. }
    eapply both_trans; [exact B1|]. apply both_upd; [apply B1|].
    intros mb0 E. unfold upd_mb, with_heap in E. cbn [st_heap] in E. rewrite upd_nth_ne in E; auto.
    assert (mb0 = mb) by congruence. subst mb0.
    apply good_set_msgs. unfold numbered. apply derived_numfilter.
  - (* CExpunge *) insel H sid mb Hs Hm; [apply both_refl; auto|].
    brk H; inversion H; subst; [apply both_refl; auto|]. apply both_upd; auto. intros mb0 E. unfold expunge_mb.
    apply good_set_msgs. apply derived_filter.
  - (* CSearch *) insel H sid mb Hs Hm; [apply both_refl; auto|].
    inversion H; subst. apply both_refl; auto.
  - (* CFetch *) insel H sid mb Hs Hm; [apply both_refl; auto|].
    brk H; inversion H; subst; clear H.
    apply both_upd; auto. intros mb0 E. assert (mb0 = mb) by congruence. subst mb0.
    apply good_set_msgs. apply derived_map_addr.
    intros m. destruct (_ && _); [apply same_seen | apply same_msg_refl].
  - (* CNoop *) inversion H; subst. apply both_refl; auto.
Qed.

(* ==== histories ==== *)
Lemma leads_nil : forall s s', leads s [] s' -> s' = s.
Proof. intros s s' (rs & H). cbn [run] in H. inversion H; auto. Qed.

Lemma leads_cons : forall s c h s', leads s (c :: h) s' ->
  exists s1 r, step s c = Some (s1, r) /\ leads s1 h s'.
Proof.
  intros s c h s' (rs & H). cbn [run] in H.
  destruct (step s c) as [[s1 r]|] eqn:E; [|discriminate].
  destruct (run s1 h) as [[s2 rs2]|] eqn:E2; [|discriminate].
  inversion H; subst. exists s1, r. split; auto. exists rs2. auto.
Qed.

Lemma both_len : forall s s' i, both s s' -> (i < length (st_heap s))%nat -> (i < length (st_heap s'))%nat.
Proof.
  intros s s' i (_ & HE) Hlt. apply lt_nth_some in Hlt. destruct Hlt as (mb & E).
  destruct (HE _ _ E) as (mb' & E' & _). eapply nth_some_lt; eauto.
Qed.

Lemma leads_both : forall h s s', state_ok s -> leads s h s' -> both s s'.
Proof.
  induction h as [|[k c] h IH]; intros s s' Ok L.
  - apply leads_nil in L. subst. apply both_refl; auto.
  - apply leads_cons in L. destruct L as (s1 & r & St & L).
    pose proof (step_both _ _ _ _ _ Ok St) as B1.
    eapply both_trans; [exact B1|]. apply IH; auto. apply B1.
Qed.

(* ==== names ==== *)
Lemma step_names : forall s k c s' r, step s (k, c) = Some (s', r) ->
  st_names s' = st_names s \/
  (exists n, st_names s' = st_names s ++ [(n, length (st_heap s))]) \/
  (exists n, st_names s' = unbind n (st_names s)) \/
  (exists o n id, lookup o (st_names s) = Some id /\ st_names s' = unbind o (st_names s) ++ [(n, id)]).
Proof.
  intros s k c s' r H. unfold step in H. destruct c; cbv beta iota zeta in H.
  - brk H; inversion H; subst; clear H; [left; reflexivity|]. right; left. eexists. reflexivity.
  - brk H; inversion H; subst; clear H; [|left; reflexivity]. right; right; left. eexists. reflexivity.
  - brk H; inversion H; subst; clear H; try (left; reflexivity).
    right; right; right. do 3 eexists. split; [eassumption | reflexivity].
  - brk H; inversion H; subst; clear H; left; reflexivity.
  - brk H; inversion H; subst; clear H; left; reflexivity.
  - inversion H; subst. left; reflexivity.
  - brk H; inversion H; subst; clear H; left; reflexivity.
  - brk H; inversion H; subst; clear H; left; reflexivity.
  - brk H; inversion H; subst; clear H; left; reflexivity.
  - insel H sid mb Hs Hm; [left; reflexivity|]. brk H; inversion H; subst; clear H; left; reflexivity.
  - insel H sid mb Hs Hm; [left; reflexivity|]. brk H; inversion H; subst; clear H; left; reflexivity.
  - insel H sid mb Hs Hm; [left; reflexivity|]. brk H; inversion H; subst; clear H; left; reflexivity.
  - insel H sid mb Hs Hm; [left; reflexivity|]. brk H; inversion H; subst; clear H; left; reflexivity.
  - insel H sid mb Hs Hm; [left; reflexivity|]. brk H; inversion H; subst; clear H; left; reflexivity.
  - insel H sid mb Hs Hm; [left; reflexivity|]. brk H; inversion H; subst; clear H; left; reflexivity.
  - insel H sid mb Hs Hm; [left; reflexivity|]. brk H; inversion H; subst; clear H; left; reflexivity.
  - insel H sid mb Hs Hm; [left; reflexivity|]. brk H; inversion H; subst; clear H; left; reflexivity.
  - inversion H; subst. left; reflexivity.
Qed.

Lemma step_unbound : forall s k c s' r i, step s (k, c) = Some (s', r) ->
  (i < length (st_heap s))%nat -> ~ bound s i -> ~ bound s' i.
Proof.
  intros s k c s' r i H Hlt Hnb (n0 & Hin). apply Hnb.
  destruct (step_names _ _ _ _ _ H) as [E | [(n & E) | [(n & E) | (o & n & id & El & E)]]]; rewrite E in Hin.
  - exists n0; auto.
  - apply in_app_iff in Hin. destruct Hin as [Hin | [Hin | []]]; [exists n0; auto|].
    inversion Hin. lia.
  - apply unbind_in in Hin. exists n0. tauto.
  - apply in_app_iff in Hin. destruct Hin as [Hin | [Hin | []]].
    + apply unbind_in in Hin. exists n0. tauto.
    + inversion Hin; subst. exists o. apply lookup_in; auto.
Qed.

(* ==== fit ==== *)
Definition heap_fit (h : list mailbox) : Prop := forall i mb, nth_error h i = Some mb -> mb_fit mb.

Lemma heap_fit_upd : forall h id f, heap_fit h ->
  (forall mb, nth_error h id = Some mb -> mb_fit mb -> mb_fit (f mb)) -> heap_fit (update_nth id f h).
Proof.
  intros h id f F Hf i mb' E. destruct (Nat.eq_dec id i) as [->|Hne].
  - rewrite upd_nth_eq in E. destruct (nth_error h i) as [mb|] eqn:E0; [|discriminate].
    cbn in E. inversion E; subst. apply Hf; auto. eapply F; eauto.
  - rewrite upd_nth_ne in E; auto. eapply F; eauto.
Qed.

Lemma all_some_none : forall A (l : list (option A)), all_some l = None -> In None l.
Proof.
  intros A l. induction l as [|[x|] l IH]; cbn [all_some]; intros H.
  - discriminate.
  - right. apply IH. destruct (all_some l); [discriminate | reflexivity].
  - left; reflexivity.
Qed.

Lemma fetch_sections_total : forall buf l,
  forallb (fun p : section * bytes => wire_partial (sc_partial (fst p))) l = true ->
  (3 * Z.of_nat (length buf) + 2 < I63)%Z -> fetch_sections buf l <> None.
Proof.
  intros buf l. induction l as [|[it obs] l IH]; cbn [fetch_sections forallb]; intros W F.
  - discriminate.
  - apply Bool.andb_true_iff in W. destruct W as [W1 W2]. cbn [fst] in W1.
    pose proof (body_section_total buf it W1 F) as B.
    destruct (body_section buf it); [|congruence].
    specialize (IH W2 F). destruct (fetch_sections buf l); [discriminate | congruence].
Qed.

Lemma in_selected_none : forall s i k, in_selected s i k = None ->
  exists id mb, nth_error (st_heap s) id = Some mb /\ k id mb = None.
Proof.
  intros s i k H. unfold in_selected in H.
  destruct (sel_of s i) as [id|]; [|discriminate].
  destruct (nth_error (st_heap s) id) as [mb|] eqn:E; [|discriminate].
  exists id, mb. auto.
Qed.

(* ======== the theorems ======== *)
(* ---- the invariant ---- *)
Lemma init_ok : forall n, state_ok (init n).
Proof.
  intro n. unfold state_ok, init. cbn [st_heap st_names st_prev st_sel].
  split; [|split; [|split; [|split; [|split]]]].
  - intros [|i] mb E; discriminate.
  - reflexivity.
  - intros n0 i [].
  - constructor.
  - constructor.
  - intros k i E. apply nth_error_In in E. apply repeat_spec in E. discriminate.
Qed.

Lemma step_ok : forall s c s' r, state_ok s -> step s c = Some (s', r) -> state_ok s'.
Proof.
  intros s [k c] s' r Ok H. apply (step_both _ _ _ _ _ Ok H).
Qed.

Lemma leads_ok : forall h s s', state_ok s -> leads s h s' -> state_ok s'.
Proof.
  intros h s s' Ok L. apply (leads_both _ _ _ Ok L).
Qed.

Theorem reachable_ok : forall s, reachable s -> state_ok s.
Proof.
  intros s (n & h & L). apply (leads_ok h (init n)); [apply init_ok | exact L].
Qed.

(* ---- UIDs ---- *)
Theorem uids_strictly_increase : forall s i mb,
  reachable s -> nth_error (st_heap s) i = Some mb -> mailbox_ok mb.
Proof.
  intros s i mb R E. apply reachable_ok in R. destruct R as (H1 & _). apply (H1 _ _ E).
Qed.

(* one step: every object stays, keeps its UIDVALIDITY, its uidNext never decreases, and a
   message below the old uidNext is one of the old messages (with possibly other flags) *)
Definition extends (mb mb' : mailbox) : Prop :=
  mb_uv mb' = mb_uv mb /\ mb_next mb <= mb_next mb' /\
  forall m', In m' (mb_msgs mb') -> mm_uid m' < mb_next mb ->
    exists m, In m (mb_msgs mb) /\ same_msg m m'.

Lemma step_extends : forall s c s' r i mb, state_ok s -> step s c = Some (s', r) ->
  nth_error (st_heap s) i = Some mb ->
  exists mb', nth_error (st_heap s') i = Some mb' /\ extends mb mb'.
Proof.
  intros s [k c] s' r i mb Ok H E. destruct (step_both _ _ _ _ _ Ok H) as (_ & HE).
  exact (HE _ _ E).
Qed.

Theorem uid_never_reused : forall h s s' i mb, state_ok s -> leads s h s' ->
  nth_error (st_heap s) i = Some mb ->
  exists mb', nth_error (st_heap s') i = Some mb' /\ extends mb mb'.
Proof.
  intros h s s' i mb Ok L E. destruct (leads_both _ _ _ Ok L) as (_ & HE).
  exact (HE _ _ E).
Qed.

(* ---- UIDVALIDITY ---- *)
Theorem uidvalidity_unique : forall s i j a b, reachable s ->
  nth_error (st_heap s) i = Some a -> nth_error (st_heap s) j = Some b ->
  mb_uv a = mb_uv b -> i = j.
Proof.
  intros s i j a b R Ea Eb U. apply reachable_ok in R. destruct R as (H1 & _).
  destruct (H1 _ _ Ea) as [_ Ua]. destruct (H1 _ _ Eb) as [_ Ub]. lia.
Qed.

(* an object that no name is bound to is never bound again (RENAME only moves bound objects,
   CREATE makes new ones) *)
Lemma unbound_stays : forall h s s' i, state_ok s -> leads s h s' ->
  (i < length (st_heap s))%nat -> ~ bound s i -> ~ bound s' i.
Proof.
  induction h as [|[k c] h IH]; intros s s' i Ok L Hlt Hnb.
  - apply leads_nil in L. subst. auto.
  - apply leads_cons in L. destruct L as (s1 & r & St & L).
    pose proof (step_both _ _ _ _ _ Ok St) as B1.
    apply (IH s1 s' i); auto.
    + apply B1.
    + eapply both_len; eauto.
    + eapply step_unbound; eauto.
Qed.

(* a successful CREATE binds the name to a brand-new object *)
Lemma create_fresh : forall s k n s' r, state_ok s -> step s (k, CCreate n) = Some (s', r) -> r_class r = 0 ->
  lookup (trim_right_delim n) (st_names s') = Some (length (st_heap s)) /\
  length (st_heap s') = S (length (st_heap s)).
Proof.
  intros s k n s' r Ok H Hc. unfold step in H. cbv beta iota zeta in H.
  brk H; inversion H; subst; clear H.
  - unfold no in Hc. cbn [r_class] in Hc. discriminate.
  - cbn [st_names st_heap]. split.
    + rewrite lookup_app_none; auto. cbn [lookup]. rewrite beq_refl. reflexivity.
    + rewrite app_length. cbn [length]. lia.
Qed.

(* the property's clause: after a mailbox has been deleted, whatever is later found under its
   name has another UIDVALIDITY *)
Theorem recreated_uidvalidity_differs : forall s n i a k s1 r1 h s2 j b,
  reachable s -> lookup n (st_names s) = Some i -> nth_error (st_heap s) i = Some a ->
  step s (k, CDelete n) = Some (s1, r1) -> leads s1 h s2 ->
  lookup n (st_names s2) = Some j -> nth_error (st_heap s2) j = Some b ->
  mb_uv b <> mb_uv a.
Proof.
  intros s n i a k s1 r1 h s2 j b R El Ea St L El2 Eb.
  apply reachable_ok in R.
  pose proof (step_both _ _ _ _ _ R St) as B1.
  assert (Ok1 : state_ok s1) by apply B1.
  assert (Ok2 : state_ok s2) by (eapply leads_ok; eauto).
  assert (Hlt : (i < length (st_heap s1))%nat).
  { eapply both_len; eauto. eapply nth_some_lt; eauto. }
  assert (Hnb : ~ bound s1 i).
  { unfold step in St. cbv beta iota zeta in St. rewrite El in St. inversion St; subst; clear St.
    intros (n0 & Hin). cbn [st_names] in Hin. apply unbind_in in Hin. destruct Hin as [Hin Hne].
    apply lookup_in in El. destruct R as (_ & _ & _ & _ & H5 & _).
    assert (X : (n, i) = (n0, i)) by (eapply (nodup_map_inj _ _ snd); eauto).
    inversion X. congruence. }
  pose proof (unbound_stays h s1 s2 i Ok1 L Hlt Hnb) as Hnb2.
  assert (j <> i).
  { intro; subst j. apply Hnb2. exists n. apply lookup_in; auto. }
  destruct R as (H1 & _). destruct Ok2 as (H1' & _).
  destruct (H1 _ _ Ea) as [_ Ua]. destruct (H1' _ _ Eb) as [_ Ub]. lia.
Qed.

(* ---- failed commands change nothing (SELECT/EXAMINE excepted: they close the old mailbox) ---- *)
Theorem failed_command_no_change : forall s k c s' r, step s (k, c) = Some (s', r) -> r_class r <> 0 ->
  match c with CSelect _ _ => with_sel s' (st_sel s) = s | _ => s' = s end.
Proof.
  intros s k c s' r H Hc. unfold step in H. destruct c; cbv beta iota zeta in H.
  - brk H; inversion H; subst; clear H; try reflexivity; exfalso; apply Hc; reflexivity.
  - brk H; inversion H; subst; clear H; try reflexivity; exfalso; apply Hc; reflexivity.
  - brk H; inversion H; subst; clear H; try reflexivity; exfalso; apply Hc; reflexivity.
  - brk H; inversion H; subst; clear H; try reflexivity; exfalso; apply Hc; reflexivity.
  - brk H; inversion H; subst; clear H; try reflexivity; exfalso; apply Hc; reflexivity.
  - inversion H; subst. reflexivity.
  - brk H; inversion H; subst; clear H; reflexivity.
  - brk H; inversion H; subst; clear H; try reflexivity; exfalso; apply Hc; reflexivity.
  - destruct s as [heap names prev sel ro].
    brk H; inversion H; subst; clear H; try reflexivity; exfalso; apply Hc; reflexivity.
  - insel H sid mb Hs Hm; [reflexivity|]. brk H; inversion H; subst; clear H; try reflexivity; exfalso; apply Hc; reflexivity.
  - insel H sid mb Hs Hm; [reflexivity|]. brk H; inversion H; subst; clear H; try reflexivity; exfalso; apply Hc; reflexivity.
  - insel H sid mb Hs Hm; [reflexivity|]. brk H; inversion H; subst; clear H; try reflexivity; exfalso; apply Hc; reflexivity.
  - insel H sid mb Hs Hm; [reflexivity|].
    brk H; inversion H; subst; clear H; try reflexivity.
    exfalso; apply Hc. destruct (map snd (select_addressed uid set mb)); reflexivity.
  - insel H sid mb Hs Hm; [reflexivity|].
    brk H; inversion H; subst; clear H; try reflexivity.
    exfalso; apply Hc. reflexivity.
  - insel H sid mb Hs Hm; [reflexivity|]. brk H; inversion H; subst; clear H; try reflexivity; exfalso; apply Hc; reflexivity.
  - insel H sid mb Hs Hm; [reflexivity|]. inversion H; subst. reflexivity.
  - insel H sid mb Hs Hm; [reflexivity|].
    brk H; inversion H; subst; clear H. exfalso; apply Hc; reflexivity.
  - inversion H; subst. reflexivity.
Qed.

(* ---- no panic ---- *)
(* messages fit in memory with room for the CRLFs a rewritten header gains *)
Definition msgs_fit (s : state) : Prop :=
  forall i mb m, nth_error (st_heap s) i = Some mb -> In m (mb_msgs mb) ->
    (3 * Z.of_nat (length (mm_buf m)) + 2 < I63)%Z.
Definition cmd_fits (c : cmd) : Prop :=
  match c with CAppend _ _ _ _ buf => (3 * Z.of_nat (length buf) + 2 < I63)%Z | _ => True end.

Lemma fit_heap : forall s, msgs_fit s <-> heap_fit (st_heap s).
Proof.
  intro s. unfold msgs_fit, heap_fit, mb_fit. split; intros H; eauto.
Qed.

Lemma step_fit : forall s k c s' r, msgs_fit s -> cmd_fits c -> step s (k, c) = Some (s', r) -> msgs_fit s'.
Proof.
  intros s k c s' r F Hc H. apply fit_heap. apply fit_heap in F.
  unfold step in H. destruct c; cbv beta iota zeta in H.
  - brk H; inversion H; subst; clear H; auto. cbn [st_heap].
    intros i mb E. destruct (Nat.lt_ge_cases i (length (st_heap s))) as [Hlt|Hge].
    + rewrite nth_error_app1 in E; auto. eapply F; eauto.
    + rewrite nth_error_app2 in E; auto. destruct (i - length (st_heap s))%nat as [|d].
      * cbn in E. inversion E; subst. intros m [].
      * cbn in E. destruct d; discriminate.
  - brk H; inversion H; subst; clear H; auto.
  - brk H; inversion H; subst; clear H; auto. cbn [st_heap].
    apply heap_fit_upd; auto.
  - brk H; inversion H; subst; clear H; auto. cbn [st_heap upd_mb with_heap].
    apply heap_fit_upd; auto.
  - brk H; inversion H; subst; clear H; auto. cbn [st_heap upd_mb with_heap].
    apply heap_fit_upd; auto.
  - inversion H; subst; auto.
  - brk H; inversion H; subst; clear H; auto.
  - brk H; inversion H; subst; clear H; auto. cbn [st_heap upd_mb with_heap].
    apply heap_fit_upd; auto. intros mb E Fm. assert (mb = m) by congruence. subst mb.
    rewrite (fst_eq _ _ _ _ _ Ea). apply fit_app1; auto.
  - brk H; inversion H; subst; clear H; auto.
  - insel H sid mb Hs Hm; auto. inversion H; subst. auto.
  - insel H sid mb Hs Hm; auto. brk H; inversion H; subst; clear H; [exact F|]. cbn [st_heap upd_mb with_heap set_sel with_sel].
    apply heap_fit_upd; auto. intros mb0 E Fm. unfold expunge_mb. apply fit_set_msgs; auto. apply derived_filter.
  - insel H sid mb Hs Hm; auto. brk H; inversion H; subst; clear H; [exact F|]. cbn [st_heap upd_mb with_heap].
    apply heap_fit_upd; auto. intros mb0 E Fm. assert (mb0 = mb) by congruence. subst mb0.
    apply fit_set_msgs; auto. apply derived_map_addr. apply same_store.
  - insel H sid mb Hs Hm; auto.
    brk H; inversion H; subst; clear H; auto. cbn [st_heap upd_mb with_heap].
    apply heap_fit_upd; auto. intros mb0 E Fm. assert (mb0 = m) by congruence. subst mb0.
    rewrite (fst_eq _ _ _ _ _ Ec). apply fit_copy_all; auto.
    intros m1 Hin. apply select_addressed_in in Hin. apply (F _ _ Hm); auto.
  - insel H sid mb Hs Hm; auto.
    brk H; inversion H; subst; clear H; auto. cbn [st_heap upd_mb with_heap].
    apply Nat.eqb_neq in Eq.
    apply heap_fit_upd.
    + apply heap_fit_upd; auto. intros mb0 E Fm. assert (mb0 = m) by congruence. subst mb0.
      rewrite (fst_eq _ _ _ _ _ Ec). apply fit_copy_all; auto.
      intros m1 Hin. apply select_addressed_in in Hin. apply (F _ _ Hm); auto.
    + intros mb0 E Fm. apply fit_set_msgs; [unfold numbered; apply derived_numfilter|].
      apply (F _ _ Hm).
  - insel H sid mb Hs Hm; auto. brk H; inversion H; subst; clear H; [exact F|]. cbn [st_heap upd_mb with_heap].
    apply heap_fit_upd; auto. intros mb0 E Fm. unfold expunge_mb. apply fit_set_msgs; auto. apply derived_filter.
  - insel H sid mb Hs Hm; auto. inversion H; subst. auto.
  - insel H sid mb Hs Hm; auto.
    brk H; inversion H; subst; clear H. cbn [st_heap upd_mb with_heap].
    apply heap_fit_upd; auto. intros mb0 E Fm. assert (mb0 = mb) by congruence. subst mb0.
    apply fit_set_msgs; auto. apply derived_map_addr.
    intros m. destruct (_ && _); [apply same_seen | apply same_msg_refl].
  - inversion H; subst; auto.
Qed.

Theorem step_no_crash : forall s k c, state_ok s -> msgs_fit s -> wire_cmd c = true ->
  step s (k, c) <> None.
Proof.
  intros s k c Ok F W H. apply fit_heap in F.
  unfold step in H. destruct c; cbv beta iota zeta in H;
    try (brk H; discriminate);
    try (apply in_selected_none in H; destruct H as (id & mb & Hm & H); cbv beta in H; brk H; discriminate).
  apply in_selected_none in H. destruct H as (id & mb & Hm & H). cbv beta in H.
  brk H; [discriminate|]. clear H.
  apply all_some_none in Es. apply in_map_iff in Es. destruct Es as (sm & Ef & Hin).
  unfold fetch_one in Ef.
  destruct (fetch_sections (mm_buf (snd sm)) (fo_sections o)) eqn:E; [discriminate|].
  revert E. apply fetch_sections_total.
  - exact W.
  - assert (Hin' : In (snd sm) (map snd (select_addressed uid set
        (set_msgs (map_addressed uid set mb
           (if negb (ro_of s k) && existsb (fun p : section * bytes => negb (sc_peek (fst p))) (fo_sections o)
            then mark_seen else fun m : mmsg => m)) mb)))) by (apply in_map; exact Hin).
    apply select_addressed_in in Hin'. cbn [set_msgs mb_msgs] in Hin'.
    destruct (derived_map_addr uid set mb
      (if negb (ro_of s k) && existsb (fun p : section * bytes => negb (sc_peek (fst p))) (fo_sections o)
            then mark_seen else fun m : mmsg => m)) as (_ & D).
    { intros m. destruct (_ && _); [apply same_seen | apply same_msg_refl]. }
    destruct (D _ Hin') as (m0 & Hm0 & (_ & Eb & _)). rewrite <- Eb.
    apply (F _ _ Hm); auto.
Qed.

Lemma run_no_crash_gen : forall h s, state_ok s -> msgs_fit s ->
  Forall (fun kc : nat * cmd => wire_cmd (snd kc) = true /\ cmd_fits (snd kc)) h ->
  run s h <> None.
Proof.
  induction h as [|[k c] h IH]; intros s Ok F HF; cbn [run].
  - discriminate.
  - inversion HF as [|x l [W C] HF']; subst. cbn [snd] in W, C.
    destruct (step s (k, c)) as [[s1 r]|] eqn:E.
    + assert (Ok1 : state_ok s1) by (eapply step_ok; eauto).
      assert (F1 : msgs_fit s1) by (eapply step_fit; eauto).
      specialize (IH s1 Ok1 F1 HF').
      destruct (run s1 h) as [[s2 rs]|]; [discriminate | congruence].
    + exfalso. eapply step_no_crash; eauto.
Qed.

Theorem run_no_crash : forall n h,
  Forall (fun kc => wire_cmd (snd kc) = true /\ cmd_fits (snd kc)) h ->
  run (init n) h <> None.
Proof.
  intros n h HF. apply run_no_crash_gen; auto.
  - apply init_ok.
  - intros i mb m E. destruct i; discriminate.
Qed.
