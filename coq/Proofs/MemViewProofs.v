(* Proofs/MemViewProofs.v — C08, history level: for every history of every number of sessions
   the two observers of MemViewSpec.v accept what each connection receives, the tracker's
   ghost list of a session is what the identity-aware observer reconstructs, and a poll with
   expunges allowed (NOOP) leaves it equal to the mailbox's actual list.                      *)
From GoImap.Base Require Import Bytes.
From GoImap.Model Require Import NumSet Tracker MemView.
From Coq Require Import Sorting.Permutation.
From GoImap.Proofs Require Import TrackerSpec TrackerLemmas MemViewSpec MemViewLemmas MemViewSys.
From Coq Require Import ZifyN ZifyNat ZifyBool.
Open Scope N_scope.

(* ---- one step ----------------------------------------------------------------------------------- *)
Lemma handle_ok : forall st c cm st' evs, SysInv st -> handle st c cm = (st', evs) ->
  hspec st c (Some cm) st' evs.
Proof.
  intros st c cm st' evs HI Hh. unfold handle in Hh.
  destruct (get (s_conns st) c) as [cn|] eqn:Hc.
  2:{ inversion Hh; subst. apply hspec_refl. assumption. }
  destruct (c_idle cn) eqn:Ei.
  2:{ eapply handle_cmd_ok; eauto. }
  assert (Hbad : (put_conn st c (mkConn (c_sel cn) false (c_ro cn)), done StBAD) = (st', evs) ->
                 hspec st c (Some cm) st' evs).
  { intros H. inversion H; subst. apply hspec_set_idle; auto. apply neutral_done. reflexivity. }
  destruct cm; try (apply Hbad; exact Hh).
  destruct (sys_poll (put_conn st c (mkConn (c_sel cn) false (c_ro cn))) c true) as [st1 pevs] eqn:Ep.
  inversion Hh; subst; clear Hh.
  pose proof (hspec_set_idle st c (Some CDone) cn false (c_ro cn) [] HI Hc (neutral_nil _ _)) as H1.
  replace (pevs ++ done StOK) with ([] ++ pevs ++ done StOK) by reflexivity.
  eapply hspec_trans; [exact H1|]. destruct H1 as (HI1 & _).
  eapply hspec_poll_done with (allow := true); [assumption|cbn; discriminate|reflexivity|exact Ep].
Qed.

Lemma stream_of_app : forall c l1 l2, stream_of c (l1 ++ l2) = stream_of c l1 ++ stream_of c l2.
Proof. intros. unfold stream_of. rewrite filter_app, map_app. reflexivity. Qed.
Lemma stream_of_same : forall c evs, stream_of c (map (pair c) evs) = evs.
Proof.
  intros c evs. unfold stream_of. induction evs as [|e r IH]; simpl; [reflexivity|].
  rewrite N.eqb_refl. simpl. f_equal. exact IH.
Qed.
Lemma stream_of_other : forall c c0 evs, c <> c0 -> stream_of c (map (pair c0) evs) = [].
Proof.
  intros c c0 evs H. unfold stream_of. induction evs as [|e r IH]; simpl; [reflexivity|].
  replace (c0 =? c) with false by lia. exact IH.
Qed.

(* the IDLE goroutines *)
Definition obs_ok (st : sys) (c : N) (its : list item) (st' : sys) : Prop :=
  forall g t, J st c g t -> exists g' t',
    fold_opt ev_gone (view_of st c, g, t) its = Some (view_of st' c, g', t') /\ J st' c g' t'.

Lemma obs_ok_nil : forall st c, obs_ok st c [] st.
Proof. intros st c g t HJ. exists g, t. split; [reflexivity|assumption]. Qed.

Lemma obs_ok_app : forall st c l1 st1 l2 st2, obs_ok st c l1 st1 -> obs_ok st1 c l2 st2 ->
  obs_ok st c (l1 ++ l2) st2.
Proof.
  intros st c l1 st1 l2 st2 H1 H2 g t HJ. destruct (H1 g t HJ) as (g1 & t1 & F1 & J1).
  destruct (H2 g1 t1 J1) as (g2 & t2 & F2 & J2). exists g2, t2. split; [|assumption].
  rewrite (fold_opt_app _ _ _ _ _ _ _ F1). assumption.
Qed.

(* a step that writes nothing to c and leaves its session as it was *)
Lemma obs_ok_skip : forall st st' c, view_of st' c = view_of st c -> same_sess st st' c ->
  obs_ok st c [] st'.
Proof.
  intros st st' c Hv Hs g t HJ. exists g, t. split; [simpl; rewrite Hv; reflexivity|].
  eapply J_same_sess; eauto.
Qed.

Lemma flush_idle_ok : forall cs st st' l, SysInv st -> flush_idle st cs = (st', l) ->
  SysInv st' /\ s_conns st' = s_conns st /\
  forall c, obs_ok st c (map (pair None) (stream_of c l)) st'.
Proof.
  induction cs as [|c0 r IH]; intros st st' l HI Hf; simpl in Hf.
  - inversion Hf; subst. split; [assumption|]. split; [reflexivity|]. intros; apply obs_ok_nil.
  - destruct (get (s_conns st) c0) as [cn|] eqn:Hc; [|eapply IH; eauto].
    destruct (c_idle cn) eqn:Ei; [|eapply IH; eauto].
    destruct (sys_poll st c0 true) as [st1 evs] eqn:Ep.
    destruct (flush_idle st1 r) as [st2 l2] eqn:Ef. inversion Hf; subst; clear Hf.
    assert (Hnf : nonuid_fss None = true -> true = false) by (cbn; discriminate).
    destruct (hspec_poll st c0 None true st1 evs HI Hnf Ep) as ((HI1 & _ & Hv1 & Ho1) & _ & Hcs1).
    destruct (IH st1 st' l2 HI1 Ef) as (HI2 & Hcs2 & Hv2).
    split; [assumption|]. split; [congruence|].
    intros c. rewrite stream_of_app, map_app. destruct (N.eq_dec c c0) as [->|Hne].
    + rewrite stream_of_same. eapply obs_ok_app; [exact Hv1|apply Hv2].
    + rewrite stream_of_other by assumption. destruct (Ho1 c Hne) as (Hvo & _ & Hss).
      eapply obs_ok_app; [apply obs_ok_skip; eassumption|apply Hv2].
Qed.

Lemma items_of_app : forall c l1 l2, items_of c (l1 ++ l2) = items_of c l1 ++ items_of c l2.
Proof. intros. unfold items_of. rewrite filter_app, map_app. reflexivity. Qed.
Lemma items_of_own : forall c ctx evs,
  items_of c (map (fun e => (c, (ctx, e))) evs) = map (pair ctx) evs.
Proof.
  intros c ctx evs. unfold items_of. induction evs as [|e r IH]; simpl; [reflexivity|].
  rewrite N.eqb_refl. simpl. f_equal. exact IH.
Qed.
Lemma items_of_foreign : forall c c0 (ctx : option cmd) (evs : list ev), c <> c0 ->
  items_of c (map (fun e => (c0, (ctx, e))) evs) = [].
Proof.
  intros c c0 ctx evs H. unfold items_of. induction evs as [|e r IH]; simpl; [reflexivity|].
  replace (c0 =? c) with false by lia. exact IH.
Qed.
Lemma items_of_flush : forall c (l : list (N * ev)),
  items_of c (map (fun x => (fst x, (None, snd x))) l) = map (pair None) (stream_of c l).
Proof.
  intros c l. unfold items_of, stream_of. induction l as [|[c0 e] r IH]; simpl; [reflexivity|].
  destruct (c0 =? c); simpl; [f_equal|]; exact IH.
Qed.

Lemma step_log_ok : forall st c cm st' l, SysInv st -> step_log st c cm = (st', l) ->
  SysInv st' /\ forall c', obs_ok st c' (items_of c' l) st'.
Proof.
  intros st c cm st' l HI Hs. unfold step_log in Hs.
  destruct (handle st c cm) as [st1 evs] eqn:Eh.
  destruct (flush_idle st1 (conn_ids st1)) as [st2 l2] eqn:Ef. inversion Hs; subst; clear Hs.
  destruct (handle_ok _ _ _ _ _ HI Eh) as (HI1 & _ & Hv1 & Ho1).
  destruct (flush_idle_ok _ _ _ _ HI1 Ef) as (HI2 & _ & Hv2).
  split; [assumption|]. intros c'. rewrite items_of_app, items_of_flush.
  destruct (N.eq_dec c' c) as [->|Hne].
  - rewrite items_of_own. eapply obs_ok_app; [exact Hv1|apply Hv2].
  - rewrite items_of_foreign by assumption. destruct (Ho1 c' Hne) as (Hvo & _ & Hss).
    eapply obs_ok_app; [apply obs_ok_skip; eassumption|apply Hv2].
Qed.

(* ---- histories ------------------------------------------------------------------------------------ *)
Lemma run_log_ok : forall h st st' log, SysInv st -> run_log st h = (st', log) ->
  SysInv st' /\ forall c, obs_ok st c (items_of c log) st'.
Proof.
  induction h as [|[c cm] r IH]; intros st st' log HI Hr; simpl in Hr.
  - inversion Hr; subst. split; [assumption|]. intros; apply obs_ok_nil.
  - destruct (step_log st c cm) as [st1 l1] eqn:Es.
    destruct (run_log st1 r) as [st2 l2] eqn:Er. inversion Hr; subst; clear Hr.
    destruct (step_log_ok _ _ _ _ _ HI Es) as (HI1 & Hv1).
    destruct (IH _ _ _ HI1 Er) as (HI2 & Hv2).
    split; [assumption|]. intros c0. rewrite items_of_app. eapply obs_ok_app; [apply Hv1|apply Hv2].
Qed.

Lemma get_repeat : forall A (x : A) n i y, get (repeat x n) i = Some y -> y = x.
Proof.
  intros A x n i y H. unfold get in H. apply nth_error_In in H. apply repeat_spec in H. assumption.
Qed.

Lemma SysInv_init : forall nmb nconn, SysInv (sys_init nmb nconn).
Proof.
  intros nmb nconn. constructor; simpl.
  - intros m mb H. apply get_repeat in H. subst. apply MbInv_empty.
  - intros m mb c H Hin. apply get_repeat in H. subst. destruct Hin.
  - intros c cn m H Hsel. apply get_repeat in H. subst. discriminate.
  - reflexivity.
Qed.

Lemma view_of_init : forall nmb nconn c, view_of (sys_init nmb nconn) c = None.
Proof.
  intros. rewrite view_of_eq. unfold sel_of. simpl.
  destruct (get (repeat (mkConn None false false) (N.to_nat nconn)) c) as [cn|] eqn:E; [|reflexivity].
  apply get_repeat in E. subst. reflexivity.
Qed.

Lemma sel_of_init : forall nmb nconn c, sel_of (sys_init nmb nconn) c = None.
Proof.
  intros. unfold sel_of. simpl.
  destruct (get (repeat (mkConn None false false) (N.to_nat nconn)) c) as [cn|] eqn:E; [|reflexivity].
  apply get_repeat in E. subst. reflexivity.
Qed.

(* every reachable state satisfies the invariant; the observer with identity accepts every
   connection's stream; it ends with the tracker's ghost list of that connection's session, and
   what it has recorded as told and gone is tied to that session by J *)
Theorem reach_gone : forall nmb nconn h st log c, run_log (sys_init nmb nconn) h = (st, log) ->
  SysInv st /\ exists g t, gone_run (items_of c log) = Some (view_of st c, g, t) /\ J st c g t.
Proof.
  intros nmb nconn h st log c Hr.
  destruct (run_log_ok _ _ _ _ (SysInv_init nmb nconn) Hr) as (HI & Hv).
  split; [assumption|]. unfold gone_run. rewrite <- (view_of_init nmb nconn c). apply Hv.
  intros m mb sv Hs. rewrite sel_of_init in Hs. discriminate.
Qed.

Lemma gone_view : forall l v g t v' g' t', fold_opt ev_gone (v, g, t) l = Some (v', g', t') ->
  fold_opt ev_view v l = Some v'.
Proof.
  induction l as [|i r IH]; intros v g t v' g' t' H; simpl in *.
  - inversion H; subst. reflexivity.
  - destruct (ev_view v i) as [v1|] eqn:E; [|discriminate]. eapply IH; eauto.
Qed.

Theorem reach_view : forall nmb nconn h st log c, run_log (sys_init nmb nconn) h = (st, log) ->
  SysInv st /\ view_run (items_of c log) = Some (view_of st c).
Proof.
  intros nmb nconn h st log c Hr. destruct (reach_gone _ _ _ _ _ c Hr) as (HI & g & t & Hg & _).
  split; [assumption|]. unfold view_run. unfold gone_run in Hg. eapply gone_view; eauto.
Qed.

Theorem no_crash : forall nmb nconn h st log, run_log (sys_init nmb nconn) h = (st, log) ->
  s_crash st = false.
Proof. intros nmb nconn h st log H. destruct (reach_view _ _ _ _ _ 0 H) as [HI _]. apply (si_crash _ HI). Qed.

(* ---- from the identity-aware observer to the wire observer ------------------------------------------ *)
Definition cnt_of (v : option (list N)) : option N := option_map (fun l => len l) v.

Lemma remove_at_len : forall (l : list N) n, in_range (len l) n = true ->
  len (remove_at (N.to_nat n) l) = len l - 1.
Proof.
  intros l n H. unfold in_range, len in *. rewrite remove_at_length by lia. lia.
Qed.

Lemma ev_view_wire : forall v i v', ev_view v i = Some v' -> wire_step (cnt_of v) i = Some (cnt_of v').
Proof.
  intros v [ctx e] v' H. destruct e; cbn [ev_view wire_step] in *;
    try (inversion H; subst; reflexivity).
  - (* EvExists *)
    destruct v as [l|]; cbn [cnt_of option_map].
    + destruct ((n =? len l + len ids) && disjointb ids l) eqn:E; [|discriminate].
      inversion H; subst. apply andb_prop in E. destruct E as [E _].
      replace (len l <=? n) with true by (unfold len in *; lia).
      cbn [cnt_of option_map]. f_equal. f_equal. unfold len in *. rewrite app_length. lia.
    + destruct (is_select ctx && (n =? len ids)) eqn:E; [|discriminate].
      inversion H; subst. apply andb_prop in E. destruct E as [E1 E2]. rewrite E1.
      cbn [cnt_of option_map]. f_equal. f_equal. lia.
  - (* EvExpunge *)
    destruct v as [l|]; [|discriminate]. cbn [cnt_of option_map].
    destruct (in_range (len l) n && negb (nonuid_fss ctx)) eqn:E; [|discriminate].
    inversion H; subst. cbn [cnt_of option_map]. apply andb_prop in E. destruct E as [E1 _].
    rewrite (remove_at_len _ _ E1). reflexivity.
  - (* EvFetch *)
    destruct v as [l|]; [|discriminate]. cbn [cnt_of option_map].
    destruct (oN_eqb (nth1 l n) (Some uid)) eqn:E; [|discriminate]. inversion H; subst.
    destruct (nth1 l n) as [x|] eqn:En; [|discriminate]. apply nth1_range in En.
    replace (in_range (len l) n) with true by (unfold in_range, len; lia). reflexivity.
  - (* EvSearch *)
    destruct uidk; [inversion H; subst; reflexivity|].
    destruct v as [l|]; [|discriminate]. cbn [cnt_of option_map].
    destruct (forallb (in_range (len l)) nums); [|discriminate]. inversion H; subst. reflexivity.
  - (* EvDone *)
    inversion H; subst. destruct (is_ok st && is_unselect ctx); reflexivity.
Qed.

Lemma view_run_wire : forall l v v', fold_opt ev_view v l = Some v' ->
  fold_opt wire_step (cnt_of v) l = Some (cnt_of v').
Proof.
  induction l as [|i r IH]; intros v v' H; simpl in *.
  - inversion H; subst. reflexivity.
  - destruct (ev_view v i) as [v1|] eqn:E; [|discriminate].
    rewrite (ev_view_wire _ _ _ E). apply IH. assumption.
Qed.

(* the wire observer accepts every connection's stream; the count it ends with is the length
   of the session's list *)
Theorem reach_wire : forall nmb nconn h st log c, run_log (sys_init nmb nconn) h = (st, log) ->
  wire_run (items_of c log) = Some (cnt_of (view_of st c)).
Proof.
  intros nmb nconn h st log c Hr. destruct (reach_view _ _ _ _ _ c Hr) as [_ Hv].
  unfold wire_run. change (@None N) with (cnt_of None). apply view_run_wire. exact Hv.
Qed.

(* ---- the clauses, one by one, at every position of every stream --------------------------------------- *)
Lemma fold_opt_split : forall S I (f : S -> I -> option S) pre x post s s',
  fold_opt f s (pre ++ x :: post) = Some s' ->
  exists s1 s2, fold_opt f s pre = Some s1 /\ f s1 x = Some s2 /\ fold_opt f s2 post = Some s'.
Proof.
  intros S I f pre x post s s' H. apply fold_opt_app_inv in H. destruct H as (s1 & H1 & H2).
  simpl in H2. destruct (f s1 x) as [s2|] eqn:E; [|discriminate]. eauto.
Qed.

(* every sequence number sent lies within 1..announced count *)
Theorem seq_in_range : forall nmb nconn h st log c pre ctx e post,
  run_log (sys_init nmb nconn) h = (st, log) -> items_of c log = pre ++ (ctx, e) :: post ->
  exists cnt, wire_run pre = Some cnt /\
    match e with
    | EvFetch n _ _ | EvExpunge n => exists k, cnt = Some k /\ 1 <= n <= k
    | EvSearch false nums => exists k, cnt = Some k /\ Forall (fun n => 1 <= n <= k) nums
    | _ => True
    end.
Proof.
  intros nmb nconn h st log c pre ctx e post Hr Hi.
  pose proof (reach_wire _ _ _ _ _ c Hr) as Hw. rewrite Hi in Hw. unfold wire_run in *.
  apply fold_opt_split in Hw. destruct Hw as (s1 & s2 & H1 & H2 & _).
  exists s1. split; [assumption|]. destruct e; try exact I; cbn [wire_step] in H2.
  - destruct s1 as [k|]; [|discriminate]. destruct (in_range k n && negb (nonuid_fss ctx)) eqn:E; [|discriminate].
    exists k. split; [reflexivity|]. unfold in_range in E. lia.
  - destruct s1 as [k|]; [|discriminate]. destruct (in_range k n) eqn:E; [|discriminate].
    exists k. split; [reflexivity|]. unfold in_range in E. lia.
  - destruct uidk; [exact I|]. destruct s1 as [k|]; [|discriminate].
    destruct (forallb (in_range k) nums) eqn:E; [|discriminate].
    exists k. split; [reflexivity|]. rewrite Forall_forall. intros x Hx.
    rewrite forallb_forall in E. specialize (E x Hx). unfold in_range in E. lia.
Qed.

(* EXPUNGE is never sent while a FETCH, STORE or SEARCH that is not a UID command is answered *)
Theorem no_expunge_in_fetch_store_search : forall nmb nconn h st log c pre ctx n post,
  run_log (sys_init nmb nconn) h = (st, log) -> items_of c log = pre ++ (ctx, EvExpunge n) :: post ->
  nonuid_fss ctx = false.
Proof.
  intros nmb nconn h st log c pre ctx n post Hr Hi.
  pose proof (reach_wire _ _ _ _ _ c Hr) as Hw. rewrite Hi in Hw. unfold wire_run in *.
  apply fold_opt_split in Hw. destruct Hw as (s1 & s2 & H1 & H2 & _). cbn [wire_step] in H2.
  destruct s1 as [k|]; [|discriminate].
  destruct (in_range k n && negb (nonuid_fss ctx)) eqn:E; [|discriminate].
  apply andb_prop in E. destruct E as [_ E]. destruct (nonuid_fss ctx); [discriminate|reflexivity].
Qed.

(* the announced count gets lower only by an EXPUNGE response, by one *)
Theorem count_shrinks_only_by_expunge : forall nmb nconn h st log c pre ctx e post k k',
  run_log (sys_init nmb nconn) h = (st, log) -> items_of c log = pre ++ (ctx, e) :: post ->
  wire_run pre = Some (Some k) -> wire_run (pre ++ [(ctx, e)]) = Some (Some k') -> k' < k ->
  (exists n, e = EvExpunge n) /\ k' = k - 1.
Proof.
  intros nmb nconn h st log c pre ctx e post k k' Hr Hi Hp Hp' Hlt.
  unfold wire_run in *. rewrite (fold_opt_app _ _ _ _ _ _ _ Hp) in Hp'. cbn [fold_opt] in Hp'.
  destruct (wire_step (Some k) (ctx, e)) as [s|] eqn:E; [|discriminate]. inversion Hp'; subst s. clear Hp'.
  destruct e; cbn [wire_step] in E.
  - destruct (k <=? n) eqn:El; [|discriminate]. inversion E; subst. lia.
  - destruct (in_range k n && negb (nonuid_fss ctx)); [|discriminate]. inversion E; subst. split; [eauto|reflexivity].
  - destruct (in_range k n); [|discriminate]. inversion E; subst. lia.
  - destruct uidk; [inversion E; subst; lia|]. destruct (forallb (in_range k) nums); [|discriminate]. inversion E; subst. lia.
  - discriminate.
  - inversion E; subst. lia.
  - inversion E; subst. lia.
  - inversion E; subst. lia.
  - inversion E; subst. lia.
  - destruct (is_ok st0 && is_unselect ctx); [discriminate|]. inversion E; subst. lia.
Qed.

(* ---- NOOP ---------------------------------------------------------------------------------------------- *)
Definition synced (st : sys) (c : N) : Prop :=
  forall m mb, sel_of st c = Some (m, mb) -> view_of st c = Some (uids_of mb).

Lemma sys_poll_synced : forall st c0 st' evs c, SysInv st -> sys_poll st c0 true = (st', evs) ->
  (c = c0 \/ synced st c) -> synced st' c.
Proof.
  intros st c0 st' evs c HI Hp Hc.
  assert (Hnf : nonuid_fss None = true -> true = false) by (cbn; discriminate).
  destruct (hspec_poll st c0 None true st' evs HI Hnf Hp) as ((HI1 & _ & _ & Ho1) & Hs & _).
  destruct (N.eq_dec c c0) as [->|Hne]; [intros m mb; apply Hs; reflexivity|].
  destruct Hc as [Hc|Hc]; [congruence|].
  intros m mb' Hsel'. destruct (Ho1 c Hne) as [Hv _]. rewrite Hv.
  unfold sys_poll in Hp. destruct (sel_of st c0) as [[m0 mb0]|] eqn:Es0.
  2:{ inversion Hp; subst. exact (Hc _ _ Hsel'). }
  destruct (sel_sess _ _ _ _ HI Es0) as (Hmb0 & sv & Hsv).
  destruct (mb_poll_ok mb0 c0 true sv Hmb0 Hsv) as (em & rest & t' & Hstep & _).
  rewrite Hstep in Hp. inversion Hp; subst; clear Hp.
  apply sel_of_some in Es0. destruct Es0 as (cn0 & _ & _ & Hm0).
  rewrite (sel_of_put_mb _ _ _ _ _ _ Hm0) in Hsel'.
  destruct (sel_of st c) as [[m1 mb1]|] eqn:Es; [|discriminate].
  destruct (m1 =? m0) eqn:E.
  - apply N.eqb_eq in E. subst m1. inversion Hsel'; subst m mb'.
    pose proof Es as Es'. apply sel_of_some in Es'. destruct Es' as (cn1 & _ & _ & Hm1).
    rewrite Hm0 in Hm1. inversion Hm1; subst mb1. rewrite (Hc _ _ Es). reflexivity.
  - inversion Hsel'; subst m mb'. exact (Hc _ _ Es).
Qed.

Lemma flush_idle_synced : forall cs st st' l c, SysInv st -> flush_idle st cs = (st', l) ->
  synced st c -> synced st' c.
Proof.
  induction cs as [|c0 r IH]; intros st st' l c HI Hf Hs; simpl in Hf.
  - inversion Hf; subst. assumption.
  - destruct (get (s_conns st) c0) as [cn|] eqn:Hc; [|eapply IH; eauto].
    destruct (c_idle cn) eqn:Ei; [|eapply IH; eauto].
    destruct (sys_poll st c0 true) as [st1 evs] eqn:Ep.
    destruct (flush_idle st1 r) as [st2 l2] eqn:Ef. inversion Hf; subst; clear Hf.
    assert (Hnf : nonuid_fss None = true -> true = false) by (cbn; discriminate).
    destruct (hspec_poll st c0 None true st1 evs HI Hnf Ep) as ((HI1 & _) & _).
    apply (IH st1 st' l2 c HI1 Ef). apply (sys_poll_synced st c0 st1 evs c HI Ep). right. exact Hs.
Qed.

(* after a NOOP that was answered OK, the session's list is the mailbox's actual list *)
Theorem noop_syncs : forall nmb nconn h st log c st' l m mb,
  run_log (sys_init nmb nconn) h = (st, log) -> step_log st c CNoop = (st', l) ->
  In (c, (Some CNoop, EvDone StOK DNone)) l -> sel_of st' c = Some (m, mb) ->
  view_of st' c = Some (uids_of mb).
Proof.
  intros nmb nconn h st log c st' l m mb Hr Hs Hin Hsel.
  destruct (reach_view _ _ _ _ _ c Hr) as [HI _].
  unfold step_log in Hs. destruct (handle st c CNoop) as [st1 evs] eqn:Eh.
  destruct (flush_idle st1 (conn_ids st1)) as [st2 l2] eqn:Ef. inversion Hs; subst; clear Hs.
  destruct (handle_ok _ _ _ _ _ HI Eh) as (HI1 & _).
  assert (Hsy : synced st1 c).
  { unfold handle in Eh. destruct (get (s_conns st) c) as [cn|] eqn:Hc.
    - destruct (c_idle cn).
      + inversion Eh; subst. exfalso. apply in_app_iff in Hin. destruct Hin as [Hin|Hin].
        * simpl in Hin. destruct Hin as [Hin|[]]. inversion Hin.
        * apply in_map_iff in Hin. destruct Hin as (x & Hx & _). inversion Hx.
      + cbn [handle_cmd] in Eh. destruct (sys_poll st c true) as [st0 pevs] eqn:Ep. inversion Eh; subst.
        apply (sys_poll_synced st c st1 pevs c HI Ep). left. reflexivity.
    - inversion Eh; subst. simpl in Hin. exfalso. apply in_map_iff in Hin.
      destruct Hin as (x & Hx & _). inversion Hx. }
  exact (flush_idle_synced _ _ _ _ c HI1 Ef Hsy _ _ Hsel).
Qed.

(* ---- removed messages are reported exactly once ------------------------------------------------------- *)
(* In every reachable state, for a connection with a mailbox selected: what the observer has
   recorded since the SELECT (l: the client's list, gone: the messages EXPUNGE responses removed
   from it, told: every message the client was told about) satisfies: told is l and gone together,
   nothing is in told twice -- so every message the client was told about is either still in its
   list or was reported expunged exactly once, never both -- and nothing reported expunged is in
   the mailbox. With noop_syncs (l = the mailbox after NOOP): after NOOP, the messages the client
   was told about that are no longer in the mailbox are exactly those reported, each once. *)
Theorem removed_reported_once : forall nmb nconn h st log c m mb,
  run_log (sys_init nmb nconn) h = (st, log) -> sel_of st c = Some (m, mb) ->
  exists l gone told,
    gone_run (items_of c log) = Some (Some l, gone, told) /\ view_of st c = Some l /\
    Permutation told (l ++ gone) /\ NoDup told /\ NoDup (l ++ gone) /\
    (forall u, In u gone -> ~ In u (uids_of mb)).
Proof.
  intros nmb nconn h st log c m mb Hr Hsel.
  destruct (reach_gone _ _ _ _ _ c Hr) as (HI & g & t & Hg & HJ).
  destruct (sel_sess _ _ _ _ HI Hsel) as (Hmb & sv & Hsv).
  destruct (HJ _ _ _ Hsel Hsv) as (Jb & Jp & Jn).
  pose proof (view_of_sel _ _ _ _ _ Hsel Hsv) as Hv. rewrite Hv in Hg.
  assert (Hnd : NoDup (s_view sv ++ g)) by (eapply Permutation_NoDup; eauto).
  exists (s_view sv), g, t. repeat split; try assumption.
  intros u Hu. eapply gone_not_in_mailbox.
  - apply (mb_qinv _ _ _ Hmb Hsv).
  - exact Hnd.
  - rewrite Forall_forall in *. intros x Hx. apply Jb. eapply Permutation_in; [apply Permutation_sym; exact Jp|].
    apply in_or_app. right. assumption.
  - assumption.
Qed.

(* ---- the annotated log is the model's run ---------------------------------------------------------------- *)
Lemma step_log_erase : forall st c cm st' l, step_log st c cm = (st', l) ->
  sys_step st c cm = (st', erase_log l).
Proof.
  intros st c cm st' l H. unfold step_log in H. unfold sys_step.
  destruct (handle st c cm) as [st1 evs]. destruct (flush_idle st1 (conn_ids st1)) as [st2 l2].
  inversion H; subst. f_equal. unfold erase_log. rewrite map_app, !map_map. simpl.
  f_equal. rewrite <- (map_id l2) at 1. apply map_ext. intros [a b]. reflexivity.
Qed.

Theorem run_log_erase : forall h st st' log, run_log st h = (st', log) ->
  sys_run st h = (st', erase_log log).
Proof.
  induction h as [|[c cm] r IH]; intros st st' log H; simpl in *.
  - inversion H; subst. reflexivity.
  - destruct (step_log st c cm) as [st1 l1] eqn:Es. destruct (run_log st1 r) as [st2 l2] eqn:Er.
    inversion H; subst. rewrite (step_log_erase _ _ _ _ _ Es), (IH _ _ _ Er).
    unfold erase_log. rewrite map_app. reflexivity.
Qed.
