(* Proofs/ClientRespTicks.v — C11, the step bound: the reader's tick count is linear in the
   length of the server stream.

   Amortised argument.  The potential of a state is
       w s = s_ticks s + 2 * length (s_in s);
   a consumed byte frees two units, a tick costs one.  Every parser p of the model gets a
   specification  spec Q e p :
       p s = Ok v s'  ->  w s' + Q v <= w s        (Q v = potential surely gained, by result)
       p s = Err s'   ->  w s' <= w s + e          (e = unpaid ticks at the point of failure)
   (Fuel / Crash: nothing).  The proofs run the monadic code symbolically ([step]) and leave the
   bookkeeping of the potential to lia.                                                      *)
From Coq Require Import Lia Arith.
From GoImap.Base Require Import Bytes.
From GoImap.Model Require Import NumSet MatchList Utf7 Wire ClientResp.
From GoImap.Proofs Require Import ClientRespSpec.
Local Open Scope nat_scope.

(* everything but the final theorem lives in a module so that the short names (w, post, spec,
   step, run, go, fin, specdb hints) do not leak into files importing this one *)
Module Ticks.

Definition w (s : st) : nat := s_ticks s + 2 * length (s_in s).

Definition post {A} (Q : A -> nat) (e : nat) (s0 : st) (r : res A) : Prop :=
  match r with
  | Ok v s' => w s' + Q v <= w s0
  | Err s' => w s' <= w s0 + e
  | Fuel => True
  | Crash => True
  end.

Definition spec {A} (Q : A -> nat) (e : nat) (p : P A) : Prop := forall s, post Q e s (p s).

(* gains that depend on the result *)
Definition gopt {A} (g : nat) (o : option A) : nat := match o with Some _ => g | None => 0 end.
Definition gbool (g : nat) (b : bool) : nat := if b then g else 0.

(* ---------------------------------------------------------------------------------------- *)
(* rules                                                                                     *)

Lemma post_bind {A B} (p : P A) (q : A -> P B) Qp ep (Q : B -> nat) e s0 s1 :
  spec Qp ep p ->
  (forall s2, w s2 <= w s1 + ep -> w s2 <= w s0 + e) ->
  (forall v s2, w s2 + Qp v <= w s1 -> post Q e s0 (q v s2)) ->
  post Q e s0 (bind p q s1).
Proof.
  intros Hp He Hk. unfold bind. specialize (Hp s1). unfold post in Hp.
  destruct (p s1); simpl; auto.
Qed.

Lemma post_tail {A} (p : P A) Qp ep (Q : A -> nat) e s0 s1 :
  spec Qp ep p ->
  (forall s2, w s2 <= w s1 + ep -> w s2 <= w s0 + e) ->
  (forall v s2, w s2 + Qp v <= w s1 -> w s2 + Q v <= w s0) ->
  post Q e s0 (p s1).
Proof.
  intros Hp He Hk. specialize (Hp s1). unfold post in *.
  destruct (p s1); simpl; auto.
Qed.

Lemma post_tick {B} (q : unit -> P B) (Q : B -> nat) e s0 s1 :
  (forall s2, w s2 = S (w s1) -> post Q e s0 (q tt s2)) ->
  post Q e s0 (bind tick q s1).
Proof. intros H. unfold bind, tick. apply H. unfold w. simpl. lia. Qed.

Lemma post_assoc {A B C} (a : P A) (b : A -> P B) (q : B -> P C) (Q : C -> nat) e s0 s1 :
  post Q e s0 (bind a (fun x => bind (b x) q) s1) ->
  post Q e s0 (bind (bind a b) q s1).
Proof. unfold bind. destruct (a s1); auto. Qed.

Lemma post_ret {A} (v : A) (Q : A -> nat) e s0 s1 :
  w s1 + Q v <= w s0 -> post Q e s0 (ret v s1).
Proof. auto. Qed.

Lemma post_fail {A} (Q : A -> nat) e s0 s1 :
  w s1 <= w s0 + e -> post Q e s0 (@fail A s1).
Proof. auto. Qed.

Lemma w_set_err s : w (set_err s) = w s.
Proof. reflexivity. Qed.

Lemma post_expect_fail {A} (Q : A -> nat) e s0 s1 :
  w s1 <= w s0 + e -> post Q e s0 (@expect_fail A s1).
Proof. auto. Qed.

Lemma spec_out_of_fuel {A} Q e : spec Q e (@out_of_fuel A).
Proof. intro s. exact I. Qed.
Lemma spec_crash {A} Q e : spec Q e (@crash A).
Proof. intro s. exact I. Qed.

Lemma spec_with_fuel {A} (f : nat -> P A) Q e :
  (forall k, spec Q e (f k)) -> spec Q e (with_fuel f).
Proof. intros H s. unfold with_fuel. apply H. Qed.

(* ---------------------------------------------------------------------------------------- *)
(* instruments and primitives                                                                *)

Lemma spec_ret {A} (v : A) : spec (fun _ => 0) 0 (ret v).
Proof. intro s. unfold ret, post. lia. Qed.
Lemma spec_note_depth d : spec (fun _ => 0) 0 (note_depth d).
Proof. intro s. unfold note_depth, post, w. simpl. lia. Qed.
Lemma spec_emit ev : spec (fun _ => 0) 0 (emit ev).
Proof. intro s. unfold emit, post, w. simpl. lia. Qed.
Lemma spec_mark_err : spec (fun _ => 0) 0 mark_err.
Proof. intro s. unfold mark_err, post, w. simpl. lia. Qed.
Lemma spec_err_is_set : spec (fun _ => 0) 0 err_is_set.
Proof. intro s. unfold err_is_set, post. lia. Qed.

Lemma w_set_in s r : w (set_in s r) = s_ticks s + 2 * length r.
Proof. reflexivity. Qed.
Lemma w_set_err_in s r : w (set_err (set_in s r)) = s_ticks s + 2 * length r.
Proof. reflexivity. Qed.

Lemma spec_special c : spec (gbool 2) 0 (special c).
Proof.
  intro s. unfold special, post. destruct (s_in s) as [|x r] eqn:E.
  - rewrite w_set_err. unfold gbool. lia.
  - destruct (beqb x c).
    + rewrite w_set_in. unfold w, gbool. rewrite E. simpl length. lia.
    + unfold gbool. lia.
Qed.

Lemma spec_sp : spec (fun _ => 0) 0 sp.
Proof.
  intro s. unfold sp, post. destruct (s_in s) as [|x r] eqn:E.
  - rewrite w_set_err. lia.
  - destruct (beqb x SP_).
    + destruct r as [|y r'].
      * rewrite w_set_err_in. unfold w. rewrite E. simpl length. lia.
      * rewrite w_set_in. unfold w. rewrite E. simpl length. lia.
    + lia.
Qed.

Lemma take_while_length valid s a rest :
  take_while valid s = Some (a, rest) -> length s = length a + length rest.
Proof.
  revert a rest. induction s as [|c r IH]; intros a rest H; simpl in H; [discriminate|].
  destruct (valid c).
  - destruct (take_while valid r) as [[a' rest']|]; [|discriminate].
    inversion H; subst. simpl. rewrite (IH a' rest eq_refl). reflexivity.
  - inversion H; subst. reflexivity.
Qed.

Lemma spec_func valid : spec (gopt 2) 0 (func valid).
Proof.
  intro s. unfold func, post.
  destruct (take_while valid (s_in s)) as [[a rest]|] eqn:E.
  - apply take_while_length in E. destruct a.
    + unfold gopt. lia.
    + rewrite w_set_in. unfold w, gopt. rewrite E. simpl length. lia.
  - rewrite w_set_err_in. unfold w, gopt. simpl length. lia.
Qed.

Lemma spec_discard_until c : spec (fun _ => 0) 0 (discard_until c).
Proof.
  intro s. unfold discard_until, post.
  destruct (take_while _ (s_in s)) as [[a rest]|] eqn:E.
  - apply take_while_length in E. rewrite w_set_in. unfold w. rewrite E. lia.
  - rewrite w_set_err_in. unfold w. simpl length. lia.
Qed.

Lemma quoted_body_length s : forall a rest,
  quoted_body s = Some (a, rest) -> length rest <= length s.
Proof.
  induction s as [s IH] using (well_founded_induction (Wf_nat.well_founded_ltof _ (@length ascii))).
  unfold Wf_nat.ltof in IH. intros a rest H. destruct s as [|c r]; simpl in H; [discriminate|].
  destruct (beqb c DQ_).
  - inversion H; subst. simpl. lia.
  - destruct (beqb c BSL_).
    + destruct r as [|e0 r']; [discriminate|].
      destruct (quoted_body r') as [[a' rest']|] eqn:E; [|discriminate].
      inversion H; subst. apply IH in E; simpl in *; lia.
    + destruct (quoted_body r) as [[a' rest']|] eqn:E; [|discriminate].
      inversion H; subst. apply IH in E; simpl in *; lia.
Qed.

(* ---------------------------------------------------------------------------------------- *)
(* symbolic execution                                                                        *)

Create HintDb specdb discriminated.
Lemma spec_fail {A} : spec (fun _ : A => 0) 0 fail.
Proof. intro s. unfold fail, post. lia. Qed.
Lemma spec_expect_fail {A} : spec (fun _ : A => 0) 0 expect_fail.
Proof. intro s. unfold expect_fail, post. rewrite w_set_err. lia. Qed.
#[export] Hint Resolve spec_fail spec_expect_fail : specdb.
#[export] Hint Resolve spec_ret spec_note_depth spec_emit spec_mark_err spec_err_is_set
  spec_special spec_sp spec_func spec_discard_until spec_out_of_fuel spec_crash : specdb.

Ltac fin :=
  cbv beta iota delta [gopt gbool] in *;
  first [ lia
        | repeat match goal with |- context [match ?x with _ => _ end] => destruct x end; lia ].

Ltac find_spec :=
  cbv beta;
  lazymatch goal with
  | |- spec _ _ (with_fuel _) => eapply spec_with_fuel; intro; find_spec
  | |- _ => solve [eauto 3 with specdb nocore]
  end.

Lemma post_bind_ret {A B} (v : A) (q : A -> P B) (Q : B -> nat) e s0 s1 :
  post Q e s0 (q v s1) -> post Q e s0 (bind (ret v) q s1).
Proof. auto. Qed.

Ltac step :=
  lazymatch goal with
  | |- post _ _ _ (bind tick _ _) => apply post_tick; intros ? ?
  | |- post _ _ _ (bind (ret _) _ _) => apply post_bind_ret; cbv beta
  | |- post _ _ _ (bind (bind _ _) _ _) => apply post_assoc
  | |- post _ _ _ (bind (if ?b then _ else _) _ _) => destruct b
  | |- post _ _ _ (bind (match ?o with _ => _ end) _ _) => destruct o
  | |- post _ _ _ (bind _ _ _) =>
      eapply post_bind; [ find_spec | intros ? ?; fin | intros ? ? ? ]
  | |- post _ _ _ ((if ?b then _ else _) _) => destruct b
  | |- post _ _ _ ((match ?o with _ => _ end) _) => destruct o
  | |- post _ _ _ (ret _ _) => apply post_ret; fin
  | |- post _ _ _ (fail _) => apply post_fail; fin
  | |- post _ _ _ (expect_fail _) => apply post_expect_fail; fin
  | |- post _ _ _ (crash _) => exact I
  | |- post _ _ _ (out_of_fuel _) => exact I
  | |- post _ _ _ (_ _) =>
      eapply post_tail; [ find_spec | intros ? ?; fin | intros ? ? ?; fin ]
  end.

Ltac run := cbv zeta; repeat step.
Ltac go := intro; run.

Lemma spec_expect_special c : spec (fun _ => 2) 0 (expect_special c).
Proof. unfold expect_special. go. Qed.
#[export] Hint Resolve spec_expect_special : specdb.

Lemma spec_expect_sp : spec (fun _ => 0) 0 expect_sp.
Proof. unfold expect_sp. go. Qed.
#[export] Hint Resolve spec_expect_sp : specdb.

Lemma spec_crlf : spec (gbool 2) 0 crlf.
Proof. unfold crlf. go. Qed.
#[export] Hint Resolve spec_crlf : specdb.

Lemma spec_expect_crlf : spec (fun _ => 2) 0 expect_crlf.
Proof. unfold expect_crlf. go. Qed.
#[export] Hint Resolve spec_expect_crlf : specdb.

Lemma spec_atom : spec (gopt 2) 0 atom.
Proof. apply spec_func. Qed.
Lemma spec_text : spec (gopt 2) 0 text.
Proof. apply spec_func. Qed.
#[export] Hint Resolve spec_atom spec_text : specdb.

Lemma spec_expect_atom : spec (fun _ => 2) 0 expect_atom.
Proof. unfold expect_atom. go. Qed.
#[export] Hint Resolve spec_expect_atom : specdb.

Lemma spec_expect_nil : spec (fun _ => 2) 0 expect_nil.
Proof. unfold expect_nil. go. Qed.
#[export] Hint Resolve spec_expect_nil : specdb.

Lemma spec_uint b : spec (gopt 2) 0 (uint b).
Proof. unfold uint. go. Qed.
#[export] Hint Resolve spec_uint : specdb.

Lemma spec_number : spec (gopt 2) 0 number.
Proof. apply spec_uint. Qed.
Lemma spec_number64 : spec (gopt 2) 0 number64.
Proof. apply spec_uint. Qed.
Lemma spec_modseq : spec (gopt 2) 0 modseq.
Proof. apply spec_uint. Qed.
#[export] Hint Resolve spec_number spec_number64 spec_modseq : specdb.

Lemma spec_expect_of {A} (p : P (option A)) g e :
  spec (gopt g) e p -> spec (fun _ => g) e (expect_of p).
Proof. intro H. unfold expect_of. go. Qed.

Lemma spec_expect_number : spec (fun _ => 2) 0 expect_number.
Proof. apply spec_expect_of, spec_number. Qed.
Lemma spec_expect_number64 : spec (fun _ => 2) 0 expect_number64.
Proof. apply spec_expect_of, spec_number64. Qed.
Lemma spec_expect_modseq : spec (fun _ => 2) 0 expect_modseq.
Proof. apply spec_expect_of, spec_modseq. Qed.
#[export] Hint Resolve spec_expect_number spec_expect_number64 spec_expect_modseq : specdb.

Lemma spec_expect_body_fld_octets : spec (fun _ => 2) 0 expect_body_fld_octets.
Proof. unfold expect_body_fld_octets. go. Qed.
#[export] Hint Resolve spec_expect_body_fld_octets : specdb.

Lemma spec_quoted_tail :
  spec (fun _ => 0) 0
    (fun s => match quoted_body (s_in s) with
              | Some (a, rest) => Ok (Some a) (set_in s rest)
              | None => Ok None (set_err (set_in s []))
              end).
Proof.
  intro s. unfold post. destruct (quoted_body (s_in s)) as [[a rest]|] eqn:E.
  - apply quoted_body_length in E. rewrite w_set_in. unfold w. lia.
  - rewrite w_set_err_in. unfold w. simpl length. lia.
Qed.

Lemma spec_quoted : spec (gopt 2) 0 quoted.
Proof.
  unfold quoted. intro s.
  eapply post_bind; [ apply spec_special | intros ? ?; fin | intros b s2 H ].
  destruct b.
  - pose proof (spec_quoted_tail s2) as Ht. unfold post in *. cbv beta in Ht.
    destruct (quoted_body (s_in s2)) as [[a rest]|]; fin.
  - run.
Qed.
#[export] Hint Resolve spec_quoted : specdb.

Lemma spec_literal_tail size :
  spec (fun _ => 0) 0
    (fun s => let l := s_in s in
              if (N.of_nat (length l) <=? size)%N then Ok (Some l) (set_in s [])
              else Ok (Some (firstn (N.to_nat size) l)) (set_in s (skipn (N.to_nat size) l))).
Proof.
  intro s. unfold post. cbv zeta. destruct (N.of_nat (length (s_in s)) <=? size)%N.
  - rewrite w_set_in. unfold w. simpl length. lia.
  - rewrite w_set_in. unfold w. rewrite skipn_length. lia.
Qed.

Lemma spec_literal : spec (gopt 2) 0 literal.
Proof.
  unfold literal. intro s.
  eapply post_bind; [ apply spec_special | intros ? ?; fin | intros b s2 H ].
  destruct b; [| run].
  eapply post_bind; [ apply spec_number64 | intros ? ?; fin | intros n s3 H3 ].
  destruct n; [| run].
  eapply post_bind; [ apply spec_special | intros ? ?; fin | intros c s4 H4 ].
  destruct c; [| run].
  eapply post_bind; [ apply spec_crlf | intros ? ?; fin | intros e s5 H5 ].
  destruct e; [| run].
  pose proof (spec_literal_tail n s5) as Ht. unfold post in *. cbv beta zeta in *.
  destruct (N.of_nat (length (s_in s5)) <=? n)%N; fin.
Qed.
#[export] Hint Resolve spec_literal : specdb.

Lemma spec_string_ : spec (gopt 2) 0 string_.
Proof. unfold string_. go. Qed.
#[export] Hint Resolve spec_string_ : specdb.

Lemma spec_expect_string : spec (fun _ => 2) 0 expect_string.
Proof. apply spec_expect_of, spec_string_. Qed.
#[export] Hint Resolve spec_expect_string : specdb.

Lemma spec_expect_astring : spec (fun _ => 2) 0 expect_astring.
Proof. unfold expect_astring. go. Qed.
#[export] Hint Resolve spec_expect_astring : specdb.

Lemma spec_expect_nstring : spec (fun _ => 2) 0 expect_nstring.
Proof. unfold expect_nstring. go. Qed.
#[export] Hint Resolve spec_expect_nstring : specdb.

Lemma spec_expect_nstring_reader : spec (fun _ => 2) 0 expect_nstring_reader.
Proof. unfold expect_nstring_reader. go. Qed.
#[export] Hint Resolve spec_expect_nstring_reader : specdb.

Lemma spec_expect_mailbox : spec (fun _ => 2) 0 expect_mailbox.
Proof. unfold expect_mailbox. go. Qed.
#[export] Hint Resolve spec_expect_mailbox : specdb.

Lemma spec_expect_numset : spec (fun _ => 2) 0 expect_numset.
Proof. unfold expect_numset. go. Qed.
#[export] Hint Resolve spec_expect_numset : specdb.

(* lists: the item must gain at least one unit (it consumes a byte) to pay for the tick of its
   iteration; the "(" pays for two unpaid ticks at a failure *)
Lemma spec_list_items {A} (item : P A) Qi ei :
  spec Qi ei item -> (forall v, 1 <= Qi v) ->
  forall k acc, spec (fun _ => 2) (S ei) (list_items k item acc).
Proof.
  intros Hi Hq. induction k; intro acc; [apply spec_out_of_fuel|].
  cbn [list_items]. intro s.
  apply post_tick; intros s1 H1.
  eapply post_bind; [ exact Hi | intros ? ?; fin | intros x s2 H2 ].
  specialize (Hq x). run.
Qed.

Lemma spec_plist {A} ld (item : nat -> P A) Qi ei :
  (forall d, spec Qi ei (item d)) -> (forall v, 1 <= Qi v) ->
  spec (gopt 2) (ei - 1) (plist ld item).
Proof.
  intros Hi Hq. unfold plist. intro s.
  pose proof (fun d => spec_list_items (item d) Qi ei (Hi d) Hq) as Hl.
  run.
Qed.

Lemma spec_expect_list {A} ld (item : nat -> P A) Qi ei :
  (forall d, spec Qi ei (item d)) -> (forall v, 1 <= Qi v) ->
  spec (fun _ => 2) (ei - 1) (expect_list ld item).
Proof.
  intros Hi Hq. unfold expect_list. intro s.
  pose proof (spec_plist ld item Qi ei Hi Hq). run.
Qed.

Lemma spec_expect_nlist {A} ld (item : nat -> P A) Qi ei :
  (forall d, spec Qi ei (item d)) -> (forall v, 1 <= Qi v) ->
  spec (fun _ => 2) (ei - 1) (expect_nlist ld item).
Proof.
  intros Hi Hq. unfold expect_nlist. intro s.
  pose proof (spec_expect_list ld item Qi ei Hi Hq). run.
Qed.

Ltac find_spec ::=
  cbv beta;
  lazymatch goal with
  | |- spec _ _ (with_fuel _) => eapply spec_with_fuel; intro; find_spec
  | |- spec _ _ (plist _ _) => first [ eassumption | eapply spec_plist; [ intro; find_spec | intro; fin ] ]
  | |- spec _ _ (expect_list _ _) => first [ eassumption | eapply spec_expect_list; [ intro; find_spec | intro; fin ] ]
  | |- spec _ _ (expect_nlist _ _) => first [ eassumption | eapply spec_expect_nlist; [ intro; find_spec | intro; fin ] ]
  | |- _ => solve [eauto 3 with specdb nocore]
  end.

Lemma spec_discard_value f : forall ld rd, spec (fun _ => 1) 1 (discard_value f ld rd).
Proof.
  induction f; intros ld rd; [apply spec_out_of_fuel|].
  cbn [discard_value]. go.
Qed.
#[export] Hint Resolve spec_discard_value : specdb.

Lemma spec_discard_value_top ld rd : spec (fun _ => 1) 1 (discard_value_top ld rd).
Proof. unfold discard_value_top. apply spec_with_fuel. intro. apply spec_discard_value. Qed.
#[export] Hint Resolve spec_discard_value_top : specdb.

Lemma spec_discard_values k : forall ld rd, spec (fun _ => 0) 2 (discard_values k ld rd).
Proof.
  induction k; intros ld rd; [apply spec_out_of_fuel|].
  cbn [discard_values]. go.
Qed.
#[export] Hint Resolve spec_discard_values : specdb.

Lemma spec_expect_datetime : spec (fun _ => 2) 0 expect_datetime.
Proof. unfold expect_datetime. go. Qed.
#[export] Hint Resolve spec_expect_datetime : specdb.

Lemma spec_expect_flag : spec (fun _ => 2) 0 expect_flag.
Proof. unfold expect_flag. go. Qed.
#[export] Hint Resolve spec_expect_flag : specdb.

Lemma spec_expect_flag_list ld : spec (fun _ => 2) 0 (expect_flag_list ld).
Proof. unfold expect_flag_list. intro s. eapply post_tail; [ find_spec | intros ? ?; fin | intros ? ? ?; fin ]. Qed.
#[export] Hint Resolve spec_expect_flag_list : specdb.

Lemma spec_expect_mailbox_attr : spec (fun _ => 2) 0 expect_mailbox_attr.
Proof. unfold expect_mailbox_attr. go. Qed.
#[export] Hint Resolve spec_expect_mailbox_attr : specdb.

Lemma spec_read_caps k : forall acc, spec (fun _ => 0) 1 (read_caps k acc).
Proof.
  induction k; intro acc; [apply spec_out_of_fuel|].
  cbn [read_caps]. go.
Qed.
#[export] Hint Resolve spec_read_caps : specdb.

Lemma spec_read_capabilities : spec (fun _ => 0) 1 read_capabilities.
Proof. unfold read_capabilities. find_spec. Qed.
#[export] Hint Resolve spec_read_capabilities : specdb.

Lemma spec_read_address : spec (fun _ => 2) 0 read_address.
Proof. unfold read_address. go. Qed.
#[export] Hint Resolve spec_read_address : specdb.

Lemma spec_read_address_list ld : spec (fun _ => 2) 0 (read_address_list ld).
Proof. unfold read_address_list. intro s. eapply post_tail; [ find_spec | intros ? ?; fin | intros ? ? ?; fin ]. Qed.
#[export] Hint Resolve spec_read_address_list : specdb.

Lemma spec_read_envelope ld : spec (fun _ => 2) 0 (read_envelope ld).
Proof. unfold read_envelope. go. Qed.
#[export] Hint Resolve spec_read_envelope : specdb.

Lemma spec_read_body_fld_param ld : spec (fun _ => 2) 0 (read_body_fld_param ld).
Proof. unfold read_body_fld_param. go. Qed.
#[export] Hint Resolve spec_read_body_fld_param : specdb.

Lemma spec_read_body_fld_dsp ld : spec (fun _ => 2) 0 (read_body_fld_dsp ld).
Proof. unfold read_body_fld_dsp. go. Qed.
#[export] Hint Resolve spec_read_body_fld_dsp : specdb.

Lemma spec_read_body_fld_lang ld : spec (fun _ => 2) 0 (read_body_fld_lang ld).
Proof. unfold read_body_fld_lang. go. Qed.
#[export] Hint Resolve spec_read_body_fld_lang : specdb.

Lemma spec_read_body_ext_tail ld : spec (fun _ => 0) 0 (read_body_ext_tail ld).
Proof. unfold read_body_ext_tail. go. Qed.
#[export] Hint Resolve spec_read_body_ext_tail : specdb.

Lemma spec_read_body_ext_1part ld : spec (fun _ => 2) 0 (read_body_ext_1part ld).
Proof. unfold read_body_ext_1part. go. Qed.
Lemma spec_read_body_ext_mpart ld : spec (fun _ => 2) 0 (read_body_ext_mpart ld).
Proof. unfold read_body_ext_mpart. go. Qed.
#[export] Hint Resolve spec_read_body_ext_1part spec_read_body_ext_mpart : specdb.

Lemma spec_read_body f : forall ld bd rd, spec (fun _ => 1) 1 (read_body f ld bd rd).
Proof.
  induction f; intros ld bd rd; [apply spec_out_of_fuel|].
  cbn [read_body].
  match goal with
  | |- context [bind (with_fuel (fun k => ?F k [])) _] =>
      assert (Hch : forall k acc, spec (fun _ => 0) 2 (F k acc))
  end.
  { induction k; intro acc; [apply spec_out_of_fuel|].
    intro s. cbv beta iota. run. }
  go.
Qed.
#[export] Hint Resolve spec_read_body : specdb.

Lemma spec_read_body_top ld : spec (fun _ => 1) 1 (read_body_top ld).
Proof. unfold read_body_top. find_spec. Qed.
#[export] Hint Resolve spec_read_body_top : specdb.

Lemma spec_read_section_part k : forall acc, spec (fun _ => 0) 0 (read_section_part k acc).
Proof.
  induction k; intro acc; [apply spec_out_of_fuel|].
  cbn [read_section_part]. go.
Qed.
#[export] Hint Resolve spec_read_section_part : specdb.

Lemma spec_section_part : spec (fun _ => 0) 0 section_part.
Proof. unfold section_part. find_spec. Qed.
#[export] Hint Resolve spec_section_part : specdb.

Lemma spec_read_partial_offset : spec (fun _ => 0) 0 read_partial_offset.
Proof. unfold read_partial_offset. go. Qed.
#[export] Hint Resolve spec_read_partial_offset : specdb.

Lemma spec_read_section_spec ld : spec (fun _ => 2) 0 (read_section_spec ld).
Proof. unfold read_section_spec. go. Qed.
#[export] Hint Resolve spec_read_section_spec : specdb.

Lemma spec_read_msg_att : spec (fun _ => 2) 0 read_msg_att.
Proof. unfold read_msg_att. go. Qed.
#[export] Hint Resolve spec_read_msg_att : specdb.

Lemma spec_fetch_item : spec (fun _ => 2) 0 (it <- read_msg_att ;; emit (EvFetchItem it)).
Proof. go. Qed.
#[export] Hint Resolve spec_fetch_item : specdb.

Lemma spec_handle_fetch seq : spec (fun _ => 0) 0 (handle_fetch seq).
Proof. unfold handle_fetch. go. Qed.
#[export] Hint Resolve spec_handle_fetch : specdb.

Lemma spec_search_nums k : spec (fun _ => 0) 1 (search_nums k).
Proof.
  induction k; [apply spec_out_of_fuel|].
  cbn [search_nums]. go.
Qed.
#[export] Hint Resolve spec_search_nums : specdb.

Lemma spec_handle_search : spec (fun _ => 0) 1 handle_search.
Proof. unfold handle_search. apply spec_with_fuel. apply spec_search_nums. Qed.
#[export] Hint Resolve spec_handle_search : specdb.

Lemma spec_esearch_items k : forall name d, spec (fun _ => 0) 2 (esearch_items k name d).
Proof.
  induction k; intros name d; [apply spec_out_of_fuel|].
  cbn [esearch_items]. go.
Qed.
#[export] Hint Resolve spec_esearch_items : specdb.

Lemma spec_read_esearch : spec (fun _ => 0) 0 read_esearch.
Proof. unfold read_esearch. go. Qed.
#[export] Hint Resolve spec_read_esearch : specdb.

Lemma spec_handle_esearch : spec (fun _ => 0) 0 handle_esearch.
Proof. unfold handle_esearch. go. Qed.
#[export] Hint Resolve spec_handle_esearch : specdb.

Lemma spec_sort_nums k : spec (fun _ => 0) 1 (sort_nums k).
Proof.
  induction k; [apply spec_out_of_fuel|].
  cbn [sort_nums]. go.
Qed.
#[export] Hint Resolve spec_sort_nums : specdb.

Lemma spec_handle_sort : spec (fun _ => 0) 1 handle_sort.
Proof. unfold handle_sort. apply spec_with_fuel. apply spec_sort_nums. Qed.
#[export] Hint Resolve spec_handle_sort : specdb.

Lemma spec_read_thread_list f : forall ld rd, spec (fun _ => 1) 1 (read_thread_list f ld rd).
Proof.
  induction f; intros ld rd; [apply spec_out_of_fuel|].
  cbn [read_thread_list].
  match goal with
  | |- context [with_fuel (fun k => ?F k [] [])] =>
      assert (Hit : forall k chain subs, spec (fun _ => 2) 2 (F k chain subs))
  end.
  { induction k; intros chain subs; [apply spec_out_of_fuel|].
    intro s. cbv beta iota. run. }
  go.
Qed.
#[export] Hint Resolve spec_read_thread_list : specdb.

Lemma spec_thread_lists k : spec (fun _ => 0) 2 (thread_lists k).
Proof.
  induction k; [apply spec_out_of_fuel|].
  cbn [thread_lists]. go.
Qed.
#[export] Hint Resolve spec_thread_lists : specdb.

Lemma spec_handle_thread : spec (fun _ => 0) 2 handle_thread.
Proof. unfold handle_thread. apply spec_with_fuel. apply spec_thread_lists. Qed.
#[export] Hint Resolve spec_handle_thread : specdb.

Lemma spec_read_delim : spec (fun _ => 2) 0 read_delim.
Proof. unfold read_delim. go. Qed.
#[export] Hint Resolve spec_read_delim : specdb.

Lemma spec_read_list_ext_item : spec (fun _ => 2) 0 read_list_ext_item.
Proof. unfold read_list_ext_item. go. Qed.
#[export] Hint Resolve spec_read_list_ext_item : specdb.

Lemma spec_handle_list : spec (fun _ => 2) 0 handle_list.
Proof. unfold handle_list. go. Qed.
#[export] Hint Resolve spec_handle_list : specdb.

Lemma spec_read_status_att : spec (fun _ => 2) 0 read_status_att.
Proof. unfold read_status_att. go. Qed.
#[export] Hint Resolve spec_read_status_att : specdb.

Lemma spec_handle_status : spec (fun _ => 2) 0 handle_status.
Proof. unfold handle_status. go. Qed.
#[export] Hint Resolve spec_handle_status : specdb.

Lemma spec_read_namespace_descr : spec (fun _ => 2) 0 read_namespace_descr.
Proof. unfold read_namespace_descr. go. Qed.
#[export] Hint Resolve spec_read_namespace_descr : specdb.

Lemma spec_read_namespace : spec (fun _ => 2) 0 read_namespace.
Proof. unfold read_namespace. intro s. eapply post_tail; [ find_spec | intros ? ?; fin | intros ? ? ?; fin ]. Qed.
#[export] Hint Resolve spec_read_namespace : specdb.

Lemma spec_handle_namespace : spec (fun _ => 2) 0 handle_namespace.
Proof. unfold handle_namespace. go. Qed.
#[export] Hint Resolve spec_handle_namespace : specdb.

Lemma spec_quota_item :
  spec (fun _ => 2) 0
    (name <- expect_atom ;; expect_sp ;;;
     usage <- expect_number64 ;; expect_sp ;;;
     limit <- expect_number64 ;;
     ret (name, usage, limit)).
Proof. go. Qed.
#[export] Hint Resolve spec_quota_item : specdb.

Lemma spec_handle_quota : spec (fun _ => 2) 0 handle_quota.
Proof. unfold handle_quota. go. Qed.
#[export] Hint Resolve spec_handle_quota : specdb.

Lemma spec_quota_roots k : forall acc, spec (fun _ => 0) 1 (quota_roots k acc).
Proof.
  induction k; intro acc; [apply spec_out_of_fuel|].
  cbn [quota_roots]. go.
Qed.
#[export] Hint Resolve spec_quota_roots : specdb.

Lemma spec_handle_quotaroot : spec (fun _ => 2) 0 handle_quotaroot.
Proof. unfold handle_quotaroot. go. Qed.
#[export] Hint Resolve spec_handle_quotaroot : specdb.

Lemma spec_metadata_entries k : forall acc, spec (fun _ => 0) 1 (metadata_entries k acc).
Proof.
  induction k; intro acc; [apply spec_out_of_fuel|].
  cbn [metadata_entries]. go.
Qed.
#[export] Hint Resolve spec_metadata_entries : specdb.

Lemma spec_metadata_item :
  spec (fun _ => 2) 0
    (name <- expect_astring ;; expect_sp ;;;
     v <- string_ ;;
     match v with
     | Some b => ret (name, Some b)
     | None =>
         v2 <- literal ;;
         match v2 with
         | Some b => ret (name, Some b)
         | None => expect_nil ;;; ret (name, None)
         end
     end).
Proof. go. Qed.
#[export] Hint Resolve spec_metadata_item : specdb.

Lemma spec_handle_metadata : spec (fun _ => 2) 0 handle_metadata.
Proof. unfold handle_metadata. go. Qed.
#[export] Hint Resolve spec_handle_metadata : specdb.

Lemma spec_read_copyuid : spec (fun _ => 2) 0 read_copyuid.
Proof. unfold read_copyuid. go. Qed.
#[export] Hint Resolve spec_read_copyuid : specdb.

Lemma spec_read_other_code : spec (fun _ => 0) 0 read_other_code.
Proof. unfold read_other_code. go. Qed.
#[export] Hint Resolve spec_read_other_code : specdb.

Lemma spec_read_tagged_code name : spec (fun _ => 0) 1 (read_tagged_code name).
Proof. unfold read_tagged_code. go. Qed.
Lemma spec_read_untagged_code name : spec (fun _ => 0) 1 (read_untagged_code name).
Proof. unfold read_untagged_code. go. Qed.
#[export] Hint Resolve spec_read_tagged_code spec_read_untagged_code : specdb.

Lemma spec_read_resp_text cr :
  (forall name, spec (fun _ => 0) 1 (cr name)) -> spec (fun _ => 0) 0 (read_resp_text cr).
Proof. intro Hcr. unfold read_resp_text. go. Qed.

Lemma spec_read_response_tagged tags tag typ : spec (fun _ => 0) 0 (read_response_tagged tags tag typ).
Proof.
  unfold read_response_tagged. pose proof (spec_read_resp_text _ spec_read_tagged_code). go.
Qed.
#[export] Hint Resolve spec_read_response_tagged : specdb.

Lemma spec_read_response_data typ0 : spec (fun _ => 0) 2 (read_response_data typ0).
Proof.
  unfold read_response_data. pose proof (spec_read_resp_text _ spec_read_untagged_code). go.
Qed.
#[export] Hint Resolve spec_read_response_data : specdb.

Lemma spec_read_continue_req : spec (fun _ => 0) 0 read_continue_req.
Proof. unfold read_continue_req. go. Qed.
#[export] Hint Resolve spec_read_continue_req : specdb.

Lemma spec_read_response tags : spec (fun _ => 2) 0 (read_response tags).
Proof. unfold read_response. go. Qed.
#[export] Hint Resolve spec_read_response : specdb.

Lemma spec_read_loop k : forall tags, spec (fun _ => 0) 1 (read_loop k tags).
Proof.
  induction k; intro tags; [apply spec_out_of_fuel|].
  cbn [read_loop]. intro s. destruct (s_in s).
  - unfold post. lia.
  - run.
Qed.

End Ticks.

Theorem ticks_linear : forall tags input s, final_state (read_stream tags input) = Some s ->
  (s_ticks s <= 2 * length input + 2)%nat.
Proof.
  intros tags input s H. unfold read_stream in H.
  pose proof (Ticks.spec_read_loop (S (length input)) tags (init_st input)) as Hs.
  unfold Ticks.post in Hs.
  destruct (read_loop (S (length input)) tags (init_st input)); simpl in H; inversion H; subst;
    unfold Ticks.w in Hs; simpl in Hs; lia.
Qed.

Print Assumptions ticks_linear.
