(* Proofs/RespEnvProofs.v — C03: the envelope written by the server is read back by the client
   as its normal form (imapserver writeEnvelope / writeAddressList, imapclient readEnvelope /
   readAddressList / readAddress). *)
From GoImap.Base Require Import Bytes.
From GoImap.Model Require Import NumSet MatchList Utf7 Wire Resp RespFetch RespCmd.
From GoImap.Proofs Require Import Utf7Spec WireSpec WireLemmas WireProofs RespSpec.
Open Scope N_scope.

(* ---------------------------------------------------------------------------------------- *)
(* writers: inversion of concatenations                                                      *)

Lemma wcat_some : forall a b bs, a +++ b = Some bs ->
  exists x y, a = Some x /\ b = Some y /\ bs = x ++ y.
Proof.
  intros [x|] [y|] bs H; unfold wcat in H; try discriminate.
  injection H as <-. exists x, y. repeat split.
Qed.

Lemma wcat_ws : forall t b bs, ws t +++ b = Some bs -> exists y, b = Some y /\ bs = s2b t ++ y.
Proof.
  intros t [y|] bs H; unfold wcat, ws in H; [|discriminate].
  injection H as <-. exists y. split; reflexivity.
Qed.

Lemma wcat_ws_r : forall a t bs, a +++ ws t = Some bs -> exists y, a = Some y /\ bs = y ++ s2b t.
Proof.
  intros [y|] t bs H; unfold wcat, ws in H; [|discriminate].
  injection H as <-. exists y. split; reflexivity.
Qed.

Lemma fits_int64_of : forall s, fits s = true -> fits_int64 s.
Proof. intros s H. unfold fits in H. unfold fits_int64. apply N.ltb_lt. exact H. Qed.

(* ---------------------------------------------------------------------------------------- *)
(* header text                                                                                *)

Lemma hide_words_id : forall s, contains_eqq s = false -> hide_words s = s.
Proof. intros s H. unfold hide_words. rewrite H. reflexivity. Qed.

Lemma decode_header_text : forall x s, ext_ok x -> decode_text x (header_text x s) = s.
Proof.
  intros x s Hx. unfold header_text. destruct (needs_encoding s) eqn:E.
  - apply (xo_qword x Hx). exact E.
  - destruct (contains_eqq s) eqn:C.
    + apply (xo_hide x Hx). exact C.
    + rewrite hide_words_id by exact C. unfold decode_text. rewrite C. reflexivity.
Qed.

(* ---------------------------------------------------------------------------------------- *)
(* separators                                                                                 *)

(* a byte that can follow the SP between two items: Decoder.SP refuses SP CR / SP LF, and an
   item never starts with ")" *)
Definition okb (c : byte) : bool := negb (beqb c CR_ || beqb c LF_ || beqb c (ch ")")).
Definition okfirst (bs : bytes) : Prop := match bs with c :: _ => okb c = true | [] => False end.

Lemma okfirst_app : forall a b, okfirst a -> okfirst (a ++ b).
Proof. intros [|c a] b H; [contradiction|exact H]. Qed.

Lemma okfirst_nonnil : forall a, okfirst a -> (1 <= length a)%nat.
Proof. intros [|c a] H; [contradiction|]. cbn [length]. lia. Qed.

Lemma dec_sp_ok : forall c r, okb c = true -> dec_sp (SP_ :: c :: r) = DOk tt (c :: r).
Proof.
  intros c r H. unfold okb in H. apply negb_true_iff in H. apply orb_false_iff in H.
  destruct H as [H _]. unfold dec_sp. change (beqb SP_ SP_) with true. cbv iota.
  rewrite H. reflexivity.
Qed.

Lemma ex_sp_app : forall bs rest, okfirst bs -> ex_sp (s2b " " ++ bs ++ rest) = DOk tt (bs ++ rest).
Proof.
  intros [|c t] rest H; [contradiction|]. unfold ex_sp.
  change (s2b " " ++ (c :: t) ++ rest) with (SP_ :: c :: t ++ rest).
  rewrite dec_sp_ok by exact H. reflexivity.
Qed.

Lemma ex_special_lp : forall r, ex_special (ch "(") (s2b "(" ++ r) = DOk tt r.
Proof.
  intros r. unfold ex_special. change (s2b "(" ++ r) with (ch "(" :: r).
  rewrite dec_special_hit. reflexivity.
Qed.

Lemma ex_special_rp : forall r, ex_special (ch ")") (s2b ")" ++ r) = DOk tt r.
Proof.
  intros r. unfold ex_special. change (s2b ")" ++ r) with (ch ")" :: r).
  rewrite dec_special_hit. reflexivity.
Qed.

Lemma nonatom_sp : forall r, nonatom (s2b " " ++ r).
Proof. intros r. reflexivity. Qed.
Lemma nonatom_rp : forall r, nonatom (s2b ")" ++ r).
Proof. intros r. reflexivity. Qed.
Lemma delimited_sp : forall r, delimited (s2b " " ++ r).
Proof. intros r. split; reflexivity. Qed.
Lemma delimited_rp : forall r, delimited (s2b ")" ++ r).
Proof. intros r. split; reflexivity. Qed.

(* ---------------------------------------------------------------------------------------- *)
(* strings and nstrings                                                                       *)

Lemma w_string_inv : forall q s bs, w_string q s = Some bs ->
  exists segs, enc_string (scfg q) s = Some segs /\ bs = flatten segs.
Proof.
  unfold w_string. intros q s bs H. destruct (enc_string (scfg q) s) as [segs|]; [|discriminate].
  injection H as <-. exists segs. split; reflexivity.
Qed.

Lemma w_string_first : forall q s bs, w_string q s = Some bs ->
  exists t, bs = DQ_ :: t \/ bs = ch "{" :: t.
Proof.
  intros q s bs H. destruct (w_string_inv _ _ _ H) as (segs & He & ->).
  unfold enc_string in He. destruct (valid_quoted (scfg q) s).
  - injection He as <-. rewrite flatten_single. unfold enc_quoted. eexists. left. reflexivity.
  - destruct (enc_literal_shape _ _ _ He) as (plus & _ & ->). eexists. right. reflexivity.
Qed.

Lemma w_string_okfirst : forall q s bs, w_string q s = Some bs -> okfirst bs.
Proof.
  intros q s bs H. destruct (w_string_first _ _ _ H) as (t & [-> | ->]); reflexivity.
Qed.

Lemma w_string_roundtrip : forall q s bs rest, fits s = true -> w_string q s = Some bs ->
  dec_string false (bs ++ rest) = DOk s rest /\
  dec_astring false (bs ++ rest) = DOk s rest /\
  dec_nstring false (bs ++ rest) = DOk s rest.
Proof.
  intros q s bs rest Hf H. destruct (w_string_inv _ _ _ H) as (segs & He & ->).
  exact (string_roundtrip (scfg q) s segs rest (fits_int64_of _ Hf) He).
Qed.

Lemma w_string_nstr : forall q s bs rest, fits s = true -> w_string q s = Some bs ->
  dec_nstr (bs ++ rest) = DOk s rest.
Proof. intros q s bs rest Hf H. unfold dec_nstr. apply (w_string_roundtrip q s bs rest Hf H). Qed.

Lemma w_string_exstr : forall q s bs rest, fits s = true -> w_string q s = Some bs ->
  ex_string (bs ++ rest) = DOk s rest.
Proof.
  intros q s bs rest Hf H. unfold ex_string.
  destruct (w_string_roundtrip q s bs rest Hf H) as (-> & _). reflexivity.
Qed.

Lemma dec_nstr_nil : forall rest, nonatom rest -> dec_nstr (s2b "NIL" ++ rest) = DOk [] rest.
Proof.
  intros rest H. unfold dec_nstr, dec_nstring.
  rewrite dec_atom_app; [reflexivity|discriminate|reflexivity|exact H].
Qed.

Lemma w_nstring_nstr : forall q s bs rest, fits s = true -> nonatom rest ->
  w_nstring q s = Some bs -> dec_nstr (bs ++ rest) = DOk s rest.
Proof.
  intros q s bs rest Hf Hr H. unfold w_nstring in H. destruct s as [|c s]; cbn [is_nil] in H.
  - injection H as <-. apply dec_nstr_nil. exact Hr.
  - apply (w_string_nstr q); assumption.
Qed.

Lemma w_nstring_okfirst : forall q s bs, w_nstring q s = Some bs -> okfirst bs.
Proof.
  intros q s bs H. unfold w_nstring in H. destruct (is_nil s).
  - injection H as <-. reflexivity.
  - apply (w_string_okfirst q s). exact H.
Qed.

(* ---------------------------------------------------------------------------------------- *)
(* parenthesised lists: Encoder.List against Decoder.List / ExpectList / ExpectNList          *)

Section Lists.
Context {A B : Type} (f : A -> wr) (g : P B) (h : A -> B).

(* what is needed of an item: it does not start with CR, LF or ")" (so it is not empty), and
   its reader consumes exactly its bytes when SP or ")" follows *)
Definition item_ok (a : A) : Prop := forall bs, f a = Some bs ->
  okfirst bs /\ forall rest, delimited rest -> g (bs ++ rest) = DOk (h a) rest.

Lemma w_join_cons2 : forall a b r, w_join f (a :: b :: r) = f a +++ ws " " +++ w_join f (b :: r).
Proof. reflexivity. Qed.

Lemma w_join_first : forall l bs, Forall item_ok l -> l <> [] -> w_join f l = Some bs -> okfirst bs.
Proof.
  intros [|a [|b r]] bs Hall Hn H; [congruence| |].
  - cbn [w_join] in H. inversion Hall as [|? ? Ha _]; subst. apply (Ha bs H).
  - rewrite w_join_cons2 in H. apply wcat_some in H. destruct H as (ba & y & Hfa & _ & ->).
    inversion Hall as [|? ? Ha _]; subst. apply okfirst_app. apply (Ha ba Hfa).
Qed.

Lemma w_join_len : forall l bs, Forall item_ok l -> w_join f l = Some bs -> (length l <= length bs)%nat.
Proof.
  induction l as [|a l IH]; intros bs Hall H; [cbn [length]; lia|].
  inversion Hall as [|? ? Ha Hl]; subst. destruct l as [|b r].
  - cbn [w_join] in H. pose proof (okfirst_nonnil _ (proj1 (Ha bs H))). cbn [length]. lia.
  - rewrite w_join_cons2 in H. apply wcat_some in H. destruct H as (ba & y & Hfa & H & ->).
    apply wcat_ws in H. destruct H as (br & Hr & ->).
    pose proof (okfirst_nonnil _ (proj1 (Ha ba Hfa))). pose proof (IH br Hl Hr) as Hlen.
    rewrite !app_length. cbn [length] in *. lia.
Qed.

Lemma list_items_join : forall l, Forall item_ok l -> l <> [] -> forall fuel bs rest,
  w_join f l = Some bs -> (length l <= fuel)%nat ->
  list_items fuel g (bs ++ s2b ")" ++ rest) = DOk (map h l) rest.
Proof.
  induction l as [|a l IH]; intros Hall Hn fuel bs rest H Hfuel; [congruence|].
  inversion Hall as [|? ? Ha Hl]; subst.
  destruct fuel as [|k]; [cbn [length] in Hfuel; lia|].
  destruct l as [|b r].
  - cbn [w_join] in H. destruct (Ha bs H) as [_ Hg].
    cbn [list_items map]. rewrite (Hg _ (delimited_rp rest)).
    change (s2b ")" ++ rest) with (ch ")" :: rest). rewrite dec_special_hit. reflexivity.
  - rewrite w_join_cons2 in H. apply wcat_some in H. destruct H as (ba & y & Hfa & H & ->).
    apply wcat_ws in H. destruct H as (br & Hr & ->).
    destruct (Ha ba Hfa) as [_ Hg].
    assert (Hbr : okfirst br) by (apply (w_join_first (b :: r)); [exact Hl|discriminate|exact Hr]).
    cbn [list_items]. rewrite <- !app_assoc. rewrite (Hg _ (delimited_sp _)).
    assert (Hmiss : forall t, dec_special (ch ")") (s2b " " ++ t) = DNo (s2b " " ++ t))
      by (intros t; reflexivity).
    rewrite Hmiss.
    assert (Hsp : dec_sp (s2b " " ++ br ++ s2b ")" ++ rest) = DOk tt (br ++ s2b ")" ++ rest)).
    { generalize (ex_sp_app br (s2b ")" ++ rest) Hbr). unfold ex_sp.
      destruct (dec_sp (s2b " " ++ br ++ s2b ")" ++ rest)); cbn [ex]; intros E;
        [exact E|discriminate|discriminate]. }
    rewrite Hsp.
    rewrite (IH Hl ltac:(discriminate) k br rest Hr ltac:(cbn [length] in *; lia)).
    reflexivity.
Qed.

Lemma dec_list_wlist : forall l bs rest, Forall item_ok l -> w_list f l = Some bs ->
  dec_list g (bs ++ rest) = DOk (Some (map h l)) rest.
Proof.
  intros l bs rest Hall H. unfold w_list in H.
  apply wcat_ws in H. destruct H as (y & H & ->).
  apply wcat_ws_r in H. destruct H as (j & Hj & ->).
  rewrite <- !app_assoc. unfold dec_list.
  change (s2b "(" ++ j ++ s2b ")" ++ rest) with (ch "(" :: j ++ s2b ")" ++ rest).
  rewrite dec_special_hit.
  destruct l as [|a l].
  - cbn [w_join] in Hj. injection Hj as <-. cbn [app map].
    change (s2b ")" ++ rest) with (ch ")" :: rest). rewrite dec_special_hit. reflexivity.
  - pose proof (w_join_first (a :: l) j Hall ltac:(discriminate) Hj) as Hfirst.
    pose proof (w_join_len (a :: l) j Hall Hj) as Hlen.
    assert (Hmiss : dec_special (ch ")") (j ++ s2b ")" ++ rest) = DNo (j ++ s2b ")" ++ rest)).
    { destruct j as [|c t]; [contradiction|]. cbn [app]. apply dec_special_miss.
      cbn [okfirst] in Hfirst. unfold okb in Hfirst. apply negb_true_iff in Hfirst.
      apply orb_false_iff in Hfirst. apply Hfirst. }
    rewrite Hmiss.
    rewrite (list_items_join (a :: l) Hall ltac:(discriminate) _ j rest Hj).
    + reflexivity.
    + rewrite app_length. lia.
Qed.

Lemma ex_list_wlist : forall l bs rest, Forall item_ok l -> w_list f l = Some bs ->
  ex_list g (bs ++ rest) = DOk (map h l) rest.
Proof.
  intros l bs rest Hall H. unfold ex_list. rewrite (dec_list_wlist l bs rest Hall H). reflexivity.
Qed.

Lemma w_list_first : forall l bs, w_list f l = Some bs -> exists t, bs = ch "(" :: t.
Proof.
  intros l bs H. unfold w_list in H. apply wcat_ws in H. destruct H as (y & _ & ->).
  exists y. reflexivity.
Qed.

Lemma ex_nlist_wlist : forall l bs rest, Forall item_ok l -> w_list f l = Some bs ->
  ex_nlist g (bs ++ rest) = DOk (map h l) rest.
Proof.
  intros l bs rest Hall H. unfold ex_nlist.
  destruct (w_list_first l bs H) as (t & Ht).
  assert (Hno : dec_atom (bs ++ rest) = DNo (bs ++ rest)).
  { rewrite Ht. cbn [app]. unfold dec_atom. apply dec_func_no. reflexivity. }
  rewrite Hno. apply ex_list_wlist; assumption.
Qed.

Lemma ex_nlist_nil : forall rest, nonatom rest -> ex_nlist g (s2b "NIL" ++ rest) = DOk [] rest.
Proof.
  intros rest H. unfold ex_nlist.
  rewrite dec_atom_app; [reflexivity|discriminate|reflexivity|exact H].
Qed.

End Lists.

Lemma w_list_okfirst : forall A (f : A -> wr) l bs, w_list f l = Some bs -> okfirst bs.
Proof. intros A f l bs H. destruct (w_list_first f l bs H) as (t & ->). reflexivity. Qed.

(* ---------------------------------------------------------------------------------------- *)
(* addresses                                                                                  *)

Lemma sp_nil_sp : forall r, s2b " NIL " ++ r = s2b " " ++ s2b "NIL" ++ s2b " " ++ r.
Proof. reflexivity. Qed.

Lemma address_roundtrip : forall x q a bs rest, ext_ok x -> wf_addr x a = true ->
  w_addr x q a = Some bs -> read_address x (bs ++ rest) = DOk a rest.
Proof.
  intros x q a bs rest Hx Hwf H. unfold wf_addr in Hwf.
  apply andb_true_iff in Hwf. destruct Hwf as [Hwf Fh].
  apply andb_true_iff in Hwf. destruct Hwf as [Fn Fm].
  unfold w_addr in H.
  apply wcat_ws in H. destruct H as (y0 & H & ->).
  apply wcat_some in H. destruct H as (n & y1 & Hn & H & ->).
  apply wcat_ws in H. destruct H as (y2 & H & ->).
  apply wcat_some in H. destruct H as (m & y3 & Hm & H & ->).
  apply wcat_ws in H. destruct H as (y4 & H & ->).
  apply wcat_ws_r in H. destruct H as (h & Hh & ->).
  rewrite <- !app_assoc. unfold read_address.
  rewrite ex_special_lp. cbn [bind].
  rewrite sp_nil_sp.
  rewrite (w_nstring_nstr q _ n _ Fn (nonatom_sp _) Hn). cbn [bind].
  rewrite (ex_sp_app (s2b "NIL")) by reflexivity. cbn [bind].
  rewrite (dec_nstr_nil _ (nonatom_sp _)). cbn [bind].
  rewrite (ex_sp_app m) by exact (w_nstring_okfirst _ _ _ Hm). cbn [bind].
  rewrite (w_nstring_nstr q _ m _ Fm (nonatom_sp _) Hm). cbn [bind].
  rewrite (ex_sp_app h) by exact (w_nstring_okfirst _ _ _ Hh). cbn [bind].
  rewrite (w_nstring_nstr q _ h _ Fh (nonatom_rp _) Hh). cbn [bind].
  rewrite ex_special_rp. cbn [bind].
  rewrite (decode_header_text x _ Hx). destruct a; reflexivity.
Qed.

Lemma w_addr_first : forall x q a bs, w_addr x q a = Some bs -> exists t, bs = ch "(" :: t.
Proof.
  intros x q a bs H. unfold w_addr in H. apply wcat_ws in H. destruct H as (y & _ & ->).
  exists y. reflexivity.
Qed.

Lemma addr_item_ok : forall x q a, ext_ok x -> wf_addr x a = true ->
  item_ok (w_addr x q) (read_address x) (fun a => a) a.
Proof.
  intros x q a Hx Hwf bs H. split.
  - destruct (w_addr_first _ _ _ _ H) as (t & ->). reflexivity.
  - intros rest _. apply (address_roundtrip x q); assumption.
Qed.

Lemma addr_list_roundtrip : forall x q l bs rest, ext_ok x -> wf_addrs x l = true -> nonatom rest ->
  w_addr_list x q l = Some bs -> read_addr_list x (bs ++ rest) = DOk (norm_addrs l) rest.
Proof.
  intros x q l bs rest Hx Hwf Hr H. unfold read_addr_list. destruct l as [l|].
  - cbn [w_addr_list] in H. cbn [wf_addrs] in Hwf.
    rewrite (ex_nlist_wlist (w_addr x q) (read_address x) (fun a => a) l bs rest).
    + cbn [bind]. rewrite map_id. destruct l; reflexivity.
    + apply Forall_forall. intros a Ha. apply addr_item_ok; [exact Hx|].
      rewrite forallb_forall in Hwf. apply Hwf. exact Ha.
    + exact H.
  - cbn [w_addr_list] in H. injection H as <-.
    rewrite (ex_nlist_nil _ _ Hr). reflexivity.
Qed.

Lemma w_addr_list_okfirst : forall x q l bs, w_addr_list x q l = Some bs -> okfirst bs.
Proof.
  intros x q [l|] bs H; cbn [w_addr_list] in H.
  - apply (w_list_okfirst _ _ _ _ H).
  - injection H as <-. reflexivity.
Qed.

(* ---------------------------------------------------------------------------------------- *)
(* the three envelope fields that are parsed by library functions                            *)

Lemma date_field : forall x q t d, ext_ok x ->
  time_is_zero t || (time_ok t && fits (x_fmt_env_date x t)) = true ->
  (if time_is_zero t then ws "NIL" else w_string q (x_fmt_env_date x t)) = Some d ->
  okfirst d /\ forall rest, nonatom rest -> exists v, dec_nstr (d ++ rest) = DOk v rest /\
    x_parse_env_date x v = (if time_is_zero t then zero_time else time_norm t).
Proof.
  intros x q t d Hx Hwf H. destruct (time_is_zero t).
  - injection H as <-. split; [reflexivity|]. intros rest Hr. exists []. split.
    + apply dec_nstr_nil. exact Hr.
    + apply (xo_env_date_nil x Hx).
  - cbn [orb] in Hwf. apply andb_true_iff in Hwf. destruct Hwf as [Hok Hf]. split.
    + apply (w_string_okfirst _ _ _ H).
    + intros rest _. exists (x_fmt_env_date x t). split.
      * apply (w_string_nstr q); assumption.
      * apply (xo_env_date x Hx). exact Hok.
Qed.

Lemma irt_field : forall x q ids d, ext_ok x -> forallb msgid_ok ids = true ->
  fits (LT ++ join_bytes (s2b "> <") ids ++ GT) = true ->
  (if lnil ids then ws "NIL" else w_string q (s2b "<" ++ join_bytes (s2b "> <") ids ++ s2b ">")) = Some d ->
  okfirst d /\ forall rest, nonatom rest -> exists v, dec_nstr (d ++ rest) = DOk v rest /\
    x_msgid_list x v = ids.
Proof.
  intros x q ids d Hx Hok Hf H. destruct ids as [|i r]; cbn [lnil] in H.
  - injection H as <-. split; [reflexivity|]. intros rest Hr. exists []. split.
    + apply dec_nstr_nil. exact Hr.
    + apply (xo_msgid_list_nil x Hx).
  - split.
    + apply (w_string_okfirst _ _ _ H).
    + intros rest _. eexists. split.
      * apply (w_string_nstr q); [exact Hf|exact H].
      * apply (xo_msgid_list x Hx); [discriminate|exact Hok].
Qed.

Lemma mid_field : forall x q id d, ext_ok x ->
  is_nil id || (msgid_ok id && fits (LT ++ id ++ GT)) = true ->
  (if is_nil id then ws "NIL" else w_string q (s2b "<" ++ id ++ s2b ">")) = Some d ->
  okfirst d /\ forall rest, nonatom rest -> exists v, dec_nstr (d ++ rest) = DOk v rest /\
    x_msgid x v = id.
Proof.
  intros x q id d Hx Hwf H. destruct id as [|c id]; cbn [is_nil] in H, Hwf.
  - injection H as <-. split; [reflexivity|]. intros rest Hr. exists []. split.
    + apply dec_nstr_nil. exact Hr.
    + apply (xo_msgid_nil x Hx).
  - cbn [orb] in Hwf. apply andb_true_iff in Hwf. destruct Hwf as [Hok Hf]. split.
    + apply (w_string_okfirst _ _ _ H).
    + intros rest _. eexists. split.
      * apply (w_string_nstr q); [exact Hf|exact H].
      * apply (xo_msgid x Hx). exact Hok.
Qed.

(* ---------------------------------------------------------------------------------------- *)
(* envelope                                                                                   *)

Lemma envelope_roundtrip_some : forall x q e bs rest, ext_ok x -> wf_env x (Some e) = true ->
  w_envelope x q (Some e) = Some bs ->
  read_envelope x (bs ++ rest) = DOk (norm_env (Some e)) rest.
Proof.
  intros x q e bs rest Hx Hwf H. cbn [wf_env] in Hwf.
  apply andb_true_iff in Hwf. destruct Hwf as [Hwf Wmid].
  apply andb_true_iff in Hwf. destruct Hwf as [Hwf Wirtf].
  apply andb_true_iff in Hwf. destruct Hwf as [Hwf Wirt].
  apply andb_true_iff in Hwf. destruct Hwf as [Hwf Wbcc].
  apply andb_true_iff in Hwf. destruct Hwf as [Hwf Wcc].
  apply andb_true_iff in Hwf. destruct Hwf as [Hwf Wto].
  apply andb_true_iff in Hwf. destruct Hwf as [Hwf Wrt].
  apply andb_true_iff in Hwf. destruct Hwf as [Hwf Wsnd].
  apply andb_true_iff in Hwf. destruct Hwf as [Hwf Wfrom].
  apply andb_true_iff in Hwf. destruct Hwf as [Wdate Wsubj].
  assert (Wsnd' : wf_addrs x (match e_sender e with None => e_from e | s => s end) = true)
    by (destruct (e_sender e); assumption).
  assert (Wrt' : wf_addrs x (match e_replyto e with None => e_from e | s => s end) = true)
    by (destruct (e_replyto e); assumption).
  unfold w_envelope in H. cbv zeta in H.
  apply wcat_ws in H. destruct H as (y0 & H & ->).
  apply wcat_some in H. destruct H as (bdate & y1 & Hdate & H & ->).
  apply wcat_ws in H. destruct H as (y2 & H & ->).
  apply wcat_some in H. destruct H as (bsubj & y3 & Hsubj & H & ->).
  apply wcat_ws in H. destruct H as (y4 & H & ->).
  apply wcat_some in H. destruct H as (bfrom & y5 & Hfrom & H & ->).
  apply wcat_ws in H. destruct H as (y6 & H & ->).
  apply wcat_some in H. destruct H as (bsnd & y7 & Hsnd & H & ->).
  apply wcat_ws in H. destruct H as (y8 & H & ->).
  apply wcat_some in H. destruct H as (brt & y9 & Hrt & H & ->).
  apply wcat_ws in H. destruct H as (y10 & H & ->).
  apply wcat_some in H. destruct H as (bto & y11 & Hto & H & ->).
  apply wcat_ws in H. destruct H as (y12 & H & ->).
  apply wcat_some in H. destruct H as (bcc & y13 & Hcc & H & ->).
  apply wcat_ws in H. destruct H as (y14 & H & ->).
  apply wcat_some in H. destruct H as (bbcc & y15 & Hbcc & H & ->).
  apply wcat_ws in H. destruct H as (y16 & H & ->).
  apply wcat_some in H. destruct H as (birt & y17 & Hirt & H & ->).
  apply wcat_ws in H. destruct H as (y18 & H & ->).
  apply wcat_ws_r in H. destruct H as (bmid & Hmid & ->).
  destruct (date_field x q _ _ Hx Wdate Hdate) as [Fdate Rdate].
  destruct (irt_field x q _ _ Hx Wirt Wirtf Hirt) as [Firt Rirt].
  destruct (mid_field x q _ _ Hx Wmid Hmid) as [Fmid Rmid].
  rewrite <- !app_assoc. unfold read_envelope.
  rewrite ex_special_lp. cbn [bind].
  destruct (Rdate _ (nonatom_sp (bsubj ++ s2b " " ++ bfrom ++ s2b " " ++ bsnd ++ s2b " " ++ brt ++
     s2b " " ++ bto ++ s2b " " ++ bcc ++ s2b " " ++ bbcc ++ s2b " " ++ birt ++ s2b " " ++ bmid ++
     s2b ")" ++ rest))) as (vdate & Edate & Pdate).
  rewrite Edate. cbn [bind].
  rewrite (ex_sp_app bsubj) by exact (w_nstring_okfirst _ _ _ Hsubj). cbn [bind].
  rewrite (w_nstring_nstr q _ bsubj _ Wsubj (nonatom_sp _) Hsubj). cbn [bind].
  rewrite (ex_sp_app bfrom) by exact (w_addr_list_okfirst _ _ _ _ Hfrom). cbn [bind].
  rewrite (addr_list_roundtrip x q _ bfrom _ Hx Wfrom (nonatom_sp _) Hfrom). cbn [bind].
  rewrite (ex_sp_app bsnd) by exact (w_addr_list_okfirst _ _ _ _ Hsnd). cbn [bind].
  rewrite (addr_list_roundtrip x q _ bsnd _ Hx Wsnd' (nonatom_sp _) Hsnd). cbn [bind].
  rewrite (ex_sp_app brt) by exact (w_addr_list_okfirst _ _ _ _ Hrt). cbn [bind].
  rewrite (addr_list_roundtrip x q _ brt _ Hx Wrt' (nonatom_sp _) Hrt). cbn [bind].
  rewrite (ex_sp_app bto) by exact (w_addr_list_okfirst _ _ _ _ Hto). cbn [bind].
  rewrite (addr_list_roundtrip x q _ bto _ Hx Wto (nonatom_sp _) Hto). cbn [bind].
  rewrite (ex_sp_app bcc) by exact (w_addr_list_okfirst _ _ _ _ Hcc). cbn [bind].
  rewrite (addr_list_roundtrip x q _ bcc _ Hx Wcc (nonatom_sp _) Hcc). cbn [bind].
  rewrite (ex_sp_app bbcc) by exact (w_addr_list_okfirst _ _ _ _ Hbcc). cbn [bind].
  rewrite (addr_list_roundtrip x q _ bbcc _ Hx Wbcc (nonatom_sp _) Hbcc). cbn [bind].
  rewrite (ex_sp_app birt) by exact Firt. cbn [bind].
  destruct (Rirt _ (nonatom_sp (bmid ++ s2b ")" ++ rest))) as (virt & Eirt & Pirt).
  rewrite Eirt. cbn [bind].
  rewrite (ex_sp_app bmid) by exact Fmid. cbn [bind].
  destruct (Rmid _ (nonatom_rp rest)) as (vmid & Emid & Pmid).
  rewrite Emid. cbn [bind].
  rewrite ex_special_rp. cbn [bind].
  rewrite Pdate, Pirt, Pmid, (decode_header_text x _ Hx).
  reflexivity.
Qed.

Lemma envelope_roundtrip : forall x q e bs rest, ext_ok x -> wf_env x e = true ->
  w_envelope x q e = Some bs -> read_envelope x (bs ++ rest) = DOk (norm_env e) rest.
Proof.
  intros x q [e|] bs rest Hx Hwf H.
  - apply (envelope_roundtrip_some x q); assumption.
  - change (norm_env None) with (norm_env (Some empty_envelope)).
    apply (envelope_roundtrip_some x q); [exact Hx|reflexivity|exact H].
Qed.

Lemma envelope_first : forall x q e bs, w_envelope x q e = Some bs -> exists t, bs = ch "(" :: t.
Proof.
  intros x q e bs H. unfold w_envelope in H. cbv zeta in H.
  apply wcat_ws in H. destruct H as (y & _ & ->). exists y. reflexivity.
Qed.
