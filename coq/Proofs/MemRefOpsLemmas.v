(* Proofs/MemRefOpsLemmas.v — helper lemmas for Proofs/MemRefOps.v (C09): list surgery
   (update_nth, number_from), byte-string equality, flag lists as sets, one static range.  *)
From Coq Require Import Sorting.Sorted.
From Coq Require Import ZifyN ZifyNat ZifyBool.
From GoImap.Base Require Import Bytes.
From GoImap.Model Require Import NumSet MatchList Search MemRefMsg MemRef.
From GoImap.Proofs Require Import NumSetSpec NumSetLemmas NumSetInsert NumSetText NumSetProofs MemRefSpec.
Open Scope N_scope.
Local Opaque canon.

(* ------------------------------------------------------------------ *)
(* sequence sets *)

Lemma static_range_lt : forall mx r, mx < M32 -> wire_range r = true ->
  fst (static_range mx r) < M32 /\ snd (static_range mx r) < M32.
Proof.
  intros mx [a b] Hm Hw. unfold wire_range in Hw. cbn [fst snd] in Hw.
  unfold static_range. cbv zeta.
  repeat match goal with |- context [if ?c then _ else _] => destruct c eqn:? end;
    cbn [fst snd]; lia.
Qed.

Lemma static_range_den : forall mx r q, 0 < mx -> mx < M32 -> 0 < q -> q < M32 ->
  wire_range r = true ->
  rden (norm_range (fst (static_range mx r)) (snd (static_range mx r))) q = range_addresses mx r q.
Proof.
  intros mx [a b] q Hm Hm' Hq Hq' Hw. unfold wire_range in Hw. cbn [fst snd] in Hw.
  unfold range_addresses, star, static_range. cbv zeta. cbn [fst snd].
  destruct (a =? 0) eqn:Ea; destruct (b =? 0) eqn:Eb; cbn [orb andb];
    repeat match goal with |- context [if ?c then _ else _] => destruct c eqn:? end;
    cbn [fst snd]; unfold norm_range;
    repeat match goal with |- context [if ?c then _ else _] => destruct c eqn:? end;
    unfold rden, rcontains;
    repeat match goal with |- context [if ?c then _ else _] => destruct c eqn:? end;
    lia.
Qed.

Lemma add_range_t_spec : forall acc r, canon acc = true -> fst r < M32 -> snd r < M32 ->
  canon (add_range_t acc r) = true /\
  forall q, q < M32 -> den (add_range_t acc r) q = den acc q || rden (norm_range (fst r) (snd r)) q.
Proof.
  intros acc r Hc Ha Hb. unfold add_range_t, add_range.
  destruct (insert_spec acc _ (wf_norm_range _ _ Ha Hb) Hc) as (s' & E & Hc' & Hd).
  rewrite E. split; assumption.
Qed.

Lemma static_fold_spec : forall mx s acc, wire_set s = true -> mx < M32 -> canon acc = true ->
  canon (fold_left (fun acc r => add_range_t acc (static_range mx r)) s acc) = true /\
  forall q, q < M32 ->
    den (fold_left (fun acc r => add_range_t acc (static_range mx r)) s acc) q =
    den acc q || existsb (fun r => rden (norm_range (fst (static_range mx r)) (snd (static_range mx r))) q) s.
Proof.
  intros mx. induction s as [|r s IH]; intros acc Hw Hm Hc.
  - cbn [fold_left existsb]. split; [exact Hc|]. intros q _. rewrite orb_false_r. reflexivity.
  - cbn [wire_set forallb] in Hw. apply andb_true_iff in Hw as [Hr Hw].
    destruct (static_range_lt mx r Hm Hr) as [Ha Hb].
    destruct (add_range_t_spec acc (static_range mx r) Hc Ha Hb) as [Hc1 Hd1].
    destruct (IH (add_range_t acc (static_range mx r)) Hw Hm Hc1) as [Hc2 Hd2].
    cbn [fold_left existsb]. split; [exact Hc2|].
    intros q Hq. rewrite (Hd2 q Hq), (Hd1 q Hq), orb_assoc. reflexivity.
Qed.

(* ------------------------------------------------------------------ *)
(* number_from *)

Lemma number_from_In : forall l i q m, In (q, m) (number_from i l) ->
  i <= q /\ q < i + N.of_nat (length l) /\ nth_error l (N.to_nat (q - i)) = Some m.
Proof.
  induction l as [|a l IH]; intros i q m H; cbn [number_from] in H.
  - destruct H.
  - destruct H as [H|H].
    + inversion H; subst. cbn [length]. replace (N.to_nat (q - q)) with O by lia.
      split; [lia|]. split; [lia|reflexivity].
    + destruct (IH _ _ _ H) as (H1 & H2 & H3). cbn [length].
      replace (N.to_nat (q - i)) with (S (N.to_nat (q - (i + 1)))) by lia.
      split; [lia|]. split; [lia|exact H3].
Qed.

Lemma number_from_snd : forall l i, map snd (number_from i l) = l.
Proof.
  induction l as [|a l IH]; intros i; cbn [number_from map snd]; [reflexivity|].
  rewrite IH. reflexivity.
Qed.

Lemma number_from_length : forall l i, length (number_from i l) = length l.
Proof.
  induction l as [|a l IH]; intros i; cbn [number_from length]; [reflexivity|].
  rewrite IH. reflexivity.
Qed.

Lemma number_from_nth : forall l i k, nth_error (number_from i l) k =
  match nth_error l k with Some m => Some (i + N.of_nat k, m) | None => None end.
Proof.
  induction l as [|a l IH]; intros i k.
  - destruct k; reflexivity.
  - destruct k as [|k]; cbn [number_from nth_error].
    + replace (i + N.of_nat 0) with i by lia. reflexivity.
    + rewrite IH. destruct (nth_error l k); [|reflexivity].
      replace (i + 1 + N.of_nat k) with (i + N.of_nat (S k)) by lia. reflexivity.
Qed.

(* number_from only depends on the list through its elements: mapping commutes *)
Lemma number_from_map : forall (f : mmsg -> mmsg) l i,
  number_from i (map f l) = map (fun sm => (fst sm, f (snd sm))) (number_from i l).
Proof.
  induction l as [|a l IH]; intros i; cbn [number_from map fst snd]; [reflexivity|].
  rewrite IH. reflexivity.
Qed.

(* ------------------------------------------------------------------ *)
(* update_nth *)

Lemma update_nth_length : forall A (f : A -> A) l i, length (update_nth i f l) = length l.
Proof.
  induction l as [|x l IH]; intros i; destruct i; cbn [update_nth length]; auto.
Qed.

Lemma update_nth_other : forall A (f : A -> A) l i j, i <> j ->
  nth_error (update_nth i f l) j = nth_error l j.
Proof.
  induction l as [|x l IH]; intros i j H; destruct i, j; cbn [update_nth nth_error]; auto.
  congruence.
Qed.

Lemma update_nth_same : forall A (f : A -> A) l i x, nth_error l i = Some x ->
  nth_error (update_nth i f l) i = Some (f x).
Proof.
  induction l as [|y l IH]; intros i x H; destruct i; cbn [update_nth nth_error] in *;
    try discriminate.
  - inversion H; reflexivity.
  - auto.
Qed.

(* ------------------------------------------------------------------ *)
(* byte strings *)

Lemma beqb_iff : forall a b, beqb a b = true <-> a = b.
Proof. intros a b. unfold beqb. apply Ascii.eqb_eq. Qed.

Lemma bytes_eqb_iff : forall a b, bytes_eqb a b = true <-> a = b.
Proof.
  induction a as [|x a IH]; intros [|y b]; cbn [bytes_eqb]; split; intros H;
    try reflexivity; try discriminate.
  - apply andb_true_iff in H as [H1 H2]. apply beqb_iff in H1. apply IH in H2. congruence.
  - inversion H; subst. apply andb_true_iff. split; [apply beqb_iff; reflexivity|apply IH; reflexivity].
Qed.

Lemma bytes_eqb_refl : forall a, bytes_eqb a a = true.
Proof. intros a. apply bytes_eqb_iff. reflexivity. Qed.

Lemma bytes_eqb_sym : forall a b, bytes_eqb a b = bytes_eqb b a.
Proof.
  intros a b. destruct (bytes_eqb a b) eqn:E1, (bytes_eqb b a) eqn:E2; try reflexivity.
  - apply bytes_eqb_iff in E1. subst. rewrite bytes_eqb_refl in E2. discriminate.
  - apply bytes_eqb_iff in E2. subst. rewrite bytes_eqb_refl in E1. discriminate.
Qed.

(* ------------------------------------------------------------------ *)
(* flag lists as sets *)

Lemma mem_flag_insert : forall x f l, mem_bytes x (flag_insert f l) = bytes_eqb x f || mem_bytes x l.
Proof.
  intros x f. induction l as [|g l IH]; cbn [flag_insert mem_bytes]; [reflexivity|].
  destruct (bytes_eqb f g) eqn:Efg.
  - apply bytes_eqb_iff in Efg. subst g. cbn [mem_bytes].
    destruct (bytes_eqb x f), (mem_bytes x l); reflexivity.
  - destruct (bytes_ltb f g); cbn [mem_bytes]; [reflexivity|].
    rewrite IH. destruct (bytes_eqb x f), (bytes_eqb x g), (mem_bytes x l); reflexivity.
Qed.

Lemma mem_flag_remove : forall x f l,
  mem_bytes x (flag_remove f l) = mem_bytes x l && negb (bytes_eqb x f).
Proof.
  intros x f. unfold flag_remove. induction l as [|g l IH]; cbn [filter mem_bytes]; [reflexivity|].
  destruct (bytes_eqb f g) eqn:Efg; cbn [negb].
  - apply bytes_eqb_iff in Efg. subst g. rewrite IH.
    destruct (bytes_eqb x f), (mem_bytes x l); reflexivity.
  - cbn [mem_bytes]. rewrite IH. destruct (bytes_eqb x g) eqn:Exg.
    + apply bytes_eqb_iff in Exg. subst g. rewrite bytes_eqb_sym, Efg. reflexivity.
    + reflexivity.
Qed.

Lemma has_flag_add0 : forall fs l f, has_flag f (flags_add fs l) = has_flag f l || flag_in f fs.
Proof.
  unfold flags_add, has_flag, flag_in, canon_flag.
  induction fs as [|a fs IH]; intros l f; cbn [fold_left existsb].
  - rewrite orb_false_r. reflexivity.
  - rewrite IH, mem_flag_insert.
    destruct (bytes_eqb (ascii_lower f) (ascii_lower a)), (mem_bytes (ascii_lower f) l); reflexivity.
Qed.

Lemma has_flag_del0 : forall fs l f, has_flag f (flags_del fs l) = has_flag f l && negb (flag_in f fs).
Proof.
  unfold flags_del, has_flag, flag_in, canon_flag.
  induction fs as [|a fs IH]; intros l f; cbn [fold_left existsb].
  - cbn [negb]. rewrite andb_true_r. reflexivity.
  - rewrite IH, mem_flag_remove.
    destruct (bytes_eqb (ascii_lower f) (ascii_lower a)), (mem_bytes (ascii_lower f) l),
      (existsb (fun g => bytes_eqb (ascii_lower f) (ascii_lower g)) fs); reflexivity.
Qed.

(* ------------------------------------------------------------------ *)
(* last_uid *)

Lemma rev_nil_inv : forall A (l : list A), rev l = [] -> l = [].
Proof.
  intros A l H. apply (f_equal (@rev A)) in H. rewrite rev_involutive in H. exact H.
Qed.

Lemma last_uid_map : forall mb, last_uid mb = last (map mm_uid (mb_msgs mb)) 0.
Proof.
  intros mb. unfold last_uid. destruct (mb_msgs mb) as [|a l] using rev_ind; [reflexivity|].
  rewrite rev_app_distr, map_app. cbn [rev app map]. rewrite last_last. reflexivity.
Qed.

Lemma uid_max_last : forall mb, mb_msgs mb <> [] -> uid_max mb = last_uid mb.
Proof.
  intros mb H. unfold uid_max, last_uid. destruct (rev (mb_msgs mb)) eqn:E; [|reflexivity].
  apply rev_nil_inv in E. contradiction.
Qed.

Lemma last_uid_In : forall mb, mb_msgs mb <> [] -> exists m, In m (mb_msgs mb) /\ last_uid mb = mm_uid m.
Proof.
  intros mb H. unfold last_uid. destruct (rev (mb_msgs mb)) as [|m r] eqn:E.
  - apply rev_nil_inv in E. contradiction.
  - exists m. split; [|reflexivity]. apply in_rev. rewrite E. left. reflexivity.
Qed.

(* ------------------------------------------------------------------ *)
(* canonical flag lists: lower case, strictly sorted (hence duplicate-free).  Every flag list
   the model builds is canonical, and rebuilding a canonical list gives it back. *)

Lemma to_lower_b_idem : forall c, to_lower_b (to_lower_b c) = to_lower_b c.
Proof. intros c. destruct c as [[] [] [] [] [] [] [] []]; vm_compute; reflexivity. Qed.

Lemma ascii_lower_idem : forall f, ascii_lower (ascii_lower f) = ascii_lower f.
Proof.
  intros f. unfold ascii_lower. rewrite map_map. apply map_ext. intros c. apply to_lower_b_idem.
Qed.

Lemma b2n_inj : forall x y, b2n x = b2n y -> x = y.
Proof.
  intros x y H. unfold b2n in H.
  rewrite <- (ascii_N_embedding x), <- (ascii_N_embedding y), H. reflexivity.
Qed.

Lemma bytes_ltb_irrefl : forall a, bytes_ltb a a = false.
Proof.
  induction a as [|x a IH]; cbn [bytes_ltb]; [reflexivity|]. rewrite N.ltb_irrefl. exact IH.
Qed.

Lemma bytes_ltb_trans : forall a b c, bytes_ltb a b = true -> bytes_ltb b c = true -> bytes_ltb a c = true.
Proof.
  induction a as [|x a IH]; intros [|y b] [|z c]; cbn [bytes_ltb]; try discriminate; try reflexivity.
  destruct (N.ltb_spec (b2n x) (b2n y)), (N.ltb_spec (b2n y) (b2n x)),
    (N.ltb_spec (b2n y) (b2n z)), (N.ltb_spec (b2n z) (b2n y)),
    (N.ltb_spec (b2n x) (b2n z)), (N.ltb_spec (b2n z) (b2n x));
    try lia; try discriminate; try reflexivity. apply IH.
Qed.

Lemma bytes_ltb_asym : forall a b, bytes_ltb a b = true -> bytes_ltb b a = false.
Proof.
  intros a b H. destruct (bytes_ltb b a) eqn:E; [|reflexivity].
  pose proof (bytes_ltb_trans _ _ _ H E) as H'. rewrite bytes_ltb_irrefl in H'. discriminate.
Qed.

Lemma bytes_ltb_total : forall a b, bytes_eqb a b = false -> bytes_ltb a b = false -> bytes_ltb b a = true.
Proof.
  induction a as [|x a IH]; intros [|y b]; cbn [bytes_ltb bytes_eqb]; try discriminate; try reflexivity.
  intros He Hl.
  destruct (N.ltb_spec (b2n x) (b2n y)); [discriminate|].
  destruct (N.ltb_spec (b2n y) (b2n x)); [reflexivity|].
  assert (x = y) by (apply b2n_inj; lia). subst y.
  replace (beqb x x) with true in He by (symmetry; apply beqb_iff; reflexivity).
  cbn [andb] in He. apply IH; assumption.
Qed.

Definition flag_list_ok (l : list bytes) : Prop :=
  StronglySorted bytes_lt l /\ Forall (fun f => ascii_lower f = f) l.

Lemma flag_list_ok_nil : flag_list_ok [].
Proof. split; constructor. Qed.

Lemma flag_insert_In : forall f l x, In x (flag_insert f l) -> x = f \/ In x l.
Proof.
  intros f. induction l as [|g l IH]; intros x H; cbn [flag_insert] in H.
  - destruct H as [H|[]]. left. congruence.
  - destruct (bytes_eqb f g); [right; exact H|].
    destruct (bytes_ltb f g).
    + destruct H as [H|H]; [left; congruence|right; exact H].
    + destruct H as [H|H]; [right; left; exact H|].
      destruct (IH _ H) as [E|E]; [left; exact E|right; right; exact E].
Qed.

Lemma flag_insert_ok : forall f l, ascii_lower f = f -> flag_list_ok l -> flag_list_ok (flag_insert f l).
Proof.
  intros f l Hf [Hs Hl]. split.
  - clear Hl. induction l as [|g l IH]; cbn [flag_insert].
    + repeat constructor.
    + inversion Hs as [|? ? Hs' Hg]; subst.
      destruct (bytes_eqb f g) eqn:Eq; [exact Hs|].
      destruct (bytes_ltb f g) eqn:Elt.
      * constructor; [exact Hs|]. constructor; [exact Elt|].
        rewrite Forall_forall in *. intros x Hx. exact (bytes_ltb_trans _ _ _ Elt (Hg x Hx)).
      * constructor; [exact (IH Hs')|].
        rewrite Forall_forall in *. intros x Hx. destruct (flag_insert_In _ _ _ Hx) as [->|Hx'].
        -- exact (bytes_ltb_total _ _ Eq Elt).
        -- exact (Hg x Hx').
  - rewrite Forall_forall in *. intros x Hx. destruct (flag_insert_In _ _ _ Hx) as [->|Hx']; auto.
Qed.

Lemma flag_remove_ok : forall f l, flag_list_ok l -> flag_list_ok (flag_remove f l).
Proof.
  intros f l [Hs Hl]. unfold flag_remove. split.
  - clear Hl. induction l as [|g l IH]; cbn [filter]; [constructor|].
    inversion Hs as [|? ? Hs' Hg]; subst.
    destruct (negb (bytes_eqb f g)); [|exact (IH Hs')].
    constructor; [exact (IH Hs')|]. rewrite Forall_forall in *. intros x Hx.
    apply filter_In in Hx as [Hx _]. exact (Hg x Hx).
  - rewrite Forall_forall in *. intros x Hx. apply filter_In in Hx as [Hx _]. auto.
Qed.

Lemma flags_add_ok : forall fs l, flag_list_ok l -> flag_list_ok (flags_add fs l).
Proof.
  unfold flags_add. induction fs as [|a fs IH]; intros l Hl; cbn [fold_left]; [exact Hl|].
  apply IH. apply flag_insert_ok; [apply ascii_lower_idem|exact Hl].
Qed.

Lemma flags_del_ok : forall fs l, flag_list_ok l -> flag_list_ok (flags_del fs l).
Proof.
  unfold flags_del. induction fs as [|a fs IH]; intros l Hl; cbn [fold_left]; [exact Hl|].
  apply IH. apply flag_remove_ok. exact Hl.
Qed.

Lemma flag_insert_last : forall f acc, Forall (fun g => bytes_lt g f) acc -> flag_insert f acc = acc ++ [f].
Proof.
  intros f. induction acc as [|g acc IH]; intros H; cbn [flag_insert app]; [reflexivity|].
  inversion H as [|? ? Hg H']; subst. unfold bytes_lt in Hg.
  destruct (bytes_eqb f g) eqn:Eq.
  - apply bytes_eqb_iff in Eq. subst g. rewrite bytes_ltb_irrefl in Hg. discriminate.
  - rewrite (bytes_ltb_asym _ _ Hg), (IH H'). reflexivity.
Qed.

Lemma sorted_app_lt : forall (a b : list bytes), StronglySorted bytes_lt (a ++ b) ->
  forall x y, In x a -> In y b -> bytes_lt x y.
Proof.
  induction a as [|g a IH]; intros b Hs x y Hx Hy; [destruct Hx|].
  cbn [app] in Hs. inversion Hs as [|? ? Hs' Hg]; subst. destruct Hx as [->|Hx].
  - rewrite Forall_forall in Hg. apply Hg. apply in_or_app. right. exact Hy.
  - exact (IH b Hs' x y Hx Hy).
Qed.

Lemma flags_add_fixed_gen : forall l acc, StronglySorted bytes_lt (acc ++ l) ->
  Forall (fun f => ascii_lower f = f) l -> flags_add l acc = acc ++ l.
Proof.
  unfold flags_add. induction l as [|f l IH]; intros acc Hs Hl; cbn [fold_left].
  - rewrite app_nil_r. reflexivity.
  - inversion Hl as [|? ? Hf Hl']; subst. unfold canon_flag. rewrite Hf.
    rewrite flag_insert_last.
    + rewrite IH; [rewrite <- app_assoc; reflexivity|rewrite <- app_assoc; exact Hs|exact Hl'].
    + rewrite Forall_forall. intros g Hg. apply (sorted_app_lt acc (f :: l) Hs g f Hg). left. reflexivity.
Qed.

(* rebuilding a canonical flag list changes nothing *)
Lemma flags_add_fixed : forall l, flag_list_ok l -> flags_add l [] = l.
Proof. intros l [Hs Hl]. exact (flags_add_fixed_gen l [] Hs Hl). Qed.
