(* Proofs/ServerConnSpec.v — RFC 9051 state diagram and per-state command permissions,
   written independently of the handlers (no proofs here). *)
From GoImap.Base Require Import Bytes.
From GoImap.Model Require Import ServerConn.

(* RFC 9051 section 6: in which states a command (hence its backend operation) is valid *)
Definition permitted (k : call) (s : cstate) : bool :=
  match k, s with
  | KLogin, SNotAuth => true
  | (KSelect | KCreate | KDelete | KRename | KSubscribe | KUnsubscribe | KList | KStatus | KAppend
     | KNamespace | KIdle | KUnauth | KPoll _), (SAuth | SSelected) => true
  | (KUnselect | KExpunge | KFetch | KStore | KSearch | KCopy | KMove), SSelected => true
  | _, _ => false
  end.

(* RFC 9051 section 3 state diagram as a function of the command and of the outcomes the
   backend reported for the operations the command needed (first, second) *)
Definition rfc_next (cfg : scfg) (c : conn) (m : cmd) (o1 o2 : bool) : cstate :=
  match m, st c with
  | CLogout, _ => SLogout                                              (* (7) *)
  | CUnknown, SNotAuth => SLogout                                      (* cross-protocol guard *)
  | (CLogin | CAuthPlain), SNotAuth =>
      if (tls c || c_insecure cfg) && o1 then SAuth else SNotAuth      (* (4) successful LOGIN *)
  | (CSelect | CExamine), SAuth => if o1 then SSelected else SAuth     (* (5) / failed SELECT *)
  | (CSelect | CExamine), SSelected =>
      if o1 then (if o2 then SSelected else SAuth) else SSelected      (* deselect, then (5) *)
  | (CClose | CUnselect), SSelected =>
      match m with
      | CClose => if o1 && o2 then SAuth else SSelected                (* (6) *)
      | _ => if o1 then SAuth else SSelected
      end
  | CUnauthenticate, (SAuth | SSelected) => if c_unauth cfg && o1 then SNotAuth else st c
  | _, s => s
  end.

Definition outcome1 (outs : list bool) : bool := match outs with [] => true | o :: _ => o end.
Definition outcome2 (outs : list bool) : bool := match outs with _ :: o :: _ => o | _ => true end.
