(* Proofs/NumSetText.v — decimal / text-form lemmas for C15. *)
From Coq Require Import ZifyN ZifyNat ZifyBool.
From Coq Require Import DecimalString DecimalN DecimalFacts Decimal.
From GoImap.Base Require Import Bytes.
From GoImap.Model Require Import NumSet.
From GoImap.Proofs Require Import NumSetSpec NumSetLemmas NumSetInsert.
Open Scope N_scope.
Local Opaque canon.

(* ------------------------------------------------------------------ *)
(* generic byte-list helpers *)
Definition nocc (c : byte) (t : bytes) : bool := forallb (fun x => negb (beqb x c)) t.

Lemma nocc_app : forall c a b, nocc c (a ++ b) = nocc c a && nocc c b.
Proof. intros. apply forallb_app. Qed.

Lemma nocc_cons : forall c x a, nocc c (x :: a) = negb (beqb x c) && nocc c a.
Proof. reflexivity. Qed.

Lemma beqb_eq : forall a b, beqb a b = true -> a = b.
Proof. intros a b H. apply Ascii.eqb_eq. exact H. Qed.

Lemma beqb_refl : forall a, beqb a a = true.
Proof. intros a. apply Ascii.eqb_refl. Qed.

Lemma bytes_eqb_eq : forall a b, bytes_eqb a b = true -> a = b.
Proof.
  induction a as [|x a IH]; intros [|y b] H; cbn [bytes_eqb] in H; try discriminate H.
  - reflexivity.
  - apply andb_true_iff in H as [H1 H2]. apply beqb_eq in H1. subst y.
    rewrite (IH b H2). reflexivity.
Qed.

Lemma index_of_none : forall c a, nocc c a = true -> index_of c a = None.
Proof.
  induction a as [|x a IH]; intros H; [reflexivity|].
  rewrite nocc_cons in H. apply andb_true_iff in H as [H1 H2]. apply negb_true_iff in H1.
  cbn [index_of]. rewrite H1, (IH H2). reflexivity.
Qed.

Lemma index_of_app : forall c a b, nocc c a = true ->
  index_of c (a ++ c :: b) = Some (length a).
Proof.
  induction a as [|x a IH]; intros b H.
  - cbn [app index_of length]. rewrite beqb_refl. reflexivity.
  - rewrite nocc_cons in H. apply andb_true_iff in H as [H1 H2]. apply negb_true_iff in H1.
    cbn [app index_of length]. rewrite H1, (IH b H2). reflexivity.
Qed.

Lemma index_of_split : forall c v n, index_of c v = Some n ->
  v = firstn n v ++ c :: skipn (S n) v.
Proof.
  induction v as [|x v IH]; intros n H; [discriminate H|].
  cbn [index_of] in H. destruct (beqb x c) eqn:E.
  - inversion H; subst n. apply beqb_eq in E. subst x. reflexivity.
  - destruct (index_of c v) as [m|]; [|discriminate H]. cbn [option_map] in H.
    inversion H; subst n. cbn [firstn skipn app]. f_equal. apply IH. reflexivity.
Qed.

Lemma split_on_app : forall c x acc rest, nocc c x = true ->
  split_on c acc (x ++ c :: rest) = (rev acc ++ x) :: split_on c [] rest.
Proof.
  induction x as [|y x IH]; intros acc rest H.
  - cbn [app split_on]. rewrite beqb_refl, app_nil_r. reflexivity.
  - rewrite nocc_cons in H. apply andb_true_iff in H as [H1 H2]. apply negb_true_iff in H1.
    cbn [app split_on]. rewrite H1, (IH (y :: acc) rest H2). cbn [rev].
    rewrite <- app_assoc. reflexivity.
Qed.

Lemma split_on_nocc : forall c x acc, nocc c x = true -> split_on c acc x = [rev acc ++ x].
Proof.
  induction x as [|y x IH]; intros acc H.
  - cbn [split_on]. rewrite app_nil_r. reflexivity.
  - rewrite nocc_cons in H. apply andb_true_iff in H as [H1 H2]. apply negb_true_iff in H1.
    cbn [split_on]. rewrite H1, (IH (y :: acc) H2). cbn [rev].
    rewrite <- app_assoc. reflexivity.
Qed.

Lemma split_on_nonnil : forall c t acc, exists h tl, split_on c acc t = h :: tl.
Proof.
  induction t as [|x t IH]; intros acc; cbn [split_on].
  - eexists _, _. reflexivity.
  - destruct (beqb x c); [eexists _, _; reflexivity|apply IH].
Qed.

Lemma join_cons2 : forall sep x y l, join_with sep (x :: y :: l) = x ++ sep ++ join_with sep (y :: l).
Proof. reflexivity. Qed.

Lemma join_split : forall c t acc, join_with [c] (split_on c acc t) = rev acc ++ t.
Proof.
  induction t as [|x t IH]; intros acc; cbn [split_on].
  - cbn [join_with]. rewrite app_nil_r. reflexivity.
  - destruct (beqb x c) eqn:E.
    + apply beqb_eq in E. subst x.
      destruct (split_on_nonnil c t []) as (h & tl & Hs).
      pose proof (IH []) as IH0. rewrite Hs in *. rewrite join_cons2, IH0. reflexivity.
    + rewrite (IH (x :: acc)). cbn [rev]. rewrite <- app_assoc. reflexivity.
Qed.

(* ------------------------------------------------------------------ *)
(* decimal facts *)
Lemma digits_NilEmpty : forall d c,
  In c (list_ascii_of_string (NilEmpty.string_of_uint d)) -> is_digit c = true.
Proof.
  induction d; intros c H; cbn [NilEmpty.string_of_uint list_ascii_of_string] in H;
    try (destruct H as [<-|H]; [reflexivity|exact (IHd c H)]).
  destruct H.
Qed.

Lemma digits_dec : forall n c, In c (dec_of_N n) -> is_digit c = true.
Proof.
  intros n c H. unfold dec_of_N, s2b, NilZero.string_of_uint in H.
  destruct (N.to_uint n) eqn:E; try (rewrite <- E in H; exact (digits_NilEmpty _ c H)).
  cbn in H. destruct H as [<-|[]]. reflexivity.
Qed.

Lemma digit_not_sep : forall c, is_digit c = true ->
  beqb c (ch ",") = false /\ beqb c (ch ":") = false /\ beqb c (ch "*") = false.
Proof.
  intros [[] [] [] [] [] [] [] []]; vm_compute; intros H; try discriminate H; repeat split.
Qed.

Lemma nocc_digits : forall c t, (forall x, In x t -> beqb x c = false) -> nocc c t = true.
Proof.
  intros c t H. apply forallb_forall. intros x Hx. rewrite (H x Hx). reflexivity.
Qed.

Lemma dec_nocc : forall n, nocc (ch ",") (dec_of_N n) = true /\ nocc (ch ":") (dec_of_N n) = true.
Proof.
  intros n. split; apply nocc_digits; intros x Hx;
    apply digits_dec in Hx; apply digit_not_sep in Hx; tauto.
Qed.

Lemma to_uint_norm : forall n, unorm (N.to_uint n) = N.to_uint n.
Proof.
  intros n. rewrite <- (DecimalN.Unsigned.to_of (N.to_uint n)), DecimalN.Unsigned.of_to.
  reflexivity.
Qed.

Lemma to_uint_nonnil : forall n, N.to_uint n <> Nil.
Proof. intros n. rewrite <- to_uint_norm. apply unorm_nonnil. Qed.

Lemma to_uint_noD0 : forall n d, 0 < n -> N.to_uint n <> D0 d.
Proof.
  intros n d Hn E. pose proof (to_uint_norm n) as Hu. rewrite E in Hu.
  unfold unorm in Hu. destruct (nzhead (D0 d)) eqn:Ez;
    try (apply (nzhead_nonzero (D0 d) d); rewrite Ez; exact Hu).
  assert (E0 : N.to_uint n = N.to_uint 0) by (rewrite E, <- Hu; reflexivity).
  apply DecimalN.Unsigned.to_uint_inj in E0. lia.
Qed.

Lemma dec_head : forall n, 0 < n -> exists c rest, dec_of_N n = c :: rest /\ beqb c (ch "0") = false.
Proof.
  intros n Hn. unfold dec_of_N, s2b, NilZero.string_of_uint.
  pose proof (to_uint_nonnil n) as H1. pose proof (fun d => to_uint_noD0 n d Hn) as H2.
  destruct (N.to_uint n) eqn:E; try (exfalso; apply H1; reflexivity);
    try (exfalso; eapply H2; reflexivity);
    cbn [NilEmpty.string_of_uint list_ascii_of_string]; eexists _, _; split; reflexivity.
Qed.

Lemma parse_uint_dec : forall n bound, n < bound -> parse_uint bound (dec_of_N n) = Some n.
Proof.
  intros n bound Hn. unfold parse_uint, dec_of_N, s2b.
  rewrite string_of_list_ascii_of_string, (NilZero.usu _ (to_uint_nonnil n)).
  rewrite DecimalN.Unsigned.of_to. cbv zeta.
  replace (n <? bound) with true by lia. reflexivity.
Qed.

Lemma parse_num_dec : forall n, 0 < n -> n < M32 -> parse_num (dec_of_N n) = Some n.
Proof.
  intros n H0 Hn. unfold parse_num. rewrite (parse_uint_dec n M32 Hn).
  destruct (dec_head n H0) as (c & rest & -> & Hc). rewrite Hc. reflexivity.
Qed.

Lemma parse_num_star : parse_num (s2b "*") = Some 0.
Proof. vm_compute. reflexivity. Qed.

Lemma star_nocc : nocc (ch ",") (s2b "*") = true /\ nocc (ch ":") (s2b "*") = true.
Proof. split; vm_compute; reflexivity. Qed.

(* a parsed number is in the grammar *)
Lemma parse_num_g : forall v n, parse_num v = Some n -> g_seqnum v n.
Proof.
  intros v n H. unfold parse_num in H.
  assert (Hstar : (if bytes_eqb v (s2b "*") then Some 0 else None) = Some n -> g_seqnum v n).
  { destruct (bytes_eqb v (s2b "*")) eqn:E; intros H'; [|discriminate H'].
    apply bytes_eqb_eq in E. subst v. inversion H'. constructor. }
  destruct (parse_uint M32 v) as [m|] eqn:Ep; [|destruct v; exact (Hstar H)].
  destruct v as [|c rest]; [exact (Hstar H)|].
  destruct (beqb c (ch "0")) eqn:Ec; [exact (Hstar H)|].
  inversion H; subst m. clear H Hstar.
  unfold parse_uint in Ep.
  destruct (NilZero.uint_of_string (string_of_list_ascii (c :: rest))) as [d|] eqn:Ed;
    [|discriminate Ep].
  cbv zeta in Ep. destruct (N.of_uint d <? M32) eqn:Eb; [|discriminate Ep].
  inversion Ep as [En]. clear Ep.
  apply NilZero.sus in Ed.
  assert (Hd : unorm d = d).
  { unfold NilZero.string_of_uint in Ed. cbn [string_of_list_ascii] in Ed.
    destruct d; cbn [NilEmpty.string_of_uint] in Ed; try reflexivity;
      inversion Ed; subst c; discriminate Ec. }
  assert (Hto : N.to_uint n = d) by (rewrite <- En, DecimalN.Unsigned.to_of; exact Hd).
  assert (Hv : dec_of_N n = c :: rest).
  { unfold dec_of_N, s2b. rewrite Hto, Ed. apply list_ascii_of_string_of_list_ascii. }
  rewrite <- Hv, ?En. apply g_nz; [|rewrite <- En; lia].
  destruct (N.eq_dec n 0) as [E0|E0]; [|lia]. exfalso.
  rewrite E0 in Hto. cbn in Hto. subst d.
  cbn in Ed. inversion Ed; subst c. discriminate Ec.
Qed.

Lemma g_seqnum_props : forall t n, g_seqnum t n ->
  parse_num t = Some n /\ n < M32 /\ nocc (ch ",") t = true /\ nocc (ch ":") t = true.
Proof.
  intros t n [m H0 Hm|].
  - split; [exact (parse_num_dec m H0 Hm)|]. split; [exact Hm|]. apply dec_nocc.
  - split; [exact parse_num_star|]. split; [rewrite M32_eq; lia|]. apply star_nocc.
Qed.

(* ------------------------------------------------------------------ *)
(* ranges *)
Lemma norm_range_wf : forall a b, wf_range (a, b) = true -> norm_range a b = (a, b).
Proof.
  intros a b H. unfold norm_range.
  destruct ((b <? a) && negb (b =? 0) || (a =? 0)) eqn:E; [|reflexivity].
  rg_unfold. f_equal; lia.
Qed.

Lemma norm_range_nn : forall n, norm_range n n = (n, n).
Proof. intros n. unfold norm_range. destruct ((n <? n) && negb (n =? 0) || (n =? 0)); reflexivity. Qed.

Lemma wf_norm_range : forall a b, a < M32 -> b < M32 -> wf_range (norm_range a b) = true.
Proof.
  intros a b Ha Hb. unfold norm_range.
  destruct ((b <? a) && negb (b =? 0) || (a =? 0)) eqn:E; rg_unfold; lia.
Qed.

Lemma s2b_colon : forall t, s2b ":" ++ t = ch ":" :: t.
Proof. reflexivity. Qed.
Lemma s2b_comma : forall t, s2b "," ++ t = ch "," :: t.
Proof. reflexivity. Qed.

Lemma g_elem_props : forall t r, g_elem t r ->
  wf_range r = true /\ nocc (ch ",") t = true /\
  exists x y, parse_range t = Some (x, y) /\ norm_range x y = r.
Proof.
  intros t r [t0 n Hn|t1 a t2 b Ha Hb].
  - destruct (g_seqnum_props _ _ Hn) as (Hp & Hlt & Hc & Hk).
    split; [rg_unfold; lia|]. split; [exact Hc|].
    exists n, n. unfold parse_range. rewrite (index_of_none _ _ Hk), Hp.
    split; [reflexivity|apply norm_range_nn].
  - destruct (g_seqnum_props _ _ Ha) as (Hpa & Hlta & Hca & Hka).
    destruct (g_seqnum_props _ _ Hb) as (Hpb & Hltb & Hcb & Hkb).
    pose proof (wf_norm_range a b Hlta Hltb) as Hw.
    split; [exact Hw|]. rewrite s2b_colon. split.
    + rewrite nocc_app, nocc_cons, Hca, Hcb. reflexivity.
    + destruct (norm_range a b) as [x y] eqn:En. exists x, y.
      unfold parse_range. rewrite (index_of_app _ _ _ Hka).
      rewrite firstn_app_len.
      replace (skipn (S (length t1)) (t1 ++ ch ":" :: t2)) with t2
        by (rewrite (snoc_cons _ t1), <- (len_snoc _ t1 (ch ":")), skipn_app_len; reflexivity).
      rewrite Hpa, Hpb, En. split; [reflexivity|apply norm_range_wf; exact Hw].
Qed.

Lemma parse_range_g : forall f r, parse_range f = Some r -> exists r', g_elem f r'.
Proof.
  intros f r H. unfold parse_range in H.
  destruct (index_of (ch ":") f) as [sep|] eqn:Ei.
  - destruct (parse_num (firstn sep f)) as [a|] eqn:Ea; [|discriminate H].
    destruct (parse_num (skipn (S sep) f)) as [b|] eqn:Eb; [|discriminate H].
    exists (norm_range a b). rewrite (index_of_split _ _ _ Ei), <- s2b_colon.
    constructor; apply parse_num_g; assumption.
  - destruct (parse_num f) as [n|] eqn:En; [|discriminate H].
    exists (n, n). constructor. apply parse_num_g. exact En.
Qed.

(* ------------------------------------------------------------------ *)
(* sets *)
Lemma g_set_split : forall t rs, g_set t rs ->
  exists ts, split_byte (ch ",") t = ts /\ Forall2 g_elem ts rs.
Proof.
  intros t rs H. induction H as [t r He|t r t' rs He Hs IH].
  - exists [t]. destruct (g_elem_props _ _ He) as (_ & Hc & _).
    unfold split_byte. rewrite (split_on_nocc _ _ [] Hc). split; [reflexivity|].
    constructor; [exact He|constructor].
  - destruct IH as (ts & Hts & Hf). exists (t :: ts).
    destruct (g_elem_props _ _ He) as (_ & Hc & _).
    unfold split_byte in *. rewrite s2b_comma, (split_on_app _ _ [] _ Hc), Hts.
    split; [reflexivity|]. constructor; assumption.
Qed.

Lemma parse_fields_g : forall ts rs, Forall2 g_elem ts rs ->
  forall s, parse_fields s ts = Some (add_set s rs).
Proof.
  intros ts rs H. induction H as [|t r ts rs He Hf IH]; intros s; [reflexivity|].
  destruct (g_elem_props _ _ He) as (_ & _ & x & y & Hp & Hn).
  cbn [parse_fields add_set]. rewrite Hp. unfold add_range. rewrite Hn.
  destruct (insert s r) as [s'|]; [apply IH|reflexivity].
Qed.

Lemma g_set_wf : forall t rs, g_set t rs -> forallb wf_range rs = true.
Proof.
  intros t rs H. induction H as [t r He|t r t' rs He Hs IH]; cbn [forallb].
  - destruct (g_elem_props _ _ He) as (Hw & _). rewrite Hw. reflexivity.
  - destruct (g_elem_props _ _ He) as (Hw & _). rewrite Hw, IH. reflexivity.
Qed.

Lemma parse_set_g : forall t rs, g_set t rs -> parse_set t = Some (add_set [] rs).
Proof.
  intros t rs H. destruct (g_set_split t rs H) as (ts & Hts & Hf).
  unfold parse_set. rewrite Hts. apply parse_fields_g. exact Hf.
Qed.

(* ------------------------------------------------------------------ *)
(* to_string produces the grammar *)
Lemma range_to_string_g : forall r, wf_range r = true -> g_elem (range_to_string r) r.
Proof.
  intros [a b] Hw. unfold range_to_string.
  destruct (a =? 0) eqn:Ea.
  - assert (a = 0 /\ b = 0) as [-> ->] by (rg_unfold; lia). constructor. constructor.
  - destruct (a =? b) eqn:Eab.
    + assert (b = a) as -> by lia. constructor. constructor; rg_unfold; lia.
    + rewrite <- (norm_range_wf a b Hw). destruct (b =? 0) eqn:Eb.
      * assert (b = 0) as -> by lia. change (s2b ":*") with (s2b ":" ++ s2b "*").
        constructor; constructor; rg_unfold; lia.
      * constructor; constructor; rg_unfold; lia.
Qed.

Lemma to_string_g : forall s, (forall r, In r s -> wf_range r = true) -> s <> [] ->
  g_set (to_string s) s.
Proof.
  induction s as [|r s IH]; intros Hw Hne; [congruence|].
  destruct s as [|r' l].
  - unfold to_string. cbn [map join_with]. constructor. apply range_to_string_g.
    apply Hw. left. reflexivity.
  - unfold to_string in *. cbn [map]. rewrite join_cons2. constructor.
    + apply range_to_string_g. apply Hw. left. reflexivity.
    + apply IH; [|discriminate]. intros x Hx. apply Hw. right. exact Hx.
Qed.

(* inserting the ranges of a canonical set, in order, rebuilds it *)
Lemma canon_In_snoc : forall l v r, canon (l ++ [v]) = true -> In r l ->
  wf_range r = true /\ linka r (fst v) = true.
Proof.
  induction l as [|x l IH]; intros v r Hc Hin; [destruct Hin|].
  cbn [app] in Hc. destruct Hin as [->|Hin].
  - split; [exact (canon_hd _ _ Hc)|].
    apply (canon_In (l ++ [v]) r v Hc). apply in_or_app. right. left. reflexivity.
  - exact (IH v r (canon_tail _ _ Hc) Hin).
Qed.

Lemma ff_all : forall s q, (forall r, In r s -> rless r q = true) -> ff s q = length s.
Proof.
  induction s as [|p s IH]; intros q H; [reflexivity|].
  cbn [ff length]. rewrite (H p (or_introl eq_refl)), IH; [reflexivity|].
  intros r Hr. apply H. right. exact Hr.
Qed.

Lemma linka_rless : forall r a, linka r a = true -> rless r a = true.
Proof. intros [ra rb] a H. rg_unfold. lia. Qed.

Lemma insert_snoc : forall s v, canon (s ++ [v]) = true -> insert s v = Some (s ++ [v]).
Proof.
  intros s v Hc.
  assert (Hff : ff s (fst v) = length s).
  { apply ff_all. intros r Hr. apply linka_rless. exact (proj2 (canon_In_snoc s v r Hc Hr)). }
  assert (Hwv : wf_range v = true)
    by (apply (canon_wf _ v Hc), in_or_app; right; left; reflexivity).
  destruct s as [|p0 pre0] using rev_ind.
  - rewrite (insert_eq0 [] v canon_nil Hff). reflexivity.
  - clear IHpre0. rename p0 into p.
    destruct (canon_In_snoc _ v p Hc) as [Hwp Hl]; [apply in_or_app; right; left; reflexivity|].
    rewrite <- app_assoc in Hc. cbn [app] in Hc.
    rewrite canon_app in Hc. apply andb_true_iff in Hc as [Hc _].
    apply andb_true_iff in Hc as [Hcp _].
    rewrite len_snoc in Hff.
    rewrite (insert_eqS pre0 p [] v Hcp Hff), (rmerge_linked p v Hwp Hwv Hl).
    cbn [ins0]. rewrite <- app_assoc. reflexivity.
Qed.

Lemma add_set_canon : forall rest s0, canon (s0 ++ rest) = true ->
  add_set s0 rest = Some (s0 ++ rest).
Proof.
  induction rest as [|v rest IH]; intros s0 Hc.
  - rewrite app_nil_r. reflexivity.
  - cbn [add_set]. rewrite insert_snoc.
    + rewrite IH; rewrite <- app_assoc; [reflexivity|exact Hc].
    + rewrite canon_app in Hc. apply andb_true_iff in Hc as [Hc _].
      apply andb_true_iff in Hc as [Hc _]. exact Hc.
Qed.

(* ------------------------------------------------------------------ *)
(* the parser only accepts the grammar *)
Lemma parse_fields_only : forall fs s res, canon s = true -> parse_fields s fs = Some res ->
  Forall (fun f => exists r, g_elem f r) fs.
Proof.
  induction fs as [|f fs IH]; intros s res Hc H; [constructor|].
  cbn [parse_fields] in H. destruct (parse_range f) as [[a b]|] eqn:Ep; [|discriminate H].
  destruct (parse_range_g f _ Ep) as (r & Hr).
  constructor; [exists r; exact Hr|].
  destruct (g_elem_props _ _ Hr) as (Hw & _ & x & y & Hp & Hn).
  rewrite Ep in Hp. inversion Hp; subst x y.
  unfold add_range in H. rewrite Hn in H.
  destruct (insert_spec s r Hw Hc) as (s' & Hi & Hc' & _). rewrite Hi in H.
  exact (IH s' res Hc' H).
Qed.

Lemma g_set_join : forall c fs, fs <> [] -> c = ch "," ->
  Forall (fun f => exists r, g_elem f r) fs ->
  exists rs, g_set (join_with [c] fs) rs.
Proof.
  intros c fs Hne -> H. induction H as [|f fs [r Hr] Hf IH]; [congruence|].
  destruct fs as [|f' l].
  - exists [r]. cbn [join_with]. constructor. exact Hr.
  - destruct IH as (rs & Hrs); [discriminate|].
    exists (r :: rs). rewrite join_cons2.
    change ([ch ","] ++ join_with [ch ","] (f' :: l)) with (s2b "," ++ join_with [ch ","] (f' :: l)).
    constructor; assumption.
Qed.
