(* Proofs/MemRefQuery.v — C09: the read-only commands answer exactly what the mailbox state
   says: STATUS counts agree with the message list (and the uint32 subtraction in UNSEEN cannot
   wrap), SELECT reports the object bound to the name, LIST returns exactly the matching names,
   once each and sorted, SEARCH returns exactly the numbers of the messages that satisfy every
   key in its RFC 3501 meaning (Proofs/SearchSpec.v, C19).                                   *)
From Coq Require Import Sorting.Sorted Sorting.Permutation.
From Coq Require Import ZifyN ZifyNat ZifyBool.
From GoImap.Base Require Import Bytes.
From GoImap.Model Require Import NumSet MatchList Search MemRefMsg MemRef.
From GoImap.Proofs Require Import NumSetSpec NumSetLemmas NumSetProofs SearchSpec SearchProofs MemRefSpec MemRefMsgProofs MemRefInv MemRefOps.
Open Scope N_scope.

(* ---- generic helpers ---- *)
Lemma beqb_eq : forall a b, beqb a b = true <-> a = b.
Proof. intros. unfold beqb. apply Ascii.eqb_eq. Qed.

Lemma bytes_eqb_iff : forall a b, bytes_eqb a b = true <-> a = b.
Proof.
  induction a as [|x a IH]; destruct b as [|y b]; cbn [bytes_eqb]; split; intro H;
    try reflexivity; try discriminate.
  - apply andb_true_iff in H. destruct H as [H1 H2]. apply beqb_eq in H1. apply IH in H2. congruence.
  - injection H as -> ->. apply andb_true_iff. split; [apply beqb_eq; reflexivity | apply IH; reflexivity].
Qed.

Lemma bytes_eqb_refl' : forall a, bytes_eqb a a = true.
Proof. intros. apply bytes_eqb_iff. reflexivity. Qed.

Lemma lookup_In : forall n l i, lookup n l = Some i -> In (n, i) l.
Proof.
  induction l as [|[k v] l IH]; cbn [lookup]; intros i H; [discriminate|].
  destruct (bytes_eqb k n) eqn:E.
  - apply bytes_eqb_iff in E. injection H as ->. subst. left. reflexivity.
  - right. apply IH. assumption.
Qed.

Lemma lookup_bound : forall s n i, state_ok s -> lookup n (st_names s) = Some i ->
  exists mb, nth_error (st_heap s) i = Some mb /\ mb_name mb = n.
Proof.
  intros s n i Hok H. destruct Hok as (_ & _ & Hn & _). apply Hn. apply lookup_In. assumption.
Qed.

(* ---- STATUS ---- *)
Definition count_where (f : mmsg -> bool) (l : list mmsg) : N := N.of_nat (length (filter f l)).
Definition sum_sizes (l : list mmsg) : N := fold_right (fun m a => N.of_nat (length (mm_buf m)) + a) 0 l.

Lemma find_key_app : forall (k : bytes) (b : bool) k' (v : option N) l,
  find (fun kv => bytes_eqb (fst kv) k) ((if b then [(k', v)] else []) ++ l) =
  if b && bytes_eqb k' k then Some (k', v) else find (fun kv : bytes * option N => bytes_eqb (fst kv) k) l.
Proof.
  intros. destruct b; cbn [app find fst andb]; [|reflexivity].
  destruct (bytes_eqb k' k); reflexivity.
Qed.

Lemma is_seen_msg_has : forall m, is_seen m = msg_has m (s2b "\Seen").
Proof. intros. reflexivity. Qed.
Lemma is_deleted_msg_has : forall m, is_deleted m = msg_has m (s2b "\Deleted").
Proof. intros. reflexivity. Qed.

Lemma filter_ext' : forall (A : Type) (f g : A -> bool) l, (forall x, f x = g x) -> filter f l = filter g l.
Proof. intros A f g l H. induction l as [|x l IH]; cbn [filter]; [reflexivity|]. rewrite H, IH. reflexivity. Qed.

Lemma filter_negb_length : forall (A : Type) (f : A -> bool) l,
  (length (filter f l) + length (filter (fun x => negb (f x)) l) = length l)%nat.
Proof.
  intros A f l. induction l as [|x l IH]; cbn [filter]; [reflexivity|].
  destruct (f x); cbn [negb length]; lia.
Qed.

Lemma total_size_acc : forall l a,
  fold_left (fun a m => a + N.of_nat (length (mm_buf m))) l a = a + sum_sizes l.
Proof.
  induction l as [|m l IH]; intro a; cbn [fold_left sum_sizes fold_right].
  - lia.
  - rewrite IH. fold (sum_sizes l). lia.
Qed.
Lemma total_size_sum : forall l, total_size l = sum_sizes l.
Proof. intros. unfold total_size. rewrite total_size_acc. lia. Qed.

Local Opaque M32.

Theorem status_exact : forall s k n o s' r, state_ok s -> step s (k, CStatus n o) = Some (s', r) -> r_class r = 0 ->
  s' = s /\
  exists i mb items, lookup n (st_names s) = Some i /\ nth_error (st_heap s) i = Some mb /\
    r_data r = [RStatus n items] /\
    (N.of_nat (length (mb_msgs mb)) < M32 ->
     (so_messages o = true -> status_value items "MESSAGES" = Some (Some (N.of_nat (length (mb_msgs mb))))) /\
     (so_uidnext o = true -> status_value items "UIDNEXT" = Some (Some (mb_next mb))) /\
     (so_uidvalidity o = true -> status_value items "UIDVALIDITY" = Some (Some (mb_uv mb))) /\
     (so_unseen o = true -> status_value items "UNSEEN" =
        Some (Some (count_where (fun m => negb (msg_has m (s2b "\Seen"))) (mb_msgs mb)))) /\
     (so_deleted o = true -> status_value items "DELETED" =
        Some (Some (count_where (fun m => msg_has m (s2b "\Deleted")) (mb_msgs mb)))) /\
     (so_size o = true -> status_value items "SIZE" = Some (Some (sum_sizes (mb_msgs mb)))) /\
     (so_deleted_storage o = true -> status_value items "DELETED-STORAGE" =
        Some (Some (sum_sizes (filter (fun m => msg_has m (s2b "\Deleted")) (mb_msgs mb)))))).
Proof.
  intros s k n o s' r Hok Hstep Hcl. cbn [step] in Hstep.
  destruct (lookup n (st_names s)) as [i|] eqn:El.
  2:{ injection Hstep as <- <-. discriminate. }
  destruct (lookup_bound _ _ _ Hok El) as (mb & Hnth & Hname).
  rewrite Hnth in Hstep. injection Hstep as <- <-. split; [reflexivity|].
  exists i, mb, (status_items o mb). split; [reflexivity|]. split; [assumption|].
  split; [cbn [ok r_data]; rewrite Hname; reflexivity|].
  intros Hlen.
  unfold status_value, status_items.
  repeat split; intros Hf.
  all: rewrite ?find_key_app, Hf.
  all:  cbn [s2b list_ascii_of_string bytes_eqb beqb Ascii.eqb Bool.eqb andb].
  all:  rewrite ?andb_false_r; cbn [option_map snd]; try reflexivity.
  - do 2 f_equal. unfold count_if, count_where.
    pose proof (filter_negb_length _ is_seen (mb_msgs mb)) as H1.
    rewrite (filter_ext' _ (fun m => negb (msg_has m (s2b "\Seen"))) (fun m => negb (is_seen m)))
      by (intro; reflexivity).
    rewrite M32_eq in *. lia.
  - do 2 f_equal. apply total_size_sum.
  - do 2 f_equal. apply total_size_sum.
Qed.

(* ---- SELECT ---- *)
Lemma flag_insert_In : forall x f l, In x (flag_insert f l) <-> x = f \/ In x l.
Proof.
  intros x f l. induction l as [|g r IH]; cbn [flag_insert].
  - cbn [In]. intuition congruence.
  - destruct (bytes_eqb f g) eqn:E.
    + apply bytes_eqb_iff in E. subst g. cbn [In]. intuition congruence.
    + destruct (bytes_ltb f g); cbn [In]; [intuition congruence|]. rewrite IH. intuition congruence.
Qed.

Lemma fold_insert_In : forall x l acc,
  In x (fold_left (fun a f => flag_insert f a) l acc) <-> In x l \/ In x acc.
Proof.
  intros x l. induction l as [|f l IH]; intro acc; cbn [fold_left].
  - cbn [In]. intuition.
  - rewrite IH, flag_insert_In. cbn [In]. intuition congruence.
Qed.

Lemma mailbox_flags_In : forall x ms acc,
  In x (fold_left (fun acc m => fold_left (fun a f => flag_insert f a) (mm_flags m) acc) ms acc) <->
  (exists m, In m ms /\ In x (mm_flags m)) \/ In x acc.
Proof.
  intros x ms. induction ms as [|m ms IH]; intro acc; cbn [fold_left].
  - split; [intro H; right; exact H | intros [(m & [] & _)|H]; exact H].
  - rewrite IH, fold_insert_In. split.
    + intros [(m' & H1 & H2)|[H|H]].
      * left. exists m'. split; [right; assumption|assumption].
      * left. exists m. split; [left; reflexivity|assumption].
      * right. assumption.
    + intros [(m' & [->|H1] & H2)|H].
      * right. left. assumption.
      * left. exists m'. split; assumption.
      * right. right. assumption.
Qed.

Lemma nth_error_update_nth_same : forall (A : Type) (f : A -> A) l i, (i < length l)%nat ->
  nth_error (update_nth i f l) i = option_map f (nth_error l i).
Proof.
  intros A f l. induction l as [|x l IH]; intros i Hi; [cbn [length] in Hi; lia|].
  destruct i as [|i]; cbn [update_nth nth_error option_map]; [reflexivity|].
  apply IH. cbn [length] in Hi. lia.
Qed.

Theorem select_exact : forall s k n ex s' r, state_ok s -> step s (k, CSelect n ex) = Some (s', r) -> r_class r = 0 ->
  exists i mb fl, lookup n (st_names s) = Some i /\ nth_error (st_heap s) i = Some mb /\
    ((k < length (st_sel s))%nat -> sel_of s' k = Some i) /\ st_heap s' = st_heap s /\ st_names s' = st_names s /\
    In (RSelect (N.of_nat (length (mb_msgs mb))) (mb_uv mb) (mb_next mb) fl (fl ++ [s2b "\*"])) (r_data r) /\
    (forall f, In f fl <-> exists m, In m (mb_msgs mb) /\ In f (mm_flags m)).
Proof.
  intros s k n ex s' r Hok Hstep Hcl. cbn [step] in Hstep.
  destruct (lookup n (st_names s)) as [i|] eqn:El.
  2:{ injection Hstep as <- <-. discriminate. }
  destruct (lookup_bound _ _ _ Hok El) as (mb & Hnth & Hname).
  rewrite Hnth in Hstep. injection Hstep as <- <-.
  exists i, mb, (mailbox_flags mb). split; [reflexivity|]. split; [assumption|].
  split.
  { intro Hk. unfold sel_of, set_ro, with_ro, set_sel, with_sel. cbn [st_sel].
    rewrite nth_error_update_nth_same by assumption.
    destruct (nth_error (st_sel s) k) eqn:E; [reflexivity|].
    apply nth_error_None in E. lia. }
  split; [reflexivity|]. split; [reflexivity|]. split.
  { cbn [okc r_data]. apply in_or_app. right. left. reflexivity. }
  intro f. unfold mailbox_flags. rewrite mailbox_flags_In. cbn [In]. intuition.
Qed.

(* SELECT opens the mailbox read-write, EXAMINE read-only (UserSession.Select: options.ReadOnly) *)
Theorem select_records_readonly : forall s k n ex s' r,
  step s (k, CSelect n ex) = Some (s', r) -> r_class r = 0 ->
  (k < length (st_ro s))%nat -> ro_of s' k = ex.
Proof.
  intros s k n ex s' r Hstep Hcl Hk. cbn [step] in Hstep.
  destruct (lookup n (st_names s)) as [i|] eqn:El.
  2:{ injection Hstep as <- <-. discriminate. }
  destruct (nth_error (st_heap s) i) as [mb|] eqn:Hnth.
  2:{ injection Hstep as <- <-. discriminate. }
  injection Hstep as <- <-.
  unfold ro_of, set_ro, with_ro, set_sel, with_sel. cbn [st_ro].
  rewrite nth_error_update_nth_same by assumption.
  destruct (nth_error (st_ro s) k) eqn:E; [reflexivity|].
  apply nth_error_None in E. lia.
Qed.

(* ---- LIST ---- *)
Lemma b2n_inj : forall x y, b2n x = b2n y -> x = y.
Proof.
  intros x y H. unfold b2n in H. rewrite <- (ascii_N_embedding x), <- (ascii_N_embedding y), H. reflexivity.
Qed.

Lemma bytes_ltb_irrefl : forall a, bytes_ltb a a = false.
Proof.
  induction a as [|x a IH]; cbn [bytes_ltb]; [reflexivity|].
  rewrite N.ltb_irrefl. assumption.
Qed.

Lemma bytes_ltb_total : forall a b, a <> b -> bytes_ltb a b = false -> bytes_ltb b a = true.
Proof.
  induction a as [|x a IH]; destruct b as [|y b]; cbn [bytes_ltb]; intros Hne H;
    try congruence.
  destruct (N.ltb_spec (b2n x) (b2n y)) as [H1|H1]; [discriminate|].
  destruct (N.ltb_spec (b2n y) (b2n x)) as [H2|H2]; [reflexivity|].
  assert (x = y) by (apply b2n_inj; lia). subst y.
  apply IH; [congruence|assumption].
Qed.

Lemma bytes_ltb_trans : forall a b c, bytes_ltb a b = true -> bytes_ltb b c = true -> bytes_ltb a c = true.
Proof.
  induction a as [|x a IH]; destruct b as [|y b]; destruct c as [|z c]; cbn [bytes_ltb];
    intros H1 H2; try congruence.
  destruct (N.ltb_spec (b2n x) (b2n y)) as [A|A];
  destruct (N.ltb_spec (b2n y) (b2n z)) as [B|B];
  destruct (N.ltb_spec (b2n x) (b2n z)) as [C|C]; try reflexivity; try lia.
  - destruct (N.ltb_spec (b2n z) (b2n y)); [discriminate|]. lia.
  - destruct (N.ltb_spec (b2n y) (b2n x)); [discriminate|]. lia.
  - destruct (N.ltb_spec (b2n y) (b2n x)); [discriminate|].
    destruct (N.ltb_spec (b2n z) (b2n y)); [discriminate|].
    destruct (N.ltb_spec (b2n z) (b2n x)); [lia|].
    eapply IH; eassumption.
Qed.

Lemma insert_sorted_perm : forall x l, Permutation (insert_sorted x l) (x :: l).
Proof.
  intros x l. induction l as [|y r IH]; cbn [insert_sorted]; [apply Permutation_refl|].
  destruct (bytes_ltb (fst y) (fst x)); [|apply Permutation_refl].
  eapply Permutation_trans; [apply perm_skip; exact IH | apply perm_swap].
Qed.

Lemma sort_names_perm : forall l, Permutation (sort_names l) l.
Proof.
  induction l as [|x l IH]; cbn [sort_names fold_right]; [apply perm_nil|].
  fold (sort_names l). eapply Permutation_trans; [apply insert_sorted_perm|]. apply perm_skip. exact IH.
Qed.

Lemma insert_sorted_sorted : forall x l, StronglySorted bytes_lt (map fst l) -> ~ In (fst x) (map fst l) ->
  StronglySorted bytes_lt (map fst (insert_sorted x l)).
Proof.
  intros x l. induction l as [|y r IH]; cbn [insert_sorted map]; intros Hs Hn.
  - constructor; constructor.
  - apply StronglySorted_inv in Hs. destruct Hs as [Hs Hf].
    destruct (bytes_ltb (fst y) (fst x)) eqn:E; cbn [map].
    + constructor.
      * apply IH; [assumption|]. intro H. apply Hn. right. assumption.
      * eapply Permutation_Forall.
        { apply Permutation_sym. apply Permutation_map. apply insert_sorted_perm. }
        cbn [map]. constructor; [exact E|assumption].
    + assert (Hxy : bytes_ltb (fst x) (fst y) = true).
      { apply bytes_ltb_total; [|assumption]. intro H. apply Hn. left. assumption. }
      constructor.
      * constructor; assumption.
      * constructor; [exact Hxy|].
        eapply Forall_impl; [|exact Hf]. intros a Ha. unfold bytes_lt in *.
        eapply bytes_ltb_trans; eassumption.
Qed.

Lemma sort_names_sorted : forall l, NoDup (map fst l) ->
  StronglySorted bytes_lt (map fst (sort_names l)).
Proof.
  induction l as [|x l IH]; cbn [sort_names fold_right map]; intro Hnd.
  - constructor.
  - fold (sort_names l). apply NoDup_cons_iff in Hnd. destruct Hnd as [Hn Hnd].
    apply insert_sorted_sorted; [apply IH; assumption|].
    intro H. apply Hn. eapply Permutation_in; [|exact H]. apply Permutation_map. apply sort_names_perm.
Qed.

Definition listed_ok (s : state) (sel_sub : bool) (kv : bytes * nat) : bool :=
  match nth_error (st_heap s) (snd kv) with
  | Some mb => negb (sel_sub && negb (mb_sub mb))
  | None => false
  end.

Lemma list_names_app : forall a b, list_names (a ++ b) = list_names a ++ list_names b.
Proof. intros. unfold list_names. apply flat_map_app. Qed.

Lemma list_names_list_one : forall lsub sel_sub ret mb,
  list_names (list_one lsub sel_sub ret mb) = if sel_sub && negb (mb_sub mb) then [] else [mb_name mb].
Proof.
  intros. unfold list_one. destruct (sel_sub && negb (mb_sub mb)); [reflexivity|].
  destruct ret as [o|]; [destruct lsub|]; reflexivity.
Qed.

Lemma do_list_names : forall s lsub sel_sub ret L, state_ok s ->
  (forall kv, In kv L -> In kv (st_names s)) ->
  list_names (flat_map (fun kv => match nth_error (st_heap s) (snd kv) with
                                  | Some mb => list_one lsub sel_sub ret mb
                                  | None => []
                                  end) L) = map fst (filter (listed_ok s sel_sub) L).
Proof.
  intros s lsub sel_sub ret L Hok. induction L as [|[n i] L IH]; intro HL; [reflexivity|].
  cbn [flat_map filter]. rewrite list_names_app, IH by (intros kv H; apply HL; right; assumption).
  destruct Hok as (_ & _ & Hn & _). destruct (Hn n i) as (mb & Hnth & Hname); [apply HL; left; reflexivity|].
  unfold listed_ok at 2. cbn [snd]. rewrite Hnth, list_names_list_one, Hname.
  destruct (sel_sub && negb (mb_sub mb)); reflexivity.
Qed.

Lemma sorted_map_filter : forall (A B : Type) (R : B -> B -> Prop) (f : A -> B) (q : A -> bool) l,
  StronglySorted R (map f l) -> StronglySorted R (map f (filter q l)).
Proof.
  intros A B R f q l. induction l as [|x l IH]; cbn [map filter]; intro H; [constructor|].
  apply StronglySorted_inv in H. destruct H as [Hs Hf].
  destruct (q x); cbn [map]; [|apply IH; assumption].
  constructor; [apply IH; assumption|].
  rewrite Forall_forall in *. intros b Hb. apply Hf.
  apply in_map_iff in Hb. destruct Hb as (a & <- & Ha). apply filter_In in Ha.
  apply in_map. apply Ha.
Qed.

Lemma NoDup_map_filter : forall (A B : Type) (f : A -> B) (q : A -> bool) l,
  NoDup (map f l) -> NoDup (map f (filter q l)).
Proof.
  intros A B f q l. induction l as [|x l IH]; cbn [map filter]; intro H; [constructor|].
  apply NoDup_cons_iff in H. destruct H as [Hn Hd].
  destruct (q x); cbn [map]; [|apply IH; assumption].
  constructor; [|apply IH; assumption].
  intro Hb. apply Hn. apply in_map_iff in Hb. destruct Hb as (a & E & Ha). apply filter_In in Ha.
  rewrite <- E. apply in_map. apply Ha.
Qed.

Theorem list_exact : forall s k lsub sel_sub ref pats ret s' r, state_ok s -> pats <> [] ->
  step s (k, CList lsub sel_sub ref pats ret) = Some (s', r) ->
  s' = s /\ r_class r = 0 /\
  StronglySorted bytes_lt (list_names (r_data r)) /\
  (forall n, In n (list_names (r_data r)) <-> name_listed s sel_sub ref pats n).
Proof.
  intros s k lsub sel_sub ref pats ret s' r Hok Hp Hstep. cbn [step] in Hstep.
  injection Hstep as <- <-. split; [reflexivity|]. split; [reflexivity|].
  cbn [ok r_data]. unfold do_list. destruct pats as [|p pats]; [congruence|].
  set (ps := p :: pats). 
  set (L := sort_names (filter (fun kv => list_match ref ps (fst kv)) (st_names s))).
  assert (HL : forall kv, In kv L <-> In kv (st_names s) /\ list_match ref ps (fst kv) = true).
  { intro kv. split; intro H.
    - apply (Permutation_in _ (sort_names_perm _)) in H. apply filter_In in H. exact H.
    - apply (Permutation_in _ (Permutation_sym (sort_names_perm _))). apply filter_In. exact H. }
  rewrite do_list_names by (assumption || (intros kv H; apply HL in H; apply H)).
  split.
  - apply sorted_map_filter. apply sort_names_sorted. apply NoDup_map_filter.
    destruct Hok as (_ & _ & _ & Hnd & _). assumption.
  - intro n. rewrite in_map_iff. unfold name_listed. split.
    + intros ([n' i] & E & Hin). cbn [fst] in E. subst n'. apply filter_In in Hin.
      destruct Hin as [Hin Hq]. apply HL in Hin. destruct Hin as [Hin Hm]. unfold listed_ok in Hq.
      cbn [snd fst] in *. destruct (nth_error (st_heap s) i) as [mb|] eqn:En; [|discriminate].
      exists i, mb. split; [assumption|]. split; [assumption|]. split; [exact Hm|].
      intros ->. destruct (mb_sub mb); [reflexivity|discriminate].
    + intros (i & mb & Hin & Hnth & Hm & Hsub). exists (n, i). split; [reflexivity|].
      apply filter_In. split; [apply HL; split; [assumption|exact Hm]|].
      unfold listed_ok. cbn [snd]. rewrite Hnth. destruct sel_sub; [|reflexivity].
      rewrite Hsub by reflexivity. reflexivity.
Qed.

(* ---- SEARCH ---- *)
(* "*" in the keys, as staticSearchCriteria resolves it *)
Fixpoint static_key (smax umax : N) (k : skey) : skey :=
  match k with
  | KSeq s => KSeq (static_set smax s)
  | KUid s => KUid (static_set umax s)
  | KNot k' => KNot (static_key smax umax k')
  | KOr a b => KOr (static_key smax umax a) (static_key smax umax b)
  | KList ks => KList (map (static_key smax umax) ks)
  | _ => k
  end.

Lemma static_and : forall smax umax a b,
  static_crit smax umax (and_ a b) = and_ (static_crit smax umax a) (static_crit smax umax b).
Proof.
  intros. destruct a, b. cbn [and_ static_crit]. rewrite !map_app. reflexivity.
Qed.

Lemma static_fold : forall smax umax ks,
  Forall (fun k => forall c, static_crit smax umax (apply_key c k) =
                             apply_key (static_crit smax umax c) (static_key smax umax k)) ks ->
  forall c, static_crit smax umax (fold_left apply_key ks c) =
            fold_left apply_key (map (static_key smax umax) ks) (static_crit smax umax c).
Proof.
  intros smax umax ks HF. induction HF as [|k ks Hk HF IH]; intro c; cbn [fold_left map].
  - reflexivity.
  - rewrite IH, Hk. reflexivity.
Qed.

Lemma static_apply : forall smax umax k c,
  static_crit smax umax (apply_key c k) = apply_key (static_crit smax umax c) (static_key smax umax k).
Proof.
  intros smax umax k.
  induction k as [k Hleaf | k IH | k1 k2 IH1 IH2 | ks IH] using skey_ind'; intro c.
  - destruct k; try contradiction; clear Hleaf; cbn [static_key];
      try (rewrite !(apply_key_and _ (KSince _)) || rewrite !(apply_key_and _ (KBefore _)) ||
           rewrite !(apply_key_and _ (KOn _)) || rewrite !(apply_key_and _ (KSentSince _)) ||
           rewrite !(apply_key_and _ (KSentBefore _)) || rewrite !(apply_key_and _ (KSentOn _)) ||
           rewrite !(apply_key_and _ (KLarger _)) || rewrite !(apply_key_and _ (KSmaller _)));
      try (rewrite static_and; reflexivity);
      destruct c; cbn [apply_key static_crit]; rewrite ?map_app; reflexivity.
  - destruct c. cbn [static_key apply_key static_crit]. rewrite map_app. cbn [map].
    rewrite IH. reflexivity.
  - destruct c. cbn [static_key apply_key static_crit]. rewrite map_app. cbn [map fst snd].
    rewrite IH1, IH2. reflexivity.
  - cbn [static_key]. rewrite !(apply_key_and _ (KList _)). apply static_fold. exact IH.
Qed.

Lemma static_parse : forall smax umax ks,
  static_crit smax umax (parse_keys ks) = parse_keys (map (static_key smax umax) ks).
Proof.
  intros. unfold parse_keys. rewrite static_fold; [reflexivity|].
  apply Forall_forall. intros k _ c. apply static_apply.
Qed.

Lemma msg_view_size : forall q m, m_size (msg_view q m) = Z.of_nat (length (mm_buf m)).
Proof. intros. unfold msg_view. destruct (read_header (mm_buf m)) as [[hdr body] e]. reflexivity. Qed.
Lemma msg_view_seq : forall q m, m_seq (msg_view q m) = q.
Proof. intros. unfold msg_view. destruct (read_header (mm_buf m)) as [[hdr body] e]. reflexivity. Qed.
Lemma msg_view_uid : forall q m, m_uid (msg_view q m) = mm_uid m.
Proof. intros. unfold msg_view. destruct (read_header (mm_buf m)) as [[hdr body] e]. reflexivity. Qed.

Lemma wf_static_key : forall smax umax k, wf_key (static_key smax umax k) = wf_key k.
Proof.
  intros smax umax k.
  induction k as [k Hleaf | k IH | k1 k2 IH1 IH2 | ks IH] using skey_ind'.
  - destruct k; try contradiction; reflexivity.
  - cbn [static_key wf_key]. exact IH.
  - cbn [static_key wf_key]. rewrite IH1, IH2. reflexivity.
  - cbn [static_key wf_key]. induction IH as [|k ks Hk _ IH']; cbn [map forallb]; [reflexivity|].
    rewrite Hk, IH'. reflexivity.
Qed.

Lemma wf_static_keys : forall smax umax ks,
  forallb wf_key (map (static_key smax umax) ks) = forallb wf_key ks.
Proof.
  intros. induction ks as [|k ks IH]; cbn [map forallb]; [reflexivity|].
  rewrite wf_static_key, IH. reflexivity.
Qed.

Lemma search_hits_spec : forall mb keys, forallb wf_key keys = true ->
  search_hits mb (parse_keys keys) =
  filter (fun sm => forallb (key_matches (msg_view (fst sm) (snd sm)))
                            (map (static_key (seq_max mb) (uid_max mb)) keys)) (numbered mb).
Proof.
  intros mb keys Hwf. unfold search_hits. apply filter_ext'. intros [q m]. cbn [fst snd].
  rewrite static_parse. apply keys_conjunction.
  - rewrite msg_view_size. lia.
  - rewrite wf_static_keys. assumption.
Qed.

Lemma list_min_spec : forall l, l <> [] -> In (list_min l) l /\ forall x, In x l -> list_min l <= x.
Proof.
  induction l as [|a l IH]; intro Hne; [congruence|].
  destruct l as [|b l].
  - cbn [list_min In]. split; [left; reflexivity|]. intros x [<-|[]]. lia.
  - destruct IH as [IH1 IH2]; [discriminate|].
    change (list_min (a :: b :: l)) with (N.min a (list_min (b :: l))).
    split.
    + destruct (N.min_spec a (list_min (b :: l))) as [[_ ->]|[_ ->]]; [left; reflexivity|right; exact IH1].
    + intros x [<-|Hx]; [lia|]. specialize (IH2 x Hx). lia.
Qed.

Lemma list_max_spec : forall l, l <> [] -> In (list_max l) l /\ forall x, In x l -> x <= list_max l.
Proof.
  induction l as [|a l IH]; intro Hne; [congruence|].
  cbn [list_max]. destruct l as [|b l].
  - cbn [list_max In]. split; [left; lia|]. intros x [<-|[]]. lia.
  - destruct IH as [IH1 IH2]; [discriminate|]. split.
    + destruct (N.max_spec a (list_max (b :: l))) as [[_ ->]|[_ ->]]; [right; exact IH1|left; reflexivity].
    + intros x [<-|Hx]; [lia|]. specialize (IH2 x Hx). lia.
Qed.

Lemma number_from_In : forall l i q m, In (q, m) (number_from i l) ->
  i <= q /\ q < i + N.of_nat (length l) /\ In m l.
Proof.
  induction l as [|x l IH]; intros i q m H; cbn [number_from] in H; [destruct H|].
  destruct H as [H|H].
  - injection H as <- <-. cbn [length In]. split; [lia|]. split; [lia|]. left. reflexivity.
  - apply IH in H. cbn [length In]. destruct H as (H1 & H2 & H3). split; [lia|]. split; [lia|].
    right. assumption.
Qed.

Lemma numbered_In : forall mb q m, In (q, m) (numbered mb) ->
  1 <= q /\ q <= N.of_nat (length (mb_msgs mb)) /\ In m (mb_msgs mb).
Proof.
  intros mb q m H. apply number_from_In in H. destruct H as (H1 & H2 & H3).
  split; [assumption|]. split; [lia|assumption].
Qed.

(* the numbers SEARCH returns are exactly those of the messages that satisfy every key *)
Theorem search_exact : forall s k uid ret keys s' r, state_ok s -> forallb wf_key keys = true ->
  step s (k, CSearch uid ret keys) = Some (s', r) -> r_class r = 0 ->
  s' = s /\
  exists i mb, sel_of s k = Some i /\ nth_error (st_heap s) i = Some mb /\
    let hits := filter (fun sm => forallb (key_matches (msg_view (fst sm) (snd sm)))
                                        (map (static_key (seq_max mb) (uid_max mb)) keys)) (numbered mb) in
    let nums := map (fun sm => if uid then mm_uid (snd sm) else fst sm) hits in
    r_data r = [do_search mb uid ret keys] /\
    (sr_ext ret = false -> r_data r = [RSearch nums]) /\
    (sr_ext ret = true -> exists all mn mx cnt, r_data r = [RESearch uid all mn mx cnt] /\
        (sr_all ret = true -> all = nums) /\
        (sr_count ret = true -> cnt = Some (N.of_nat (length nums))) /\
        (sr_min ret = true -> nums <> [] -> exists v, mn = Some v /\ In v nums /\ forall x, In x nums -> v <= x) /\
        (sr_max ret = true -> nums <> [] -> exists v, mx = Some v /\ In v nums /\ forall x, In x nums -> x <= v)).
Proof.
  intros s k uid ret keys s' r Hok Hwf Hstep Hcl. cbn [step] in Hstep. unfold in_selected in Hstep.
  destruct (sel_of s k) as [i|] eqn:Es; [|injection Hstep as <- <-; discriminate].
  destruct (nth_error (st_heap s) i) as [mb|] eqn:En; [|injection Hstep as <- <-; discriminate].
  injection Hstep as <- <-. split; [reflexivity|]. exists i, mb.
  split; [first [reflexivity|assumption]|]. split; [first [reflexivity|assumption]|]. cbn zeta. cbn [ok r_data].
  split; [reflexivity|].
  unfold do_search. rewrite (search_hits_spec mb keys Hwf).
  set (hits := filter _ (numbered mb)).
  set (nums := map (fun sm : N * mmsg => if uid then mm_uid (snd sm) else fst sm) hits).
  assert (Hpos : forall x, In x nums -> 1 <= x).
  { intros x Hx. unfold nums in Hx. apply in_map_iff in Hx. destruct Hx as ([q m] & <- & Hin).
    unfold hits in Hin. apply filter_In in Hin. destruct Hin as [Hin _].
    apply numbered_In in Hin. destruct Hin as (Hq & _ & Hm). cbn [fst snd].
    destruct uid; [|assumption].
    destruct Hok as (Hheap & _). destruct (Hheap i mb En) as [(_ & Hu & _) _].
    apply Hu. assumption. }
  split.
  - intros ->. reflexivity.
  - intros ->. cbn [negb]. eexists _, _, _, _. split; [reflexivity|].
    split; [intros ->; reflexivity|].
    split; [intros ->; reflexivity|].
    split.
    + intros -> Hne. destruct (list_min_spec nums Hne) as [H1 H2].
      exists (list_min nums). split; [|split; assumption].
      specialize (Hpos _ H1). cbn [andb].
      destruct (N.eqb_spec (list_min nums) 0); [lia|reflexivity].
    + intros -> Hne. destruct (list_max_spec nums Hne) as [H1 H2].
      exists (list_max nums). split; [|split; assumption].
      specialize (Hpos _ H1). cbn [andb].
      destruct (N.eqb_spec (list_max nums) 0); [lia|reflexivity].
Qed.

(* a sequence-set key means what RFC 3501 says, "*" being the last message *)
Theorem search_set_keys : forall mb q m set, mailbox_ok mb -> fits32 mb -> wire_set set = true ->
  In (q, m) (numbered mb) ->
  key_matches (msg_view q m) (KSeq (static_set (seq_max mb) set)) = set_addresses (seq_max mb) set q /\
  key_matches (msg_view q m) (KUid (static_set (uid_max mb) set)) = set_addresses (last_uid mb) set (mm_uid m).
Proof.
  intros mb q m set Hmb Hfit Hw Hin. cbn [key_matches]. rewrite msg_view_seq, msg_view_uid.
  pose proof (numbered_In _ _ _ Hin) as (Hq1 & Hq2 & Hm).
  destruct Hmb as (_ & Hu & _). destruct Hfit as [Hf1 Hf2].
  split.
  - replace (negb (q =? 0)) with true by lia. cbn [andb]. unfold seq_max.
    apply static_set_spec; try assumption; lia.
  - assert (Hum : uid_max mb = last_uid mb /\ 1 <= last_uid mb < mb_next mb).
    { unfold uid_max, last_uid. destruct (rev (mb_msgs mb)) as [|x l] eqn:Er.
      - apply (f_equal (@rev mmsg)) in Er. rewrite rev_involutive in Er. rewrite Er in Hm. destruct Hm.
      - split; [reflexivity|]. apply Hu. apply in_rev. rewrite Er. left. reflexivity. }
    destruct Hum as [-> Hl]. specialize (Hu m Hm).
    apply static_set_spec; try assumption; lia.
Qed.
