(* Proofs/ServerConnProofs.v — proofs for C05 about Model/ServerConn.v.
   The per-command facts are decided by computation over the finite space
   (16 configurations x 8 connection states x 36 commands x 4 outcome pairs) and lifted to
   all arguments by enumeration-completeness lemmas; sequences follow by induction. *)
From GoImap.Base Require Import Bytes.
From GoImap.Model Require Import ServerConn.
From GoImap.Proofs Require Import ServerConnSpec.

Definition all_bools := [true; false].
Definition all_cfgs : list scfg :=
  flat_map (fun a => flat_map (fun b => flat_map (fun c => map (fun d => mkScfg a b c d) all_bools) all_bools) all_bools) all_bools.
Definition all_states := [SNotAuth; SAuth; SSelected; SLogout].
Definition all_conns : list conn := flat_map (fun s => map (fun t => mkConn s t) all_bools) all_states.
Definition all_cmds : list cmd :=
  [CCapability; CNoop; CLogout; CStartTLS; CLogin; CAuthPlain; CUnauthenticate; CEnable;
   CSelect; CExamine; CCreate; CDelete; CRename; CSubscribe; CUnsubscribe; CList; CLsub; CStatus;
   CAppend; CNamespace; CIdle; CClose; CUnselect; CExpunge; CUidExpunge;
   CFetch true; CFetch false; CStore true; CStore false; CSearch true; CSearch false;
   CCopy true; CCopy false; CMove true; CMove false; CUnknown].

Lemma in_bools b : In b all_bools. Proof. destruct b; cbn; auto. Qed.
Lemma in_cfgs cfg : In cfg all_cfgs.
Proof. destruct cfg as [[] [] [] []]; vm_compute; tauto. Qed.
Lemma in_conns c : In c all_conns.
Proof. destruct c as [[] []]; vm_compute; tauto. Qed.
Lemma in_cmds m : In m all_cmds.
Proof. destruct m as [| | | | | | | | | | | | | | | | | | | | | | | | |[]|[]|[]|[]|[]|]; vm_compute; tauto. Qed.

Definition forall_cases (P : scfg -> conn -> cmd -> bool -> bool -> bool) : bool :=
  forallb (fun cfg => forallb (fun c => forallb (fun m => forallb (fun o1 => forallb (fun o2 =>
    P cfg c m o1 o2) all_bools) all_bools) all_cmds) all_conns) all_cfgs.

Lemma forall_cases_spec P : forall_cases P = true -> forall cfg c m o1 o2, P cfg c m o1 o2 = true.
Proof.
  unfold forall_cases. intros H cfg c m o1 o2.
  rewrite forallb_forall in H. specialize (H cfg (in_cfgs cfg)).
  rewrite forallb_forall in H. specialize (H c (in_conns c)).
  rewrite forallb_forall in H. specialize (H m (in_cmds m)).
  rewrite forallb_forall in H. specialize (H o1 (in_bools o1)).
  rewrite forallb_forall in H. exact (H o2 (in_bools o2)).
Qed.

(* a command looks at no more than the outcomes of its first two backend calls *)
Lemma handle_outs cfg c m outs :
  handle cfg c m outs = handle cfg c m [outcome1 outs; outcome2 outs].
Proof.
  destruct outs as [|o1 [|o2 rest]]; cbn [outcome1 outcome2];
  destruct m; try reflexivity; unfold handle, simple, next_ok;
  destruct c as [[] ?]; cbn; try reflexivity; try (destruct o1; reflexivity);
  try (destruct o1, o2; reflexivity); try (destruct (c_unauth cfg), o1; reflexivity);
  try (destruct (c_tlsconfig cfg); reflexivity);
  repeat match goal with |- context [if ?b then _ else _] => destruct b end; reflexivity.
Qed.

Definition cstate_eqb (a b : cstate) : bool :=
  match a, b with
  | SNotAuth, SNotAuth | SAuth, SAuth | SSelected, SSelected | SLogout, SLogout => true
  | _, _ => false
  end.
Lemma cstate_eqb_eq a b : cstate_eqb a b = true <-> a = b.
Proof. destruct a, b; cbn; split; intros; congruence. Qed.

Definition is_login (kc : call * cstate) : bool := match fst kc with KLogin => true | _ => false end.

(* ---- the boolean facts, decided by computation ---- *)
Definition P_calls cfg c m o1 o2 := forallb (fun kc => permitted (fst kc) (snd kc)) (r_calls (handle cfg c m [o1; o2])).
Definition P_creds cfg c m o1 o2 :=
  if existsb is_login (r_calls (handle cfg c m [o1; o2])) then tls c || c_insecure cfg else true.
Definition P_rfc cfg c m o1 o2 :=
  cstate_eqb (st c) SLogout || cstate_eqb (st (r_conn (handle cfg c m [o1; o2]))) (rfc_next cfg c m o1 o2).
Definition P_tls cfg c m o1 o2 :=
  let c' := r_conn (handle cfg c m [o1; o2]) in
  Bool.eqb (tls c') (tls c) ||
  (match m with CStartTLS => true | _ => false end && negb (tls c) && cstate_eqb (st c) SNotAuth && c_tlsconfig cfg && tls c').
Definition P_bye cfg c m o1 o2 :=
  let r := handle cfg c m [o1; o2] in
  cstate_eqb (st c) SLogout ||
  (Bool.eqb (r_bye r) (match m with CLogout => true | CUnknown => cstate_eqb (st c) SNotAuth | _ => false end)
   && (negb (r_bye r) || cstate_eqb (st (r_conn r)) SLogout)).
Definition P_bad cfg c m o1 o2 :=
  let r := handle cfg c m [o1; o2] in
  match r_class r with RBad => match r_calls r with [] => true | _ => false end | _ => true end.

Lemma all_calls : forall_cases P_calls = true. Proof. vm_compute. reflexivity. Qed.
Lemma all_creds : forall_cases P_creds = true. Proof. vm_compute. reflexivity. Qed.
Lemma all_rfc : forall_cases P_rfc = true. Proof. vm_compute. reflexivity. Qed.
Lemma all_tls : forall_cases P_tls = true. Proof. vm_compute. reflexivity. Qed.
Lemma all_bye : forall_cases P_bye = true. Proof. vm_compute. reflexivity. Qed.
Lemma all_bad : forall_cases P_bad = true. Proof. vm_compute. reflexivity. Qed.

(* ---- per-command theorems ---- *)
Lemma handle_calls_permitted : forall cfg c m outs k s,
  In (k, s) (r_calls (handle cfg c m outs)) -> permitted k s = true.
Proof.
  intros cfg c m outs k s H. rewrite handle_outs in H.
  pose proof (forall_cases_spec _ all_calls cfg c m (outcome1 outs) (outcome2 outs)) as P.
  unfold P_calls in P. rewrite forallb_forall in P. exact (P (k, s) H).
Qed.

Lemma handle_creds_need_tls : forall cfg c m outs s,
  In (KLogin, s) (r_calls (handle cfg c m outs)) -> tls c = true \/ c_insecure cfg = true.
Proof.
  intros cfg c m outs s H. rewrite handle_outs in H.
  pose proof (forall_cases_spec _ all_creds cfg c m (outcome1 outs) (outcome2 outs)) as P.
  unfold P_creds in P.
  assert (E : existsb is_login (r_calls (handle cfg c m [outcome1 outs; outcome2 outs])) = true).
  { apply existsb_exists. exists (KLogin, s). split; [exact H | reflexivity]. }
  rewrite E in P. apply orb_true_iff in P. exact P.
Qed.

Lemma handle_refines_rfc : forall cfg c m outs, st c <> SLogout ->
  st (r_conn (handle cfg c m outs)) = rfc_next cfg c m (outcome1 outs) (outcome2 outs).
Proof.
  intros cfg c m outs Hn. rewrite handle_outs.
  pose proof (forall_cases_spec _ all_rfc cfg c m (outcome1 outs) (outcome2 outs)) as P.
  unfold P_rfc in P. apply orb_true_iff in P. destruct P as [P|P]; apply cstate_eqb_eq in P; [contradiction | exact P].
Qed.

Lemma handle_tls_monotone : forall cfg c m outs,
  tls (r_conn (handle cfg c m outs)) = tls c \/
  (m = CStartTLS /\ tls c = false /\ st c = SNotAuth /\ c_tlsconfig cfg = true /\
   tls (r_conn (handle cfg c m outs)) = true).
Proof.
  intros cfg c m outs. rewrite handle_outs.
  pose proof (forall_cases_spec _ all_tls cfg c m (outcome1 outs) (outcome2 outs)) as P.
  unfold P_tls in P. cbv zeta in P. apply orb_true_iff in P. destruct P as [P|P].
  - left. apply Bool.eqb_prop in P. exact P.
  - right. repeat (apply andb_true_iff in P; destruct P as [P ?]).
    destruct m; try discriminate. repeat split; auto.
    + apply negb_true_iff; assumption.
    + apply cstate_eqb_eq; assumption.
Qed.

Lemma handle_bye : forall cfg c m outs, st c <> SLogout ->
  (r_bye (handle cfg c m outs) = true <-> (m = CLogout \/ (m = CUnknown /\ st c = SNotAuth))) /\
  (r_bye (handle cfg c m outs) = true -> st (r_conn (handle cfg c m outs)) = SLogout).
Proof.
  intros cfg c m outs Hn. rewrite handle_outs.
  pose proof (forall_cases_spec _ all_bye cfg c m (outcome1 outs) (outcome2 outs)) as P.
  unfold P_bye in P. cbv zeta in P. apply orb_true_iff in P. destruct P as [P|P].
  { apply cstate_eqb_eq in P. contradiction. }
  apply andb_true_iff in P. destruct P as [P1 P2]. apply Bool.eqb_prop in P1. split.
  - rewrite P1. destruct m; split; intros H; try discriminate; auto;
    try (destruct H as [H|[H _]]; discriminate).
    + right. split; [reflexivity | apply cstate_eqb_eq; exact H].
    + destruct H as [H|[_ H]]; [discriminate | apply cstate_eqb_eq; exact H].
  - intros H. rewrite H in P2. cbn in P2. apply cstate_eqb_eq. exact P2.
Qed.

Lemma handle_bad_no_calls : forall cfg c m outs,
  r_class (handle cfg c m outs) = RBad -> r_calls (handle cfg c m outs) = [].
Proof.
  intros cfg c m outs. rewrite handle_outs. intros H.
  pose proof (forall_cases_spec _ all_bad cfg c m (outcome1 outs) (outcome2 outs)) as P.
  unfold P_bad in P. cbv zeta in P. rewrite H in P.
  destruct (r_calls (handle cfg c m [outcome1 outs; outcome2 outs])); [reflexivity | discriminate].
Qed.

(* ---- lifted to every command sequence: the serve loop ---- *)
Lemma serve_calls_permitted : forall cmds cfg c r k s,
  In r (serve cfg c cmds) -> In (k, s) (r_calls r) -> permitted k s = true.
Proof.
  induction cmds as [|[m outs] rest IH]; intros cfg c r k s Hr Hk; [contradiction|].
  cbn [serve] in Hr. destruct (st c) eqn:E; try contradiction;
  (destruct Hr as [<-|Hr]; [eapply handle_calls_permitted; eauto | eapply IH; eauto]).
Qed.

(* the connection each command of a run was handled on *)
Fixpoint serve_conns (cfg : scfg) (c : conn) (cmds : list (cmd * list bool)) : list (conn * result) :=
  match cmds with
  | [] => []
  | (m, outs) :: rest =>
      match st c with
      | SLogout => []
      | _ => let r := handle cfg c m outs in (c, r) :: serve_conns cfg (r_conn r) rest
      end
  end.

Lemma serve_conns_results : forall cmds cfg c, map snd (serve_conns cfg c cmds) = serve cfg c cmds.
Proof. induction cmds as [|[m o] r IH]; intros; cbn; [reflexivity|]. destruct (st c); cbn; try reflexivity; f_equal; apply IH. Qed.

Lemma serve_creds : forall cmds cfg c c' r s,
  In (c', r) (serve_conns cfg c cmds) -> In (KLogin, s) (r_calls r) ->
  tls c' = true \/ c_insecure cfg = true.
Proof.
  induction cmds as [|[m outs] rest IH]; intros cfg c c' r s Hr Hk; [contradiction|].
  cbn [serve_conns] in Hr. destruct (st c) eqn:E; try contradiction;
  (destruct Hr as [Heq|Hr]; [inversion Heq; subst; eapply handle_creds_need_tls; eauto | eapply IH; eauto]).
Qed.

(* LOGOUT (or any BYE) ends command processing: nothing after it is handled *)
Lemma serve_stops_at_logout : forall cfg c cmds, st c = SLogout -> serve cfg c cmds = [].
Proof. intros cfg c [|[m o] r] H; cbn; [reflexivity|]. rewrite H. reflexivity. Qed.
