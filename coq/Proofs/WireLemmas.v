(* Proofs/WireLemmas.v — helper lemmas for C01 about Model/Wire.v. *)
From GoImap.Base Require Import Bytes.
From GoImap.Model Require Import NumSet MatchList Utf7 Wire.
From GoImap.Proofs Require Import NumSetSpec NumSetLemmas NumSetText NumSetProofs
  Utf7Spec Utf7Codec Utf7Lemmas Utf7Proofs WireSpec.
From Coq Require Import ZifyN ZifyNat ZifyBool.
Open Scope N_scope.

(* ---------------------------------------------------------------- *)
(* byte plumbing *)
Lemma beqb_true_iff : forall a b, beqb a b = true <-> a = b.
Proof. intros a b. unfold beqb. apply Ascii.eqb_eq. Qed.

Lemma beqb_false_iff : forall a b, beqb a b = false <-> a <> b.
Proof. intros a b. unfold beqb. apply Ascii.eqb_neq. Qed.

Lemma bytes_eqb_refl : forall a, bytes_eqb a a = true.
Proof. induction a; cbn; [reflexivity|]. rewrite beqb_refl, IHa. reflexivity. Qed.

Lemma bytes_eqb_true_iff : forall a b, bytes_eqb a b = true <-> a = b.
Proof. intros a b. split; [apply bytes_eqb_eq|intros ->; apply bytes_eqb_refl]. Qed.

Lemma bytes_eqb_false_iff : forall a b, bytes_eqb a b = false <-> a <> b.
Proof.
  intros a b. destruct (bytes_eqb a b) eqn:E.
  - apply bytes_eqb_eq in E. split; [discriminate|congruence].
  - split; [|reflexivity]. intros _ ->. rewrite bytes_eqb_refl in E. discriminate.
Qed.

Lemma flatten_single : forall b, flatten [SBytes b] = b.
Proof. intros b. cbn. apply app_nil_r. Qed.

(* ---------------------------------------------------------------- *)
(* take_while / dec_func *)
Lemma take_while_app : forall valid a c rest, forallb valid a = true -> valid c = false ->
  take_while valid (a ++ c :: rest) = Some (a, c :: rest).
Proof.
  intros valid a c rest. induction a as [|x a IH]; cbn [forallb app take_while]; intros Ha Hc.
  - rewrite Hc. reflexivity.
  - apply andb_true_iff in Ha. destruct Ha as [Hx Ha]. rewrite Hx, (IH Ha Hc). reflexivity.
Qed.

Lemma dec_func_app : forall valid a c rest, a <> [] -> forallb valid a = true -> valid c = false ->
  dec_func valid (a ++ c :: rest) = DOk a (c :: rest).
Proof.
  intros valid a c rest Hn Ha Hc. unfold dec_func. rewrite (take_while_app _ _ _ _ Ha Hc).
  destruct a; [congruence|reflexivity].
Qed.

Lemma dec_func_no : forall valid c rest, valid c = false -> dec_func valid (c :: rest) = DNo (c :: rest).
Proof. intros valid c rest Hc. unfold dec_func. cbn [take_while]. rewrite Hc. reflexivity. Qed.

(* ---------------------------------------------------------------- *)
(* quoted strings *)
Lemma quoted_body_escape : forall s rest, quoted_body (escape_quoted s ++ DQ_ :: rest) = Some (s, rest).
Proof.
  induction s as [|c s IH]; intros rest; cbn [escape_quoted app quoted_body].
  - rewrite beqb_refl. reflexivity.
  - destruct (beqb c DQ_) eqn:E1; cbn [orb].
    + cbn [app quoted_body]. change (beqb BSL_ DQ_) with false. cbv iota. rewrite beqb_refl.
      rewrite IH. reflexivity.
    + destruct (beqb c BSL_) eqn:E2.
      * cbn [app quoted_body]. change (beqb BSL_ DQ_) with false. cbv iota. rewrite beqb_refl.
        rewrite IH. reflexivity.
      * cbn [app quoted_body]. rewrite E1, E2, IH. reflexivity.
Qed.

Lemma quoted_roundtrip' : forall s rest, dec_quoted (enc_quoted s ++ rest) = DOk s rest.
Proof.
  intros s rest. unfold dec_quoted, enc_quoted. cbn [app dec_special]. rewrite beqb_refl.
  rewrite <- app_assoc. cbn [app]. rewrite quoted_body_escape. reflexivity.
Qed.

(* ---------------------------------------------------------------- *)
(* numbers *)
Lemma dec_digits : forall n, forallb is_digit (dec_of_N n) = true.
Proof. intros n. apply forallb_forall. intros x Hx. eapply digits_dec; eauto. Qed.

Lemma dec_nonnil : forall n, dec_of_N n <> [].
Proof.
  intros n. destruct (N.eq_dec n 0) as [->|Hn]; [vm_compute; discriminate|].
  destruct (dec_head n) as (c & r & -> & _); [lia|discriminate].
Qed.

Lemma dec_uint_roundtrip : forall bound n rest, n < bound ->
  (match rest with [] => False | c :: _ => is_digit c = false end) ->
  dec_uint bound (dec_of_N n ++ rest) = DOk n rest.
Proof.
  intros bound n rest Hn Hr. destruct rest as [|c rest]; [contradiction|].
  unfold dec_uint. rewrite (dec_func_app _ _ _ _ (dec_nonnil n) (dec_digits n) Hr).
  rewrite (parse_uint_dec n bound Hn). reflexivity.
Qed.

(* ---------------------------------------------------------------- *)
(* small decoder steps *)
Lemma dec_special_hit : forall c r, dec_special c (c :: r) = DOk tt r.
Proof. intros c r. cbn. rewrite beqb_refl. reflexivity. Qed.

Lemma dec_special_miss : forall c x r, beqb x c = false -> dec_special c (x :: r) = DNo (x :: r).
Proof. intros c x r H. cbn. rewrite H. reflexivity. Qed.

Lemma dec_crlf_crlf : forall r, dec_crlf (CR_ :: LF_ :: r) = DOk tt r.
Proof. intros r. reflexivity. Qed.

Lemma dec_quoted_miss : forall x r, beqb x DQ_ = false -> dec_quoted (x :: r) = DNo (x :: r).
Proof. intros x r H. unfold dec_quoted. rewrite (dec_special_miss _ _ _ H). reflexivity. Qed.

Lemma dec_literal_miss : forall srv x r, beqb x (ch "{") = false -> dec_literal srv (x :: r) = DNo (x :: r).
Proof. intros srv x r H. unfold dec_literal. rewrite (dec_special_miss _ _ _ H). reflexivity. Qed.

Lemma dec_string_miss : forall srv x r, beqb x DQ_ = false -> beqb x (ch "{") = false ->
  dec_string srv (x :: r) = DNo (x :: r).
Proof.
  intros srv x r H1 H2. unfold dec_string. rewrite (dec_quoted_miss _ _ H1).
  apply dec_literal_miss. exact H2.
Qed.

Lemma firstn_length_app : forall (A : Type) (a b : list A), firstn (length a) (a ++ b) = a.
Proof.
  intros A a b. rewrite firstn_app, Nat.sub_diag, firstn_all. cbn. apply app_nil_r.
Qed.

Lemma take_n_firstn : forall l n, take_n l n = firstn (N.to_nat n) l.
Proof.
  induction l as [|x r IH]; intros n; cbn [take_n].
  - rewrite firstn_nil. reflexivity.
  - destruct (N.eqb_spec n 0) as [->|Hn]; [reflexivity|].
    rewrite IH. replace (N.to_nat n) with (S (N.to_nat (n - 1))) by lia. reflexivity.
Qed.
Lemma drop_n_skipn : forall l n, drop_n l n = skipn (N.to_nat n) l.
Proof.
  induction l as [|x r IH]; intros n; cbn [drop_n].
  - rewrite skipn_nil. reflexivity.
  - destruct (N.eqb_spec n 0) as [->|Hn]; [reflexivity|].
    rewrite IH. replace (N.to_nat n) with (S (N.to_nat (n - 1))) by lia. reflexivity.
Qed.

Lemma dec_literal_hdr : forall srv (plus : bool) s rest, fits_int64 s -> (plus = true -> srv = true) ->
  dec_literal srv (ch "{" :: dec_of_N (N.of_nat (length s)) ++ (if plus then [ch "+"] else []) ++
                   ch "}" :: CR_ :: LF_ :: s ++ rest) = DOk s rest.
Proof.
  intros srv plus s rest Hs Hp. unfold dec_literal. rewrite dec_special_hit.
  unfold dec_number64.
  rewrite dec_uint_roundtrip; [|exact Hs|destruct plus; reflexivity].
  cbv zeta.
  destruct plus; [rewrite (Hp eq_refl)|destruct srv]; cbn [app];
    try change (b2n (ch "+") =? 43) with true;
    try change (b2n (ch "}") =? 43) with false; cbv iota;
    rewrite dec_special_hit, dec_crlf_crlf, take_n_firstn, drop_n_skipn, Nat2N.id, firstn_length_app, skipn_length_app;
    reflexivity.
Qed.

Lemma enc_literal_shape : forall cfg s segs, enc_literal cfg s = Some segs ->
  exists plus : bool, (plus = true -> client_side cfg = true) /\
    flatten segs = ch "{" :: dec_of_N (N.of_nat (length s)) ++ (if plus then [ch "+"] else []) ++
                   ch "}" :: CR_ :: LF_ :: s.
Proof.
  intros cfg s segs H. unfold enc_literal in H.
  destruct (client_side cfg && (negb (literal_minus cfg) || (4096 <? N.of_nat (length s))) &&
            negb (literal_plus cfg)) eqn:Hsync.
  - destruct (cont_granted cfg) as [[|]|]; try discriminate. inversion H; subst segs.
    exists false. split; [discriminate|].
    cbn [flatten flat_map]. change (s2b "{") with [ch "{"]. change (s2b "}") with [ch "}"].
    rewrite app_nil_r. cbn [app]. rewrite <- !app_assoc. cbn [app]. reflexivity.
  - inversion H; subst segs. exists (client_side cfg). split; [auto|].
    cbn [flatten flat_map]. change (s2b "{") with [ch "{"]. change (s2b "}") with [ch "}"].
    change (s2b "+") with [ch "+"]. rewrite app_nil_r. cbn [app]. reflexivity.
Qed.

Lemma literal_roundtrip : forall cfg s segs rest, fits_int64 s -> enc_literal cfg s = Some segs ->
  dec_literal (client_side cfg) (flatten segs ++ rest) = DOk s rest /\
  exists t, flatten segs ++ rest = ch "{" :: t.
Proof.
  intros cfg s segs rest Hs H. destruct (enc_literal_shape _ _ _ H) as (plus & Hp & ->).
  split.
  - cbn [app]. rewrite <- !app_assoc. cbn [app].
    apply dec_literal_hdr; assumption.
  - eexists. cbn [app]. reflexivity.
Qed.

Lemma not_atom_dq : is_atom_char DQ_ = false. Proof. reflexivity. Qed.
Lemma not_atom_lbrace : is_atom_char (ch "{") = false. Proof. reflexivity. Qed.

Lemma string_roundtrip' : forall cfg s segs rest, fits_int64 s ->
  enc_string cfg s = Some segs ->
  dec_string (peer_server cfg) (flatten segs ++ rest) = DOk s rest /\
  dec_astring (peer_server cfg) (flatten segs ++ rest) = DOk s rest /\
  dec_nstring (peer_server cfg) (flatten segs ++ rest) = DOk s rest.
Proof.
  intros cfg s segs rest Hs H. unfold enc_string in H.
  assert (Hstr : dec_string (peer_server cfg) (flatten segs ++ rest) = DOk s rest /\
                 exists c t, flatten segs ++ rest = c :: t /\ is_atom_char c = false).
  { destruct (valid_quoted cfg s).
    - inversion H; subst segs. rewrite flatten_single. split.
      + unfold dec_string. rewrite quoted_roundtrip'. reflexivity.
      + exists DQ_. eexists. split; [reflexivity|reflexivity].
    - destruct (literal_roundtrip cfg s segs rest Hs H) as [Hl [t Ht]]. split.
      + unfold dec_string. rewrite Ht. rewrite dec_quoted_miss by reflexivity.
        rewrite <- Ht. exact Hl.
      + exists (ch "{"), t. split; [exact Ht|reflexivity]. }
  destruct Hstr as [Hstr (c & t & Hc & Hna)].
  split; [exact Hstr|]. split.
  - unfold dec_astring. rewrite Hstr. reflexivity.
  - unfold dec_nstring. rewrite Hc at 1. unfold dec_atom. rewrite (dec_func_no _ _ _ Hna).
    rewrite Hstr. reflexivity.
Qed.

(* ---------------------------------------------------------------- *)
(* quoted strings stay clean *)
Lemma forallb_escape : forall (p : byte -> bool) s, p BSL_ = true ->
  forallb p s = true -> forallb p (escape_quoted s) = true.
Proof.
  intros p s Hb. induction s as [|c s IH]; cbn [escape_quoted forallb]; intros H; [reflexivity|].
  apply andb_true_iff in H. destruct H as [Hc Hs].
  destruct (beqb c DQ_ || beqb c BSL_); cbn [forallb]; rewrite ?Hb, Hc, (IH Hs); reflexivity.
Qed.

Lemma forallb_enc_quoted : forall (p : byte -> bool) s, p BSL_ = true -> p DQ_ = true ->
  forallb p s = true -> forallb p (enc_quoted s) = true.
Proof.
  intros p s Hb Hq H. unfold enc_quoted. change (DQ_ :: escape_quoted s ++ [DQ_]) with ([DQ_] ++ escape_quoted s ++ [DQ_]).
  rewrite !forallb_app. apply andb_true_iff. split; [cbn [forallb]; rewrite Hq; reflexivity|].
  apply andb_true_iff. split; [exact (forallb_escape p s Hb H)|cbn [forallb]; rewrite Hq; reflexivity].
Qed.

Lemma string_quoted_only_if_valid' : forall cfg s, valid_quoted cfg s = true ->
  enc_string cfg s = Some [SBytes (enc_quoted s)] /\
  forallb (fun c => negb ((b2n c =? 0) || (b2n c =? 13) || (b2n c =? 10))) (enc_quoted s) = true /\
  (quoted_utf8 cfg = false -> forallb (fun c => b2n c <=? 127) (enc_quoted s) = true).
Proof.
  intros cfg s H. split; [unfold enc_string; rewrite H; reflexivity|].
  unfold valid_quoted in H. apply andb_true_iff in H. destruct H as [_ H].
  rewrite forallb_forall in H. split.
  - apply forallb_enc_quoted; [reflexivity|reflexivity|]. apply forallb_forall. intros x Hx.
    specialize (H x Hx). cbv zeta in H. apply andb_true_iff in H. apply H.
  - intros Hq. apply forallb_enc_quoted; [reflexivity|reflexivity|]. apply forallb_forall.
    intros x Hx. specialize (H x Hx). cbv zeta in H. apply andb_true_iff in H.
    rewrite Hq in H. destruct H as [_ H]. exact H.
Qed.

(* ---------------------------------------------------------------- *)
(* flags *)
Lemma atom_char_facts : forall c, is_atom_char c = true ->
  beqb c BSL_ = false /\ beqb c (ch "*") = false /\ beqb c DQ_ = false /\ beqb c (ch "{") = false /\
  beqb c (ch "(") = false /\ beqb c (ch ")") = false /\ beqb c CR_ = false /\ beqb c LF_ = false /\
  beqb c SP_ = false.
Proof.
  intros [[] [] [] [] [] [] [] []]; vm_compute; intros H; try discriminate H; repeat split.
Qed.

Lemma valid_flag_chars_false : forall s, valid_flag_chars false s = true -> forallb is_atom_char s = true.
Proof.
  induction s as [|c s IH]; cbn [valid_flag_chars forallb]; intros H; [reflexivity|].
  apply andb_true_iff in H. destruct H as [Hc Hs]. destruct (beqb c BSL_); [discriminate|].
  rewrite Hc, (IH Hs). reflexivity.
Qed.

Definition nonatom (rest : bytes) : Prop :=
  match rest with [] => False | c :: _ => is_atom_char c = false end.

Lemma delimited_nonatom : forall rest, delimited rest -> nonatom rest.
Proof. intros [|c r]; cbn; [auto|]. intros [H _]. exact H. Qed.

Lemma dec_atom_app : forall a rest, a <> [] -> forallb is_atom_char a = true -> nonatom rest ->
  dec_atom (a ++ rest) = DOk a rest.
Proof.
  intros a [|c rest] Hn Ha Hr; [contradiction|]. unfold dec_atom. apply dec_func_app; assumption.
Qed.

Lemma dec_flag_valid : forall f rest, nonatom rest -> is_valid_flag f = true ->
  dec_flag (f ++ rest) = DOk (canonical_flag f) rest.
Proof.
  intros f rest Hr Hv. unfold is_valid_flag in Hv.
  apply andb_true_iff in Hv. destruct Hv as [Hv Hne].
  apply andb_true_iff in Hv. destruct Hv as [Hv Hnn].
  destruct f as [|c f]; [discriminate|]. clear Hnn.
  cbn [valid_flag_chars] in Hv. apply andb_true_iff in Hv. destruct Hv as [Hc Hf].
  apply valid_flag_chars_false in Hf.
  unfold dec_flag. cbn [app]. destruct (beqb c BSL_) eqn:Ec.
  - apply beqb_true_iff in Ec. subst c. rewrite dec_special_hit.
    destruct f as [|d f]; [discriminate|].
    assert (Hd : is_atom_char d = true) by (cbn [forallb] in Hf; apply andb_true_iff in Hf; apply Hf).
    destruct (atom_char_facts d Hd) as (_ & Hstar & _).
    cbn [app]. rewrite (dec_special_miss _ _ _ Hstar).
    change (d :: f ++ rest) with ((d :: f) ++ rest).
    rewrite dec_atom_app; [reflexivity|discriminate|exact Hf|exact Hr].
  - rewrite (dec_special_miss _ _ _ Ec).
    change (c :: f ++ rest) with ((c :: f) ++ rest).
    rewrite dec_atom_app; [reflexivity|discriminate| |exact Hr].
    cbn [forallb]. rewrite Hc, Hf. reflexivity.
Qed.

Lemma flag_roundtrip' : forall f segs rest, delimited rest -> enc_flag f = Some segs ->
  dec_flag (flatten segs ++ rest) = DOk (canonical_flag f) rest.
Proof.
  intros f segs rest Hr H. unfold enc_flag in H.
  destruct (bytes_eqb f (s2b "\*")) eqn:E; cbn [orb] in H.
  - inversion H; subst segs. apply bytes_eqb_eq in E. subst f. rewrite flatten_single.
    reflexivity.
  - destruct (is_valid_flag f) eqn:Ev; [|discriminate]. inversion H; subst segs.
    rewrite flatten_single. apply dec_flag_valid; [apply delimited_nonatom; exact Hr|exact Ev].
Qed.

Lemma attr_roundtrip' : forall a segs rest, delimited rest -> enc_mailbox_attr a = Some segs ->
  dec_mailbox_attr (flatten segs ++ rest) = DOk (canonical_attr (canonical_flag a)) rest.
Proof.
  intros a segs rest Hr H. unfold enc_mailbox_attr in H.
  destruct (has_prefix [BSL_] a && is_valid_flag a) eqn:E; [|discriminate].
  inversion H; subst segs. apply andb_true_iff in E. destruct E as [_ Ev].
  rewrite flatten_single. unfold dec_mailbox_attr.
  rewrite dec_flag_valid; [reflexivity|apply delimited_nonatom; exact Hr|exact Ev].
Qed.

Lemma flag_refused' : forall f, enc_flag f = None <-> (f <> s2b "\*" /\ is_valid_flag f = false).
Proof.
  intros f. unfold enc_flag. destruct (bytes_eqb f (s2b "\*")) eqn:E; cbn [orb].
  - apply bytes_eqb_eq in E. split; [discriminate|]. intros [Hn _]. contradiction.
  - apply bytes_eqb_false_iff in E. destruct (is_valid_flag f).
    + split; [discriminate|]. intros [_ H]. discriminate.
    + split; auto.
Qed.

(* canonical flags *)
Lemma fold_key_seven : forall f, seven_bit f -> fold_key f = ascii_lower f.
Proof.
  induction f as [|a f IH]; intros H; [reflexivity|].
  inversion H as [|? ? Ha Hf]; subst. cbn [fold_key].
  destruct f as [|b f]; [reflexivity|].
  replace (b2n a =? 196) with false by lia. cbn [andb].
  rewrite (IH Hf). reflexivity.
Qed.

Lemma canon_in_spec : forall known f, seven_bit f ->
  canon_in known f = f \/ (In (canon_in known f) known /\ ascii_lower (canon_in known f) = ascii_lower f).
Proof.
  intros known f Hf. induction known as [|k known IH]; cbn [canon_in]; [left; reflexivity|].
  destruct (bytes_eqb (fold_key f) (ascii_lower k)) eqn:E.
  - right. split; [left; reflexivity|]. apply bytes_eqb_eq in E. rewrite <- E.
    apply fold_key_seven. exact Hf.
  - destruct IH as [IH|[IH1 IH2]]; [left; exact IH|right]. split; [right; exact IH1|exact IH2].
Qed.

(* ---------------------------------------------------------------- *)
(* number sets *)
Lemma digit_numset_char : forall c, is_digit c = true ->
  is_numset_char c = true /\ beqb c (ch "$") = false /\ is_atom_char c = true.
Proof.
  intros [[] [] [] [] [] [] [] []]; vm_compute; intros H; try discriminate H; repeat split.
Qed.

Lemma dec_numset_chars : forall n, forallb is_numset_char (dec_of_N n) = true.
Proof.
  intros n. apply forallb_forall. intros x Hx. apply digits_dec in Hx.
  apply digit_numset_char in Hx. apply Hx.
Qed.

Lemma range_numset_chars : forall r, forallb is_numset_char (range_to_string r) = true.
Proof.
  intros [a b]. unfold range_to_string.
  destruct (a =? 0); [reflexivity|]. destruct (a =? b); [apply dec_numset_chars|].
  destruct (b =? 0); rewrite ?forallb_app, ?dec_numset_chars; reflexivity.
Qed.

Lemma join_numset_chars : forall l, (forall x, In x l -> forallb is_numset_char x = true) ->
  forallb is_numset_char (join_with (s2b ",") l) = true.
Proof.
  induction l as [|x l IH]; intros H; [reflexivity|].
  destruct l as [|y l]; [apply H; left; reflexivity|].
  rewrite join_cons2, !forallb_app. apply andb_true_iff. split; [apply H; left; reflexivity|].
  apply andb_true_iff. split; [reflexivity|]. apply IH. intros z Hz. apply H. right. exact Hz.
Qed.

Lemma to_string_numset_chars : forall s, forallb is_numset_char (to_string s) = true.
Proof.
  intros s. unfold to_string. apply join_numset_chars. intros x Hx.
  apply in_map_iff in Hx. destruct Hx as (r & <- & _). apply range_numset_chars.
Qed.

Lemma dec_first : forall n, exists c t, dec_of_N n = c :: t /\ is_digit c = true.
Proof.
  intros n. pose proof (dec_nonnil n) as Hn. pose proof (dec_digits n) as Hd.
  destruct (dec_of_N n) as [|c t]; [congruence|]. exists c, t. split; [reflexivity|].
  cbn [forallb] in Hd. apply andb_true_iff in Hd. apply Hd.
Qed.

Lemma range_first : forall r, exists c t, range_to_string r = c :: t /\ beqb c (ch "$") = false.
Proof.
  intros [a b]. unfold range_to_string. destruct (a =? 0).
  - eexists _, _. split; reflexivity.
  - destruct (dec_first a) as (c & t & E & Hc). apply digit_numset_char in Hc.
    destruct Hc as (_ & Hc & _). rewrite E.
    destruct (a =? b); [|destruct (b =? 0)]; cbn [app]; eexists _, _; (split; [reflexivity|exact Hc]).
Qed.

Lemma to_string_first : forall s, s <> [] -> exists c t, to_string s = c :: t /\ beqb c (ch "$") = false.
Proof.
  intros [|r s] Hs; [congruence|]. unfold to_string. cbn [map].
  destruct (range_first r) as (c & t & E & Hc).
  destruct (map range_to_string s) as [|y l].
  - cbn [join_with]. exists c, t. split; assumption.
  - rewrite join_cons2, E. cbn [app]. eexists _, _. split; [reflexivity|exact Hc].
Qed.

Lemma numset_roundtrip' : forall s segs rest, canon s = true -> delimited rest ->
  enc_numset s = Some segs -> dec_numset (flatten segs ++ rest) = DOk (Some s) rest.
Proof.
  intros s segs rest Hc Hr H. unfold enc_numset in H.
  assert (Hs : s <> []) by (intros ->; discriminate H).
  destruct (to_string_first s Hs) as (c & t & E & Hcd).
  assert (Hsegs : segs = [SBytes (to_string s)]).
  { rewrite E in H. inversion H. rewrite E. reflexivity. }
  subst segs. rewrite flatten_single. clear H.
  unfold dec_numset.
  assert (Hsp : dec_special (ch "$") (to_string s ++ rest) = DNo (to_string s ++ rest))
    by (rewrite E; cbn [app]; apply dec_special_miss; exact Hcd).
  rewrite Hsp. clear Hsp.
  destruct rest as [|d rest]; [contradiction|]. destruct Hr as [_ Hd].
  rewrite dec_func_app; [|rewrite E; discriminate|apply to_string_numset_chars|exact Hd].
  rewrite (string_parse s Hc Hs). reflexivity.
Qed.

(* ---------------------------------------------------------------- *)
(* mailbox names *)
Definition noamp (c : byte) : bool := negb (b2n c =? AMP).

Lemma upper_amp : forall c, noamp (to_upper_b c) = true -> noamp c = true.
Proof.
  intros [[] [] [] [] [] [] [] []]; vm_compute; intros H; try discriminate H; reflexivity.
Qed.

Lemma upper_eq_noamp : forall t k, bytes_eqb (ascii_upper t) k = true ->
  forallb noamp k = true -> forallb noamp t = true.
Proof.
  induction t as [|c t IH]; intros k E Hk; [reflexivity|].
  destruct k as [|d k]; [discriminate E|]. cbn [ascii_upper map bytes_eqb] in E.
  apply andb_true_iff in E. destruct E as [E1 E2]. apply beqb_true_iff in E1.
  cbn [forallb] in *. apply andb_true_iff in Hk. destruct Hk as [Hd Hk].
  apply andb_true_iff. split.
  - apply upper_amp. rewrite E1. exact Hd.
  - apply (IH k); assumption.
Qed.

Definition noampN (c : N) : bool := negb (c =? AMP).

Lemma flush_noamp : forall run, forallb noampN (flush run) = true -> run = [].
Proof. intros [|c run] H; [reflexivity|]. cbn in H. discriminate H. Qed.

Lemma enc_loop_noamp : forall s run, forallb noampN (enc_loop s run) = true ->
  run = [] /\ enc_loop s run = s.
Proof.
  induction s as [|c s IH]; intros run H; cbn [enc_loop] in *.
  - apply flush_noamp in H. subst run. split; reflexivity.
  - destruct (printable c) eqn:Ep.
    + rewrite !forallb_app in H. apply andb_true_iff in H. destruct H as [H1 H].
      apply andb_true_iff in H. destruct H as [H2 H3].
      apply flush_noamp in H1. subst run. split; [reflexivity|].
      destruct (IH [] H3) as [_ ->].
      destruct (c =? AMP) eqn:Ec; [discriminate H2|]. reflexivity.
    + destruct (IH (c :: run) H) as [Hx _]. discriminate Hx.
Qed.

Lemma noamp_unmap : forall e, forallb printable e = true ->
  forallb noamp (map n2b e) = true -> forallb noampN e = true.
Proof.
  induction e as [|x e IH]; cbn [map forallb]; intros Hp H; [reflexivity|].
  apply andb_true_iff in Hp. destruct Hp as [Hx Hp].
  apply andb_true_iff in H. destruct H as [H1 H2].
  apply andb_true_iff. split; [|apply IH; assumption].
  unfold noamp in H1. rewrite b2n_n2b in H1 by (apply printable_lt256; exact Hx). exact H1.
Qed.

Lemma map_n2b_b2n : forall s, map n2b (map b2n s) = s.
Proof. induction s as [|c s IH]; cbn [map]; [reflexivity|]. rewrite n2b_b2n, IH. reflexivity. Qed.

Lemma utf7_encode_fold_inbox : forall name,
  equal_fold_ascii (utf7_encode name) INBOX = true -> utf7_encode name = name.
Proof.
  intros name H. unfold equal_fold_ascii in H.
  apply upper_eq_noamp in H; [|reflexivity].
  unfold utf7_encode in *. apply noamp_unmap in H; [|apply enc_loop_printable].
  apply enc_loop_noamp in H. destruct H as [_ ->]. apply map_n2b_b2n.
Qed.

Lemma dec_mailbox_inbox : forall srv rest, delimited rest ->
  dec_mailbox srv (INBOX ++ rest) = DOk INBOX rest.
Proof.
  intros srv rest Hr. unfold dec_mailbox, dec_astring.
  assert (Hs : dec_string srv (INBOX ++ rest) = DNo (INBOX ++ rest))
    by (apply dec_string_miss; reflexivity).
  rewrite Hs. rewrite dec_atom_app; [reflexivity|discriminate|reflexivity|].
  apply delimited_nonatom. exact Hr.
Qed.

Lemma mailbox_roundtrip' : forall cfg runes segs rest, forallb scalar runes = true ->
  fits_int64 (utf7_encode (utf8_of runes)) -> delimited rest ->
  enc_mailbox cfg (utf8_of runes) = Some segs ->
  dec_mailbox (peer_server cfg) (flatten segs ++ rest) =
    DOk (if equal_fold_ascii (utf8_of runes) INBOX then INBOX else utf8_of runes) rest.
Proof.
  intros cfg runes segs rest Hsc Hfit Hr H. unfold enc_mailbox in H.
  destruct (equal_fold_ascii (utf8_of runes) INBOX) eqn:E.
  - inversion H; subst segs. rewrite flatten_single. apply dec_mailbox_inbox. exact Hr.
  - destruct (string_roundtrip' cfg _ segs rest Hfit H) as (_ & Ha & _).
    unfold dec_mailbox. rewrite Ha.
    destruct (equal_fold_ascii (utf7_encode (utf8_of runes)) INBOX) eqn:E2.
    + apply utf7_encode_fold_inbox in E2 as E3. rewrite E3 in E2. congruence.
    + rewrite (utf7_roundtrip runes Hsc). reflexivity.
Qed.

(* ---------------------------------------------------------------- *)
(* nested values: named mirrors of the local fixpoints of the model *)
Definition discard_items (f : nat) (srv : bool) (d : nat) : nat -> bytes -> dres unit :=
  fix items (k : nat) (r : bytes) : dres unit :=
    match k with
    | O => DErr
    | S k' =>
        match discard_value f srv d r with
        | DOk _ r1 =>
            match dec_special (ch ")") r1 with
            | DOk _ r2 => DOk tt r2
            | DErr => DErr
            | DNo _ =>
                match dec_sp r1 with
                | DOk _ r2 => items k' r2
                | _ => DErr
                end
            end
        | _ => DErr
        end
    end.

Definition post (f : nat) (srv : bool) (d k : nat) (r1 : bytes) : dres unit :=
  match dec_special (ch ")") r1 with
  | DOk _ r2 => DOk tt r2
  | DErr => DErr
  | DNo _ => match dec_sp r1 with DOk _ r2 => discard_items f srv d k r2 | _ => DErr end
  end.

Lemma discard_items_S : forall f srv d k r,
  discard_items f srv d (S k) r =
  match discard_value f srv d r with DOk _ r1 => post f srv d k r1 | _ => DErr end.
Proof. reflexivity. Qed.

Lemma discard_value_S : forall f srv d s,
  discard_value (S f) srv d s =
  match dec_string srv s with
  | DOk _ r => DOk tt r
  | DErr => DErr
  | DNo _ =>
      match dec_special (ch "(") s with
      | DErr => DErr
      | DOk _ r =>
          match dec_special (ch ")") r with
          | DOk _ r' => DOk tt r'
          | DErr => DErr
          | DNo _ => if Nat.leb MAX_DEPTH (S d) then DErr
                     else discard_items f srv (S d) (S (length r)) r
          end
      | DNo _ => match dec_atom s with DOk _ r => DOk tt r | _ => DErr end
      end
  end.
Proof. reflexivity. Qed.

Definition enc_items (cfg : enc_cfg) : bool -> list wval -> eres :=
  fix items (first : bool) (l : list wval) : eres :=
    match l with
    | [] => Some [SBytes (s2b ")")]
    | x :: r =>
        match enc_val cfg x, items false r with
        | Some a, Some b => Some ((if first then [] else [SBytes [SP_]]) ++ a ++ b)
        | _, _ => None
        end
    end.

Lemma enc_val_list : forall cfg l,
  enc_val cfg (WList l) =
  match enc_items cfg true l with Some segs => Some (SBytes (s2b "(") :: segs) | None => None end.
Proof. reflexivity. Qed.

Lemma enc_items_cons : forall cfg first x r,
  enc_items cfg first (x :: r) =
  match enc_val cfg x, enc_items cfg false r with
  | Some a, Some b => Some ((if first then [] else [SBytes [SP_]]) ++ a ++ b)
  | _, _ => None
  end.
Proof. reflexivity. Qed.

Definition wf_all : list wval -> Prop :=
  fix all (l : list wval) : Prop := match l with [] => True | x :: r => wf_wval x /\ all r end.

Lemma wf_wval_list : forall l, wf_wval (WList l) = wf_all l.
Proof. reflexivity. Qed.

Definition maxd (l : list wval) : nat := fold_right (fun x m => Nat.max (wdepth x) m) O l.

Lemma wdepth_cons : forall x r, wdepth (WList (x :: r)) = S (Nat.max (wdepth x) (maxd r)).
Proof. reflexivity. Qed.

Lemma wval_ind' (P : wval -> Prop)
  (Ha : forall a, P (WAtom a)) (Hs : forall s, P (WStr s)) (Hn : forall n, P (WNum n))
  (Hl : forall l, Forall P l -> P (WList l)) : forall v, P v.
Proof.
  fix IH 1. intros [a|s|n|l]; [apply Ha|apply Hs|apply Hn|]. apply Hl.
  induction l as [|x r IHr]; constructor; [apply IH|exact IHr].
Qed.

Lemma flatten_app : forall a b, flatten (a ++ b) = flatten a ++ flatten b.
Proof. intros a b. unfold flatten. apply flat_map_app. Qed.

Lemma flatten_cons : forall b l, flatten (SBytes b :: l) = b ++ flatten l.
Proof. reflexivity. Qed.

(* what the generic reader does on the encoding of v *)
Fixpoint ok (fuel d : nat) (v : wval) : bool :=
  match fuel with
  | O => false
  | S f =>
      match v with
      | WList (x :: r) => negb (Nat.leb MAX_DEPTH (S d)) && forallb (ok f (S d)) (x :: r)
      | _ => true
      end
  end.

Definition vstart (c : byte) : Prop :=
  beqb c (ch ")") = false /\ beqb c CR_ = false /\ beqb c LF_ = false.

Lemma atom_vstart : forall c, is_atom_char c = true -> vstart c.
Proof. intros c H. destruct (atom_char_facts c H) as (_&_&_&_&_&H1&H2&H3&_). repeat split; assumption. Qed.

Lemma enc_val_first : forall cfg v segs, wf_wval v -> enc_val cfg v = Some segs ->
  exists c t, flatten segs = c :: t /\ vstart c.
Proof.
  intros cfg v segs Hwf H. destruct v as [a|s|n|l].
  - cbn [enc_val] in H. inversion H; subst segs. rewrite flatten_single.
    cbn [wf_wval] in Hwf. destruct Hwf as [Hn Ha]. destruct a as [|c t]; [congruence|].
    exists c, t. split; [reflexivity|]. apply atom_vstart.
    cbn [forallb] in Ha. apply andb_true_iff in Ha. apply Ha.
  - cbn [enc_val] in H. unfold enc_string in H. destruct (valid_quoted cfg s).
    + inversion H; subst segs. rewrite flatten_single. exists DQ_. eexists.
      split; [reflexivity|]. repeat split.
    + destruct (enc_literal_shape _ _ _ H) as (plus & _ & ->). eexists _, _.
      split; [reflexivity|]. repeat split.
  - cbn [enc_val] in H. inversion H; subst segs. rewrite flatten_single. unfold enc_number.
    destruct (dec_first n) as (c & t & -> & Hc). exists c, t. split; [reflexivity|].
    apply atom_vstart. apply digit_numset_char in Hc. apply Hc.
  - rewrite enc_val_list in H. destruct (enc_items cfg true l) as [segs'|]; [|discriminate].
    inversion H; subst segs. rewrite flatten_cons. eexists _, _. split; [reflexivity|].
    repeat split.
Qed.

Lemma enc_items_first : forall cfg l segs, enc_items cfg false l = Some segs ->
  exists c t, flatten segs = c :: t /\ is_atom_char c = false.
Proof.
  intros cfg [|x r] segs H.
  - cbn in H. inversion H; subst segs. eexists _, _. split; reflexivity.
  - rewrite enc_items_cons in H. destruct (enc_val cfg x); [|discriminate].
    destruct (enc_items cfg false r); [|discriminate]. inversion H; subst segs.
    cbn [app]. rewrite flatten_cons. cbn [app]. eexists _, _. split; reflexivity.
Qed.

Lemma enc_items_len : forall cfg l segs, enc_items cfg false l = Some segs ->
  (length l <= length (flatten segs))%nat.
Proof.
  intros cfg. induction l as [|x r IH]; intros segs H; [cbn; lia|].
  rewrite enc_items_cons in H. destruct (enc_val cfg x) as [a|]; [|discriminate].
  destruct (enc_items cfg false r) as [b|]; [|discriminate]. inversion H; subst segs.
  specialize (IH b eq_refl). cbn [app]. rewrite flatten_cons, flatten_app, !app_length.
  cbn [length]. lia.
Qed.

Lemma discard_atom_like : forall a f srv d rest, a <> [] -> forallb is_atom_char a = true ->
  nonatom rest -> discard_value (S f) srv d (a ++ rest) = DOk tt rest.
Proof.
  intros a f srv d rest Hn Ha Hr. rewrite discard_value_S.
  rewrite (dec_atom_app a rest Hn Ha Hr).
  destruct a as [|c a]; [congruence|].
  assert (Hc : is_atom_char c = true) by (cbn [forallb] in Ha; apply andb_true_iff in Ha; apply Ha).
  destruct (atom_char_facts c Hc) as (_&_&H1&H2&H3&_).
  cbn [app]. rewrite (dec_string_miss _ _ _ H1 H2), (dec_special_miss _ _ _ H3). reflexivity.
Qed.

Section Values.
Variable cfg : enc_cfg.

Definition restok (v : wval) (rest : bytes) : Prop :=
  match v with WAtom _ | WNum _ => nonatom rest | _ => True end.

Definition Pval (v : wval) : Prop := forall fuel d rest segs, wf_wval v ->
  enc_val cfg v = Some segs -> restok v rest ->
  discard_value fuel (peer_server cfg) d (flatten segs ++ rest) =
  if ok fuel d v then DOk tt rest else DErr.

Lemma post_items : forall f d l, Forall Pval l -> wf_all l ->
  forall segs rest k, enc_items cfg false l = Some segs -> (length l <= k)%nat ->
  post f (peer_server cfg) d k (flatten segs ++ rest) =
  if forallb (ok f d) l then DOk tt rest else DErr.
Proof.
  intros f d l HP. induction HP as [|x r Px _ IH]; intros Hwf segs rest k H Hk.
  - cbn in H. inversion H; subst segs. rewrite flatten_single. unfold post.
    change (s2b ")") with [ch ")"]. cbn [app]. rewrite dec_special_hit. reflexivity.
  - rewrite enc_items_cons in H. destruct (enc_val cfg x) as [a|] eqn:Ex; [|discriminate].
    destruct (enc_items cfg false r) as [b|] eqn:Er; [|discriminate]. inversion H; subst segs.
    cbn [wf_all] in Hwf. destruct Hwf as [Hwx Hwr].
    destruct (enc_val_first cfg x a Hwx Ex) as (c & t & Ec & _ & Hc1 & Hc2).
    cbn [app]. rewrite flatten_cons, flatten_app. cbn [app]. rewrite <- app_assoc.
    unfold post. rewrite dec_special_miss by reflexivity.
    assert (Hsp : dec_sp (SP_ :: flatten a ++ flatten b ++ rest) = DOk tt (flatten a ++ flatten b ++ rest)).
    { rewrite Ec. cbn [app dec_sp]. rewrite beqb_refl, Hc1, Hc2. reflexivity. }
    unfold byte, bytes in *. rewrite Hsp. clear Hsp.
    cbn [length] in Hk. destruct k as [|k']; [lia|].
    rewrite discard_items_S.
    rewrite (Px f d (flatten b ++ rest) a Hwx Ex).
    + cbn [forallb]. destruct (ok f d x); [|reflexivity]. cbn [andb].
      apply IH; [exact Hwr|reflexivity|lia].
    + destruct (enc_items_first cfg r b Er) as (c' & t' & Ec' & Hna).
      unfold restok. destruct x; auto; rewrite Ec'; exact Hna.
Qed.

Lemma Pval_all : forall v, Pval v.
Proof.
  induction v as [a|s|n|l HP] using wval_ind'; unfold Pval; intros fuel d rest segs Hwf H Hr.
  - destruct fuel as [|f]; [reflexivity|]. cbn [enc_val] in H. inversion H; subst segs.
    rewrite flatten_single. cbn [wf_wval] in Hwf. destruct Hwf as [Hn Ha].
    apply discard_atom_like; assumption.
  - destruct fuel as [|f]; [reflexivity|]. cbn [enc_val] in H.
    destruct (string_roundtrip' cfg s segs rest Hwf H) as (Hs & _).
    rewrite discard_value_S, Hs. reflexivity.
  - destruct fuel as [|f]; [reflexivity|]. cbn [enc_val] in H. inversion H; subst segs.
    rewrite flatten_single. unfold enc_number. apply discard_atom_like.
    + apply dec_nonnil.
    + apply forallb_forall. intros x Hx. apply digits_dec in Hx.
      apply digit_numset_char in Hx. apply Hx.
    + exact Hr.
  - destruct fuel as [|f]; [reflexivity|]. rewrite enc_val_list in H.
    destruct (enc_items cfg true l) as [segs'|] eqn:El; [|discriminate].
    inversion H; subst segs. clear H. rewrite flatten_cons. change (s2b "(") with [ch "("].
    cbn [app]. rewrite discard_value_S.
    rewrite dec_string_miss by reflexivity. rewrite dec_special_hit.
    rewrite wf_wval_list in Hwf.
    destruct l as [|x r].
    + cbn in El. inversion El; subst segs'. rewrite flatten_single.
      change (s2b ")") with [ch ")"]. cbn [app]. rewrite dec_special_hit. reflexivity.
    + rewrite enc_items_cons in El. destruct (enc_val cfg x) as [a|] eqn:Ex; [|discriminate].
      destruct (enc_items cfg false r) as [b|] eqn:Er; [|discriminate]. inversion El; subst segs'.
      clear El. cbn [wf_all] in Hwf. destruct Hwf as [Hwx Hwr].
      destruct (enc_val_first cfg x a Hwx Ex) as (c & t & Ec & Hc0 & _).
      cbn [app]. rewrite flatten_app, <- app_assoc.
      assert (Hm : dec_special (ch ")") (flatten a ++ flatten b ++ rest) =
                   DNo (flatten a ++ flatten b ++ rest)).
      { rewrite Ec. cbn [app]. apply dec_special_miss. exact Hc0. }
      unfold byte, bytes in *. rewrite Hm. clear Hm. cbn [ok].
      destruct (Nat.leb MAX_DEPTH (S d)); [reflexivity|]. cbn [negb andb].
      rewrite discard_items_S.
      inversion HP as [|? ? Px HPr]; subst.
      rewrite (Px f (S d) (flatten b ++ rest) a Hwx Ex).
      * cbn [forallb]. destruct (ok f (S d) x); [|reflexivity]. cbn [andb].
        apply post_items; [exact HPr|exact Hwr|exact Er|].
        pose proof (enc_items_len cfg r b Er). rewrite !app_length. lia.
      * destruct (enc_items_first cfg r b Er) as (c' & t' & Ec' & Hna).
        unfold restok. destruct x; auto; rewrite Ec'; exact Hna.
Qed.

End Values.

(* ---- depth facts about [ok] ---- *)
Lemma maxd_In : forall l c, In c l -> (wdepth c <= maxd l)%nat.
Proof.
  induction l as [|x r IH]; intros c H; [destruct H|].
  cbn [maxd fold_right]. destruct H as [->|H]; [lia|].
  specialize (IH c H). unfold maxd in IH. lia.
Qed.

Lemma maxd_witness : forall l m, (0 < m)%nat -> (m <= maxd l)%nat ->
  exists c, In c l /\ (m <= wdepth c)%nat.
Proof.
  induction l as [|x r IH]; intros m H0 Hm; cbn [maxd fold_right] in Hm; [lia|].
  destruct (Nat.le_gt_cases m (wdepth x)) as [Hx|Hx].
  - exists x. split; [left; reflexivity|exact Hx].
  - destruct (IH m H0) as (c & Hc & Hd); [unfold maxd; lia|]. exists c. split; [right; exact Hc|exact Hd].
Qed.

Lemma forallb_false_In : forall (A : Type) (p : A -> bool) l c, In c l -> p c = false -> forallb p l = false.
Proof.
  intros A p l c Hc Hp. destruct (forallb p l) eqn:E; [|reflexivity].
  rewrite forallb_forall in E. rewrite (E c Hc) in Hp. discriminate.
Qed.

Lemma wdepth_nonlist_or : forall v, (0 < wdepth v)%nat -> exists x r, v = WList (x :: r).
Proof.
  intros [a|s|n|[|x r]]; cbn [wdepth]; intros H; try lia. exists x, r. reflexivity.
Qed.

Lemma ok_deep : forall fuel d v, (d < MAX_DEPTH)%nat -> (MAX_DEPTH <= d + wdepth v)%nat ->
  ok fuel d v = false.
Proof.
  induction fuel as [|f IH]; intros d v Hd Hv; [reflexivity|].
  destruct (wdepth_nonlist_or v) as (x & r & ->); [lia|].
  rewrite wdepth_cons in Hv. cbn [ok].
  destruct (Nat.leb MAX_DEPTH (S d)) eqn:E; [reflexivity|]. cbn [negb andb].
  apply Nat.leb_gt in E.
  destruct (maxd_witness (x :: r) (MAX_DEPTH - S d)) as (c & Hc & Hm).
  - lia.
  - cbn [maxd fold_right]. fold (maxd r). lia.
  - apply (forallb_false_In _ _ _ c Hc). apply IH; lia.
Qed.

Lemma ok_shallow : forall fuel d v, (d + wdepth v < MAX_DEPTH)%nat -> (wdepth v < fuel)%nat ->
  ok fuel d v = true.
Proof.
  induction fuel as [|f IH]; intros d v Hd Hf; [lia|].
  destruct v as [a|s|n|[|x r]]; try reflexivity.
  rewrite wdepth_cons in *. cbn [ok]. apply andb_true_iff. split.
  - destruct (Nat.leb MAX_DEPTH (S d)) eqn:E; [|reflexivity]. apply Nat.leb_le in E. lia.
  - apply forallb_forall. intros c Hc. pose proof (maxd_In (x :: r) c Hc) as Hm.
    cbn [maxd fold_right] in Hm. fold (maxd r) in Hm. apply IH; lia.
Qed.

Lemma maxd_len : forall cfg l, Forall (fun v => forall segs, enc_val cfg v = Some segs ->
      (wdepth v <= length (flatten segs))%nat) l ->
  forall first segs, enc_items cfg first l = Some segs -> (maxd l <= length (flatten segs))%nat.
Proof.
  intros cfg l HP. induction HP as [|x r Px _ IH]; intros first segs H.
  - cbn [maxd fold_right]. lia.
  - rewrite enc_items_cons in H. destruct (enc_val cfg x) as [a|] eqn:Ex; [|discriminate].
    destruct (enc_items cfg false r) as [b|] eqn:Er; [|discriminate]. inversion H; subst segs.
    specialize (Px a eq_refl). specialize (IH false b Er).
    cbn [maxd fold_right]. fold (maxd r). rewrite !flatten_app, !app_length. lia.
Qed.

Lemma wdepth_len : forall cfg v segs, enc_val cfg v = Some segs ->
  (wdepth v <= length (flatten segs))%nat.
Proof.
  intros cfg. induction v as [a|s|n|l HP] using wval_ind'; intros segs H;
    try (cbn [wdepth]; lia).
  rewrite enc_val_list in H. destruct (enc_items cfg true l) as [segs'|] eqn:El; [|discriminate].
  inversion H; subst segs. rewrite flatten_cons, app_length.
  pose proof (maxd_len cfg l HP true segs' El) as Hm.
  destruct l as [|x r]; [cbn [wdepth]; lia|]. rewrite wdepth_cons.
  cbn [maxd fold_right] in Hm. fold (maxd r) in Hm. cbn [length s2b]. cbn. lia.
Qed.

Lemma value_discard' : forall cfg v segs rest fuel, wf_wval v -> (wdepth v < MAX_DEPTH)%nat ->
  delimited rest -> enc_val cfg v = Some segs ->
  (length (flatten segs ++ rest) < fuel)%nat ->
  discard_value fuel (peer_server cfg) 0 (flatten segs ++ rest) = DOk tt rest.
Proof.
  intros cfg v segs rest fuel Hwf Hd Hr H Hf.
  rewrite (Pval_all cfg v fuel 0%nat rest segs Hwf H).
  - rewrite ok_shallow; [reflexivity|lia|].
    pose proof (wdepth_len cfg v segs H). rewrite app_length in Hf. lia.
  - unfold restok. destruct v; auto; apply delimited_nonatom; exact Hr.
Qed.

Lemma value_too_deep' : forall cfg v segs rest fuel, wf_wval v -> (MAX_DEPTH <= wdepth v)%nat ->
  enc_val cfg v = Some segs ->
  discard_value fuel (peer_server cfg) 0 (flatten segs ++ rest) = DErr.
Proof.
  intros cfg v segs rest fuel Hwf Hd H.
  assert (Hpos : (0 < MAX_DEPTH)%nat) by (unfold MAX_DEPTH; lia).
  destruct (wdepth_nonlist_or v) as (x & r & ->); [lia|].
  rewrite (Pval_all cfg _ fuel 0%nat rest segs Hwf H); [|exact I].
  rewrite ok_deep; [reflexivity|exact Hpos|lia].
Qed.
