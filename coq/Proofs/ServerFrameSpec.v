(* Proofs/ServerFrameSpec.v — what an honest client sends for a sequence of commands, written
   independently of the server model (no proofs here).  Used to state that command boundaries
   seen by the server are exactly the client's, whatever the literal payloads contain. *)
From GoImap.Base Require Import Bytes.
From GoImap.Model Require Import NumSet MatchList Utf7 Wire ServerConn ServerFrame.
Open Scope N_scope.

Inductive aform := FAtom | FQuoted | FSync | FNonSync.
Record arg := mkArg { a_val : bytes; a_form : aform }.

Definition CRLF_ : bytes := [CR_; LF_].

(* the server buffers at most 4096 bytes for a string argument *)
Definition arg_refused (a : arg) : bool :=
  match a_form a with
  | FSync | FNonSync => 4096 <? N.of_nat (length (a_val a))
  | _ => false
  end.

(* how an argument is written; a synchronising literal that the server refuses gets no
   payload (the client sees the tagged NO instead of "+") *)
Definition render_arg (a : arg) : bytes :=
  match a_form a with
  | FAtom => a_val a
  | FQuoted => enc_quoted (a_val a)
  | FSync => s2b "{" ++ dec_of_N (N.of_nat (length (a_val a))) ++ s2b "}" ++ CRLF_ ++
             (if arg_refused a then [] else a_val a)
  | FNonSync => s2b "{" ++ dec_of_N (N.of_nat (length (a_val a))) ++ s2b "+}" ++ CRLF_ ++ a_val a
  end.

(* a command: tag, name, string arguments (the commands of this family take only
   astring/mailbox arguments) *)
Record ccmd := mkCmd { c_tag : bytes; c_name : bytes; c_args : list arg }.

(* arguments up to and including the first refused one: after a refusal the client stops
   writing the command (synchronising: it never got "+"; non-synchronising: everything up to
   the payload is already on the wire and the server will close) *)
Fixpoint sent_args (l : list arg) : list arg * bool :=     (* (written, some refused) *)
  match l with
  | [] => ([], false)
  | a :: r => if arg_refused a then ([a], true) else let '(w, b) := sent_args r in (a :: w, b)
  end.

Definition render_cmd (c : ccmd) : bytes :=
  let '(args, refused) := sent_args (c_args c) in
  c_tag c ++ [SP_] ++ c_name c ++ flat_map (fun a => SP_ :: render_arg a) args ++
  (if refused then [] else CRLF_).

Definition render (cs : list ccmd) : bytes := flat_map render_cmd cs.

(* the family of commands covered, with their arities *)
Definition arity (name : bytes) : option nat :=
  let n := ascii_upper name in
  if name_is n "NOOP" || name_is n "CHECK" || name_is n "CAPABILITY" || name_is n "EXPUNGE"
     || name_is n "CLOSE" || name_is n "UNSELECT" then Some 0%nat
  else if name_is n "DELETE" || name_is n "SUBSCRIBE" || name_is n "UNSUBSCRIBE" || name_is n "SELECT"
     || name_is n "EXAMINE" || name_is n "CREATE" then Some 1%nat
  else if name_is n "LOGIN" || name_is n "RENAME" then Some 2%nat
  else None.

Definition is_mailbox_cmd (name : bytes) : bool :=
  negb (name_is (ascii_upper name) "LOGIN").

Definition atom_ok (s : bytes) : bool := negb (is_nil s) && forallb is_atom_char s.

(* well-formed argument: atoms are atoms; quoted strings contain no CR/LF; literal sizes fit
   int64; mailbox arguments are INBOX or decodable modified UTF-7 (an undecodable name sent as
   a literal is excluded: see DESIGN.md, stale Decoder.crlf) *)
Definition wf_arg (mailbox : bool) (a : arg) : bool :=
  match a_form a with
  | FAtom => atom_ok (a_val a)
  | FQuoted => forallb (fun c => negb (beqb c CR_ || beqb c LF_)) (a_val a)
  | _ => N.of_nat (length (a_val a)) <? 9223372036854775808
  end &&
  (negb mailbox || arg_refused a || equal_fold_ascii (a_val a) INBOX ||
   match utf7_decode (a_val a) with Some _ => true | None => false end).

(* a tag is an atom without "+" (RFC 3501: tag = 1*<any ASTRING-CHAR except "+">); the server
   refuses tags containing "+" *)
Definition has_plus (s : bytes) : bool := existsb (fun b => b2n b =? 43) s.
Definition tag_ok (s : bytes) : bool := atom_ok s && negb (has_plus s).

Definition wf_cmd (c : ccmd) : bool :=
  tag_ok (c_tag c) &&
  match arity (c_name c) with
  | Some n => Nat.eqb n (length (c_args c)) && forallb (wf_arg (is_mailbox_cmd (c_name c))) (c_args c)
  | None => false
  end.

(* a command after which the server ends the connection: a refused non-synchronising literal *)
Definition closes (c : ccmd) : bool :=
  existsb (fun a => arg_refused a && match a_form a with FNonSync => true | _ => false end)
          (fst (sent_args (c_args c))).

(* offsets at which the commands start in the rendered stream, up to and including the first
   closing command *)
Fixpoint starts_from (off : N) (cs : list ccmd) : list N :=
  match cs with
  | [] => []
  | c :: r => off :: (if closes c then [] else starts_from (off + N.of_nat (length (render_cmd c))) r)
  end.
Fixpoint tags_upto (cs : list ccmd) : list bytes :=
  match cs with
  | [] => []
  | c :: r => c_tag c :: (if closes c then [] else tags_upto r)
  end.

Definition out_tags (l : list sout) : list bytes :=
  flat_map (fun o => match o with OTagged t _ => [t] | _ => [] end) l.

(* every string that reaches the backend *)
Definition call_strings (k : scall) : list bytes :=
  match k with
  | SLogin u p => [u; p]
  | SCreate m _ | SDelete m | SSubscribe m | SUnsubscribe m | SSelect m _ => [m]
  | SRename a b => [a; b]
  | SAppend m _ _ p => [m; p]
  | _ => []
  end.
Definition arg_values (cs : list ccmd) : list bytes :=
  flat_map (fun c => flat_map (fun a =>
      [a_val a; INBOX] ++ match utf7_decode (a_val a) with Some d => [d] | None => [] end) (c_args c)) cs.
