(* Proofs/MemViewLemmas.v — C08, queue level and mailbox level: the invariant of one mailbox
   (its tracker's invariant from C07, the tie between the tracker's ghost identities and the
   UIDs of the message list, consistency of queued FETCH updates) is kept by every backend
   operation of Model/MemView.v, no tracker guard panics, and what a poll emits is accepted
   by the identity-aware observer of MemViewSpec.v.                                         *)
From Coq Require Import Permutation.
From GoImap.Base Require Import Bytes.
From GoImap.Model Require Import NumSet Tracker MemView.
From GoImap.Proofs Require Import TrackerSpec TrackerLemmas TrackerProofs MemViewSpec.
From Coq Require Import ZifyN ZifyNat ZifyBool.
Open Scope N_scope.

(* ---- queue level ---------------------------------------------------------------------------- *)

(* every queued FETCH update carries the number the message with that UID will have in the
   client's list at the moment the client receives it; no queued EXISTS says 0 *)
Definition upd_ok (v : list N) (u : upd) : Prop :=
  match u with
  | UFetch sq uid _ => nth1 v sq = Some uid
  | UExists _ n _ => n <> 0
  | _ => True
  end.
Fixpoint qok (v : list N) (q : list upd) : Prop :=
  match q with
  | [] => True
  | u :: r => upd_ok v u /\ qok (apply_upd v u) r
  end.

(* how many identities the EXISTS updates of a queue announce *)
Fixpoint added (q : list upd) : N :=
  match q with
  | [] => 0
  | UExists _ _ ids :: r => len ids + added r
  | _ :: r => added r
  end.

Lemma replay_cons : forall v u q, replay v (u :: q) = replay (apply_upd v u) q.
Proof. reflexivity. Qed.

Lemma qok_app : forall q1 q2 v, qok v (q1 ++ q2) <-> qok v q1 /\ qok (replay v q1) q2.
Proof.
  induction q1 as [|u r IH]; intros q2 v.
  - unfold replay. cbn [app qok fold_left]. tauto.
  - cbn [app qok]. rewrite replay_cons. rewrite IH. tauto.
Qed.

Lemma replay_app : forall q1 q2 v, replay v (q1 ++ q2) = replay (replay v q1) q2.
Proof. intros. unfold replay. apply fold_left_app. Qed.

Lemma added_app : forall q1 q2, added (q1 ++ q2) = added q1 + added q2.
Proof.
  induction q1 as [|u r IH]; intros q2; cbn [app added]; [lia|].
  destruct u; rewrite IH; lia.
Qed.

(* the bound of a consistent queue is determined by the mailbox's next identity *)
Lemma qinv_bound : forall q b v L nxt, qinv b v q L nxt -> b + added q = nxt.
Proof.
  induction q as [|u r IH]; intros b v L nxt H.
  - simpl in H. destruct H as (_ & _ & _ & H). cbn [added]. lia.
  - destruct u; simpl in H; cbn [added].
    + destruct H as (_ & _ & _ & H). eapply IH; eauto.
    + destruct H as (_ & _ & _ & _ & _ & _ & H). apply IH in H. unfold len. lia.
    + destruct H as (_ & _ & H). eapply IH; eauto.
    + destruct H as (_ & _ & H). eapply IH; eauto.
Qed.

(* qinv_poll with the new bound spelled out *)
Lemma qinv_poll_bound : forall em rest b v L nxt, qinv b v (em ++ rest) L nxt ->
  qinv (b + added em) (replay v em) rest L nxt.
Proof.
  induction em as [|u r IH]; intros rest b v L nxt H.
  - unfold replay. cbn [added app fold_left] in *. replace (b + 0) with b by lia. exact H.
  - rewrite replay_cons. destruct u; simpl app in H; simpl qinv in H; cbn [added apply_upd].
    + destruct H as (_ & _ & _ & H). apply IH; assumption.
    + destruct H as (_ & _ & _ & _ & _ & _ & H). apply IH in H. unfold len.
      rewrite N.add_assoc. exact H.
    + destruct H as (_ & _ & H). apply IH; assumption.
    + destruct H as (_ & _ & H). apply IH; assumption.
Qed.

Lemma disjointb_fresh : forall k b v, Forall (fun x => x < b) v -> disjointb (fresh b k) v = true.
Proof.
  intros k b v H. unfold disjointb. apply forallb_forall. intros x Hx. apply fresh_In in Hx.
  apply negb_true_iff. destruct (existsb (N.eqb x) v) eqn:E; [|reflexivity].
  apply existsb_exists in E. destruct E as (y & Hy & Hxy). apply N.eqb_eq in Hxy. subst y.
  rewrite Forall_forall in H. apply H in Hy. lia.
Qed.

(* what a poll writes is accepted by the identity-aware observer, and leads it from the
   client's list to the list with the emitted updates applied *)
Lemma poll_events_ok : forall em rest b v L nxt ctx,
  qinv b v (em ++ rest) L nxt -> qok v em ->
  (nonuid_fss ctx = true -> forallb (fun u => negb (is_expunge u)) em = true) ->
  fold_opt ev_view (Some v) (map (fun u => (ctx, upd_ev u)) em) = Some (Some (replay v em)).
Proof.
  induction em as [|u r IH]; intros rest b v L nxt ctx Hq Hok Hctx.
  - reflexivity.
  - rewrite replay_cons. cbn [map fold_opt]. cbn [qok] in Hok. destruct Hok as [Hu Hok].
    destruct u; simpl app in Hq; simpl qinv in Hq; cbn [upd_ev ev_view apply_upd];
      cbn [upd_ok] in Hu; cbn [apply_upd] in Hok.
    + (* UExpunge *)
      destruct Hq as (_ & _ & (Hk1 & Hk2) & Hq).
      assert (Hn : nonuid_fss ctx = false).
      { destruct (nonuid_fss ctx); [|reflexivity]. specialize (Hctx eq_refl).
        cbn [forallb is_expunge negb andb] in Hctx. discriminate. }
      rewrite Hn. unfold in_range, len.
      replace (1 <=? k) with true by lia.
      replace (k <=? N.of_nat (length v)) with true by lia. cbn [andb negb].
      eapply IH; [exact Hq|exact Hok|]. intro HH. congruence.
    + (* UExists *)
      destruct Hq as (_ & FA & Hprev & Hn0 & Hn & Hids & Hq).
      assert (Hd : disjointb ids v = true).
      { rewrite Hids. apply disjointb_fresh. assumption. }
      specialize (Hn Hu). unfold len.
      replace (n =? N.of_nat (length v) + N.of_nat (length ids)) with true by lia.
      rewrite Hd. cbn [andb].
      eapply IH; [exact Hq|exact Hok|]. intro HH. apply Hctx in HH.
      cbn [forallb is_expunge negb andb] in HH. exact HH.
    + (* UMboxFlags *)
      destruct Hq as (_ & _ & Hq).
      eapply IH; [exact Hq|exact Hok|]. intro HH. apply Hctx in HH.
      cbn [forallb is_expunge negb andb] in HH. exact HH.
    + (* UFetch *)
      destruct Hq as (_ & _ & Hq). rewrite Hu. cbn [oN_eqb]. rewrite N.eqb_refl.
      eapply IH; [exact Hq|exact Hok|]. intro HH. apply Hctx in HH.
      cbn [forallb is_expunge negb andb] in HH. exact HH.
Qed.

(* ---- mailbox level ---------------------------------------------------------------------------- *)

Record MbInv (mb : mbox) : Prop := mkMbInv {
  mi_inv : Inv (mb_tr mb);
  mi_L : t_L (mb_tr mb) = uids_of mb;
  mi_next : t_next (mb_tr mb) = mb_next mb;
  mi_qok : forall s, In s (t_sess (mb_tr mb)) -> qok (s_view s) (s_queue s)
}.

(* who has the mailbox selected, and with which list *)
(* the bound of a session: every identity it has been told about is below it *)
Definition bnd (mb : mbox) (sv : sess) : N := mb_next mb - added (s_queue sv).

Definition views (mb : mbox) : list (N * list N * N) :=
  map (fun s => (s_id s, s_view s, bnd mb s)) (t_sess (mb_tr mb)).
Definition sess_of (mb : mbox) (c : N) : option sess := find_sess c (t_sess (mb_tr mb)).
Definition sids (mb : mbox) : list N := map s_id (t_sess (mb_tr mb)).

Lemma MbInv_empty : MbInv empty_mbox.
Proof.
  unfold empty_mbox. constructor; cbn.
  - constructor; cbn.
    + reflexivity.
    + constructor.
    + constructor.
    + constructor.
    + intros s [].
  - reflexivity.
  - reflexivity.
  - intros s [].
Qed.

Lemma views_sids : forall mb mb', views mb' = views mb -> sids mb' = sids mb.
Proof.
  intros mb mb' H. unfold sids.
  assert (E : forall m, map s_id (t_sess (mb_tr m)) = map (fun x => fst (fst x)) (views m)).
  { intros m. unfold views. rewrite map_map. reflexivity. }
  rewrite !E, H. reflexivity.
Qed.

Lemma find_sess_view_map : forall (g g' : sess -> N) c ss ss',
  map (fun s => (s_id s, s_view s, g' s)) ss' = map (fun s => (s_id s, s_view s, g s)) ss ->
  option_map (fun s => (s_view s, g' s)) (find_sess c ss') =
  option_map (fun s => (s_view s, g s)) (find_sess c ss).
Proof.
  intros g g' c. induction ss as [|a r IH]; intros [|a' r'] H; cbn [map] in H; try discriminate;
    [reflexivity|].
  assert (Hid : s_id a' = s_id a) by congruence.
  assert (Hv : s_view a' = s_view a) by congruence.
  assert (Hg : g' a' = g a) by congruence.
  assert (Hr : map (fun s => (s_id s, s_view s, g' s)) r' = map (fun s => (s_id s, s_view s, g s)) r)
    by congruence.
  cbn [find_sess]. rewrite Hid. destruct (s_id a =? c).
  - cbn [option_map]. rewrite Hv, Hg. reflexivity.
  - apply IH. exact Hr.
Qed.

Lemma views_pair : forall mb mb' c, views mb' = views mb ->
  option_map (fun s => (s_view s, bnd mb' s)) (sess_of mb' c) =
  option_map (fun s => (s_view s, bnd mb s)) (sess_of mb c).
Proof. intros mb mb' c H. unfold sess_of. apply find_sess_view_map. exact H. Qed.

Lemma views_view : forall mb mb' c, views mb' = views mb ->
  option_map s_view (sess_of mb' c) = option_map s_view (sess_of mb c).
Proof.
  intros mb mb' c H. pose proof (views_pair _ _ c H) as P.
  destruct (sess_of mb' c), (sess_of mb c); cbn [option_map] in *; congruence.
Qed.

Lemma views_bnd : forall mb mb' c sv sv', views mb' = views mb ->
  sess_of mb c = Some sv -> sess_of mb' c = Some sv' ->
  s_view sv' = s_view sv /\ bnd mb' sv' = bnd mb sv.
Proof.
  intros mb mb' c sv sv' H Hs Hs'. pose proof (views_pair _ _ c H) as P.
  rewrite Hs, Hs' in P. cbn [option_map] in P. split; congruence.
Qed.

Lemma views_sess : forall mb mb' c sv, views mb' = views mb ->
  sess_of mb c = Some sv -> exists sv', sess_of mb' c = Some sv'.
Proof.
  intros mb mb' c sv H Hs. pose proof (views_pair _ _ c H) as P.
  rewrite Hs in P. destruct (sess_of mb' c) as [sv'|]; [eauto|discriminate].
Qed.

Lemma bnd_with_tr : forall mb t sv, bnd (with_tr mb t) sv = bnd mb sv.
Proof. reflexivity. Qed.

Lemma map_drop_at : forall (f : msg -> N) k l, map f (drop_at k l) = remove_at k (map f l).
Proof.
  intros f k l. revert k. induction l as [|x r IH]; intros k.
  - destruct k as [|[|k]]; reflexivity.
  - destruct k as [|[|k]]; try reflexivity.
    change (drop_at (S (S k)) (x :: r)) with (x :: drop_at (S k) r).
    change (remove_at (S (S k)) (map f (x :: r))) with (f x :: remove_at (S k) (map f r)).
    cbn [map]. rewrite IH. reflexivity.
Qed.

Lemma drop_at_length : forall (l : list msg) k, (1 <= k <= length l)%nat ->
  length (drop_at k l) = (length l - 1)%nat.
Proof.
  intros l k H. rewrite <- (map_length m_uid (drop_at k l)). rewrite map_drop_at.
  rewrite remove_at_length; rewrite map_length; lia.
Qed.

(* a session that exists has its list numbered consistently with the mailbox: EncodeSeqNum of
   the position of a message is the position of that message in the client's list, or 0 *)
Lemma enc_spec : forall mb c sv p uid, MbInv mb -> sess_of mb c = Some sv ->
  nth1 (uids_of mb) p = Some uid -> enc mb c p = pos_of uid (s_view sv).
Proof.
  intros mb c sv p uid HI Hs Hp. unfold enc. unfold sess_of in Hs. rewrite Hs.
  destruct (find_sess_some _ _ _ Hs) as [Hin _].
  destruct (inv_sess _ (mi_inv _ HI) sv Hin) as (b & Hq).
  rewrite <- (mi_L _ HI) in Hp.
  pose proof (nth1_range _ _ _ Hp) as Hr.
  unfold encode. replace (p =? 0) with false by lia.
  rewrite (inv_n _ (mi_inv _ HI)).
  replace (N.of_nat (length (t_L (mb_tr mb))) <? p) with false by lia.
  eapply encode_q_spec; eauto.
Qed.

Lemma enc_nth1 : forall mb c sv p uid, MbInv mb -> sess_of mb c = Some sv ->
  nth1 (uids_of mb) p = Some uid -> enc mb c p <> 0 -> nth1 (s_view sv) (enc mb c p) = Some uid.
Proof.
  intros mb c sv p uid HI Hs Hp Hne. apply pos_of_nth1; [assumption|].
  symmetry. eapply enc_spec; eauto.
Qed.

(* ---- pushes ---- *)

Lemma push_all_views_bnd : forall u skip ss nxt nxt',
  nxt' = nxt + added [u] -> (skip <> None -> added [u] = 0) ->
  map (fun s => (s_id s, s_view s, nxt' - added (s_queue s))) (push_all u skip ss) =
  map (fun s => (s_id s, s_view s, nxt - added (s_queue s))) ss.
Proof.
  intros u skip ss nxt nxt' Hn Hs. unfold push_all. rewrite map_map. apply map_ext. intros s.
  destruct skip as [id|]; [destruct (s_id s =? id)|]; cbn [s_id s_view s_queue];
    rewrite ?added_app; f_equal.
  - assert (added [u] = 0) by (apply Hs; discriminate). lia.
  - lia.
  - lia.
Qed.

Lemma qok_push : forall b v q L nxt u, qinv b v q L nxt -> upd_ok L u -> qok v q -> qok v (q ++ [u]).
Proof.
  intros b v q L nxt u Hq Hu Hok. apply qok_app. split; [assumption|].
  rewrite (qinv_replay _ _ _ _ _ Hq). cbn [qok]. split; [assumption|exact I].
Qed.

Lemma push_all_qok : forall u skip ss L nxt,
  (forall s, In s ss -> exists b, qinv b (s_view s) (s_queue s) L nxt) ->
  upd_ok L u ->
  (forall s, In s ss -> qok (s_view s) (s_queue s)) ->
  forall s', In s' (push_all u skip ss) -> qok (s_view s') (s_queue s').
Proof.
  intros u skip ss L nxt Hss Hu Hok s' Hin.
  unfold push_all in Hin. apply in_map_iff in Hin. destruct Hin as (s & Hs & Hin).
  destruct (Hss s Hin) as (b & Hq). pose proof (Hok s Hin) as Hoks.
  assert (Hpush : qok (s_view s) (s_queue s ++ [u])) by (eapply qok_push; eauto).
  destruct skip as [id|].
  - destruct (s_id s =? id); subst s'; [exact Hoks|exact Hpush].
  - subst s'. exact Hpush.
Qed.

(* Mailbox.appendBytes *)
Lemma mb_append_ok : forall mb del mb' uid cr, MbInv mb -> mb_append mb del = (mb', uid, cr) ->
  MbInv mb' /\ cr = false /\ views mb' = views mb /\ uid = mb_next mb /\
  uids_of mb' = uids_of mb ++ [uid] /\ mb_next mb' = uid + 1.
Proof.
  intros mb del mb' uid cr HI H. unfold mb_append in H.
  pose proof (mi_inv _ HI) as HT. pose proof (inv_n _ HT) as Hn.
  assert (HlenL : length (t_L (mb_tr mb)) = length (mb_msgs mb)).
  { rewrite (mi_L _ HI). unfold uids_of. apply map_length. }
  assert (Hlen : len (mb_msgs mb ++ [mkMsg (mb_next mb) del]) = t_n (mb_tr mb) + 1).
  { unfold len. rewrite app_length. cbn [length]. lia. }
  assert (Es : step (mb_tr mb) (OQueueNum (len (mb_msgs mb ++ [mkMsg (mb_next mb) del]))) =
    (mkT (t_n (mb_tr mb) + 1) (t_L (mb_tr mb) ++ [t_next (mb_tr mb)]) (t_next (mb_tr mb) + 1)
         (push_all (UExists (t_n (mb_tr mb)) (t_n (mb_tr mb) + 1) [t_next (mb_tr mb)]) None
                   (t_sess (mb_tr mb))), OutNone)).
  { rewrite Hlen. cbn [step].
    replace (negb (t_n (mb_tr mb) + 1 =? 0) && (t_n (mb_tr mb) + 1 <? t_n (mb_tr mb))) with false by lia.
    replace (t_n (mb_tr mb) + 1 - t_n (mb_tr mb)) with 1 by lia.
    replace (t_n (mb_tr mb) + 1 =? 0) with false by lia.
    reflexivity. }
  destruct (step_inv _ _ _ _ HT Es) as [HI' _]; [intros; discriminate|].
  unfold mb_do in H. cbn [mb_tr] in H. rewrite Es in H. cbv beta iota in H.
  inversion H; subst; clear H.
  split; [|split; [reflexivity|split; [|split; [reflexivity|split; [|reflexivity]]]]].
  - constructor; unfold uids_of, with_tr; cbn [mb_tr mb_msgs mb_next t_L t_next t_sess].
    + exact HI'.
    + rewrite (mi_L _ HI), (mi_next _ HI). unfold uids_of. cbn [mb_msgs]. rewrite map_app. reflexivity.
    + rewrite (mi_next _ HI). reflexivity.
    + intros s Hs. eapply push_all_qok; [exact (inv_sess _ HT)| |exact (mi_qok _ HI)|exact Hs].
      cbn [upd_ok]. lia.
  - unfold views, bnd, with_tr. cbn [mb_tr t_sess mb_next]. apply push_all_views_bnd.
    + cbn [added]. unfold len. cbn [length]. lia.
    + intro HH. exfalso. apply HH. reflexivity.
  - unfold uids_of, with_tr. cbn [mb_msgs]. rewrite map_app. reflexivity.
Qed.

Lemma mb_append_all_ok : forall ms mb mb' uids cr, MbInv mb -> mb_append_all mb ms = (mb', uids, cr) ->
  MbInv mb' /\ cr = false /\ views mb' = views mb.
Proof.
  induction ms as [|m r IH]; intros mb mb' uids cr HI H; cbn [mb_append_all] in H.
  - inversion H; subst. auto.
  - destruct (mb_append mb (m_del m)) as [[mb1 uid1] c1] eqn:E1.
    destruct (mb_append_all mb1 r) as [[mb2 uids2] c2] eqn:E2.
    inversion H; subst; clear H.
    destruct (mb_append_ok _ _ _ _ _ HI E1) as (HI1 & Hc1 & Hv1 & _).
    destruct (IH _ _ _ _ HI1 E2) as (HI2 & Hc2 & Hv2).
    split; [assumption|]. split; [subst; reflexivity|congruence].
Qed.

(* QueueMessageFlags for the message at position p *)
Lemma mb_do_flags_ok : forall mb p uid f src mb1 c1, MbInv mb -> nth1 (uids_of mb) p = Some uid ->
  mb_do mb (OQueueMsgFlags p uid f src) = (mb1, c1) ->
  MbInv mb1 /\ c1 = false /\ views mb1 = views mb /\ mb_msgs mb1 = mb_msgs mb /\ mb_next mb1 = mb_next mb.
Proof.
  intros mb p uid f src mb1 c1 HI Hp H.
  pose proof (mi_inv _ HI) as HT.
  assert (Es : step (mb_tr mb) (OQueueMsgFlags p uid f src) =
    (mkT (t_n (mb_tr mb)) (t_L (mb_tr mb)) (t_next (mb_tr mb))
         (push_all (UFetch p uid f) src (t_sess (mb_tr mb))), OutNone)) by reflexivity.
  destruct (step_inv _ _ _ _ HT Es) as [HI' _]; [intros; discriminate|].
  unfold mb_do in H. rewrite Es in H. cbv beta iota in H. inversion H; subst; clear H.
  split; [|split; [reflexivity|split; [|split; reflexivity]]].
  - constructor; unfold uids_of, with_tr; cbn [mb_tr mb_msgs mb_next t_L t_next t_sess].
    + exact HI'.
    + exact (mi_L _ HI).
    + exact (mi_next _ HI).
    + intros s Hs. eapply push_all_qok; [exact (inv_sess _ HT)| |exact (mi_qok _ HI)|exact Hs].
      cbn [upd_ok]. rewrite (mi_L _ HI). exact Hp.
  - unfold views, bnd, with_tr. cbn [mb_tr t_sess mb_next]. apply push_all_views_bnd.
    + cbn [added]. lia.
    + intros _. reflexivity.
Qed.

Lemma nth1_mid : forall (pre : list msg) m r,
  nth1 (map m_uid (pre ++ m :: r)) (len pre + 1) = Some (m_uid m).
Proof.
  intros. unfold nth1, len. replace (N.of_nat (length pre) + 1 =? 0) with false by lia.
  replace (N.to_nat (N.of_nat (length pre) + 1 - 1)) with (length pre) by lia.
  rewrite map_app. rewrite nth_error_app2; rewrite map_length; [|lia].
  replace (length pre - length pre)%nat with 0%nat by lia. reflexivity.
Qed.

Lemma loop_next : forall (pre : list msg) m r p (l : list msg),
  l = pre ++ m :: r -> p = len pre + 1 ->
  l = (pre ++ [m]) ++ r /\ p + 1 = len (pre ++ [m]) + 1.
Proof.
  intros pre m r p l Hl Hp. rewrite <- app_assoc. split; [exact Hl|].
  unfold len in *. rewrite app_length. cbn [length]. lia.
Qed.

(* MailboxView.Fetch *)
Lemma fetch_loop_ok : forall uidk wflags seen s c ms pre p mb mb' evs cr, MbInv mb ->
  mb_msgs mb = pre ++ ms -> p = len pre + 1 ->
  fetch_loop uidk wflags seen s c ms p mb = (mb', evs, cr) ->
  MbInv mb' /\ cr = false /\ views mb' = views mb /\ mb_msgs mb' = mb_msgs mb /\
  forall v, option_map s_view (sess_of mb c) = Some v ->
    Forall (fun e => exists n uid d, e = EvFetch n uid d /\ nth1 v n = Some uid) evs.
Proof.
  induction ms as [|m r IH]; intros pre p mb mb' evs cr HI Hms Hp H.
  - cbn [fetch_loop] in H. inversion H; subst. split; [assumption|].
    split; [reflexivity|]. split; [reflexivity|]. split; [reflexivity|]. intros v _. constructor.
  - cbn [fetch_loop] in H. cbv zeta in H.
    assert (Hnth : nth1 (uids_of mb) p = Some (m_uid m)).
    { unfold uids_of. rewrite Hms, Hp. apply nth1_mid. }
    destruct (selected uidk s (enc mb c p) (m_uid m) && negb (enc mb c p =? 0)) eqn:Esel.
    + destruct (if seen then mb_do mb (OQueueMsgFlags p (m_uid m) (flag_tok m) None)
                else (mb, false)) as [mb1 c1] eqn:E1.
      destruct (fetch_loop uidk wflags seen s c r (p + 1) mb1) as [[mb2 evs2] c2] eqn:E2.
      inversion H; subst mb' evs cr; clear H.
      assert (H1 : MbInv mb1 /\ c1 = false /\ views mb1 = views mb /\ mb_msgs mb1 = mb_msgs mb).
      { destruct seen.
        - destruct (mb_do_flags_ok _ _ _ _ _ _ _ HI Hnth E1) as (A & B & C & D & _). auto.
        - inversion E1; subst mb1 c1. auto. }
      destruct H1 as (HI1 & Hc1 & Hv1 & Hm1).
      assert (Hms' : mb_msgs mb1 = pre ++ m :: r) by congruence.
      destruct (loop_next _ _ _ _ _ Hms' Hp) as [Hms1 Hp1].
      destruct (IH _ _ _ _ _ _ HI1 Hms1 Hp1 E2) as (HI2 & Hc2 & Hv2 & Hm2 & Hev).
      split; [assumption|]. split; [rewrite Hc1, Hc2; reflexivity|].
      split; [congruence|]. split; [congruence|].
      intros v Hv. constructor.
      * exists (enc mb c p), (m_uid m), (if wflags then Some (m_del m) else None).
        split; [reflexivity|].
        destruct (sess_of mb c) as [sv|] eqn:Es; [|discriminate].
        cbn [option_map] in Hv. inversion Hv; subst v.
        eapply enc_nth1; eauto.
        apply andb_prop in Esel. destruct Esel as [_ Ene]. apply negb_true_iff in Ene.
        apply N.eqb_neq. exact Ene.
      * apply Hev. rewrite (views_view _ _ c Hv1). exact Hv.
    + destruct (loop_next _ _ _ _ _ Hms Hp) as [Hms1 Hp1].
      exact (IH _ _ _ _ _ _ HI Hms1 Hp1 H).
Qed.

Lemma mb_fetch_ok : forall uidk wflags seen s c mb mb' evs cr, MbInv mb ->
  mb_fetch uidk wflags seen s c mb = (mb', evs, cr) ->
  MbInv mb' /\ cr = false /\ views mb' = views mb /\ uids_of mb' = uids_of mb /\
  forall sv, sess_of mb c = Some sv ->
    Forall (fun e => exists n uid d, e = EvFetch n uid d /\ nth1 (s_view sv) n = Some uid) evs.
Proof.
  intros uidk wflags seen s c mb mb' evs cr HI H. unfold mb_fetch in H.
  destruct (fetch_loop_ok _ _ _ _ _ _ [] _ _ _ _ _ HI eq_refl eq_refl H) as (A & B & C & D & E).
  split; [assumption|]. split; [assumption|]. split; [assumption|].
  split; [unfold uids_of; rewrite D; reflexivity|].
  intros sv Hs. apply E. rewrite Hs. reflexivity.
Qed.

(* MailboxView.Store (flag part) *)
Lemma apply_sop_uid : forall o m, m_uid (apply_sop o m) = m_uid m.
Proof. intros o m. destruct o; reflexivity. Qed.

Lemma store_loop_ok : forall uidk s o c ms pre p mb ms' mb' cr, MbInv mb ->
  mb_msgs mb = pre ++ ms -> p = len pre + 1 ->
  store_loop uidk s o c ms p mb = (ms', mb', cr) ->
  MbInv mb' /\ cr = false /\ views mb' = views mb /\ mb_msgs mb' = mb_msgs mb /\
  mb_next mb' = mb_next mb /\ map m_uid ms' = map m_uid ms.
Proof.
  induction ms as [|m r IH]; intros pre p mb ms' mb' cr HI Hms Hp H.
  - cbn [store_loop] in H. inversion H; subst. split; [assumption|].
    split; [reflexivity|]. split; [reflexivity|]. split; [reflexivity|]. split; reflexivity.
  - cbn [store_loop] in H. cbv zeta in H.
    assert (Hnth : nth1 (uids_of mb) p = Some (m_uid m)).
    { unfold uids_of. rewrite Hms, Hp. apply nth1_mid. }
    destruct (selected uidk s (enc mb c p) (m_uid m)) eqn:Esel.
    + destruct (mb_do mb (OQueueMsgFlags p (m_uid m) (flag_tok (apply_sop o m)) (Some c)))
        as [mb1 c1] eqn:E1.
      destruct (store_loop uidk s o c r (p + 1) mb1) as [[r' mb2] c2] eqn:E2.
      inversion H; subst ms' mb' cr; clear H.
      destruct (mb_do_flags_ok _ _ _ _ _ _ _ HI Hnth E1) as (HI1 & Hc1 & Hv1 & Hm1 & Hn1).
      assert (Hms' : mb_msgs mb1 = pre ++ m :: r) by congruence.
      destruct (loop_next _ _ _ _ _ Hms' Hp) as [Hms1 Hp1].
      destruct (IH _ _ _ _ _ _ HI1 Hms1 Hp1 E2) as (HI2 & Hc2 & Hv2 & Hm2 & Hn2 & Hu2).
      split; [assumption|]. split; [rewrite Hc1, Hc2; reflexivity|].
      split; [congruence|]. split; [congruence|]. split; [congruence|].
      cbn [map]. rewrite apply_sop_uid, Hu2. reflexivity.
    + destruct (store_loop uidk s o c r (p + 1) mb) as [[r' mb2] c2] eqn:E2.
      inversion H; subst ms' mb' cr; clear H.
      destruct (loop_next _ _ _ _ _ Hms Hp) as [Hms1 Hp1].
      destruct (IH _ _ _ _ _ _ HI Hms1 Hp1 E2) as (HI2 & Hc2 & Hv2 & Hm2 & Hn2 & Hu2).
      split; [assumption|]. split; [assumption|].
      split; [assumption|]. split; [assumption|]. split; [assumption|].
      cbn [map]. rewrite Hu2. reflexivity.
Qed.

Lemma mb_store_ok : forall uidk s o c mb mb' cr, MbInv mb -> mb_store uidk s o c mb = (mb', cr) ->
  MbInv mb' /\ cr = false /\ views mb' = views mb /\ uids_of mb' = uids_of mb.
Proof.
  intros uidk s o c mb mb' cr HI H. unfold mb_store in H.
  destruct (store_loop uidk (static_for uidk mb s) o c (mb_msgs mb) 1 mb) as [[ms' mb1] c1] eqn:E.
  inversion H; subst mb' cr; clear H.
  destruct (store_loop_ok _ _ _ _ _ [] _ _ _ _ _ HI eq_refl eq_refl E) as (A & B & C & D & F & G).
  split; [|split; [assumption|split; [exact C|exact G]]].
  constructor; cbn [mb_tr mb_msgs mb_next].
  - exact (mi_inv _ A).
  - rewrite (mi_L _ A). unfold uids_of. cbn [mb_msgs]. rewrite G, D. reflexivity.
  - exact (mi_next _ A).
  - exact (mi_qok _ A).
Qed.

(* Mailbox.expungeLocked *)
Lemma mb_do_expunge_ok : forall mb p mb1 c1, MbInv mb -> 1 <= p <= len (mb_msgs mb) ->
  mb_do (mkMb (drop_at (N.to_nat p) (mb_msgs mb)) (mb_next mb) (mb_tr mb)) (OQueueExpunge p) = (mb1, c1) ->
  MbInv mb1 /\ c1 = false /\ views mb1 = views mb /\ len (mb_msgs mb1) = len (mb_msgs mb) - 1.
Proof.
  intros mb p mb1 c1 HI Hp H. pose proof (mi_inv _ HI) as HT.
  assert (Hn : t_n (mb_tr mb) = len (mb_msgs mb)).
  { rewrite (inv_n _ HT), (mi_L _ HI). unfold uids_of, len. rewrite map_length. reflexivity. }
  assert (Es : step (mb_tr mb) (OQueueExpunge p) =
    (mkT (t_n (mb_tr mb) - 1) (remove_at (N.to_nat p) (t_L (mb_tr mb))) (t_next (mb_tr mb))
         (push_all (UExpunge p) None (t_sess (mb_tr mb))), OutNone)).
  { cbn [step]. replace ((p =? 0) || (t_n (mb_tr mb) <? p)) with false by lia. reflexivity. }
  destruct (step_inv _ _ _ _ HT Es) as [HI' _]; [intros; discriminate|].
  unfold mb_do in H. cbn [mb_tr] in H. rewrite Es in H. cbv beta iota in H.
  inversion H; subst mb1 c1; clear H.
  split; [|split; [reflexivity|split]].
  - constructor; unfold uids_of, with_tr; cbn [mb_tr mb_msgs mb_next t_L t_next t_sess].
    + exact HI'.
    + rewrite map_drop_at, (mi_L _ HI). reflexivity.
    + exact (mi_next _ HI).
    + intros s Hs. eapply push_all_qok; [exact (inv_sess _ HT)| |exact (mi_qok _ HI)|exact Hs].
      exact I.
  - unfold views, bnd, with_tr. cbn [mb_tr t_sess mb_next]. apply push_all_views_bnd.
    + cbn [added]. lia.
    + intro HH. exfalso. apply HH. reflexivity.
  - cbn [with_tr mb_msgs]. unfold len in *. rewrite drop_at_length; lia.
Qed.

Lemma expunge_loop_ok : forall gone rms p mb mb' cr, MbInv mb ->
  p = N.of_nat (length rms) -> p <= len (mb_msgs mb) ->
  expunge_loop gone rms p mb = (mb', cr) ->
  MbInv mb' /\ cr = false /\ views mb' = views mb.
Proof.
  induction rms as [|m r IH]; intros p mb mb' cr HI Hp Hle H; cbn [expunge_loop] in H.
  - inversion H; subst. auto.
  - cbn [length] in Hp.
    assert (Hp1 : p - 1 = N.of_nat (length r)) by lia.
    assert (Hr : 1 <= p <= len (mb_msgs mb)) by lia.
    destruct (gone m).
    + destruct (mb_do (mkMb (drop_at (N.to_nat p) (mb_msgs mb)) (mb_next mb) (mb_tr mb))
                      (OQueueExpunge p)) as [mb1 c1] eqn:E1.
      destruct (expunge_loop gone r (p - 1) mb1) as [mb2 c2] eqn:E2.
      inversion H; subst mb' cr; clear H.
      destruct (mb_do_expunge_ok _ _ _ _ HI Hr E1) as (HI1 & Hc1 & Hv1 & Hl1).
      assert (Hle1 : p - 1 <= len (mb_msgs mb1)) by lia.
      destruct (IH _ _ _ _ HI1 Hp1 Hle1 E2) as (HI2 & Hc2 & Hv2).
      split; [assumption|]. split; [rewrite Hc1, Hc2; reflexivity|congruence].
    + assert (Hle1 : p - 1 <= len (mb_msgs mb)) by lia.
      exact (IH _ _ _ _ HI Hp1 Hle1 H).
Qed.

Lemma mb_expunge_ok : forall gone mb mb' cr, MbInv mb -> mb_expunge gone mb = (mb', cr) ->
  MbInv mb' /\ cr = false /\ views mb' = views mb.
Proof.
  intros gone mb mb' cr HI H. unfold mb_expunge in H.
  apply (expunge_loop_ok gone (rev (mb_msgs mb)) (len (mb_msgs mb)) mb mb' cr HI);
    [unfold len; rewrite rev_length; reflexivity|lia|exact H].
Qed.

(* SessionTracker.Poll *)
Lemma qok_no_bad : forall q v, qok v q -> existsb bad_update q = false.
Proof.
  induction q as [|u r IH]; intros v H; [reflexivity|].
  cbn [qok] in H. destruct H as [Hu H]. cbn [existsb]. rewrite (IH _ H).
  destruct u; cbn [bad_update upd_ok] in *; try reflexivity.
  replace (n =? 0) with false by lia. reflexivity.
Qed.

Lemma poll_split_spec : forall allow q em rest, poll_split allow q = (em, rest) ->
  q = em ++ rest /\ (allow = true -> rest = []) /\
  (allow = false -> forallb (fun u => negb (is_expunge u)) em = true).
Proof.
  intros allow q em rest H. unfold poll_split in H. destruct allow.
  - inversion H; subst em rest. split; [symmetry; apply app_nil_r|].
    split; [intros _; reflexivity|intro HH; discriminate HH].
  - apply split_at_expunge_spec in H. destruct H as (A & B & _).
    split; [exact A|]. split; [intro HH; discriminate HH|intros _; exact B].
Qed.

Definition poll_f (c : N) (em rest : list upd) (s' : sess) : sess :=
  if s_id s' =? c then mkSess c (fold_left apply_upd em (s_view s')) rest else s'.

Lemma poll_f_id : forall c em rest a, s_id (poll_f c em rest a) = s_id a.
Proof.
  intros c em rest a. unfold poll_f. destruct (s_id a =? c) eqn:E; cbn [s_id]; [|reflexivity].
  apply N.eqb_eq in E. congruence.
Qed.

Lemma find_sess_map_other : forall c c' f ss, (forall a, s_id (f a) = s_id a) ->
  (forall a, s_id a <> c -> f a = a) -> c' <> c ->
  find_sess c' (map f ss) = find_sess c' ss.
Proof.
  intros c c' f ss Hid Hf Hne. induction ss as [|a r IH]; cbn [map find_sess]; [reflexivity|].
  rewrite Hid. destruct (s_id a =? c') eqn:E; [|exact IH].
  rewrite Hf; [reflexivity|]. apply N.eqb_eq in E. congruence.
Qed.

Lemma mb_poll_ok : forall mb c allow sv, MbInv mb -> sess_of mb c = Some sv ->
  exists em rest t',
    step (mb_tr mb) (OPoll c allow) = (t', OutPoll em) /\
    s_queue sv = em ++ rest /\
    MbInv (with_tr mb t') /\
    sess_of (with_tr mb t') c = Some (mkSess c (replay (s_view sv) em) rest) /\
    (forall c', c' <> c -> sess_of (with_tr mb t') c' = sess_of mb c') /\
    sids (with_tr mb t') = sids mb /\
    (allow = true -> rest = [] /\ replay (s_view sv) em = uids_of mb) /\
    (forall ctx, (nonuid_fss ctx = true -> allow = false) ->
       fold_opt ev_view (Some (s_view sv)) (map (fun u => (ctx, upd_ev u)) em)
       = Some (Some (replay (s_view sv) em))).
Proof.
  intros mb c allow sv HI Hs. unfold sess_of in Hs.
  pose proof (mi_inv _ HI) as HT.
  destruct (find_sess_some _ _ _ Hs) as [Hin Hid].
  destruct (inv_sess _ HT sv Hin) as (b & Hq).
  pose proof (mi_qok _ HI sv Hin) as Hok.
  destruct (poll_split allow (s_queue sv)) as [em rest] eqn:Eps.
  destruct (poll_split_spec _ _ _ _ Eps) as (Hsplit & Htrue & Hfalse).
  rewrite Hsplit in Hq, Hok. apply qok_app in Hok. destruct Hok as [Hok1 Hok2].
  assert (Es : step (mb_tr mb) (OPoll c allow) =
    (mkT (t_n (mb_tr mb)) (t_L (mb_tr mb)) (t_next (mb_tr mb))
         (map (poll_f c em rest) (t_sess (mb_tr mb))), OutPoll em)).
  { cbn [step]. rewrite Hs. cbv beta iota. rewrite Eps. cbv beta iota.
    rewrite (qok_no_bad _ _ Hok1). reflexivity. }
  destruct (step_inv _ _ _ _ HT Es) as [HI' _]; [intros; discriminate|].
  exists em, rest. eexists. split; [exact Es|]. split; [exact Hsplit|].
  split; [|split; [|split; [|split; [|split]]]].
  - constructor; unfold uids_of, with_tr; cbn [mb_tr mb_msgs mb_next t_L t_next t_sess].
    + exact HI'.
    + exact (mi_L _ HI).
    + exact (mi_next _ HI).
    + intros s Hs'. apply in_map_iff in Hs'. destruct Hs' as (a & Ha & Hina).
      unfold poll_f in Ha. destruct (s_id a =? c) eqn:E.
      * apply N.eqb_eq in E.
        assert (a = sv) by exact (find_sess_unique _ _ _ _ (inv_ids _ HT) Hs Hina E).
        subst a s. cbn [s_view s_queue]. exact Hok2.
      * subst s. apply (mi_qok _ HI). assumption.
  - unfold sess_of. cbn [with_tr mb_tr t_sess].
    rewrite (find_sess_map c (poll_f c em rest) _ sv (poll_f_id c em rest) Hs).
    unfold poll_f. rewrite Hid, N.eqb_refl. reflexivity.
  - intros c' Hne. unfold sess_of. cbn [with_tr mb_tr t_sess].
    apply find_sess_map_other with (c := c); [apply poll_f_id| |assumption].
    intros a Ha. unfold poll_f. replace (s_id a =? c) with false by lia. reflexivity.
  - unfold sids. cbn [with_tr mb_tr t_sess]. rewrite map_map. apply map_ext.
    intros a. apply poll_f_id.
  - intros Ha. specialize (Htrue Ha). subst rest. split; [reflexivity|].
    rewrite app_nil_r in Hq. rewrite <- (mi_L _ HI). eapply qinv_replay; eauto.
  - intros ctx Hctx. eapply poll_events_ok; [exact Hq|exact Hok1|].
    intro Hn. apply Hfalse. apply Hctx. exact Hn.
Qed.

(* a poll for a connection that has no session in this mailbox does nothing *)
Lemma mb_poll_none : forall mb c allow, sess_of mb c = None ->
  step (mb_tr mb) (OPoll c allow) = (mb_tr mb, OutNone).
Proof. intros mb c allow H. unfold sess_of in H. cbn [step]. rewrite H. reflexivity. Qed.

(* Mailbox.NewView *)
Lemma find_sess_app_new : forall c c' ss s0, s_id s0 = c ->
  find_sess c' (ss ++ [s0]) =
  match find_sess c' ss with Some s => Some s | None => if c =? c' then Some s0 else None end.
Proof.
  intros c c' ss s0 H. induction ss as [|a r IH]; cbn [app find_sess].
  - rewrite H. destruct (c =? c'); reflexivity.
  - destruct (s_id a =? c'); [reflexivity|exact IH].
Qed.

Lemma find_sess_none : forall c ss, ~ In c (map s_id ss) -> find_sess c ss = None.
Proof.
  induction ss as [|a r IH]; intros H; cbn [find_sess]; [reflexivity|].
  cbn [map In] in H. destruct (s_id a =? c) eqn:E; [apply N.eqb_eq in E; tauto|].
  apply IH. tauto.
Qed.

Lemma mb_new_ok : forall mb c, MbInv mb -> ~ In c (sids mb) ->
  exists mb', mb_do mb (ONewSession c) = (mb', false) /\ MbInv mb' /\
    sess_of mb' c = Some (mkSess c (uids_of mb) []) /\
    (forall c', c' <> c -> sess_of mb' c' = sess_of mb c') /\
    (forall x, In x (sids mb') <-> In x (sids mb) \/ x = c) /\
    mb_msgs mb' = mb_msgs mb /\ mb_next mb' = mb_next mb.
Proof.
  intros mb c HI Hc. pose proof (mi_inv _ HI) as HT. unfold sids in Hc.
  assert (Es : step (mb_tr mb) (ONewSession c) =
    (mkT (t_n (mb_tr mb)) (t_L (mb_tr mb)) (t_next (mb_tr mb))
         (t_sess (mb_tr mb) ++ [mkSess c (t_L (mb_tr mb)) []]), OutNone)) by reflexivity.
  destruct (step_inv _ _ _ _ HT Es) as [HI' _].
  { intros sid E. inversion E; subst sid. exact Hc. }
  eexists. split; [unfold mb_do; rewrite Es; reflexivity|].
  split; [|split; [|split; [|split; [|split; reflexivity]]]].
  - constructor; unfold uids_of, with_tr; cbn [mb_tr mb_msgs mb_next t_L t_next t_sess].
    + exact HI'.
    + exact (mi_L _ HI).
    + exact (mi_next _ HI).
    + intros s Hs. apply in_app_iff in Hs. destruct Hs as [Hs|[Hs|[]]].
      * apply (mi_qok _ HI). assumption.
      * subst s. cbn [s_queue qok]. exact I.
  - unfold sess_of. cbn [with_tr mb_tr t_sess].
    rewrite (find_sess_app_new c c (t_sess (mb_tr mb)) (mkSess c (t_L (mb_tr mb)) []) eq_refl). rewrite (find_sess_none _ _ Hc).
    rewrite N.eqb_refl. rewrite (mi_L _ HI). reflexivity.
  - intros c' Hne. unfold sess_of. cbn [with_tr mb_tr t_sess].
    rewrite (find_sess_app_new c c' (t_sess (mb_tr mb)) (mkSess c (t_L (mb_tr mb)) []) eq_refl).
    destruct (find_sess c' (t_sess (mb_tr mb))); [reflexivity|].
    replace (c =? c') with false by lia. reflexivity.
  - intros x. unfold sids. cbn [with_tr mb_tr t_sess]. rewrite map_app, in_app_iff.
    cbn [map In s_id]. split.
    + intros [H|[H|[]]]; [left; exact H|right; symmetry; exact H].
    + intros [H|H]; [left; exact H|right; left; symmetry; exact H].
Qed.

(* MailboxView.Close *)
Lemma find_sess_filter_self : forall c ss,
  find_sess c (filter (fun s => negb (s_id s =? c)) ss) = None.
Proof.
  induction ss as [|a r IH]; cbn [filter find_sess]; [reflexivity|].
  destruct (s_id a =? c) eqn:E; cbn [negb]; [exact IH|].
  cbn [find_sess]. rewrite E. exact IH.
Qed.

Lemma find_sess_filter_other : forall c c' ss, c' <> c ->
  find_sess c' (filter (fun s => negb (s_id s =? c)) ss) = find_sess c' ss.
Proof.
  intros c c' ss Hne. induction ss as [|a r IH]; cbn [filter find_sess]; [reflexivity|].
  destruct (s_id a =? c) eqn:E; cbn [negb].
  - replace (s_id a =? c') with false by lia. exact IH.
  - cbn [find_sess]. destruct (s_id a =? c'); [reflexivity|exact IH].
Qed.

Lemma mb_close_ok : forall mb c, MbInv mb ->
  exists mb', mb_do mb (OClose c) = (mb', false) /\ MbInv mb' /\
    sess_of mb' c = None /\
    (forall c', c' <> c -> sess_of mb' c' = sess_of mb c') /\
    (forall x, In x (sids mb') <-> In x (sids mb) /\ x <> c) /\
    mb_msgs mb' = mb_msgs mb /\ mb_next mb' = mb_next mb.
Proof.
  intros mb c HI. pose proof (mi_inv _ HI) as HT.
  assert (Es : step (mb_tr mb) (OClose c) =
    (mkT (t_n (mb_tr mb)) (t_L (mb_tr mb)) (t_next (mb_tr mb))
         (filter (fun s => negb (s_id s =? c)) (t_sess (mb_tr mb))), OutNone)) by reflexivity.
  destruct (step_inv _ _ _ _ HT Es) as [HI' _]; [intros; discriminate|].
  eexists. split; [unfold mb_do; rewrite Es; reflexivity|].
  split; [|split; [|split; [|split; [|split; reflexivity]]]].
  - constructor; unfold uids_of, with_tr; cbn [mb_tr mb_msgs mb_next t_L t_next t_sess].
    + exact HI'.
    + exact (mi_L _ HI).
    + exact (mi_next _ HI).
    + intros s Hs. apply filter_In in Hs. apply (mi_qok _ HI). tauto.
  - unfold sess_of. cbn [with_tr mb_tr t_sess]. apply find_sess_filter_self.
  - intros c' Hne. unfold sess_of. cbn [with_tr mb_tr t_sess].
    apply find_sess_filter_other. assumption.
  - intros x. unfold sids. cbn [with_tr mb_tr t_sess]. rewrite !in_map_iff. split.
    + intros (s & Hs & Hin). apply filter_In in Hin. destruct Hin as [Hin Hp].
      split; [exists s; auto|]. apply negb_true_iff in Hp. apply N.eqb_neq in Hp. congruence.
    + intros [(s & Hs & Hin) Hne]. exists s. split; [assumption|].
      apply filter_In. split; [assumption|]. apply negb_true_iff. apply N.eqb_neq. congruence.
Qed.

Lemma find_sess_in : forall c ss, In c (map s_id ss) -> exists s, find_sess c ss = Some s.
Proof.
  induction ss as [|a r IH]; intros H; cbn [map In] in H; [destruct H|].
  cbn [find_sess]. destruct (s_id a =? c) eqn:E; [eauto|].
  apply IH. destruct H as [H|H]; [lia|assumption].
Qed.

Lemma sess_of_sids : forall mb c, MbInv mb -> (In c (sids mb) <-> exists sv, sess_of mb c = Some sv).
Proof.
  intros mb c _. unfold sids, sess_of. split.
  - apply find_sess_in.
  - intros (sv & H). apply find_sess_some in H. destruct H as [Hin Hid].
    rewrite <- Hid. apply in_map. assumption.
Qed.

Lemma sess_of_id : forall mb c sv, sess_of mb c = Some sv -> s_id sv = c /\ In sv (t_sess (mb_tr mb)).
Proof. intros mb c sv H. unfold sess_of in H. apply find_sess_some in H. tauto. Qed.

(* ---- bounds ---------------------------------------------------------------------------------- *)

(* the queue of a session leads from its list to the mailbox, from its bound to uidNext *)
Lemma mb_qinv : forall mb c sv, MbInv mb -> sess_of mb c = Some sv ->
  qinv (bnd mb sv) (s_view sv) (s_queue sv) (uids_of mb) (mb_next mb).
Proof.
  intros mb c sv HI Hs. unfold sess_of in Hs.
  destruct (find_sess_some _ _ _ Hs) as [Hin _].
  destruct (inv_sess _ (mi_inv _ HI) sv Hin) as (b & Hq).
  rewrite (mi_L _ HI), (mi_next _ HI) in Hq.
  pose proof (qinv_bound _ _ _ _ _ Hq) as Hb.
  replace (bnd mb sv) with b by (unfold bnd; lia). exact Hq.
Qed.

Lemma mb_poll_bnd : forall mb c allow sv em rest t', MbInv mb -> sess_of mb c = Some sv ->
  step (mb_tr mb) (OPoll c allow) = (t', OutPoll em) -> s_queue sv = em ++ rest ->
  bnd mb (mkSess c (replay (s_view sv) em) rest) = bnd mb sv + added em.
Proof.
  intros mb c allow sv em rest t' HI Hs _ Hsplit.
  pose proof (qinv_bound _ _ _ _ _ (mb_qinv _ _ _ HI Hs)) as Hb.
  unfold bnd in *. cbn [s_queue]. rewrite Hsplit in *. rewrite added_app in *. lia.
Qed.

Lemma mb_uids_bound : forall mb, MbInv mb ->
  Forall (fun x => x < mb_next mb) (uids_of mb) /\ NoDup (uids_of mb).
Proof.
  intros mb HI. rewrite <- (mi_L _ HI), <- (mi_next _ HI).
  split; [apply (inv_lt _ (mi_inv _ HI))|apply (inv_nd _ (mi_inv _ HI))].
Qed.

(* ---- the gone-observer over what a poll emits ---------------------------------------------- *)

Lemma nth1_remove_perm : forall v k u, nth1 v k = Some u ->
  Permutation v (u :: remove_at (N.to_nat k) v).
Proof.
  induction v as [|x r IH]; intros k u H.
  - rewrite nth1_nil in H. discriminate.
  - pose proof (nth1_range _ _ _ H) as Hr. rewrite remove_at_cons by lia. rewrite nth1_cons in H.
    destruct (k =? 0) eqn:E0; [discriminate|]. destruct (k =? 1) eqn:E1.
    + inversion H; subst. apply Permutation_refl.
    + apply IH in H. eapply perm_trans; [apply perm_skip; exact H|]. apply perm_swap.
Qed.

(* one emitted update, seen by the identity-aware observer *)
Lemma upd_ev_view : forall u r b v L nxt ctx, qinv b v (u :: r) L nxt -> upd_ok v u ->
  (nonuid_fss ctx = true -> is_expunge u = false) ->
  ev_view (Some v) (ctx, upd_ev u) = Some (Some (apply_upd v u)).
Proof.
  intros u r b v L nxt ctx Hq Hu Hctx.
  destruct u; simpl qinv in Hq; cbn [upd_ev ev_view apply_upd]; cbn [upd_ok] in Hu.
  - destruct Hq as (_ & _ & (Hk1 & Hk2) & _).
    assert (Hn : nonuid_fss ctx = false).
    { destruct (nonuid_fss ctx); [|reflexivity]. specialize (Hctx eq_refl).
      cbn [is_expunge] in Hctx. discriminate. }
    rewrite Hn. unfold in_range, len.
    replace (1 <=? k) with true by lia.
    replace (k <=? N.of_nat (length v)) with true by lia. reflexivity.
  - destruct Hq as (_ & FA & Hprev & Hn0 & Hn & Hids & _).
    assert (Hd : disjointb ids v = true).
    { rewrite Hids. apply disjointb_fresh. assumption. }
    specialize (Hn Hu). unfold len.
    replace (n =? N.of_nat (length v) + N.of_nat (length ids)) with true by lia.
    rewrite Hd. reflexivity.
  - reflexivity.
  - rewrite Hu. cbn [oN_eqb]. rewrite N.eqb_refl. reflexivity.
Qed.

Lemma ev_gone_step : forall v gone told ctx e v', ev_view (Some v) (ctx, e) = Some v' ->
  ev_gone (Some v, gone, told) (ctx, e) =
  Some (v',
        match e with
        | EvExpunge n => match nth1 v n with Some u => u :: gone | None => gone end
        | _ => gone
        end,
        match e with EvExists _ ids => told ++ ids | _ => told end).
Proof.
  intros v gone told ctx e v' H. unfold ev_gone. cbv beta iota. rewrite H. cbn [snd].
  destruct e; reflexivity.
Qed.

Lemma poll_events_gone : forall em rest b v L nxt ctx gone told,
  qinv b v (em ++ rest) L nxt -> qok v em ->
  (nonuid_fss ctx = true -> forallb (fun u => negb (is_expunge u)) em = true) ->
  Forall (fun x => x < b) told -> Permutation told (v ++ gone) -> NoDup told ->
  exists gone' told',
    fold_opt ev_gone (Some v, gone, told) (map (fun u => (ctx, upd_ev u)) em)
    = Some (Some (replay v em), gone', told') /\
    Forall (fun x => x < b + added em) told' /\ Permutation told' (replay v em ++ gone') /\
    NoDup told'.
Proof.
  induction em as [|u r IH]; intros rest b v L nxt ctx gone told Hq Hok Hctx Hb Hp Hnd.
  - exists gone, told. unfold replay. cbn [map fold_opt added fold_left].
    split; [reflexivity|]. split; [|split; assumption].
    eapply Forall_impl; [|exact Hb]. intros x Hx. cbv beta in *. lia.
  - cbn [qok] in Hok. destruct Hok as [Hu Hok].
    assert (Hc1 : nonuid_fss ctx = true -> is_expunge u = false).
    { intro HH. apply Hctx in HH. cbn [forallb] in HH. apply andb_prop in HH.
      destruct HH as [HH _]. apply negb_true_iff in HH. exact HH. }
    assert (Hc2 : nonuid_fss ctx = true -> forallb (fun u => negb (is_expunge u)) r = true).
    { intro HH. apply Hctx in HH. cbn [forallb] in HH. apply andb_prop in HH.
      destruct HH as [_ HH]. exact HH. }
    simpl app in Hq.
    pose proof (upd_ev_view _ _ _ _ _ _ ctx Hq Hu Hc1) as Hev.
    rewrite replay_cons. cbn [map fold_opt]. rewrite (ev_gone_step _ _ _ _ _ _ Hev).
    destruct u; simpl qinv in Hq; cbn [upd_ev apply_upd added]; cbn [apply_upd] in Hok.
    + (* UExpunge *)
      destruct Hq as (_ & _ & (Hk1 & Hk2) & Hq).
      destruct (nth1_exists v k (conj Hk1 Hk2)) as (id & Hid). rewrite Hid.
      apply (IH rest b _ L nxt ctx (id :: gone) told Hq Hok Hc2 Hb); [|exact Hnd].
      eapply perm_trans; [exact Hp|].
      eapply perm_trans; [apply Permutation_app_tail; apply nth1_remove_perm; exact Hid|].
      cbn [app]. apply Permutation_middle.
    + (* UExists *)
      destruct Hq as (_ & _ & Hprev & Hn0 & Hn & Hids & Hq).
      assert (Hin : forall x, In x ids -> b <= x < b + N.of_nat (length ids)).
      { intros x Hx. rewrite Hids in Hx. apply fresh_In in Hx. exact Hx. }
      assert (HndI : NoDup ids) by (rewrite Hids; apply fresh_NoDup).
      destruct (IH rest _ _ L nxt ctx gone (told ++ ids) Hq Hok Hc2) as (gone' & told' & A & B & C & D).
      * rewrite Forall_forall in *. intros x Hx. apply in_app_iff in Hx.
        destruct Hx as [Hx|Hx]; [apply Hb in Hx; lia|apply Hin in Hx; lia].
      * eapply perm_trans; [apply Permutation_app_tail; exact Hp|].
        rewrite <- !app_assoc. apply Permutation_app_head. apply Permutation_app_comm.
      * apply NoDup_app_intro; [exact Hnd|exact HndI|]. intros x Hx Hx'.
        rewrite Forall_forall in Hb. apply Hb in Hx. apply Hin in Hx'. lia.
      * exists gone', told'. split; [exact A|]. split; [|split; assumption].
        eapply Forall_impl; [|exact B]. intros x Hx. cbv beta in *. unfold len. lia.
    + (* UMboxFlags *)
      destruct Hq as (_ & _ & Hq).
      exact (IH rest b v L nxt ctx gone told Hq Hok Hc2 Hb Hp Hnd).
    + (* UFetch *)
      destruct Hq as (_ & _ & Hq).
      exact (IH rest b v L nxt ctx gone told Hq Hok Hc2 Hb Hp Hnd).
Qed.

Lemma NoDup_app_disj : forall (a b : list N) x, NoDup (a ++ b) -> In x b -> ~ In x a.
Proof.
  induction a as [|y a IH]; intros b x ND Hb Ha; [destruct Ha|].
  cbn [app] in ND. inversion ND as [|? ? Hn ND']; subst. destruct Ha as [Ha|Ha].
  - subst y. apply Hn. apply in_app_iff. right. exact Hb.
  - exact (IH b x ND' Hb Ha).
Qed.

(* a message the client saw expunged is not in the mailbox any more *)
Lemma gone_not_in_mailbox : forall b v q L nxt gone u, qinv b v q L nxt -> NoDup (v ++ gone) ->
  Forall (fun x => x < b) gone -> In u gone -> ~ In u L.
Proof.
  intros b v q L nxt gone u Hq ND Hb Hu. rewrite Forall_forall in Hb.
  eapply qinv_notin; [exact Hq|apply Hb; exact Hu|].
  eapply NoDup_app_disj; eauto.
Qed.
