(* Proofs/StartTLSProofs.v — proofs for C17 about Model/StartTLS.v. *)
From GoImap.Base Require Import Bytes.
From GoImap.Model Require Import StartTLS.
Open Scope N_scope.


Definition rem (r : breader) : bytes := b_buf r ++ concat (b_chunks r).

Lemma rbf_some : forall cs c r', read_byte_from cs = Some (c, r') -> concat cs = c :: rem r'.
Proof.
  induction cs as [|ch cs IH]; simpl; intros c r' H; [discriminate|].
  destruct ch as [|x rest].
  - simpl. apply IH; exact H.
  - inversion H; subst. reflexivity.
Qed.

Lemma rbf_none : forall cs, read_byte_from cs = None -> concat cs = [].
Proof.
  induction cs as [|ch cs IH]; simpl; intros H; [reflexivity|].
  destruct ch as [|x rest]; [simpl; apply IH; exact H|discriminate].
Qed.

Lemma rb_some : forall r c r', read_byte r = Some (c, r') -> rem r = c :: rem r'.
Proof.
  intros [buf cs] c r'. unfold read_byte, rem; simpl.
  destruct buf as [|x rest]; intros H.
  - simpl. apply rbf_some; exact H.
  - inversion H; subst. reflexivity.
Qed.

Lemma rb_none : forall r, read_byte r = None -> rem r = [].
Proof.
  intros [buf cs]. unfold read_byte, rem; simpl.
  destruct buf as [|x rest]; intros H; [|discriminate].
  simpl. apply rbf_none; exact H.
Qed.

Lemma beqb_refl : forall c, beqb c c = true.
Proof. intros c. unfold beqb. apply Ascii.eqb_eq. reflexivity. Qed.

Lemma beqb_false : forall a b, a <> b -> beqb a b = false.
Proof. intros a b H. unfold beqb. apply Ascii.eqb_neq. exact H. Qed.

Lemma beqb_true : forall a b, beqb a b = true -> a = b.
Proof. intros a b H. unfold beqb in H. apply Ascii.eqb_eq. exact H. Qed.

Lemma read_line_exact : forall fuel l t r acc,
  rem r = l ++ LF :: t -> ~ In LF l -> (length l < fuel)%nat ->
  exists r', read_line_b fuel r acc = Some (rev acc ++ l ++ [LF], r') /\ rem r' = t.
Proof.
  induction fuel as [|f IH]; intros l t r acc Hrem Hnin Hlen; [inversion Hlen|].
  simpl. destruct (read_byte r) as [[c r']|] eqn:E.
  - apply rb_some in E. rewrite E in Hrem.
    destruct l as [|x l'].
    + simpl in Hrem. inversion Hrem; subst. rewrite beqb_refl.
      exists r'. split; reflexivity.
    + simpl in Hrem. inversion Hrem; subst.
      rewrite beqb_false by (intro Hx; apply Hnin; left; exact Hx).
      destruct (IH l' t r' (x :: acc)) as [r'' [G1 G2]]; auto.
      * intro Hin; apply Hnin; right; exact Hin.
      * simpl in Hlen. lia.
      * exists r''. split; [|exact G2]. rewrite G1. simpl.
        rewrite <- app_assoc. reflexivity.
  - apply rb_none in E. rewrite E in Hrem. destruct l; discriminate.
Qed.

Lemma read_line_conservation : forall fuel r acc l r',
  read_line_b fuel r acc = Some (l, r') -> l ++ rem r' = rev acc ++ rem r.
Proof.
  induction fuel as [|f IH]; intros r acc l r' H; simpl in H; [discriminate|].
  destruct (read_byte r) as [[c r1]|] eqn:E; [|discriminate].
  apply rb_some in E. rewrite E.
  destruct (beqb c LF) eqn:B.
  - inversion H; subst. simpl. rewrite <- app_assoc. reflexivity.
  - apply IH in H. rewrite H. simpl. rewrite <- app_assoc. reflexivity.
Qed.

Lemma read_line_needs : forall fuel r acc, ~ In LF (rem r) -> read_line_b fuel r acc = None.
Proof.
  induction fuel as [|f IH]; intros r acc Hnin; simpl; [reflexivity|].
  destruct (read_byte r) as [[c r1]|] eqn:E; [|reflexivity].
  apply rb_some in E. rewrite E in Hnin.
  destruct (beqb c LF) eqn:B.
  - apply beqb_true in B. exfalso. apply Hnin. left. exact B.
  - apply IH. intro Hin. apply Hnin. right. exact Hin.
Qed.

(* For every command/response line, every plaintext suffix the peer (or a man in the middle)
   appends after it, and every way the network splits the bytes into reads: the IMAP layer
   consumes exactly the line, and the TLS layer receives exactly the suffix — no plaintext
   octet after the STARTTLS exchange line is ever available to the IMAP parser. *)
Lemma switch_exact : forall line suffix chunks,
  ~ In LF line -> concat chunks = line ++ LF :: suffix ->
  starttls_switch chunks = Some (line ++ [LF], suffix).
Proof.
  intros line suffix chunks Hnin Hc. cbv delta [starttls_switch]; cbv beta.
  assert (Hlen : (length line < S (length (concat chunks)))%nat).
  { rewrite Hc, app_length. simpl. lia. }
  assert (Hrem : rem (mkR [] chunks) = line ++ LF :: suffix).
  { unfold rem; simpl. exact Hc. }
  destruct (read_line_exact _ line suffix (mkR [] chunks) [] Hrem Hnin Hlen) as [r' [H1 H2]].
  unfold byte in *. rewrite H1. simpl. unfold rem in H2. unfold tls_input. rewrite H2. reflexivity.
Qed.

(* nothing is lost or duplicated, whatever the stream is *)
Lemma switch_conservation : forall chunks l t,
  starttls_switch chunks = Some (l, t) -> l ++ t = concat chunks.
Proof.
  intros chunks l t. cbv delta [starttls_switch]; cbv beta.
  destruct (read_line_b (S (length (concat chunks))) (mkR [] chunks) []) as [[l0 r]|] eqn:E;
    [|discriminate].
  intros H. inversion H; subst.
  apply read_line_conservation in E. unfold rem in E. simpl in E. exact E.
Qed.

(* if the line never ends, the switch does not happen *)
Lemma switch_needs_line : forall chunks, ~ In LF (concat chunks) -> starttls_switch chunks = None.
Proof.
  intros chunks Hnin. cbv delta [starttls_switch]; cbv beta.
  rewrite read_line_needs; [reflexivity|]. unfold rem; simpl. exact Hnin.
Qed.
