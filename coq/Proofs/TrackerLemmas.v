(* Proofs/TrackerLemmas.v — list facts, the queue-consistency invariant and its preservation,
   used by Proofs/TrackerProofs.v (C07). *)
From GoImap.Base Require Import Bytes.
From GoImap.Model Require Import Tracker.
From GoImap.Proofs Require Import TrackerSpec.
From Coq Require Import ZifyN ZifyNat ZifyBool.
Open Scope N_scope.

(* ------------------------------------------------------------------ *)
(* pos_of, nth1                                                        *)
(* ------------------------------------------------------------------ *)

Lemma pos_of_cons : forall id x r,
  pos_of id (x :: r) = if x =? id then 1 else if pos_of id r =? 0 then 0 else pos_of id r + 1.
Proof. intros. simpl. destruct (pos_of id r); reflexivity. Qed.

Lemma pos_of_zero : forall id l, pos_of id l = 0 <-> ~ In id l.
Proof.
  induction l as [|x r IH].
  - simpl. tauto.
  - rewrite pos_of_cons. simpl In. destruct (x =? id) eqn:E.
    + apply N.eqb_eq in E. split; [lia | tauto].
    + apply N.eqb_neq in E. destruct (pos_of id r =? 0) eqn:E2.
      * apply N.eqb_eq in E2. tauto.
      * apply N.eqb_neq in E2. split; [lia|]. intro H. exfalso. tauto.
Qed.

Lemma pos_of_le : forall id l, pos_of id l <= N.of_nat (length l).
Proof.
  induction l as [|x r IH]; [simpl; lia|].
  rewrite pos_of_cons. simpl length.
  destruct (x =? id); [lia|]. destruct (pos_of id r =? 0); lia.
Qed.

Lemma nth1_nil : forall c, nth1 [] c = None.
Proof. intros. unfold nth1. destruct (c =? 0); [reflexivity|]. destruct (N.to_nat (c - 1)); reflexivity. Qed.

Lemma nth1_cons : forall x r c,
  nth1 (x :: r) c = if c =? 0 then None else if c =? 1 then Some x else nth1 r (c - 1).
Proof.
  intros. unfold nth1. destruct (c =? 0) eqn:E0; [reflexivity|].
  destruct (c =? 1) eqn:E1.
  - apply N.eqb_eq in E1. subst. reflexivity.
  - apply N.eqb_neq in E0. apply N.eqb_neq in E1.
    replace (c - 1 =? 0) with false by lia.
    replace (N.to_nat (c - 1)) with (S (N.to_nat (c - 1 - 1))) by lia. reflexivity.
Qed.

Lemma nth1_In : forall l c id, nth1 l c = Some id -> In id l.
Proof.
  intros l c id H. unfold nth1 in H. destruct (c =? 0); [discriminate|].
  eapply nth_error_In; eauto.
Qed.

Lemma nth1_range : forall l c id, nth1 l c = Some id -> 1 <= c <= N.of_nat (length l).
Proof.
  intros l c id H. unfold nth1 in H. destruct (c =? 0) eqn:E; [discriminate|].
  assert (H1 : (N.to_nat (c - 1) < length l)%nat) by (apply nth_error_Some; congruence).
  lia.
Qed.

Lemma nth1_exists : forall l c, 1 <= c <= N.of_nat (length l) -> exists id, nth1 l c = Some id.
Proof.
  intros l c H. unfold nth1. replace (c =? 0) with false by lia.
  destruct (nth_error l (N.to_nat (c - 1))) eqn:E; [eauto|].
  apply nth_error_None in E. lia.
Qed.

Lemma nth1_none : forall l c, nth1 l c = None -> c = 0 \/ N.of_nat (length l) < c.
Proof.
  intros l c H. unfold nth1 in H. destruct (c =? 0) eqn:E; [left; lia|].
  apply nth_error_None in H. right. lia.
Qed.

Lemma nth1_app1 : forall v w c id, nth1 v c = Some id -> nth1 (v ++ w) c = Some id.
Proof.
  intros v w c id H. unfold nth1 in *. destruct (c =? 0); [discriminate|].
  rewrite nth_error_app1; [exact H|]. apply nth_error_Some. congruence.
Qed.

Lemma nth1_pos_of : forall l p id, NoDup l -> nth1 l p = Some id -> pos_of id l = p.
Proof.
  induction l as [|x r IH]; intros p id ND H.
  - rewrite nth1_nil in H. discriminate.
  - rewrite nth1_cons in H. rewrite pos_of_cons. inversion ND as [|? ? Hx ND']; subst.
    destruct (p =? 0) eqn:E0; [discriminate|].
    destruct (p =? 1) eqn:E1.
    + inversion H; subst. rewrite N.eqb_refl. lia.
    + pose proof (nth1_In _ _ _ H) as Hin.
      assert (x <> id) by (intro; subst; tauto).
      replace (x =? id) with false by lia.
      apply IH in H; [|assumption]. rewrite H.
      replace (p - 1 =? 0) with false by lia. lia.
Qed.

Lemma pos_of_nth1 : forall l p id, p <> 0 -> pos_of id l = p -> nth1 l p = Some id.
Proof.
  induction l as [|x r IH]; intros p id Hp H.
  - simpl in H. congruence.
  - rewrite pos_of_cons in H. rewrite nth1_cons.
    replace (p =? 0) with false by lia.
    destruct (x =? id) eqn:E.
    + apply N.eqb_eq in E. subst. rewrite N.eqb_refl. reflexivity.
    + destruct (pos_of id r =? 0) eqn:E2; [lia|].
      replace (p =? 1) with false by lia.
      apply IH; lia.
Qed.

Lemma pos_of_app_in : forall id v w, In id v -> pos_of id (v ++ w) = pos_of id v.
Proof.
  induction v as [|x r IH]; intros w H; [destruct H|].
  simpl app. rewrite !pos_of_cons. destruct (x =? id) eqn:E; [reflexivity|].
  destruct H as [H|H]; [lia|]. rewrite IH by assumption. reflexivity.
Qed.

Lemma pos_of_app_notin : forall id v w, ~ In id v ->
  pos_of id (v ++ w) = if pos_of id w =? 0 then 0 else N.of_nat (length v) + pos_of id w.
Proof.
  induction v as [|x r IH]; intros w H.
  - simpl app. simpl length. destruct (pos_of id w =? 0) eqn:E; lia.
  - simpl app. rewrite pos_of_cons. simpl in H.
    assert (x <> id) by tauto. replace (x =? id) with false by lia.
    rewrite IH by tauto. simpl length.
    destruct (pos_of id w =? 0) eqn:E; [reflexivity|].
    replace (N.of_nat (length r) + pos_of id w =? 0) with false by lia. lia.
Qed.

(* ------------------------------------------------------------------ *)
(* remove_at                                                           *)
(* ------------------------------------------------------------------ *)

Lemma remove_at_nil : forall k, remove_at k [] = [].
Proof. destruct k as [|[|k]]; reflexivity. Qed.

Lemma remove_at_cons : forall k x r, 1 <= k ->
  remove_at (N.to_nat k) (x :: r) = if k =? 1 then r else x :: remove_at (N.to_nat (k - 1)) r.
Proof.
  intros k x r Hk. destruct (N.to_nat k) as [|[|j]] eqn:E.
  - lia.
  - replace (k =? 1) with true by lia. reflexivity.
  - replace (k =? 1) with false by lia.
    replace (N.to_nat (k - 1)) with (S j) by lia. reflexivity.
Qed.

Lemma remove_at_In : forall v k x, In x (remove_at k v) -> In x v.
Proof.
  induction v as [|a r IH]; intros k x H.
  - rewrite remove_at_nil in H. exact H.
  - destruct k as [|[|k]].
    + exact H.
    + right. exact H.
    + change (In x (a :: remove_at (S k) r)) in H. destruct H as [H|H]; [left; exact H|].
      right. eapply IH; eauto.
Qed.

Lemma remove_at_NoDup : forall v k, NoDup v -> NoDup (remove_at k v).
Proof.
  induction v as [|a r IH]; intros k ND.
  - rewrite remove_at_nil. constructor.
  - inversion ND as [|? ? Ha ND']; subst. destruct k as [|[|k]].
    + exact ND.
    + exact ND'.
    + change (NoDup (a :: remove_at (S k) r)). constructor; [|apply IH; assumption].
      intro H. apply Ha. eapply remove_at_In; eauto.
Qed.

Lemma remove_at_length : forall v k, (1 <= k <= length v)%nat ->
  length (remove_at k v) = (length v - 1)%nat.
Proof.
  induction v as [|a r IH]; intros k H.
  - simpl in H. lia.
  - destruct k as [|[|k]].
    + lia.
    + simpl. lia.
    + change (remove_at (S (S k)) (a :: r)) with (a :: remove_at (S k) r).
      cbn [length] in *. rewrite IH by lia. lia.
Qed.

Lemma nth1_remove_at : forall v k c id, 1 <= k -> nth1 v c = Some id -> c <> k ->
  nth1 (remove_at (N.to_nat k) v) (if k <? c then c - 1 else c) = Some id.
Proof.
  induction v as [|x r IH]; intros k c id Hk H Hne.
  - rewrite nth1_nil in H. discriminate.
  - rewrite remove_at_cons by assumption. rewrite nth1_cons in H.
    destruct (c =? 0) eqn:E0; [discriminate|].
    destruct (c =? 1) eqn:E1.
    + inversion H; subst.
      replace (k =? 1) with false by lia. replace (k <? c) with false by lia.
      rewrite nth1_cons. rewrite E0, E1. reflexivity.
    + destruct (k =? 1) eqn:Ek.
      * replace (k <? c) with true by lia. exact H.
      * rewrite nth1_cons.
        specialize (IH (k - 1) (c - 1) id).
        destruct (k <? c) eqn:Elt.
        -- replace (c - 1 =? 0) with false by lia. replace (c - 1 =? 1) with false by lia.
           replace (k - 1 <? c - 1) with true in IH by lia. apply IH; [lia|assumption|lia].
        -- rewrite E0, E1.
           replace (k - 1 <? c - 1) with false in IH by lia. apply IH; [lia|assumption|lia].
Qed.

Lemma remove_at_removed : forall v k id, NoDup v -> nth1 v k = Some id ->
  ~ In id (remove_at (N.to_nat k) v).
Proof.
  induction v as [|x r IH]; intros k id ND H.
  - rewrite nth1_nil in H. discriminate.
  - pose proof (nth1_range _ _ _ H) as Hr.
    rewrite remove_at_cons by lia. rewrite nth1_cons in H.
    inversion ND as [|? ? Hx ND']; subst.
    destruct (k =? 0) eqn:E0; [discriminate|].
    destruct (k =? 1) eqn:E1.
    + inversion H; subst. exact Hx.
    + intros [Hin|Hin].
      * subst. apply Hx. eapply nth1_In; eauto.
      * revert Hin. apply IH; assumption.
Qed.

Lemma pos_of_remove_at : forall v k id, NoDup v -> 1 <= k ->
  In id (remove_at (N.to_nat k) v) ->
  pos_of id v = (if k <=? pos_of id (remove_at (N.to_nat k) v)
                 then pos_of id (remove_at (N.to_nat k) v) + 1
                 else pos_of id (remove_at (N.to_nat k) v)).
Proof.
  induction v as [|x r IH]; intros k id ND Hk Hin.
  - rewrite remove_at_nil in Hin. destruct Hin.
  - rewrite remove_at_cons in * by assumption.
    inversion ND as [|? ? Hx ND']; subst.
    rewrite pos_of_cons.
    destruct (k =? 1) eqn:Ek.
    + assert (x <> id) by (intro; subst; tauto).
      replace (x =? id) with false by lia.
      assert (pos_of id r <> 0) by (rewrite pos_of_zero; tauto).
      replace (pos_of id r =? 0) with false by lia.
      replace (k <=? pos_of id r) with true by lia. reflexivity.
    + rewrite pos_of_cons. destruct (x =? id) eqn:Ex.
      * replace (k <=? 1) with false by lia. reflexivity.
      * destruct Hin as [Hin|Hin]; [lia|].
        specialize (IH (k - 1) id ND' ltac:(lia) Hin).
        assert (pos_of id (remove_at (N.to_nat (k - 1)) r) <> 0) by (rewrite pos_of_zero; tauto).
        rewrite IH.
        set (p' := pos_of id (remove_at (N.to_nat (k - 1)) r)) in *.
        replace (p' =? 0) with false by lia.
        destruct (k - 1 <=? p') eqn:E1.
        -- replace (p' + 1 =? 0) with false by lia. replace (k <=? p' + 1) with true by lia. reflexivity.
        -- replace (p' =? 0) with false by lia. replace (k <=? p' + 1) with false by lia. reflexivity.
Qed.

(* ------------------------------------------------------------------ *)
(* fresh, NoDup of an append                                           *)
(* ------------------------------------------------------------------ *)

Lemma fresh_In : forall k b x, In x (fresh b k) <-> b <= x < b + N.of_nat k.
Proof.
  induction k as [|k IH]; intros b x; simpl fresh.
  - simpl. lia.
  - simpl In. rewrite IH. lia.
Qed.

Lemma fresh_length : forall k b, length (fresh b k) = k.
Proof. induction k as [|k IH]; intros b; simpl; [reflexivity|]. rewrite IH. reflexivity. Qed.

Lemma fresh_NoDup : forall k b, NoDup (fresh b k).
Proof.
  induction k as [|k IH]; intros b; simpl; constructor; [|apply IH].
  rewrite fresh_In. lia.
Qed.

Lemma NoDup_app_intro : forall (a b : list N), NoDup a -> NoDup b ->
  (forall x, In x a -> ~ In x b) -> NoDup (a ++ b).
Proof.
  induction a as [|x r IH]; intros b Ha Hb H; [exact Hb|].
  inversion Ha as [|? ? Hx Hr]; subst. simpl. constructor.
  - rewrite in_app_iff. intros [H1|H1]; [tauto|]. apply (H x); [left; reflexivity|assumption].
  - apply IH; try assumption. intros y Hy. apply H. right. exact Hy.
Qed.

(* ------------------------------------------------------------------ *)
(* queue consistency                                                   *)
(* ------------------------------------------------------------------ *)

(* [qinv b v q L nxt]: starting from the view [v] (ids all below [b]), the queue [q] is a
   consistent sequence of updates leading to the mailbox [L] whose next fresh id is [nxt]. *)
Fixpoint qinv (b : N) (v : list N) (q : list upd) (L : list N) (nxt : N) {struct q} : Prop :=
  NoDup v /\ Forall (fun x => x < b) v /\
  match q with
  | [] => v = L /\ b = nxt
  | UExpunge k :: r =>
      (1 <= k /\ k <= N.of_nat (length v)) /\ qinv b (remove_at (N.to_nat k) v) r L nxt
  | UExists prev n ids :: r =>
      prev = N.of_nat (length v) /\ (n = 0 -> ids = []) /\
      (n <> 0 -> n = prev + N.of_nat (length ids)) /\
      ids = fresh b (length ids) /\
      qinv (b + N.of_nat (length ids)) (v ++ ids) r L nxt
  | _ :: r => qinv b v r L nxt
  end.

Lemma qinv_head : forall q b v L nxt, qinv b v q L nxt -> NoDup v /\ Forall (fun x => x < b) v.
Proof. intros q b v L nxt H. destruct q as [|u r]; [|destruct u]; simpl in H; tauto. Qed.

Lemma qinv_replay : forall q b v L nxt, qinv b v q L nxt -> replay v q = L.
Proof.
  unfold replay.
  induction q as [|u r IH]; intros b v L nxt H.
  - simpl in *. tauto.
  - destruct u; simpl in H; simpl fold_left.
    + destruct H as (_ & _ & _ & H). eapply IH; eauto.
    + destruct H as (_ & _ & _ & _ & _ & _ & H). eapply IH; eauto.
    + destruct H as (_ & _ & H). eapply IH; eauto.
    + destruct H as (_ & _ & H). eapply IH; eauto.
Qed.

Lemma qinv_final : forall q b v L nxt, qinv b v q L nxt ->
  NoDup L /\ Forall (fun x => x < nxt) L /\ b <= nxt.
Proof.
  induction q as [|u r IH]; intros b v L nxt H.
  - simpl in H. destruct H as (H1 & H2 & H3 & H4). subst. repeat split; try assumption. lia.
  - destruct u; simpl in H.
    + destruct H as (_ & _ & _ & H). eapply IH; eauto.
    + destruct H as (_ & _ & _ & _ & _ & _ & H). apply IH in H.
      destruct H as (H1 & H2 & H3). repeat split; try assumption. lia.
    + destruct H as (_ & _ & H). eapply IH; eauto.
    + destruct H as (_ & _ & H). eapply IH; eauto.
Qed.

(* an id already issued (below the bound) that the view does not have never comes back *)
Lemma qinv_notin : forall q b v L nxt id, qinv b v q L nxt -> id < b -> ~ In id v -> ~ In id L.
Proof.
  induction q as [|u r IH]; intros b v L nxt id H Hb Hn.
  - simpl in H. destruct H as (_ & _ & H & _). subst. exact Hn.
  - destruct u; simpl in H.
    + destruct H as (_ & _ & _ & H). eapply IH; eauto.
      intro Hin. apply Hn. eapply remove_at_In; eauto.
    + destruct H as (_ & _ & _ & _ & _ & Hids & H). eapply IH; eauto; [lia|].
      rewrite in_app_iff. intros [Hin|Hin]; [tauto|].
      rewrite Hids in Hin. apply fresh_In in Hin. lia.
    + destruct H as (_ & _ & H). eapply IH; eauto.
    + destruct H as (_ & _ & H). eapply IH; eauto.
Qed.

(* concatenation of consistent queues *)
Lemma qinv_app : forall q1 q2 b v L1 n1 L2 n2,
  qinv b v q1 L1 n1 -> qinv n1 L1 q2 L2 n2 -> qinv b v (q1 ++ q2) L2 n2.
Proof.
  induction q1 as [|u r IH]; intros q2 b v L1 n1 L2 n2 H1 H2.
  - simpl in H1. destruct H1 as (_ & _ & ? & ?). subst. exact H2.
  - destruct u; simpl in H1; simpl app; simpl qinv.
    + destruct H1 as (A & B & C & H). repeat split; try tauto. eapply IH; eauto.
    + destruct H1 as (A & B & C & D & E & F & H). repeat split; try tauto. eapply IH; eauto.
    + destruct H1 as (A & B & H). repeat split; try tauto. eapply IH; eauto.
    + destruct H1 as (A & B & H). repeat split; try tauto. eapply IH; eauto.
Qed.

(* after the client has applied a prefix of the queue, the rest is still consistent *)
Lemma qinv_poll : forall em rest b v L nxt, qinv b v (em ++ rest) L nxt ->
  exists b', qinv b' (replay v em) rest L nxt.
Proof.
  unfold replay.
  induction em as [|u r IH]; intros rest b v L nxt H.
  - simpl in *. eauto.
  - destruct u; simpl app in H; simpl qinv in H; simpl fold_left.
    + destruct H as (_ & _ & _ & H). eapply IH; eauto.
    + destruct H as (_ & _ & _ & _ & _ & _ & H). eapply IH; eauto.
    + destruct H as (_ & _ & H). eapply IH; eauto.
    + destruct H as (_ & _ & H). eapply IH; eauto.
Qed.

(* ------------------------------------------------------------------ *)
(* decode / encode over a consistent queue                             *)
(* ------------------------------------------------------------------ *)

Lemma decode_q_spec : forall q b v L nxt c id, qinv b v q L nxt -> nth1 v c = Some id ->
  (decode_q q c = 0 /\ ~ In id L) \/ (decode_q q c <> 0 /\ nth1 L (decode_q q c) = Some id).
Proof.
  induction q as [|u r IH]; intros b v L nxt c id H Hc.
  - simpl in *. destruct H as (_ & _ & ? & _). subst. right. split; [|assumption].
    apply nth1_range in Hc. lia.
  - destruct u; simpl in H; simpl decode_q.
    + destruct H as (ND & FA & (Hk1 & Hk2) & H).
      destruct (c =? k) eqn:E.
      * apply N.eqb_eq in E. subst c. left. split; [reflexivity|].
        eapply qinv_notin; eauto.
        -- rewrite Forall_forall in FA. apply FA. eapply nth1_In; eauto.
        -- apply remove_at_removed; assumption.
      * apply N.eqb_neq in E. eapply IH; eauto. apply nth1_remove_at; assumption.
    + destruct H as (_ & _ & _ & _ & _ & _ & H). eapply IH; eauto. apply nth1_app1. assumption.
    + destruct H as (_ & _ & H). eapply IH; eauto.
    + destruct H as (_ & _ & H). eapply IH; eauto.
Qed.

Lemma encode_q_zero_one : forall u, (forall k, u = UExpunge k -> k <> 0) -> encode_q [u] 0 = 0.
Proof.
  intros u Hu. destruct u; cbn [encode_q]; try reflexivity.
  - specialize (Hu k eq_refl). replace (k <=? 0) with false by lia. reflexivity.
  - replace (prev <? 0) with false by lia. rewrite andb_false_r. reflexivity.
Qed.

Lemma encode_q_snoc : forall r1 u p, (forall k, u = UExpunge k -> k <> 0) ->
  encode_q (r1 ++ [u]) p = encode_q [u] (encode_q r1 p).
Proof.
  induction r1 as [|w r1 IH]; intros u p Hu.
  - reflexivity.
  - destruct w; cbn [app]; cbn [encode_q]; fold (encode_q [u]).
    + apply IH; assumption.
    + destruct (negb (n =? 0) && (prev <? p)).
      * symmetry. apply encode_q_zero_one. assumption.
      * apply IH; assumption.
    + apply IH; assumption.
    + apply IH; assumption.
Qed.

Lemma encode_q_spec : forall q b v L nxt p id, qinv b v q L nxt -> nth1 L p = Some id ->
  encode_q (rev q) p = pos_of id v.
Proof.
  induction q as [|u r IH]; intros b v L nxt p id H Hp.
  - simpl in *. destruct H as (ND & _ & ? & _). subst. symmetry. apply nth1_pos_of; assumption.
  - pose proof (nth1_In _ _ _ Hp) as HinL.
    simpl rev. destruct u; simpl in H.
    + destruct H as (ND & FA & (Hk1 & Hk2) & H).
      rewrite encode_q_snoc by (intros k0 Hk0; inversion Hk0; lia).
      rewrite (IH _ _ _ _ _ _ H Hp). cbn [encode_q].
      destruct (in_dec N.eq_dec id (remove_at (N.to_nat k) v)) as [Hin|Hnin].
      * symmetry. apply pos_of_remove_at; assumption.
      * assert (Hz : pos_of id (remove_at (N.to_nat k) v) = 0) by (apply pos_of_zero; assumption).
        rewrite Hz. replace (k <=? 0) with false by lia.
        symmetry. apply pos_of_zero. intro Hv.
        revert HinL. eapply qinv_notin; eauto.
        rewrite Forall_forall in FA. apply FA. assumption.
    + destruct H as (ND & FA & Hprev & Hn0 & Hn & Hids & H).
      rewrite encode_q_snoc by (intros k0 Hk0; inversion Hk0).
      rewrite (IH _ _ _ _ _ _ H Hp). cbn [encode_q].
      destruct (n =? 0) eqn:En.
      * apply N.eqb_eq in En. rewrite (Hn0 En). rewrite app_nil_r. reflexivity.
      * cbn [negb andb].
        destruct (in_dec N.eq_dec id v) as [Hin|Hnin].
        -- rewrite pos_of_app_in by assumption.
           pose proof (pos_of_le id v). replace (prev <? pos_of id v) with false by lia. reflexivity.
        -- rewrite pos_of_app_notin by assumption.
           assert (Hz : pos_of id v = 0) by (apply pos_of_zero; assumption). rewrite Hz.
           destruct (pos_of id ids =? 0) eqn:Ei.
           ++ replace (prev <? 0) with false by lia. reflexivity.
           ++ replace (prev <? N.of_nat (length v) + pos_of id ids) with true by lia. reflexivity.
    + destruct H as (_ & _ & H).
      rewrite encode_q_snoc by (intros k0 Hk0; inversion Hk0).
      rewrite (IH _ _ _ _ _ _ H Hp). reflexivity.
    + destruct H as (_ & _ & H).
      rewrite encode_q_snoc by (intros k0 Hk0; inversion Hk0).
      rewrite (IH _ _ _ _ _ _ H Hp). reflexivity.
Qed.

(* ------------------------------------------------------------------ *)
(* the tracker invariant                                               *)
(* ------------------------------------------------------------------ *)

Record Inv (t : tracker) : Prop := mkInv {
  inv_n : t_n t = N.of_nat (length (t_L t));
  inv_nd : NoDup (t_L t);
  inv_lt : Forall (fun x => x < t_next t) (t_L t);
  inv_ids : NoDup (map s_id (t_sess t));
  inv_sess : forall s, In s (t_sess t) ->
             exists b, qinv b (s_view s) (s_queue s) (t_L t) (t_next t)
}.

Lemma Inv_init : forall n0, Inv (init n0).
Proof.
  intros n0. unfold init. constructor; simpl.
  - rewrite fresh_length. lia.
  - apply fresh_NoDup.
  - rewrite Forall_forall. intros x Hx. apply fresh_In in Hx. lia.
  - constructor.
  - intros s [].
Qed.

Lemma find_sess_some : forall sid ss s, find_sess sid ss = Some s -> In s ss /\ s_id s = sid.
Proof.
  induction ss as [|a r IH]; intros s H; simpl in H; [discriminate|].
  destruct (s_id a =? sid) eqn:E.
  - inversion H; subst. split; [left; reflexivity|lia].
  - apply IH in H. destruct H. split; [right; assumption|assumption].
Qed.

Lemma find_sess_unique : forall sid ss s s', NoDup (map s_id ss) -> find_sess sid ss = Some s ->
  In s' ss -> s_id s' = sid -> s' = s.
Proof.
  induction ss as [|a r IH]; intros s s' ND H Hin Hid; simpl in *; [destruct Hin|].
  inversion ND as [|? ? Ha ND']; subst.
  destruct (s_id a =? s_id s') eqn:E.
  - inversion H; subst. destruct Hin as [Hin|Hin]; [congruence|].
    exfalso. apply Ha. apply N.eqb_eq in E. rewrite E. apply in_map. assumption.
  - destruct Hin as [Hin|Hin]; [subst; rewrite N.eqb_refl in E; discriminate|].
    eapply IH; eauto.
Qed.

Lemma push_all_ids : forall u skip ss, map s_id (push_all u skip ss) = map s_id ss.
Proof.
  intros. unfold push_all. rewrite map_map. apply map_ext. intros s.
  destruct skip as [id|]; [destruct (s_id s =? id)|]; reflexivity.
Qed.

Lemma push_all_inv : forall u skip ss L nxt L' nxt',
  qinv nxt L [u] L' nxt' -> (skip <> None -> L' = L /\ nxt' = nxt) ->
  (forall s, In s ss -> exists b, qinv b (s_view s) (s_queue s) L nxt) ->
  forall s', In s' (push_all u skip ss) -> exists b, qinv b (s_view s') (s_queue s') L' nxt'.
Proof.
  intros u skip ss L nxt L' nxt' Hu Hskip Hss s' Hin.
  unfold push_all in Hin. apply in_map_iff in Hin. destruct Hin as (s & Hs & Hin).
  destruct (Hss s Hin) as (b & Hq).
  assert (Hpush : exists b0, qinv b0 (s_view s) (s_queue s ++ [u]) L' nxt').
  { exists b. eapply qinv_app; eauto. }
  destruct skip as [id|].
  - destruct (s_id s =? id).
    + subst s'. destruct Hskip as [? ?]; [discriminate|]. subst. eauto.
    + subst s'. exact Hpush.
  - subst s'. exact Hpush.
Qed.

Lemma qinv_nil : forall L nxt, NoDup L -> Forall (fun x => x < nxt) L -> qinv nxt L [] L nxt.
Proof. intros. simpl. tauto. Qed.

Lemma filter_ids_NoDup : forall (p : sess -> bool) ss, NoDup (map s_id ss) -> NoDup (map s_id (filter p ss)).
Proof.
  induction ss as [|a r IH]; intros ND; simpl; [constructor|].
  inversion ND as [|? ? Ha ND']; subst.
  destruct (p a); simpl; [constructor|]; try (apply IH; assumption).
  intro H. apply Ha. apply in_map_iff in H. destruct H as (s & Hs & Hin).
  apply filter_In in Hin. apply in_map_iff. exists s. tauto.
Qed.

Definition new_sid (o : op) (x : N) : Prop := match o with ONewSession sid => x = sid | _ => False end.

Lemma step_inv : forall t o t' out, Inv t -> step t o = (t', out) ->
  (forall sid, o = ONewSession sid -> ~ In sid (map s_id (t_sess t))) ->
  Inv t' /\ (forall x, In x (map s_id (t_sess t')) -> In x (map s_id (t_sess t)) \/ new_sid o x).
Proof.
  intros t o t' out HI Hstep Hfresh.
  destruct HI as [Hn Hnd Hlt Hids Hsess].
  destruct o; simpl in Hstep.
  - (* ONewSession *)
    inversion Hstep; subst; clear Hstep. split.
    + constructor; simpl; try assumption.
      * rewrite map_app. simpl. apply NoDup_app_intro; try assumption.
        -- constructor; [intros []|constructor].
        -- intros x Hx [Hx'|[]]. subst. apply (Hfresh x eq_refl). assumption.
      * intros s Hin. apply in_app_iff in Hin. destruct Hin as [Hin|[Hin|[]]]; [auto|].
        subst s. simpl. exists (t_next t). apply qinv_nil; assumption.
    + simpl. intros x Hx. rewrite map_app in Hx. apply in_app_iff in Hx.
      destruct Hx as [Hx|[Hx|[]]]; [left; assumption|right; simpl in Hx; congruence].
  - (* OClose *)
    inversion Hstep; subst; clear Hstep. split.
    + constructor; simpl; try assumption.
      * apply filter_ids_NoDup. assumption.
      * intros s Hin. apply filter_In in Hin. apply Hsess. tauto.
    + simpl. intros x Hx. left. apply in_map_iff in Hx. destruct Hx as (s & Hs & Hin).
      apply filter_In in Hin. apply in_map_iff. exists s. tauto.
  - (* OQueueNum *)
    destruct (negb (n =? 0) && (n <? t_n t)) eqn:Eg.
    + inversion Hstep; subst; clear Hstep. split; [constructor; assumption|tauto].
    + inversion Hstep; subst; clear Hstep.
      set (ids := fresh (t_next t) (N.to_nat (n - t_n t))).
      assert (Hlen : length ids = N.to_nat (n - t_n t)) by apply fresh_length.
      assert (Hdisj : forall x, In x (t_L t) -> ~ In x ids).
      { intros x Hx Hx'. apply fresh_In in Hx'. rewrite Forall_forall in Hlt. apply Hlt in Hx. lia. }
      assert (HndL' : NoDup (t_L t ++ ids)).
      { apply NoDup_app_intro; try assumption. apply fresh_NoDup. }
      assert (HltL' : Forall (fun x => x < t_next t + (n - t_n t)) (t_L t ++ ids)).
      { rewrite Forall_forall in *. intros x Hx. apply in_app_iff in Hx. destruct Hx as [Hx|Hx].
        - apply Hlt in Hx. lia.
        - apply fresh_In in Hx. lia. }
      split.
      * constructor; simpl.
        -- rewrite app_length. fold ids. rewrite Hlen. destruct (n =? 0) eqn:E0; lia.
        -- exact HndL'.
        -- exact HltL'.
        -- rewrite push_all_ids. assumption.
        -- apply push_all_inv with (L := t_L t) (nxt := t_next t); [|intros HH; congruence|assumption].
           fold ids. simpl. repeat split; try assumption.
           ++ intro E0. subst n. unfold ids. simpl. reflexivity.
           ++ intro E0. rewrite Hlen. lia.
           ++ rewrite Hlen. reflexivity.
           ++ rewrite Hlen. replace (t_next t + N.of_nat (N.to_nat (n - t_n t))) with (t_next t + (n - t_n t)) by lia.
              exact HltL'.
           ++ rewrite Hlen. lia.
      * simpl. intros x Hx. rewrite push_all_ids in Hx. left. assumption.
  - (* OQueueExpunge *)
    destruct ((k =? 0) || (t_n t <? k)) eqn:Eg.
    + inversion Hstep; subst; clear Hstep. split; [constructor; assumption|tauto].
    + inversion Hstep; subst; clear Hstep.
      assert (HndL' : NoDup (remove_at (N.to_nat k) (t_L t))) by (apply remove_at_NoDup; assumption).
      assert (HltL' : Forall (fun x => x < t_next t) (remove_at (N.to_nat k) (t_L t))).
      { rewrite Forall_forall in *. intros x Hx. apply Hlt. eapply remove_at_In; eauto. }
      split.
      * constructor; simpl; try assumption.
        -- rewrite remove_at_length by lia. lia.
        -- rewrite push_all_ids. assumption.
        -- apply push_all_inv with (L := t_L t) (nxt := t_next t); [|intros HH; congruence|assumption].
           simpl. repeat split; try assumption; lia.
      * simpl. intros x Hx. rewrite push_all_ids in Hx. left. assumption.
  - (* OQueueMboxFlags *)
    inversion Hstep; subst; clear Hstep. split.
    + constructor; simpl; try assumption.
      * rewrite push_all_ids. assumption.
      * apply push_all_inv with (L := t_L t) (nxt := t_next t); [|intros HH; congruence|assumption].
        simpl. repeat split; assumption.
    + simpl. intros x Hx. rewrite push_all_ids in Hx. left. assumption.
  - (* OQueueMsgFlags *)
    inversion Hstep; subst; clear Hstep. split.
    + constructor; simpl; try assumption.
      * rewrite push_all_ids. assumption.
      * apply push_all_inv with (L := t_L t) (nxt := t_next t); [|tauto|assumption].
        simpl. repeat split; assumption.
    + simpl. intros x Hx. rewrite push_all_ids in Hx. left. assumption.
  - (* OPoll *)
    destruct (find_sess sid (t_sess t)) as [s|] eqn:Ef.
    2:{ inversion Hstep; subst; clear Hstep. split; [constructor; assumption|tauto]. }
    destruct (poll_split allow (s_queue s)) as [em rest] eqn:Eps.
    destruct (existsb bad_update em) eqn:Ebad.
    { inversion Hstep; subst; clear Hstep. split; [constructor; assumption|tauto]. }
    inversion Hstep; subst; clear Hstep.
    assert (Hmapids : map s_id (map (fun s' => if s_id s' =? sid
               then mkSess sid (fold_left apply_upd em (s_view s')) rest else s') (t_sess t))
             = map s_id (t_sess t)).
    { rewrite map_map. apply map_ext. intros a. destruct (s_id a =? sid) eqn:E; simpl; lia. }
    assert (Hsplit : s_queue s = em ++ rest).
    { unfold poll_split in Eps. destruct allow.
      - inversion Eps; subst. rewrite app_nil_r. reflexivity.
      - clear - Eps. revert em rest Eps. induction (s_queue s) as [|u q IH]; intros em rest Eps; simpl in Eps.
        + inversion Eps; reflexivity.
        + destruct (is_expunge u).
          * inversion Eps; reflexivity.
          * destruct (split_at_expunge q) as [a b0]. inversion Eps; subst. simpl. f_equal. apply IH. reflexivity. }
    split.
    + constructor; simpl; try assumption.
      * rewrite Hmapids. assumption.
      * intros s' Hin. apply in_map_iff in Hin. destruct Hin as (a & Ha & Hin).
        destruct (s_id a =? sid) eqn:E.
        -- apply N.eqb_eq in E.
           assert (a = s) by (eapply find_sess_unique; eauto). subst a s'. simpl.
           destruct (Hsess s Hin) as (b & Hq). rewrite Hsplit in Hq.
           apply qinv_poll in Hq. exact Hq.
        -- subst s'. auto.
    + simpl. intros x Hx. rewrite Hmapids in Hx. left. assumption.
Qed.

Lemma existsb_eqb_false : forall sid seen, existsb (N.eqb sid) seen = false -> ~ In sid seen.
Proof.
  intros sid seen H Hin. assert (existsb (N.eqb sid) seen = true); [|congruence].
  apply existsb_exists. exists sid. split; [assumption|apply N.eqb_refl].
Qed.

Lemma run_from_inv : forall ops t seen t', Inv t ->
  (forall x, In x (map s_id (t_sess t)) -> In x seen) ->
  fresh_sids seen ops = true -> run_from t ops = Some t' -> Inv t'.
Proof.
  induction ops as [|o r IH]; intros t seen t' HI Hseen Hf Hrun.
  - simpl in Hrun. inversion Hrun; subst. assumption.
  - simpl in Hrun. destruct (step t o) as [t1 out] eqn:Es.
    assert (Hrun' : run_from t1 r = Some t' /\ out <> OutCrash).
    { destruct out; [split; [assumption|discriminate]|discriminate|split; [assumption|discriminate]]. }
    clear Hrun. destruct Hrun' as [Hrun _].
    assert (Hfr : forall sid, o = ONewSession sid -> ~ In sid (map s_id (t_sess t))).
    { intros sid Ho. subst o. simpl in Hf. apply andb_prop in Hf. destruct Hf as [Hf _].
      apply negb_true_iff in Hf. apply existsb_eqb_false in Hf. intro Hin. apply Hf. auto. }
    destruct (step_inv _ _ _ _ HI Es Hfr) as [HI1 Hids1].
    destruct o; simpl in Hf;
      try (eapply IH with (seen := seen); eauto;
           intros x Hx; apply Hids1 in Hx; destruct Hx as [Hx|[]]; auto).
    apply andb_prop in Hf. destruct Hf as [_ Hf].
    eapply IH with (seen := sid :: seen); eauto.
    intros x Hx. apply Hids1 in Hx. destruct Hx as [Hx|Hx]; [right; auto|left; simpl in Hx; congruence].
Qed.

Lemma run_inv : forall n0 ops t, fresh_sids [] ops = true -> run n0 ops = Some t -> Inv t.
Proof.
  intros n0 ops t Hf Hrun. unfold run in Hrun.
  eapply run_from_inv with (seen := []); eauto using Inv_init.
Qed.
