(* Proofs/CmdSpec.v — specification vocabulary for C02 (no proofs here):
   [norm_req]: the backend call(s) the caller's request denotes — the caller's arguments with
   exactly the normalisations the property allows (a mailbox name that is INBOX in any case is
   "INBOX"; well-known flags / mailbox attributes in canonical case; a search date is its
   calendar day; header keys BCC/CC/FROM/SUBJECT/TO in title case; UID commands imply the UID
   item; no SEARCH result option means ALL; an empty LIST pattern is no pattern);
   [wf_req]: the arguments the command syntax and the server's limits can carry at all.       *)
From GoImap.Base Require Import Bytes.
From GoImap.Model Require Import NumSet NumSetCorr MatchList Utf7 Wire Search ClientWrite CmdDate CmdTypes CmdClient CmdServer.
From GoImap.Proofs Require Import Utf7Spec WireSpec.
Open Scope N_scope.

(* ---- normalisation ------------------------------------------------------------------------- *)
Definition norm_mbox (m : bytes) : bytes := if equal_fold_ascii m INBOX then INBOX else m.
Definition norm_attr (a : bytes) : bytes := canonical_attr (canonical_flag a).
(* APPEND's date-time: the same instant to the second; the zone offset is kept when it is a
   whole number of minutes (otherwise the time is sent in UTC) *)
Definition norm_time (t : ctime) : ctime :=
  if t_is_zero t then tzero else mkT (t_sec t) 0 (t_off (append_time t)).
(* a search date: the UTC midnight of the caller's calendar day, 0 = unset *)
Definition norm_day (t : ctime) : Z := if t_is_zero t then 0%Z else (t_day t * DAYSEC)%Z.
Definition norm_hdr (kv : bytes * bytes) : bytes * bytes :=
  (if special_hdr (fst kv) then title (fst kv) else fst kv, snd kv).
Definition norm_uidset (u : numarg) : nset := match u with NRes => [] | NSet s => s end.

Fixpoint norm_crit (c : ccrit) : criteria :=
  match c with
  | CC seqs uids since before ssince sbefore hdr body text flag notflag larger smaller _ nots ors =>
      Crit seqs (map norm_uidset uids)
           (norm_day since) (norm_day before) (norm_day ssince) (norm_day sbefore)
           (map norm_hdr hdr) body text
           (map canonical_flag flag) (map canonical_flag notflag)
           larger smaller
           (map norm_crit nots)
           (map (fun p => (norm_crit (fst p), norm_crit (snd p))) ors)
  end.

Definition norm_sopts (o : search_opts) : search_opts :=
  if so_min o || so_max o || so_all o || so_count o || so_save o then o
  else mkSO false false true false false.

Definition norm_fetch (uid : bool) (o : fetch_opts) : fetch_opts :=
  mkFetch (fo_bodystructure o) (fo_envelope o) (fo_flags o) (fo_internaldate o) (fo_rfc822size o)
          (fo_uid o || uid) (fo_sections o) (fo_binary o) (fo_binsize o) false 0.

Definition norm_patterns (p : bytes) : list bytes := match p with [] => [] | _ => [p] end.

(* one list of backend calls per command line the client sends *)
Definition norm_req (c : ccfg) (q : creq) : list (list bcall) :=
  match q with
  | QLogin u p => [[BLogin u p]]
  | QSelect m ro _ => [[BSelect (norm_mbox m) ro]]
  | QCreate m use => [[BCreate (norm_mbox m) (map norm_attr use)]]
  | QDelete m => [[BDelete (norm_mbox m)]]
  | QRename a b => [[BRename (norm_mbox a) (norm_mbox b)]]
  | QSubscribe m => [[BSubscribe (norm_mbox m)]]
  | QUnsubscribe m => [[BUnsubscribe (norm_mbox m)]]
  | QList r p o => [[BList (norm_mbox r) (norm_patterns p) o]]
  | QStatus m o => [[BStatus (norm_mbox m) o]]
  | QAppend m f t p => [[BAppend (norm_mbox m) (map canonical_flag f) (norm_time t) p]]
  | QExpunge => [[BExpunge None]]
  | QUIDExpunge s => [[BExpunge (Some s)]]
  | QSearch uid cr o => [[BSearch uid (norm_crit cr) (norm_sopts o)]]
  | QFetch uid s o => [[BFetch uid s (norm_fetch uid o)]]
  | QStore uid s op si f _ => [[BStore uid s op si (map canonical_flag f)]]
  | QCopy uid s d => [[BCopy uid s (norm_mbox d)]]
  | QMove uid s d =>
      if has_move (c_caps c) then [[BMove uid s (norm_mbox d)]]
      else [ [BCopy uid s (norm_mbox d)];
             [BStore uid s 1 true [DELETED]];
             [BExpunge (if uid && has_uidplus (c_caps c) then Some s else None)] ]
  | QUnselect => [[BUnselect]]
  | QClose => [[BExpunge None; BUnselect]]
  end.

(* ---- well-formed arguments ------------------------------------------------------------------ *)
Definition short (s : bytes) : Prop := (N.of_nat (length s) <= LIT_MAX).
(* a mailbox name / LIST pattern: valid UTF-8 whose modified-UTF-7 form fits a server literal *)
Definition wf_name (m : bytes) : Prop :=
  exists runes, forallb scalar runes = true /\ m = utf8_of runes /\ short (utf7_encode m).
Definition wf_flag (f : bytes) : Prop := enc_flag f <> None.
Definition wf_attr (a : bytes) : Prop := enc_mailbox_attr a <> None.
(* a number set the API builds (C15: canonical), not empty; "$" only as a UID set *)
Definition wf_numarg (uid : bool) (s : numarg) : Prop :=
  match s with NRes => uid = true | NSet x => canon x = true /\ x <> [] end.
Definition wf_uidset (s : numarg) : Prop := wf_numarg true s.
Definition wf_seqset (s : nset) : Prop := canon s = true /\ s <> [].
Definition wf_int64 (z : Z) : Prop := (0 <= z < 9223372036854775808)%Z.
Definition wf_part (p : list Z) : Prop := Forall (fun z => (0 <= z < 4294967296)%Z) p.
Definition wf_partial (p : partial) : Prop :=
  match p with None => True | Some (o, n) => wf_int64 o /\ wf_int64 n end.

Definition HEADER : bytes := s2b "HEADER".
Definition wf_fsec (x : fsec) : Prop :=
  (fs_spec x = [] \/ fs_spec x = HEADER \/ fs_spec x = s2b "MIME" \/ fs_spec x = s2b "TEXT") /\
  wf_part (fs_part x) /\ wf_partial (fs_partial x) /\
  Forall short (fs_fields x) /\ Forall short (fs_fields_not x) /\
  (fs_fields x = [] \/ fs_fields_not x = []) /\
  (fs_spec x = HEADER \/ (fs_fields x = [] /\ fs_fields_not x = [])).
Definition wf_fbin (x : fbin) : Prop := wf_part (fb_part x) /\ wf_partial (fb_partial x).
Definition wf_fetch (o : fetch_opts) : Prop :=
  Forall wf_fsec (fo_sections o) /\ Forall wf_fbin (fo_binary o) /\ Forall wf_part (fo_binsize o) /\
  fo_modseq o = false /\ fo_changedsince o = 0.

(* a search date: unset, or a day that "d-Mon-yyyy" can express and that is not the zero time *)
Definition wf_date (t : ctime) : Prop :=
  t_is_zero t = true \/ (1 <= t_day t <= MAXDAY)%Z.
(* APPEND's date-time: representable year, plausible zone offset *)
Definition wf_datetime (t : ctime) : Prop :=
  t_is_zero t = true \/
  ((1 <= t_day (append_time t) <= MAXDAY)%Z /\ (-86400 < t_off t < 86400)%Z).

(* nesting depth of the parenthesised lists writeSearchKey produces *)
Fixpoint crit_depth (c : ccrit) : nat :=
  match c with
  | CC _ _ _ _ _ _ _ _ _ _ _ _ _ _ nots ors =>
      S (Nat.max (fold_right (fun n m => Nat.max (crit_depth n) m) O nots)
                 (fold_right (fun p m => Nat.max (Nat.max (crit_depth (fst p)) (crit_depth (snd p))) m) O ors))
  end.

Fixpoint wf_crit (c : ccrit) : Prop :=
  match c with
  | CC seqs uids since before ssince sbefore hdr body text flag notflag larger smaller modseq nots ors =>
      Forall wf_seqset seqs /\ Forall wf_uidset uids /\
      wf_date since /\ wf_date before /\ wf_date ssince /\ wf_date sbefore /\
      Forall (fun kv => short (fst kv) /\ short (snd kv)) hdr /\ Forall short body /\ Forall short text /\
      Forall wf_flag flag /\ Forall wf_flag notflag /\
      wf_int64 larger /\ wf_int64 smaller /\ modseq = None /\
      (fix all (l : list ccrit) : Prop := match l with [] => True | x :: r => wf_crit x /\ all r end) nots /\
      (fix all (l : list (ccrit * ccrit)) : Prop :=
         match l with [] => True | p :: r => wf_crit (fst p) /\ wf_crit (snd p) /\ all r end) ors
  end.

Definition wf_status (o : status_opts) : Prop := st_highestmodseq o = false.
Definition wf_lopts (o : list_opts) : Prop :=
  lo_sel_specialuse o = false /\ lo_ret_specialuse o = false /\
  (lo_sel_recursive o = true -> lo_sel_subscribed o = true) /\
  match lo_ret_status o with Some st => wf_status st | None => True end.

Definition wf_req (q : creq) : Prop :=
  match q with
  | QLogin u p => short u /\ short p
  | QSelect m _ cs => wf_name m /\ cs = false
  | QCreate m use => wf_name m /\ Forall wf_attr use
  | QDelete m | QSubscribe m | QUnsubscribe m => wf_name m
  | QRename a b => wf_name a /\ wf_name b
  | QList r p o => wf_name r /\ wf_name p /\ wf_lopts o
  | QStatus m o => wf_name m /\ wf_status o
  | QAppend m f t p => wf_name m /\ Forall wf_flag f /\ wf_datetime t /\ N.of_nat (length p) <= APPEND_LIMIT
  | QExpunge | QUnselect | QClose => True
  | QUIDExpunge s => wf_uidset s
  | QSearch _ cr _ => wf_crit cr /\ (crit_depth cr < MAX_DEPTH)%nat
  | QFetch uid s o => wf_numarg uid s /\ wf_fetch o
  | QStore uid s op _ f us => wf_numarg uid s /\ op <= 2 /\ Forall wf_flag f /\ us = 0
  | QCopy uid s d | QMove uid s d => wf_numarg uid s /\ wf_name d
  end.

(* the iteration order of a Go map visits every key *)
Definition covers (order : list nat) : Prop := forall i, (i < 9)%nat -> In i order.
(* a command tag: a non-empty atom *)
Definition wf_tag (tag : bytes) : Prop := tag <> [] /\ forallb is_atom_char tag = true.

(* ---- SEARCH: the keys writeSearchKey sends, as the parser's key syntax ---------------------- *)
Definition date_keys (since before : ctime) (ks kb ko : Z -> skey) : list skey :=
  if negb (t_is_zero since) && negb (t_is_zero before) && (t_day before =? t_day since + 1)%Z then
    [ko (t_day since * DAYSEC)%Z]
  else
    (if t_is_zero since then [] else [ks (t_day since * DAYSEC)%Z]) ++
    (if t_is_zero before then [] else [kb (t_day before * DAYSEC)%Z]).

Definition or_all (l : list skey) : list skey := match l with [] => [KAll] | _ => l end.

(* a criteria without any field is written "(ALL)" *)
Fixpoint keys_sent (c : ccrit) : list skey :=
  match c with
  | CC seqs uids since before ssince sbefore hdr body text flag notflag larger smaller _ nots ors =>
      or_all (
      map KSeq seqs ++ map (fun u => KUid (norm_uidset u)) uids ++
      date_keys since before KSince KBefore KOn ++
      date_keys ssince sbefore KSentSince KSentBefore KSentOn ++
      map (fun kv => KHeader (fst (norm_hdr kv)) (snd kv)) hdr ++
      map KBody body ++ map KText text ++
      map (fun f => KFlag (canonical_flag f)) flag ++
      map (fun f => KNotFlag (canonical_flag f)) notflag ++
      (if (0 <? larger)%Z then [KLarger larger] else []) ++
      (if (0 <? smaller)%Z then [KSmaller smaller] else []) ++
      map (fun n => KNot (KList (keys_sent n))) nots ++
      map (fun p => KOr (KList (keys_sent (fst p))) (KList (keys_sent (snd p)))) ors)
  end.

(* ---- delivery: what the server makes of one command line the client wrote -------------------- *)
Definition delivers (lp : bool) (tag : bytes) (body : eres) (calls : list bcall) : Prop :=
  forall segs, w_line tag body = Some segs -> serve_line lp (flatten segs) = Some calls.

Definition is_search (q : creq) : bool := match q with QSearch _ _ _ => true | _ => false end.
Definition is_fetch (q : creq) : bool := match q with QFetch _ _ _ => true | _ => false end.
