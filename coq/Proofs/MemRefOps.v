(* Proofs/MemRefOps.v — C09: each command does exactly what IMAP says, stated against the
   declarative definitions of MemRefSpec.v: which messages a sequence set addresses (the
   RFC 3501 reading of the set with "*" = the last message), what APPEND/COPY/MOVE/STORE/
   EXPUNGE/FETCH change and answer, and nothing else changes.                               *)
From Coq Require Import Sorting.Sorted.
From Coq Require Import ZifyN ZifyNat ZifyBool.
From GoImap.Base Require Import Bytes.
From GoImap.Model Require Import NumSet MatchList Search MemRefMsg MemRef.
From GoImap.Proofs Require Import NumSetSpec NumSetLemmas NumSetInsert NumSetProofs MemRefSpec MemRefMsgProofs MemRefInv.
From GoImap.Proofs Require Import MemRefOpsLemmas.
Open Scope N_scope.
Local Opaque canon.

(* ---- sequence sets ---- *)
(* staticNumSet + Set.Contains decide membership as RFC 3501 reads the set: for every set the
   wire can deliver, every "*" value and every probe in 1 .. 2^32-1 *)
Theorem static_set_spec : forall mx s q, wire_set s = true -> 0 < mx -> mx < M32 -> 0 < q -> q < M32 ->
  set_has (static_set mx s) q = set_addresses mx s q.
Proof.
  intros mx s q Hw Hm Hm' Hq Hq'.
  destruct (static_fold_spec mx s [] Hw Hm' canon_nil) as [Hc Hd].
  unfold set_has, static_set. rewrite (contains_spec _ q Hc Hq'), (Hd q Hq'), den_nil.
  replace (q =? 0) with false by lia. cbn [negb orb]. rewrite andb_true_r.
  unfold set_addresses. clear Hc Hd. induction s as [|r s IH]; [reflexivity|].
  cbn [wire_set forallb] in Hw. apply andb_true_iff in Hw as [Hr Hw].
  cbn [existsb]. rewrite (IH Hw), (static_range_den mx r q Hm Hm' Hq Hq' Hr). reflexivity.
Qed.

(* uint32 has not wrapped in this mailbox *)
Definition fits32 (mb : mailbox) : Prop := mb_next mb <= M32 /\ N.of_nat (length (mb_msgs mb)) < M32.

Lemma numbered_seq : forall mb q m, In (q, m) (numbered mb) ->
  1 <= q /\ q <= N.of_nat (length (mb_msgs mb)) /\ nth_error (mb_msgs mb) (N.to_nat (q - 1)) = Some m.
Proof.
  intros mb q m H. destruct (number_from_In _ _ _ _ H) as (H1 & H2 & H3).
  split; [exact H1|]. split; [lia|exact H3].
Qed.

Lemma numbered_snd : forall mb, map snd (numbered mb) = mb_msgs mb.
Proof. intros mb. apply number_from_snd. Qed.

Lemma numbered_In_msg : forall mb q m, In (q, m) (numbered mb) -> In m (mb_msgs mb).
Proof.
  intros mb q m H. destruct (numbered_seq _ _ _ H) as (_ & _ & H3). exact (nth_error_In _ _ H3).
Qed.

Lemma msg_In_numbered : forall mb m, In m (mb_msgs mb) -> exists q, In (q, m) (numbered mb).
Proof.
  intros mb m H. rewrite <- numbered_snd in H. apply in_map_iff in H as ([q m'] & E & H).
  cbn [snd] in E. subst m'. exists q. exact H.
Qed.

(* forEachLocked selects exactly the messages the set addresses *)
Theorem addressed_spec : forall uid set mb sm, mailbox_ok mb -> fits32 mb -> wire_set set = true ->
  In sm (numbered mb) -> addressed uid set mb sm = spec_addressed uid set mb sm.
Proof.
  intros uid set mb [q m] (Hs & Hb & Hn) [Hf1 Hf2] Hw Hin.
  pose proof (numbered_In_msg _ _ _ Hin) as Hm.
  destruct (numbered_seq _ _ _ Hin) as (Hq1 & Hq2 & _).
  assert (Hne : mb_msgs mb <> []) by (intros E; rewrite E in Hm; destruct Hm).
  unfold addressed, spec_addressed. cbn [fst snd]. destruct uid.
  - rewrite (uid_max_last mb Hne). destruct (last_uid_In mb Hne) as (ml & Hl & El).
    destruct (Hb _ Hl) as [Hl1 Hl2]. destruct (Hb _ Hm) as [Hm1 Hm2].
    apply static_set_spec; try assumption; lia.
  - replace (q =? 0) with false by lia. cbn [negb andb]. unfold seq_max.
    apply static_set_spec; try assumption; lia.
Qed.

(* ---- flags ---- *)
Lemma has_flag_add : forall fs l f, has_flag f (flags_add fs l) = has_flag f l || flag_in f fs.
Proof. exact has_flag_add0. Qed.

Lemma has_flag_del : forall fs l f, has_flag f (flags_del fs l) = has_flag f l && negb (flag_in f fs).
Proof. exact has_flag_del0. Qed.

Lemma store_flags_spec : forall op fs m, store_spec op fs m (store_flags op fs m).
Proof.
  intros op fs m. unfold store_spec, msg_has.
  destruct op; cbn [store_flags set_flags mm_uid mm_buf mm_time mm_zone mm_flags];
    repeat split; intros f.
  - rewrite has_flag_add. reflexivity.
  - apply has_flag_add.
  - apply has_flag_del.
Qed.

(* ---- generic facts about [step] ---- *)
Ltac failed_branch H Hr :=
  inversion H; subst; cbn [r_class no no_plain bad_state] in Hr; discriminate Hr.

Lemma in_selected_inv : forall s k f s' r, in_selected s k f = Some (s', r) -> r_class r = 0 ->
  exists i mb, sel_of s k = Some i /\ nth_error (st_heap s) i = Some mb /\ f i mb = Some (s', r).
Proof.
  intros s k f s' r H Hr. unfold in_selected in H.
  destruct (sel_of s k) as [i|]; [|failed_branch H Hr].
  destruct (nth_error (st_heap s) i) as [mb|] eqn:E; [|failed_branch H Hr].
  exists i, mb. auto.
Qed.

Lemma state_ok_mb : forall s i mb, state_ok s -> nth_error (st_heap s) i = Some mb -> mailbox_ok mb.
Proof. intros s i mb (H & _) E. exact (proj1 (H i mb E)). Qed.

Lemma upd_mb_others : forall s i f, others_unchanged s (upd_mb s i f) [i].
Proof.
  intros s i f. unfold others_unchanged, upd_mb, with_heap. cbn [st_heap]. split.
  - apply update_nth_length.
  - intros j Hj. apply update_nth_other. intros E. apply Hj. left. exact E.
Qed.

Lemma upd_mb_same : forall s i f mb, nth_error (st_heap s) i = Some mb ->
  nth_error (st_heap (upd_mb s i f)) i = Some (f mb).
Proof. intros s i f mb H. unfold upd_mb, with_heap. cbn [st_heap]. apply update_nth_same. exact H. Qed.

Lemma update_nth_const : forall A (y : A) l i x, nth_error l i = Some x ->
  nth_error (update_nth i (fun _ => y) l) i = Some y.
Proof. intros A y l i x H. exact (update_nth_same A (fun _ => y) l i x H). Qed.

Lemma select_addressed_spec : forall uid set mb, mailbox_ok mb -> fits32 mb -> wire_set set = true ->
  select_addressed uid set mb = filter (spec_addressed uid set mb) (numbered mb).
Proof.
  intros uid set mb Hok Hf Hw. unfold select_addressed. apply filter_ext_in.
  intros sm Hin. apply addressed_spec; assumption.
Qed.

Lemma unaddressed_spec : forall uid set mb, mailbox_ok mb -> fits32 mb -> wire_set set = true ->
  filter (fun sm => negb (addressed uid set mb sm)) (numbered mb) =
  filter (fun sm => negb (spec_addressed uid set mb sm)) (numbered mb).
Proof.
  intros uid set mb Hok Hf Hw. apply filter_ext_in.
  intros sm Hin. rewrite addressed_spec by assumption. reflexivity.
Qed.

(* ---- APPEND ---- *)
Theorem append_exact : forall s k n fl t z buf s' r, state_ok s ->
  step s (k, CAppend n fl t z buf) = Some (s', r) -> r_class r = 0 ->
  exists i mb, lookup n (st_names s) = Some i /\ nth_error (st_heap s) i = Some mb /\
    r_code r = CodeAppendUid (mb_uv mb) (mb_next mb) /\ r_data r = [] /\
    nth_error (st_heap s') i =
      Some {| mb_name := mb_name mb; mb_uv := mb_uv mb; mb_next := mb_next mb + 1; mb_sub := mb_sub mb;
              mb_msgs := mb_msgs mb ++ [ {| mm_uid := mb_next mb; mm_flags := flags_add fl [];
                                           mm_time := t; mm_zone := z; mm_buf := buf |} ] |} /\
    (forall f, has_flag f (flags_add fl []) = flag_in f fl) /\
    others_unchanged s s' [i] /\ st_names s' = st_names s /\ st_sel s' = st_sel s /\ st_prev s' = st_prev s.
Proof.
  intros s k n fl t z buf s' r Hok H Hr. unfold step in H.
  destruct (lookup n (st_names s)) as [i|] eqn:El; [|failed_branch H Hr].
  destruct (nth_error (st_heap s) i) as [mb|] eqn:En; [|failed_branch H Hr].
  unfold append_msg in H. inversion H; subst s' r. clear H.
  exists i, mb. split; [reflexivity|]. split; [exact En|]. split; [reflexivity|]. split; [reflexivity|].
  split; [exact (upd_mb_same s i _ mb En)|].
  split; [intros f; rewrite has_flag_add; reflexivity|].
  split; [apply upd_mb_others|]. auto.
Qed.

(* ---- COPY ---- *)
(* the flag lists of the mailbox are in the form every flag list built by the model has
   (lower case, sorted, duplicate-free): rebuilding them changes nothing.  APPEND/COPY rebuild
   the flag list of the message they add. *)
Definition flags_canon (mb : mailbox) : Prop :=
  forall m, In m (mb_msgs mb) -> flags_add (mm_flags m) [] = mm_flags m.

Lemma copy_all_spec : forall ms mb, (forall m, In m ms -> flags_add (mm_flags m) [] = mm_flags m) ->
  copy_all mb ms =
  ({| mb_name := mb_name mb; mb_uv := mb_uv mb; mb_next := mb_next mb + N.of_nat (length ms);
      mb_sub := mb_sub mb; mb_msgs := mb_msgs mb ++ copies ms (mb_next mb) |},
   count_from (mb_next mb) (length ms)).
Proof.
  induction ms as [|m r IH]; intros mb Hc.
  - cbn [copy_all length copies count_from]. rewrite app_nil_r.
    replace (mb_next mb + N.of_nat 0) with (mb_next mb) by lia. destruct mb; reflexivity.
  - cbn [copy_all]. unfold append_msg. cbv beta iota zeta.
    rewrite IH by (intros m' Hm'; apply Hc; right; exact Hm').
    cbv beta iota. cbn [mb_name mb_uv mb_next mb_sub mb_msgs length copies count_from].
    rewrite (Hc m (or_introl eq_refl)). unfold copy_of.
    f_equal. f_equal; [lia|]. rewrite <- app_assoc. reflexivity.
Qed.

Lemma src_canon : forall mb (f : N * mmsg -> bool), flags_canon mb ->
  forall m, In m (map snd (filter f (numbered mb))) -> flags_add (mm_flags m) [] = mm_flags m.
Proof.
  intros mb f Hc m H. apply in_map_iff in H as ([q m'] & E & H). cbn [snd] in E. subst m'.
  apply filter_In in H as [H _]. apply Hc. exact (numbered_In_msg _ _ _ H).
Qed.

Theorem copy_exact : forall s k uid set dest s' r, state_ok s -> wire_set set = true ->
  step s (k, CCopy uid set dest) = Some (s', r) -> r_class r = 0 ->
  exists i mb j dmb, sel_of s k = Some i /\ nth_error (st_heap s) i = Some mb /\
    lookup dest (st_names s) = Some j /\ nth_error (st_heap s) j = Some dmb /\ i <> j /\
    (fits32 mb -> flags_canon mb ->
     let src := map snd (filter (spec_addressed uid set mb) (numbered mb)) in
     nth_error (st_heap s') j =
       Some {| mb_name := mb_name dmb; mb_uv := mb_uv dmb; mb_next := mb_next dmb + N.of_nat (length src);
               mb_sub := mb_sub dmb; mb_msgs := mb_msgs dmb ++ copies src (mb_next dmb) |} /\
     r_code r = match src with
                | [] => CodeNone
                | _ => CodeCopyUid (mb_uv dmb) (map mm_uid src) (count_from (mb_next dmb) (length src))
                end) /\
    r_data r = [] /\
    others_unchanged s s' [j] /\ st_names s' = st_names s /\ st_sel s' = st_sel s.
Proof.
  intros s k uid set dest s' r Hok Hw H Hr. unfold step in H.
  destruct (in_selected_inv _ _ _ _ _ H Hr) as (i & mb & Hsel & Hmb & Hk). clear H. cbv beta in Hk.
  destruct (lookup dest (st_names s)) as [j|] eqn:El; [|failed_branch Hk Hr].
  destruct (Nat.eqb j i) eqn:Eji; [failed_branch Hk Hr|]. apply Nat.eqb_neq in Eji.
  destruct (nth_error (st_heap s) j) as [dmb|] eqn:Ej; [|failed_branch Hk Hr].
  destruct (copy_all dmb (map snd (select_addressed uid set mb))) as [dmb' du] eqn:Ec.
  inversion Hk; subst s' r. clear Hk.
  pose proof (state_ok_mb _ _ _ Hok Hmb) as Hmok.
  exists i, mb, j, dmb. split; [exact Hsel|]. split; [exact Hmb|]. split; [reflexivity|].
  split; [exact Ej|]. split; [congruence|]. split.
  - intros Hf Hcan. cbv zeta.
    rewrite (select_addressed_spec uid set mb Hmok Hf Hw) in *.
    rewrite (copy_all_spec _ dmb (src_canon mb _ Hcan)) in Ec. inversion Ec; subst dmb' du. clear Ec.
    split; [exact (upd_mb_same s j _ dmb Ej)|].
    destruct (map snd (filter (spec_addressed uid set mb) (numbered mb))); reflexivity.
  - split; [destruct (map snd (select_addressed uid set mb)); reflexivity|].
    split; [apply upd_mb_others|]. auto.
Qed.

(* ---- MOVE ---- *)
Theorem move_exact : forall s k uid set dest s' r, state_ok s -> wire_set set = true ->
  step s (k, CMove uid set dest) = Some (s', r) -> r_class r = 0 ->
  exists i mb j dmb, sel_of s k = Some i /\ nth_error (st_heap s) i = Some mb /\
    lookup dest (st_names s) = Some j /\ nth_error (st_heap s) j = Some dmb /\ i <> j /\
    (fits32 mb -> flags_canon mb ->
     let src := map snd (filter (spec_addressed uid set mb) (numbered mb)) in
     nth_error (st_heap s') j =
       Some {| mb_name := mb_name dmb; mb_uv := mb_uv dmb; mb_next := mb_next dmb + N.of_nat (length src);
               mb_sub := mb_sub dmb; mb_msgs := mb_msgs dmb ++ copies src (mb_next dmb) |} /\
     nth_error (st_heap s') i =
       Some (set_msgs (map snd (filter (fun sm => negb (spec_addressed uid set mb sm)) (numbered mb))) mb) /\
     r_data r = match src with
                | [] => []
                | _ => [RCopyUid (mb_uv dmb) (map mm_uid src) (count_from (mb_next dmb) (length src))]
                end) /\
    r_code r = CodeNone /\
    others_unchanged s s' [i; j] /\ st_names s' = st_names s /\ st_sel s' = st_sel s.
Proof.
  intros s k uid set dest s' r Hok Hw H Hr. unfold step in H.
  destruct (in_selected_inv _ _ _ _ _ H Hr) as (i & mb & Hsel & Hmb & Hk). clear H. cbv beta in Hk.
  destruct (ro_of s k) eqn:Ero; [failed_branch Hk Hr|].
  destruct (lookup dest (st_names s)) as [j|] eqn:El; [|failed_branch Hk Hr].
  destruct (Nat.eqb j i) eqn:Eji; [failed_branch Hk Hr|]. apply Nat.eqb_neq in Eji.
  destruct (nth_error (st_heap s) j) as [dmb|] eqn:Ej; [|failed_branch Hk Hr].
  destruct (copy_all dmb (map snd (select_addressed uid set mb))) as [dmb' du] eqn:Ec.
  inversion Hk; subst s' r. clear Hk.
  pose proof (state_ok_mb _ _ _ Hok Hmb) as Hmok.
  exists i, mb, j, dmb. split; [exact Hsel|]. split; [exact Hmb|]. split; [reflexivity|].
  split; [exact Ej|]. split; [congruence|]. split.
  - intros Hf Hcan. cbv zeta.
    rewrite (unaddressed_spec uid set mb Hmok Hf Hw).
    rewrite (select_addressed_spec uid set mb Hmok Hf Hw) in *.
    rewrite (copy_all_spec _ dmb (src_canon mb _ Hcan)) in Ec. inversion Ec; subst dmb' du. clear Ec.
    unfold upd_mb, with_heap. cbn [st_heap r_data ok]. split.
    + rewrite update_nth_other by congruence. apply (update_nth_const _ _ _ _ _ Ej).
    + split.
      * apply (update_nth_const _ _ _ _ mb). rewrite update_nth_other by exact Eji. exact Hmb.
      * reflexivity.
  - split; [reflexivity|]. split.
    + unfold others_unchanged, upd_mb, with_heap. cbn [st_heap]. split.
      * rewrite !update_nth_length. reflexivity.
      * intros q Hq. rewrite !update_nth_other; [reflexivity| |]; intros E; apply Hq; subst q; cbn; auto.
    + auto.
Qed.

(* ---- STORE ---- *)
(* replacing the messages by messages with the same UIDs, position by position, changes
   neither the well-formedness of the mailbox nor what a set addresses *)
Section SameUids.
  Variables (mb : mailbox) (ms : list mmsg).
  Hypothesis Hu : map mm_uid ms = map mm_uid (mb_msgs mb).

  Lemma same_uids_length : length ms = length (mb_msgs mb).
  Proof. rewrite <- (map_length mm_uid ms), Hu. apply map_length. Qed.

  Lemma same_uids_ok : mailbox_ok mb -> mailbox_ok (set_msgs ms mb).
  Proof.
    intros (Hs & Hb & Hn). unfold mailbox_ok, set_msgs. cbn [mb_msgs mb_next].
    split; [rewrite Hu; exact Hs|]. split; [|exact Hn].
    intros m Hm. apply (in_map mm_uid) in Hm. rewrite Hu in Hm.
    apply in_map_iff in Hm as (m0 & E & Hm0). rewrite <- E. apply Hb. exact Hm0.
  Qed.

  Lemma same_uids_fits : fits32 mb -> fits32 (set_msgs ms mb).
  Proof.
    intros [H1 H2]. unfold fits32, set_msgs. cbn [mb_msgs mb_next]. rewrite same_uids_length.
    split; assumption.
  Qed.

  Lemma same_uids_spec : forall uid set sm,
    spec_addressed uid set (set_msgs ms mb) sm = spec_addressed uid set mb sm.
  Proof.
    intros uid set sm. unfold spec_addressed. rewrite !last_uid_map. unfold set_msgs. cbn [mb_msgs].
    rewrite Hu, same_uids_length. reflexivity.
  Qed.

  Lemma same_uids_select : forall uid set, mailbox_ok mb -> fits32 mb -> wire_set set = true ->
    select_addressed uid set (set_msgs ms mb) =
    filter (spec_addressed uid set mb) (numbered (set_msgs ms mb)).
  Proof.
    intros uid set Hok Hf Hw.
    rewrite (select_addressed_spec uid set _ (same_uids_ok Hok) (same_uids_fits Hf) Hw).
    apply filter_ext. intros sm. apply same_uids_spec.
  Qed.
End SameUids.

Lemma map_addressed_uids : forall uid set mb f, (forall m, mm_uid (f m) = mm_uid m) ->
  map mm_uid (map_addressed uid set mb f) = map mm_uid (mb_msgs mb).
Proof.
  intros uid set mb f Hf. unfold map_addressed. rewrite <- (numbered_snd mb).
  rewrite !map_map. apply map_ext. intros sm. destruct (addressed uid set mb sm); auto.
Qed.

Lemma numbered_nth : forall mb q m, nth_error (mb_msgs mb) q = Some m ->
  nth_error (numbered mb) q = Some (N.of_nat (S q), m).
Proof.
  intros mb q m H. unfold numbered. rewrite number_from_nth, H.
  replace (1 + N.of_nat q) with (N.of_nat (S q)) by lia. reflexivity.
Qed.

Lemma map_addressed_nth : forall uid set mb f q m, nth_error (mb_msgs mb) q = Some m ->
  nth_error (map_addressed uid set mb f) q =
  Some (if addressed uid set mb (N.of_nat (S q), m) then f m else m).
Proof.
  intros uid set mb f q m H. unfold map_addressed. rewrite nth_error_map, (numbered_nth _ _ _ H).
  reflexivity.
Qed.

Lemma store_flags_uid : forall op fl m, mm_uid (store_flags op fl m) = mm_uid m.
Proof. intros [] fl m; reflexivity. Qed.

Theorem store_exact : forall s k uid set op silent fl s' r, state_ok s -> wire_set set = true ->
  step s (k, CStore uid set op silent fl) = Some (s', r) -> r_class r = 0 ->
  exists i mb mb', sel_of s k = Some i /\ nth_error (st_heap s) i = Some mb /\
    nth_error (st_heap s') i = Some mb' /\
    mb_name mb' = mb_name mb /\ mb_uv mb' = mb_uv mb /\ mb_next mb' = mb_next mb /\ mb_sub mb' = mb_sub mb /\
    length (mb_msgs mb') = length (mb_msgs mb) /\
    (fits32 mb ->
     forall q m m', nth_error (mb_msgs mb) q = Some m -> nth_error (mb_msgs mb') q = Some m' ->
       if spec_addressed uid set mb (N.of_nat (S q), m) then store_spec op fl m m' else m' = m) /\
    (fits32 mb ->
     r_data r = if silent then []
                else map (fun sm => RFetch (fst sm) [FUid (mm_uid (snd sm)); FFlags (mm_flags (snd sm))])
                         (filter (spec_addressed uid set mb) (numbered mb'))) /\
    others_unchanged s s' [i] /\ st_names s' = st_names s /\ st_sel s' = st_sel s.
Proof.
  intros s k uid set op silent fl s' r Hok Hw H Hr. unfold step in H.
  destruct (in_selected_inv _ _ _ _ _ H Hr) as (i & mb & Hsel & Hmb & Hk). clear H. cbv beta zeta in Hk.
  destruct (ro_of s k) eqn:Ero; [failed_branch Hk Hr|].
  inversion Hk; subst s' r. clear Hk Hr.
  pose proof (state_ok_mb _ _ _ Hok Hmb) as Hmok.
  pose proof (map_addressed_uids uid set mb (store_flags op fl) (store_flags_uid op fl)) as Hu.
  exists i, mb, (set_msgs (map_addressed uid set mb (store_flags op fl)) mb).
  split; [exact Hsel|]. split; [exact Hmb|]. split; [exact (upd_mb_same s i _ mb Hmb)|].
  split; [reflexivity|]. split; [reflexivity|]. split; [reflexivity|]. split; [reflexivity|].
  split; [exact (same_uids_length mb _ Hu)|]. split.
  - intros Hf q m m' H1 H2. unfold set_msgs, mb_msgs in H2.
    pose proof (numbered_nth mb q m H1) as Hn.
    rewrite (map_addressed_nth uid set mb _ q m H1) in H2.
    rewrite (addressed_spec uid set mb _ Hmok Hf Hw (nth_error_In _ _ Hn)) in H2.
    revert H2. destruct (spec_addressed uid set mb (N.of_nat (S q), m)); intros H2;
      injection H2 as H2; subst m'; [apply store_flags_spec|reflexivity].
  - split.
    + intros Hf. cbn [r_data ok]. destruct silent; [reflexivity|].
      rewrite (same_uids_select mb _ Hu uid set Hmok Hf Hw). reflexivity.
    + split; [apply upd_mb_others|]. auto.
Qed.

(* ---- EXPUNGE / UID EXPUNGE / CLOSE ---- *)
Lemma is_deleted_spec : forall m, is_deleted m = msg_has m (s2b "\Deleted").
Proof. reflexivity. Qed.

Definition spec_expunged (uids : option nset) (mb : mailbox) (m : mmsg) : bool :=
  msg_has m (s2b "\Deleted") &&
  match uids with None => true | Some set => set_addresses (last_uid mb) set (mm_uid m) end.

Theorem expunge_exact : forall s k uids s' r, state_ok s ->
  match uids with Some set => wire_set set = true | None => True end ->
  ro_of s k = false ->
  step s (k, CExpunge uids) = Some (s', r) -> r_class r = 0 ->
  exists i mb, sel_of s k = Some i /\ nth_error (st_heap s) i = Some mb /\
    (fits32 mb ->
     nth_error (st_heap s') i = Some (set_msgs (filter (fun m => negb (spec_expunged uids mb m)) (mb_msgs mb)) mb)) /\
    others_unchanged s s' [i] /\ st_names s' = st_names s /\ st_sel s' = st_sel s.
Proof.
  intros s k uids s' r Hok Hw Hro H Hr. unfold step in H.
  destruct (in_selected_inv _ _ _ _ _ H Hr) as (i & mb & Hsel & Hmb & Hk). clear H. cbv beta in Hk.
  rewrite Hro in Hk.
  inversion Hk; subst s' r. clear Hk Hr.
  pose proof (state_ok_mb _ _ _ Hok Hmb) as Hmok.
  exists i, mb. split; [exact Hsel|]. split; [exact Hmb|]. split.
  - intros Hf. rewrite (upd_mb_same s i _ mb Hmb). f_equal. unfold expunge_mb. f_equal.
    apply filter_ext_in. intros m Hm. f_equal. unfold expunge_sel, spec_expunged.
    rewrite is_deleted_spec. destruct uids as [set|]; [|rewrite andb_true_r; reflexivity].
    destruct (msg_In_numbered mb m Hm) as [q Hq].
    pose proof (addressed_spec true set mb (q, m) Hmok Hf Hw Hq) as E.
    unfold addressed, spec_addressed in E. cbn [snd] in E. rewrite E. apply andb_comm.
  - split; [apply upd_mb_others|]. auto.
Qed.

Theorem close_exact : forall s k s' r, state_ok s -> ro_of s k = false -> step s (k, CClose) = Some (s', r) -> r_class r = 0 ->
  exists i mb, sel_of s k = Some i /\ nth_error (st_heap s) i = Some mb /\
    nth_error (st_heap s') i = Some (set_msgs (filter (fun m => negb (msg_has m (s2b "\Deleted"))) (mb_msgs mb)) mb) /\
    sel_of s' k = None /\ others_unchanged s s' [i] /\ st_names s' = st_names s.
Proof.
  intros s k s' r Hok Hro H Hr. unfold step in H.
  destruct (in_selected_inv _ _ _ _ _ H Hr) as (i & mb & Hsel & Hmb & Hk). clear H. cbv beta in Hk.
  rewrite Hro in Hk.
  inversion Hk; subst s' r. clear Hk Hr.
  exists i, mb. split; [exact Hsel|]. split; [exact Hmb|]. split.
  - unfold set_sel, with_sel. cbn [st_heap]. rewrite (upd_mb_same s i _ mb Hmb). reflexivity.
  - split.
    + unfold sel_of in *. unfold set_sel, with_sel, upd_mb, with_heap. cbn [st_sel].
      destruct (nth_error (st_sel s) k) as [o|] eqn:E; [|discriminate].
      rewrite (update_nth_const _ None _ _ _ E). reflexivity.
    + split; [exact (upd_mb_others s i _)|reflexivity].
Qed.

(* ---- FETCH ---- *)
Lemma all_some_map : forall A (l : list (option A)) d, all_some l = Some d -> map Some d = l.
Proof.
  induction l as [|[x|] l IH]; intros d H; cbn [all_some] in H.
  - inversion H. reflexivity.
  - destruct (all_some l) as [d'|]; [|discriminate]. cbn [option_map] in H. inversion H.
    cbn [map]. rewrite (IH d' eq_refl). reflexivity.
  - discriminate.
Qed.

Lemma seen_lower : ascii_lower (s2b "\Seen") = SEEN_F.
Proof. reflexivity. Qed.

Lemma mark_seen_spec : forall m f, msg_has (mark_seen m) f = msg_has m f || flag_in f [s2b "\Seen"].
Proof.
  intros m f. unfold msg_has, mark_seen, has_flag, flag_in, canon_flag. cbn [set_flags mm_flags existsb].
  rewrite mem_flag_insert, seen_lower, orb_false_r. apply orb_comm.
Qed.

(* one response per addressed message, in mailbox order, carrying its sequence number, UID and
   the requested items; the only state change is \Seen on the addressed messages when a section
   was requested without PEEK and the mailbox was not opened read-only (EXAMINE) *)
Theorem fetch_exact : forall s k uid set o s' r, state_ok s -> wire_set set = true ->
  step s (k, CFetch uid set o) = Some (s', r) -> r_class r = 0 ->
  exists i mb mb', sel_of s k = Some i /\ nth_error (st_heap s) i = Some mb /\
    nth_error (st_heap s') i = Some mb' /\
    let seen := negb (ro_of s k) && existsb (fun p => negb (sc_peek (fst p))) (fo_sections o) in
    (fits32 mb ->
     mb' = set_msgs (map (fun sm => if spec_addressed uid set mb sm && seen then mark_seen (snd sm) else snd sm)
                         (numbered mb)) mb /\
     map Some (r_data r) = map (fun sm => fetch_one o (fst sm) (snd sm))
                                (filter (spec_addressed uid set mb) (numbered mb'))) /\
    (forall m f, msg_has (mark_seen m) f = msg_has m f || flag_in f [s2b "\Seen"]) /\
    others_unchanged s s' [i] /\ st_names s' = st_names s /\ st_sel s' = st_sel s.
Proof.
  intros s k uid set o s' r Hok Hw H Hr. unfold step in H.
  destruct (in_selected_inv _ _ _ _ _ H Hr) as (i & mb & Hsel & Hmb & Hk). clear H. cbv beta zeta in Hk.
  set (seen := negb (ro_of s k) && existsb (fun p => negb (sc_peek (fst p))) (fo_sections o)) in *.
  set (f := if seen then mark_seen else fun m => m) in *.
  assert (Hfu : forall m, mm_uid (f m) = mm_uid m) by (intros m; unfold f; destruct seen; reflexivity).
  pose proof (map_addressed_uids uid set mb f Hfu) as Hu.
  destruct (all_some _) as [data|] eqn:Ea in Hk; [|discriminate].
  inversion Hk; subst s' r. clear Hk Hr.
  pose proof (state_ok_mb _ _ _ Hok Hmb) as Hmok.
  exists i, mb, (set_msgs (map_addressed uid set mb f) mb).
  split; [exact Hsel|]. split; [exact Hmb|]. split; [exact (upd_mb_same s i _ mb Hmb)|].
  cbv zeta. fold seen. split.
  - intros Hf. split.
    + unfold set_msgs. f_equal. unfold map_addressed. apply map_ext_in. intros sm Hin.
      rewrite (addressed_spec uid set mb sm Hmok Hf Hw Hin). unfold f.
      destruct (spec_addressed uid set mb sm), seen; reflexivity.
    + cbn [r_data ok]. rewrite (all_some_map _ _ _ Ea).
      rewrite (same_uids_select mb _ Hu uid set Hmok Hf Hw). reflexivity.
  - split; [exact mark_seen_spec|]. split; [apply upd_mb_others|]. auto.
Qed.

(* ---- read-only selections (EXAMINE) ---- *)
Lemma update_nth_ident : forall A (l : list A) i x, nth_error l i = Some x -> update_nth i (fun _ => x) l = l.
Proof.
  induction l as [|y l IH]; intros i x H; destruct i; cbn [update_nth nth_error] in *; try discriminate.
  - inversion H. reflexivity.
  - rewrite (IH _ _ H). reflexivity.
Qed.

Lemma map_addressed_ident : forall uid set mb, map_addressed uid set mb (fun m => m) = mb_msgs mb.
Proof.
  intros uid set mb. unfold map_addressed. transitivity (map snd (numbered mb)); [|apply numbered_snd].
  apply map_ext. intros sm. destruct (addressed uid set mb sm); reflexivity.
Qed.

Lemma set_msgs_ident : forall mb, set_msgs (mb_msgs mb) mb = mb.
Proof. intros [n uv nx sb ms]. reflexivity. Qed.

(* RFC 3501 6.3.2 / 6.4.2: a session whose mailbox was opened with EXAMINE cannot change it.  STORE, MOVE
   and UID EXPUNGE are refused (NO, no response code) and leave the whole state unchanged; EXPUNGE succeeds
   without removing anything; CLOSE only drops the selection; FETCH never sets \Seen: the heap (every
   mailbox's messages and flags), the names and the selections stay as they were. *)
Theorem readonly_no_change : forall s k c s' r i, state_ok s ->
  sel_of s k = Some i -> ro_of s k = true -> step s (k, c) = Some (s', r) ->
  match c with
  | CStore _ _ _ _ _ | CMove _ _ _ | CExpunge (Some _) => s' = s /\ r = no_plain
  | CExpunge None => s' = s /\ r = ok []
  | CClose => s' = set_sel s k None /\ st_heap s' = st_heap s /\ r = ok []
  | CFetch _ _ _ => st_heap s' = st_heap s /\ st_names s' = st_names s /\ st_sel s' = st_sel s /\ r_class r = 0
  | _ => True
  end.
Proof.
  intros s k c s' r i Hok Hsel Hro H.
  pose proof (sel_valid _ _ _ Hok Hsel) as Hlt. apply lt_nth_some in Hlt. destruct Hlt as (mb & Hmb).
  destruct c; try exact I; unfold step, in_selected in H; rewrite Hsel, Hmb in H; try rewrite Hro in H.
  - (* CLOSE *) inversion H. split; [reflexivity|]. split; reflexivity.
  - (* STORE *) inversion H. split; reflexivity.
  - (* MOVE *) inversion H. split; reflexivity.
  - (* EXPUNGE *) destruct uids; inversion H; split; reflexivity.
  - (* FETCH *) cbn [negb andb] in H. cbv zeta in H. rewrite map_addressed_ident, set_msgs_ident in H.
    destruct (all_some _) as [data|] in H; [|discriminate]. inversion H.
    unfold upd_mb, with_heap. cbn [st_heap st_names st_sel r_class ok].
    rewrite (update_nth_ident _ _ _ _ Hmb). repeat split; reflexivity.
Qed.

Lemma fetch_sections_In : forall buf l secs, fetch_sections buf l = Some secs ->
  forall it obs, In (it, obs) l ->
    exists d, body_section buf it = Some d /\ In (FBody (section_label it obs) d) secs.
Proof.
  induction l as [|[it0 obs0] l IH]; intros secs H it obs Hin; [destruct Hin|].
  cbn [fetch_sections] in H.
  destruct (body_section buf it0) as [d0|] eqn:Eb; [|discriminate].
  destruct (fetch_sections buf l) as [rest|] eqn:Er; [|discriminate].
  inversion H; subst secs. destruct Hin as [Hin|Hin].
  - inversion Hin; subst. exists d0. split; [exact Eb|left; reflexivity].
  - destruct (IH rest eq_refl it obs Hin) as (d & E & Hd). exists d. split; [exact E|right; exact Hd].
Qed.

(* the items of one FETCH response *)
Theorem fetch_one_items : forall o q m items, fetch_one o q m = Some (RFetch q items) ->
  In (FUid (mm_uid m)) items /\
  (fo_flags o = true -> In (FFlags (mm_flags m)) items) /\
  (fo_size o = true -> In (FSize (N.of_nat (length (mm_buf m)))) items) /\
  (fo_date o = true -> In (FDate (mm_time m) (mm_zone m)) items) /\
  (forall it obs, In (it, obs) (fo_sections o) ->
     exists d, body_section (mm_buf m) it = Some d /\ In (FBody (section_label it obs) d) items).
Proof.
  intros o q m items H. unfold fetch_one in H.
  destruct (fetch_sections (mm_buf m) (fo_sections o)) as [secs|] eqn:Es; [|discriminate].
  inversion H; subst items. clear H.
  split; [cbn [app]; left; reflexivity|].
  split; [intros E; rewrite E; cbn [app In]; rewrite ?in_app_iff; cbn [In]; auto 10|].
  split; [intros E; rewrite E; cbn [app In]; rewrite ?in_app_iff; cbn [In]; auto 10|].
  split; [intros E; rewrite E; cbn [app In]; rewrite ?in_app_iff; cbn [In]; auto 10|].
  intros it obs Hin. destruct (fetch_sections_In _ _ _ Es it obs Hin) as (d & E & Hd).
  exists d. split; [exact E|]. cbn [app In]. rewrite ?in_app_iff. auto 10.
Qed.

(* ---- the premise [flags_canon] of copy_exact / move_exact holds in every reachable state ---- *)
(* every flag list of the state is lower case and strictly sorted *)
Definition mb_flags_ok (mb : mailbox) : Prop := forall m, In m (mb_msgs mb) -> flag_list_ok (mm_flags m).
Definition heap_ok (h : list mailbox) : Prop := forall i mb, nth_error h i = Some mb -> mb_flags_ok mb.
Definition heap_flags_ok (s : state) : Prop := heap_ok (st_heap s).

Lemma mb_flags_ok_canon : forall mb, mb_flags_ok mb -> flags_canon mb.
Proof. intros mb H m Hm. apply flags_add_fixed. exact (H m Hm). Qed.

Lemma update_nth_inv : forall A (f : A -> A) l i j y, nth_error (update_nth i f l) j = Some y ->
  nth_error l j = Some y \/ (j = i /\ exists x, nth_error l i = Some x /\ y = f x).
Proof.
  induction l as [|a l IH]; intros i j y H.
  - destruct i, j; discriminate H.
  - destruct i as [|i], j as [|j]; cbn [update_nth nth_error] in *.
    + right. split; [reflexivity|]. exists a. split; [reflexivity|congruence].
    + left. exact H.
    + left. exact H.
    + destruct (IH i j y H) as [E|(E & x & Ex & Ey)]; [left; exact E|].
      right. split; [congruence|]. exists x. auto.
Qed.

Lemma heap_ok_update : forall h i f, heap_ok h ->
  (forall mb, nth_error h i = Some mb -> mb_flags_ok mb -> mb_flags_ok (f mb)) ->
  heap_ok (update_nth i f h).
Proof.
  intros h i f Hh Hf j mb' E. destruct (update_nth_inv _ _ _ _ _ _ E) as [E'|(-> & mb & Em & ->)].
  - exact (Hh j mb' E').
  - exact (Hf mb Em (Hh i mb Em)).
Qed.

Lemma nth_error_snoc_inv : forall A (l : list A) x i y, nth_error (l ++ [x]) i = Some y ->
  nth_error l i = Some y \/ y = x.
Proof.
  induction l as [|a l IH]; intros x i y H.
  - destruct i as [|i]; cbn [app nth_error] in H; [right; congruence|destruct i; discriminate H].
  - destruct i as [|i]; cbn [app nth_error] in *; [left; exact H|exact (IH x i y H)].
Qed.

Lemma map_addressed_ok : forall uid set mb f, mb_flags_ok mb ->
  (forall m, flag_list_ok (mm_flags m) -> flag_list_ok (mm_flags (f m))) ->
  mb_flags_ok (set_msgs (map_addressed uid set mb f) mb).
Proof.
  intros uid set mb f Hmb Hf m Hm. unfold set_msgs, mb_msgs, map_addressed in Hm.
  apply in_map_iff in Hm as ([q m0] & E & Hin). cbn [snd] in E.
  pose proof (Hmb m0 (numbered_In_msg _ _ _ Hin)) as H0.
  destruct (addressed uid set mb (q, m0)); subst m; auto.
Qed.

Lemma sub_msgs_ok : forall mb ms, mb_flags_ok mb -> (forall m, In m ms -> In m (mb_msgs mb)) ->
  mb_flags_ok (set_msgs ms mb).
Proof. intros mb ms H Hs m Hm. apply H. apply Hs. exact Hm. Qed.

Lemma expunge_mb_ok : forall uids mb, mb_flags_ok mb -> mb_flags_ok (expunge_mb uids mb).
Proof.
  intros uids mb H. unfold expunge_mb. apply sub_msgs_ok; [exact H|].
  intros m Hm. apply filter_In in Hm as [Hm _]. exact Hm.
Qed.

Lemma append_msg_ok : forall mb fl t z buf, mb_flags_ok mb -> mb_flags_ok (fst (append_msg mb fl t z buf)).
Proof.
  intros mb fl t z buf H m Hm. unfold append_msg in Hm. cbn [fst mb_msgs] in Hm.
  apply in_app_or in Hm as [Hm|[<-|[]]]; [exact (H m Hm)|].
  cbn [mm_flags]. apply flags_add_ok. apply flag_list_ok_nil.
Qed.

Lemma copy_all_ok : forall ms mb, mb_flags_ok mb -> mb_flags_ok (fst (copy_all mb ms)).
Proof.
  induction ms as [|m r IH]; intros mb H; cbn [copy_all]; [exact H|].
  pose proof (append_msg_ok mb (mm_flags m) (mm_time m) (mm_zone m) (mm_buf m) H) as H1.
  destruct (append_msg mb (mm_flags m) (mm_time m) (mm_zone m) (mm_buf m)) as [mb1 u].
  cbn [fst] in H1. pose proof (IH mb1 H1) as H2.
  destruct (copy_all mb1 r) as [mb2 us]. exact H2.
Qed.

Lemma in_selected_cases : forall s k f s' r, in_selected s k f = Some (s', r) ->
  s' = s \/ exists i mb, nth_error (st_heap s) i = Some mb /\ f i mb = Some (s', r).
Proof.
  intros s k f s' r H. unfold in_selected in H.
  destruct (sel_of s k) as [i|]; [|left; congruence].
  destruct (nth_error (st_heap s) i) as [mb|] eqn:E; [|left; congruence].
  right. exists i, mb. auto.
Qed.

Ltac same_state Hs H := inversion Hs; subst; exact H.
Ltac heap_goal := unfold heap_flags_ok, set_sel, with_sel, upd_mb, with_heap; cbn [st_heap].

Lemma step_flags_ok : forall s c s' r, heap_flags_ok s -> step s c = Some (s', r) -> heap_flags_ok s'.
Proof.
  intros s [k c] s' r H Hs. destruct c; unfold step in Hs.
  - (* CREATE *) cbv zeta in Hs. destruct (lookup _ _); [same_state Hs H|].
    inversion Hs; subst. intros i mb E. cbn [st_heap] in E.
    apply nth_error_snoc_inv in E as [E| ->]; [exact (H i mb E)|]. intros m [].
  - (* DELETE *) destruct (lookup _ _); same_state Hs H.
  - (* RENAME *) cbv zeta in Hs. destruct (lookup o _); [|same_state Hs H].
    destruct (lookup _ _); [same_state Hs H|]. inversion Hs; subst.
    unfold heap_flags_ok. cbn [st_heap]. apply heap_ok_update; [exact H|]. intros mb _ Hmb. exact Hmb.
  - (* SUBSCRIBE *) destruct (lookup _ _); [|same_state Hs H]. inversion Hs; subst.
    heap_goal. apply heap_ok_update; [exact H|]. intros mb _ Hmb. exact Hmb.
  - (* UNSUBSCRIBE *) destruct (lookup _ _); [|same_state Hs H]. inversion Hs; subst.
    heap_goal. apply heap_ok_update; [exact H|]. intros mb _ Hmb. exact Hmb.
  - (* LIST *) same_state Hs H.
  - (* STATUS *) destruct (lookup _ _); [|same_state Hs H]. destruct (nth_error _ _); same_state Hs H.
  - (* APPEND *) destruct (lookup _ _) as [id|]; [|same_state Hs H].
    destruct (nth_error (st_heap s) id) as [mb|] eqn:Emb; [|same_state Hs H].
    pose proof (append_msg_ok mb flags time zone buf (H id mb Emb)) as Ha.
    destruct (append_msg mb flags time zone buf) as [mb' u]. cbn [fst] in Ha. inversion Hs; subst.
    heap_goal. apply heap_ok_update; [exact H|]. intros _ _ _. exact Ha.
  - (* SELECT *) cbv zeta in Hs. destruct (lookup _ _); [|same_state Hs H].
    destruct (nth_error _ _); same_state Hs H.
  - (* UNSELECT *) destruct (in_selected_cases _ _ _ _ _ Hs) as [->|(id & mb & Emb & Hk)]; [exact H|].
    same_state Hk H.
  - (* CLOSE *) destruct (in_selected_cases _ _ _ _ _ Hs) as [->|(id & mb & Emb & Hk)]; [exact H|].
    destruct (ro_of s k); [same_state Hk H|]. inversion Hk; subst. heap_goal. apply heap_ok_update; [exact H|].
    intros mb0 _ Hmb0. apply expunge_mb_ok. exact Hmb0.
  - (* STORE *) destruct (in_selected_cases _ _ _ _ _ Hs) as [->|(id & mb & Emb & Hk)]; [exact H|].
    cbv beta zeta in Hk. destruct (ro_of s k); [same_state Hk H|]. inversion Hk; subst. heap_goal. apply heap_ok_update; [exact H|].
    intros _ _ _. apply map_addressed_ok; [exact (H id mb Emb)|].
    intros m Hm. destruct op; cbn [store_flags set_flags mm_flags].
    + apply flags_add_ok. apply flag_list_ok_nil.
    + apply flags_add_ok. exact Hm.
    + apply flags_del_ok. exact Hm.
  - (* COPY *) destruct (in_selected_cases _ _ _ _ _ Hs) as [->|(id & mb & Emb & Hk)]; [exact H|].
    cbv beta in Hk. destruct (lookup _ _) as [did|]; [|same_state Hk H].
    destruct (Nat.eqb did id); [same_state Hk H|].
    destruct (nth_error (st_heap s) did) as [dmb|] eqn:Ed; [|same_state Hk H].
    pose proof (copy_all_ok (map snd (select_addressed uid set mb)) dmb (H did dmb Ed)) as Hc.
    destruct (copy_all dmb (map snd (select_addressed uid set mb))) as [dmb' du]. cbn [fst] in Hc.
    inversion Hk; subst. heap_goal. apply heap_ok_update; [exact H|]. intros _ _ _. exact Hc.
  - (* MOVE *) destruct (in_selected_cases _ _ _ _ _ Hs) as [->|(id & mb & Emb & Hk)]; [exact H|].
    cbv beta in Hk. destruct (ro_of s k); [same_state Hk H|]. destruct (lookup _ _) as [did|]; [|same_state Hk H].
    destruct (Nat.eqb did id); [same_state Hk H|].
    destruct (nth_error (st_heap s) did) as [dmb|] eqn:Ed; [|same_state Hk H].
    pose proof (copy_all_ok (map snd (select_addressed uid set mb)) dmb (H did dmb Ed)) as Hc.
    destruct (copy_all dmb (map snd (select_addressed uid set mb))) as [dmb' du]. cbn [fst] in Hc.
    inversion Hk; subst. heap_goal. apply heap_ok_update.
    + apply heap_ok_update; [exact H|]. intros _ _ _. exact Hc.
    + intros _ _ _. apply sub_msgs_ok; [exact (H id mb Emb)|].
      intros m Hm. apply in_map_iff in Hm as ([q m0] & E & Hin). cbn [snd] in E. subst m0.
      apply filter_In in Hin as [Hin _]. exact (numbered_In_msg _ _ _ Hin).
  - (* EXPUNGE *) destruct (in_selected_cases _ _ _ _ _ Hs) as [->|(id & mb & Emb & Hk)]; [exact H|].
    destruct (ro_of s k); [same_state Hk H|]. inversion Hk; subst. heap_goal. apply heap_ok_update; [exact H|].
    intros mb0 _ Hmb0. apply expunge_mb_ok. exact Hmb0.
  - (* SEARCH *) destruct (in_selected_cases _ _ _ _ _ Hs) as [->|(id & mb & Emb & Hk)]; [exact H|].
    same_state Hk H.
  - (* FETCH *) destruct (in_selected_cases _ _ _ _ _ Hs) as [->|(id & mb & Emb & Hk)]; [exact H|].
    cbv beta zeta in Hk. destruct (all_some _) as [data|] in Hk; [|discriminate].
    inversion Hk; subst. heap_goal. apply heap_ok_update; [exact H|].
    intros _ _ _. apply map_addressed_ok; [exact (H id mb Emb)|].
    intros m Hm. destruct (_ && _); [|exact Hm].
    unfold mark_seen. cbn [set_flags mm_flags]. apply flag_insert_ok; [reflexivity|exact Hm].
  - (* NOOP *) same_state Hs H.
Qed.

Lemma run_flags_ok : forall h s s' rs, heap_flags_ok s -> run s h = Some (s', rs) -> heap_flags_ok s'.
Proof.
  induction h as [|c h IH]; intros s s' rs H Hr; cbn [run] in Hr.
  - inversion Hr; subst. exact H.
  - destruct (step s c) as [[s1 r]|] eqn:Es; [|discriminate].
    destruct (run s1 h) as [[s2 rs']|] eqn:Er; [|discriminate].
    inversion Hr; subst. exact (IH s1 s' rs' (step_flags_ok s c s1 r H Es) Er).
Qed.

Theorem reachable_flags_canon : forall s i mb, reachable s -> nth_error (st_heap s) i = Some mb ->
  flags_canon mb.
Proof.
  intros s i mb (n & h & rs & Hr) E. apply mb_flags_ok_canon.
  refine (run_flags_ok h (init n) s rs _ Hr i mb E).
  intros j mb' E'. cbn [init st_heap] in E'. destruct j; discriminate E'.
Qed.

(* for one step from a state whose flag lists are canonical *)
Corollary step_flags_canon : forall s c s' r i mb, heap_flags_ok s -> step s c = Some (s', r) ->
  nth_error (st_heap s') i = Some mb -> flags_canon mb.
Proof.
  intros s c s' r i mb H Hs E. apply mb_flags_ok_canon. exact (step_flags_ok s c s' r H Hs i mb E).
Qed.
