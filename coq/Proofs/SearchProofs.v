(* Proofs/SearchProofs.v — proofs for C19 about Model/Search.v. *)
From Coq Require Import Sorting.Permutation.
From Coq Require Import Btauto.
From GoImap.Base Require Import Bytes.
From GoImap.Model Require Import NumSet Search.
From GoImap.Proofs Require Import SearchSpec.
Open Scope Z_scope.

(* ---- small boolean / arithmetic facts about the scalar fields ---- *)

Ltac not_if a := lazymatch a with (if _ then _ else _) => fail | _ => idtac end.
Ltac ztests :=
  repeat match goal with
         | |- context [?a =? ?b] => not_if a; not_if b; destruct (Z.eqb_spec a b)
         | |- context [?a <? ?b] => not_if a; not_if b; destruct (Z.ltb_spec a b)
         | |- context [?a <=? ?b] => not_if a; not_if b; destruct (Z.leb_spec a b)
         | _ => progress cbn [negb andb orb]
         end;
  try reflexivity; try lia.

Definition sent_block (sent : option Z) (ss sb : Z) : bool :=
  if negb (ss =? 0) || negb (sb =? 0) then
    match sent with None => false | Some t => match_date t ss sb end
  else true.
Definition larger_ok (sz la : Z) : bool := negb (negb (la =? 0) && (sz <=? la)).
Definition smaller_ok (sz sm : Z) : bool := negb (negb (sm =? 0) && (sm <=? sz)).

Lemma matches_unfold : forall m seqs uids since before sentsince sentbefore hdr body text
                              flag notflag larger smaller nots ors,
  matches m (Crit seqs uids since before sentsince sentbefore hdr body text flag notflag
                  larger smaller nots ors) =
  forallb (fun s => negb (N.eqb (m_seq m) 0) && set_has s (m_seq m)) seqs &&
  forallb (fun s => set_has s (m_uid m)) uids &&
  match_date (m_date m) since before &&
  forallb (m_flag m) flag &&
  forallb (fun f => negb (m_flag m f)) notflag &&
  larger_ok (m_size m) larger &&
  smaller_ok (m_size m) smaller &&
  forallb (m_text m) text &&
  forallb (fun kv => m_hdr m (fst kv) (snd kv)) hdr &&
  sent_block (m_sent m) sentsince sentbefore &&
  forallb (m_body m) body &&
  forallb (fun n => negb (matches m n)) nots &&
  forallb (fun p => matches m (fst p) || matches m (snd p)) ors.
Proof. reflexivity. Qed.

Lemma match_date_and : forall t s1 s2 b1 b2,
  match_date t (intersect_since s1 s2) (intersect_before b1 b2) =
  match_date t s1 b1 && match_date t s2 b2.
Proof.
  intros. unfold match_date, intersect_since, intersect_before. ztests.
Qed.

Lemma sent_block_and : forall sent s1 s2 b1 b2,
  sent_block sent (intersect_since s1 s2) (intersect_before b1 b2) =
  sent_block sent s1 b1 && sent_block sent s2 b2.
Proof.
  intros. unfold sent_block, match_date, intersect_since, intersect_before.
  destruct sent; ztests.
Qed.

Lemma larger_ok_and : forall sz la1 la2, 0 <= sz ->
  larger_ok sz (if (la1 =? 0) || (la1 <? la2) then la2 else la1) =
  larger_ok sz la1 && larger_ok sz la2.
Proof.
  intros. unfold larger_ok. ztests.
Qed.

Lemma smaller_ok_and : forall sz sm1 sm2, 0 <= sz ->
  smaller_ok sz (if negb (sm2 =? 0) && ((sm1 =? 0) || (sm2 <? sm1)) then sm2 else sm1) =
  smaller_ok sz sm1 && smaller_ok sz sm2.
Proof.
  intros. unfold smaller_ok. ztests.
Qed.

(* And = intersection, for every pair of criteria (any nesting) and every message *)
Lemma and_intersection : forall a b m, 0 <= m_size m ->
  matches m (and_ a b) = matches m a && matches m b.
Proof.
  intros a b m Hsz. destruct a, b. cbn [and_].
  rewrite !matches_unfold, !forallb_app, match_date_and, sent_block_and,
    larger_ok_and, smaller_ok_and by assumption.
  btauto.
Qed.

(* ---- induction principle for the nested type skey ---- *)
Definition skey_leaf (k : skey) : Prop :=
  match k with KNot _ | KOr _ _ | KList _ => False | _ => True end.

Fixpoint skey_ind' (P : skey -> Prop)
  (Hleaf : forall k, skey_leaf k -> P k)
  (HNot : forall k, P k -> P (KNot k))
  (HOr : forall k1 k2, P k1 -> P k2 -> P (KOr k1 k2))
  (HList : forall ks, Forall P ks -> P (KList ks))
  (k : skey) {struct k} : P k :=
  match k as k0 return P k0 with
  | KNot k' => HNot k' (skey_ind' P Hleaf HNot HOr HList k')
  | KOr k1 k2 => HOr k1 k2 (skey_ind' P Hleaf HNot HOr HList k1)
                            (skey_ind' P Hleaf HNot HOr HList k2)
  | KList ks =>
      HList ks ((fix go (l : list skey) : Forall P l :=
                   match l with
                   | [] => Forall_nil P
                   | x :: r => Forall_cons x (skey_ind' P Hleaf HNot HOr HList x) (go r)
                   end) ks)
  | KAll => Hleaf KAll I
  | KSeq s => Hleaf (KSeq s) I
  | KUid s => Hleaf (KUid s) I
  | KFlag f => Hleaf (KFlag f) I
  | KNotFlag f => Hleaf (KNotFlag f) I
  | KNew => Hleaf KNew I
  | KOld => Hleaf KOld I
  | KHeader a b => Hleaf (KHeader a b) I
  | KSince d => Hleaf (KSince d) I
  | KBefore d => Hleaf (KBefore d) I
  | KOn d => Hleaf (KOn d) I
  | KSentSince d => Hleaf (KSentSince d) I
  | KSentBefore d => Hleaf (KSentBefore d) I
  | KSentOn d => Hleaf (KSentOn d) I
  | KBody s => Hleaf (KBody s) I
  | KText s => Hleaf (KText s) I
  | KLarger n => Hleaf (KLarger n) I
  | KSmaller n => Hleaf (KSmaller n) I
  end.

(* ---- the one-key criteria built by the parser ---- *)
Lemma matches_empty : forall m, matches m empty_crit = true.
Proof. reflexivity. Qed.

Lemma matches_date_crit : forall m si be ss sb,
  matches m (date_crit si be ss sb) = match_date (m_date m) si be && sent_block (m_sent m) ss sb.
Proof.
  intros. unfold date_crit. rewrite matches_unfold. cbn [forallb].
  change (larger_ok (m_size m) 0) with true. change (smaller_ok (m_size m) 0) with true.
  btauto.
Qed.

Lemma matches_size_crit : forall m la sm,
  matches m (size_crit la sm) = larger_ok (m_size m) la && smaller_ok (m_size m) sm.
Proof.
  intros. unfold size_crit. rewrite matches_unfold. cbn [forallb].
  change (match_date (m_date m) 0 0) with true. change (sent_block (m_sent m) 0 0) with true.
  btauto.
Qed.

Lemma match_date_00 : forall t, match_date t 0 0 = true.
Proof. reflexivity. Qed.
Lemma sent_block_00 : forall s, sent_block s 0 0 = true.
Proof. reflexivity. Qed.
Lemma larger_ok_0 : forall sz, larger_ok sz 0 = true.
Proof. reflexivity. Qed.
Lemma smaller_ok_0 : forall sz, smaller_ok sz 0 = true.
Proof. reflexivity. Qed.

Lemma match_date_since : forall t d, d <> 0 -> match_date t d 0 = (d <=? t).
Proof. intros. unfold match_date. ztests. Qed.
Lemma match_date_before : forall t d, d <> 0 -> match_date t 0 d = (t <? d).
Proof. intros. unfold match_date. ztests. Qed.
Lemma match_date_on : forall t d e, d <> 0 -> e <> 0 ->
  match_date t d e = (d <=? t) && (t <? e).
Proof. intros. unfold match_date. ztests. Qed.

Lemma sent_block_since : forall m d, d <> 0 ->
  sent_block (m_sent m) d 0 = sent_test m (fun t => d <=? t).
Proof. intros. unfold sent_block, sent_test, match_date. destruct (m_sent m); ztests. Qed.
Lemma sent_block_before : forall m d, d <> 0 ->
  sent_block (m_sent m) 0 d = sent_test m (fun t => t <? d).
Proof. intros. unfold sent_block, sent_test, match_date. destruct (m_sent m); ztests. Qed.
Lemma sent_block_on : forall m d e, d <> 0 -> e <> 0 ->
  sent_block (m_sent m) d e = sent_test m (fun t => (d <=? t) && (t <? e)).
Proof. intros. unfold sent_block, sent_test, match_date. destruct (m_sent m); ztests. Qed.

Lemma larger_ok_nz : forall sz n, n <> 0 -> larger_ok sz n = (n <? sz).
Proof. intros. unfold larger_ok. ztests. Qed.
Lemma smaller_ok_nz : forall sz n, n <> 0 -> smaller_ok sz n = (sz <? n).
Proof. intros. unfold smaller_ok. ztests. Qed.

Lemma nz_of_wf : forall d, negb (d =? 0) = true -> d <> 0.
Proof. intros d H. apply negb_true_iff in H. apply Z.eqb_neq in H. exact H. Qed.

(* apply_key equations that do not need the shape of [c] *)
Lemma apply_key_and : forall c k,
  apply_key c k =
  match k with
  | KSince d => and_ c (date_crit d 0 0 0)
  | KBefore d => and_ c (date_crit 0 d 0 0)
  | KOn d => and_ c (date_crit d (d + DAY) 0 0)
  | KSentSince d => and_ c (date_crit 0 0 d 0)
  | KSentBefore d => and_ c (date_crit 0 0 0 d)
  | KSentOn d => and_ c (date_crit 0 0 d (d + DAY))
  | KLarger n => and_ c (size_crit n 0)
  | KSmaller n => and_ c (size_crit 0 n)
  | KList ks => fold_left apply_key ks c
  | _ => apply_key c k
  end.
Proof. intros c k. destruct c, k; reflexivity. Qed.

Lemma fold_apply_key_spec : forall m ks,
  Forall (fun k => forall c, wf_key k = true ->
            matches m (apply_key c k) = matches m c && key_matches m k) ks ->
  forall c, forallb wf_key ks = true ->
  matches m (fold_left apply_key ks c) = matches m c && forallb (key_matches m) ks.
Proof.
  intros m ks HF. induction HF as [|k ks Hk HF IH]; intros c Hwf.
  - cbn [fold_left forallb]. rewrite andb_true_r. reflexivity.
  - cbn [forallb] in Hwf. apply andb_true_iff in Hwf. destruct Hwf as [Hw1 Hw2].
    cbn [fold_left forallb]. rewrite IH by assumption. rewrite Hk by assumption.
    rewrite andb_assoc. reflexivity.
Qed.

Ltac leaf_case c :=
  destruct c; cbn [apply_key key_matches];
  rewrite !matches_unfold, ?forallb_app; cbn [forallb fst snd]; btauto.

(* one key more = one conjunct more *)
Lemma apply_key_spec : forall k c m, 0 <= m_size m -> wf_key k = true ->
  matches m (apply_key c k) = matches m c && key_matches m k.
Proof.
  intro k. induction k as [k Hleaf | k IH | k1 k2 IH1 IH2 | ks IH] using skey_ind';
    intros c m Hsz Hwf.
  - destruct k; try contradiction; clear Hleaf; cbn [wf_key] in Hwf.
    + leaf_case c.
    + leaf_case c.
    + leaf_case c.
    + leaf_case c.
    + leaf_case c.
    + leaf_case c.
    + leaf_case c.
    + leaf_case c.
    + (* KSince *)
      apply nz_of_wf in Hwf.
      rewrite apply_key_and, and_intersection, matches_date_crit by assumption.
      rewrite match_date_since, sent_block_00, andb_true_r by assumption. reflexivity.
    + (* KBefore *)
      apply nz_of_wf in Hwf.
      rewrite apply_key_and, and_intersection, matches_date_crit by assumption.
      rewrite match_date_before, sent_block_00, andb_true_r by assumption. reflexivity.
    + (* KOn *)
      apply andb_true_iff in Hwf. destruct Hwf as [H1 H2].
      apply nz_of_wf in H1. apply nz_of_wf in H2.
      rewrite apply_key_and, and_intersection, matches_date_crit by assumption.
      rewrite match_date_on, sent_block_00, andb_true_r by assumption. reflexivity.
    + (* KSentSince *)
      apply nz_of_wf in Hwf.
      rewrite apply_key_and, and_intersection, matches_date_crit by assumption.
      rewrite sent_block_since, match_date_00 by assumption. reflexivity.
    + (* KSentBefore *)
      apply nz_of_wf in Hwf.
      rewrite apply_key_and, and_intersection, matches_date_crit by assumption.
      rewrite sent_block_before, match_date_00 by assumption. reflexivity.
    + (* KSentOn *)
      apply andb_true_iff in Hwf. destruct Hwf as [H1 H2].
      apply nz_of_wf in H1. apply nz_of_wf in H2.
      rewrite apply_key_and, and_intersection, matches_date_crit by assumption.
      rewrite sent_block_on, match_date_00 by assumption. reflexivity.
    + leaf_case c.
    + leaf_case c.
    + (* KLarger *)
      apply nz_of_wf in Hwf.
      rewrite apply_key_and, and_intersection, matches_size_crit by assumption.
      rewrite larger_ok_nz, smaller_ok_0, andb_true_r by assumption. reflexivity.
    + (* KSmaller *)
      apply nz_of_wf in Hwf.
      rewrite apply_key_and, and_intersection, matches_size_crit by assumption.
      rewrite smaller_ok_nz, larger_ok_0 by assumption. reflexivity.
  - (* KNot *)
    cbn [wf_key] in Hwf. destruct c. cbn [apply_key key_matches].
    rewrite !matches_unfold, forallb_app. cbn [forallb].
    rewrite (IH empty_crit m Hsz Hwf), matches_empty. cbn [andb]. btauto.
  - (* KOr *)
    cbn [wf_key] in Hwf. apply andb_true_iff in Hwf. destruct Hwf as [Hw1 Hw2].
    destruct c. cbn [apply_key key_matches].
    rewrite !matches_unfold, forallb_app. cbn [forallb fst snd].
    rewrite (IH1 empty_crit m Hsz Hw1), (IH2 empty_crit m Hsz Hw2), matches_empty.
    cbn [andb]. btauto.
  - (* KList *)
    cbn [wf_key] in Hwf. rewrite apply_key_and. cbn [key_matches].
    apply fold_apply_key_spec; [|assumption].
    eapply Forall_impl; [|exact IH]. cbn beta. intros k Hk c0 Hw. apply Hk; assumption.
Qed.

(* a multi-key SEARCH selects exactly the messages satisfying all its keys *)
Lemma keys_conjunction : forall ks m, 0 <= m_size m -> forallb wf_key ks = true ->
  matches m (parse_keys ks) = forallb (key_matches m) ks.
Proof.
  intros ks m Hsz Hwf. unfold parse_keys.
  rewrite fold_apply_key_spec; [rewrite matches_empty; reflexivity | | assumption].
  apply Forall_forall. intros k _ c Hw. apply apply_key_spec; assumption.
Qed.

Lemma forallb_Permutation : forall (A : Type) (f : A -> bool) (l l' : list A),
  Permutation l l' -> forallb f l = forallb f l'.
Proof.
  intros A f l l' HP. induction HP as [| x l l' HP IH | x y l | l l' l'' HP1 IH1 HP2 IH2].
  - reflexivity.
  - cbn [forallb]. rewrite IH. reflexivity.
  - cbn [forallb]. rewrite !andb_assoc, (andb_comm (f y) (f x)). reflexivity.
  - rewrite IH1. exact IH2.
Qed.

(* ... in whatever order the keys are written *)
Lemma keys_permutation : forall ks ks' m, 0 <= m_size m -> forallb wf_key ks = true ->
  Permutation ks ks' -> matches m (parse_keys ks) = matches m (parse_keys ks').
Proof.
  intros ks ks' m Hsz Hwf HP.
  assert (Hwf' : forallb wf_key ks' = true)
    by (rewrite <- (forallb_Permutation _ wf_key ks ks' HP); exact Hwf).
  rewrite !keys_conjunction by assumption.
  apply forallb_Permutation. exact HP.
Qed.
