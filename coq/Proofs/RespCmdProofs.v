(* Proofs/RespCmdProofs.v — C03 at the level of whole commands: the bytes the server writes for
   a command whose backend returned data d make the client's reader complete that command with
   OK and with the normal form of d as the command's data. *)
From Coq Require Import Lia.
From GoImap.Base Require Import Bytes.
From GoImap.Model Require Import NumSet MatchList Utf7 Wire Resp RespFetch RespCmd.
From GoImap.Proofs Require Import NumSetSpec NumSetLemmas NumSetInsert NumSetText NumSetProofs Utf7Spec WireSpec WireLemmas WireProofs
  RespSpec RespEnvProofs RespBodyProofs RespFetchProofs RespLineProofs.
Open Scope N_scope.

Definition has_status (rs : option status_opts) : bool := match rs with Some _ => true | None => false end.

(* ---------------------------------------------------------------------------------------- *)
(* the reader loop, one line at a time                                                        *)

Definition is_tagged (r : resp) : bool := match r with RTagged _ _ _ _ => true | _ => false end.

Definition completes (x : ext) (tag : bytes) (p : pending) (s : bytes) (out : outcome) : Prop :=
  forall fuel, (length s < fuel)%nat -> run_client fuel x tag p s = out.

Lemma completes_client : forall x tag p s out, completes x tag p s out -> client x tag p s = out.
Proof. intros x tag p s out H. unfold client. apply H. lia. Qed.

Lemma completes_untagged : forall x tag p line rest r out,
  read_response x (line ++ rest) = DOk r rest -> line <> [] -> is_tagged r = false ->
  completes x tag (apply_untagged tag p r) rest out ->
  completes x tag p (line ++ rest) out.
Proof.
  intros x tag p line rest r out Hr Hne Ht Hc fuel Hf.
  destruct fuel as [|k]; [lia|]. cbn [run_client].
  destruct (line ++ rest) as [|c s'] eqn:E.
  - destruct line; [congruence|discriminate E].
  - rewrite Hr.
    assert (Hk : (length rest < k)%nat).
    { rewrite <- E, app_length in Hf. destruct line; [congruence|]. cbn [length] in Hf. lia. }
    destruct r; try discriminate Ht; apply Hc; exact Hk.
Qed.

Lemma completes_tagged : forall x tag p line rest typ code text,
  read_response x (line ++ rest) = DOk (RTagged tag typ code text) rest -> line <> [] ->
  completes x tag p (line ++ rest) (Done (apply_tagged p code) typ).
Proof.
  intros x tag p line rest typ code text Hr Hne fuel Hf.
  destruct fuel as [|k]; [lia|]. cbn [run_client].
  destruct (line ++ rest) as [|c s'] eqn:E.
  - destruct line; [congruence|discriminate E].
  - rewrite Hr, bytes_eqb_refl. reflexivity.
Qed.

Lemma wcat_some : forall a b bs, a +++ b = Some bs -> exists x y, a = Some x /\ b = Some y /\ bs = x ++ y.
Proof.
  intros [x|] [y|] bs H; cbn in H; try discriminate H. inversion H. eauto.
Qed.

Lemma completed_line : forall x tag name p bs, wf_tag tag = true ->
  wf_text (s2b name ++ s2b " completed") = true -> w_completed tag name = Some bs ->
  completes x tag p bs (Done (apply_tagged p CNone) OKb).
Proof.
  intros x tag name p bs Ht Hx Hw. unfold w_completed in Hw.
  rewrite <- (app_nil_r bs).
  apply completes_tagged with (text := s2b name ++ s2b " completed").
  - apply tagged_line; [exact Ht|reflexivity|exact Hx|exact Hw].
  - exact (status_resp_nonnil _ _ _ _ _ Hw).
Qed.

Lemma ws_cat_nonnil : forall s w bs, ws s +++ w = Some bs -> s <> ""%string -> bs <> [].
Proof.
  intros s w bs H Hs. apply wcat_some in H as (a & b & Ha & Hb & ->).
  inversion Ha. destruct s as [|c s]; [congruence|]. discriminate.
Qed.

Ltac nonnil_ws := eapply ws_cat_nonnil; [eassumption|discriminate].

(* ---------------------------------------------------------------------------------------- *)
(* CAPABILITY, NAMESPACE, STATUS                                                            *)

Lemma capability_cmd : forall x tag caps bytes,
  wf_tag tag = true -> forallb wf_cap caps = true -> srv_capability tag caps = Some bytes ->
  client x tag init_capability bytes = Done (PCapability caps) OKb.
Proof.
  intros x tag caps bytes Ht Hc Hs. unfold srv_capability in Hs.
  apply wcat_some in Hs as (l1 & l2 & H1 & H2 & ->).
  apply completes_client.
  eapply completes_untagged.
  - apply capability_line; eassumption.
  - unfold w_capability_line in H1. nonnil_ws.
  - reflexivity.
  - eapply completed_line; [exact Ht| |exact H2]; vm_compute; reflexivity.
Qed.

Lemma namespace_cmd : forall x q tag d bytes,
  wf_tag tag = true -> wf_ns d = true -> srv_namespace q tag d = Some bytes ->
  client x tag init_namespace bytes = Done (PNamespace (norm_ns d)) OKb.
Proof.
  intros x q tag d bytes Ht Hc Hs. unfold srv_namespace in Hs.
  apply wcat_some in Hs as (l1 & l2 & H1 & H2 & ->).
  apply completes_client.
  eapply completes_untagged.
  - eapply namespace_line; eassumption.
  - unfold w_namespace_line in H1. nonnil_ws.
  - reflexivity.
  - eapply completed_line; [exact Ht| |exact H2]; vm_compute; reflexivity.
Qed.

Lemma status_cmd : forall x q o tag mbox d bytes,
  wf_tag tag = true -> wf_status d = true -> same_mailbox mbox (norm_mailbox (sd_mailbox d)) = true ->
  srv_status q o tag d = Some bytes ->
  client x tag (init_status mbox) bytes = Done (PStatus mbox (norm_status o d)) OKb.
Proof.
  intros x q o tag mbox d bytes Ht Hc Hm Hs. unfold srv_status in Hs.
  apply wcat_some in Hs as (l1 & l2 & H1 & H2 & ->).
  apply completes_client.
  eapply completes_untagged.
  - eapply status_line; eassumption.
  - unfold w_status in H1. nonnil_ws.
  - reflexivity.
  - unfold init_status. cbn [apply_untagged]. 
    change (sd_mailbox (norm_status o d)) with (norm_mailbox (sd_mailbox d)). rewrite Hm.
    eapply completed_line; [exact Ht| |exact H2]; vm_compute; reflexivity.
Qed.

(* ---------------------------------------------------------------------------------------- *)
(* EXPUNGE, APPEND, COPY, MOVE                                                              *)

Lemma expunge_lines_gen : forall x tag l p bs rest out, wf_seqs l = true ->
  w_concat (fun n => w_num_line n "EXPUNGE") l = Some bs ->
  completes x tag (fold_left (fun p n => apply_untagged tag p (RExpunge n)) l p) rest out ->
  completes x tag p (bs ++ rest) out.
Proof.
  induction l as [|n l IH]; intros p bs rest out Hw Hs Hc.
  - cbn [w_concat] in Hs. inversion Hs. exact Hc.
  - cbn [w_concat] in Hs. apply wcat_some in Hs as (l1 & l2 & H1 & H2 & ->).
    cbn [wf_seqs forallb] in Hw. apply andb_true_iff in Hw as [Hn Hw].
    apply andb_true_iff in Hn as [Hn0 Hn32]. apply N.ltb_lt in Hn0.
    rewrite <- app_assoc. eapply completes_untagged.
    + apply expunge_line; eassumption.
    + exact (num_line_nonnil _ _ _ H1).
    + reflexivity.
    + apply IH; [exact Hw|exact H2|exact Hc].
Qed.

Lemma fold_expunge : forall tag l acc,
  fold_left (fun p n => apply_untagged tag p (RExpunge n)) l (PExpunge acc) = PExpunge (acc ++ l).
Proof.
  induction l as [|n l IH]; intros acc; cbn [fold_left].
  - rewrite app_nil_r. reflexivity.
  - cbn [apply_untagged]. rewrite IH, <- app_assoc. reflexivity.
Qed.

Lemma fold_expunge_move : forall tag l d,
  fold_left (fun p n => apply_untagged tag p (RExpunge n)) l (PMove d) = PMove d.
Proof. induction l as [|n l IH]; intros d; cbn [fold_left apply_untagged]; [reflexivity|apply IH]. Qed.

Lemma expunge_cmd : forall x tag uid l bytes,
  wf_tag tag = true -> wf_seqs l = true -> srv_expunge tag uid l = Some bytes ->
  client x tag init_expunge bytes = Done (PExpunge l) OKb.
Proof.
  intros x tag uid l bytes Ht Hw Hs. unfold srv_expunge in Hs.
  apply wcat_some in Hs as (l1 & l2 & H1 & H2 & ->).
  apply completes_client. eapply expunge_lines_gen; [exact Hw|exact H1|].
  unfold init_expunge. rewrite fold_expunge. cbn [app].
  eapply completed_line; [exact Ht| |exact H2]; destruct uid; vm_compute; reflexivity.
Qed.

Lemma tagged_final : forall x tag p code text bs, wf_tag tag = true -> wf_code true code = true ->
  wf_text text = true -> w_status_resp tag OKb code text = Some bs ->
  completes x tag p bs (Done (apply_tagged p code) OKb).
Proof.
  intros x tag p code text bs Ht Hc Hx Hw. rewrite <- (app_nil_r bs).
  apply completes_tagged with (text := text).
  - apply tagged_line; assumption.
  - exact (status_resp_nonnil _ _ _ _ _ Hw).
Qed.

Lemma append_cmd : forall x tag d bytes,
  wf_tag tag = true -> wf_append d = true -> srv_append tag d = Some bytes ->
  client x tag init_append bytes = Done (PAppend (norm_append d)) OKb.
Proof.
  intros x tag d bytes Ht Hw Hs. unfold srv_append, w_append_ok in Hs.
  apply completes_client.
  destruct d as [[u v]|]; cbn [ad_uid ad_uidvalidity wf_append] in *.
  - apply andb_true_iff in Hw as [Hw Hv]. apply andb_true_iff in Hw as [Hu0 Hu].
    change (norm_append (Some (mkAD u v))) with (mkAD u v).
    change (PAppend (mkAD u v)) with (apply_tagged init_append (CAppendUID v u)).
    eapply tagged_final; [exact Ht| | |exact Hs]; [|vm_compute; reflexivity].
    cbn [wf_code]. rewrite Hv, Hu, Hu0. reflexivity.
  - change (PAppend (norm_append None)) with (apply_tagged init_append CNone).
    eapply tagged_final; [exact Ht| | |exact Hs]; [reflexivity|vm_compute; reflexivity].
Qed.

Lemma copy_code_cases : forall d, wf_copy d = true ->
  (copy_code d = CNone /\ norm_copy d = mkCD 0 [] []) \/
  (exists v s t, copy_code d = CCopyUID v s t /\ norm_copy d = mkCD v s t /\
                 forall tg, wf_code tg (CCopyUID v s t) = true).
Proof.
  intros [[v s t]|] Hw; [|left; split; reflexivity].
  unfold norm_copy, copy_code. cbn [cd_src cd_dst cd_uidvalidity wf_copy] in *.
  destruct (negb (lnil s) && negb (lnil t)) eqn:E; [|left; split; reflexivity].
  right. exists v, s, t. split; [reflexivity|]. split; [reflexivity|]. intros tg. cbn [wf_code].
  apply andb_true_iff in E as [E1 E2].
  repeat (apply andb_true_iff in Hw as [Hw ?]).
  repeat (apply andb_true_iff; split); assumption.
Qed.

Lemma copy_cmd : forall x tag d bytes,
  wf_tag tag = true -> wf_copy d = true -> srv_copy tag d = Some bytes ->
  client x tag init_copy bytes = Done (PCopy (norm_copy d)) OKb.
Proof.
  intros x tag d bytes Ht Hw Hs. unfold srv_copy, w_copy_ok in Hs.
  apply completes_client.
  destruct (copy_code_cases d Hw) as [[E En]|(v & s & t & E & En & Hc)]; rewrite E in Hs; rewrite En.
  - change (PCopy (mkCD 0 [] [])) with (apply_tagged init_copy CNone).
    eapply tagged_final; [exact Ht| | |exact Hs]; [reflexivity|vm_compute; reflexivity].
  - change (PCopy (mkCD v s t)) with (apply_tagged init_copy (CCopyUID v s t)).
    eapply tagged_final; [exact Ht| | |exact Hs]; [apply Hc|vm_compute; reflexivity].
Qed.

Lemma cond_step : forall x tag p code text bs rest out, wf_code false code = true -> wf_text text = true ->
  w_status_resp [] OKb code text = Some bs ->
  completes x tag (apply_untagged tag p (RCond OKb (norm_code code) text)) rest out ->
  completes x tag p (bs ++ rest) out.
Proof.
  intros x tag p code text bs rest out Hc Hx Hw H. eapply completes_untagged.
  - apply cond_line; eassumption.
  - exact (status_resp_nonnil _ _ _ _ _ Hw).
  - reflexivity.
  - exact H.
Qed.

Lemma move_cmd : forall x tag uid d expunged bytes,
  wf_tag tag = true -> wf_copy d = true -> wf_seqs expunged = true -> srv_move tag uid d expunged = Some bytes ->
  client x tag init_move bytes = Done (PMove (norm_copy d)) OKb.
Proof.
  intros x tag uid d expunged bytes Ht Hw He Hs. unfold srv_move in Hs.
  apply wcat_some in Hs as (l1 & l23 & H1 & Hs & ->).
  apply wcat_some in Hs as (l2 & l3 & H2 & H3 & ->).
  apply completes_client. unfold w_move_copy in H1.
  assert (Hfin : forall d0, completes x tag (PMove d0) (l2 ++ l3) (Done (PMove d0) OKb)).
  { intros d0. eapply expunge_lines_gen; [exact He|exact H2|]. rewrite fold_expunge_move.
    eapply completed_line; [exact Ht| |exact H3]; destruct uid; vm_compute; reflexivity. }
  destruct (copy_code_cases d Hw) as [[E En]|(v & s & t & E & En & Hc)]; rewrite E in H1; rewrite En.
  - inversion H1. apply Hfin.
  - eapply cond_step; [apply Hc| |exact H1|]; [vm_compute; reflexivity|].
    cbn [norm_code apply_untagged init_move]. apply Hfin.
Qed.

(* ---------------------------------------------------------------------------------------- *)
(* SELECT / EXAMINE                                                                         *)

Ltac wsplit H a b Ha :=
  apply wcat_some in H; destruct H as (a & b & Ha & H & ->).

Lemma select_cmd : forall x rev2 q was_selected readonly tag mbox d bytes,
  wf_tag tag = true -> wf_select mbox d = true -> srv_select rev2 q was_selected readonly tag d = Some bytes ->
  client x tag (init_select mbox) bytes = Done (PSelect mbox (norm_select d)) OKb.
Proof.
  intros x rev2 q was_selected readonly tag mbox d bytes Ht Hw Hs. unfold srv_select in Hs.
  wsplit Hs l1 r1 H1. wsplit Hs l2 r2 H2. wsplit Hs l3 r3 H3. wsplit Hs l4 r4 H4.
  wsplit Hs l5 r5 H5. wsplit Hs l6 r6 H6. wsplit Hs l7 r7 H7. wsplit Hs l8 r8 H8.
  unfold wf_select in Hw. apply andb_true_iff in Hw as [Hw Hl]. apply andb_true_iff in Hw as [Hw Huv].
  apply andb_true_iff in Hw as [Hn Hun].
  apply completes_client. unfold init_select, empty_select.
  (* CLOSED *)
  assert (G1 : forall out, completes x tag (PSelect mbox (mkSel [] [] 0 0 0 None)) (l2 ++ l3 ++ l4 ++ l5 ++ l6 ++ l7 ++ l8 ++ r8) out ->
               completes x tag (PSelect mbox (mkSel [] [] 0 0 0 None)) (l1 ++ l2 ++ l3 ++ l4 ++ l5 ++ l6 ++ l7 ++ l8 ++ r8) out).
  { intros out H. destruct was_selected.
    - eapply cond_step; [| |exact H1|exact H]; vm_compute; reflexivity.
    - inversion H1. exact H. }
  apply G1; clear G1 H1.
  (* EXISTS *)
  eapply completes_untagged; [eapply exists_line; [|exact H2]; exact Hn|exact (num_line_nonnil _ _ _ H2)|reflexivity|].
  cbn [apply_untagged sl_flags sl_permflags sl_num sl_uidnext sl_uidvalidity sl_list].
  (* RECENT *)
  assert (G3 : forall p out, completes x tag (PSelect mbox p) (l4 ++ l5 ++ l6 ++ l7 ++ l8 ++ r8) out ->
               completes x tag (PSelect mbox p) (l3 ++ l4 ++ l5 ++ l6 ++ l7 ++ l8 ++ r8) out).
  { intros p out H. destruct rev2.
    - inversion H3. exact H.
    - eapply completes_untagged; [eapply recent_line; [|exact H3]; reflexivity|exact (num_line_nonnil _ _ _ H3)|reflexivity|exact H]. }
  apply G3; clear G3 H3.
  (* UIDVALIDITY, UIDNEXT *)
  eapply cond_step; [| |exact H4|]; [cbn [wf_code negb andb]; exact Huv|vm_compute; reflexivity|].
  cbn [norm_code apply_untagged sl_flags sl_permflags sl_num sl_uidnext sl_uidvalidity sl_list].
  eapply cond_step; [| |exact H5|]; [cbn [wf_code negb andb]; exact Hun|vm_compute; reflexivity|].
  cbn [norm_code apply_untagged sl_flags sl_permflags sl_num sl_uidnext sl_uidvalidity sl_list].
  (* FLAGS *)
  eapply completes_untagged; [eapply flags_line; exact H6|unfold w_flags_line in H6; nonnil_ws|reflexivity|].
  cbn [apply_untagged sl_flags sl_permflags sl_num sl_uidnext sl_uidvalidity sl_list].
  (* PERMANENTFLAGS *)
  eapply cond_step; [| |exact H7|]; [reflexivity|vm_compute; reflexivity|].
  cbn [norm_code apply_untagged sl_flags sl_permflags sl_num sl_uidnext sl_uidvalidity sl_list].
  (* tagged *)
  assert (G9 : forall p, completes x tag (PSelect mbox p) r8 (Done (PSelect mbox p) OKb)).
  { intros p. change (PSelect mbox p) with (apply_tagged (PSelect mbox p) (COther (s2b (if readonly then "READ-ONLY" else "READ-WRITE")))) at 2.
    destruct readonly; (eapply tagged_final; [exact Ht| | |exact Hs]; vm_compute; reflexivity). }
  (* LIST *)
  destruct d as [fl pfl n un uv [l|]]; cbn [sl_flags sl_permflags sl_num sl_uidnext sl_uidvalidity sl_list] in *.
  - apply andb_true_iff in Hl as [Hwl Hsm].
    eapply completes_untagged; [eapply list_line; [|exact H8]; exact Hwl|unfold w_list_line in H8; nonnil_ws|reflexivity|].
    cbn [apply_untagged sl_list]. cbn [norm_list ld_mailbox]. rewrite Hsm. cbn [andb].
    apply G9.
  - inversion H8. apply G9.
Qed.

(* ---------------------------------------------------------------------------------------- *)
(* SEARCH: adding the numbers of a canonical static set in increasing order rebuilds it     *)

Lemma rmerge_succ : forall a c, a <> 0 -> a <= c -> c + 1 < M32 ->
  rmerge (a, c) (c + 1, c + 1) = ((a, c + 1), true).
Proof.
  intros a c Ha Hac Hc. rewrite M32_eq in Hc. unfold rmerge, range_eqb. cbn [fst snd]. rewrite M32_eq, MAX32_eq.
  replace (a =? c + 1) with false by (symmetry; apply N.eqb_neq; lia).
  cbn [andb].
  replace (a =? 0) with false by (symmetry; apply N.eqb_neq; lia).
  replace (c + 1 =? 0) with false by (symmetry; apply N.eqb_neq; lia).
  cbn [negb andb].
  replace (c + 1 <? a) with false by (symmetry; apply N.ltb_ge; lia).
  replace (c + 1 <=? c) with false by (symmetry; apply N.leb_gt; lia).
  replace (c =? 0) with false by (symmetry; apply N.eqb_neq; lia).
  cbn [andb orb].
  rewrite N.mod_small by lia. rewrite N.leb_refl. reflexivity.
Qed.

Lemma add_num_extend : forall (pre : nset) a c, a <> 0 -> a <= c -> canon (pre ++ [(a, c + 1)]) = true ->
  add_num (pre ++ [(a, c)]) (c + 1) = Some (pre ++ [(a, c + 1)]).
Proof.
  intros pre a c Ha Hac Hc.
  assert (Hw : wf_range (a, c + 1) = true) by (apply (canon_wf _ _ Hc), in_or_app; right; left; reflexivity).
  assert (Hc1 : c + 1 < M32) by (rg_unfold; lia).
  assert (Hw' : wf_range (a, c) = true) by (rg_unfold; lia).
  assert (Hc' : canon (pre ++ [(a, c)]) = true) by (apply (canon_snoc_replace pre (a, c + 1) (a, c) Hc Hw'); reflexivity).
  assert (Hff : ff (pre ++ [(a, c)]) (c + 1) = S (length pre)).
  { rewrite <- len_snoc with (x := (a, c)). apply ff_all. intros r Hr. apply in_app_or in Hr as [Hr|[<-|[]]].
    - destruct (canon_In_snoc pre (a, c) r Hc' Hr) as [Hwr Hl]. destruct r as [ra rb]. rg_unfold. lia.
    - rg_unfold. lia. }
  unfold add_num. etransitivity; [exact (insert_eqS pre (a, c) [] (c + 1, c + 1) Hc' Hff)|].
  rewrite (rmerge_succ a c Ha Hac Hc1). reflexivity.
Qed.

Lemma add_nums_app : forall l1 l2 s,
  add_nums s (l1 ++ l2) = match add_nums s l1 with Some s' => add_nums s' l2 | None => None end.
Proof.
  induction l1 as [|n l1 IH]; intros l2 s; cbn [app add_nums]; [reflexivity|].
  destruct (add_num s n); [apply IH|reflexivity].
Qed.

Lemma add_nums_run : forall m (pre : nset) a, a <> 0 -> canon (pre ++ [(a, a + N.of_nat m)]) = true ->
  add_nums pre (map (fun i => a + N.of_nat i) (seq 0 (S m))) = Some (pre ++ [(a, a + N.of_nat m)]).
Proof.
  induction m as [|m IH]; intros pre a Ha Hc.
  - cbn [seq map add_nums]. change (N.of_nat 0) with 0 in *. rewrite N.add_0_r in *.
    unfold add_num. rewrite (insert_snoc pre (a, a) Hc). reflexivity.
  - rewrite seq_S, map_app, add_nums_app.
    assert (Hw : wf_range (a, a + N.of_nat (S m)) = true) by (apply (canon_wf _ _ Hc), in_or_app; right; left; reflexivity).
    assert (Hw' : wf_range (a, a + N.of_nat m) = true) by (rg_unfold; lia).
    rewrite IH; [|exact Ha|apply (canon_snoc_replace pre _ _ Hc Hw'); reflexivity].
    cbn [map add_nums]. replace (a + N.of_nat (0 + S m)) with (a + N.of_nat m + 1) by lia.
    replace (a + N.of_nat (S m)) with (a + N.of_nat m + 1) in * by lia.
    rewrite add_num_extend; [reflexivity|exact Ha|lia|exact Hc].
Qed.

Lemma add_nums_canon : forall (s pre : nset) l, canon (pre ++ s) = true -> nums s = NumsOk l ->
  add_nums pre l = Some (pre ++ s).
Proof.
  induction s as [|[a b] s IH]; intros pre l Hc Hn.
  - cbn [nums] in Hn. inversion Hn. rewrite app_nil_r. reflexivity.
  - cbn [nums] in Hn. destruct ((a =? 0) || (b =? 0)) eqn:E0; [discriminate Hn|].
    apply orb_false_iff in E0 as [Ea Eb]. apply N.eqb_neq in Ea, Eb.
    destruct (nums s) as [l'|] eqn:En; [|discriminate Hn]. inversion Hn; subst l.
    pose proof Hc as Hc1. rewrite canon_app in Hc1. apply andb_true_iff in Hc1 as [Hc1 _].
    apply andb_true_iff in Hc1 as [Hc1 _].
    assert (Hw : wf_range (a, b) = true) by (apply (canon_wf _ _ Hc1), in_or_app; right; left; reflexivity).
    assert (Hab : a <= b) by (rg_unfold; lia).
    rewrite add_nums_app. unfold nums_range.
    replace (N.to_nat (b + 1 - a)) with (S (N.to_nat (b - a))) by lia.
    assert (Eb' : a + N.of_nat (N.to_nat (b - a)) = b) by lia.
    rewrite add_nums_run; [|exact Ea|rewrite Eb'; exact Hc1].
    rewrite Eb'. rewrite (IH (pre ++ [(a, b)]) l'); [|rewrite <- app_assoc; exact Hc|reflexivity].
    rewrite <- app_assoc. reflexivity.
Qed.

Lemma search_cmd : forall x rev2 extended uid tag o d bytes,
  wf_tag tag = true -> wf_search d = true -> srv_search rev2 extended uid tag o d = Some bytes ->
  client x tag init_search bytes = Done (PSearch (norm_search rev2 extended o d)) OKb.
Proof.
  intros x rev2 extended uid tag o d bytes Ht Hw Hs. unfold srv_search in Hs.
  apply wcat_some in Hs as (l1 & l2 & H1 & H2 & ->).
  apply completes_client.
  assert (Hfin : forall sd, completes x tag (PSearch sd) l2 (Done (PSearch sd) OKb)).
  { intros sd. eapply completed_line; [exact Ht| |exact H2]; destruct uid; vm_compute; reflexivity. }
  unfold w_search_resp in H1. unfold norm_search.
  destruct (rev2 || extended).
  - eapply completes_untagged.
    + eapply esearch_line; [exact Ht|exact Hw|exact H1].
    + unfold w_esearch in H1. destruct (sr_all d); [nonnil_ws|discriminate H1].
    + reflexivity.
    + unfold init_search. cbn [apply_untagged es_tag es_data]. rewrite bytes_eqb_refl, orb_true_r.
      apply Hfin.
  - unfold wf_search in Hw. destruct (sr_all d) as [s|] eqn:Es; [|discriminate Hw].
    apply andb_true_iff in Hw as [Hw _]. apply andb_true_iff in Hw as [Hw _]. apply andb_true_iff in Hw as [Hw _].
    apply andb_true_iff in Hw as [Hc Hd]. apply negb_true_iff in Hd.
    destruct (search_line x s l1 l2 Hc Hd H1) as (l & Hn & Hr).
    eapply completes_untagged.
    + exact Hr.
    + unfold w_search in H1. rewrite Hn in H1. nonnil_ws.
    + reflexivity.
    + unfold init_search. cbn [apply_untagged sr_all sr_uid sr_min sr_max sr_count].
      rewrite (add_nums_canon s [] l Hc Hn). cbn [app]. apply Hfin.
Qed.

(* ---------------------------------------------------------------------------------------- *)
(* LIST, with LIST-STATUS pairing                                                           *)

Definition flush (pend : option list_data) : list list_data :=
  match pend with Some pd => [pd] | None => [] end.

Lemma wf_list_none : forall rs d, wf_list rs d = true -> wf_list None d = true.
Proof.
  intros rs d H. unfold wf_list in *. apply andb_true_iff in H as [H _]. rewrite H. reflexivity.
Qed.

Lemma list_step : forall x q tag p d bs rest out, wf_list None d = true -> w_list_line q d = Some bs ->
  completes x tag (apply_untagged tag p (RList (norm_list None d))) rest out ->
  completes x tag p (bs ++ rest) out.
Proof.
  intros x q tag p d bs rest out Hw Hs H. eapply completes_untagged.
  - eapply list_line; eassumption.
  - unfold w_list_line in Hs. nonnil_ws.
  - reflexivity.
  - exact H.
Qed.

Lemma list_loop_none : forall x q tag l out bs rest outc,
  forallb (wf_list None) l = true -> w_concat (w_list_resp q None) l = Some bs ->
  completes x tag (PList false None (out ++ map (norm_list None) l)) rest outc ->
  completes x tag (PList false None out) (bs ++ rest) outc.
Proof.
  induction l as [|d l IH]; intros out bs rest outc Hw Hs Hc.
  - cbn [w_concat] in Hs. inversion Hs. cbn [map] in Hc. rewrite app_nil_r in Hc. exact Hc.
  - cbn [w_concat] in Hs. apply wcat_some in Hs as (l1 & l2 & H1 & H2 & ->).
    unfold w_list_resp in H1. apply wcat_some in H1 as (l1a & l1b & H1a & H1b & ->).
    inversion H1b. rewrite app_nil_r.
    cbn [forallb] in Hw. apply andb_true_iff in Hw as [Hd Hw].
    rewrite <- app_assoc. eapply list_step; [exact Hd|exact H1a|].
    cbn [apply_untagged]. apply (IH _ _ _ _ Hw H2).
    cbn [map] in Hc. rewrite <- app_assoc. exact Hc.
Qed.

Lemma list_loop_some : forall x q o tag l pend out bs rest,
  forallb (wf_list (Some o)) l = true -> w_concat (w_list_resp q (Some o)) l = Some bs ->
  exists pend' out', out' ++ flush pend' = (out ++ flush pend) ++ map (norm_list (Some o)) l /\
    forall outc, completes x tag (PList true pend' out') rest outc ->
                 completes x tag (PList true pend out) (bs ++ rest) outc.
Proof.
  induction l as [|d l IH]; intros pend out bs rest Hw Hs.
  - cbn [w_concat] in Hs. inversion Hs. exists pend, out. split; [cbn [map]; rewrite app_nil_r; reflexivity|].
    intros outc H. exact H.
  - cbn [w_concat] in Hs. apply wcat_some in Hs as (l1 & l2 & H1 & H2 & ->).
    unfold w_list_resp in H1. apply wcat_some in H1 as (l1a & l1b & H1a & H1b & ->).
    cbn [forallb] in Hw. apply andb_true_iff in Hw as [Hd Hw].
    pose proof (wf_list_none _ _ Hd) as Hd0.
    destruct (ld_status d) as [sd|] eqn:Esd.
    + assert (Hsd : wf_status sd = true /\ norm_mailbox (sd_mailbox sd) = norm_mailbox (ld_mailbox d)).
      { unfold wf_list in Hd. rewrite Esd in Hd. apply andb_true_iff in Hd as [_ Hd].
        apply andb_true_iff in Hd as [Hd1 Hd2]. apply bytes_eqb_true_iff in Hd2. split; assumption. }
      destruct Hsd as [Hsd Hmb].
      destruct (IH None ((out ++ flush pend) ++ [norm_list (Some o) d]) l2 rest Hw H2) as (pend' & out' & Heq & Hk).
      exists pend', out'. split.
      * rewrite Heq. cbn [flush map]. rewrite app_nil_r, <- !app_assoc. reflexivity.
      * intros outc H. rewrite <- !app_assoc. eapply list_step; [exact Hd0|exact H1a|].
        cbn [apply_untagged].
        eapply completes_untagged.
        -- eapply status_line; [exact Hsd|exact H1b].
        -- unfold w_status in H1b. nonnil_ws.
        -- reflexivity.
        -- cbn [apply_untagged]. cbn [norm_list norm_status ld_mailbox sd_mailbox]. rewrite Hmb, bytes_eqb_refl.
           replace (with_status _ _) with (norm_list (Some o) d).
           ++ apply Hk. exact H.
           ++ unfold with_status, norm_list. cbn [ld_attrs ld_delim ld_mailbox ld_childinfo ld_oldname]. rewrite Esd. reflexivity.
    + inversion H1b. rewrite app_nil_r.
      destruct (IH (Some (norm_list (Some o) d)) (out ++ flush pend) l2 rest Hw H2) as (pend' & out' & Heq & Hk).
      exists pend', out'. split.
      * rewrite Heq. cbn [flush map]. rewrite <- !app_assoc. reflexivity.
      * intros outc H. rewrite <- !app_assoc. eapply list_step; [exact Hd0|exact H1a|].
        cbn [apply_untagged].
        replace (norm_list None d) with (norm_list (Some o) d) by (unfold norm_list; rewrite Esd; reflexivity).
        apply Hk. exact H.
Qed.

Lemma list_cmd : forall x q rs tag l bytes,
  wf_tag tag = true -> forallb (wf_list rs) l = true -> srv_list q rs tag l = Some bytes ->
  client x tag (init_list (has_status rs)) bytes = Done (PList (has_status rs) None (map (norm_list rs) l)) OKb.
Proof.
  intros x q rs tag l bytes Ht Hw Hs. unfold srv_list in Hs.
  apply wcat_some in Hs as (l1 & l2 & H1 & H2 & ->).
  apply completes_client. unfold init_list. destruct rs as [o|]; cbn [has_status].
  - destruct (list_loop_some x q o tag l None [] l1 l2 Hw H1) as (pend' & out' & Heq & Hk).
    apply Hk. cbn [flush app] in Heq. rewrite <- Heq.
    replace (PList true None (out' ++ flush pend')) with (apply_tagged (PList true pend' out') CNone)
      by (destruct pend'; cbn [apply_tagged flush]; rewrite ?app_nil_r; reflexivity).
    eapply completed_line; [exact Ht| |exact H2]; vm_compute; reflexivity.
  - eapply list_loop_none; [exact Hw|exact H1|]. cbn [app].
    eapply completed_line; [exact Ht| |exact H2]; vm_compute; reflexivity.
Qed.

(* ---------------------------------------------------------------------------------------- *)
(* FETCH / UID FETCH                                                                        *)

Definition is_cuid (i : citem) : bool := match i with CUid _ => true | _ => false end.
Definition is_fuid (i : fitem) : bool := match i with FUid _ => true | _ => false end.

Lemma uid_route_const : forall items count uid h, existsb is_cuid items = false ->
  uid_at_routing items count uid h = uid.
Proof.
  induction items as [|i items IH]; intros count uid h H; [reflexivity|].
  cbn [existsb] in H. apply orb_false_iff in H as [Hi H].
  cbn [uid_at_routing].
  assert (E : match i with CUid n => n | _ => uid end = uid) by (destruct i; try reflexivity; discriminate Hi).
  rewrite E. destruct (h || carries_literal i || Nat.ltb 32 (S count)).
  - destruct (uid =? 0); [apply IH; exact H|reflexivity].
  - apply IH; exact H.
Qed.

(* items before the UID do not decide the routing: they are handed over or held back *)
Lemma uid_route_skip : forall pre l count h, existsb is_cuid pre = false ->
  exists count' h', uid_at_routing (pre ++ l) count 0 h = uid_at_routing l count' 0 h'.
Proof.
  induction pre as [|i pre IH]; intros l count h H; [exists count, h; reflexivity|].
  cbn [existsb] in H. apply orb_false_iff in H as [Hi H].
  cbn [app uid_at_routing].
  assert (E : match i with CUid n => n | _ => 0 end = 0) by (destruct i; try reflexivity; discriminate Hi).
  rewrite E. change (0 =? 0) with true. cbv iota.
  destruct (h || carries_literal i || Nat.ltb 32 (S count)); apply IH; exact H.
Qed.

Lemma norm_items_no_cuid : forall nonext extd rest, existsb is_fuid rest = false ->
  existsb is_cuid (norm_items nonext extd rest) = false.
Proof.
  induction rest as [|i rest IH]; intros H; [reflexivity|].
  cbn [existsb] in H. apply orb_false_iff in H as [Hi H].
  unfold norm_items. cbn [flat_map]. rewrite existsb_app. fold (norm_items nonext extd rest).
  rewrite (IH H), orb_false_r.
  destruct i; try reflexivity; [discriminate Hi|].
  cbn [norm_item]. destruct nonext, extd; reflexivity.
Qed.

Lemma norm_item_no_cuid : forall nonext extd i, is_fuid i = false ->
  existsb is_cuid (norm_item nonext extd i) = false.
Proof.
  intros nonext extd i H. destruct i; try reflexivity; [discriminate H|].
  cbn [norm_item]. destruct nonext, extd; reflexivity.
Qed.

Lemma uid_route_found : forall nonext extd items count h u, the_uid items = Some u -> u <> 0 ->
  uid_at_routing (norm_items nonext extd items) count 0 h = u.
Proof.
  induction items as [|i items IH]; intros count h u H Hu; [discriminate H|].
  unfold norm_items. cbn [flat_map]. fold (norm_items nonext extd items).
  destruct (is_fuid i) eqn:Ei.
  - destruct i; try discriminate Ei. cbn [the_uid] in H. fold is_fuid in H.
    destruct (existsb is_fuid items) eqn:E; [discriminate H|]. inversion H; subst u.
    cbn [norm_item app uid_at_routing]. apply N.eqb_neq in Hu. rewrite Hu.
    destruct (h || carries_literal (CUid n) || Nat.ltb 32 (S count)); [reflexivity|].
    apply uid_route_const. apply norm_items_no_cuid. exact E.
  - assert (H' : the_uid items = Some u) by (destruct i; try exact H; discriminate Ei).
    destruct (uid_route_skip (norm_item nonext extd i) (norm_items nonext extd items) count h
                (norm_item_no_cuid nonext extd i Ei)) as (count' & h' & ->).
    apply IH; assumption.
Qed.

Lemma fetch_key : forall nonext extd uid seq items k, msg_key uid (seq, items) = Some k -> k <> 0 ->
  (if uid then uid_at_routing (norm_items nonext extd items) 0 0 false else seq) = k.
Proof.
  intros nonext extd uid seq items k H Hk. unfold msg_key in H. cbn [fst snd] in H.
  destruct uid; [|inversion H; reflexivity].
  apply uid_route_found; assumption.
Qed.

Lemma keys_of_cons : forall uid m msgs, keys_of uid (m :: msgs) =
  match msg_key uid m, keys_of uid msgs with Some k, Some l => Some (k :: l) | _, _ => None end.
Proof. reflexivity. Qed.

Lemma fetch_apply : forall tag (uid : bool) req recv acc (seq : N) items k recv',
  (if uid then uid_at_routing items 0 0 false else seq) = k -> k <> 0 ->
  recv_num req recv k = Some (true, recv') ->
  apply_untagged tag (PFetch uid req recv acc) (RFetch seq items) =
  PFetch uid req recv' (acc ++ [(seq, items)]).
Proof.
  intros tag uid req recv acc seq items k recv' Hk Hk0 Hr. cbn [apply_untagged].
  rewrite Hk. apply N.eqb_neq in Hk0. rewrite Hk0, Hr. reflexivity.
Qed.

Lemma recv_num_new : forall req recv k, canon req = true -> canon recv = true -> k <> 0 -> k < M32 ->
  den req k = true -> den recv k = false ->
  exists recv', recv_num req recv k = Some (true, recv') /\ canon recv' = true /\
    forall q, q < M32 -> den recv' q = den recv q || rden (k, k) q.
Proof.
  intros req recv k Hcq Hcr Hk0 Hk Hdq Hdr.
  destruct (insert_spec recv (k, k) (wf_single k Hk) Hcr) as (recv' & Hi & Hc' & Hd').
  exists recv'. split; [|split; assumption].
  unfold recv_num. rewrite (contains_spec req k Hcq Hk), (contains_spec recv k Hcr Hk), Hdq, Hdr.
  apply N.eqb_neq in Hk0. rewrite Hk0. cbn [negb andb]. unfold add_num. rewrite Hi. reflexivity.
Qed.

Lemma fetch_loop : forall x q nonext extd tag uid req rest msgs ks recv acc bs,
  ext_ok x -> canon req = true ->
  forallb (fun m => (0 <? fst m) && u32 (fst m) && forallb (wf_item x nonext extd) (snd m)) msgs = true ->
  keys_of uid msgs = Some ks -> nodup_n ks = true ->
  forallb (fun k => (0 <? k) && u32 k && den req k) ks = true ->
  canon recv = true -> (forall k, In k ks -> den recv k = false) ->
  w_concat (fun m => w_fetch x q nonext extd (fst m) (snd m)) msgs = Some bs ->
  exists recv', forall outc,
    completes x tag (PFetch uid req recv' (acc ++ norm_msgs nonext extd msgs)) rest outc ->
    completes x tag (PFetch uid req recv acc) (bs ++ rest) outc.
Proof.
  intros x q nonext extd tag uid req rest. induction msgs as [|[seq items] msgs IH];
    intros ks recv acc bs Hx Hcq Hwf Hks Hnd Hreq Hcr Hnew Hs.
  - cbn [w_concat] in Hs. inversion Hs. exists recv. intros outc H. cbn [norm_msgs map] in H.
    rewrite app_nil_r in H. exact H.
  - cbn [w_concat fst snd] in Hs. apply wcat_some in Hs as (l1 & l2 & H1 & H2 & ->).
    rewrite keys_of_cons in Hks. destruct (msg_key uid (seq, items)) as [k|] eqn:Ek; [|discriminate Hks].
    destruct (keys_of uid msgs) as [ks'|] eqn:Eks; [|discriminate Hks]. inversion Hks; subst ks. clear Hks.
    cbn [forallb fst snd] in Hwf. apply andb_true_iff in Hwf as [Hm Hwf].
    apply andb_true_iff in Hm as [Hm Hit]. apply andb_true_iff in Hm as [Hs0 Hs32]. apply N.ltb_lt in Hs0.
    cbn [nodup_n] in Hnd. apply andb_true_iff in Hnd as [Hnk Hnd]. apply negb_true_iff in Hnk.
    cbn [forallb] in Hreq. apply andb_true_iff in Hreq as [Hk Hreq].
    apply andb_true_iff in Hk as [Hk Hkd]. apply andb_true_iff in Hk as [Hk0 Hk32].
    apply N.ltb_lt in Hk0. unfold u32 in Hk32. apply N.ltb_lt in Hk32. rewrite <- M32_eq in Hk32.
    assert (Hk0' : k <> 0) by lia.
    destruct (recv_num_new req recv k Hcq Hcr Hk0' Hk32 Hkd (Hnew k (or_introl eq_refl)))
      as (recv1 & Hr1 & Hc1 & Hd1).
    destruct (IH ks' recv1 (acc ++ [(seq, norm_items nonext extd items)]) l2 Hx Hcq Hwf eq_refl Hnd Hreq Hc1)
      as (recv' & Hrec); [|exact H2|].
    + intros k' Hin.
      assert (Hk' : (0 <? k') && u32 k' && den req k' = true) by (rewrite forallb_forall in Hreq; apply Hreq; exact Hin).
      apply andb_true_iff in Hk' as [Hk' _]. apply andb_true_iff in Hk' as [Hk'0 Hk'32].
      apply N.ltb_lt in Hk'0. unfold u32 in Hk'32. apply N.ltb_lt in Hk'32. rewrite <- M32_eq in Hk'32.
      rewrite (Hd1 k' Hk'32), (Hnew k' (or_intror Hin)). cbn [orb].
      assert (Hne : k <> k').
      { intros ->. assert (existsb (N.eqb k') ks' = true) as C; [|congruence].
        apply existsb_exists. exists k'. split; [exact Hin|apply N.eqb_refl]. }
      rewrite M32_eq in *. rg_unfold.
      replace (k' =? 0) with false by (symmetry; apply N.eqb_neq; lia). lia.
    + exists recv'. intros outc H. rewrite <- app_assoc. eapply completes_untagged.
      * eapply fetch_line; [exact Hx|exact (xo_idate_plain x Hx)|exact Hs0|exact Hs32|exact Hit|exact H1].
      * exact (fetch_line_nonnil _ _ _ _ _ _ _ H1).
      * reflexivity.
      * rewrite (fetch_apply tag uid req recv acc seq _ k recv1 (fetch_key nonext extd uid seq items k Ek Hk0') Hk0' Hr1).
        apply Hrec. cbn [norm_msgs map fst snd] in H. rewrite <- app_assoc. exact H.
Qed.

Lemma fetch_cmd : forall x q nonext extd tag uid req msgs bytes,
  ext_ok x -> wf_tag tag = true -> wf_fetch x nonext extd uid req msgs = true ->
  srv_fetch x q nonext extd tag uid msgs = Some bytes ->
  exists recv, client x tag (init_fetch uid req) bytes =
               Done (PFetch uid req recv (norm_msgs nonext extd msgs)) OKb.
Proof.
  intros x q nonext extd tag uid req msgs bytes Hx Ht Hw Hs. unfold srv_fetch in Hs.
  apply wcat_some in Hs as (l1 & l2 & H1 & H2 & ->).
  unfold wf_fetch in Hw. apply andb_true_iff in Hw as [Hw Hk]. apply andb_true_iff in Hw as [Hcq Hwf].
  destruct (keys_of uid msgs) as [ks|] eqn:Eks; [|discriminate Hk].
  apply andb_true_iff in Hk as [Hnd Hreq].
  destruct (fetch_loop x q nonext extd tag uid req l2 msgs ks [] [] l1 Hx Hcq Hwf Eks Hnd Hreq canon_nil
              (fun k _ => den_nil k) H1) as (recv' & Hrec).
  exists recv'. apply completes_client. unfold init_fetch. apply Hrec. cbn [app].
  eapply completed_line; [exact Ht| |exact H2]; destruct uid; vm_compute; reflexivity.
Qed.
