(* Proofs/ClientConnProofs.v — C12 / C10 / C13: completion bookkeeping of the client. *)
From Coq Require Import Lia Permutation.
From Coq Require Import ZifyN ZifyNat ZifyBool.
From GoImap.Base Require Import Bytes.
From GoImap.Model Require Import ClientConn.
Open Scope N_scope.

Definition pending_tags (c : client) : list N := map p_tag (c_pending c).
Definition done_tags (c : client) : list N := map fst (c_done c).

(* ------------------------------------------------------------------ helpers *)

Lemma run_snoc : forall evs e, run (evs ++ [e]) = step (run evs) e.
Proof. intros; unfold run; rewrite fold_left_app; reflexivity. Qed.

Lemma run_app_cons : forall evs e evs',
  run (evs ++ e :: evs') = fold_left step evs' (step (run evs) e).
Proof. intros; unfold run; rewrite fold_left_app; reflexivity. Qed.

Lemma take_tag_spec : forall t l p rest, take_tag t l = Some (p, rest) ->
  p_tag p = t /\ Permutation (map p_tag l) (t :: map p_tag rest).
Proof.
  induction l as [|q r IH]; simpl; intros p rest H; [discriminate|].
  destruct (p_tag q =? t) eqn:E.
  - inversion H; subst q r. apply N.eqb_eq in E. split; [exact E|]. rewrite E. apply Permutation_refl.
  - destruct (take_tag t r) as [[q' r']|] eqn:T; [|discriminate].
    inversion H; subst q' rest. destruct (IH _ _ eq_refl) as [A B]. split; [exact A|].
    simpl. eapply perm_trans; [apply perm_skip; exact B| apply perm_swap].
Qed.

Lemma upd_first_tags : forall f g, (forall p, p_tag (g p) = p_tag p) ->
  forall l l', upd_first f g l = Some l' -> map p_tag l' = map p_tag l.
Proof.
  intros f g Hg; induction l as [|q r IH]; simpl; intros l' H; [discriminate|].
  destruct (f q).
  - inversion H; subst l'; simpl. now rewrite Hg.
  - destruct (upd_first f g r) eqn:U; [|discriminate]. inversion H; subst l'; simpl.
    now rewrite (IH _ eq_refl).
Qed.

(* the possible shapes of one step *)
Definition shapeU (c c' : client) : Prop :=
  pending_tags c' = pending_tags c /\ c_done c' = c_done c /\ c_tag c' = c_tag c /\
  c_closed c' = c_closed c /\ c_state c' = c_state c /\ (c_mbox c' = None <-> c_mbox c = None).
Definition shapeA (c c' : client) : Prop :=
  pending_tags c' = pending_tags c /\ c_done c' = c_done c /\ c_tag c' = c_tag c /\ c_closed c' = false.
Definition shapeB (c c' : client) : Prop :=
  pending_tags c' = pending_tags c ++ [c_tag c + 1] /\ c_done c' = c_done c /\
  c_tag c' = c_tag c + 1 /\ c_closed c' = false.
Definition shapeC (c c' : client) : Prop :=
  exists t s p rest, take_tag t (c_pending c) = Some (p, rest) /\ c_pending c' = rest /\
    c_done c' = (t, s) :: c_done c /\ c_tag c' = c_tag c /\ c_closed c' = false.
Definition shapeD (c c' : client) : Prop :=
  c_pending c' = [] /\ c_done c' = rev (map (fun p => (p_tag p, 3)) (c_pending c)) ++ c_done c /\
  c_tag c' = c_tag c /\ c_closed c' = true.
Definition shapeE (c c' : client) : Prop :=
  c_pending c' = [] /\ c_done c' = (c_tag c + 1, 3) :: c_done c /\ c_tag c' = c_tag c + 1 /\
  c_closed c' = true.

Definition uni (e : cev) : Prop :=
  match e with
  | EvExists _ | EvExpunge _ | EvFlags _ | EvPermFlags _ | EvOther
  | EvListData _ | EvSearchData _ => True
  | _ => False
  end.

Lemma shapeU_refl : forall c, shapeU c c.
Proof. intro c; unfold shapeU; repeat split; auto. Qed.

Lemma upd_shapeU : forall c c1 f g, (forall p, p_tag (g p) = p_tag p) -> c_closed c = false ->
  shapeU c c1 ->
  shapeU c (match upd_first f g (c_pending c1) with
            | Some l => mkC (c_state c1) (c_mbox c1) l (c_tag c1) (c_done c1) false
            | None => c1 end).
Proof.
  intros c c1 f g Hg Hc (A & B & C & D & E & F).
  destruct (upd_first f g (c_pending c1)) eqn:U.
  - unfold shapeU, pending_tags in *; simpl. rewrite (upd_first_tags f g Hg _ _ U).
    repeat split; auto; apply F.
  - unfold shapeU; repeat split; auto; apply F.
Qed.

Lemma step_closed_nosubmit : forall c e, c_closed c = true ->
  (forall k, e <> EvSubmit k) -> step c e = c.
Proof.
  intros c e H Hn. unfold step. rewrite H. destruct e; try reflexivity. exfalso; eapply Hn; reflexivity.
Qed.

Lemma step_unilateral : forall c e, uni e -> shapeU c (step c e).
Proof.
  intros c e Hu. destruct (c_closed c) eqn:Hc.
  - rewrite step_closed_nosubmit; auto using shapeU_refl.
    intros k ->. exact Hu.
  - destruct e; simpl in Hu; try contradiction; unfold step; rewrite Hc; cbv zeta;
      try apply shapeU_refl.     (* EvOther, EvListData, EvSearchData: no change *)
    + (* EvExists *)
      destruct (upd_first _ _ (c_pending c)) eqn:U.
      * assert (E : map p_tag l = map p_tag (c_pending c))
          by (eapply upd_first_tags; [|exact U]; intro; reflexivity).
        unfold shapeU, pending_tags; simpl. rewrite E. repeat split; auto.
      * destruct (c_mbox c) eqn:M; [destruct (c_state c =? S_SEL)|]; try apply shapeU_refl.
        unfold shapeU; simpl; rewrite M; repeat split; auto; intro X; discriminate X.
    + (* EvExpunge *)
      apply upd_shapeU; [reflexivity|exact Hc|].
      destruct (c_mbox c) eqn:M; [destruct ((c_state c =? S_SEL) && (0 <? mb_num m))|];
        try apply shapeU_refl.
      unfold shapeU; simpl; rewrite M; repeat split; auto; intro X; discriminate X.
    + (* EvFlags *)
      apply upd_shapeU; [reflexivity|exact Hc|].
      destruct (c_mbox c) eqn:M; [destruct (c_state c =? S_SEL)|]; try apply shapeU_refl.
      unfold shapeU; simpl; rewrite M; repeat split; auto; intro X; discriminate X.
    + (* EvPermFlags *)
      apply upd_shapeU; [reflexivity|exact Hc|].
      destruct (c_mbox c) eqn:M; [destruct (c_state c =? S_SEL)|]; try apply shapeU_refl.
      unfold shapeU; simpl; rewrite M; repeat split; auto; intro X; discriminate X.
Qed.

Lemma on_ok_fields : forall c p,
  c_pending (on_ok c p) = c_pending c /\ c_done (on_ok c p) = c_done c /\
  c_tag (on_ok c p) = c_tag c /\ c_closed (on_ok c p) = c_closed c.
Proof. intros c p; unfold on_ok; destruct (p_kind p); simpl; auto. Qed.

Lemma step_shape_open : forall c e, c_closed c = false ->
  shapeA c (step c e) \/ shapeB c (step c e) \/ shapeC c (step c e) \/ shapeD c (step c e).
Proof.
  intros c e Hc.
  assert (HU : uni e -> shapeA c (step c e)).
  { intro Hu. destruct (step_unilateral c e Hu) as (A & B & C & D & _).
    unfold shapeA; repeat split; auto; congruence. }
  destruct e; try (left; apply HU; exact I); clear HU; unfold step; rewrite Hc.
  - (* EvGreeting *)
    destruct (_ =? 0); [left; unfold shapeA; simpl; auto|].
    destruct (_ =? 1); [left; unfold shapeA; simpl; auto|].
    right; right; right. unfold shapeD; simpl; auto.
  - (* EvSubmit *)
    right; left. unfold shapeB, pending_tags; simpl. rewrite map_app; simpl; auto.
  - (* EvTagged *)
    destruct (take_tag _ (c_pending c)) as [[p rest]|] eqn:T.
    + right; right; left. do 2 eexists; exists p, rest. split; [exact T|].
      destruct (_ =? 0).
      * match goal with |- context [on_ok ?c1 ?q] =>
          destruct (on_ok_fields c1 q) as (A & B & C & D); rewrite A, B, C, D end.
        simpl; auto.
      * simpl; auto.
    + right; right; right. unfold shapeD; simpl; auto.
  - (* EvClosed *)
    left; unfold shapeA; simpl; auto.
  - (* EvConnLost *)
    right; right; right. unfold shapeD; simpl; auto.
Qed.

Lemma step_shape_closed : forall c e, c_closed c = true ->
  step c e = c \/ shapeE c (step c e).
Proof.
  intros c e Hc. unfold step; rewrite Hc. destruct e; auto.
  right; unfold shapeE; simpl; auto.
Qed.

(* ---- the bookkeeping invariant ---- *)
Definition tags (c : client) : list N := pending_tags c ++ done_tags c.

Definition Inv (c : client) : Prop :=
  NoDup (tags c) /\ (forall t, In t (tags c) <-> 1 <= t <= c_tag c) /\
  (c_closed c = true -> c_pending c = []).

Lemma range_perm_same : forall (l l' : list N) n, Permutation l l' ->
  NoDup l -> (forall t, In t l <-> 1 <= t <= n) ->
  NoDup l' /\ (forall t, In t l' <-> 1 <= t <= n).
Proof.
  intros l l' n P ND R. split; [eapply Permutation_NoDup; eauto|].
  intro t. rewrite <- R. split; apply Permutation_in; auto using Permutation_sym.
Qed.

Lemma range_perm_add : forall (l l' : list N) n, Permutation ((n + 1) :: l) l' ->
  NoDup l -> (forall t, In t l <-> 1 <= t <= n) ->
  NoDup l' /\ (forall t, In t l' <-> 1 <= t <= n + 1).
Proof.
  intros l l' n P ND R.
  assert (ND' : NoDup ((n + 1) :: l)).
  { constructor; auto. intro H. apply R in H. lia. }
  split; [eapply Permutation_NoDup; eauto|].
  intro t. split.
  - intro H. apply (Permutation_in _ (Permutation_sym P)) in H. destruct H as [H|H].
    + lia.
    + apply R in H. lia.
  - intro H. apply (Permutation_in _ P).
    destruct (N.eq_dec t (n + 1)) as [->|Hne]; [left; reflexivity|].
    right. apply R. lia.
Qed.

Lemma done_tags_close : forall (l : list pcmd) (d : list (N * N)),
  map fst (rev (map (fun p => (p_tag p, 3)) l) ++ d) = rev (map p_tag l) ++ map fst d.
Proof.
  intros l d. rewrite map_app, map_rev, map_map. reflexivity.
Qed.

Lemma Inv_init : Inv init_client.
Proof.
  unfold Inv, tags, pending_tags, done_tags; simpl. split; [constructor|]. split.
  - intro t; split; [contradiction|lia].
  - discriminate.
Qed.

Lemma Inv_step : forall c e, Inv c -> Inv (step c e).
Proof.
  intros c e (ND & R & CL). destruct (c_closed c) eqn:Hc.
  - destruct (step_shape_closed c e Hc) as [-> | (A & B & C & D)].
    + unfold Inv; rewrite Hc; auto.
    + specialize (CL eq_refl).
      assert (Ht : tags c = done_tags c) by (unfold tags, pending_tags; rewrite CL; reflexivity).
      rewrite Ht in ND, R.
      destruct (range_perm_add (done_tags c) (tags (step c e)) (c_tag c)) as [X Y]; auto.
      { unfold tags, pending_tags, done_tags. rewrite A, B. simpl. apply Permutation_refl. }
      unfold Inv. rewrite C. split; [exact X|]. split; [exact Y|]. intros _; exact A.
  - destruct (step_shape_open c e Hc) as [(A & B & C & D) | [(A & B & C & D) | [(t & s & p & rest & T & A & B & C & D) | (A & B & C & D)]]].
    + (* A *)
      assert (Ht : tags (step c e) = tags c) by (unfold tags, done_tags; rewrite A, B; reflexivity).
      unfold Inv. rewrite Ht, C, D. split; [exact ND|]. split; [exact R|]. intro X; discriminate X.
    + (* B *)
      destruct (range_perm_add (tags c) (tags (step c e)) (c_tag c)) as [X Y]; auto.
      { unfold tags at 2. unfold done_tags at 1. rewrite A, B. fold (done_tags c).
        unfold tags. change ((c_tag c + 1) :: pending_tags c ++ done_tags c)
          with (((c_tag c + 1) :: pending_tags c) ++ done_tags c).
        apply Permutation_app_tail. apply Permutation_cons_append. }
      unfold Inv. rewrite C, D. split; [exact X|]. split; [exact Y|]. intro Z; discriminate Z.
    + (* C *)
      destruct (take_tag_spec _ _ _ _ T) as [_ P].
      destruct (range_perm_same (tags c) (tags (step c e)) (c_tag c)) as [X Y]; auto.
      { unfold tags, pending_tags, done_tags. rewrite A, B. simpl.
        eapply perm_trans; [apply Permutation_app_tail; exact P|].
        simpl. apply Permutation_middle. }
      unfold Inv. rewrite C, D. split; [exact X|]. split; [exact Y|]. intro Z; discriminate Z.
    + (* D *)
      destruct (range_perm_same (tags c) (tags (step c e)) (c_tag c)) as [X Y]; auto.
      { unfold tags, pending_tags, done_tags. rewrite A, B. simpl. rewrite done_tags_close.
        apply Permutation_app_tail. apply Permutation_rev. }
      unfold Inv. rewrite C. split; [exact X|]. split; [exact Y|]. intros _; exact A.
Qed.

Lemma Inv_fold : forall evs c, Inv c -> Inv (fold_left step evs c).
Proof. induction evs as [|e evs IH]; simpl; intros c H; auto using Inv_step. Qed.

Lemma Inv_run : forall evs, Inv (run evs).
Proof. intro evs; unfold run; apply Inv_fold, Inv_init. Qed.

(* ---- completions only grow ---- *)
Lemma done_step : forall c e x, In x (c_done c) -> In x (c_done (step c e)).
Proof.
  intros c e x H. destruct (c_closed c) eqn:Hc.
  - destruct (step_shape_closed c e Hc) as [-> | (A & B & C & D)]; auto.
    rewrite B; right; exact H.
  - destruct (step_shape_open c e Hc) as [(A & B & C & D) | [(A & B & C & D) | [(t & s & p & rest & T & A & B & C & D) | (A & B & C & D)]]];
      rewrite B; auto.
    + right; exact H.
    + apply in_or_app; right; exact H.
Qed.

Lemma done_fold : forall evs c x, In x (c_done c) -> In x (c_done (fold_left step evs c)).
Proof. induction evs as [|e evs IH]; simpl; intros c x H; auto using done_step. Qed.

Lemma closed_step : forall c e, c_closed c = true -> c_pending c = [] ->
  c_closed (step c e) = true /\ c_pending (step c e) = [].
Proof.
  intros c e Hc Hp. destruct (step_shape_closed c e Hc) as [-> | (A & B & C & D)]; auto.
Qed.

Lemma closed_fold : forall evs c, c_closed c = true -> c_pending c = [] ->
  c_closed (fold_left step evs c) = true /\ c_pending (fold_left step evs c) = [].
Proof.
  induction evs as [|e evs IH]; simpl; intros c Hc Hp; auto.
  destruct (closed_step c e Hc Hp) as [A B]. apply IH; auto.
Qed.

(* ---- mailbox summary <-> selected state ---- *)
Definition MInv (c : client) : Prop :=
  c_closed c = false -> (c_mbox c <> None <-> c_state c = S_SEL).

Lemma MInv_set_state : forall c s, s <> S_SEL -> MInv (set_state c s).
Proof.
  intros c s Hs _. simpl. destruct (N.eqb_spec s S_SEL) as [E|E]; [contradiction|].
  split; [intro H; exfalso; apply H; reflexivity | intro H; contradiction].
Qed.

Lemma MInv_step : forall c e, MInv c -> MInv (step c e).
Proof.
  intros c e M. destruct (c_closed c) eqn:Hc.
  - destruct (step_shape_closed c e Hc) as [-> | (A & B & C & D)].
    + exact M.
    + intro H; congruence.
  - specialize (M Hc).
    assert (HU : uni e -> MInv (step c e)).
    { intros Hu _. destruct (step_unilateral c e Hu) as (_ & _ & _ & _ & S & F).
      rewrite S, F. exact M. }
    destruct e; try (apply HU; exact I); clear HU; unfold step; rewrite Hc.
    + (* EvGreeting *)
      destruct (_ =? 0); [apply MInv_set_state; discriminate|].
      destruct (_ =? 1); [apply MInv_set_state; discriminate|].
      intro H; discriminate H.
    + (* EvSubmit *)
      intros _; simpl; exact M.
    + (* EvTagged *)
      destruct (take_tag _ (c_pending c)) as [[p rest]|] eqn:T; [|intro H; discriminate H].
      destruct (_ =? 0); [|intros _; simpl; exact M].
      unfold on_ok. destruct (p_kind p); try (apply MInv_set_state; discriminate);
        try (intros _; simpl; exact M).
      intros _; simpl. split; [reflexivity|discriminate].
    + (* EvClosed *)
      apply MInv_set_state; discriminate.
    + (* EvConnLost *)
      intro H; discriminate H.
Qed.

Lemma MInv_fold : forall evs c, MInv c -> MInv (fold_left step evs c).
Proof. induction evs as [|e evs IH]; simpl; intros c H; auto using MInv_step. Qed.

(* ------------------------------------------------------------------ main results *)

(* Every tag ever issued is, at every moment, either pending exactly once or completed exactly
   once — never both, never twice, never lost — for EVERY event sequence (any server
   behaviour, any point of connection loss). *)
Lemma exactly_once : forall evs, let c := run evs in
  NoDup (pending_tags c ++ done_tags c) /\
  (forall t, In t (pending_tags c ++ done_tags c) <-> 1 <= t <= c_tag c).
Proof.
  intros evs c. destruct (Inv_run evs) as (A & B & _). split; [exact A|exact B].
Qed.

(* tags are fresh: a submission gets the next number *)
Lemma tags_unique : forall evs k, c_closed (run evs) = false ->
  c_tag (run (evs ++ [EvSubmit k])) = c_tag (run evs) + 1 /\
  ~ In (c_tag (run evs) + 1) (pending_tags (run evs) ++ done_tags (run evs)).
Proof.
  intros evs k H. split.
  - rewrite run_snoc. unfold step. rewrite H. reflexivity.
  - intro HI. apply (proj2 (exactly_once evs)) in HI. lia.
Qed.

(* C10: once the connection is lost (EOF, error, timeout, Close) nothing stays pending, and
   a command whose tagged response had not arrived completes with an error, not success *)
Lemma close_completes_all : forall evs evs', let c := run (evs ++ EvConnLost :: evs') in
  c_pending c = [] /\ c_closed c = true /\
  (forall t, In t (pending_tags (run evs)) -> In (t, 3) (c_done c)) /\
  (forall t, 1 <= t <= c_tag c -> In t (done_tags c)).
Proof.
  intros evs evs' c.
  assert (H1 : c_closed (step (run evs) EvConnLost) = true /\
               c_pending (step (run evs) EvConnLost) = [] /\
               (forall t, In t (pending_tags (run evs)) ->
                          In (t, 3) (c_done (step (run evs) EvConnLost)))).
  { destruct (Inv_run evs) as (_ & _ & CL). unfold step.
    destruct (c_closed (run evs)) eqn:Hc.
    - specialize (CL eq_refl). repeat split; auto.
      unfold pending_tags; rewrite CL; simpl; contradiction.
    - simpl. repeat split; auto. intros t Ht. apply in_or_app; left.
      apply -> in_rev. unfold pending_tags in Ht. apply in_map_iff in Ht.
      destruct Ht as (p & <- & Hp). apply in_map_iff. exists p; auto. }
  destruct H1 as (Hc & Hp & Hd).
  assert (Hrun : c = fold_left step evs' (step (run evs) EvConnLost)) by apply run_app_cons.
  destruct (closed_fold evs' _ Hc Hp) as [Hc' Hp'].
  rewrite <- Hrun in Hc', Hp'.
  split; [exact Hp'|]. split; [exact Hc'|]. split.
  - intros t Ht. rewrite Hrun. apply done_fold. apply Hd; exact Ht.
  - intros t Ht. destruct (exactly_once (evs ++ EvConnLost :: evs')) as [_ R].
    fold c in R. apply R in Ht. unfold pending_tags in Ht at 1. rewrite Hp' in Ht. exact Ht.
Qed.

(* completions are never revoked or changed by later events *)
Lemma done_monotone : forall evs e t s, In (t, s) (c_done (run evs)) -> In (t, s) (c_done (run (evs ++ [e]))).
Proof. intros evs e t s H. rewrite run_snoc. apply done_step; exact H. Qed.

(* C12: a tagged response completes its own command with its own status and touches no other
   pending command; a NO or BAD changes neither the state nor the mailbox summary *)
Lemma tagged_own_status : forall evs t s p rest, c_closed (run evs) = false ->
  take_tag t (c_pending (run evs)) = Some (p, rest) ->
  let c' := run (evs ++ [EvTagged t s]) in
  In (t, s) (c_done c') /\ c_pending c' = rest /\
  (s <> 0 -> c_state c' = c_state (run evs) /\ c_mbox c' = c_mbox (run evs)).
Proof.
  intros evs t s p rest Hc T c'. unfold c'. rewrite run_snoc. unfold step. rewrite Hc, T.
  destruct (N.eqb_spec s 0) as [E|E].
  - destruct (on_ok_fields (mkC (c_state (run evs)) (c_mbox (run evs)) rest (c_tag (run evs))
                                ((t, s) :: c_done (run evs)) false) p) as (A & B & _ & _).
    rewrite A, B. simpl. split; [left; reflexivity|]. split; [reflexivity|]. intro; contradiction.
  - simpl. split; [left; reflexivity|]. split; [reflexivity|]. auto.
Qed.

(* unilateral data never completes, adds or removes a command, and never changes the
   connection state (only [CLOSED] and the greeting do) *)
Definition unilateral (e : cev) : bool :=
  match e with
  | EvExists _ | EvExpunge _ | EvFlags _ | EvPermFlags _ | EvOther
  | EvListData _ | EvSearchData _ => true
  | _ => false
  end.
Lemma unilateral_routing : forall evs e, unilateral e = true ->
  let c := run evs in let c' := run (evs ++ [e]) in
  c_done c' = c_done c /\ pending_tags c' = pending_tags c /\ c_state c' = c_state c /\ c_tag c' = c_tag c.
Proof.
  intros evs e Hu c c'. unfold c', c. rewrite run_snoc.
  assert (Hu' : uni e) by (destruct e; simpl in *; try discriminate; exact I).
  destruct (step_unilateral (run evs) e Hu') as (A & B & C & _ & S & _). auto.
Qed.

(* the mailbox summary exists exactly in the selected state (while the connection is up) *)
Lemma mailbox_iff_selected : forall evs, let c := run evs in
  c_closed c = false -> (c_mbox c <> None <-> c_state c = S_SEL).
Proof.
  intros evs c. unfold c, run. apply MInv_fold.
  intros _; simpl. split; [intro H; exfalso; apply H; reflexivity | discriminate].
Qed.
