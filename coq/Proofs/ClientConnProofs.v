(* Proofs/ClientConnProofs.v — C12 / C10 / C13: completion bookkeeping of the client. *)
From Coq Require Import Lia.
From GoImap.Base Require Import Bytes.
From GoImap.Model Require Import ClientConn.
Open Scope N_scope.

Definition pending_tags (c : client) : list N := map p_tag (c_pending c).
Definition done_tags (c : client) : list N := map fst (c_done c).

(* Every tag ever issued is, at every moment, either pending exactly once or completed exactly
   once — never both, never twice, never lost — for EVERY event sequence (any server
   behaviour, any point of connection loss). *)
Lemma exactly_once : forall evs, let c := run evs in
  NoDup (pending_tags c ++ done_tags c) /\
  (forall t, In t (pending_tags c ++ done_tags c) <-> 1 <= t <= c_tag c).
Admitted.

(* tags are fresh: a submission gets the next number *)
Lemma tags_unique : forall evs k, c_closed (run evs) = false ->
  c_tag (run (evs ++ [EvSubmit k])) = c_tag (run evs) + 1 /\
  ~ In (c_tag (run evs) + 1) (pending_tags (run evs) ++ done_tags (run evs)).
Admitted.

(* C10: once the connection is lost (EOF, error, timeout, Close) nothing stays pending, and
   a command whose tagged response had not arrived completes with an error, not success *)
Lemma close_completes_all : forall evs evs', let c := run (evs ++ EvConnLost :: evs') in
  c_pending c = [] /\ c_closed c = true /\
  (forall t, In t (pending_tags (run evs)) -> In (t, 3) (c_done c)) /\
  (forall t, 1 <= t <= c_tag c -> In t (done_tags c)).
Admitted.

(* completions are never revoked or changed by later events *)
Lemma done_monotone : forall evs e t s, In (t, s) (c_done (run evs)) -> In (t, s) (c_done (run (evs ++ [e]))).
Admitted.

(* C12: a tagged response completes its own command with its own status and touches no other
   pending command; a NO or BAD changes neither the state nor the mailbox summary *)
Lemma tagged_own_status : forall evs t s p rest, c_closed (run evs) = false ->
  take_tag t (c_pending (run evs)) = Some (p, rest) ->
  let c' := run (evs ++ [EvTagged t s]) in
  In (t, s) (c_done c') /\ c_pending c' = rest /\
  (s <> 0 -> c_state c' = c_state (run evs) /\ c_mbox c' = c_mbox (run evs)).
Admitted.

(* unilateral data never completes, adds or removes a command, and never changes the
   connection state (only [CLOSED] and the greeting do) *)
Definition unilateral (e : cev) : bool :=
  match e with EvExists _ | EvExpunge _ | EvFlags _ | EvPermFlags _ | EvOther => true | _ => false end.
Lemma unilateral_routing : forall evs e, unilateral e = true ->
  let c := run evs in let c' := run (evs ++ [e]) in
  c_done c' = c_done c /\ pending_tags c' = pending_tags c /\ c_state c' = c_state c /\ c_tag c' = c_tag c.
Admitted.

(* the mailbox summary exists exactly in the selected state (while the connection is up) *)
Lemma mailbox_iff_selected : forall evs, let c := run evs in
  c_closed c = false -> (c_mbox c <> None <-> c_state c = S_SEL).
Admitted.
