(* Proofs/CmdSearch.v — delivery of SEARCH / UID SEARCH: the criteria tree the server rebuilds
   from the keys writeSearchKey sends is the caller's tree (normalised). *)
From GoImap.Base Require Import Bytes.
From GoImap.Model Require Import NumSet NumSetCorr MatchList Utf7 Wire Search ClientWrite CmdDate CmdTypes CmdClient CmdServer.
From GoImap.Proofs Require Import NumSetSpec Utf7Spec WireSpec WireLemmas WireProofs NumSetProofs NumSetText CmdDateProofs CmdSpec CmdPrim.
Require Import ZifyN ZifyNat Lia.
Open Scope N_scope.

(* ================= stage 2 (no bytes): the keys sent rebuild the caller's tree ================= *)

(* ---- induction on the nested criteria tree ---- *)
Section CcritInd.
  Variable Pc : ccrit -> Prop.
  Hypothesis Hcc : forall seqs uids since before ssince sbefore hdr body text flag notflag larger smaller modseq nots ors,
    Forall Pc nots -> Forall (fun p => Pc (fst p) /\ Pc (snd p)) ors ->
    Pc (CC seqs uids since before ssince sbefore hdr body text flag notflag larger smaller modseq nots ors).
  Fixpoint ccrit_ind' (c : ccrit) : Pc c :=
    match c with
    | CC seqs uids since before ssince sbefore hdr body text flag notflag larger smaller modseq nots ors =>
        Hcc seqs uids since before ssince sbefore hdr body text flag notflag larger smaller modseq nots ors
          ((fix go (l : list ccrit) : Forall Pc l :=
              match l with
              | [] => Forall_nil _
              | x :: r => Forall_cons x (ccrit_ind' x) (go r)
              end) nots)
          ((fix go (l : list (ccrit * ccrit)) : Forall (fun p => Pc (fst p) /\ Pc (snd p)) l :=
              match l with
              | [] => Forall_nil _
              | p :: r =>
                  Forall_cons p
                    (match p as p0 return Pc (fst p0) /\ Pc (snd p0) with
                     | (a, b) => conj (ccrit_ind' a) (ccrit_ind' b)
                     end) (go r)
              end) ors)
    end.
End CcritInd.

Definition wf_nots : list ccrit -> Prop :=
  fix all (l : list ccrit) : Prop := match l with [] => True | x :: r => wf_crit x /\ all r end.
Definition wf_ors : list (ccrit * ccrit) -> Prop :=
  fix all (l : list (ccrit * ccrit)) : Prop :=
    match l with [] => True | p :: r => wf_crit (fst p) /\ wf_crit (snd p) /\ all r end.

Lemma wf_crit_eq : forall seqs uids since before ssince sbefore hdr body text flag notflag larger smaller modseq nots ors,
  wf_crit (CC seqs uids since before ssince sbefore hdr body text flag notflag larger smaller modseq nots ors) =
  (Forall wf_seqset seqs /\ Forall wf_uidset uids /\
   wf_date since /\ wf_date before /\ wf_date ssince /\ wf_date sbefore /\
   Forall (fun kv => short (fst kv) /\ short (snd kv)) hdr /\ Forall short body /\ Forall short text /\
   Forall wf_flag flag /\ Forall wf_flag notflag /\
   wf_int64 larger /\ wf_int64 smaller /\ modseq = None /\ wf_nots nots /\ wf_ors ors).
Proof. reflexivity. Qed.

Lemma wf_nots_forall : forall l, wf_nots l -> Forall wf_crit l.
Proof. induction l as [|x l IH]; intros H; [constructor|]. destruct H as [H1 H2]. constructor; auto. Qed.
Lemma wf_ors_forall : forall l, wf_ors l -> Forall (fun p => wf_crit (fst p) /\ wf_crit (snd p)) l.
Proof. induction l as [|x l IH]; intros H; [constructor|]. destruct H as (H1 & H2 & H3). constructor; auto. Qed.

Lemma norm_crit_eq : forall seqs uids since before ssince sbefore hdr body text flag notflag larger smaller modseq nots ors,
  norm_crit (CC seqs uids since before ssince sbefore hdr body text flag notflag larger smaller modseq nots ors) =
  Crit seqs (map norm_uidset uids)
       (norm_day since) (norm_day before) (norm_day ssince) (norm_day sbefore)
       (map norm_hdr hdr) body text
       (map canonical_flag flag) (map canonical_flag notflag)
       larger smaller
       (map norm_crit nots)
       (map (fun p => (norm_crit (fst p), norm_crit (snd p))) ors).
Proof. reflexivity. Qed.

Definition keys_list seqs uids since before ssince sbefore (hdr : list (bytes * bytes)) body text flag notflag larger smaller
    (nots : list ccrit) (ors : list (ccrit * ccrit)) : list skey :=
  map KSeq seqs ++ map (fun u => KUid (norm_uidset u)) uids ++
  date_keys since before KSince KBefore KOn ++
  date_keys ssince sbefore KSentSince KSentBefore KSentOn ++
  map (fun kv => KHeader (fst (norm_hdr kv)) (snd kv)) hdr ++
  map KBody body ++ map KText text ++
  map (fun f => KFlag (canonical_flag f)) flag ++
  map (fun f => KNotFlag (canonical_flag f)) notflag ++
  (if (0 <? larger)%Z then [KLarger larger] else []) ++
  (if (0 <? smaller)%Z then [KSmaller smaller] else []) ++
  map (fun n => KNot (KList (keys_sent n))) nots ++
  map (fun p => KOr (KList (keys_sent (fst p))) (KList (keys_sent (snd p)))) ors.

Lemma keys_sent_eq : forall seqs uids since before ssince sbefore hdr body text flag notflag larger smaller modseq nots ors,
  keys_sent (CC seqs uids since before ssince sbefore hdr body text flag notflag larger smaller modseq nots ors) =
  or_all (keys_list seqs uids since before ssince sbefore hdr body text flag notflag larger smaller nots ors).
Proof. reflexivity. Qed.

(* ---- the effect of each key class ---- *)
Lemma fold_or_all : forall l c, fold_left apply_key (or_all l) c = fold_left apply_key l c.
Proof. intros [|k l] c; [destruct c; reflexivity|reflexivity]. Qed.

Lemma apply_klist : forall ks, apply_key empty_crit (KList ks) = fold_left apply_key ks empty_crit.
Proof. reflexivity. Qed.

Ltac fold_app_tac l :=
  induction l as [|x l IH]; intros; cbn [map fold_left apply_key];
  [rewrite app_nil_r; reflexivity | rewrite IH, <- app_assoc; reflexivity].

Lemma fold_seq : forall l s u si be ss sb h b t f nf la sm n o,
  fold_left apply_key (map KSeq l) (Crit s u si be ss sb h b t f nf la sm n o) =
  Crit (s ++ l) u si be ss sb h b t f nf la sm n o.
Proof. fold_app_tac l. Qed.
Lemma fold_uid : forall (g : numarg -> nset) l s u si be ss sb h b t f nf la sm n o,
  fold_left apply_key (map (fun x => KUid (g x)) l) (Crit s u si be ss sb h b t f nf la sm n o) =
  Crit s (u ++ map g l) si be ss sb h b t f nf la sm n o.
Proof. intros g l. fold_app_tac l. Qed.
Lemma fold_hdr : forall (g : bytes * bytes -> bytes * bytes) l s u si be ss sb h b t f nf la sm n o,
  fold_left apply_key (map (fun x => KHeader (fst (g x)) (snd x)) l) (Crit s u si be ss sb h b t f nf la sm n o) =
  Crit s u si be ss sb (h ++ map (fun x => (fst (g x), snd x)) l) b t f nf la sm n o.
Proof. intros g l. fold_app_tac l. Qed.
Lemma fold_body : forall l s u si be ss sb h b t f nf la sm n o,
  fold_left apply_key (map KBody l) (Crit s u si be ss sb h b t f nf la sm n o) =
  Crit s u si be ss sb h (b ++ l) t f nf la sm n o.
Proof. fold_app_tac l. Qed.
Lemma fold_text : forall l s u si be ss sb h b t f nf la sm n o,
  fold_left apply_key (map KText l) (Crit s u si be ss sb h b t f nf la sm n o) =
  Crit s u si be ss sb h b (t ++ l) f nf la sm n o.
Proof. fold_app_tac l. Qed.
Lemma fold_flag : forall (g : bytes -> bytes) l s u si be ss sb h b t f nf la sm n o,
  fold_left apply_key (map (fun x => KFlag (g x)) l) (Crit s u si be ss sb h b t f nf la sm n o) =
  Crit s u si be ss sb h b t (f ++ map g l) nf la sm n o.
Proof. intros g l. fold_app_tac l. Qed.
Lemma fold_notflag : forall (g : bytes -> bytes) l s u si be ss sb h b t f nf la sm n o,
  fold_left apply_key (map (fun x => KNotFlag (g x)) l) (Crit s u si be ss sb h b t f nf la sm n o) =
  Crit s u si be ss sb h b t f (nf ++ map g l) la sm n o.
Proof. intros g l. fold_app_tac l. Qed.

Lemma fold_not : forall l s u si be ss sb h b t f nf la sm n o,
  Forall (fun x => fold_left apply_key (keys_sent x) empty_crit = norm_crit x) l ->
  fold_left apply_key (map (fun x => KNot (KList (keys_sent x))) l) (Crit s u si be ss sb h b t f nf la sm n o) =
  Crit s u si be ss sb h b t f nf la sm (n ++ map norm_crit l) o.
Proof.
  induction l as [|x l IH]; intros s u si be ss sb h b t f nf la sm n o HF; cbn [map fold_left].
  - rewrite app_nil_r. reflexivity.
  - inversion HF as [|x0 l0 Hx Hl]; subst.
    change (apply_key (Crit s u si be ss sb h b t f nf la sm n o) (KNot (KList (keys_sent x))))
      with (Crit s u si be ss sb h b t f nf la sm (n ++ [apply_key empty_crit (KList (keys_sent x))]) o).
    rewrite apply_klist, Hx, (IH _ _ _ _ _ _ _ _ _ _ _ _ _ _ _ Hl), <- app_assoc. reflexivity.
Qed.

Lemma fold_or : forall l s u si be ss sb h b t f nf la sm n o,
  Forall (fun p => fold_left apply_key (keys_sent (fst p)) empty_crit = norm_crit (fst p) /\
                   fold_left apply_key (keys_sent (snd p)) empty_crit = norm_crit (snd p)) l ->
  fold_left apply_key (map (fun p => KOr (KList (keys_sent (fst p))) (KList (keys_sent (snd p)))) l)
            (Crit s u si be ss sb h b t f nf la sm n o) =
  Crit s u si be ss sb h b t f nf la sm n (o ++ map (fun p => (norm_crit (fst p), norm_crit (snd p))) l).
Proof.
  induction l as [|x l IH]; intros s u si be ss sb h b t f nf la sm n o HF; cbn [map fold_left].
  - rewrite app_nil_r. reflexivity.
  - inversion HF as [|x0 l0 [Hx1 Hx2] Hl]; subst.
    change (apply_key (Crit s u si be ss sb h b t f nf la sm n o)
              (KOr (KList (keys_sent (fst x))) (KList (keys_sent (snd x)))))
      with (Crit s u si be ss sb h b t f nf la sm n
              (o ++ [(apply_key empty_crit (KList (keys_sent (fst x))),
                      apply_key empty_crit (KList (keys_sent (snd x))))])).
    rewrite !apply_klist, Hx1, Hx2, (IH _ _ _ _ _ _ _ _ _ _ _ _ _ _ _ Hl), <- app_assoc. reflexivity.
Qed.

Lemma isince_0_l : forall d, intersect_since 0 d = d. Proof. reflexivity. Qed.
Lemma ibefore_0_l : forall d, intersect_before 0 d = d. Proof. reflexivity. Qed.
Lemma isince_0_r : forall d, intersect_since d 0 = d.
Proof. intros d. unfold intersect_since. destruct (d =? 0)%Z eqn:E; [apply Z.eqb_eq in E; subst|]; reflexivity. Qed.
Lemma ibefore_0_r : forall d, intersect_before d 0 = d.
Proof. intros d. unfold intersect_before. destruct (d =? 0)%Z eqn:E; [apply Z.eqb_eq in E; subst|]; reflexivity. Qed.

Lemma and_date : forall s u si be ss sb h b t f nf n o d1 d2 d3 d4,
  and_ (Crit s u si be ss sb h b t f nf 0 0 n o) (date_crit d1 d2 d3 d4) =
  Crit s u (intersect_since si d1) (intersect_before be d2) (intersect_since ss d3) (intersect_before sb d4)
       h b t f nf 0 0 n o.
Proof. intros. unfold and_, date_crit. rewrite !app_nil_r. reflexivity. Qed.

Lemma and_size : forall s u si be ss sb h b t f nf la sm n o x y,
  and_ (Crit s u si be ss sb h b t f nf la sm n o) (size_crit x y) =
  Crit s u si be ss sb h b t f nf
       (if (la =? 0)%Z || (la <? x)%Z then x else la)
       (if negb (y =? 0)%Z && ((sm =? 0)%Z || (y <? sm)%Z) then y else sm) n o.
Proof.
  intros. unfold and_, size_crit. rewrite !app_nil_r, !isince_0_r, !ibefore_0_r. reflexivity.
Qed.

Lemma fold_dates1 : forall since before s u ss sb h b t f nf n o,
  fold_left apply_key (date_keys since before KSince KBefore KOn)
            (Crit s u 0 0 ss sb h b t f nf 0 0 n o) =
  Crit s u (norm_day since) (norm_day before) ss sb h b t f nf 0 0 n o.
Proof.
  intros. unfold date_keys, norm_day.
  set (d1 := (t_day since * DAYSEC)%Z). set (d2 := (t_day before * DAYSEC)%Z).
  destruct (t_is_zero since); destruct (t_is_zero before); cbn [negb andb app fold_left];
    try destruct (t_day before =? t_day since + 1)%Z eqn:E; cbn [fold_left app];
    try reflexivity;
    change (apply_key ?c (KSince ?d)) with (and_ c (date_crit d 0 0 0));
    change (apply_key ?c (KBefore ?d)) with (and_ c (date_crit 0 d 0 0));
    change (apply_key ?c (KOn ?d)) with (and_ c (date_crit d (d + DAY) 0 0));
    rewrite ?and_date, ?isince_0_l, ?ibefore_0_l, ?isince_0_r, ?ibefore_0_r; try reflexivity.
  apply Z.eqb_eq in E. replace (d1 + DAY)%Z with d2; [reflexivity|].
  subst d1 d2. rewrite E. unfold DAY, DAYSEC. lia.
Qed.

Lemma fold_dates2 : forall since before s u si be h b t f nf n o,
  fold_left apply_key (date_keys since before KSentSince KSentBefore KSentOn)
            (Crit s u si be 0 0 h b t f nf 0 0 n o) =
  Crit s u si be (norm_day since) (norm_day before) h b t f nf 0 0 n o.
Proof.
  intros. unfold date_keys, norm_day.
  set (d1 := (t_day since * DAYSEC)%Z). set (d2 := (t_day before * DAYSEC)%Z).
  destruct (t_is_zero since); destruct (t_is_zero before); cbn [negb andb app fold_left];
    try destruct (t_day before =? t_day since + 1)%Z eqn:E; cbn [fold_left app];
    try reflexivity;
    change (apply_key ?c (KSentSince ?d)) with (and_ c (date_crit 0 0 d 0));
    change (apply_key ?c (KSentBefore ?d)) with (and_ c (date_crit 0 0 0 d));
    change (apply_key ?c (KSentOn ?d)) with (and_ c (date_crit 0 0 d (d + DAY)));
    rewrite ?and_date, ?isince_0_l, ?ibefore_0_l, ?isince_0_r, ?ibefore_0_r; try reflexivity.
  apply Z.eqb_eq in E. replace (d1 + DAY)%Z with d2; [reflexivity|].
  subst d1 d2. rewrite E. unfold DAY, DAYSEC. lia.
Qed.

Lemma fold_sizes : forall larger smaller s u si be ss sb h b t f nf n o,
  wf_int64 larger -> wf_int64 smaller ->
  fold_left apply_key ((if (0 <? larger)%Z then [KLarger larger] else []) ++
                       (if (0 <? smaller)%Z then [KSmaller smaller] else []))
            (Crit s u si be ss sb h b t f nf 0 0 n o) =
  Crit s u si be ss sb h b t f nf larger smaller n o.
Proof.
  intros larger smaller s u si be ss sb h b t f nf n o [Hl _] [Hs _].
  assert (EL : fold_left apply_key (if (0 <? larger)%Z then [KLarger larger] else [])
                 (Crit s u si be ss sb h b t f nf 0 0 n o) =
               Crit s u si be ss sb h b t f nf larger 0 n o).
  { destruct (0 <? larger)%Z eqn:E; cbn [fold_left].
    - change (apply_key ?c (KLarger ?d)) with (and_ c (size_crit d 0)). rewrite and_size. reflexivity.
    - apply Z.ltb_ge in E. replace larger with 0%Z by lia. reflexivity. }
  rewrite fold_left_app, EL.
  destruct (0 <? smaller)%Z eqn:E; cbn [fold_left].
  - change (apply_key ?c (KSmaller ?d)) with (and_ c (size_crit 0 d)). rewrite and_size.
    assert (E1 : (smaller =? 0)%Z = false) by (apply Z.eqb_neq; apply Z.ltb_lt in E; lia).
    rewrite E1. cbn [negb andb orb]. change (0 =? 0)%Z with true. cbn [orb].
    f_equal. destruct (larger =? 0)%Z eqn:E2; cbn [orb].
    + apply Z.eqb_eq in E2. subst. reflexivity.
    + assert (E3 : (larger <? 0)%Z = false) by (apply Z.ltb_ge; lia). rewrite E3. reflexivity.
  - apply Z.ltb_ge in E. replace smaller with 0%Z by lia. reflexivity.
Qed.

Lemma apply_keys_sent_A : forall c, wf_crit c ->
  fold_left apply_key (keys_sent c) empty_crit = norm_crit c.
Proof.
  induction c using ccrit_ind'. intros Hw. rewrite wf_crit_eq in Hw.
  destruct Hw as (_ & _ & _ & _ & _ & _ & _ & _ & _ & _ & _ & Hla & Hsm & _ & Hn & Ho).
  apply wf_nots_forall in Hn. apply wf_ors_forall in Ho.
  rewrite keys_sent_eq, norm_crit_eq, fold_or_all. unfold keys_list, empty_crit.
  rewrite fold_left_app, fold_seq. rewrite fold_left_app, fold_uid.
  rewrite fold_left_app, fold_dates1. rewrite fold_left_app, fold_dates2.
  rewrite fold_left_app, (fold_hdr norm_hdr). rewrite fold_left_app, fold_body. rewrite fold_left_app, fold_text.
  rewrite fold_left_app, fold_flag. rewrite fold_left_app, fold_notflag.
  rewrite app_assoc, fold_left_app, fold_sizes by assumption.
  rewrite fold_left_app, fold_not, fold_or.
  - cbn [app]. reflexivity.
  - rewrite Forall_forall in *. intros p Hp. destruct (H0 p Hp) as [A B]. destruct (Ho p Hp) as [C D]. split; auto.
  - rewrite Forall_forall in *. intros x Hx. apply H; auto.
Qed.


(* ================= stage 1: bytes ================= *)

(* ---- the text of a number set: digits, ':', ',', '*' ---- *)
Definition numstart (c : byte) : bool := is_digit c || beqb c (ch "*").
Definition nsc (c : byte) : bool := is_digit c || beqb c (ch ":") || beqb c (ch ",") || beqb c (ch "*").

Lemma nsc_upper : forall c, nsc c = true -> to_upper_b c = c.
Proof. intros [[] [] [] [] [] [] [] []]; vm_compute; intros H; try discriminate H; reflexivity. Qed.

Lemma numstart_facts : forall c, numstart c = true ->
  beqb c (ch ")") = false /\ beqb c CR_ = false /\ beqb c LF_ = false.
Proof. intros [[] [] [] [] [] [] [] []]; vm_compute; intros H; try discriminate H; repeat split. Qed.

Lemma dec_nsc : forall n, forallb nsc (dec_of_N n) = true.
Proof.
  intros n. apply forallb_forall. intros x Hx. apply digits_dec in Hx. unfold nsc. rewrite Hx. reflexivity.
Qed.

Lemma range_nsc : forall r, forallb nsc (range_to_string r) = true.
Proof.
  intros [a b]. unfold range_to_string.
  destruct (a =? 0); [reflexivity|]. destruct (a =? b); [apply dec_nsc|].
  destruct (b =? 0); rewrite ?forallb_app, ?dec_nsc; reflexivity.
Qed.

Lemma join_nsc : forall l, (forall x, In x l -> forallb nsc x = true) ->
  forallb nsc (join_with (s2b ",") l) = true.
Proof.
  induction l as [|x l IH]; intros H; [reflexivity|].
  destruct l as [|y l]; [apply H; left; reflexivity|].
  rewrite join_cons2, !forallb_app. apply andb_true_iff. split; [apply H; left; reflexivity|].
  apply andb_true_iff. split; [reflexivity|]. apply IH. intros z Hz. apply H. right. exact Hz.
Qed.

Lemma to_string_nsc : forall s, forallb nsc (to_string s) = true.
Proof.
  intros s. unfold to_string. apply join_nsc. intros x Hx.
  apply in_map_iff in Hx. destruct Hx as (r & <- & _). apply range_nsc.
Qed.

Lemma nsc_upper_all : forall a, forallb nsc a = true -> ascii_upper a = a.
Proof.
  induction a as [|c a IH]; cbn [forallb ascii_upper map]; intros H; [reflexivity|].
  apply andb_true_iff in H. destruct H as [Hc Ha]. rewrite (nsc_upper c Hc).
  unfold ascii_upper in IH. rewrite (IH Ha). reflexivity.
Qed.

Lemma range_start : forall r, exists c t, range_to_string r = c :: t /\ numstart c = true.
Proof.
  intros [a b]. unfold range_to_string. destruct (a =? 0).
  - eexists _, _. split; reflexivity.
  - destruct (dec_first a) as (c & t & E & Hc).
    assert (Hs : numstart c = true) by (unfold numstart; rewrite Hc; reflexivity).
    rewrite E.
    destruct (a =? b); [|destruct (b =? 0)]; cbn [app]; eexists _, _; (split; [reflexivity|exact Hs]).
Qed.

Lemma to_string_start : forall s, s <> [] -> exists c t, to_string s = c :: t /\ numstart c = true.
Proof.
  intros [|r s] Hs; [congruence|]. unfold to_string. cbn [map].
  destruct (range_start r) as (c & t & E & Hc).
  destruct (map range_to_string s) as [|y l].
  - cbn [join_with]. exists c, t. split; assumption.
  - rewrite join_cons2, E. cbn [app]. eexists _, _. split; [reflexivity|exact Hc].
Qed.

(* ---- reading one key ---- *)
Lemma read_key_S : forall f d kd s,
  read_key (S f) d kd s =
  if Nat.leb MAX_DEPTH kd then None else
  match key_atom s with
  | DOk a r => read_key_atom (read_key f d (S kd)) a r
  | DErr => None
  | DNo _ =>
      match dec_special (ch "(") s with
      | DOk _ r =>
          match dec_special (ch ")") r with
          | DOk _ r' => Some (KList [], r')
          | DErr => None
          | DNo _ =>
              if Nat.leb MAX_DEPTH (S d) then None
              else
                match items_fold (S (length r))
                        (fun acc => do k <- read_key f (S d) kd; ret (acc ++ [k])) [] r with
                | Some (ks, r') => Some (KList ks, r')
                | None => None
                end
          end
      | _ => None
      end
  end.
Proof. reflexivity. Qed.

Lemma read_key_atomic : forall f d kd, (kd < MAX_DEPTH)%nat -> forall a r, a <> [] -> forallb is_numset_char a = true -> delimited r ->
  read_key (S f) d kd (a ++ r) = read_key_atom (read_key f d (S kd)) a r.
Proof.
  intros f d kd Hkd a [|x r] Ha Hc Hr; [contradiction|]. destruct Hr as [_ Hx].
  rewrite read_key_S. replace (Nat.leb MAX_DEPTH kd) with false by (symmetry; apply Nat.leb_gt; exact Hkd).
  unfold key_atom. rewrite dec_func_app by assumption. reflexivity.
Qed.

Definition item_ok (f d kd : nat) (e : eres) (k : skey) : Prop :=
  forall sg, e = Some sg ->
    item_start (flatten sg) /\
    forall r, delimited r -> read_key (S f) d kd (flatten sg ++ r) = Some (k, r).

Lemma item_start_after_sp : forall b r, item_start b -> after_sp (b ++ r).
Proof. intros [|c b] r H; [contradiction|]. destruct H as (_ & H1 & H2). split; assumption. Qed.

Lemma read_key_atom_set : forall c, numstart c = true -> forall rk t r s,
  ascii_upper (c :: t) = c :: t -> parse_set (c :: t) = Some (Some s) ->
  read_key_atom rk (c :: t) r = Some (KSeq s, r).
Proof.
  intros c Hc.
  destruct c as [[] [] [] [] [] [] [] []]; try (vm_compute in Hc; discriminate Hc);
    intros rk t r s Hu Hp; unfold read_key_atom, upper; rewrite Hu; cbv zeta; rewrite Hp; reflexivity.
Qed.

Lemma item_seq : forall f d kd, (kd < MAX_DEPTH)%nat -> forall s, wf_seqset s -> item_ok f d kd (enc_numset s) (KSeq s).
Proof.
  intros f d kd Hkd s [Hc Hn] sg H. unfold enc_numset in H.
  destruct (to_string_start s Hn) as (c & t & E & Hc1).
  assert (Esg : sg = [SBytes (to_string s)]).
  { rewrite E in H. injection H as <-. rewrite E. reflexivity. }
  subst sg. rewrite flatten_single. split.
  - rewrite E. apply numstart_facts. exact Hc1.
  - intros r Hr.
    pose proof (nsc_upper_all _ (to_string_nsc s)) as Hu.
    pose proof (string_parse s Hc Hn) as Hp.
    pose proof (to_string_numset_chars s) as Hch.
    unfold byte, bytes in *. rewrite E in *.
    rewrite read_key_atomic; [|exact Hkd|discriminate|exact Hch|exact Hr].
    apply read_key_atom_set; assumption.
Qed.

(* a key made of a name, one SP and arguments *)
Lemma item_name : forall f d kd, (kd < MAX_DEPTH)%nat -> forall name (arg : eres) (q : P skey) k e, name <> [] -> forallb is_numset_char name = true -> item_start name ->
  (forall r', read_key_atom (read_key f d (S kd)) name r' = (x_sp;; q) r') ->
  (forall y, arg = Some y -> item_start (flatten y) /\ forall r, delimited r -> q (flatten y ++ r) = Some (k, r)) ->
  (forall sg, e = Some sg -> exists y, arg = Some y /\ flatten sg = name ++ SP_ :: flatten y) ->
  item_ok f d kd e k.
Proof.
  intros f d kd Hkd name arg q k e Hn Hc Hs Hk Ha He sg Hsg.
  destruct (He sg Hsg) as (y & Hy & ->). destruct (Ha y Hy) as [Hst Hq]. split.
  - apply item_start_app. exact Hs.
  - intros r Hr. rewrite <- app_assoc. rewrite read_key_atomic; [|exact Hkd|exact Hn|exact Hc|apply delimited_sp].
    cbn [app]. rewrite Hk. unfold bind. rewrite x_sp_sp by (apply item_start_after_sp; exact Hst).
    apply Hq. exact Hr.
Qed.

(* shapes of the client's text *)
Lemma shape_slit : forall (nm : bytes) name arg sg, nm = name ++ [SP_] ->
  lit nm +++ arg = Some sg -> exists y, arg = Some y /\ flatten sg = name ++ SP_ :: flatten y.
Proof.
  intros nm name arg sg -> H. apply cat_some in H. destruct H as (x & y & Hx & Hy & ->).
  exists y. split; [exact Hy|]. unfold lit in Hx. injection Hx as <-.
  rewrite flatten_app, flatten_single, <- app_assoc. reflexivity.
Qed.
Lemma shape_lit_sp : forall name arg sg,
  lit name +++ sp +++ arg = Some sg -> exists y, arg = Some y /\ flatten sg = name ++ SP_ :: flatten y.
Proof.
  intros name arg sg H. apply cat_some in H. destruct H as (x & z & Hx & Hz & ->).
  apply cat_some in Hz. destruct Hz as (s1 & y & Hs1 & Hy & ->).
  exists y. split; [exact Hy|]. unfold lit in Hx. injection Hx as <-. unfold sp, lit in Hs1. injection Hs1 as <-.
  rewrite !flatten_app, !flatten_single. reflexivity.
Qed.

Lemma w_numarg_start : forall u y, wf_uidset u -> w_numarg u = Some y -> item_start (flatten y).
Proof.
  intros [|s] y Hw H; cbn [w_numarg] in H.
  - unfold slit, lit in H. injection H as <-. rewrite flatten_single. cbn. repeat split; reflexivity.
  - destruct Hw as [Hc Hn]. unfold enc_numset in H.
    destruct (to_string_start s Hn) as (c & t & E & Hc1).
    rewrite E in H. injection H as <-. rewrite flatten_single. apply numstart_facts. exact Hc1.
Qed.

Lemma item_uid : forall f d kd, (kd < MAX_DEPTH)%nat -> forall u, wf_uidset u ->
  item_ok f d kd (slit "UID " +++ w_numarg u) (KUid (norm_uidset u)).
Proof.
  intros f d kd Hkd u Hu.
  apply (item_name f d kd Hkd (s2b "UID") (w_numarg u)
           (do s <- x_numset; ret (KUid (match s with NRes => [] | NSet x => x end)))).
  - discriminate.
  - reflexivity.
  - cbn. repeat split; reflexivity.
  - intros r'. reflexivity.
  - intros y Hy. split; [eapply w_numarg_start; eassumption|].
    intros r Hr. unfold bind. rewrite (x_numset_enc true u y r Hu Hr Hy). reflexivity.
  - intros sg. apply shape_slit. reflexivity.
Qed.

Lemma delimited_nondigit : forall r, delimited r -> nondigit r.
Proof.
  intros [|c r]; [auto|]. intros [H _]. cbn. destruct (is_digit c) eqn:E; [|reflexivity].
  apply digit_numset_char in E. destruct E as (_ & _ & E). congruence.
Qed.

Lemma astring_arg : forall cfg s, client_side cfg = true -> short s ->
  forall y, enc_string cfg s = Some y ->
    item_start (flatten y) /\ forall r, x_astring (flatten y ++ r) = Some (s, r).
Proof.
  intros cfg s Hc Hs y Hy. split; [eapply enc_string_start; eassumption|].
  intros r. apply (x_astring_enc cfg); assumption.
Qed.

(* dates *)
Lemma item_date : forall cfg f d kd, (kd < MAX_DEPTH)%nat -> forall name (K : Z -> skey) t, client_side cfg = true ->
  name <> [] -> forallb is_numset_char name = true -> item_start name ->
  (forall r', read_key_atom (read_key f d (S kd)) name r' = (x_sp;; do x <- x_date; ret (K x)) r') ->
  wf_date t -> t_is_zero t = false ->
  item_ok f d kd (lit name +++ sp +++ enc_string cfg (fmt_date (t_day t))) (K (t_day t * DAYSEC)%Z).
Proof.
  intros cfg f d kd Hkd name K t Hc Hn Hch Hs Hk Hw Hz.
  assert (Hd : day_in_range (t_day t) = true).
  { destruct Hw as [Hw|Hw]; [congruence|]. unfold day_in_range. apply andb_true_iff. split; apply Z.leb_le; lia. }
  apply (item_name f d kd Hkd name (enc_string cfg (fmt_date (t_day t))) (do x <- x_date; ret (K x))); try assumption.
  - intros y Hy. split; [eapply enc_string_start; eassumption|].
    intros r Hr. unfold bind. rewrite (x_date_enc cfg _ y r Hc Hd Hy). reflexivity.
  - intros sg. apply shape_lit_sp.
Qed.

(* headers *)
Lemma lower_upper : forall c, to_lower_b (to_upper_b c) = to_lower_b c.
Proof. intros [[] [] [] [] [] [] [] []]; vm_compute; reflexivity. Qed.
Lemma title_upper : forall k, title (ascii_upper k) = title k.
Proof.
  intros k. unfold title.
  assert (E : ascii_lower (ascii_upper k) = ascii_lower k).
  { unfold ascii_lower, ascii_upper. rewrite map_map. apply map_ext. apply lower_upper. }
  rewrite E. reflexivity.
Qed.

Lemma special_cases : forall k, special_hdr k = true -> In (ascii_upper k) special_hdrs.
Proof.
  intros k H. unfold special_hdr in H. apply existsb_exists in H. destruct H as (x & Hx & E).
  apply bytes_eqb_true_iff in E. rewrite E. exact Hx.
Qed.

Lemma item_header : forall cfg f d kd, (kd < MAX_DEPTH)%nat -> forall kv, client_side cfg = true ->
  short (fst kv) -> short (snd kv) ->
  item_ok f d kd (w_header cfg kv) (KHeader (fst (norm_hdr kv)) (snd kv)).
Proof.
  intros cfg f d kd Hkd [k v] Hc Hk Hv. cbn [fst snd] in *. unfold w_header, norm_hdr. cbn [fst snd].
  destruct (special_hdr k) eqn:E.
  - rewrite <- (title_upper k). apply special_cases in E.
    set (name := ascii_upper k) in *. clearbody name.
    apply (item_name f d kd Hkd name (enc_string cfg v) (do x <- x_astring; ret (KHeader (title name) x))).
    + destruct E as [<-|[<-|[<-|[<-|[<-|[]]]]]]; discriminate.
    + destruct E as [<-|[<-|[<-|[<-|[<-|[]]]]]]; reflexivity.
    + destruct E as [<-|[<-|[<-|[<-|[<-|[]]]]]]; cbn; repeat split; reflexivity.
    + intros r'. destruct E as [<-|[<-|[<-|[<-|[<-|[]]]]]]; reflexivity.
    + intros y Hy. destruct (astring_arg cfg v Hc Hv y Hy) as [H1 H2]. split; [exact H1|].
      intros r _. unfold bind. rewrite H2. reflexivity.
    + intros sg. apply shape_lit_sp.
  - apply (item_name f d kd Hkd (s2b "HEADER") (enc_string cfg k +++ sp +++ enc_string cfg v)
             (do a <- x_astring; x_sp;; do b <- x_astring; ret (KHeader a b))).
    + discriminate.
    + reflexivity.
    + cbn. repeat split; reflexivity.
    + intros r'. reflexivity.
    + intros y Hy. apply cat_some in Hy. destruct Hy as (y1 & z & Hy1 & Hz & ->).
      apply cat_some in Hz. destruct Hz as (s1 & y2 & Hs1 & Hy2 & ->).
      unfold sp, lit in Hs1. injection Hs1 as <-.
      destruct (astring_arg cfg k Hc Hk y1 Hy1) as [A1 A2].
      destruct (astring_arg cfg v Hc Hv y2 Hy2) as [B1 B2].
      rewrite !flatten_app, flatten_single. split; [apply item_start_app; exact A1|].
      intros r _. rewrite <- !app_assoc. unfold bind. rewrite A2. cbn [app].
      rewrite x_sp_sp by (apply item_start_after_sp; exact B1). rewrite B2. reflexivity.
    + intros sg H.
      apply cat_some in H. destruct H as (x & y & Hx & Hy & ->).
      apply cat_some in Hx. destruct Hx as (x1 & x2 & Hx1 & Hx2 & ->).
      apply cat_some in Hy. destruct Hy as (s1 & y2 & Hs1 & Hy2 & ->).
      unfold sp, lit in Hs1. injection Hs1 as <-. unfold slit, lit in Hx1. injection Hx1 as <-.
      exists (x2 ++ [SBytes [SP_]] ++ y2). split.
      * rewrite Hx2, Hy2. reflexivity.
      * rewrite !flatten_app, !flatten_single, <- !app_assoc. reflexivity.
Qed.

Lemma item_str : forall cfg f d kd, (kd < MAX_DEPTH)%nat -> forall (nm : string) name (K : bytes -> skey) s, client_side cfg = true -> s2b nm = name ++ [SP_] ->
  name <> [] -> forallb is_numset_char name = true -> item_start name ->
  (forall r', read_key_atom (read_key f d (S kd)) name r' = (x_sp;; do x <- x_astring; ret (K x)) r') ->
  short s ->
  item_ok f d kd (slit nm +++ enc_string cfg s) (K s).
Proof.
  intros cfg f d kd Hkd nm name K s Hc Enm Hn Hch Hs Hk Hsh.
  apply (item_name f d kd Hkd name (enc_string cfg s) (do x <- x_astring; ret (K x))); try assumption.
  - intros y Hy. destruct (astring_arg cfg s Hc Hsh y Hy) as [H1 H2]. split; [exact H1|].
    intros r _. unfold bind. rewrite H2. reflexivity.
  - intros sg. apply shape_slit. exact Enm.
Qed.

Lemma item_num : forall f d kd, (kd < MAX_DEPTH)%nat -> forall (nm : string) name (K : Z -> skey) z, s2b nm = name ++ [SP_] ->
  name <> [] -> forallb is_numset_char name = true -> item_start name ->
  (forall r', read_key_atom (read_key f d (S kd)) name r' = (x_sp;; do x <- x_number64; ret (K x)) r') ->
  wf_int64 z ->
  item_ok f d kd (slit nm +++ enc_number64 z) (K z).
Proof.
  intros f d kd Hkd nm name K z Enm Hn Hch Hs Hk Hz.
  apply (item_name f d kd Hkd name (enc_number64 z) (do x <- x_number64; ret (K x))); try assumption.
  - intros y Hy. split.
    + unfold enc_number64 in Hy. destruct (z <? 0)%Z; [discriminate|]. injection Hy as <-.
      rewrite flatten_single. destruct (dec_first (Z.to_N z)) as (c & t & E & Hc). rewrite E.
      apply numstart_facts. unfold numstart. rewrite Hc. reflexivity.
    + intros r Hr. unfold bind. rewrite (x_number64_enc z y r Hz (delimited_nondigit r Hr) Hy). reflexivity.
  - intros sg. apply shape_slit. exact Enm.
Qed.

(* flags *)
Lemma item_atom : forall f d kd, (kd < MAX_DEPTH)%nat -> forall a k, a <> [] -> forallb is_numset_char a = true -> item_start a ->
  (forall r', read_key_atom (read_key f d (S kd)) a r' = Some (k, r')) ->
  item_ok f d kd (lit a) k.
Proof.
  intros f d kd Hkd a k Hn Hc Hs Hk sg H. unfold lit in H. injection H as <-. rewrite flatten_single. split; [exact Hs|].
  intros r Hr. rewrite read_key_atomic by assumption. apply Hk.
Qed.

Lemma item_flag : forall f d kd, (kd < MAX_DEPTH)%nat -> forall (un : bool) fl, wf_flag fl ->
  item_ok f d kd (w_flag_key un fl) ((if un then KNotFlag else KFlag) (canonical_flag fl)).
Proof.
  intros f d kd Hkd un fl Hw. unfold w_flag_key, sys_flag_key.
  repeat match goal with
  | |- context [bytes_eqb fl ?x] =>
      let E := fresh "E" in destruct (bytes_eqb fl x) eqn:E;
      [apply bytes_eqb_true_iff in E; subst fl; destruct un; cbn [app];
       (apply item_atom; [exact Hkd|discriminate|reflexivity|cbn; repeat split; reflexivity|intros r'; reflexivity])|]
  end.
  destruct un.
  - apply (item_name f d kd Hkd (s2b "UNKEYWORD") (enc_flag fl) (do x <- x_flag; ret (KNotFlag x))).
    + discriminate.
    + reflexivity.
    + cbn. repeat split; reflexivity.
    + intros r'. reflexivity.
    + intros y Hy. split; [eapply enc_flag_start; eassumption|].
      intros r Hr. unfold bind. rewrite (x_flag_enc fl y r Hr Hy). reflexivity.
    + intros sg. apply shape_slit. reflexivity.
  - apply (item_name f d kd Hkd (s2b "KEYWORD") (enc_flag fl) (do x <- x_flag; ret (KFlag x))).
    + discriminate.
    + reflexivity.
    + cbn. repeat split; reflexivity.
    + intros r'. reflexivity.
    + intros y Hy. split; [eapply enc_flag_start; eassumption|].
      intros r Hr. unfold bind. rewrite (x_flag_enc fl y r Hr Hy). reflexivity.
    + intros sg. apply shape_slit. reflexivity.
Qed.


(* ---- the items writeSearchKey writes, paired with the key each stands for ---- *)
Definition items_list (cfg : enc_cfg) seqs uids since before ssince sbefore (hdr : list (bytes * bytes))
    body text flag notflag larger smaller modseq (nots : list ccrit) (ors : list (ccrit * ccrit)) : list eres :=
  map enc_numset seqs ++
  map (fun u => slit "UID " +++ w_numarg u) uids ++
  w_dates cfg "SINCE" "BEFORE" "ON" since before ++
  w_dates cfg "SENTSINCE" "SENTBEFORE" "SENTON" ssince sbefore ++
  map (w_header cfg) hdr ++
  map (fun s => slit "BODY " +++ enc_string cfg s) body ++
  map (fun s => slit "TEXT " +++ enc_string cfg s) text ++
  map (w_flag_key false) flag ++
  map (w_flag_key true) notflag ++
  (if (0 <? larger)%Z then [slit "LARGER " +++ enc_number64 larger] else []) ++
  (if (0 <? smaller)%Z then [slit "SMALLER " +++ enc_number64 smaller] else []) ++
  w_modseq cfg modseq ++
  map (fun n => slit "NOT " +++ w_key cfg n) nots ++
  map (fun p => slit "OR " +++ w_key cfg (fst p) +++ sp +++ w_key cfg (snd p)) ors.

Lemma w_key_eq : forall cfg seqs uids since before ssince sbefore hdr body text flag notflag larger smaller modseq nots ors,
  w_key cfg (CC seqs uids since before ssince sbefore hdr body text flag notflag larger smaller modseq nots ors) =
  slit "(" +++
  (match items_list cfg seqs uids since before ssince sbefore hdr body text flag notflag larger smaller modseq nots ors with
   | [] => slit "ALL"
   | _ => join_sp (items_list cfg seqs uids since before ssince sbefore hdr body text flag notflag larger smaller modseq nots ors)
   end) +++ slit ")".
Proof. reflexivity. Qed.

Definition date_pairs (cfg : enc_cfg) (ksince kbefore kon : string) (since before : ctime)
    (ks kb ko : Z -> skey) : list (eres * skey) :=
  if negb (t_is_zero since) && negb (t_is_zero before) && (t_day before =? t_day since + 1)%Z then
    [(lit (s2b kon) +++ sp +++ enc_string cfg (fmt_date (t_day since)), ko (t_day since * DAYSEC)%Z)]
  else
    (if t_is_zero since then []
     else [(lit (s2b ksince) +++ sp +++ enc_string cfg (fmt_date (t_day since)), ks (t_day since * DAYSEC)%Z)]) ++
    (if t_is_zero before then []
     else [(lit (s2b kbefore) +++ sp +++ enc_string cfg (fmt_date (t_day before)), kb (t_day before * DAYSEC)%Z)]).

Lemma date_pairs_fst : forall cfg a b c since before ks kb ko,
  map fst (date_pairs cfg a b c since before ks kb ko) = w_dates cfg a b c since before.
Proof.
  intros. unfold date_pairs, w_dates.
  destruct (negb (t_is_zero since) && negb (t_is_zero before) && (t_day before =? t_day since + 1)%Z);
    [reflexivity|].
  destruct (t_is_zero since), (t_is_zero before); reflexivity.
Qed.
Lemma date_pairs_snd : forall cfg a b c since before ks kb ko,
  map snd (date_pairs cfg a b c since before ks kb ko) = date_keys since before ks kb ko.
Proof.
  intros. unfold date_pairs, date_keys.
  destruct (negb (t_is_zero since) && negb (t_is_zero before) && (t_day before =? t_day since + 1)%Z);
    [reflexivity|].
  destruct (t_is_zero since), (t_is_zero before); reflexivity.
Qed.

Definition pairs (cfg : enc_cfg) seqs uids since before ssince sbefore (hdr : list (bytes * bytes))
    body text flag notflag larger smaller (nots : list ccrit) (ors : list (ccrit * ccrit)) : list (eres * skey) :=
  map (fun s => (enc_numset s, KSeq s)) seqs ++
  map (fun u => (slit "UID " +++ w_numarg u, KUid (norm_uidset u))) uids ++
  date_pairs cfg "SINCE" "BEFORE" "ON" since before KSince KBefore KOn ++
  date_pairs cfg "SENTSINCE" "SENTBEFORE" "SENTON" ssince sbefore KSentSince KSentBefore KSentOn ++
  map (fun kv => (w_header cfg kv, KHeader (fst (norm_hdr kv)) (snd kv))) hdr ++
  map (fun s => (slit "BODY " +++ enc_string cfg s, KBody s)) body ++
  map (fun s => (slit "TEXT " +++ enc_string cfg s, KText s)) text ++
  map (fun f => (w_flag_key false f, KFlag (canonical_flag f))) flag ++
  map (fun f => (w_flag_key true f, KNotFlag (canonical_flag f))) notflag ++
  (if (0 <? larger)%Z then [(slit "LARGER " +++ enc_number64 larger, KLarger larger)] else []) ++
  (if (0 <? smaller)%Z then [(slit "SMALLER " +++ enc_number64 smaller, KSmaller smaller)] else []) ++
  map (fun n => (slit "NOT " +++ w_key cfg n, KNot (KList (keys_sent n)))) nots ++
  map (fun p => (slit "OR " +++ w_key cfg (fst p) +++ sp +++ w_key cfg (snd p),
                 KOr (KList (keys_sent (fst p))) (KList (keys_sent (snd p))))) ors.

Lemma pairs_fst : forall cfg seqs uids since before ssince sbefore hdr body text flag notflag larger smaller nots ors,
  map fst (pairs cfg seqs uids since before ssince sbefore hdr body text flag notflag larger smaller nots ors) =
  items_list cfg seqs uids since before ssince sbefore hdr body text flag notflag larger smaller None nots ors.
Proof.
  intros. unfold pairs, items_list. rewrite !map_app, !map_map, !date_pairs_fst. cbn [fst w_modseq app].
  destruct (0 <? larger)%Z, (0 <? smaller)%Z; reflexivity.
Qed.
Lemma pairs_snd : forall cfg seqs uids since before ssince sbefore hdr body text flag notflag larger smaller nots ors,
  map snd (pairs cfg seqs uids since before ssince sbefore hdr body text flag notflag larger smaller nots ors) =
  keys_list seqs uids since before ssince sbefore hdr body text flag notflag larger smaller nots ors.
Proof.
  intros. unfold pairs, keys_list. rewrite !map_app, !map_map, !date_pairs_snd. cbn [snd].
  destruct (0 <? larger)%Z, (0 <? smaller)%Z; reflexivity.
Qed.

Definition pairs' (l : list (eres * skey)) : list (eres * skey) :=
  match l with [] => [(slit "ALL", KAll)] | _ => l end.
Lemma pairs'_fst : forall l,
  match map fst l with [] => slit "ALL" | _ => join_sp (map fst l) end = join_sp (map fst (pairs' l)).
Proof. intros [|a l]; reflexivity. Qed.
Lemma pairs'_snd : forall l, or_all (map snd l) = map snd (pairs' l).
Proof. intros [|a l]; reflexivity. Qed.
Lemma pairs'_cons : forall l, exists a t, pairs' l = a :: t.
Proof. intros [|a l]; eexists _, _; reflexivity. Qed.

(* ---- every item is read back as its key ---- *)
Definition reads (cfg : enc_cfg) (f d kd : nat) (n : ccrit) : Prop :=
  forall sg r, w_key cfg n = Some sg -> delimited r ->
    read_key f d kd (flatten sg ++ r) = Some (KList (keys_sent n), r).

Lemma w_key_start : forall cfg n y, w_key cfg n = Some y -> item_start (flatten y).
Proof.
  intros cfg n y H. destruct n. rewrite w_key_eq in H. apply cat_some in H.
  destruct H as (x & z & Hx & _ & ->). unfold slit, lit in Hx. injection Hx as <-.
  rewrite flatten_app, flatten_single. cbn. repeat split; reflexivity.
Qed.

Lemma item_not : forall cfg f d kd, (kd < MAX_DEPTH)%nat -> forall n, reads cfg f d (S kd) n ->
  item_ok f d kd (slit "NOT " +++ w_key cfg n) (KNot (KList (keys_sent n))).
Proof.
  intros cfg f d kd Hkd n Hn.
  apply (item_name f d kd Hkd (s2b "NOT") (w_key cfg n) (do k <- read_key f d (S kd); ret (KNot k))).
  - discriminate.
  - reflexivity.
  - cbn. repeat split; reflexivity.
  - intros r'. reflexivity.
  - intros y Hy. split; [eapply w_key_start; eassumption|].
    intros r Hr. unfold bind. rewrite (Hn y r Hy Hr). reflexivity.
  - intros sg. apply shape_slit. reflexivity.
Qed.

Lemma item_or : forall cfg f d kd, (kd < MAX_DEPTH)%nat -> forall a b, reads cfg f d (S kd) a -> reads cfg f d (S kd) b ->
  item_ok f d kd (slit "OR " +++ w_key cfg a +++ sp +++ w_key cfg b)
          (KOr (KList (keys_sent a)) (KList (keys_sent b))).
Proof.
  intros cfg f d kd Hkd a b Ha Hb.
  apply (item_name f d kd Hkd (s2b "OR") (w_key cfg a +++ sp +++ w_key cfg b)
           (do x <- read_key f d (S kd); x_sp;; do y <- read_key f d (S kd); ret (KOr x y))).
  - discriminate.
  - reflexivity.
  - cbn. repeat split; reflexivity.
  - intros r'. reflexivity.
  - intros y Hy. apply cat_some in Hy. destruct Hy as (y1 & z & Hy1 & Hz & ->).
    apply cat_some in Hz. destruct Hz as (s1 & y2 & Hs1 & Hy2 & ->).
    unfold sp, lit in Hs1. injection Hs1 as <-.
    pose proof (w_key_start _ _ _ Hy1) as A1. pose proof (w_key_start _ _ _ Hy2) as B1.
    rewrite !flatten_app, flatten_single. split; [apply item_start_app; exact A1|].
    intros r Hr. rewrite <- !app_assoc. cbn [app]. unfold bind. rewrite (Ha y1 _ Hy1 (delimited_sp _)).
    rewrite x_sp_sp by (apply item_start_after_sp; exact B1). rewrite (Hb y2 r Hy2 Hr). reflexivity.
  - intros sg. apply shape_slit. reflexivity.
Qed.

Ltac forall_list := repeat first [apply Forall_nil | apply Forall_cons].
Ltac name_facts := first [assumption | discriminate | reflexivity | (cbn; repeat split; reflexivity) | (intros; reflexivity)].

Lemma date_pairs_ok1 : forall cfg f d kd, (kd < MAX_DEPTH)%nat -> forall since before, client_side cfg = true -> wf_date since -> wf_date before ->
  Forall (fun p => item_ok f d kd (fst p) (snd p))
         (date_pairs cfg "SINCE" "BEFORE" "ON" since before KSince KBefore KOn).
Proof.
  intros cfg f d kd Hkd since before Hc H1 H2. unfold date_pairs.
  destruct (t_is_zero since) eqn:E1; destruct (t_is_zero before) eqn:E2; cbn [negb andb app];
    try destruct (t_day before =? t_day since + 1)%Z; forall_list; cbn [fst snd];
    apply item_date; name_facts.
Qed.
Lemma date_pairs_ok2 : forall cfg f d kd, (kd < MAX_DEPTH)%nat -> forall since before, client_side cfg = true -> wf_date since -> wf_date before ->
  Forall (fun p => item_ok f d kd (fst p) (snd p))
         (date_pairs cfg "SENTSINCE" "SENTBEFORE" "SENTON" since before KSentSince KSentBefore KSentOn).
Proof.
  intros cfg f d kd Hkd since before Hc H1 H2. unfold date_pairs.
  destruct (t_is_zero since) eqn:E1; destruct (t_is_zero before) eqn:E2; cbn [negb andb app];
    try destruct (t_day before =? t_day since + 1)%Z; forall_list; cbn [fst snd];
    apply item_date; name_facts.
Qed.

Lemma Forall_map_ok : forall A (g : A -> eres * skey) (Q : A -> Prop) f d kd l,
  Forall Q l -> (forall x, Q x -> item_ok f d kd (fst (g x)) (snd (g x))) ->
  Forall (fun p => item_ok f d kd (fst p) (snd p)) (map g l).
Proof.
  intros A g Q f d kd l HF H. apply Forall_forall. intros p Hp. apply in_map_iff in Hp.
  destruct Hp as (x & <- & Hx). apply H. rewrite Forall_forall in HF. apply HF. exact Hx.
Qed.

Lemma pairs_ok : forall cfg f d kd, (kd < MAX_DEPTH)%nat -> forall seqs uids since before ssince sbefore hdr body text flag notflag larger smaller nots ors, client_side cfg = true ->
  Forall wf_seqset seqs -> Forall wf_uidset uids ->
  wf_date since -> wf_date before -> wf_date ssince -> wf_date sbefore ->
  Forall (fun kv => short (fst kv) /\ short (snd kv)) hdr -> Forall short body -> Forall short text ->
  Forall wf_flag flag -> Forall wf_flag notflag ->
  wf_int64 larger -> wf_int64 smaller ->
  Forall (reads cfg f d (S kd)) nots -> Forall (fun p => reads cfg f d (S kd) (fst p) /\ reads cfg f d (S kd) (snd p)) ors ->
  Forall (fun p => item_ok f d kd (fst p) (snd p))
         (pairs cfg seqs uids since before ssince sbefore hdr body text flag notflag larger smaller nots ors).
Proof.
  intros cfg f d kd Hkd seqs uids since before ssince sbefore hdr body text flag notflag larger smaller nots ors
         Hc Hseq Huid Hd1 Hd2 Hd3 Hd4 Hh Hb Ht Hf Hnf Hla Hsm Hn Ho.
  unfold pairs. repeat (apply Forall_app; split).
  - eapply Forall_map_ok; [exact Hseq|]. intros s Hs. cbn [fst snd]. apply item_seq; assumption.
  - eapply Forall_map_ok; [exact Huid|]. intros u Hu. cbn [fst snd]. apply item_uid; assumption.
  - apply date_pairs_ok1; assumption.
  - apply date_pairs_ok2; assumption.
  - eapply Forall_map_ok; [exact Hh|]. intros kv [H1 H2]. cbn [fst snd]. apply item_header; assumption.
  - eapply Forall_map_ok; [exact Hb|]. intros s Hs. cbn [fst snd].
    apply (item_str cfg f d kd Hkd "BODY " (s2b "BODY") KBody); name_facts.
  - eapply Forall_map_ok; [exact Ht|]. intros s Hs. cbn [fst snd].
    apply (item_str cfg f d kd Hkd "TEXT " (s2b "TEXT") KText); name_facts.
  - eapply Forall_map_ok; [exact Hf|]. intros s Hs. cbn [fst snd]. apply (item_flag f d kd Hkd false). exact Hs.
  - eapply Forall_map_ok; [exact Hnf|]. intros s Hs. cbn [fst snd]. apply (item_flag f d kd Hkd true). exact Hs.
  - destruct (0 <? larger)%Z; forall_list. cbn [fst snd].
    apply (item_num f d kd Hkd "LARGER " (s2b "LARGER") KLarger); name_facts.
  - destruct (0 <? smaller)%Z; forall_list. cbn [fst snd].
    apply (item_num f d kd Hkd "SMALLER " (s2b "SMALLER") KSmaller); name_facts.
  - eapply Forall_map_ok; [exact Hn|]. intros n Hr. cbn [fst snd]. apply item_not; assumption.
  - eapply Forall_map_ok; [exact Ho|]. intros p [H1 H2]. cbn [fst snd]. apply item_or; assumption.
Qed.

Lemma pairs'_ok : forall f d kd, (kd < MAX_DEPTH)%nat -> forall l, Forall (fun p => item_ok f d kd (fst p) (snd p)) l ->
  Forall (fun p => item_ok f d kd (fst p) (snd p)) (pairs' l).
Proof.
  intros f d kd Hkd [|a l] H; [|exact H]. forall_list. cbn [fst snd].
  apply (item_atom f d kd Hkd (s2b "ALL") KAll); name_facts.
Qed.

(* ---- depth ---- *)
Definition maxd_nots (nots : list ccrit) : nat := fold_right (fun n m => Nat.max (crit_depth n) m) O nots.
Definition maxd_ors (ors : list (ccrit * ccrit)) : nat :=
  fold_right (fun p m => Nat.max (Nat.max (crit_depth (fst p)) (crit_depth (snd p))) m) O ors.
Lemma crit_depth_eq : forall seqs uids since before ssince sbefore hdr body text flag notflag larger smaller modseq nots ors,
  crit_depth (CC seqs uids since before ssince sbefore hdr body text flag notflag larger smaller modseq nots ors) =
  S (Nat.max (maxd_nots nots) (maxd_ors ors)).
Proof. reflexivity. Qed.
Lemma maxd_nots_in : forall l n, In n l -> (crit_depth n <= maxd_nots l)%nat.
Proof.
  induction l as [|x l IH]; intros n H; [destruct H|]. unfold maxd_nots in *. cbn [fold_right].
  destruct H as [->|H]; [lia|]. specialize (IH n H). lia.
Qed.
Lemma maxd_ors_in : forall l p, In p l ->
  (crit_depth (fst p) <= maxd_ors l /\ crit_depth (snd p) <= maxd_ors l)%nat.
Proof.
  induction l as [|x l IH]; intros n H; [destruct H|]. unfold maxd_ors in *. cbn [fold_right].
  destruct H as [->|H]; [lia|]. specialize (IH n H). lia.
Qed.

Lemma fold_snoc : forall (l : list (eres * skey)) st,
  fold_left (fun acc x => acc ++ [snd x]) l st = st ++ map snd l.
Proof.
  induction l as [|x l IH]; intros st; cbn [fold_left map]; [rewrite app_nil_r; reflexivity|].
  rewrite IH, <- app_assoc. reflexivity.
Qed.

Lemma read_key_w_key_B : forall cfg, client_side cfg = true -> forall c segs rest fuel d kd,
  wf_crit c ->
  (d + crit_depth c < MAX_DEPTH)%nat -> (kd + crit_depth c < MAX_DEPTH)%nat ->
  (2 * crit_depth c <= fuel)%nat -> delimited rest ->
  w_key cfg c = Some segs ->
  read_key fuel d kd (flatten segs ++ rest) = Some (KList (keys_sent c), rest).
Proof.
  intros cfg Hc c. induction c using ccrit_ind'.
  intros segs rest fuel d kd Hw Hd Hkd Hf Hr Hk.
  rewrite wf_crit_eq in Hw.
  destruct Hw as (Hseq & Huid & Hd1 & Hd2 & Hd3 & Hd4 & Hh & Hb & Ht & Hfl & Hnf & Hla & Hsm & Hm & Hn & Ho).
  subst modseq. apply wf_nots_forall in Hn. apply wf_ors_forall in Ho.
  rewrite crit_depth_eq in Hd, Hkd, Hf.
  destruct fuel as [|[|f]]; [lia|lia|].
  rewrite w_key_eq, <- pairs_fst, pairs'_fst in Hk.
  rewrite keys_sent_eq, <- (pairs_snd cfg), pairs'_snd.
  assert (Hok : Forall (fun p => item_ok f (S d) kd (fst p) (snd p))
                  (pairs' (pairs cfg seqs uids since before ssince sbefore hdr body text flag notflag larger smaller nots ors))).
  { apply pairs'_ok; [lia|]. apply pairs_ok; try assumption; [lia| |].
    - rewrite Forall_forall in *. intros n Hin sg r Hsg Hrr.
      pose proof (maxd_nots_in _ _ Hin).
      apply (H n Hin); auto; lia.
    - rewrite Forall_forall in *. intros p Hin.
      destruct (maxd_ors_in _ _ Hin). destruct (H0 p Hin) as [A B]. destruct (Ho p Hin) as [C D].
      split; intros sg r Hsg Hrr; [apply A|apply B]; auto; lia. }
  destruct (pairs'_cons (pairs cfg seqs uids since before ssince sbefore hdr body text flag notflag larger smaller nots ors))
    as (a & l & E).
  rewrite E in Hk, Hok |- *. clear E.
  apply cat_some in Hk. destruct Hk as (x & y & Hx & Hy & ->).
  apply cat_some in Hy. destruct Hy as (j & z & Hj & Hz & ->).
  unfold slit, lit in Hx, Hz. injection Hx as <-. injection Hz as <-.
  rewrite !flatten_app, !flatten_single. rewrite <- !app_assoc. cbn [app s2b list_ascii_of_string].
  change (")"%char) with (ch ")").
  assert (Hst : forall x, In x (a :: l) -> forall sg, fst x = Some sg -> item_start (flatten sg)).
  { intros x Hx sg Hsg. rewrite Forall_forall in Hok. apply (Hok x Hx sg Hsg). }
  assert (Hit : forall x, In x (a :: l) -> forall sg st r, fst x = Some sg -> delimited r ->
            (fun acc => do k <- read_key (S f) (S d) kd; ret (acc ++ [k])) st (flatten sg ++ r) =
            Some ((fun acc x => acc ++ [snd x]) st x, r)).
  { intros x Hx sg st r Hsg Hrr. rewrite Forall_forall in Hok. destruct (Hok x Hx sg Hsg) as [_ Hrd].
    unfold bind. rewrite (Hrd r Hrr). reflexivity. }
  pose proof (join_sp_start _ fst l a j Hst Hj) as Hs.
  rewrite read_key_S.
  replace (Nat.leb MAX_DEPTH kd) with false by (symmetry; apply Nat.leb_gt; lia).
  unfold key_atom. rewrite dec_func_no by reflexivity.
  rewrite dec_special_hit.
  assert (Hm : dec_special (ch ")") (flatten j ++ ch ")" :: rest) = DNo (flatten j ++ ch ")" :: rest)).
  { destruct (flatten j) as [|c t]; [contradiction|]. destruct Hs as [Hs _]. cbn [app].
    apply dec_special_miss. exact Hs. }
  assert (HL : Nat.leb MAX_DEPTH (S d) = false) by (apply Nat.leb_gt; lia).
  pose proof (items_fold_join _ _ (fun acc => do k <- read_key (S f) (S d) kd; ret (acc ++ [k])) fst
                (fun acc x => acc ++ [snd x]) l a [] j rest
                (S (length (flatten j ++ ch ")" :: rest))) Hit Hst Hj) as HF.
  unfold byte, bytes in *. rewrite Hm, HL, HF.
  - rewrite fold_snoc. reflexivity.
  - rewrite app_length. lia.
Qed.


(* ================= stage 3: the whole command ================= *)

(* ---- the text is long enough to fuel the reader ---- *)
Lemma join_sp_in : forall l j, join_sp l = Some j -> forall e, In e l ->
  exists sg, e = Some sg /\ (length (flatten sg) <= length (flatten j))%nat.
Proof.
  induction l as [|x l IH]; intros j H e He; [destruct He|].
  destruct l as [|y l].
  - cbn in H. destruct He as [<-|[]]. exists j. split; [exact H|lia].
  - rewrite join_sp_cons2 in H. apply cat_some in H. destruct H as (a & b & Ha & Hb & ->).
    apply cat_some in Hb. destruct Hb as (s1 & z & _ & Hz & ->).
    rewrite !flatten_app, !app_length. destruct He as [<-|He].
    + exists a. split; [exact Ha|lia].
    + destruct (IH z Hz e He) as (sg & E & Hl). exists sg. split; [exact E|lia].
Qed.

Lemma maxd_nots_le : forall l M, (forall n, In n l -> (2 * crit_depth n <= M)%nat) -> (2 * maxd_nots l <= M)%nat.
Proof.
  induction l as [|x l IH]; intros M H; unfold maxd_nots in *; cbn [fold_right]; [lia|].
  pose proof (H x (or_introl eq_refl)). assert (2 * fold_right (fun n m => Nat.max (crit_depth n) m) O l <= M)%nat.
  { apply IH. intros n Hn. apply H. right. exact Hn. }
  lia.
Qed.
Lemma maxd_ors_le : forall l M,
  (forall p, In p l -> (2 * crit_depth (fst p) <= M /\ 2 * crit_depth (snd p) <= M)%nat) -> (2 * maxd_ors l <= M)%nat.
Proof.
  induction l as [|x l IH]; intros M H; unfold maxd_ors in *; cbn [fold_right]; [lia|].
  pose proof (H x (or_introl eq_refl)).
  assert (2 * fold_right (fun p m => Nat.max (Nat.max (crit_depth (fst p)) (crit_depth (snd p))) m) O l <= M)%nat.
  { apply IH. intros n Hn. apply H. right. exact Hn. }
  lia.
Qed.

Lemma w_key_len : forall cfg c segs, w_key cfg c = Some segs -> (2 * crit_depth c <= length (flatten segs))%nat.
Proof.
  intros cfg c. induction c using ccrit_ind'. intros segs Hk.
  rewrite w_key_eq in Hk. rewrite crit_depth_eq.
  apply cat_some in Hk. destruct Hk as (x & y & Hx & Hy & ->).
  apply cat_some in Hy. destruct Hy as (j & z & Hj & Hz & ->).
  unfold slit, lit in Hx, Hz. injection Hx as <-. injection Hz as <-.
  rewrite !flatten_app, !flatten_single, !app_length. cbn [length s2b list_ascii_of_string].
  set (items := items_list cfg seqs uids since before ssince sbefore hdr body text flag notflag larger smaller modseq nots ors) in *.
  assert (Hin : forall e, In e items -> exists sg, e = Some sg /\ (length (flatten sg) <= length (flatten j))%nat).
  { intros e He. destruct items as [|i0 il] eqn:E; [destruct He|]. apply (join_sp_in (i0 :: il) j Hj e He). }
  assert (Hn : (2 * maxd_nots nots <= length (flatten j))%nat).
  { apply maxd_nots_le. intros n Hnn.
    assert (He : In (slit "NOT " +++ w_key cfg n) items).
    { subst items. unfold items_list. do 12 (apply in_or_app; right).
      apply in_or_app. left. apply in_map_iff. exists n. split; [reflexivity|exact Hnn]. }
    destruct (Hin _ He) as (sg & Hsg & Hl). apply cat_some in Hsg. destruct Hsg as (a & b & _ & Hb & ->).
    rewrite Forall_forall in H. pose proof (H n Hnn b Hb). rewrite flatten_app, app_length in Hl. lia. }
  assert (Ho : (2 * maxd_ors ors <= length (flatten j))%nat).
  { apply maxd_ors_le. intros p Hp.
    assert (He : In (slit "OR " +++ w_key cfg (fst p) +++ sp +++ w_key cfg (snd p)) items).
    { subst items. unfold items_list. do 13 (apply in_or_app; right).
      apply in_map_iff. exists p. split; [reflexivity|exact Hp]. }
    destruct (Hin _ He) as (sg & Hsg & Hl). apply cat_some in Hsg. destruct Hsg as (a & b & _ & Hb & ->).
    apply cat_some in Hb. destruct Hb as (b1 & b2 & Hb1 & Hb2 & ->).
    apply cat_some in Hb2. destruct Hb2 as (b3 & b4 & _ & Hb4 & ->).
    rewrite Forall_forall in H0. destruct (H0 p Hp) as [A B].
    pose proof (A b1 Hb1). pose proof (B b4 Hb4). rewrite !flatten_app, !app_length in Hl. lia. }
  lia.
Qed.

Lemma w_key_paren : forall cfg n y, w_key cfg n = Some y -> exists t, flatten y = ch "(" :: t.
Proof.
  intros cfg n y H. destruct n. rewrite w_key_eq in H. apply cat_some in H.
  destruct H as (x & z & Hx & _ & ->). unfold slit, lit in Hx. injection Hx as <-.
  rewrite flatten_app, flatten_single. eexists. reflexivity.
Qed.

(* ---- RETURN options ---- *)
Definition so_step (st : search_opts) (n : bytes) : search_opts :=
  let '(mkSO a b c d e) := st in
  if is n "MIN" then mkSO true b c d e
  else if is n "MAX" then mkSO a true c d e
  else if is n "ALL" then mkSO a b true d e
  else if is n "COUNT" then mkSO a b c true e
  else if is n "SAVE" then mkSO a b c d true
  else st.

Definition so_names : list bytes := map s2b ["MIN"; "MAX"; "ALL"; "COUNT"; "SAVE"]%string.

Lemma ret_names : forall o order n, In n (map_items (search_names o) order) -> In n so_names.
Proof.
  intros o order n H. apply map_items_in in H. destruct H as (i & _ & Hi).
  destruct i as [|[|[|[|[|i]]]]]; cbn in Hi; try (injection Hi as <- _; cbn; tauto).
  destruct i; discriminate.
Qed.

Lemma return_item_ok : forall n, In n so_names -> forall sg st r, lit n = Some sg -> delimited r ->
  search_return_item st (flatten sg ++ r) = Some (so_step st n, r).
Proof.
  intros n Hn sg st r Hsg Hr. unfold lit in Hsg. injection Hsg as <-. rewrite flatten_single.
  unfold search_return_item, bind.
  destruct Hn as [<-|[<-|[<-|[<-|[<-|[]]]]]]; (rewrite x_atom_lit; [|discriminate|reflexivity|exact Hr]);
    destruct st; reflexivity.
Qed.

Lemma return_item_start : forall n, In n so_names -> forall sg, lit n = Some sg -> item_start (flatten sg).
Proof.
  intros n Hn sg Hsg. unfold lit in Hsg. injection Hsg as <-. rewrite flatten_single.
  destruct Hn as [<-|[<-|[<-|[<-|[<-|[]]]]]]; cbn; repeat split; reflexivity.
Qed.

Definition mem (k : bytes) (l : list bytes) : bool := existsb (bytes_eqb k) l.

Lemma so_fold : forall l, Forall (fun n => In n so_names) l -> forall st,
  fold_left so_step l st =
  mkSO (so_min st || mem (s2b "MIN") l) (so_max st || mem (s2b "MAX") l) (so_all st || mem (s2b "ALL") l)
       (so_count st || mem (s2b "COUNT") l) (so_save st || mem (s2b "SAVE") l).
Proof.
  induction l as [|n l IH]; intros HF st.
  - destruct st. cbn. rewrite !orb_false_r. reflexivity.
  - inversion HF as [|n0 l0 Hn Hl]; subst. cbn [fold_left]. rewrite (IH Hl).
    destruct st as [a b c d e].
    destruct Hn as [<-|[<-|[<-|[<-|[<-|[]]]]]]; cbn [so_min so_max so_all so_count so_save mem existsb];
      unfold so_step;
      repeat match goal with |- context [is ?x ?k] =>
        let v := eval vm_compute in (is x k) in change (is x k) with v end;
      repeat match goal with |- context [bytes_eqb (s2b ?x) (s2b ?k)] =>
        let v := eval vm_compute in (bytes_eqb (s2b x) (s2b k)) in change (bytes_eqb (s2b x) (s2b k)) with v end;
      cbv iota; cbn [so_min so_max so_all so_count so_save orb];
      rewrite ?orb_true_r; reflexivity.
Qed.

Lemma mem_ret : forall o order k i b, covers order -> (i < 9)%nat ->
  nth_error (search_names o) i = Some (k, b) ->
  (forall j b', nth_error (search_names o) j = Some (k, b') -> j = i) ->
  mem k (map_items (search_names o) order) = b.
Proof.
  intros o order k i b Hc Hi Hn Hu. unfold mem. destruct b.
  - apply existsb_exists. exists k. split; [|apply bytes_eqb_refl].
    apply map_items_in. exists i. split; [apply Hc; exact Hi|exact Hn].
  - destruct (existsb (bytes_eqb k) (map_items (search_names o) order)) eqn:E; [|reflexivity].
    apply existsb_exists in E. destruct E as (x & Hx & Ex). apply bytes_eqb_true_iff in Ex. subst x.
    apply map_items_in in Hx. destruct Hx as (j & _ & Hj). pose proof (Hu j true Hj). subst j. congruence.
Qed.

Ltac uniq_name :=
  let j := fresh "j" in let b' := fresh "b'" in let H := fresh "H" in
  intros j b' H; destruct j as [|[|[|[|[|j]]]]]; cbn in H; try reflexivity;
  try (injection H; intros; discriminate); destruct j; discriminate.

Lemma ret_fold : forall o order, covers order ->
  fold_left so_step (map_items (search_names o) order) (mkSO false false false false false) = o.
Proof.
  intros o order Hc. rewrite so_fold.
  - cbn [so_min so_max so_all so_count so_save orb]. destruct o as [a b c d e].
    rewrite (mem_ret _ order (s2b "MIN") 0 a Hc); [|lia|reflexivity|uniq_name].
    rewrite (mem_ret _ order (s2b "MAX") 1 b Hc); [|lia|reflexivity|uniq_name].
    rewrite (mem_ret _ order (s2b "ALL") 2 c Hc); [|lia|reflexivity|uniq_name].
    rewrite (mem_ret _ order (s2b "COUNT") 3 d Hc); [|lia|reflexivity|uniq_name].
    rewrite (mem_ret _ order (s2b "SAVE") 4 e Hc); [|lia|reflexivity|uniq_name].
    reflexivity.
  - apply Forall_forall. intros n Hn. eapply ret_names. exact Hn.
Qed.

(* ---- handleSearch, cut in three ---- *)
Definition search_tail (uid : bool) (o : search_opts) (a2 : bytes) : P (list bcall) :=
  do k0 <- (fun s => match a2 with
                     | [] => read_key (S (length s)) 0 0 s
                     | _ => read_key_atom (read_key (S (length s)) 0 1) a2 s
                     end);
  do ks <- (fun s => keys_loop (S (length s)) [k0] s);
  x_crlf;;
  let o' := if so_min o || so_max o || so_all o || so_count o || so_save o then o
            else mkSO false false true false false in
  ret [BSearch uid (parse_keys ks) o'].

Definition search_rest (uid : bool) (o : search_opts) (a1 : bytes) : P (list bcall) :=
  do a2 <- (if equal_fold_ascii a1 (s2b "CHARSET") then
              x_sp;; do cs <- x_astring; x_sp;;
              guard (is (upper cs) "US-ASCII" || is (upper cs) "UTF-8");;
              do a <- maybe key_atom; ret (opt_bytes a)
            else ret a1);
  search_tail uid o a2.

Lemma h_search_eq : forall uid,
  h_search uid =
  (x_sp;;
   do a0 <- maybe key_atom;
   do ro <- (if equal_fold_ascii (opt_bytes a0) (s2b "RETURN") then
               x_sp;; do o <- x_list search_return_item (mkSO false false false false false);
               x_sp;; do a <- maybe key_atom; ret (o, opt_bytes a)
             else ret (mkSO false false false false false, opt_bytes a0));
   let '(o, a1) := ro in search_rest uid o a1).
Proof. reflexivity. Qed.

Lemma delimited_crlf : delimited CRLF_.
Proof. split; reflexivity. Qed.

Lemma search_tail_ok : forall c uid o cr k, wf_crit cr -> (crit_depth cr < MAX_DEPTH)%nat ->
  w_key (ecfg c) cr = Some k ->
  search_tail uid o [] (flatten k ++ CRLF_) = Some ([BSearch uid (norm_crit cr) (norm_sopts o)], []).
Proof.
  intros c uid o cr k Hw Hd Hk. unfold search_tail, bind.
  rewrite (read_key_w_key_B (ecfg c) eq_refl cr k CRLF_ _ 0 0 Hw); [| lia | lia | | apply delimited_crlf | exact Hk].
  - change (keys_loop (S (length CRLF_)) [KList (keys_sent cr)] CRLF_)
      with (Some ([KList (keys_sent cr)], CRLF_)).
    change (x_crlf CRLF_) with (Some (tt, @nil ascii)). unfold ret.
    unfold parse_keys. cbn [fold_left]. rewrite apply_klist, (apply_keys_sent_A cr Hw). reflexivity.
  - pose proof (w_key_len _ _ _ Hk). rewrite app_length. lia.
Qed.

Lemma search_rest_ok : forall c uid o cr k (b : bool) cs, wf_crit cr -> (crit_depth cr < MAX_DEPTH)%nat ->
  w_key (ecfg c) cr = Some k -> when b (slit "CHARSET UTF-8 ") = Some cs ->
  after_sp (flatten cs ++ flatten k ++ CRLF_) /\
  exists a T, maybe key_atom (flatten cs ++ flatten k ++ CRLF_) = Some (a, T) /\
    (a = None \/ a = Some (s2b "CHARSET")) /\
    search_rest uid o (opt_bytes a) T = Some ([BSearch uid (norm_crit cr) (norm_sopts o)], []).
Proof.
  intros c uid o cr k b cs Hw Hd Hk Hcs.
  pose proof (search_tail_ok c uid o cr k Hw Hd Hk) as HT.
  destruct (w_key_paren _ _ _ Hk) as (t & Et).
  assert (Hkey : maybe key_atom (flatten k ++ CRLF_) = Some (None, flatten k ++ CRLF_)).
  { rewrite Et. cbn [app]. unfold maybe, key_atom. rewrite dec_func_no by reflexivity. reflexivity. }
  destruct b; cbn [when] in Hcs.
  - assert (Ecs : [SBytes (s2b "CHARSET UTF-8 ")] = cs) by (unfold slit, lit in Hcs; congruence). subst cs. clear Hcs.
    rewrite flatten_single. split; [cbn; split; reflexivity|].
    exists (Some (s2b "CHARSET")), (SP_ :: s2b "UTF-8" ++ SP_ :: flatten k ++ CRLF_). split; [|split; [right; reflexivity|]].
    + change (s2b "CHARSET UTF-8 " ++ flatten k ++ CRLF_)
        with (s2b "CHARSET" ++ SP_ :: s2b "UTF-8" ++ SP_ :: flatten k ++ CRLF_).
      unfold maybe, key_atom. rewrite dec_func_app; [reflexivity|discriminate|reflexivity|reflexivity].
    + unfold search_rest, bind. cbn [opt_bytes].
      change (equal_fold_ascii (s2b "CHARSET") (s2b "CHARSET")) with true. cbv beta iota.
      rewrite x_sp_sp by (cbn; split; reflexivity).
      assert (Ha : x_astring (s2b "UTF-8" ++ SP_ :: flatten k ++ CRLF_) = Some (s2b "UTF-8", SP_ :: flatten k ++ CRLF_)).
      { unfold x_astring, expect, s_astring.
        change (s2b "UTF-8" ++ SP_ :: flatten k ++ CRLF_) with (ch "U" :: s2b "TF-8" ++ SP_ :: flatten k ++ CRLF_).
        rewrite s_string_miss by reflexivity.
        change (ch "U" :: s2b "TF-8" ++ SP_ :: flatten k ++ CRLF_) with (s2b "UTF-8" ++ SP_ :: flatten k ++ CRLF_).
        rewrite dec_atom_app; [reflexivity|discriminate|reflexivity|reflexivity]. }
      rewrite Ha. rewrite x_sp_sp by (rewrite Et; cbn; split; reflexivity).
      change (guard (is (upper (s2b "UTF-8")) "US-ASCII" || is (upper (s2b "UTF-8")) "UTF-8")) with (@ret unit tt).
      unfold ret at 1. rewrite Hkey. unfold ret at 1. cbn [opt_bytes]. exact HT.
  - unfold nothing in Hcs. injection Hcs as <-. cbn [flatten flat_map app]. split; [rewrite Et; cbn; split; reflexivity|].
    exists None, (flatten k ++ CRLF_). split; [exact Hkey|split; [left; reflexivity|]].
    unfold search_rest, bind. cbn [opt_bytes].
    change (equal_fold_ascii [] (s2b "CHARSET")) with false. cbv beta iota. unfold ret at 1. exact HT.
Qed.

Lemma h_search_ok : forall c uid o order cr k (b : bool) cs rt, wf_crit cr -> (crit_depth cr < MAX_DEPTH)%nat ->
  covers order ->
  w_key (ecfg c) cr = Some k -> when b (slit "CHARSET UTF-8 ") = Some cs ->
  when (negb (nilb (map_items (search_names o) order)))
       (slit " RETURN " +++ plist (map lit (map_items (search_names o) order))) = Some rt ->
  exists rest, flatten rt ++ SP_ :: flatten cs ++ flatten k ++ CRLF_ = SP_ :: rest /\
    h_search uid (SP_ :: rest) = Some ([BSearch uid (norm_crit cr) (norm_sopts o)], []).
Proof.
  intros c uid o order cr k b cs rt Hw Hd Hcov Hk Hcs Hrt.
  destruct (search_rest_ok c uid o cr k b cs Hw Hd Hk Hcs) as (Hasp & a & T & Hkey & Ha & HR).
  pose proof (ret_fold o order Hcov) as Hfold.
  set (CT := flatten cs ++ flatten k ++ CRLF_) in *.
  destruct (map_items (search_names o) order) as [|r0 rl] eqn:Er; cbn [nilb negb when] in Hrt.
  - unfold nothing in Hrt. injection Hrt as <-. cbn [flatten flat_map app]. exists CT. split; [reflexivity|].
    rewrite h_search_eq. unfold bind. rewrite x_sp_sp by exact Hasp. rewrite Hkey.
    assert (Ef : equal_fold_ascii (opt_bytes a) (s2b "RETURN") = false) by (destruct Ha as [->| ->]; reflexivity).
    rewrite Ef. unfold ret at 1. cbn [fold_left] in Hfold. rewrite Hfold. exact HR.
  - apply cat_some in Hrt. destruct Hrt as (x & pl & Hx & Hpl & ->). unfold slit, lit in Hx. injection Hx as <-.
    rewrite flatten_app, flatten_single.
    exists (s2b "RETURN" ++ SP_ :: flatten pl ++ SP_ :: CT). split; [rewrite <- !app_assoc; reflexivity|].
    rewrite h_search_eq. unfold bind. rewrite x_sp_sp by (cbn; split; reflexivity).
    assert (Hk0 : maybe key_atom (s2b "RETURN" ++ SP_ :: flatten pl ++ SP_ :: CT) =
                  Some (Some (s2b "RETURN"), SP_ :: flatten pl ++ SP_ :: CT)).
    { unfold maybe, key_atom. rewrite dec_func_app; [reflexivity|discriminate|reflexivity|reflexivity]. }
    rewrite Hk0. cbn [opt_bytes]. change (equal_fold_ascii (s2b "RETURN") (s2b "RETURN")) with true. cbv beta iota.
    assert (Hps : item_start (flatten pl)).
    { unfold plist in Hpl. apply cat_some in Hpl. destruct Hpl as (x & y & Hx & _ & ->).
      unfold slit, lit in Hx. injection Hx as <-. rewrite flatten_app, flatten_single. cbn. repeat split; reflexivity. }
    rewrite x_sp_sp by (apply item_start_after_sp; exact Hps).
    rewrite (x_list_plist _ _ search_return_item lit so_step (r0 :: rl) pl _ (SP_ :: CT)).
    + rewrite x_sp_sp by exact Hasp. rewrite Hkey. unfold ret at 1. rewrite Hfold. exact HR.
    + intros n Hn sg st r. apply return_item_ok. apply (ret_names o order). rewrite Er. exact Hn.
    + intros n Hn sg. apply return_item_start. apply (ret_names o order). rewrite Er. exact Hn.
    + exact Hpl.
Qed.

Lemma read_command_search : forall lp tag uid nm rest, wf_tag tag ->
  cmd_name "SEARCH" uid = Some nm ->
  read_command lp (tag ++ SP_ :: flatten nm ++ SP_ :: rest) = h_search uid (SP_ :: rest).
Proof.
  intros lp tag uid nm rest [Ht1 Ht2] Hnm. unfold read_command, bind.
  rewrite x_atom_lit; [|exact Ht1|exact Ht2|apply delimited_sp].
  destruct uid; cbn [cmd_name] in Hnm; unfold slit, lit in Hnm;
    [assert (Enm : [SBytes (s2b "UID " ++ s2b "SEARCH")] = nm) by congruence
    |assert (Enm : [SBytes (s2b "SEARCH")] = nm) by congruence]; subst nm; clear Hnm; rewrite flatten_single.
  - rewrite x_sp_sp by (cbn; split; reflexivity).
    assert (EE : forall X, (s2b "UID " ++ s2b "SEARCH") ++ X = s2b "UID" ++ SP_ :: s2b "SEARCH" ++ X) by reflexivity.
    rewrite EE. clear EE.
    rewrite x_atom_lit; [|discriminate|reflexivity|apply delimited_sp].
    change (is (upper (s2b "UID")) "UID") with true. cbv beta iota.
    rewrite x_sp_sp by (cbn; split; reflexivity).
    rewrite x_atom_lit; [|discriminate|reflexivity|apply delimited_sp].
    repeat match goal with |- context [is (upper (s2b ?x)) ?k] =>
      let v := eval vm_compute in (is (upper (s2b x)) k) in change (is (upper (s2b x)) k) with v end.
    cbv beta iota. reflexivity.
  - rewrite x_sp_sp by (cbn; split; reflexivity).
    rewrite x_atom_lit; [|discriminate|reflexivity|apply delimited_sp].
    repeat match goal with |- context [is (upper (s2b ?x)) ?k] =>
      let v := eval vm_compute in (is (upper (s2b x)) k) in change (is (upper (s2b x)) k) with v end.
    cbv beta iota. reflexivity.
Qed.

Lemma search_delivery_D : forall c lp order tag uid cr o,
  wf_req (QSearch uid cr o) -> covers order -> wf_tag tag ->
  Forall2 (delivers lp tag) (w_req c order (QSearch uid cr o)) (norm_req c (QSearch uid cr o)).
Proof.
  intros c lp order tag uid cr o [Hw Hd] Hcov Htag. cbn [w_req norm_req].
  constructor; [|constructor]. unfold delivers. intros segs H.
  unfold w_line in H. apply cat_some in H. destruct H as (x1 & y1 & Hx1 & Hy1 & ->).
  apply cat_some in Hy1. destruct Hy1 as (x2 & y2 & Hx2 & Hy2 & ->).
  apply cat_some in Hy2. destruct Hy2 as (body & x3 & Hb & Hx3 & ->).
  unfold lit in Hx1, Hx3. unfold sp, lit in Hx2. injection Hx1 as <-. injection Hx2 as <-. injection Hx3 as <-.
  unfold w_search in Hb.
  apply cat_some in Hb. destruct Hb as (nm & y3 & Hnm & Hy3 & ->).
  apply cat_some in Hy3. destruct Hy3 as (rt & y4 & Hrt & Hy4 & ->).
  apply cat_some in Hy4. destruct Hy4 as (x5 & y5 & Hx5 & Hy5 & ->).
  apply cat_some in Hy5. destruct Hy5 as (cs & k & Hcs & Hk & ->).
  unfold sp, lit in Hx5. injection Hx5 as <-.
  destruct (h_search_ok c uid o order cr k _ cs rt Hw Hd Hcov Hk Hcs Hrt) as (rest & Er & Hh).
  rewrite !flatten_app, !flatten_single. rewrite <- !app_assoc. cbn [app].
  pose proof (read_command_search lp tag uid nm rest Htag Hnm) as RC.
  unfold serve_line. unfold byte, bytes in *. rewrite Er, RC, Hh. reflexivity.
Qed.


(* ================= the encoder does not fail ================= *)
Definition okE (e : eres) : Prop := exists sg, e = Some sg.

Lemma ok_cat : forall a b, okE a -> okE b -> okE (a +++ b).
Proof. intros a b [x ->] [y ->]. eexists. reflexivity. Qed.
Lemma ok_lit : forall b, okE (lit b).
Proof. intros b. eexists. reflexivity. Qed.
Lemma ok_slit : forall s, okE (slit s).
Proof. intros s. apply ok_lit. Qed.
Lemma ok_sp : okE sp.
Proof. apply ok_lit. Qed.
Lemma ok_when : forall b e, okE e -> okE (when b e).
Proof. intros [|] e H; [exact H|]. eexists. reflexivity. Qed.

Lemma ok_join : forall l, Forall okE l -> okE (join_sp l).
Proof.
  induction l as [|x l IH]; intros H; [eexists; reflexivity|].
  inversion H as [|x0 l0 Hx Hl]; subst. destruct l as [|y l]; [exact Hx|].
  rewrite join_sp_cons2. apply ok_cat; [exact Hx|]. apply ok_cat; [apply ok_sp|]. apply IH. exact Hl.
Qed.
Lemma ok_plist : forall l, Forall okE l -> okE (plist l).
Proof. intros l H. unfold plist. apply ok_cat; [apply ok_slit|]. apply ok_cat; [apply ok_join; exact H|apply ok_slit]. Qed.

Lemma enc_string_ok : forall cfg s, cont_granted cfg = Some true -> okE (enc_string cfg s).
Proof.
  intros cfg s Hc. unfold enc_string. destruct (valid_quoted cfg s); [eexists; reflexivity|].
  unfold enc_literal. rewrite Hc.
  destruct (client_side cfg && (negb (literal_minus cfg) || (4096 <? N.of_nat (length s))) && negb (literal_plus cfg));
    eexists; reflexivity.
Qed.

Lemma enc_numset_ok : forall s, s <> [] -> okE (enc_numset s).
Proof.
  intros s Hs. unfold enc_numset. destruct (to_string_start s Hs) as (c & t & E & _). rewrite E.
  eexists. reflexivity.
Qed.
Lemma w_numarg_ok : forall u, wf_uidset u -> okE (w_numarg u).
Proof. intros [|s] H; cbn [w_numarg]; [apply ok_slit|]. destruct H as [_ H]. apply enc_numset_ok. exact H. Qed.
Lemma enc_number64_ok : forall z, wf_int64 z -> okE (enc_number64 z).
Proof.
  intros z [H _]. unfold enc_number64. assert (E : (z <? 0)%Z = false) by (apply Z.ltb_ge; exact H).
  rewrite E. eexists. reflexivity.
Qed.
Lemma enc_flag_ok : forall f, wf_flag f -> okE (enc_flag f).
Proof. intros f H. unfold wf_flag in H. destruct (enc_flag f) as [x|]; [eexists; reflexivity|congruence]. Qed.
Lemma w_flag_key_ok : forall un f, wf_flag f -> okE (w_flag_key un f).
Proof.
  intros un f H. unfold w_flag_key. destruct (sys_flag_key f); [apply ok_lit|].
  apply ok_cat; [destruct un; apply ok_slit|apply enc_flag_ok; exact H].
Qed.
Lemma w_dates_ok : forall cfg a b c since before, cont_granted cfg = Some true ->
  Forall okE (w_dates cfg a b c since before).
Proof.
  intros cfg a b c since before Hc. unfold w_dates.
  assert (D : forall nm t, okE (lit (s2b nm) +++ sp +++ enc_string cfg (fmt_date (t_day t)))).
  { intros nm t. apply ok_cat; [apply ok_lit|]. apply ok_cat; [apply ok_sp|apply enc_string_ok; exact Hc]. }
  destruct (negb (t_is_zero since) && negb (t_is_zero before) && (t_day before =? t_day since + 1)%Z).
  - constructor; [apply D|constructor].
  - apply Forall_app. split.
    + destruct (t_is_zero since); [constructor|]. constructor; [apply D|constructor].
    + destruct (t_is_zero before); [constructor|]. constructor; [apply D|constructor].
Qed.
Lemma w_header_ok : forall cfg kv, cont_granted cfg = Some true -> okE (w_header cfg kv).
Proof.
  intros cfg kv Hc. unfold w_header. apply ok_cat.
  - destruct (special_hdr (fst kv)); [apply ok_lit|]. apply ok_cat; [apply ok_slit|apply enc_string_ok; exact Hc].
  - apply ok_cat; [apply ok_sp|apply enc_string_ok; exact Hc].
Qed.

Lemma Forall_map_okE : forall A (g : A -> eres) (Q : A -> Prop) l,
  Forall Q l -> (forall x, Q x -> okE (g x)) -> Forall okE (map g l).
Proof.
  intros A g Q l HF H. apply Forall_forall. intros e He. apply in_map_iff in He.
  destruct He as (x & <- & Hx). apply H. rewrite Forall_forall in HF. apply HF. exact Hx.
Qed.

Lemma w_key_ok : forall cfg, cont_granted cfg = Some true -> forall c, wf_crit c -> okE (w_key cfg c).
Proof.
  intros cfg Hc c. induction c using ccrit_ind'. intros Hw.
  rewrite wf_crit_eq in Hw.
  destruct Hw as (Hseq & Huid & Hd1 & Hd2 & Hd3 & Hd4 & Hh & Hb & Ht & Hfl & Hnf & Hla & Hsm & Hm & Hn & Ho).
  subst modseq. apply wf_nots_forall in Hn. apply wf_ors_forall in Ho.
  rewrite w_key_eq.
  assert (HI : Forall okE (items_list cfg seqs uids since before ssince sbefore hdr body text flag notflag larger smaller None nots ors)).
  { unfold items_list. repeat (apply Forall_app; split).
    - eapply Forall_map_okE; [exact Hseq|]. intros s [_ Hs]. apply enc_numset_ok. exact Hs.
    - eapply Forall_map_okE; [exact Huid|]. intros u Hu. apply ok_cat; [apply ok_slit|apply w_numarg_ok; exact Hu].
    - apply w_dates_ok. exact Hc.
    - apply w_dates_ok. exact Hc.
    - eapply Forall_map_okE; [exact Hh|]. intros kv _. apply w_header_ok. exact Hc.
    - eapply Forall_map_okE; [exact Hb|]. intros s _. apply ok_cat; [apply ok_slit|apply enc_string_ok; exact Hc].
    - eapply Forall_map_okE; [exact Ht|]. intros s _. apply ok_cat; [apply ok_slit|apply enc_string_ok; exact Hc].
    - eapply Forall_map_okE; [exact Hfl|]. intros s Hs. apply w_flag_key_ok. exact Hs.
    - eapply Forall_map_okE; [exact Hnf|]. intros s Hs. apply w_flag_key_ok. exact Hs.
    - destruct (0 <? larger)%Z; [|constructor]. constructor; [|constructor].
      apply ok_cat; [apply ok_slit|apply enc_number64_ok; exact Hla].
    - destruct (0 <? smaller)%Z; [|constructor]. constructor; [|constructor].
      apply ok_cat; [apply ok_slit|apply enc_number64_ok; exact Hsm].
    - constructor.
    - apply Forall_forall. intros e He. apply in_map_iff in He. destruct He as (n & <- & Hin).
      rewrite Forall_forall in H, Hn. apply ok_cat; [apply ok_slit|]. apply H; auto.
    - apply Forall_forall. intros e He. apply in_map_iff in He. destruct He as (p & <- & Hin).
      rewrite Forall_forall in H0, Ho. destruct (H0 p Hin) as [A B]. destruct (Ho p Hin) as [C D].
      apply ok_cat; [apply ok_slit|]. apply ok_cat; [apply A; exact C|]. apply ok_cat; [apply ok_sp|apply B; exact D]. }
  apply ok_cat; [apply ok_slit|]. apply ok_cat; [|apply ok_slit].
  destruct (items_list cfg seqs uids since before ssince sbefore hdr body text flag notflag larger smaller None nots ors) eqn:E;
    [apply ok_slit|]. apply ok_join. exact HI.
Qed.

Lemma search_encodable_E : forall c order tag uid cr o,
  wf_req (QSearch uid cr o) -> c_cont c = Some true ->
  Forall (fun body => w_line tag body <> None) (w_req c order (QSearch uid cr o)).
Proof.
  intros c order tag uid cr o [Hw _] Hc. cbn [w_req]. constructor; [|constructor].
  assert (H : okE (w_line tag (w_search c uid cr o order))).
  { unfold w_line. apply ok_cat; [apply ok_lit|]. apply ok_cat; [apply ok_sp|]. apply ok_cat; [|apply ok_lit].
    unfold w_search. apply ok_cat; [destruct uid; apply ok_lit|].
    apply ok_cat.
    { apply ok_when. apply ok_cat; [apply ok_slit|]. apply ok_plist.
      apply Forall_forall. intros e He. apply in_map_iff in He. destruct He as (x & <- & _). apply ok_lit. }
    apply ok_cat; [apply ok_sp|]. apply ok_cat; [apply ok_when; apply ok_slit|].
    apply w_key_ok; [|exact Hw]. destruct c. exact Hc. }
  destruct H as [sg E]. rewrite E. discriminate.
Qed.


(* ================= the four statements ================= *)

(* stage 1 (bytes): readSearchKey on what writeSearchKey wrote returns the list of keys sent *)
Lemma read_key_w_key : forall cfg c segs rest fuel d kd,
  client_side cfg = true -> wf_crit c ->
  (d + crit_depth c < MAX_DEPTH)%nat -> (kd + crit_depth c < MAX_DEPTH)%nat ->
  (2 * crit_depth c <= fuel)%nat -> delimited rest ->
  w_key cfg c = Some segs ->
  read_key fuel d kd (flatten segs ++ rest) = Some (KList (keys_sent c), rest).
Proof.
  intros cfg c segs rest fuel d kd Hc Hw Hd Hkd Hf Hr Hk.
  exact (read_key_w_key_B cfg Hc c segs rest fuel d kd Hw Hd Hkd Hf Hr Hk).
Qed.

(* the complement: a key that is the operand of maxSearchKeyDepth or more NOT / OR keys is
   refused whatever it is, before a byte of it is read *)
Lemma read_key_too_deep : forall fuel d kd s, (MAX_DEPTH <= kd)%nat -> read_key fuel d kd s = None.
Proof.
  intros [|f] d kd s H; [reflexivity|]. rewrite read_key_S.
  replace (Nat.leb MAX_DEPTH kd) with true by (symmetry; apply Nat.leb_le; exact H). reflexivity.
Qed.

(* stage 2 (no bytes): folding the keys sent into an empty criteria rebuilds the caller's tree *)
Lemma apply_keys_sent : forall c, wf_crit c ->
  fold_left apply_key (keys_sent c) empty_crit = norm_crit c.
Proof.
  exact apply_keys_sent_A.
Qed.

Lemma search_delivery : forall c lp order tag uid cr o,
  wf_req (QSearch uid cr o) -> covers order -> wf_tag tag ->
  Forall2 (delivers lp tag) (w_req c order (QSearch uid cr o)) (norm_req c (QSearch uid cr o)).
Proof.
  exact search_delivery_D.
Qed.

Lemma search_encodable : forall c order tag uid cr o,
  wf_req (QSearch uid cr o) -> c_cont c = Some true ->
  Forall (fun body => w_line tag body <> None) (w_req c order (QSearch uid cr o)).
Proof.
  exact search_encodable_E.
Qed.

(* n NOT keys in front of any text, "NOT NOT ... NOT " ++ s, as an unauthenticated peer may send
   them: refused as soon as the chain reaches the bound, whatever follows and whatever the fuel *)
Fixpoint not_chain (n : nat) (s : bytes) : bytes :=
  match n with O => s | S m => s2b "NOT " ++ not_chain m s end.

Lemma read_key_not_chain : forall n fuel d kd s,
  (MAX_DEPTH <= kd + n)%nat -> read_key fuel d kd (not_chain n s) = None.
Proof.
  induction n as [|n IH]; intros fuel d kd s H.
  - apply read_key_too_deep. lia.
  - destruct fuel as [|f]; [reflexivity|].
    destruct (Nat.leb MAX_DEPTH kd) eqn:E.
    + apply read_key_too_deep. apply Nat.leb_le. exact E.
    + apply Nat.leb_gt in E. cbn [not_chain].
      change (s2b "NOT " ++ not_chain n s) with (s2b "NOT" ++ SP_ :: not_chain n s).
      rewrite read_key_atomic; [|exact E|discriminate|reflexivity|apply delimited_sp].
      change (read_key_atom (read_key f d (S kd)) (s2b "NOT") (SP_ :: not_chain n s))
        with ((x_sp;; do k <- read_key f d (S kd); ret (KNot k)) (SP_ :: not_chain n s)).
      unfold bind. destruct (x_sp (SP_ :: not_chain n s)) as [[[] r]|] eqn:Ex; [|reflexivity].
      assert (r = not_chain n s).
      { unfold x_sp, expect in Ex. cbn [dec_sp] in Ex. rewrite beqb_rfl in Ex.
        destruct (not_chain n s) as [|c t]; [discriminate|].
        destruct (beqb c CR_ || beqb c LF_); [discriminate|]. injection Ex as <-. reflexivity. }
      subst r. rewrite IH by lia. reflexivity.
Qed.
