(* Proofs/ClientRespValid.v — C11: everything the response reader delivers satisfies [ev_valid],
   and the accessors on delivered search data never reach their panic branch.

   Method: a Hoare-style predicate [sat p Q] over the parser monad of Model/ClientResp.v whose
   state invariant is "the log is valid" and whose postcondition speaks about the returned value
   only.  Rules for the monad, for each primitive, for each reader in model order.             *)
From Coq Require Import ZifyN ZifyNat ZifyBool.
From GoImap.Base Require Import Bytes.
From GoImap.Model Require Import NumSet MatchList Utf7 Wire ClientResp.
From GoImap.Proofs Require Import NumSetSpec NumSetProofs ClientRespSpec.
Open Scope N_scope.

(* ---------------------------------------------------------------------------------------- *)
(* the predicate                                                                              *)

Definition inv (s : st) : Prop := forallb ev_valid (s_log s) = true.

Definition sat {A} (p : P A) (Q : A -> Prop) : Prop :=
  forall s, inv s ->
    match p s with
    | Ok v s' => inv s' /\ Q v
    | Err s' => inv s'
    | Fuel => True
    | Crash => True
    end.

Definition TT {A} : A -> Prop := fun _ => True.
Definition optP {A} (Q : A -> Prop) (o : option A) : Prop :=
  match o with Some x => Q x | None => True end.

Lemma sat_weaken {A} (p : P A) (Q R : A -> Prop) :
  sat p Q -> (forall v, Q v -> R v) -> sat p R.
Proof.
  intros Hp HQR s Hs. specialize (Hp s Hs). destruct (p s); auto.
  destruct Hp; split; auto.
Qed.

Lemma sat_TT {A} (p : P A) (Q : A -> Prop) : sat p Q -> sat p TT.
Proof. intros H. apply (sat_weaken p Q); [exact H|]. intros; exact I. Qed.

Lemma sat_ret {A} (v : A) (Q : A -> Prop) : Q v -> sat (ret v) Q.
Proof. intros H s Hs. cbn. auto. Qed.

Lemma sat_fail {A} (Q : A -> Prop) : sat fail Q.
Proof. intros s Hs. exact Hs. Qed.

Lemma sat_expect_fail {A} (Q : A -> Prop) : sat expect_fail Q.
Proof. intros s Hs. exact Hs. Qed.

Lemma sat_crash {A} (Q : A -> Prop) : sat crash Q.
Proof. intros s Hs. exact I. Qed.

Lemma sat_fuel {A} (Q : A -> Prop) : sat out_of_fuel Q.
Proof. intros s Hs. exact I. Qed.

Lemma sat_bind {A B} (p : P A) (q : A -> P B) (Q : A -> Prop) (R : B -> Prop) :
  sat p Q -> (forall v, Q v -> sat (q v) R) -> sat (bind p q) R.
Proof.
  intros Hp Hq s Hs. unfold bind. specialize (Hp s Hs).
  destruct (p s) as [v s'| s' | |]; auto.
  destruct Hp as [Hs' Hv]. exact (Hq v Hv s' Hs').
Qed.

Lemma sat_bind_T {A B} (p : P A) (q : A -> P B) (R : B -> Prop) :
  sat p TT -> (forall v, sat (q v) R) -> sat (bind p q) R.
Proof. intros Hp Hq. apply (sat_bind p q TT R Hp). intros v _. apply Hq. Qed.

Lemma sat_with_fuel {A} (f : nat -> P A) (Q : A -> Prop) :
  (forall k, sat (f k) Q) -> sat (with_fuel f) Q.
Proof. intros H s Hs. unfold with_fuel. apply H. exact Hs. Qed.

Lemma sat_emit (e : ev) : ev_valid e = true -> sat (emit e) TT.
Proof.
  intros He s Hs. unfold emit, inv. cbn [s_log forallb]. rewrite He. split; [exact Hs|exact I].
Qed.

(* parsers written as raw functions that leave the log alone *)
Definition keeps {A} (p : P A) : Prop :=
  forall s, match p s with
            | Ok _ s' => s_log s' = s_log s
            | Err s' => s_log s' = s_log s
            | Fuel => True
            | Crash => True
            end.

Lemma keeps_sat {A} (p : P A) : keeps p -> sat p TT.
Proof.
  intros H s Hs. specialize (H s). unfold inv in *. destruct (p s); auto.
  - rewrite H. split; [exact Hs|exact I].
  - rewrite H. exact Hs.
Qed.

(* ---------------------------------------------------------------------------------------- *)
(* automation                                                                                 *)

Ltac vpre :=
  cbv beta in *;
  cbn [optP TT fst snd] in *;
  repeat match goal with
         | H : _ /\ _ |- _ => destruct H
         | H : (_, _) = (_, _) |- _ => inversion H; subst; clear H
         | H : Some _ = Some _ |- _ => inversion H; subst; clear H
         end.

Ltac bsplit :=
  repeat match goal with H : _ && _ = true |- _ => apply andb_true_iff in H; destruct H end;
  repeat (apply andb_true_iff; split);
  try assumption; try (apply negb_true_iff; assumption); try lia.

Ltac vfin :=
  vpre;
  cbn [ev_valid fitem_valid rcode_valid opt_ok
       es_all es_min es_max es_count es_modseq es_tag es_uid] in *;
  unfold msgnum_ok, resultset_ok, M32 in *;
  first [ exact I | assumption | reflexivity | lia | idtac ].

(* lemmas about named parsers are added to this tactic as they are proved *)
Ltac sat_lem := fail.

Ltac sat_hyp :=
  match goal with
  | H : context [sat] |- _ => eapply H
  end.

Ltac sat_go :=
  intros; cbv beta;
  lazymatch goal with
  | |- sat (bind _ _) _ =>
      first [ eapply sat_bind; [ solve [sat_go] | intros ? ? ]
            | eapply sat_bind_T; [ | intros ? ] ];
      sat_go
  | |- sat (ret _) _ => apply sat_ret; vfin
  | |- sat fail _ => apply sat_fail
  | |- sat expect_fail _ => apply sat_expect_fail
  | |- sat crash _ => apply sat_crash
  | |- sat out_of_fuel _ => apply sat_fuel
  | |- sat (emit _) _ =>
      first [ eapply sat_emit | eapply sat_weaken; [eapply sat_emit | intros; exact I] ]; vfin
  | |- sat (with_fuel _) _ => apply sat_with_fuel; intros ?; sat_go
  | |- sat (match ?o with _ => _ end) _ => destruct o eqn:?; sat_go
  | |- sat _ _ =>
      first [ sat_hyp; sat_go
            | sat_lem; sat_go
            | eapply sat_weaken; [ first [sat_hyp | sat_lem] | intros ? ? ]; sat_go
            | idtac ]
  | |- _ => vfin
  end.

(* ---------------------------------------------------------------------------------------- *)
(* primitives                                                                                 *)

Ltac keeps_tac := intros s; cbn; repeat (match goal with
  | |- context [match ?x with _ => _ end] =>
      lazymatch x with
      | context [match _ with _ => _ end] => fail
      | _ => destruct x eqn:?; cbn
      end
  end); auto.

Lemma sat_tick : sat tick TT.
Proof. apply keeps_sat. intros s. reflexivity. Qed.
Lemma sat_note_depth d : sat (note_depth d) TT.
Proof. apply keeps_sat. intros s. reflexivity. Qed.
Lemma sat_mark_err : sat mark_err TT.
Proof. apply keeps_sat. intros s. reflexivity. Qed.
Lemma sat_err_is_set : sat err_is_set TT.
Proof. apply keeps_sat. intros s. reflexivity. Qed.

Lemma sat_special c : sat (special c) TT.
Proof. apply keeps_sat. unfold special. keeps_tac. Qed.

Lemma sat_sp : sat sp TT.
Proof. apply keeps_sat. unfold sp. keeps_tac. Qed.

Lemma sat_func valid : sat (func valid) TT.
Proof. apply keeps_sat. unfold func. keeps_tac. Qed.

Lemma sat_discard_until c : sat (discard_until c) TT.
Proof. apply keeps_sat. unfold discard_until. keeps_tac. Qed.

Ltac sat_lem ::=
  first [ eapply sat_tick | eapply sat_note_depth | eapply sat_mark_err | eapply sat_err_is_set
        | eapply sat_special | eapply sat_sp | eapply sat_func | eapply sat_discard_until ].

Lemma sat_expect_special c : sat (expect_special c) TT.
Proof. unfold expect_special. sat_go. Qed.

Lemma sat_expect_sp : sat expect_sp TT.
Proof. unfold expect_sp. sat_go. Qed.

Lemma sat_crlf : sat crlf TT.
Proof. unfold crlf. sat_go. Qed.

Lemma sat_expect_crlf : sat expect_crlf TT.
Proof. unfold expect_crlf. assert (H := sat_crlf). sat_go. Qed.

Lemma sat_atom : sat atom TT.
Proof. apply sat_func. Qed.
Lemma sat_text : sat text TT.
Proof. apply sat_func. Qed.

Ltac sat_lem ::=
  first [ eapply sat_tick | eapply sat_note_depth | eapply sat_mark_err | eapply sat_err_is_set
        | eapply sat_special | eapply sat_sp | eapply sat_atom | eapply sat_text | eapply sat_func
        | eapply sat_discard_until
        | eapply sat_expect_special | eapply sat_expect_sp | eapply sat_crlf | eapply sat_expect_crlf ].

Lemma sat_expect_atom : sat expect_atom TT.
Proof. unfold expect_atom. sat_go. Qed.

Ltac sat_lem0 :=
  first [ eapply sat_tick | eapply sat_note_depth | eapply sat_mark_err | eapply sat_err_is_set
        | eapply sat_special | eapply sat_sp | eapply sat_atom | eapply sat_text | eapply sat_func
        | eapply sat_discard_until
        | eapply sat_expect_special | eapply sat_expect_sp | eapply sat_crlf | eapply sat_expect_crlf
        | eapply sat_expect_atom ].
Ltac sat_lem ::= sat_lem0.

Lemma sat_expect_nil : sat expect_nil TT.
Proof. unfold expect_nil. sat_go. Qed.

(* numbers *)
Lemma parse_uint_lt : forall bound s v, parse_uint bound s = Some v -> v < bound.
Proof.
  intros bound s v. unfold parse_uint.
  destruct (DecimalString.NilZero.uint_of_string _) as [u|]; [|discriminate].
  destruct (N.ltb_spec (N.of_uint u) bound); [|discriminate].
  intros E. inversion E; subst. assumption.
Qed.

Lemma sat_uint bound : sat (uint bound) (optP (fun n => n < bound)).
Proof.
  unfold uint. eapply sat_bind_T; [apply sat_func|]. intros [ds|]; apply sat_ret; [|exact I].
  destruct (parse_uint bound ds) eqn:E; cbn [optP]; [|exact I]. exact (parse_uint_lt _ _ _ E).
Qed.

Lemma sat_number : sat number (optP (fun n => n < 4294967296)).
Proof. apply sat_uint. Qed.
Lemma sat_number64 : sat number64 (optP (fun n => n < 9223372036854775808)).
Proof. apply sat_uint. Qed.
Lemma sat_modseq : sat modseq (optP (fun n => n < 18446744073709551616)).
Proof. apply sat_uint. Qed.

Lemma sat_expect_of {A} (p : P (option A)) (Q : A -> Prop) :
  sat p (optP Q) -> sat (expect_of p) Q.
Proof.
  intros H. unfold expect_of. eapply sat_bind; [exact H|]. intros [x|] Hx.
  - apply sat_ret. exact Hx.
  - apply sat_expect_fail.
Qed.

Lemma sat_expect_number : sat expect_number (fun n => n < 4294967296).
Proof. apply sat_expect_of, sat_number. Qed.
Lemma sat_expect_number64 : sat expect_number64 (fun n => n < 9223372036854775808).
Proof. apply sat_expect_of, sat_number64. Qed.
Lemma sat_expect_modseq : sat expect_modseq (fun n => n < 18446744073709551616).
Proof. apply sat_expect_of, sat_modseq. Qed.

Ltac sat_lem1 :=
  first [ sat_lem0 | eapply sat_expect_nil
        | eapply sat_number | eapply sat_number64 | eapply sat_modseq
        | eapply sat_expect_number | eapply sat_expect_number64 | eapply sat_expect_modseq ].
Ltac sat_lem ::= sat_lem1.

Lemma sat_expect_body_fld_octets : sat expect_body_fld_octets TT.
Proof. unfold expect_body_fld_octets. sat_go. Qed.

(* strings *)
Lemma sat_quoted : sat quoted TT.
Proof.
  unfold quoted. eapply sat_bind_T; [apply sat_special|]. intros [|].
  - apply keeps_sat. keeps_tac.
  - apply sat_ret. exact I.
Qed.

Lemma sat_literal_payload size :
  sat (fun s : st =>
         let l := s_in s in
         if N.of_nat (length l) <=? size then Ok (Some l) (set_in s [])
         else Ok (Some (firstn (N.to_nat size) l)) (set_in s (skipn (N.to_nat size) l))) TT.
Proof.
  apply keeps_sat. intros s. cbv zeta. destruct (N.of_nat (length (s_in s)) <=? size); reflexivity.
Qed.

Lemma sat_literal : sat literal TT.
Proof.
  unfold literal. assert (H := sat_literal_payload). sat_go.
Qed.

Ltac sat_lem2 := first [ sat_lem1 | eapply sat_expect_body_fld_octets | eapply sat_quoted | eapply sat_literal ].
Ltac sat_lem ::= sat_lem2.

Lemma sat_string_ : sat string_ TT.
Proof. unfold string_. sat_go. Qed.
Lemma sat_expect_string : sat expect_string TT.
Proof. apply sat_expect_of. eapply sat_weaken; [apply sat_string_|]. intros [v|] _; exact I. Qed.

Ltac sat_lem3 := first [ sat_lem2 | eapply sat_string_ | eapply sat_expect_string ].
Ltac sat_lem ::= sat_lem3.

Lemma sat_expect_astring : sat expect_astring TT.
Proof. unfold expect_astring. sat_go. Qed.
Lemma sat_expect_nstring : sat expect_nstring TT.
Proof. unfold expect_nstring. sat_go. Qed.
Lemma sat_expect_nstring_reader : sat expect_nstring_reader TT.
Proof. unfold expect_nstring_reader. sat_go. Qed.

Ltac sat_lem4 := first [ sat_lem3 | eapply sat_expect_astring | eapply sat_expect_nstring
                       | eapply sat_expect_nstring_reader ].
Ltac sat_lem ::= sat_lem4.

Lemma sat_expect_mailbox : sat expect_mailbox TT.
Proof. unfold expect_mailbox. sat_go. Qed.

Lemma sat_expect_numset : sat expect_numset (optP (fun set => canon set = true)).
Proof.
  unfold expect_numset. eapply sat_bind_T; [apply sat_special|]. intros [|]; [apply sat_ret; exact I|].
  eapply sat_bind_T; [apply sat_func|]. intros [t|]; [|apply sat_expect_fail].
  destruct (parse_set t) as [[set|]|] eqn:E; [|apply sat_crash|apply sat_expect_fail].
  apply sat_ret. cbn [optP].
  destruct (parse_only_grammar t _ E) as [rs Hg].
  destruct (parse_accepts_grammar t rs Hg) as (s' & E' & Hc & _).
  rewrite E in E'. inversion E'; subst. exact Hc.
Qed.

(* lists *)
Lemma sat_list_items {A} (item : P A) : sat item TT ->
  forall k acc, sat (list_items k item acc) TT.
Proof.
  intros Hi. induction k as [|k IH]; intros acc; [apply sat_fuel|].
  cbn [list_items]. sat_go.
Qed.

Lemma sat_plist {A} ld (item : nat -> P A) : (forall ld', sat (item ld') TT) -> sat (plist ld item) TT.
Proof.
  intros Hi. unfold plist. assert (H := fun ld' => sat_list_items (item ld') (Hi ld')). sat_go.
Qed.

Lemma sat_expect_list {A} ld (item : nat -> P A) :
  (forall ld', sat (item ld') TT) -> sat (expect_list ld item) TT.
Proof. intros Hi. unfold expect_list. assert (H := sat_plist ld item Hi). sat_go. Qed.

Lemma sat_expect_nlist {A} ld (item : nat -> P A) :
  (forall ld', sat (item ld') TT) -> sat (expect_nlist ld item) TT.
Proof. intros Hi. unfold expect_nlist. assert (H := sat_expect_list ld item Hi). sat_go. Qed.

Ltac sat_lem5 := first [ sat_lem4 | eapply sat_expect_mailbox | eapply sat_expect_numset
                       | eapply sat_plist | eapply sat_expect_list | eapply sat_expect_nlist ].
Ltac sat_lem ::= sat_lem5.

Lemma sat_discard_value : forall fuel ld rd, sat (discard_value fuel ld rd) TT.
Proof.
  induction fuel as [|f IH]; intros ld rd; [apply sat_fuel|].
  cbn [discard_value]. sat_go.
Qed.

Lemma sat_discard_value_top ld rd : sat (discard_value_top ld rd) TT.
Proof. unfold discard_value_top. assert (H := sat_discard_value). sat_go. Qed.

Lemma sat_discard_values : forall k ld rd, sat (discard_values k ld rd) TT.
Proof.
  induction k as [|k IH]; intros ld rd; [apply sat_fuel|].
  cbn [discard_values]. assert (H := sat_discard_value_top). sat_go.
Qed.

Ltac sat_lem6 := first [ sat_lem5 | eapply sat_discard_value_top | eapply sat_discard_values ].
Ltac sat_lem ::= sat_lem6.

(* ---------------------------------------------------------------------------------------- *)
(* flags, capabilities                                                                        *)

Lemma sat_expect_flag : sat expect_flag TT.
Proof. unfold expect_flag. sat_go. Qed.
Lemma sat_expect_flag_list ld : sat (expect_flag_list ld) TT.
Proof. unfold expect_flag_list. assert (H := sat_expect_flag). sat_go. Qed.
Lemma sat_expect_mailbox_attr : sat expect_mailbox_attr TT.
Proof. unfold expect_mailbox_attr. assert (H := sat_expect_flag). sat_go. Qed.

Lemma sat_read_caps : forall k acc, sat (read_caps k acc) TT.
Proof. induction k as [|k IH]; intros acc; [apply sat_fuel|]. cbn [read_caps]. sat_go. Qed.
Lemma sat_read_capabilities : sat read_capabilities TT.
Proof. unfold read_capabilities. assert (H := sat_read_caps). sat_go. Qed.

Ltac sat_lem7 := first [ sat_lem6 | eapply sat_expect_flag | eapply sat_expect_flag_list
                       | eapply sat_expect_mailbox_attr | eapply sat_read_capabilities ].
Ltac sat_lem ::= sat_lem7.

(* ---------------------------------------------------------------------------------------- *)
(* FETCH                                                                                      *)

Lemma sat_read_address : sat read_address TT.
Proof. unfold read_address. sat_go. Qed.
Lemma sat_read_address_list ld : sat (read_address_list ld) TT.
Proof. unfold read_address_list. assert (H := sat_read_address). sat_go. Qed.
Lemma sat_read_envelope ld : sat (read_envelope ld) TT.
Proof. unfold read_envelope. assert (H := sat_read_address_list). sat_go. Qed.
Lemma sat_read_body_fld_param ld : sat (read_body_fld_param ld) TT.
Proof. unfold read_body_fld_param. sat_go. Qed.

Ltac sat_lem8 := first [ sat_lem7 | eapply sat_read_envelope | eapply sat_read_body_fld_param ].
Ltac sat_lem ::= sat_lem8.

Lemma sat_read_body_fld_dsp ld : sat (read_body_fld_dsp ld) TT.
Proof. unfold read_body_fld_dsp. sat_go. Qed.
Lemma sat_read_body_fld_lang ld : sat (read_body_fld_lang ld) TT.
Proof. unfold read_body_fld_lang. sat_go. Qed.

Ltac sat_lem9 := first [ sat_lem8 | eapply sat_read_body_fld_dsp | eapply sat_read_body_fld_lang ].
Ltac sat_lem ::= sat_lem9.

Lemma sat_read_body_ext_tail ld : sat (read_body_ext_tail ld) TT.
Proof. unfold read_body_ext_tail. sat_go. Qed.
Lemma sat_read_body_ext_1part ld : sat (read_body_ext_1part ld) TT.
Proof. unfold read_body_ext_1part. assert (H := sat_read_body_ext_tail). sat_go. Qed.
Lemma sat_read_body_ext_mpart ld : sat (read_body_ext_mpart ld) TT.
Proof. unfold read_body_ext_mpart. assert (H := sat_read_body_ext_tail). sat_go. Qed.

Ltac sat_lem10 := first [ sat_lem9 | eapply sat_read_body_ext_1part | eapply sat_read_body_ext_mpart ].
Ltac sat_lem ::= sat_lem10.

(* the inner loop of readBodyTypeMpart, with the recursive call abstracted *)
Definition children_loop (rb : P bstruct) :=
  fix children (k : nat) (acc : list bstruct) : P (list bstruct * bytes) :=
    match k with
    | O => out_of_fuel
    | S k' =>
        tick ;;;
        c <- rb ;;
        b <- sp ;;
        if b then
          st <- string_ ;;
          match st with
          | Some sub => ret (rev (c :: acc), sub)
          | None => children k' (c :: acc)
          end
        else children k' (c :: acc)
    end.

Lemma sat_children_loop rb (m : nat) : sat rb (fun c => bs_depth c <= m)%nat ->
  forall k acc, Forall (fun c => (bs_depth c <= m)%nat) acc ->
  sat (children_loop rb k acc) (fun cs => Forall (fun c => (bs_depth c <= m)%nat) (fst cs)).
Proof.
  intros Hrb. induction k as [|k IH]; intros acc Hacc; [apply sat_fuel|].
  cbn [children_loop]. sat_go.
  all: try apply Forall_rev; constructor; assumption.
Qed.

Lemma fold_max_le {A} (f : A -> nat) (l : list A) (m : nat) :
  Forall (fun c => (f c <= m)%nat) l ->
  (fold_right (fun c acc => Nat.max (f c) acc) O l <= m)%nat.
Proof. induction 1; cbn [fold_right]; lia. Qed.

Lemma sat_read_body : forall fuel ld bd rd,
  sat (read_body fuel ld bd rd) (fun b => (bs_depth b + bd <= MAX_BODY_DEPTH)%nat).
Proof.
  induction fuel as [|f IH]; intros ld bd rd; [apply sat_fuel|].
  cbn [read_body].
  eapply sat_bind_T; [apply sat_tick|]. intros _.
  eapply sat_bind_T; [apply sat_note_depth|]. intros _.
  destruct (Nat.leb MAX_BODY_DEPTH bd) eqn:Hg; [apply sat_fail|]. apply Nat.leb_gt in Hg.
  eapply sat_bind_T; [apply sat_expect_special|]. intros _.
  eapply sat_bind_T; [apply sat_string_|]. intros mt.
  eapply sat_bind with (Q := fun b => (bs_depth b + bd <= MAX_BODY_DEPTH)%nat).
  - destruct mt as [typ|].
    + sat_go. all: cbn [bs_depth]; lia.
    + match goal with
      | |- context [with_fuel (fun k => ?F k [])] =>
          change F with (children_loop (read_body f ld (S bd) (S rd)))
      end.
      eapply sat_bind with
        (Q := fun cs => Forall (fun c => (bs_depth c <= MAX_BODY_DEPTH - S bd)%nat) (fst cs)).
      * apply sat_with_fuel. intros k. apply sat_children_loop; [|constructor].
        eapply sat_weaken; [apply IH|]. cbv beta. intros; lia.
      * intros cs Hcs. pose proof (fold_max_le bs_depth _ _ Hcs). sat_go.
        all: cbn [bs_depth]; lia.
  - intros b Hb. sat_go.
Qed.

Lemma sat_read_body_top ld : sat (read_body_top ld) (fun b => (bs_depth b <= MAX_BODY_DEPTH)%nat).
Proof.
  unfold read_body_top. apply sat_with_fuel. intros k.
  eapply sat_weaken; [apply sat_read_body|]. cbv beta. intros; lia.
Qed.

Lemma sat_read_section_part : forall k acc, sat (read_section_part k acc) TT.
Proof.
  induction k as [|k IH]; intros acc; [apply sat_fuel|]. cbn [read_section_part]. sat_go.
Qed.
Lemma sat_section_part : sat section_part TT.
Proof. unfold section_part. assert (H := sat_read_section_part). sat_go. Qed.
Lemma sat_read_partial_offset : sat read_partial_offset TT.
Proof. unfold read_partial_offset. sat_go. Qed.

Ltac sat_lem11 := first [ sat_lem10 | eapply sat_read_body_top | eapply sat_section_part
                        | eapply sat_read_partial_offset ].
Ltac sat_lem ::= sat_lem11.

Lemma sat_read_section_spec ld : sat (read_section_spec ld) TT.
Proof. unfold read_section_spec. sat_go. Qed.

Lemma sat_expect_datetime : sat expect_datetime TT.
Proof. unfold expect_datetime. sat_go. Qed.

Ltac sat_lem12 := first [ sat_lem11 | eapply sat_read_section_spec | eapply sat_expect_datetime ].
Ltac sat_lem ::= sat_lem12.

Lemma sat_read_msg_att : sat read_msg_att (fun it => fitem_valid it = true).
Proof. unfold read_msg_att. sat_go. Qed.

Lemma sat_handle_fetch seq : seq < 4294967296 -> sat (handle_fetch seq) TT.
Proof. intros Hseq. unfold handle_fetch. assert (H := sat_read_msg_att). sat_go. Qed.

Ltac sat_lem13 := first [ sat_lem12 | eapply sat_handle_fetch ].
Ltac sat_lem ::= sat_lem13.

(* ---------------------------------------------------------------------------------------- *)
(* SEARCH, ESEARCH, SORT, THREAD                                                              *)

Lemma sat_search_nums : forall k, sat (search_nums k) TT.
Proof. induction k as [|k IH]; [apply sat_fuel|]. cbn [search_nums]. sat_go. Qed.
Lemma sat_handle_search : sat handle_search TT.
Proof. unfold handle_search. assert (H := sat_search_nums). sat_go. Qed.

Lemma sat_esearch_items : forall k name d, ev_valid (EvESearch d) = true ->
  sat (esearch_items k name d) (fun d' => ev_valid (EvESearch d') = true).
Proof.
  induction k as [|k IH]; intros name d Hd; [apply sat_fuel|]. cbn [esearch_items].
  eapply sat_bind_T; [apply sat_tick|]. intros _.
  eapply sat_bind_T; [apply sat_expect_sp|]. intros _.
  eapply sat_bind with (Q := fun d' => ev_valid (EvESearch d') = true).
  - sat_go. all: bsplit.
  - intros d' Hd'. sat_go.
Qed.

Lemma sat_read_esearch : sat read_esearch (fun d => ev_valid (EvESearch d) = true).
Proof. unfold read_esearch. assert (H := sat_esearch_items). sat_go. Qed.

Lemma sat_handle_esearch : sat handle_esearch TT.
Proof. unfold handle_esearch. assert (H := sat_read_esearch). sat_go. Qed.

Lemma sat_sort_nums : forall k, sat (sort_nums k) TT.
Proof. induction k as [|k IH]; [apply sat_fuel|]. cbn [sort_nums]. sat_go. Qed.
Lemma sat_handle_sort : sat handle_sort TT.
Proof. unfold handle_sort. assert (H := sat_sort_nums). sat_go. Qed.

(* threads *)
Definition thr_ok (m : nat) (t : thread) : Prop :=
  thread_nums_ok t = true /\ (thread_depth t <= m)%nat.

Lemma thread_nums_ok_eq chain subs :
  thread_nums_ok (Thread chain subs) = forallb msgnum_ok chain && forallb thread_nums_ok subs.
Proof. reflexivity. Qed.
Lemma thread_depth_eq chain subs :
  thread_depth (Thread chain subs) = S (fold_right (fun c acc => Nat.max (thread_depth c) acc) O subs).
Proof. reflexivity. Qed.

Lemma forallb_rev_Forall {A} (f : A -> bool) (l : list A) :
  Forall (fun x => f x = true) l -> forallb f (rev l) = true.
Proof.
  intros H. apply forallb_forall. intros x Hx. apply in_rev in Hx.
  rewrite Forall_forall in H. exact (H x Hx).
Qed.

Lemma thr_ok_Thread m chain subs :
  Forall (fun n => msgnum_ok n = true) chain -> Forall (thr_ok m) subs ->
  thr_ok (S m) (Thread (rev chain) (rev subs)).
Proof.
  intros Hc Hs. split.
  - rewrite thread_nums_ok_eq. apply andb_true_iff. split; apply forallb_rev_Forall; [exact Hc|].
    eapply Forall_impl; [|exact Hs]. intros t [Ht _]. exact Ht.
  - rewrite thread_depth_eq. apply le_n_S. apply fold_max_le. apply Forall_rev.
    eapply Forall_impl; [|exact Hs]. intros t [_ Ht]. exact Ht.
Qed.

Definition items_loop (rt : P thread) :=
  fix items (k : nat) (chain : list N) (subs : list thread) : P thread :=
    match k with
    | O => out_of_fuel
    | S k' =>
        tick ;;;
        n <- (if nilb subs then number else ret None) ;;
        cs <- match n with
              | Some v => if v =? 0 then fail else ret (v :: chain, subs)
              | None => t <- rt ;; ret (chain, t :: subs)
              end ;;
        c <- special (ch ")") ;;
        if c then ret (Thread (rev (fst cs)) (rev (snd cs)))
        else expect_sp ;;; items k' (fst cs) (snd cs)
    end.

Lemma sat_items_loop rt (m : nat) : sat rt (thr_ok m) ->
  forall k chain subs, Forall (fun n => msgnum_ok n = true) chain -> Forall (thr_ok m) subs ->
  sat (items_loop rt k chain subs) (thr_ok (S m)).
Proof.
  intros Hrt. induction k as [|k IH]; intros chain subs Hc Hs; [apply sat_fuel|].
  cbn [items_loop].
  eapply sat_bind_T; [apply sat_tick|]. intros _.
  eapply sat_bind with (Q := optP (fun n => n < 4294967296)).
  { destruct (nilb subs); [apply sat_number|apply sat_ret; exact I]. }
  intros n Hn.
  eapply sat_bind with
    (Q := fun cs => Forall (fun n => msgnum_ok n = true) (fst cs) /\ Forall (thr_ok m) (snd cs)).
  { destruct n as [v|].
    - destruct (v =? 0) eqn:E0; [apply sat_fail|]. apply sat_ret. cbn [fst snd optP] in *.
      split; [|exact Hs]. constructor; [|exact Hc]. unfold msgnum_ok, M32. lia.
    - eapply sat_bind; [exact Hrt|]. intros t Ht. apply sat_ret. cbn [fst snd].
      split; [exact Hc|]. constructor; assumption. }
  intros [chain' subs'] [Hc' Hs']. cbn [fst snd] in *.
  eapply sat_bind_T; [apply sat_special|]. intros [|].
  - apply sat_ret. apply thr_ok_Thread; assumption.
  - eapply sat_bind_T; [apply sat_expect_sp|]. intros _. apply IH; assumption.
Qed.

Lemma sat_read_thread_list : forall fuel ld rd, (ld < MAX_LIST_DEPTH)%nat ->
  sat (read_thread_list fuel ld rd) (thr_ok (MAX_LIST_DEPTH - ld)).
Proof.
  induction fuel as [|f IH]; intros ld rd Hld; [apply sat_fuel|].
  cbn [read_thread_list].
  eapply sat_bind_T; [apply sat_tick|]. intros _.
  eapply sat_bind_T; [apply sat_note_depth|]. intros _.
  eapply sat_bind_T; [apply sat_special|]. intros [|]; [|apply sat_expect_fail].
  eapply sat_bind_T; [apply sat_special|]. intros [|].
  - apply sat_ret. split; [reflexivity|]. rewrite thread_depth_eq. cbn [fold_right]. lia.
  - destruct (Nat.leb MAX_LIST_DEPTH (S ld)) eqn:Hg; [apply sat_expect_fail|].
    apply Nat.leb_gt in Hg.
    match goal with
    | |- context [with_fuel (fun k => ?F k [] [])] =>
        change F with (items_loop (read_thread_list f (S ld) (S rd)))
    end.
    apply sat_with_fuel. intros k.
    replace (MAX_LIST_DEPTH - ld)%nat with (S (MAX_LIST_DEPTH - S ld)) by lia.
    apply sat_items_loop; [|constructor|constructor].
    apply IH. exact Hg.
Qed.

Lemma MAX_LIST_DEPTH_pos : (0 < MAX_LIST_DEPTH)%nat.
Proof. unfold MAX_LIST_DEPTH. lia. Qed.

Lemma sat_thread_lists : forall k, sat (thread_lists k) TT.
Proof.
  induction k as [|k IH]; [apply sat_fuel|]. cbn [thread_lists].
  eapply sat_bind_T; [apply sat_sp|]. intros [|]; [|apply sat_ret; exact I].
  eapply sat_bind_T; [apply sat_tick|]. intros _.
  eapply sat_bind.
  { apply sat_with_fuel. intros j. apply (sat_read_thread_list j 0 1 MAX_LIST_DEPTH_pos). }
  intros t [Hn Hd]. rewrite Nat.sub_0_r in Hd.
  eapply sat_bind_T; [|intros _; apply IH].
  apply sat_emit. cbn [ev_valid]. rewrite Hn. apply Nat.leb_le in Hd. rewrite Hd. reflexivity.
Qed.
Lemma sat_handle_thread : sat handle_thread TT.
Proof. unfold handle_thread. assert (H := sat_thread_lists). sat_go. Qed.

Ltac sat_lem14 := first [ sat_lem13 | eapply sat_handle_search | eapply sat_handle_esearch
                        | eapply sat_handle_sort | eapply sat_handle_thread ].
Ltac sat_lem ::= sat_lem14.

(* ---------------------------------------------------------------------------------------- *)
(* LIST, STATUS, NAMESPACE, QUOTA, QUOTAROOT, METADATA                                        *)

Lemma sat_read_delim : sat read_delim TT.
Proof. unfold read_delim. sat_go. Qed.

Ltac sat_lem15 := first [ sat_lem14 | eapply sat_read_delim ].
Ltac sat_lem ::= sat_lem15.

Lemma sat_read_list_ext_item : sat read_list_ext_item TT.
Proof. unfold read_list_ext_item. sat_go. Qed.
Lemma sat_handle_list : sat handle_list TT.
Proof. unfold handle_list. assert (H := sat_read_list_ext_item). sat_go. Qed.

Lemma sat_read_status_att : sat read_status_att TT.
Proof. unfold read_status_att. sat_go. Qed.
Lemma sat_handle_status : sat handle_status TT.
Proof. unfold handle_status. assert (H := sat_read_status_att). sat_go. Qed.

Lemma sat_read_namespace_descr : sat read_namespace_descr TT.
Proof. unfold read_namespace_descr. sat_go. Qed.
Lemma sat_read_namespace : sat read_namespace TT.
Proof. unfold read_namespace. assert (H := sat_read_namespace_descr). sat_go. Qed.
Lemma sat_handle_namespace : sat handle_namespace TT.
Proof. unfold handle_namespace. assert (H := sat_read_namespace). sat_go. Qed.

Lemma sat_handle_quota : sat handle_quota TT.
Proof. unfold handle_quota. sat_go. Qed.

Lemma sat_quota_roots : forall k acc, sat (quota_roots k acc) TT.
Proof. induction k as [|k IH]; intros acc; [apply sat_fuel|]. cbn [quota_roots]. sat_go. Qed.
Lemma sat_handle_quotaroot : sat handle_quotaroot TT.
Proof. unfold handle_quotaroot. assert (H := sat_quota_roots). sat_go. Qed.

Lemma sat_metadata_entries : forall k acc, sat (metadata_entries k acc) TT.
Proof. induction k as [|k IH]; intros acc; [apply sat_fuel|]. cbn [metadata_entries]. sat_go. Qed.
Lemma sat_handle_metadata : sat handle_metadata TT.
Proof. unfold handle_metadata. assert (H := sat_metadata_entries). sat_go. Qed.

Ltac sat_lem16 := first [ sat_lem15 | eapply sat_handle_list | eapply sat_handle_status
                        | eapply sat_handle_namespace | eapply sat_handle_quota
                        | eapply sat_handle_quotaroot | eapply sat_handle_metadata ].
Ltac sat_lem ::= sat_lem16.

(* ---------------------------------------------------------------------------------------- *)
(* status responses, response codes, tagged responses                                         *)

Lemma sat_read_copyuid : sat read_copyuid (fun c => rcode_valid c = true).
Proof.
  unfold read_copyuid. sat_go.
  match goal with H : _ || _ = false |- _ => apply orb_false_iff in H; destruct H as [Hd1 Hd2] end.
  rewrite Hd1, Hd2. bsplit.
Qed.

Lemma sat_read_other_code : sat read_other_code TT.
Proof. unfold read_other_code. sat_go. Qed.

Ltac sat_lem17 := first [ sat_lem16 | eapply sat_read_copyuid | eapply sat_read_other_code ].
Ltac sat_lem ::= sat_lem17.

Lemma sat_read_tagged_code name : sat (read_tagged_code name) TT.
Proof. unfold read_tagged_code. sat_go. Qed.
Lemma sat_read_untagged_code name : sat (read_untagged_code name) TT.
Proof. unfold read_untagged_code. sat_go. Qed.

Lemma sat_read_resp_text code_reader :
  (forall name, sat (code_reader name) TT) -> sat (read_resp_text code_reader) TT.
Proof. intros H. unfold read_resp_text. sat_go. Qed.

Lemma sat_read_response_tagged tags tag typ : sat (read_response_tagged tags tag typ) TT.
Proof.
  unfold read_response_tagged.
  assert (H := sat_read_resp_text read_tagged_code sat_read_tagged_code). sat_go.
Qed.

Lemma sat_read_response_data typ0 : sat (read_response_data typ0) TT.
Proof.
  unfold read_response_data. destruct typ0 as [|c0 r0]; [apply sat_crash|].
  assert (H := sat_read_resp_text read_untagged_code sat_read_untagged_code).
  eapply sat_bind with (Q := fun nt => fst nt < 4294967296).
  - destruct (is_digit c0); [|apply sat_ret; cbn [fst]; lia].
    destruct (parse_uint 4294967296 (c0 :: r0)) as [v|] eqn:E; [|apply sat_fail].
    apply parse_uint_lt in E. sat_go.
  - intros [num typ] Hn. cbn [fst] in Hn. sat_go.
Qed.

Lemma sat_read_continue_req : sat read_continue_req TT.
Proof. unfold read_continue_req. sat_go. Qed.

Ltac sat_lem18 := first [ sat_lem17 | eapply sat_read_response_tagged | eapply sat_read_response_data
                        | eapply sat_read_continue_req ].
Ltac sat_lem ::= sat_lem18.

Lemma sat_read_response tags : sat (read_response tags) TT.
Proof. unfold read_response. sat_go. Qed.

Lemma sat_read_loop : forall k tags, sat (read_loop k tags) TT.
Proof.
  induction k as [|k IH]; intros tags; [apply sat_fuel|].
  intros s Hs. cbn [read_loop]. destruct (s_in s); [split; [exact Hs|exact I]|].
  revert s Hs. change (sat (tick ;;; tags' <- read_response tags ;; read_loop k tags') TT).
  assert (H := sat_read_response). sat_go.
Qed.

Lemma final_inv : forall tags input s,
  final_state (read_stream tags input) = Some s -> inv s.
Proof.
  intros tags input s H. unfold read_stream in H.
  pose proof (sat_read_loop (S (length input)) tags (init_st input) eq_refl) as HH.
  destruct (read_loop (S (length input)) tags (init_st input)) as [v s'|s'| |];
    cbn [final_state] in H; inversion H; subst.
  - destruct HH; assumption.
  - assumption.
Qed.

Theorem delivered_valid : forall tags input s, final_state (read_stream tags input) = Some s ->
  forallb ev_valid (s_log s) = true.
Proof. exact final_inv. Qed.

(* ---------------------------------------------------------------------------------------- *)
(* accessors                                                                                  *)

Lemma nums_ok_of_resultset : forall set, resultset_ok set = true -> exists l, nums set = NumsOk l.
Proof.
  intros set H. unfold resultset_ok in H. apply andb_true_iff in H as [Hc Hd].
  apply negb_true_iff in Hd. destruct (nums_spec set Hc Hd) as (l & Hl & _).
  exists l. exact Hl.
Qed.

Lemma search_set_run_ops : forall l acc,
  fold_left (fun acc n => match acc with Some s => add_num s n | None => None end) l acc =
  fold_left apply_op (map AddNum l) acc.
Proof.
  induction l as [|n l IH]; intros acc; [reflexivity|].
  cbn [fold_left map]. rewrite IH. destruct acc; reflexivity.
Qed.

Lemma search_all_nums_ok : forall l, Forall (fun n => msgnum_ok n = true) l ->
  exists r, search_all_nums l = AccOk r.
Proof.
  intros l Hl. unfold search_all_nums, search_set. rewrite search_set_run_ops.
  change (fold_left apply_op (map AddNum l) (Some [])) with (run_ops (map AddNum l)).
  assert (Hw : forallb wf_op (map AddNum l) = true).
  { apply forallb_forall. intros o Ho. apply in_map_iff in Ho as (n & <- & Hn).
    rewrite Forall_forall in Hl. specialize (Hl n Hn). unfold msgnum_ok in Hl.
    cbn [wf_op]. apply andb_true_iff in Hl as [_ Hl]. exact Hl. }
  destruct (ops_canon _ Hw) as (s & Hs & Hc). rewrite Hs.
  assert (Hd : dynamic s = false).
  { rewrite (dynamic_iff s Hc). rewrite (ops_den _ s 0 Hw Hs) by (unfold M32; lia).
    apply not_true_is_false. intros Hex. apply existsb_exists in Hex as (o & Ho & Hden).
    apply in_map_iff in Ho as (n & <- & Hn).
    rewrite Forall_forall in Hl. specialize (Hl n Hn). unfold msgnum_ok in Hl.
    cbn [op_den] in Hden. rewrite rden_zero in Hden. cbn [snd] in Hden. lia. }
  destruct (nums_spec s Hc Hd) as (r & Hr & _). rewrite Hr. exists r. reflexivity.
Qed.

Lemma search_nums_of_ok : forall log, forallb ev_valid log = true ->
  Forall (fun n => msgnum_ok n = true) (search_nums_of log).
Proof.
  induction log as [|e log IH]; intros H; [constructor|].
  cbn [forallb] in H. apply andb_true_iff in H as [He H]. specialize (IH H).
  destruct e; cbn [search_nums_of]; try exact IH.
  constructor; [exact He|exact IH].
Qed.

Lemma Forall_firstn {A} (Q : A -> Prop) : forall k l, Forall Q l -> Forall Q (firstn k l).
Proof.
  induction k as [|k IH]; intros l H; [constructor|].
  destruct H; cbn [firstn]; constructor; auto.
Qed.

Theorem accessors_safe : forall tags input s, final_state (read_stream tags input) = Some s ->
  (forall d, In (EvESearch d) (s_log s) -> exists l, all_nums d = AccOk l) /\
  (forall k, exists l, search_all_nums (firstn k (search_nums_of (rev (s_log s)))) = AccOk l).
Proof.
  intros tags input s H. pose proof (delivered_valid tags input s H) as Hv. split.
  - intros d Hd. rewrite forallb_forall in Hv. specialize (Hv _ Hd). cbn [ev_valid] in Hv.
    unfold all_nums.
    destruct (es_all d) as [set|]; [|exists []; reflexivity].
    cbn [opt_ok] in Hv.
    assert (Hs : resultset_ok set = true).
    { destruct (resultset_ok set); [reflexivity|discriminate Hv]. }
    destruct (nums_ok_of_resultset set Hs) as (l & Hl). rewrite Hl. exists l. reflexivity.
  - intros k. apply search_all_nums_ok. apply Forall_firstn. apply search_nums_of_ok.
    apply forallb_forall. intros e He. apply in_rev in He.
    rewrite forallb_forall in Hv. exact (Hv e He).
Qed.

Print Assumptions delivered_valid.
Print Assumptions accessors_safe.
