(* Proofs/CmdFetch.v — delivery of FETCH / UID FETCH. *)
From GoImap.Base Require Import Bytes.
From GoImap.Model Require Import NumSet NumSetCorr MatchList Utf7 Wire Search ClientWrite CmdDate CmdTypes CmdClient CmdServer.
From GoImap.Proofs Require Import NumSetSpec NumSetText Utf7Spec WireSpec WireLemmas WireProofs CmdDateProofs CmdSpec CmdPrim.
From Coq Require Import ZifyN ZifyNat Lia.
Open Scope N_scope.

(* ---- parser plumbing ---- *)
Lemma bind_some : forall A B (p : P A) (f : A -> P B) s v r,
  p s = Some (v, r) -> bind p f s = f v r.
Proof. intros A B p f s v r H. unfold bind. rewrite H. reflexivity. Qed.

Lemma slit_inv : forall s x, slit s = Some x -> x = [SBytes (s2b s)].
Proof. intros s x H. unfold slit, lit in H. injection H as <-. reflexivity. Qed.
Lemma lit_inv : forall b x, lit b = Some x -> x = [SBytes b].
Proof. intros b x H. unfold lit in H. injection H as <-. reflexivity. Qed.
Lemma nothing_inv : forall x, nothing = Some x -> x = [].
Proof. intros x H. unfold nothing in H. injection H as <-. reflexivity. Qed.

(* character facts *)
Lemma digit_facts : forall c, is_digit c = true ->
  beqb c (ch "]") = false /\ beqb c (ch ".") = false /\ beqb c (ch ")") = false /\
  beqb c CR_ = false /\ beqb c LF_ = false.
Proof.
  intros [[] [] [] [] [] [] [] []]; vm_compute; intros H; try discriminate H; repeat split.
Qed.

Lemma numset_char_facts : forall c, is_numset_char c = true -> beqb c CR_ = false /\ beqb c LF_ = false.
Proof.
  intros [[] [] [] [] [] [] [] []]; vm_compute; intros H; try discriminate H; repeat split.
Qed.

Lemma nonatom_facts : forall c, is_atom_char c = false ->
  is_att_name_char c = false /\ beqb c (ch "[") = false /\ beqb c (ch "<") = false /\ beqb c (ch ".") = false /\
  is_digit c = false.
Proof.
  intros [[] [] [] [] [] [] [] []]; vm_compute; intros H; try discriminate H; repeat split.
Qed.

Lemma dec_number_nodigit : forall c r, is_digit c = false -> dec_number (c :: r) = DNo (c :: r).
Proof.
  intros c r H. unfold dec_number, dec_uint. rewrite (dec_func_no _ _ _ H). reflexivity.
Qed.

(* ---- section parts ---- *)
Definition dotted (p : list Z) : bytes := flat_map (fun z => ch "." :: z_dec z) p.

Lemma w_part_cons : forall z p, w_part (z :: p) = z_dec z ++ dotted p.
Proof.
  intros z p. unfold w_part. revert z. induction p as [|y p IH]; intros z.
  - cbn. rewrite app_nil_r. reflexivity.
  - cbn [map join_with dotted flat_map] in *. rewrite IH. reflexivity.
Qed.

Lemma z_dec_nonneg : forall z, (0 <= z)%Z -> z_dec z = dec_of_N (Z.to_N z).
Proof.
  intros z Hz. unfold z_dec. destruct (z <? 0)%Z eqn:E; [apply Z.ltb_lt in E; lia|reflexivity].
Qed.

Lemma dec_number_part : forall z rest, (0 <= z < 4294967296)%Z -> nondigit rest ->
  dec_number (z_dec z ++ rest) = DOk (Z.to_N z) rest.
Proof.
  intros z rest Hz Hr. rewrite z_dec_nonneg by lia. apply (number_roundtrip (Z.to_N z) rest); [lia|exact Hr].
Qed.

Lemma dec_digits_part : forall z rest, (0 <= z < 4294967296)%Z -> nondigit rest ->
  dec_func is_digit (z_dec z ++ rest) = DOk (z_dec z) rest /\
  parse_uint 4294967296 (z_dec z) = Some (Z.to_N z).
Proof.
  intros z rest Hz Hr. rewrite z_dec_nonneg by lia. destruct rest as [|c rest]; [contradiction|]. split.
  - apply dec_func_app; [apply dec_nonnil|apply dec_digits|exact Hr].
  - apply parse_uint_dec. lia.
Qed.

Lemma z_dec_len : forall z, (0 <= z)%Z -> (1 <= length (z_dec z))%nat.
Proof.
  intros z Hz. rewrite z_dec_nonneg by exact Hz. pose proof (dec_nonnil (Z.to_N z)) as H.
  destruct (dec_of_N (Z.to_N z)); [congruence|cbn; lia].
Qed.

Lemma z_dec_first : forall z, (0 <= z)%Z -> exists c t, z_dec z = c :: t /\ is_digit c = true.
Proof. intros z Hz. rewrite z_dec_nonneg by exact Hz. apply dec_first. Qed.

Lemma nondigit_dotted : forall p c rest, is_digit c = false -> nondigit (dotted p ++ c :: rest).
Proof. intros [|z p] c rest H; cbn; [exact H|reflexivity]. Qed.

(* the loop of readSectionPart once a number has been read *)
Lemma section_part_loop : forall p acc fuel rest, acc <> [] -> wf_part p ->
  (length (dotted p ++ rest) < fuel)%nat ->
  (forall r', rest = ch "]" :: r' ->
     section_part fuel acc (dotted p ++ rest) = Some ((acc ++ p, false), rest)) /\
  (forall c r', rest = ch "." :: c :: r' -> is_digit c = false ->
     section_part fuel acc (dotted p ++ rest) = Some ((acc ++ p, true), c :: r')).
Proof.
  induction p as [|z p IH]; intros acc fuel rest Hacc Hp Hf.
  - destruct fuel as [|f]; [lia|]. destruct acc as [|a acc]; [congruence|].
    split.
    + intros r' ->. cbn [dotted flat_map app section_part nilb negb].
      rewrite dec_special_miss by reflexivity. rewrite app_nil_r. reflexivity.
    + intros c r' -> Hc. cbn [dotted flat_map app section_part nilb negb].
      rewrite dec_special_hit. rewrite (dec_func_no _ c r' Hc). rewrite app_nil_r. reflexivity.
  - inversion Hp as [|? ? Hz Hp']; subst.
    destruct fuel as [|f]; [lia|].
    assert (E : dotted (z :: p) ++ rest = ch "." :: z_dec z ++ dotted p ++ rest).
    { cbn [dotted flat_map]. fold (dotted p). rewrite <- app_assoc. reflexivity. }
    rewrite E in *. clear E.
    assert (Hf' : (length (dotted p ++ rest) < f)%nat).
    { cbn [length] in Hf. rewrite app_length in Hf. lia. }
    assert (Hacc' : acc ++ [z] <> []) by (destruct acc; discriminate).
    destruct (IH (acc ++ [z]) f rest Hacc' Hp' Hf') as [IH1 IH2].
    assert (Hstep : forall rest0, nondigit (dotted p ++ rest0) ->
      section_part (S f) acc (ch "." :: z_dec z ++ dotted p ++ rest0) =
      section_part f (acc ++ [z]) (dotted p ++ rest0)).
    { intros rest0 Hnd. destruct acc as [|a acc]; [congruence|].
      cbn [section_part nilb negb]. rewrite dec_special_hit.
      destruct (dec_digits_part z _ Hz Hnd) as [E1 E2]. rewrite E1, E2. rewrite Z2N.id by lia. reflexivity. }
    split.
    + intros r' ->. rewrite Hstep by (apply nondigit_dotted; reflexivity).
      rewrite (IH1 r' eq_refl). rewrite <- app_assoc. reflexivity.
    + intros c r' -> Hc. rewrite Hstep by (apply nondigit_dotted; reflexivity).
      rewrite (IH2 c r' eq_refl Hc). rewrite <- app_assoc. reflexivity.
Qed.

(* readSectionPart on a non-empty part *)
Lemma section_part_cons : forall z p rest, wf_part (z :: p) ->
  (forall r', rest = ch "]" :: r' ->
     section_part (S (length (w_part (z :: p) ++ rest))) [] (w_part (z :: p) ++ rest) = Some ((z :: p, false), rest)) /\
  (forall c r', rest = ch "." :: c :: r' -> is_digit c = false ->
     section_part (S (length (w_part (z :: p) ++ rest))) [] (w_part (z :: p) ++ rest) = Some ((z :: p, true), c :: r')).
Proof.
  intros z p rest Hp. inversion Hp as [|? ? Hz Hp']; subst.
  rewrite w_part_cons, <- app_assoc.
  assert (Hf : (length (dotted p ++ rest) < length (z_dec z ++ dotted p ++ rest))%nat).
  { rewrite (app_length (z_dec z)). pose proof (z_dec_len z (proj1 Hz)). lia. }
  destruct (section_part_loop p [z] _ rest ltac:(discriminate) Hp' Hf) as [L1 L2].
  assert (Hstep : nondigit (dotted p ++ rest) ->
    section_part (S (length (z_dec z ++ dotted p ++ rest))) [] (z_dec z ++ dotted p ++ rest) =
    section_part (length (z_dec z ++ dotted p ++ rest)) [z] (dotted p ++ rest)).
  { intros Hnd. cbn [section_part nilb negb].
    destruct (dec_digits_part z _ Hz Hnd) as [E1 E2]. rewrite E1, E2. rewrite Z2N.id by lia. reflexivity. }
  split.
  - intros r' ->. rewrite Hstep by (apply nondigit_dotted; reflexivity). apply (L1 r' eq_refl).
  - intros c r' -> Hc. rewrite Hstep by (apply nondigit_dotted; reflexivity). apply (L2 c r' eq_refl Hc).
Qed.

(* readSectionBinary's number loop *)
Lemma binary_nums_ok : forall p z acc fuel r', wf_part (z :: p) ->
  (length (z_dec z ++ dotted p ++ ch "]" :: r') < fuel)%nat ->
  binary_nums fuel acc (z_dec z ++ dotted p ++ ch "]" :: r') = Some (acc ++ z :: p, ch "]" :: r').
Proof.
  induction p as [|y p IH]; intros z acc fuel r' Hp Hf; inversion Hp as [|? ? Hz Hp']; subst.
  - destruct fuel as [|f]; [lia|]. cbn [dotted flat_map app binary_nums].
    rewrite (dec_number_part z _ Hz) by reflexivity.
    rewrite dec_special_miss by reflexivity. rewrite Z2N.id by lia. reflexivity.
  - destruct fuel as [|f]; [lia|].
    assert (E : dotted (y :: p) ++ ch "]" :: r' = ch "." :: z_dec y ++ dotted p ++ ch "]" :: r').
    { cbn [dotted flat_map]. fold (dotted p). rewrite <- app_assoc. reflexivity. }
    rewrite E in *. clear E. cbn [binary_nums].
    rewrite (dec_number_part z _ Hz) by reflexivity.
    rewrite dec_special_hit. rewrite Z2N.id by lia.
    rewrite (IH y (acc ++ [z]) f r' Hp').
    + rewrite <- app_assoc. reflexivity.
    + rewrite app_length in Hf. cbn [length] in Hf. lia.
Qed.

Lemma section_binary_ok : forall p r, wf_part p ->
  section_binary (ch "[" :: w_part p ++ ch "]" :: r) = Some (p, r).
Proof.
  intros p r Hp. unfold section_binary.
  rewrite (bind_some _ _ (x_special "[") _ _ tt (w_part p ++ ch "]" :: r))
    by (unfold x_special, expect; rewrite dec_special_hit; reflexivity).
  destruct p as [|z p].
  - cbn [w_part map join_with app].
    rewrite (bind_some _ _ (m_special "]") _ _ true r)
      by (unfold m_special, present, maybe, bind, ret; rewrite dec_special_hit; reflexivity).
    reflexivity.
  - inversion Hp as [|? ? Hz Hp']; subst. rewrite w_part_cons, <- app_assoc.
    destruct (z_dec_first z (proj1 Hz)) as (c & t & Ec & Hc).
    rewrite (bind_some _ _ (m_special "]") _ _ false (z_dec z ++ dotted p ++ ch "]" :: r)).
    2:{ rewrite Ec. cbn [app]. unfold m_special, present, maybe, bind, ret.
        rewrite dec_special_miss by (apply digit_facts; exact Hc). reflexivity. }
    cbv iota.
    rewrite (bind_some _ _ _ _ _ (z :: p) (ch "]" :: r)).
    2:{ apply (binary_nums_ok p z [] _ r Hp). lia. }
    rewrite (bind_some _ _ (x_special "]") _ _ tt r)
      by (unfold x_special, expect; rewrite dec_special_hit; reflexivity).
    reflexivity.
Qed.


(* ---- partials ---- *)
Lemma maybe_partial_ok : forall p sg r, wf_partial p -> w_partial p = Some sg -> delimited r ->
  maybe_partial (flatten sg ++ r) = Some (p, r).
Proof.
  intros [[o n]|] sg r Hw H Hr; cbn [w_partial] in H; unfold maybe_partial.
  - destruct Hw as [Ho Hn].
    apply cat_some in H. destruct H as (x1 & y1 & H1 & H & ->).
    apply cat_some in H. destruct H as (x2 & y2 & H2 & H & ->).
    apply cat_some in H. destruct H as (x3 & y3 & H3 & H & ->).
    apply cat_some in H. destruct H as (x4 & y4 & H4 & H5 & ->).
    apply slit_inv in H1, H3, H5. subst x1 x3 y4.
    rewrite !flatten_app, !flatten_single, <- !app_assoc.
    change (s2b "<") with [ch "<"]. change (s2b ".") with [ch "."]. change (s2b ">") with [ch ">"].
    cbn [app].
    rewrite (bind_some _ _ (m_special "<") _ _ true (flatten x2 ++ ch "." :: flatten x4 ++ ch ">" :: r))
      by (unfold m_special, present, maybe, bind, ret; rewrite dec_special_hit; reflexivity).
    cbv iota.
    rewrite (bind_some _ _ x_number64 _ _ o (ch "." :: flatten x4 ++ ch ">" :: r))
      by (apply x_number64_enc; [exact Ho|reflexivity|exact H2]).
    rewrite (bind_some _ _ (x_special ".") _ _ tt (flatten x4 ++ ch ">" :: r))
      by (unfold x_special, expect; rewrite dec_special_hit; reflexivity).
    rewrite (bind_some _ _ x_number64 _ _ n (ch ">" :: r))
      by (apply x_number64_enc; [exact Hn|reflexivity|exact H4]).
    rewrite (bind_some _ _ (x_special ">") _ _ tt r)
      by (unfold x_special, expect; rewrite dec_special_hit; reflexivity).
    reflexivity.
  - apply nothing_inv in H. subst sg. cbn [flatten flat_map app].
    destruct r as [|c r]; [contradiction|]. destruct Hr as [Hc _].
    rewrite (bind_some _ _ (m_special "<") _ _ false (c :: r)).
    + reflexivity.
    + unfold m_special, present, maybe, bind, ret.
      rewrite dec_special_miss by (apply nonatom_facts; exact Hc). reflexivity.
Qed.

(* ---- header lists ---- *)
Lemma fold_snoc : forall (A : Type) (l acc : list A), fold_left (fun a h => a ++ [h]) l acc = acc ++ l.
Proof.
  intros A l. induction l as [|x l IH]; intros acc; cbn [fold_left]; [rewrite app_nil_r; reflexivity|].
  rewrite IH, <- app_assoc. reflexivity.
Qed.

Lemma header_list_ok : forall cfg hl pl rest, client_side cfg = true -> Forall short hl ->
  plist (map (enc_string cfg) hl) = Some pl -> header_list (flatten pl ++ rest) = Some (hl, rest).
Proof.
  intros cfg hl pl rest Hc Hs H. unfold header_list.
  rewrite (x_list_plist (list bytes) bytes _ (enc_string cfg) (fun a h => a ++ [h]) hl pl [] rest).
  - rewrite fold_snoc. reflexivity.
  - intros a Ha sg st r Hsg Hr. rewrite Forall_forall in Hs.
    rewrite (bind_some _ _ x_astring _ _ a r) by (apply (x_astring_enc cfg); auto). reflexivity.
  - intros a Ha sg Hsg. apply (enc_string_start cfg a). exact Hsg.
  - exact H.
Qed.

Lemma plist_start : forall l sg, plist l = Some sg -> exists t, flatten sg = ch "(" :: t.
Proof.
  intros l sg H. unfold plist in H. apply cat_some in H. destruct H as (x & y & Hx & _ & ->).
  apply slit_inv in Hx. subst x. rewrite flatten_app, flatten_single. eexists. reflexivity.
Qed.

(* ---- sections ---- *)
Definition w_spec (cfg : enc_cfg) (it : fsec) : eres :=
  if nilb (fs_spec it) then nothing
  else
    let '(hl, suffix) :=
      if negb (nilb (fs_fields it)) then (fs_fields it, slit ".FIELDS")
      else if negb (nilb (fs_fields_not it)) then (fs_fields_not it, slit ".FIELDS.NOT")
      else ([], nothing) in
    lit (fs_spec it) +++ suffix +++
    when (negb (nilb hl)) (sp +++ plist (map (enc_string cfg) hl)).

Lemma w_body_section_eq : forall cfg it, w_body_section cfg it =
  slit "BODY" +++ when (fs_peek it) (slit ".PEEK") +++ slit "[" +++ lit (w_part (fs_part it)) +++
  when (negb (nilb (fs_part it)) && negb (nilb (fs_spec it))) (slit ".") +++
  w_spec cfg it +++ slit "]" +++ w_partial (fs_partial it).
Proof. reflexivity. Qed.

Definition spec_k (part : list Z) (peek : bool) (spec : bytes) : P fsec :=
  let sp := upper spec in
  if nilb sp || is sp "HEADER" || is sp "MIME" || is sp "TEXT" then ret (mkSec sp part [] [] None peek)
  else if is sp "HEADER.FIELDS" then
    x_sp;; do l <- header_list; ret (mkSec (s2b "HEADER") part l [] None peek)
  else if is sp "HEADER.FIELDS.NOT" then
    x_sp;; do l <- header_list; ret (mkSec (s2b "HEADER") part [] l None peek)
  else reject.

Definition atom_opt : P bytes :=
  do a <- maybe dec_atom; ret (match a with Some x => x | None => [] end).

Lemma read_section_eq : forall peek, read_section peek =
  (do close <- m_special "]";
   if close then ret (mkSec [] [] [] [] None peek)
   else
     do pd <- (fun s => section_part (S (length s)) [] s);
     let '(part, dot) := pd in
     do sec <- (if dot || nilb part then
                  do spec <- (if dot then x_atom else atom_opt);
                  spec_k part peek spec
                else ret (mkSec [] part [] [] None peek));
     x_special "]";; ret sec).
Proof. reflexivity. Qed.

Definition reads_atoms (g : P bytes) : Prop :=
  forall a rest, a <> [] -> forallb is_atom_char a = true -> nonatom rest -> g (a ++ rest) = Some (a, rest).

Lemma x_atom_reads : reads_atoms x_atom.
Proof.
  intros a rest Hn Ha Hr. unfold x_atom, expect. rewrite (dec_atom_app a rest Hn Ha Hr). reflexivity.
Qed.
Lemma atom_opt_reads : reads_atoms atom_opt.
Proof.
  intros a rest Hn Ha Hr. unfold atom_opt, bind, maybe, ret. rewrite (dec_atom_app a rest Hn Ha Hr). reflexivity.
Qed.

Lemma read_spec : forall cfg x part peek sc r (g : P bytes),
  client_side cfg = true -> wf_fsec x -> fs_spec x <> [] -> w_spec cfg x = Some sc -> reads_atoms g ->
  bind g (spec_k part peek) (flatten sc ++ ch "]" :: r) =
  Some (mkSec (fs_spec x) part (fs_fields x) (fs_fields_not x) None peek, ch "]" :: r).
Proof.
  intros cfg [spec part0 fields fnot partial peek0] part peek sc r g Hc Hw Hne H Hg.
  unfold wf_fsec in Hw. cbn [fs_spec fs_part fs_fields fs_fields_not fs_partial fs_peek] in *.
  destruct Hw as (Hspec & _ & _ & Hsf & Hsn & Hone & Hhdr).
  unfold w_spec in H. cbn [fs_spec fs_part fs_fields fs_fields_not fs_partial fs_peek] in H.
  assert (Hplain : fields = [] -> fnot = [] ->
            (spec = s2b "HEADER" \/ spec = s2b "MIME" \/ spec = s2b "TEXT") ->
            bind g (spec_k part peek) (flatten sc ++ ch "]" :: r) =
            Some (mkSec spec part fields fnot None peek, ch "]" :: r)).
  { intros -> -> Hs. assert (Hsc : sc = [SBytes spec]).
    { destruct Hs as [->|[->| ->]]; cbn in H; injection H as <-; reflexivity. }
    subst sc. rewrite flatten_single.
    destruct Hs as [->|[->| ->]];
      (rewrite (bind_some _ _ g _ _ _ (ch "]" :: r)) by (apply Hg; [discriminate|reflexivity|reflexivity]);
       reflexivity). }
  destruct Hspec as [->|Hspec]; [congruence|].
  destruct Hhdr as [->|[-> ->]].
  - (* HEADER *)
    destruct fields as [|f fs].
    + destruct fnot as [|f fs].
      * apply Hplain; auto.
      * (* HEADER.FIELDS.NOT *)
        cbn [nilb negb when] in H. change (nilb HEADER) with false in H. cbv iota in H.
        apply cat_some in H. destruct H as (x1 & y1 & H1 & H & ->).
        apply cat_some in H. destruct H as (x2 & y2 & H2 & H & ->).
        apply cat_some in H. destruct H as (x3 & pl & H3 & Hpl & ->).
        apply lit_inv in H1, H3. apply slit_inv in H2. subst x1 x2 x3.
        rewrite !flatten_app, !flatten_single, <- !app_assoc.
        change (HEADER ++ s2b ".FIELDS.NOT" ++ [SP_] ++ flatten pl ++ ch "]" :: r)
          with (s2b "HEADER.FIELDS.NOT" ++ SP_ :: flatten pl ++ ch "]" :: r).
        rewrite (bind_some _ _ g _ _ _ (SP_ :: flatten pl ++ ch "]" :: r))
          by (apply Hg; [discriminate|reflexivity|reflexivity]).
        change (spec_k part peek (s2b "HEADER.FIELDS.NOT"))
          with (x_sp;; do l <- header_list; ret (mkSec (s2b "HEADER") part [] l None peek)).
        destruct (plist_start _ _ Hpl) as (t & Et).
        rewrite (bind_some _ _ x_sp _ _ tt (flatten pl ++ ch "]" :: r))
          by (apply x_sp_sp; rewrite Et; split; reflexivity).
        rewrite (bind_some _ _ header_list _ _ (f :: fs) (ch "]" :: r))
          by (apply (header_list_ok cfg); assumption).
        reflexivity.
    + (* HEADER.FIELDS *)
      assert (fnot = []) by (destruct Hone as [Hx|Hx]; [discriminate Hx|exact Hx]). subst fnot.
      cbn [nilb negb when] in H. change (nilb HEADER) with false in H. cbv iota in H.
      apply cat_some in H. destruct H as (x1 & y1 & H1 & H & ->).
      apply cat_some in H. destruct H as (x2 & y2 & H2 & H & ->).
      apply cat_some in H. destruct H as (x3 & pl & H3 & Hpl & ->).
      apply lit_inv in H1, H3. apply slit_inv in H2. subst x1 x2 x3.
      rewrite !flatten_app, !flatten_single, <- !app_assoc.
      change (HEADER ++ s2b ".FIELDS" ++ [SP_] ++ flatten pl ++ ch "]" :: r)
        with (s2b "HEADER.FIELDS" ++ SP_ :: flatten pl ++ ch "]" :: r).
      rewrite (bind_some _ _ g _ _ _ (SP_ :: flatten pl ++ ch "]" :: r))
        by (apply Hg; [discriminate|reflexivity|reflexivity]).
      change (spec_k part peek (s2b "HEADER.FIELDS"))
        with (x_sp;; do l <- header_list; ret (mkSec (s2b "HEADER") part l [] None peek)).
      destruct (plist_start _ _ Hpl) as (t & Et).
      rewrite (bind_some _ _ x_sp _ _ tt (flatten pl ++ ch "]" :: r))
        by (apply x_sp_sp; rewrite Et; split; reflexivity).
      rewrite (bind_some _ _ header_list _ _ (f :: fs) (ch "]" :: r))
        by (apply (header_list_ok cfg); assumption).
      reflexivity.
  - apply Hplain; auto.
Qed.


Lemma w_spec_first : forall cfg x sc, wf_fsec x -> fs_spec x <> [] -> w_spec cfg x = Some sc ->
  exists c t, flatten sc = c :: t /\ is_digit c = false /\ beqb c (ch "]") = false.
Proof.
  intros cfg x sc Hw Hne H. destruct Hw as (Hspec & _). unfold w_spec in H.
  destruct (nilb (fs_spec x)) eqn:E; [destruct (fs_spec x); [congruence|discriminate]|].
  destruct (if negb (nilb (fs_fields x)) then (fs_fields x, slit ".FIELDS")
            else if negb (nilb (fs_fields_not x)) then (fs_fields_not x, slit ".FIELDS.NOT")
            else ([], nothing)) as [hl suffix].
  apply cat_some in H. destruct H as (x1 & y1 & H1 & _ & ->). apply lit_inv in H1. subst x1.
  rewrite flatten_app, flatten_single.
  destruct Hspec as [Hs|[Hs|[Hs|Hs]]]; [congruence| | |]; rewrite Hs;
    eexists _, _; (split; [reflexivity|split; reflexivity]).
Qed.

Lemma m_special_hit : forall c r, m_special c (ch c :: r) = Some (true, r).
Proof. intros c r. unfold m_special, present, maybe, bind, ret. rewrite dec_special_hit. reflexivity. Qed.
Lemma m_special_miss : forall c x r, beqb x (ch c) = false -> m_special c (x :: r) = Some (false, x :: r).
Proof.
  intros c x r H. unfold m_special, present, maybe, bind, ret. rewrite (dec_special_miss _ _ _ H). reflexivity.
Qed.
Lemma x_special_hit : forall c r, x_special c (ch c :: r) = Some (tt, r).
Proof. intros c r. unfold x_special, expect. rewrite dec_special_hit. reflexivity. Qed.

Lemma read_section_ok : forall cfg x peek sb sc r, client_side cfg = true -> wf_fsec x ->
  when (negb (nilb (fs_part x)) && negb (nilb (fs_spec x))) (slit ".") = Some sb ->
  w_spec cfg x = Some sc ->
  read_section peek (w_part (fs_part x) ++ flatten sb ++ flatten sc ++ ch "]" :: r) =
  Some (mkSec (fs_spec x) (fs_part x) (fs_fields x) (fs_fields_not x) None peek, r).
Proof.
  intros cfg x peek sb sc r Hc Hw Hb Hs. rewrite read_section_eq.
  pose proof Hw as (Hspec & Hpart & _ & _ & _ & _ & Hhdr).
  destruct (fs_part x) as [|z p] eqn:Ep; destruct (fs_spec x) as [|s0 spec] eqn:Es.
  - (* BODY[] *)
    cbn [nilb negb andb when] in Hb. apply nothing_inv in Hb. subst sb.
    unfold w_spec in Hs. rewrite Es in Hs. cbn [nilb] in Hs. apply nothing_inv in Hs. subst sc.
    destruct Hhdr as [Hh|[-> ->]]; [discriminate Hh|].
    cbn [w_part map join_with flatten flat_map app].
    rewrite (bind_some _ _ (m_special "]") _ _ true r) by apply m_special_hit.
    reflexivity.
  - (* BODY[SPEC...] *)
    cbn [nilb negb andb when] in Hb. apply nothing_inv in Hb. subst sb.
    assert (Hne : fs_spec x <> []) by (rewrite Es; discriminate).
    destruct (w_spec_first cfg x sc Hw Hne Hs) as (c & t & Ec & Hd & Hcl).
    cbn [w_part map join_with flatten flat_map app].
    pose proof (read_spec cfg x [] peek sc r atom_opt Hc Hw Hne Hs atom_opt_reads) as HR.
    rewrite Ec in *. cbn [app] in *.
    rewrite (bind_some _ _ (m_special "]") _ _ false (c :: t ++ ch "]" :: r)) by (apply m_special_miss; exact Hcl).
    cbv iota.
    rewrite (bind_some _ _ _ _ _ ([], false) (c :: t ++ ch "]" :: r)).
    2:{ cbn [section_part nilb negb]. rewrite (dec_func_no _ c _ Hd). reflexivity. }
    cbv iota beta. cbn [orb nilb].
    rewrite (bind_some _ _ _ _ _ _ _ HR).
    rewrite (bind_some _ _ (x_special "]") _ _ tt r) by apply x_special_hit.
    rewrite Es. reflexivity.
  - (* BODY[1.2] *)
    cbn [nilb negb andb when] in Hb. apply nothing_inv in Hb. subst sb.
    unfold w_spec in Hs. rewrite Es in Hs. cbn [nilb] in Hs. apply nothing_inv in Hs. subst sc.
    destruct Hhdr as [Hh|[-> ->]]; [discriminate Hh|].
    cbn [flatten flat_map app].
    inversion Hpart as [|? ? Hz Hp']; subst.
    destruct (z_dec_first z (proj1 Hz)) as (c & t & Ec & Hd).
    destruct (section_part_cons z p (ch "]" :: r) Hpart) as [SP1 _].
    specialize (SP1 r eq_refl).
    assert (E : w_part (z :: p) ++ ch "]" :: r = c :: (t ++ dotted p) ++ ch "]" :: r).
    { rewrite w_part_cons, Ec. rewrite <- !app_assoc. reflexivity. }
    rewrite E in *.
    rewrite (bind_some _ _ (m_special "]") _ _ false _) by (apply m_special_miss; apply digit_facts; exact Hd).
    cbv iota.
    rewrite (bind_some _ _ (fun s => section_part (S (length s)) [] s) _ _ _ _ SP1).
    cbv iota beta. cbn [orb nilb].
    rewrite (bind_some _ _ (ret _) _ _ _ _ eq_refl).
    rewrite (bind_some _ _ (x_special "]") _ _ tt r) by apply x_special_hit.
    reflexivity.
  - (* BODY[1.2.SPEC...] *)
    cbn [nilb negb andb when] in Hb. apply slit_inv in Hb. subst sb.
    assert (Hne : fs_spec x <> []) by (rewrite Es; discriminate).
    destruct (w_spec_first cfg x sc Hw Hne Hs) as (c & t & Ec & Hd & Hcl).
    pose proof (read_spec cfg x (z :: p) peek sc r x_atom Hc Hw Hne Hs x_atom_reads) as HR.
    rewrite flatten_single. change (s2b ".") with [ch "."].
    rewrite Ec in *. cbn [app] in *.
    inversion Hpart as [|? ? Hz Hp']; subst.
    destruct (z_dec_first z (proj1 Hz)) as (c0 & t0 & Ec0 & Hd0).
    destruct (section_part_cons z p (ch "." :: c :: t ++ ch "]" :: r) Hpart) as [_ SP2].
    specialize (SP2 c _ eq_refl Hd).
    assert (E : w_part (z :: p) ++ ch "." :: c :: t ++ ch "]" :: r =
                c0 :: (t0 ++ dotted p) ++ ch "." :: c :: t ++ ch "]" :: r).
    { rewrite w_part_cons, Ec0. rewrite <- !app_assoc. reflexivity. }
    unfold byte, bytes in *. rewrite E in *.
    rewrite (bind_some _ _ (m_special "]") _ _ false _) by (apply m_special_miss; apply digit_facts; exact Hd0).
    cbv iota.
    rewrite (bind_some _ _ (fun s => section_part (S (length s)) [] s) _ _ _ _ SP2).
    cbv iota beta. cbn [orb nilb].
    rewrite (bind_some _ _ _ _ _ _ _ HR).
    rewrite (bind_some _ _ (x_special "]") _ _ tt r) by apply x_special_hit.
    rewrite Es. reflexivity.
Qed.


(* ---- fetch items ---- *)
Definition att_stop (r : bytes) : Prop :=
  match r with [] => False | c :: _ => is_att_name_char c = false end.

Lemma bind_att_name : forall B (f : bytes -> P B) a r, a <> [] -> forallb is_att_name_char a = true ->
  upper a = a -> att_stop r -> bind att_name f (a ++ r) = f a r.
Proof.
  intros B f a [|c r] Hn Ha Hu Hr; [contradiction|]. unfold att_name, bind, expect, ret.
  pose proof (dec_func_app _ a c r Hn Ha Hr) as E. unfold byte, bytes in *. rewrite E. rewrite Hu. reflexivity.
Qed.

Lemma delimited_att_stop : forall r, delimited r -> att_stop r.
Proof. intros [|c r]; [auto|]. intros [H _]. cbn. apply nonatom_facts. exact H. Qed.

Inductive fitem := FUid | FName (n : bytes) | FSec (x : fsec) | FBin (x : fbin) | FSize (p : list Z).

Definition enc_fitem (cfg : enc_cfg) (it : fitem) : eres :=
  match it with
  | FUid => slit "UID"
  | FName n => lit n
  | FSec x => w_body_section cfg x
  | FBin x => w_binary_section x
  | FSize p => w_binary_size p
  end.

Definition step_name (st : fetch_opts) (n : bytes) : fetch_opts :=
  if is n "BODY" then set_bs st false
  else if is n "BODYSTRUCTURE" then set_bs st true
  else if is n "ENVELOPE" then set_flag st 0
  else if is n "FLAGS" then set_flag st 1
  else if is n "INTERNALDATE" then set_flag st 2
  else if is n "RFC822.SIZE" then set_flag st 3
  else st.

Definition step_fitem (st : fetch_opts) (it : fitem) : fetch_opts :=
  match it with
  | FUid => set_flag st 4
  | FName n => step_name st n
  | FSec x => add_section st x
  | FBin x => add_binary st x
  | FSize p => add_binsize st p
  end.

Definition six_names : list bytes :=
  [s2b "BODY"; s2b "BODYSTRUCTURE"; s2b "ENVELOPE"; s2b "FLAGS"; s2b "INTERNALDATE"; s2b "RFC822.SIZE"].

Definition ok_fitem (it : fitem) : Prop :=
  match it with
  | FUid => True
  | FName n => In n six_names
  | FSec x => wf_fsec x
  | FBin x => wf_fbin x
  | FSize p => wf_part p
  end.

Definition item_k (name : bytes) (o : fetch_opts) : P fetch_opts :=
  if is_macro name then reject else fetch_att name o.
Definition item_p (o : fetch_opts) : P fetch_opts := do name <- att_name; item_k name o.

Lemma delimited_open : forall r, delimited r ->
  exists c t, r = c :: t /\ beqb c (ch "[") = false.
Proof.
  intros [|c t] H; [contradiction|]. destruct H as [H _]. exists c, t. split; [reflexivity|].
  apply nonatom_facts. exact H.
Qed.

Lemma item_name_ok : forall n st r, In n six_names -> delimited r ->
  item_p st (n ++ r) = Some (step_name st n, r).
Proof.
  intros n st r Hn Hr. pose proof (delimited_att_stop r Hr) as Hs.
  destruct (delimited_open r Hr) as (c & t & -> & Hc).
  unfold item_p. cbn [six_names In] in Hn.
  destruct Hn as [<-|[<-|[<-|[<-|[<-|[<-|[]]]]]]];
    rewrite bind_att_name by (try discriminate; try reflexivity; exact Hs).
  - change (item_k (s2b "BODY") st) with
      (do br <- m_special "[";
       if br then do sec <- read_section false; do p <- maybe_partial; ret (add_section st (set_sec_partial sec p))
       else ret (set_bs st false)).
    rewrite (bind_some _ _ (m_special "[") _ _ false (c :: t)) by (apply m_special_miss; exact Hc).
    reflexivity.
  - reflexivity.
  - reflexivity.
  - reflexivity.
  - reflexivity.
  - reflexivity.
Qed.

Lemma item_sec_ok : forall cfg x sg st r, client_side cfg = true -> wf_fsec x -> delimited r ->
  w_body_section cfg x = Some sg -> item_p st (flatten sg ++ r) = Some (add_section st x, r).
Proof.
  intros cfg x sg st r Hc Hw Hr H. rewrite w_body_section_eq in H.
  apply cat_some in H. destruct H as (x1 & y1 & H1 & H & ->).
  apply cat_some in H. destruct H as (x2 & y2 & H2 & H & ->).
  apply cat_some in H. destruct H as (x3 & y3 & H3 & H & ->).
  apply cat_some in H. destruct H as (x4 & y4 & H4 & H & ->).
  apply cat_some in H. destruct H as (x5 & y5 & H5 & H & ->).
  apply cat_some in H. destruct H as (x6 & y6 & H6 & H & ->).
  apply cat_some in H. destruct H as (x7 & x8 & H7 & H8 & ->).
  apply slit_inv in H1, H3, H7. apply lit_inv in H4. subst x1 x3 x4 x7.
  rewrite !flatten_app, !flatten_single, <- !app_assoc.
  change (s2b "[") with [ch "["]. change (s2b "]") with [ch "]"]. cbn [app].
  pose proof (read_section_ok cfg x (fs_peek x) x5 x6 (flatten x8 ++ r) Hc Hw H5 H6) as HR.
  pose proof (maybe_partial_ok (fs_partial x) x8 r (proj1 (proj2 (proj2 Hw))) H8 Hr) as HP.
  assert (HX : set_sec_partial (mkSec (fs_spec x) (fs_part x) (fs_fields x) (fs_fields_not x) None (fs_peek x))
                 (fs_partial x) = x) by (destruct x; reflexivity).
  unfold item_p. destruct (fs_peek x).
  - apply slit_inv in H2. subst x2. rewrite flatten_single.
    change (s2b "BODY" ++ s2b ".PEEK" ++ ch "[" :: w_part (fs_part x) ++ flatten x5 ++ flatten x6 ++ ch "]" :: flatten x8 ++ r)
      with (s2b "BODY.PEEK" ++ ch "[" :: w_part (fs_part x) ++ flatten x5 ++ flatten x6 ++ ch "]" :: flatten x8 ++ r).
    rewrite bind_att_name by (try discriminate; reflexivity).
    change (item_k (s2b "BODY.PEEK") st) with
      (x_special "[";; do sec <- read_section true; do p <- maybe_partial; ret (add_section st (set_sec_partial sec p))).
    rewrite (bind_some _ _ (x_special "[") _ _ tt _ (x_special_hit _ _)).
    rewrite (bind_some _ _ _ _ _ _ _ HR).
    rewrite (bind_some _ _ _ _ _ _ _ HP).
    unfold ret. rewrite HX. reflexivity.
  - apply nothing_inv in H2. subst x2. cbn [flatten flat_map app].
    rewrite bind_att_name by (try discriminate; reflexivity).
    change (item_k (s2b "BODY") st) with
      (do br <- m_special "[";
       if br then do sec <- read_section false; do p <- maybe_partial; ret (add_section st (set_sec_partial sec p))
       else ret (set_bs st false)).
    rewrite (bind_some _ _ (m_special "[") _ _ true _ (m_special_hit _ _)).
    cbv iota.
    rewrite (bind_some _ _ _ _ _ _ _ HR).
    rewrite (bind_some _ _ _ _ _ _ _ HP).
    unfold ret. rewrite HX. reflexivity.
Qed.

Lemma item_bin_ok : forall x sg st r, wf_fbin x -> delimited r ->
  w_binary_section x = Some sg -> item_p st (flatten sg ++ r) = Some (add_binary st x, r).
Proof.
  intros x sg st r [Hp Hpa] Hr H. unfold w_binary_section in H.
  apply cat_some in H. destruct H as (x1 & y1 & H1 & H & ->).
  apply cat_some in H. destruct H as (x2 & y2 & H2 & H & ->).
  apply cat_some in H. destruct H as (x3 & y3 & H3 & H & ->).
  apply cat_some in H. destruct H as (x4 & y4 & H4 & H & ->).
  apply cat_some in H. destruct H as (x5 & x6 & H5 & H6 & ->).
  apply slit_inv in H1, H3, H5. apply lit_inv in H4. subst x1 x3 x4 x5.
  rewrite !flatten_app, !flatten_single, <- !app_assoc.
  change (s2b "[") with [ch "["]. change (s2b "]") with [ch "]"]. cbn [app].
  pose proof (section_binary_ok (fb_part x) (flatten x6 ++ r) Hp) as HR.
  pose proof (maybe_partial_ok (fb_partial x) x6 r Hpa H6 Hr) as HP.
  unfold item_p. destruct x as [part partial peek]. cbn [fb_part fb_partial fb_peek] in *. destruct peek.
  - apply slit_inv in H2. subst x2. rewrite flatten_single.
    change (s2b "BINARY" ++ s2b ".PEEK" ++ ch "[" :: w_part part ++ ch "]" :: flatten x6 ++ r)
      with (s2b "BINARY.PEEK" ++ ch "[" :: w_part part ++ ch "]" :: flatten x6 ++ r).
    rewrite bind_att_name by (try discriminate; reflexivity).
    change (item_k (s2b "BINARY.PEEK") st) with
      (do part <- section_binary; do p <- maybe_partial; ret (add_binary st (mkBin part p true))).
    rewrite (bind_some _ _ _ _ _ _ _ HR).
    rewrite (bind_some _ _ _ _ _ _ _ HP).
    reflexivity.
  - apply nothing_inv in H2. subst x2. cbn [flatten flat_map app].
    rewrite bind_att_name by (try discriminate; reflexivity).
    change (item_k (s2b "BINARY") st) with
      (do part <- section_binary; do p <- maybe_partial; ret (add_binary st (mkBin part p false))).
    rewrite (bind_some _ _ _ _ _ _ _ HR).
    rewrite (bind_some _ _ _ _ _ _ _ HP).
    reflexivity.
Qed.

Lemma item_size_ok : forall p sg st r, wf_part p ->
  w_binary_size p = Some sg -> item_p st (flatten sg ++ r) = Some (add_binsize st p, r).
Proof.
  intros p sg st r Hp H. unfold w_binary_size in H.
  apply cat_some in H. destruct H as (x1 & y1 & H1 & H & ->).
  apply cat_some in H. destruct H as (x2 & x3 & H2 & H3 & ->).
  apply slit_inv in H1, H3. apply lit_inv in H2. subst x1 x2 x3.
  rewrite !flatten_app, !flatten_single, <- !app_assoc.
  change (s2b "BINARY.SIZE[") with (s2b "BINARY.SIZE" ++ [ch "["]). change (s2b "]") with [ch "]"].
  rewrite <- !app_assoc. cbn [app].
  unfold item_p.
  rewrite bind_att_name by (try discriminate; reflexivity).
  change (item_k (s2b "BINARY.SIZE") st) with (do part <- section_binary; ret (add_binsize st part)).
  rewrite (bind_some _ _ _ _ _ _ _ (section_binary_ok p r Hp)).
  reflexivity.
Qed.

Lemma item_ok : forall cfg it sg st r, client_side cfg = true -> ok_fitem it -> delimited r ->
  enc_fitem cfg it = Some sg -> item_p st (flatten sg ++ r) = Some (step_fitem st it, r).
Proof.
  intros cfg [|n|x|x|p] sg st r Hc Hok Hr H; cbn [enc_fitem ok_fitem step_fitem] in *.
  - apply slit_inv in H. subst sg. rewrite flatten_single.
    unfold item_p. rewrite bind_att_name by (try discriminate; try reflexivity; apply delimited_att_stop; exact Hr).
    reflexivity.
  - apply lit_inv in H. subst sg. rewrite flatten_single. apply item_name_ok; assumption.
  - apply (item_sec_ok cfg); assumption.
  - apply item_bin_ok; assumption.
  - apply item_size_ok; assumption.
Qed.

Lemma item_start_ok : forall cfg it sg, ok_fitem it -> enc_fitem cfg it = Some sg -> item_start (flatten sg).
Proof.
  intros cfg [|n|x|x|p] sg Hok H; cbn [enc_fitem ok_fitem] in *.
  - apply slit_inv in H. subst sg. rewrite flatten_single. repeat split; reflexivity.
  - apply lit_inv in H. subst sg. rewrite flatten_single. cbn [six_names In] in Hok.
    destruct Hok as [<-|[<-|[<-|[<-|[<-|[<-|[]]]]]]]; repeat split; reflexivity.
  - rewrite w_body_section_eq in H. apply cat_some in H. destruct H as (x1 & y1 & H1 & _ & ->).
    apply slit_inv in H1. subst x1. rewrite flatten_app, flatten_single. repeat split; reflexivity.
  - unfold w_binary_section in H. apply cat_some in H. destruct H as (x1 & y1 & H1 & _ & ->).
    apply slit_inv in H1. subst x1. rewrite flatten_app, flatten_single. repeat split; reflexivity.
  - unfold w_binary_size in H. apply cat_some in H. destruct H as (x1 & y1 & H1 & _ & ->).
    apply slit_inv in H1. subst x1. rewrite flatten_app, flatten_single. repeat split; reflexivity.
Qed.


(* ---- the item list and the state it builds ---- *)
Definition fitems (uid : bool) (o : fetch_opts) (order : list nat) : list fitem :=
  (if fo_uid o || uid then [FUid] else []) ++
  map FName (map_items (fetch_names o) order) ++
  map FSec (fo_sections o) ++ map FBin (fo_binary o) ++ map FSize (fo_binsize o).

Lemma w_fetch_items_eq : forall cfg uid o order,
  w_fetch_items cfg uid o order = plist (map (enc_fitem cfg) (fitems uid o order)).
Proof.
  intros cfg uid o order. unfold w_fetch_items, fitems. rewrite !map_app, !map_map.
  destruct (fo_uid o || uid); reflexivity.
Qed.

Definition has (k : string) (names : list bytes) : bool := existsb (fun x => is x k) names.

Definition bs_merge (bs : option bool) (b ext : bool) : option bool :=
  if ext then Some true else if b then match bs with None => Some false | Some _ => bs end else bs.

Lemma names_fold : forall names st,
  fold_left step_name names st =
  mkFetch (bs_merge (fo_bodystructure st) (has "BODY" names) (has "BODYSTRUCTURE" names))
          (fo_envelope st || has "ENVELOPE" names) (fo_flags st || has "FLAGS" names)
          (fo_internaldate st || has "INTERNALDATE" names) (fo_rfc822size st || has "RFC822.SIZE" names)
          (fo_uid st) (fo_sections st) (fo_binary st) (fo_binsize st) (fo_modseq st) (fo_changedsince st).
Proof.
  induction names as [|a names IH]; intros st.
  - destruct st as [bs en fl idt sz u secs bins bsz ms cs]. cbn. rewrite !orb_false_r. reflexivity.
  - cbn [fold_left]. rewrite IH. unfold has. cbn [existsb]. fold (has "BODY" names).
    fold (has "BODYSTRUCTURE" names). fold (has "ENVELOPE" names). fold (has "FLAGS" names).
    fold (has "INTERNALDATE" names). fold (has "RFC822.SIZE" names).
    generalize (has "BODY" names) (has "BODYSTRUCTURE" names) (has "ENVELOPE" names) (has "FLAGS" names)
               (has "INTERNALDATE" names) (has "RFC822.SIZE" names).
    intros h1 h2 h3 h4 h5 h6. unfold step_name.
    destruct st as [bs en fl idt sz u secs bins bsz ms cs].
    destruct (is a "BODY") eqn:E1.
    { apply bytes_eqb_true_iff in E1. subst a. cbn.
      destruct bs as [[|]|], h1, h2; reflexivity. }
    destruct (is a "BODYSTRUCTURE") eqn:E2.
    { apply bytes_eqb_true_iff in E2. subst a. cbn.
      destruct bs as [[|]|], h1, h2; reflexivity. }
    destruct (is a "ENVELOPE") eqn:E3.
    { apply bytes_eqb_true_iff in E3. subst a. cbn. destruct en; reflexivity. }
    destruct (is a "FLAGS") eqn:E4.
    { apply bytes_eqb_true_iff in E4. subst a. cbn. destruct fl; reflexivity. }
    destruct (is a "INTERNALDATE") eqn:E5.
    { apply bytes_eqb_true_iff in E5. subst a. cbn. destruct idt; reflexivity. }
    destruct (is a "RFC822.SIZE") eqn:E6.
    { apply bytes_eqb_true_iff in E6. subst a. cbn. destruct sz; reflexivity. }
    reflexivity.
Qed.

Lemma fold_names : forall names st,
  fold_left step_fitem (map FName names) st = fold_left step_name names st.
Proof. induction names as [|a names IH]; intros st; cbn; [reflexivity|apply IH]. Qed.

Lemma fold_secs : forall l st,
  fold_left step_fitem (map FSec l) st =
  mkFetch (fo_bodystructure st) (fo_envelope st) (fo_flags st) (fo_internaldate st) (fo_rfc822size st)
          (fo_uid st) (fo_sections st ++ l) (fo_binary st) (fo_binsize st) (fo_modseq st) (fo_changedsince st).
Proof.
  induction l as [|a l IH]; intros [bs en fl idt sz u secs bins bsz ms cs].
  - cbn. rewrite app_nil_r. reflexivity.
  - cbn [map fold_left step_fitem add_section]. rewrite IH. cbn. rewrite <- app_assoc. reflexivity.
Qed.
Lemma fold_bins : forall l st,
  fold_left step_fitem (map FBin l) st =
  mkFetch (fo_bodystructure st) (fo_envelope st) (fo_flags st) (fo_internaldate st) (fo_rfc822size st)
          (fo_uid st) (fo_sections st) (fo_binary st ++ l) (fo_binsize st) (fo_modseq st) (fo_changedsince st).
Proof.
  induction l as [|a l IH]; intros [bs en fl idt sz u secs bins bsz ms cs].
  - cbn. rewrite app_nil_r. reflexivity.
  - cbn [map fold_left step_fitem add_binary]. rewrite IH. cbn. rewrite <- app_assoc. reflexivity.
Qed.
Lemma fold_sizes : forall l st,
  fold_left step_fitem (map FSize l) st =
  mkFetch (fo_bodystructure st) (fo_envelope st) (fo_flags st) (fo_internaldate st) (fo_rfc822size st)
          (fo_uid st) (fo_sections st) (fo_binary st) (fo_binsize st ++ l) (fo_modseq st) (fo_changedsince st).
Proof.
  induction l as [|a l IH]; intros [bs en fl idt sz u secs bins bsz ms cs].
  - cbn. rewrite app_nil_r. reflexivity.
  - cbn [map fold_left step_fitem add_binsize]. rewrite IH. cbn. rewrite <- app_assoc. reflexivity.
Qed.

Lemma has_names : forall o order k, covers order ->
  has k (map_items (fetch_names o) order) = existsb (fun p => is (fst p) k && snd p) (fetch_names o).
Proof.
  intros o order k Hcov. apply Bool.eq_iff_eq_true. unfold has. rewrite !existsb_exists. split.
  - intros (n & Hn & Hk). apply map_items_in in Hn. destruct Hn as (i & _ & Hi).
    exists (n, true). split; [eapply nth_error_In; exact Hi|]. cbn [fst snd]. rewrite Hk. reflexivity.
  - intros ([n b] & Hp & Hk). cbn [fst snd] in Hk. apply andb_true_iff in Hk. destruct Hk as [Hk ->].
    exists n. split; [|exact Hk]. apply map_items_in.
    destruct (In_nth_error _ _ Hp) as (i & Hi). exists i. split; [|exact Hi].
    apply Hcov. assert (Hl : (i < length (fetch_names o))%nat) by (apply nth_error_Some; congruence).
    cbn in Hl. lia.
Qed.

Lemma names_ok : forall n o order, In n (map_items (fetch_names o) order) -> fo_modseq o = false -> In n six_names.
Proof.
  intros n o order H Hm. apply map_items_in in H. destruct H as (i & _ & Hi).
  do 7 (destruct i as [|i]; [cbn in Hi; injection Hi as <- Hb; cbn; try tauto|]).
  - congruence.
  - destruct i; discriminate Hi.
Qed.

Ltac fproj := cbn [fo_bodystructure fo_envelope fo_flags fo_internaldate fo_rfc822size fo_uid
                   fo_sections fo_binary fo_binsize fo_modseq fo_changedsince].

Lemma has_values : forall o order, covers order ->
  let names := map_items (fetch_names o) order in
  has "BODY" names = (match fo_bodystructure o with Some false => true | _ => false end) /\
  has "BODYSTRUCTURE" names = (match fo_bodystructure o with Some true => true | _ => false end) /\
  has "ENVELOPE" names = fo_envelope o /\ has "FLAGS" names = fo_flags o /\
  has "INTERNALDATE" names = fo_internaldate o /\ has "RFC822.SIZE" names = fo_rfc822size o.
Proof.
  intros o order Hcov names. unfold names. rewrite !(has_names o order _ Hcov).
  unfold fetch_names. cbn [existsb fst snd].
  change (is (s2b "BODY") "BODY") with true. change (is (s2b "BODYSTRUCTURE") "BODY") with false.
  change (is (s2b "ENVELOPE") "BODY") with false. change (is (s2b "FLAGS") "BODY") with false.
  change (is (s2b "INTERNALDATE") "BODY") with false. change (is (s2b "RFC822.SIZE") "BODY") with false.
  change (is (s2b "MODSEQ") "BODY") with false.
  change (is (s2b "BODY") "BODYSTRUCTURE") with false. change (is (s2b "BODYSTRUCTURE") "BODYSTRUCTURE") with true.
  change (is (s2b "ENVELOPE") "BODYSTRUCTURE") with false. change (is (s2b "FLAGS") "BODYSTRUCTURE") with false.
  change (is (s2b "INTERNALDATE") "BODYSTRUCTURE") with false. change (is (s2b "RFC822.SIZE") "BODYSTRUCTURE") with false.
  change (is (s2b "MODSEQ") "BODYSTRUCTURE") with false.
  change (is (s2b "BODY") "ENVELOPE") with false. change (is (s2b "BODYSTRUCTURE") "ENVELOPE") with false.
  change (is (s2b "ENVELOPE") "ENVELOPE") with true. change (is (s2b "FLAGS") "ENVELOPE") with false.
  change (is (s2b "INTERNALDATE") "ENVELOPE") with false. change (is (s2b "RFC822.SIZE") "ENVELOPE") with false.
  change (is (s2b "MODSEQ") "ENVELOPE") with false.
  change (is (s2b "BODY") "FLAGS") with false. change (is (s2b "BODYSTRUCTURE") "FLAGS") with false.
  change (is (s2b "ENVELOPE") "FLAGS") with false. change (is (s2b "FLAGS") "FLAGS") with true.
  change (is (s2b "INTERNALDATE") "FLAGS") with false. change (is (s2b "RFC822.SIZE") "FLAGS") with false.
  change (is (s2b "MODSEQ") "FLAGS") with false.
  change (is (s2b "BODY") "INTERNALDATE") with false. change (is (s2b "BODYSTRUCTURE") "INTERNALDATE") with false.
  change (is (s2b "ENVELOPE") "INTERNALDATE") with false. change (is (s2b "FLAGS") "INTERNALDATE") with false.
  change (is (s2b "INTERNALDATE") "INTERNALDATE") with true. change (is (s2b "RFC822.SIZE") "INTERNALDATE") with false.
  change (is (s2b "MODSEQ") "INTERNALDATE") with false.
  change (is (s2b "BODY") "RFC822.SIZE") with false. change (is (s2b "BODYSTRUCTURE") "RFC822.SIZE") with false.
  change (is (s2b "ENVELOPE") "RFC822.SIZE") with false. change (is (s2b "FLAGS") "RFC822.SIZE") with false.
  change (is (s2b "INTERNALDATE") "RFC822.SIZE") with false. change (is (s2b "RFC822.SIZE") "RFC822.SIZE") with true.
  change (is (s2b "MODSEQ") "RFC822.SIZE") with false.
  cbn [andb orb].
  destruct (fo_bodystructure o) as [[|]|], (fo_envelope o), (fo_flags o), (fo_internaldate o), (fo_rfc822size o);
    repeat split; reflexivity.
Qed.

Lemma final_state : forall uid o order, covers order -> fo_modseq o = false -> fo_changedsince o = 0 ->
  (let o' := fold_left step_fitem (fitems uid o order) fetch_empty in if uid then set_flag o' 4 else o') =
  norm_fetch uid o.
Proof.
  intros uid o order Hcov Hm Hcs. cbv zeta.
  destruct (has_values o order Hcov) as (h1 & h2 & h3 & h4 & h5 & h6).
  unfold fitems. rewrite !fold_left_app.
  assert (E0 : fold_left step_fitem (if fo_uid o || uid then [FUid] else []) fetch_empty =
               mkFetch None false false false false (fo_uid o || uid) [] [] [] false 0).
  { destruct (fo_uid o || uid); reflexivity. }
  rewrite E0. clear E0.
  rewrite fold_names, names_fold. fproj. rewrite h1, h2, h3, h4, h5, h6. clear h1 h2 h3 h4 h5 h6.
  rewrite fold_secs. fproj. rewrite fold_bins. fproj. rewrite fold_sizes. fproj.
  cbn [orb app]. unfold norm_fetch.
  destruct o as [bs en fl idt sz u secs bins bsz ms cs]. fproj. cbn [fo_modseq fo_changedsince] in Hm, Hcs.
  subst ms cs.
  destruct bs as [[|]|], u, uid; reflexivity.
Qed.


Lemma fitems_ok : forall uid o order it, wf_fetch o -> In it (fitems uid o order) -> ok_fitem it.
Proof.
  intros uid o order it (Hsecs & Hbins & Hsizes & Hm & _) H. unfold fitems in H.
  rewrite Forall_forall in Hsecs, Hbins, Hsizes.
  apply in_app_or in H. destruct H as [H|H].
  { destruct (fo_uid o || uid); [|destruct H]. destruct H as [<-|[]]. exact I. }
  apply in_app_or in H. destruct H as [H|H].
  { apply in_map_iff in H. destruct H as (n & <- & Hn). cbn. eapply names_ok; eauto. }
  apply in_app_or in H. destruct H as [H|H].
  { apply in_map_iff in H. destruct H as (n & <- & Hn). cbn. auto. }
  apply in_app_or in H. destruct H as [H|H].
  { apply in_map_iff in H. destruct H as (n & <- & Hn). cbn. auto. }
  apply in_map_iff in H. destruct H as (n & <- & Hn). cbn. auto.
Qed.

Lemma numarg_start : forall uid s sn, wf_numarg uid s -> w_numarg s = Some sn ->
  after_sp (flatten sn).
Proof.
  intros uid [|x] sn Hw H; cbn [w_numarg] in H.
  - apply slit_inv in H. subst sn. rewrite flatten_single. split; reflexivity.
  - unfold enc_numset in H. pose proof (to_string_numset_chars x) as Hc.
    destruct (to_string x) as [|c t]; [discriminate|]. injection H as <-. rewrite flatten_single.
    cbn [forallb] in Hc. apply andb_true_iff in Hc. destruct Hc as [Hc _].
    cbn. apply numset_char_facts. exact Hc.
Qed.

Definition h_fetch' (uid : bool) : P (list bcall) :=
  x_sp;; do s <- x_numset; x_sp;;
  do l <- m_list item_p fetch_empty;
  do o <- (if fst l then ret (snd l)
           else
             do name <- att_name;
             if is name "ALL" then ret (set_flag (set_flag (set_flag (set_flag fetch_empty 1) 2) 3) 0)
             else if is name "FAST" then ret (set_flag (set_flag (set_flag fetch_empty 1) 2) 3)
             else if is name "FULL" then ret (set_bs (set_flag (set_flag (set_flag (set_flag fetch_empty 1) 2) 3) 0) false)
             else fetch_att name fetch_empty);
  x_crlf;;
  ret [BFetch (set_kind uid s) s (if uid then set_flag o 4 else o)].

Lemma h_fetch_eq : forall uid, h_fetch uid = h_fetch' uid.
Proof. reflexivity. Qed.

Lemma h_fetch_ok : forall cfg uid s o order sn si, client_side cfg = true ->
  wf_numarg uid s -> wf_fetch o -> covers order ->
  w_numarg s = Some sn -> plist (map (enc_fitem cfg) (fitems uid o order)) = Some si ->
  h_fetch uid (SP_ :: flatten sn ++ SP_ :: flatten si ++ CRLF_) = Some ([BFetch uid s (norm_fetch uid o)], []).
Proof.
  intros cfg uid s o order sn si Hc Hs Hf Hcov Hsn Hsi. rewrite h_fetch_eq. unfold h_fetch'.
  rewrite (bind_some _ _ x_sp _ _ tt (flatten sn ++ SP_ :: flatten si ++ CRLF_)).
  2:{ apply x_sp_sp. pose proof (numarg_start uid s sn Hs Hsn) as Ha.
      destruct (flatten sn); [contradiction|exact Ha]. }
  rewrite (bind_some _ _ x_numset _ _ s (SP_ :: flatten si ++ CRLF_))
    by (apply (x_numset_enc uid); [exact Hs|apply delimited_sp|exact Hsn]).
  rewrite (bind_some _ _ x_sp _ _ tt (flatten si ++ CRLF_)).
  2:{ apply x_sp_sp. destruct (plist_start _ _ Hsi) as (t & ->). split; reflexivity. }
  rewrite (bind_some _ _ (m_list item_p fetch_empty) _ _
             (true, fold_left step_fitem (fitems uid o order) fetch_empty) CRLF_).
  2:{ apply (m_list_plist fetch_opts fitem item_p (enc_fitem cfg) step_fitem).
      - intros a Ha sg st r Hsg Hr. apply (item_ok cfg); auto. apply (fitems_ok uid o order); assumption.
      - intros a Ha sg Hsg. apply (item_start_ok cfg a); auto. apply (fitems_ok uid o order); assumption.
      - exact Hsi. }
  cbn [fst snd].
  rewrite (bind_some _ _ (ret _) _ _ _ _ eq_refl).
  rewrite (bind_some _ _ x_crlf _ _ tt [] (x_crlf_crlf [])).
  unfold ret.
  assert (Hk : set_kind uid s = uid) by (destruct s; [cbn in Hs; subst uid|]; reflexivity).
  rewrite Hk. destruct Hf as (_ & _ & _ & Hm & Hcs).
  pose proof (final_state uid o order Hcov Hm Hcs) as HF. cbv zeta in HF. rewrite HF. reflexivity.
Qed.

Lemma read_fetch_line : forall lp tag (uid : bool) rest, wf_tag tag ->
  read_command lp (tag ++ SP_ :: (if uid then s2b "UID" ++ SP_ :: s2b "FETCH" else s2b "FETCH") ++ SP_ :: rest) =
  h_fetch uid (SP_ :: rest).
Proof.
  intros lp tag uid rest [Htn Hta]. unfold read_command.
  rewrite (bind_some _ _ x_atom _ _ tag _ (x_atom_lit tag _ Htn Hta (delimited_sp _))).
  destruct uid.
  - erewrite (bind_some _ _ x_sp) by (apply x_sp_sp; split; reflexivity).
    rewrite <- app_assoc. cbn [app].
    rewrite (bind_some _ _ x_atom _ _ (s2b "UID") _
               (x_atom_lit (s2b "UID") _ (fun H => nil_cons (eq_sym H)) eq_refl (delimited_sp _))).
    cbv beta zeta. change (is (upper (s2b "UID")) "UID") with true. cbv iota.
    cbn [app].
    erewrite (bind_some _ _ x_sp) by (apply x_sp_sp; split; reflexivity).
    rewrite (bind_some _ _ x_atom _ _ (s2b "FETCH") _
               (x_atom_lit (s2b "FETCH") _ (fun H => nil_cons (eq_sym H)) eq_refl (delimited_sp _))).
    reflexivity.
  - erewrite (bind_some _ _ x_sp) by (apply x_sp_sp; split; reflexivity).
    rewrite (bind_some _ _ x_atom _ _ (s2b "FETCH") _
               (x_atom_lit (s2b "FETCH") _ (fun H => nil_cons (eq_sym H)) eq_refl (delimited_sp _))).
    reflexivity.
Qed.

Lemma client_side_ecfg : forall c, client_side (ecfg c) = true.
Proof. reflexivity. Qed.

Lemma fetch_delivery : forall c lp order tag uid s o,
  wf_req (QFetch uid s o) -> covers order -> wf_tag tag ->
  Forall2 (delivers lp tag) (w_req c order (QFetch uid s o)) (norm_req c (QFetch uid s o)).
Proof.
  intros c lp order tag uid s o [Hs Hf] Hcov Htag. cbn [w_req norm_req].
  constructor; [|constructor]. intros segs H. unfold serve_line.
  pose proof Hf as (_ & _ & _ & _ & Hcs).
  unfold w_line, w_fetch in H. rewrite Hcs in H. change (negb (0 =? 0)) with false in H. cbn [when] in H.
  rewrite w_fetch_items_eq in H.
  apply cat_some in H. destruct H as (x1 & y1 & H1 & H & ->).
  apply cat_some in H. destruct H as (x2 & y2 & H2 & H & ->).
  apply cat_some in H. destruct H as (xb & x9 & Hb & H9 & ->).
  apply cat_some in Hb. destruct Hb as (x3 & y3 & H3 & Hb & ->).
  apply cat_some in Hb. destruct Hb as (x4 & y4 & H4 & Hb & ->).
  apply cat_some in Hb. destruct Hb as (x5 & y5 & H5 & Hb & ->).
  apply cat_some in Hb. destruct Hb as (x6 & y6 & H6 & Hb & ->).
  apply cat_some in Hb. destruct Hb as (x7 & x8 & H7 & H8 & ->).
  apply lit_inv in H1, H2, H4, H6, H9. apply nothing_inv in H8. subst x1 x2 x4 x6 x9 x8.
  assert (E3 : flatten x3 = if uid then s2b "UID" ++ SP_ :: s2b "FETCH" else s2b "FETCH").
  { destruct uid; cbn [cmd_name] in H3; [apply lit_inv in H3|apply slit_inv in H3]; subst x3;
      rewrite flatten_single; reflexivity. }
  rewrite !flatten_app, !flatten_single, E3. cbn [flatten flat_map]. rewrite <- !app_assoc. cbn [app].
  rewrite (read_fetch_line lp tag uid _ Htag).
  pose proof (h_fetch_ok (ecfg c) uid s o order x5 x7 (client_side_ecfg c) Hs Hf Hcov H5 H7) as HF.
  unfold byte, bytes in *. rewrite HF. reflexivity.
Qed.


(* ---- nothing the client writes for a well-formed FETCH fails ---- *)
Lemma cat_ok : forall a b, a <> None -> b <> None -> a +++ b <> None.
Proof. intros [x|] [y|] Ha Hb; cbn; congruence. Qed.
Lemma lit_ok : forall b, lit b <> None.
Proof. intros b. discriminate. Qed.
Lemma slit_ok : forall s, slit s <> None.
Proof. intros s. discriminate. Qed.
Lemma when_ok : forall b e, e <> None -> when b e <> None.
Proof. intros [|] e H; cbn; [exact H|discriminate]. Qed.

Lemma join_sp_ok : forall l, Forall (fun e : eres => e <> None) l -> join_sp l <> None.
Proof.
  induction l as [|x l IH]; intros H; [discriminate|].
  inversion H as [|? ? Hx Hl]; subst. destruct l as [|y l]; [exact Hx|].
  rewrite join_sp_cons2. apply cat_ok; [exact Hx|]. apply cat_ok; [apply lit_ok|]. apply IH. exact Hl.
Qed.
Lemma plist_ok : forall l, Forall (fun e : eres => e <> None) l -> plist l <> None.
Proof.
  intros l H. unfold plist. apply cat_ok; [apply slit_ok|]. apply cat_ok; [|apply slit_ok].
  apply join_sp_ok. exact H.
Qed.

Lemma enc_string_ok : forall c s, c_cont c = Some true -> enc_string (ecfg c) s <> None.
Proof.
  intros c s Hc. unfold enc_string. destruct (valid_quoted (ecfg c) s); [discriminate|].
  unfold enc_literal. cbn [ecfg client_cfg cont_granted client_side literal_minus literal_plus].
  rewrite Hc. match goal with |- (if ?b then _ else _) <> None => destruct b end; discriminate.
Qed.

Lemma w_partial_ok : forall p, wf_partial p -> w_partial p <> None.
Proof.
  intros [[o n]|] H; [|discriminate]. destruct H as [[Ho _] [Hn _]]. cbn [w_partial].
  assert (E : forall z, (0 <= z)%Z -> enc_number64 z <> None).
  { intros z Hz. unfold enc_number64. destruct (z <? 0)%Z eqn:E; [apply Z.ltb_lt in E; lia|discriminate]. }
  repeat (apply cat_ok; try apply slit_ok; try (apply E; assumption)).
Qed.

Lemma w_body_section_ok : forall c x, c_cont c = Some true -> wf_fsec x -> w_body_section (ecfg c) x <> None.
Proof.
  intros c x Hc Hw. rewrite w_body_section_eq.
  assert (Hstr : forall hl, plist (map (enc_string (ecfg c)) hl) <> None).
  { intros hl. apply plist_ok. apply Forall_forall. intros e He. apply in_map_iff in He.
    destruct He as (s & <- & _). apply enc_string_ok. exact Hc. }
  assert (Hspec : w_spec (ecfg c) x <> None).
  { unfold w_spec. destruct (nilb (fs_spec x)); [discriminate|].
    destruct (negb (nilb (fs_fields x))); [|destruct (negb (nilb (fs_fields_not x)))];
      repeat (apply cat_ok; try apply lit_ok; try apply slit_ok; try apply when_ok; try apply Hstr);
      discriminate. }
  repeat (apply cat_ok; try apply lit_ok; try apply slit_ok; try (apply when_ok; apply slit_ok); try exact Hspec).
  apply w_partial_ok. apply Hw.
Qed.

Lemma w_numarg_ok : forall uid s, wf_numarg uid s -> w_numarg s <> None.
Proof.
  intros uid [|x] H; cbn [w_numarg]; [discriminate|]. destruct H as [_ Hn].
  unfold enc_numset. destruct (to_string_first x Hn) as (ch0 & t & -> & _). discriminate.
Qed.

Lemma fetch_encodable : forall c order tag uid s o,
  wf_req (QFetch uid s o) -> c_cont c = Some true ->
  Forall (fun body => w_line tag body <> None) (w_req c order (QFetch uid s o)).
Proof.
  intros c order tag uid s o [Hs Hf] Hc. cbn [w_req]. constructor; [|constructor].
  destruct Hf as (Hsecs & Hbins & Hsizes & Hm & Hcs).
  unfold w_line, w_fetch. rewrite Hcs. change (negb (0 =? 0)) with false. cbn [when].
  apply cat_ok; [apply lit_ok|]. apply cat_ok; [apply lit_ok|]. apply cat_ok; [|apply lit_ok].
  apply cat_ok; [destruct uid; discriminate|]. apply cat_ok; [apply lit_ok|].
  apply cat_ok; [apply (w_numarg_ok uid); exact Hs|]. apply cat_ok; [apply lit_ok|].
  apply cat_ok; [|discriminate].
  unfold w_fetch_items. apply plist_ok. rewrite !Forall_app. repeat split.
  - destruct (fo_uid o || uid); repeat constructor. discriminate.
  - apply Forall_forall. intros e He. apply in_map_iff in He. destruct He as (n & <- & _). apply lit_ok.
  - apply Forall_forall. intros e He. apply in_map_iff in He. destruct He as (x & <- & Hx).
    rewrite Forall_forall in Hsecs. apply w_body_section_ok; auto.
  - apply Forall_forall. intros e He. apply in_map_iff in He. destruct He as (x & <- & Hx).
    rewrite Forall_forall in Hbins. destruct (Hbins x Hx) as [_ Hp]. unfold w_binary_section.
    repeat (apply cat_ok; try apply lit_ok; try apply slit_ok; try (apply when_ok; apply slit_ok)).
    apply w_partial_ok. exact Hp.
  - apply Forall_forall. intros e He. apply in_map_iff in He. destruct He as (x & <- & Hx).
    unfold w_binary_size. repeat (apply cat_ok; try apply lit_ok; try apply slit_ok).
Qed.
