(* Proofs/MemRefSpec.v — declarative side of C09: what "IMAP mailbox semantics" means, written
   without reference to how Model/MemRef.v computes it (no proofs here).                   *)
From Coq Require Import Sorting.Sorted.
From GoImap.Base Require Import Bytes.
From GoImap.Model Require Import NumSet MatchList Search MemRefMsg MemRef.
Open Scope N_scope.

(* ---- histories ---- *)
Definition history := list (nat * cmd).
(* [reaches n h s]: the history h, run from the empty server with n sessions, ends in s *)
Definition reaches (n : nat) (h : history) (s : state) : Prop := exists rs, run (init n) h = Some (s, rs).
Definition reachable (s : state) : Prop := exists n h, reaches n h s.
(* [leads s h s']: from s the history h ends in s' *)
Definition leads (s : state) (h : history) (s' : state) : Prop := exists rs, run s h = Some (s', rs).

(* ---- sequence sets: RFC 3501 meaning of a parsed set when "*" is mx ---- *)
Definition star (mx v : N) : N := if v =? 0 then mx else v.
(* the range a:b addresses q, whatever the order of its endpoints *)
Definition range_addresses (mx : N) (r : range) (q : N) : bool :=
  let a := star mx (fst r) in let b := star mx (snd r) in
  (N.min a b <=? q) && (q <=? N.max a b).
Definition set_addresses (mx : N) (s : nset) (q : N) : bool := existsb (fun r => range_addresses mx r q) s.

(* sets as the wire can deliver them: uint32 endpoints, 0 only as "*" *)
Definition wire_range (r : range) : bool := (fst r <? M32) && (snd r <? M32).
Definition wire_set (s : nset) : bool := forallb wire_range s.

(* the messages of a mailbox that a seq / UID set addresses *)
Definition last_uid (mb : mailbox) : N := match rev (mb_msgs mb) with m :: _ => mm_uid m | [] => 0 end.
Definition spec_addressed (uid : bool) (set : nset) (mb : mailbox) (sm : N * mmsg) : bool :=
  if uid then set_addresses (last_uid mb) set (mm_uid (snd sm))
  else set_addresses (N.of_nat (length (mb_msgs mb))) set (fst sm).

(* ---- flags, case-insensitively ---- *)
(* f is one of fs, ignoring ASCII case *)
Definition flag_in (f : bytes) (fs : list bytes) : bool := existsb (fun g => bytes_eqb (ascii_lower f) (ascii_lower g)) fs.
Definition msg_has (m : mmsg) (f : bytes) : bool := has_flag f (mm_flags m).

(* what STORE must do to one message *)
Definition store_spec (op : store_op) (fs : list bytes) (old : mmsg) (new : mmsg) : Prop :=
  mm_uid new = mm_uid old /\ mm_buf new = mm_buf old /\ mm_time new = mm_time old /\ mm_zone new = mm_zone old /\
  forall f, msg_has new f =
    match op with
    | StSet => flag_in f fs
    | StAdd => msg_has old f || flag_in f fs
    | StDel => msg_has old f && negb (flag_in f fs)
    end.

(* same message: everything but the flags *)
Definition same_msg (a b : mmsg) : Prop :=
  mm_uid a = mm_uid b /\ mm_buf a = mm_buf b /\ mm_time a = mm_time b /\ mm_zone a = mm_zone b.

(* a copy of m under a new UID *)
Definition copy_of (m : mmsg) (u : N) : mmsg :=
  {| mm_uid := u; mm_flags := mm_flags m; mm_time := mm_time m; mm_zone := mm_zone m; mm_buf := mm_buf m |}.
Fixpoint copies (ms : list mmsg) (next : N) : list mmsg :=
  match ms with [] => [] | m :: r => copy_of m next :: copies r (next + 1) end.
Fixpoint count_from (next : N) (n : nat) : list N :=
  match n with O => [] | S k => next :: count_from (next + 1) k end.

(* ---- state well-formedness (the invariant every reachable state satisfies) ---- *)
Definition mailbox_ok (mb : mailbox) : Prop :=
  StronglySorted N.lt (map mm_uid (mb_msgs mb)) /\
  (forall m, In m (mb_msgs mb) -> 1 <= mm_uid m /\ mm_uid m < mb_next mb) /\
  1 <= mb_next mb.

Definition state_ok (s : state) : Prop :=
  (* every object is a well-formed mailbox and carries the UIDVALIDITY of its creation *)
  (forall i mb, nth_error (st_heap s) i = Some mb -> mailbox_ok mb /\ mb_uv mb = N.of_nat (S i)) /\
  st_prev s = N.of_nat (length (st_heap s)) /\
  (* names are bound to existing objects which know their name; no name and no object twice *)
  (forall n i, In (n, i) (st_names s) -> exists mb, nth_error (st_heap s) i = Some mb /\ mb_name mb = n) /\
  NoDup (map fst (st_names s)) /\ NoDup (map snd (st_names s)) /\
  (* sessions select existing objects *)
  (forall k i, nth_error (st_sel s) k = Some (Some i) -> (i < length (st_heap s))%nat).

(* object i is bound to some name *)
Definition bound (s : state) (i : nat) : Prop := exists n, In (n, i) (st_names s).

(* every other object of the heap is untouched *)
Definition others_unchanged (s s' : state) (ids : list nat) : Prop :=
  length (st_heap s') = length (st_heap s) /\
  forall i, ~ In i ids -> nth_error (st_heap s') i = nth_error (st_heap s) i.

(* ---- commands as the wire can deliver them ---- *)
Definition I63 : Z := 9223372036854775808%Z.
Definition wire_partial (p : option (Z * Z)) : bool :=
  match p with
  | None => true
  | Some (off, size) => ((0 <=? off) && (off <? I63) && (0 <=? size) && (size <? I63))%Z
  end.
Definition wire_cmd (c : cmd) : bool :=
  match c with
  | CFetch _ _ o => forallb (fun p => wire_partial (sc_partial (fst p))) (fo_sections o)
  | _ => true
  end.

(* ---- STATUS ---- *)
Definition status_value (items : list (bytes * option N)) (k : string) : option (option N) :=
  option_map snd (find (fun kv => bytes_eqb (fst kv) (s2b k)) items).

(* ---- LIST ---- *)
Definition name_listed (s : state) (sel_sub : bool) (ref : bytes) (pats : list bytes) (n : bytes) : Prop :=
  exists i mb, In (n, i) (st_names s) /\ nth_error (st_heap s) i = Some mb /\
    existsb (fun p => match match_list_top n (s2b "/") ref p with Some b => b | None => false end) pats = true /\
    (sel_sub = true -> mb_sub mb = true).
Definition list_names (l : list resp) : list bytes :=
  flat_map (fun r => match r with RList _ _ n => [n] | _ => [] end) l.
Definition bytes_lt (a b : bytes) : Prop := bytes_ltb a b = true.
