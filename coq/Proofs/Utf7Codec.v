(* Proofs/Utf7Codec.v — UTF-8 / UTF-16 / base64 layer lemmas for C16. *)
From GoImap.Base Require Import Bytes.
From GoImap.Model Require Import Utf7.
From GoImap.Proofs Require Import Utf7Spec.
From Coq Require Import ZifyN ZifyNat ZifyBool.
Ltac Zify.zify_post_hook ::= Z.div_mod_to_equations.
Open Scope N_scope.

(* ---- generic tactics / list helpers ---- *)
Ltac ifs :=
  repeat match goal with
         | |- context [if ?b then _ else _] =>
             lazymatch b with context [if _ then _ else _] => fail | _ => idtac end;
             let E := fresh "E" in destruct b eqn:E; try (exfalso; lia)
         end.

Lemma list_ind2 {A} (P : list A -> Prop) :
  P [] -> (forall a, P [a]) -> (forall a b r, P r -> P (a :: b :: r)) -> forall l, P l.
Proof.
  intros H0 H1 H2. fix IH 1. intros [|a [|b r]].
  - exact H0.
  - apply H1.
  - apply H2. apply IH.
Qed.

Lemma list_ind3 {A} (P : list A -> Prop) :
  P [] -> (forall a, P [a]) -> (forall a b, P [a; b]) ->
  (forall a b c r, P r -> P (a :: b :: c :: r)) -> forall l, P l.
Proof.
  intros H0 H1 H2 H3. fix IH 1. intros [|a [|b [|c r]]].
  - exact H0.
  - apply H1.
  - apply H2.
  - apply H3. apply IH.
Qed.

Lemma list_ind4 {A} (P : list A -> Prop) :
  P [] -> (forall a, P [a]) -> (forall a b, P [a; b]) -> (forall a b c, P [a; b; c]) ->
  (forall a b c d r, P r -> P (a :: b :: c :: d :: r)) -> forall l, P l.
Proof.
  intros H0 H1 H2 H3 H4. fix IH 1. intros [|a [|b [|c [|d r]]]].
  - exact H0.
  - apply H1.
  - apply H2.
  - apply H3.
  - apply H4. apply IH.
Qed.

Lemma skipn_length_app {A} (a b : list A) : skipn (length a) (a ++ b) = b.
Proof. induction a; cbn; auto. Qed.

Lemma forallb_flat_map {A B} (p : B -> bool) (f : A -> list B) l :
  forallb p (flat_map f l) = forallb (fun x => forallb p (f x)) l.
Proof.
  induction l; cbn; auto. rewrite forallb_app, IHl. reflexivity.
Qed.

(* ---- printable ---- *)
Definition nonpr (c : N) : bool := negb (printable c).

Lemma printable_lt256 c : printable c = true -> c < 256.
Proof. unfold printable, MIN7, MAX7. lia. Qed.

Lemma printable_AMP : printable AMP = true.
Proof. reflexivity. Qed.
Lemma printable_DASH : printable DASH = true.
Proof. reflexivity. Qed.

(* ---- base64 alphabet ---- *)
Definition b64ok (c : N) : bool :=
  printable c && negb (c =? 45) && negb (c =? 61) && negb (c =? 13) && negb (c =? 10).

Lemma b64char_ok v : b64ok (b64char v) = true.
Proof.
  unfold b64ok, printable, MIN7, MAX7, b64char. ifs; lia.
Qed.

Lemma b64char_printable v : printable (b64char v) = true.
Proof.
  pose proof (b64char_ok v) as H. unfold b64ok in H.
  rewrite !andb_true_iff in H. tauto.
Qed.

Lemma b64val_lt c v : b64val c = Some v -> v < 64.
Proof.
  unfold b64val. ifs; intros H; inversion H; lia.
Qed.

Lemma b64val_printable c v : b64val c = Some v -> printable c = true.
Proof.
  unfold b64val, printable, MIN7, MAX7. ifs; intros H; inversion H; lia.
Qed.

Lemma b64val_b64char v : v < 64 -> b64val (b64char v) = Some v.
Proof.
  intros Hv. unfold b64char. ifs; unfold b64val; ifs; f_equal; lia.
Qed.

Definition is_some {A} (o : option A) : bool := match o with Some _ => true | None => false end.

Lemma b64_decode_alphabet : forall s b, b64_decode s = Some b ->
  forallb (fun c => match b64val c with Some _ => true | None => false end) s = true.
Proof.
  induction s as [|a|a b|a b c|a b c d r IH] using list_ind4; intros out H; cbn [b64_decode forallb] in *.
  - reflexivity.
  - discriminate.
  - destruct (b64val a), (b64val b); try discriminate. reflexivity.
  - destruct (b64val a), (b64val b), (b64val c); try discriminate. reflexivity.
  - destruct (b64val a), (b64val b), (b64val c), (b64val d); try discriminate.
    destruct (b64_decode r) eqn:E; try discriminate.
    rewrite (IH _ eq_refl). reflexivity.
Qed.

Lemma b64_decode_bytes : forall s b, b64_decode s = Some b -> Forall (fun x => x < 256) b.
Proof.
  induction s as [|a|a b|a b c|a b c d r IH] using list_ind4; intros out H; cbn [b64_decode] in *.
  - inversion H. constructor.
  - discriminate.
  - destruct (b64val a) eqn:Ea, (b64val b) eqn:Eb; try discriminate.
    apply b64val_lt in Ea, Eb. inversion H. repeat constructor. lia.
  - destruct (b64val a) eqn:Ea, (b64val b) eqn:Eb, (b64val c) eqn:Ec; try discriminate.
    apply b64val_lt in Ea, Eb, Ec. inversion H. repeat constructor; lia.
  - destruct (b64val a) eqn:Ea, (b64val b) eqn:Eb, (b64val c) eqn:Ec, (b64val d) eqn:Ed; try discriminate.
    destruct (b64_decode r) eqn:E; try discriminate.
    apply b64val_lt in Ea, Eb, Ec, Ed. inversion H.
    repeat constructor; try lia. apply (IH _ eq_refl).
Qed.

Lemma b64_encode_ok : forall b, forallb b64ok (b64_encode b) = true.
Proof.
  induction b as [|x|x y|x y z r IH] using list_ind3; cbn [b64_encode forallb].
  - reflexivity.
  - rewrite !b64char_ok. reflexivity.
  - rewrite !b64char_ok. reflexivity.
  - rewrite !b64char_ok, IH. reflexivity.
Qed.

Lemma b64_encode_nonempty : forall b, b <> [] -> b64_encode b <> [].
Proof.
  intros [|x [|y [|z r]]] H; cbn [b64_encode]; congruence.
Qed.

Lemma b64_roundtrip : forall b, Forall (fun x => x < 256) b -> b64_decode (b64_encode b) = Some b.
Proof.
  induction b as [|x|x y|x y z r IH] using list_ind3; intros HF; cbn [b64_encode b64_decode].
  - reflexivity.
  - inversion HF; subst.
    rewrite !b64val_b64char by lia. do 2 f_equal. lia.
  - inversion HF as [|? ? Hx HF1]; subst. inversion HF1 as [|? ? Hy HF2]; subst.
    rewrite !b64val_b64char by lia. f_equal. f_equal; [lia|]. f_equal. lia.
  - inversion HF as [|? ? Hx HF1]; subst. inversion HF1 as [|? ? Hy HF2]; subst.
    inversion HF2 as [|? ? Hz HF3]; subst.
    rewrite !b64val_b64char by lia. rewrite (IH HF3).
    f_equal. f_equal; [lia|]. f_equal; [lia|]. f_equal. lia.
Qed.

(* ---- utf8.EncodeRune ---- *)
Lemma encode_rune_bytes r : forallb (fun x => x <? 256) (encode_rune r) = true.
Proof.
  unfold encode_rune, is_surrogate. ifs; cbn [forallb]; lia.
Qed.

Lemma encode_rune_nonempty r : encode_rune r <> [].
Proof. unfold encode_rune. ifs; congruence. Qed.

Lemma encode_rune_printable r : printable r = true -> encode_rune r = [r].
Proof.
  unfold printable, MIN7, MAX7, encode_rune. intros H. ifs. reflexivity.
Qed.

Lemma encode_rune_nonpr r : printable r = false -> forallb nonpr (encode_rune r) = true.
Proof.
  unfold nonpr, printable, MIN7, MAX7, encode_rune, is_surrogate. intros H.
  ifs; cbn [forallb]; lia.
Qed.

Lemma scalar_printable r : printable r = true -> scalar r = true.
Proof. unfold printable, MIN7, MAX7, scalar, is_surrogate. lia. Qed.

Lemma decode_encode_rune r rest : scalar r = true ->
  decode_rune (encode_rune r ++ rest) = (r, length (encode_rune r)).
Proof.
  unfold scalar, is_surrogate. intros Hs.
  unfold encode_rune, is_surrogate.
  destruct (r <? 128) eqn:E1.
  { cbn [app decode_rune length]. rewrite E1. reflexivity. }
  destruct (r <? 2048) eqn:E2.
  { cbn [app decode_rune length]. unfold cont. ifs. f_equal. lia. }
  destruct ((55296 <=? r) && (r <? 57344) || (1114111 <? r)) eqn:E3; [exfalso; lia|].
  destruct (r <? 65536) eqn:E4.
  { cbn [app decode_rune length]. unfold cont. cbv zeta. ifs; f_equal; lia. }
  cbn [app decode_rune length]. unfold cont. cbv zeta. ifs; f_equal; lia.
Qed.

(* ---- utf16 ---- *)
Definition ubytes (r : N) : list N := flat_map unit_bytes (utf16_units r).
Definition ebytes (rs : list N) : list N := flat_map encode_rune rs.
Definition wbytes (rs : list N) : list N := flat_map ubytes rs.

Lemma ubytes_bytes r : Forall (fun x => x < 256) (ubytes r).
Proof.
  unfold ubytes, utf16_units, unit_bytes. ifs; cbn [flat_map app]; repeat constructor; lia.
Qed.

Lemma wbytes_bytes rs : Forall (fun x => x < 256) (wbytes rs).
Proof.
  induction rs; cbn [wbytes flat_map]. constructor.
  apply Forall_app. split; [apply ubytes_bytes|exact IHrs].
Qed.

Lemma ubytes_length r : (length (ubytes r) = 2 \/ length (ubytes r) = 4)%nat.
Proof.
  unfold ubytes, utf16_units, unit_bytes. ifs; cbn; auto.
Qed.

Lemma wbytes_even rs : Nat.odd (length (wbytes rs)) = false.
Proof.
  induction rs; cbn [wbytes flat_map]. reflexivity.
  rewrite app_length. fold (wbytes rs).
  destruct (ubytes_length a) as [H|H]; rewrite H.
  - exact IHrs.
  - exact IHrs.
Qed.

Lemma wbytes_length rs : (length rs <= length (wbytes rs))%nat.
Proof.
  induction rs; cbn [wbytes flat_map length]. lia.
  rewrite app_length. fold (wbytes rs).
  destruct (ubytes_length a) as [H|H]; rewrite H; lia.
Qed.

Lemma wbytes_nonempty rs : rs <> [] -> wbytes rs <> [].
Proof.
  destruct rs; [congruence|]. intros _ H. apply (f_equal (@length N)) in H.
  cbn [wbytes flat_map] in H. rewrite app_length in H.
  destruct (ubytes_length n) as [H1|H1]; rewrite H1 in H; cbn in H; lia.
Qed.

Lemma ebytes_bytes rs : Forall (fun x => x < 256) (ebytes rs).
Proof.
  induction rs; cbn [ebytes flat_map]. constructor.
  apply Forall_app. split; [|exact IHrs].
  apply Forall_forall. intros x Hx.
  pose proof (encode_rune_bytes a) as H. rewrite forallb_forall in H.
  specialize (H x Hx). lia.
Qed.

(* encoder side: UTF-8 -> UTF-16BE *)
Lemma utf16be_of_utf8_step f s : s <> [] ->
  utf16be_of_utf8 (S f) s =
  (let '(r, size) := decode_rune s in ubytes r ++ utf16be_of_utf8 f (skipn size s)).
Proof. destruct s; [congruence|reflexivity]. Qed.

Lemma utf16be_of_ebytes : forall rs fuel, forallb scalar rs = true ->
  (length (ebytes rs) <= fuel)%nat ->
  utf16be_of_utf8 fuel (ebytes rs) = wbytes rs.
Proof.
  induction rs as [|r rs IH]; intros fuel Hs Hf.
  - destruct fuel; reflexivity.
  - cbn [forallb] in Hs. apply andb_true_iff in Hs. destruct Hs as [Hr Hs].
    cbn [ebytes wbytes flat_map] in *. fold (ebytes rs) in *. fold (wbytes rs).
    rewrite app_length in Hf.
    pose proof (encode_rune_nonempty r) as Hne.
    destruct fuel as [|f].
    { destruct (encode_rune r); [congruence|cbn in Hf; lia]. }
    rewrite utf16be_of_utf8_step.
    2:{ destruct (encode_rune r); [congruence|discriminate]. }
    rewrite decode_encode_rune by exact Hr.
    rewrite skipn_length_app. f_equal. apply IH; [exact Hs|].
    destruct (encode_rune r); [congruence|cbn in Hf; lia].
Qed.

(* decoder side: UTF-16BE -> UTF-8 *)
Lemma unit_join u : u < 65536 -> ((u / 256) mod 256) * 256 + u mod 256 = u.
Proof. lia. Qed.

Lemma utf8_of_wbytes : forall rs fuel, forallb scalar rs = true -> forallb nonpr rs = true ->
  (length rs < fuel)%nat ->
  utf8_of_utf16be fuel (wbytes rs) = Some (ebytes rs).
Proof.
  induction rs as [|r rs IH]; intros fuel Hs Hn Hf.
  - destruct fuel; [cbn in Hf; lia|reflexivity].
  - cbn [forallb] in Hs, Hn. apply andb_true_iff in Hs, Hn.
    destruct Hs as [Hr Hs], Hn as [Hnr Hn].
    destruct fuel as [|f]; [lia|]. cbn [length] in Hf.
    assert (IH' := IH f Hs Hn ltac:(lia)).
    cbn [ebytes wbytes flat_map]. fold (ebytes rs). fold (wbytes rs).
    unfold scalar, is_surrogate in Hr. unfold nonpr, printable, MIN7, MAX7 in Hnr.
    unfold ubytes, utf16_units.
    destruct ((65536 <=? r) && (r <=? 1114111)) eqn:E.
    + cbv zeta. unfold unit_bytes. cbn [flat_map app utf8_of_utf16be].
      rewrite !unit_join by lia.
      unfold is_surrogate, printable, MIN7, MAX7. ifs.
      rewrite IH'. do 2 f_equal. f_equal. lia.
    + unfold unit_bytes. cbn [flat_map app utf8_of_utf16be].
      rewrite (N.mod_small r 65536) by lia.
      rewrite !unit_join by lia.
      unfold is_surrogate, printable, MIN7, MAX7. ifs.
      rewrite IH'. reflexivity.
Qed.

(* decoder side, arbitrary accepted input: the output is the UTF-8 of scalar, non-printable runes *)
Lemma utf8_of_utf16be_runes : forall fuel b o, Forall (fun x => x < 256) b ->
  utf8_of_utf16be fuel b = Some o ->
  exists rs, forallb scalar rs = true /\ forallb nonpr rs = true /\ o = ebytes rs.
Proof.
  induction fuel as [|f IH]; intros b o HF H.
  - discriminate.
  - destruct b as [|h [|l rest]]; cbn [utf8_of_utf16be] in H.
    + inversion H. exists []. auto.
    + discriminate.
    + inversion HF as [|? ? Hh HF1]; subst. inversion HF1 as [|? ? Hl HF2]; subst.
      destruct (is_surrogate (h * 256 + l)) eqn:Esur.
      * destruct rest as [|h2 [|l2 rest']]; try discriminate.
        inversion HF2 as [|? ? Hh2 HF3]; subst. inversion HF3 as [|? ? Hl2 HF4]; subst.
        destruct ((55296 <=? h * 256 + l) && (h * 256 + l <? 56320) &&
                  (56320 <=? h2 * 256 + l2) && (h2 * 256 + l2 <? 57344)) eqn:Epair; try discriminate.
        destruct (utf8_of_utf16be f rest') as [o'|] eqn:Erec; try discriminate.
        inversion H; subst.
        destruct (IH _ _ HF4 Erec) as [rs [Hs [Hn Ho]]].
        exists ((h * 256 + l - 55296) * 1024 + (h2 * 256 + l2 - 56320) + 65536 :: rs).
        cbn [forallb ebytes flat_map]. fold (ebytes rs). rewrite Hs, Hn, Ho.
        repeat split.
        -- apply andb_true_iff; split; [|reflexivity]. unfold scalar, is_surrogate. lia.
        -- apply andb_true_iff; split; [|reflexivity]. unfold nonpr, printable, MIN7, MAX7. lia.
      * destruct (printable (h * 256 + l)) eqn:Epr; try discriminate.
        destruct (utf8_of_utf16be f rest) as [o'|] eqn:Erec; try discriminate.
        inversion H; subst.
        destruct (IH _ _ HF2 Erec) as [rs [Hs [Hn Ho]]].
        exists (h * 256 + l :: rs).
        cbn [forallb ebytes flat_map]. fold (ebytes rs). rewrite Hs, Hn, Ho.
        repeat split.
        -- apply andb_true_iff; split; [|reflexivity]. unfold scalar. rewrite Esur.
           apply andb_true_iff; split; [lia|reflexivity].
        -- apply andb_true_iff; split; [|reflexivity]. unfold nonpr. rewrite Epr. reflexivity.
Qed.
