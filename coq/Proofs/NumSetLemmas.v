(* Proofs/NumSetLemmas.v — helper lemmas for C15 about Model/NumSet.v. *)
From Coq Require Import Sorting.Sorted.
From Coq Require Import ZifyN ZifyNat ZifyBool.
From GoImap.Base Require Import Bytes.
From GoImap.Model Require Import NumSet.
From GoImap.Proofs Require Import NumSetSpec.
Open Scope N_scope.

Ltac Zify.zify_post_hook ::= Z.div_mod_to_equations.

(* ------------------------------------------------------------------ *)
(* link: what canon demands between consecutive ranges, as a function of the start of
   the second one *)
Definition linka (p : range) (a : N) : bool :=
  negb (snd p =? 0) && ((a =? 0) || (snd p + 1 <? a)).

Definition okhd (p : range) (l : nset) : bool :=
  match l with [] => true | r :: _ => linka p (fst r) end.

Lemma canon_cons : forall p l, canon (p :: l) = wf_range p && okhd p l && canon l.
Proof.
  intros [a b] l. destruct l as [|[a' b'] l]; cbn [canon okhd]; [reflexivity|].
  unfold linka. cbn [fst snd]. destruct (a' =? 0); reflexivity.
Qed.

Lemma canon_nil : canon [] = true.
Proof. reflexivity. Qed.

Local Opaque canon.

Ltac bool_to_prop :=
  rewrite ?andb_true_iff, ?orb_true_iff, ?negb_true_iff, ?andb_false_iff, ?orb_false_iff,
          ?negb_false_iff in *.

(* ------------------------------------------------------------------ *)
(* rmerge *)

Lemma M32_eq : M32 = 4294967296.
Proof. reflexivity. Qed.
Lemma MAX32_eq : MAX32 = 4294967295.
Proof. reflexivity. Qed.

(* NB: never [unfold M32]: the kernel's conversion check at Qed between a folded
   definition and its unfolding with the literal substituted diverges in practice.
   Rewriting with M32_eq is safe. *)
Ltac rm_unfold :=
  unfold rmerge, range_eqb, wf_range, linka, rden, rcontains, rless in *;
  cbn [fst snd] in *;
  rewrite ?M32_eq, ?MAX32_eq in *.

Ltac splits := repeat match goal with |- _ /\ _ => split end.

Ltac rm_fin :=
  repeat split; intros;
  first [ lia | f_equal; lia
        | match goal with |- context [if ?c then _ else _] => destruct c eqn:?; lia end ].

Lemma rmerge_true : forall s t u, wf_range s = true -> wf_range t = true ->
  rmerge s t = (u, true) ->
  wf_range u = true /\
  (forall q, q < M32 -> rden u q = rden s q || rden t q) /\
  (fst s <> 0 -> fst t <> 0 -> fst u = N.min (fst s) (fst t)) /\
  (fst s = 0 -> u = t) /\ (fst t = 0 -> fst s <> 0 -> u = s).
Proof.
  intros [sa sb] [ta tb] [ua ub] Hs Ht H.
  rm_unfold.
  destruct ((sa =? ta) && (sb =? tb)) eqn:E1.
  { inversion H; subst ua ub. assert (sa = ta /\ sb = tb) as [-> ->] by lia. rm_fin. }
  destruct (negb (sa =? 0) && negb (ta =? 0)) eqn:E2.
  - destruct (ta <? sa) eqn:E3.
    + destruct ((sb <=? tb) && negb (sb =? 0) || (tb =? 0)) eqn:E4.
      * inversion H; subst ua ub. rm_fin.
      * destruct ((sa <=? (tb + 1) mod 4294967296) || (tb =? 4294967295)) eqn:E5;
          inversion H; subst ua ub. rm_fin.
    + destruct ((tb <=? sb) && negb (tb =? 0) || (sb =? 0)) eqn:E4.
      * inversion H; subst ua ub. rm_fin.
      * destruct ((ta <=? (sb + 1) mod 4294967296) || (sb =? 4294967295)) eqn:E5;
          inversion H; subst ua ub. rm_fin.
  - destruct (sa =? 0) eqn:E3.
    + destruct (tb =? 0) eqn:E4; inversion H; subst ua ub. rm_fin.
    + destruct (sb =? 0) eqn:E4; inversion H; subst ua ub. rm_fin.
Qed.

Lemma rmerge_false_eq : forall s t u, rmerge s t = (u, false) -> u = s.
Proof.
  intros [sa sb] [ta tb] u H. unfold rmerge in H.
  destruct (range_eqb (sa, sb) (ta, tb)); [inversion H|].
  destruct (negb (sa =? 0) && negb (ta =? 0)).
  - destruct (ta <? sa).
    + destruct ((sb <=? tb) && negb (sb =? 0) || (tb =? 0)); [inversion H|].
      destruct ((sa <=? (tb + 1) mod M32) || (tb =? MAX32)); inversion H; reflexivity.
    + destruct ((tb <=? sb) && negb (tb =? 0) || (sb =? 0)); [inversion H|].
      destruct ((ta <=? (sb + 1) mod M32) || (sb =? MAX32)); inversion H; reflexivity.
  - destruct (sa =? 0).
    + destruct (tb =? 0); inversion H; reflexivity.
    + destruct (sb =? 0); inversion H; reflexivity.
Qed.

Lemma rmerge_false : forall s t u, wf_range s = true -> wf_range t = true ->
  rmerge s t = (u, false) ->
  (fst s <> 0 \/ fst t <> 0) /\
  (fst s <> 0 -> (fst t = 0 \/ fst s <= fst t) -> linka s (fst t) = true) /\
  (fst t <> 0 -> (fst s = 0 \/ fst t < fst s) -> linka t (fst s) = true).
Proof.
  intros [sa sb] [ta tb] [ua ub] Hs Ht H.
  rm_unfold.
  destruct ((sa =? ta) && (sb =? tb)) eqn:E1; [inversion H|].
  destruct (negb (sa =? 0) && negb (ta =? 0)) eqn:E2.
  - destruct (ta <? sa) eqn:E3.
    + destruct ((sb <=? tb) && negb (sb =? 0) || (tb =? 0)) eqn:E4; [inversion H|].
      destruct ((sa <=? (tb + 1) mod 4294967296) || (tb =? 4294967295)) eqn:E5;
        inversion H; subst ua ub. rm_fin.
    + destruct ((tb <=? sb) && negb (tb =? 0) || (sb =? 0)) eqn:E4; [inversion H|].
      destruct ((ta <=? (sb + 1) mod 4294967296) || (sb =? 4294967295)) eqn:E5;
        inversion H; subst ua ub. rm_fin.
  - destruct (sa =? 0) eqn:E3.
    + destruct (tb =? 0) eqn:E4; inversion H; subst ua ub. rm_fin.
    + destruct (sb =? 0) eqn:E4; inversion H; subst ua ub. rm_fin.
Qed.

Lemma rmerge_linked : forall s t, wf_range s = true -> wf_range t = true ->
  linka s (fst t) = true -> rmerge s t = (s, false).
Proof.
  intros [sa sb] [ta tb] Hs Ht H.
  rm_unfold.
  destruct ((sa =? ta) && (sb =? tb)) eqn:E1; [exfalso; lia|].
  destruct (negb (sa =? 0) && negb (ta =? 0)) eqn:E2.
  - destruct (ta <? sa) eqn:E3; [exfalso; lia|].
    destruct ((tb <=? sb) && negb (tb =? 0) || (sb =? 0)) eqn:E4; [exfalso; lia|].
    destruct ((ta <=? (sb + 1) mod 4294967296) || (sb =? 4294967295)) eqn:E5; [exfalso; lia|].
    reflexivity.
  - destruct (sa =? 0) eqn:E3; [exfalso; lia|].
    destruct (sb =? 0) eqn:E4; [exfalso; lia|]. reflexivity.
Qed.

(* ------------------------------------------------------------------ *)
(* canon structure *)

Lemma okhd_app : forall x l1 p l2, okhd x (l1 ++ p :: l2) = okhd x (l1 ++ [p]).
Proof. intros x [|y l1] p l2; reflexivity. Qed.

Lemma canon_app : forall l1 p l2,
  canon (l1 ++ p :: l2) = canon (l1 ++ [p]) && okhd p l2 && canon l2.
Proof.
  induction l1 as [|x l1 IH]; intros p l2.
  - cbn [app]. rewrite !canon_cons, canon_nil. cbn [okhd].
    destruct (wf_range p), (okhd p l2), (canon l2); reflexivity.
  - cbn [app]. rewrite !canon_cons, IH, okhd_app.
    destruct (wf_range x), (okhd x (l1 ++ [p])), (canon (l1 ++ [p])), (okhd p l2), (canon l2);
      reflexivity.
Qed.

Lemma canon_snoc_replace : forall l p h, canon (l ++ [p]) = true -> wf_range h = true ->
  fst h = fst p -> canon (l ++ [h]) = true.
Proof.
  induction l as [|x l IH]; intros p h Hc Hw Hf.
  - cbn [app] in *. rewrite canon_cons, Hw, canon_nil. reflexivity.
  - cbn [app] in *. rewrite canon_cons in *.
    apply andb_true_iff in Hc as [Hc Hc3]. apply andb_true_iff in Hc as [Hc1 Hc2].
    rewrite Hc1, (IH p h Hc3 Hw Hf).
    destruct l; cbn [app okhd] in *; [rewrite Hf|]; rewrite Hc2; reflexivity.
Qed.

Lemma canon_tail : forall p l, canon (p :: l) = true -> canon l = true.
Proof. intros p l H. rewrite canon_cons in H. apply andb_true_iff in H as [_ H]. exact H. Qed.

Lemma canon_hd : forall p l, canon (p :: l) = true -> wf_range p = true.
Proof.
  intros p l H. rewrite canon_cons in H. apply andb_true_iff in H as [H _].
  apply andb_true_iff in H as [H _]. exact H.
Qed.

Lemma canon_okhd : forall p l, canon (p :: l) = true -> okhd p l = true.
Proof.
  intros p l H. rewrite canon_cons in H. apply andb_true_iff in H as [H _].
  apply andb_true_iff in H as [_ H]. exact H.
Qed.

Lemma canon_intro : forall p l, wf_range p = true -> okhd p l = true -> canon l = true ->
  canon (p :: l) = true.
Proof. intros p l H1 H2 H3. rewrite canon_cons, H1, H2, H3. reflexivity. Qed.

Ltac rg_unfold :=
  unfold range_eqb, wf_range, linka, rden, rcontains, rless in *;
  cbn [fst snd] in *;
  rewrite ?M32_eq, ?MAX32_eq in *.

Lemma linka_trans : forall p x a, wf_range x = true -> linka p (fst x) = true ->
  linka x a = true -> linka p a = true.
Proof. intros [pa pb] [xa xb] a Hx H1 H2. rg_unfold. lia. Qed.

Lemma canon_In : forall l p r, canon (p :: l) = true -> In r l ->
  wf_range r = true /\ linka p (fst r) = true.
Proof.
  induction l as [|x l IH]; intros p r Hc Hin; [destruct Hin|].
  pose proof (canon_tail _ _ Hc) as Hc'. pose proof (canon_okhd _ _ Hc) as Hl. cbn [okhd] in Hl.
  destruct Hin as [->|Hin].
  - split; [exact (canon_hd _ _ Hc')|exact Hl].
  - destruct (IH x r Hc' Hin) as [Hw Hl2]. split; [exact Hw|].
    exact (linka_trans p x (fst r) (canon_hd _ _ Hc') Hl Hl2).
Qed.

Lemma canon_wf : forall l r, canon l = true -> In r l -> wf_range r = true.
Proof.
  intros [|p l] r Hc Hin; [destruct Hin|]. destruct Hin as [->|Hin].
  - exact (canon_hd _ _ Hc).
  - exact (proj1 (canon_In l p r Hc Hin)).
Qed.

(* ------------------------------------------------------------------ *)
(* den *)
Lemma den_cons : forall r l q, den (r :: l) q = rden r q || den l q.
Proof. reflexivity. Qed.
Lemma den_nil : forall q, den [] q = false.
Proof. reflexivity. Qed.
Lemma den_app : forall l1 l2 q, den (l1 ++ l2) q = den l1 q || den l2 q.
Proof. intros. unfold den. apply existsb_app. Qed.

Lemma den_false : forall l q, (forall r, In r l -> rden r q = false) -> den l q = false.
Proof.
  induction l as [|x l IH]; intros q H; [reflexivity|].
  rewrite den_cons, (H x (or_introl eq_refl)), IH; [reflexivity|].
  intros r Hr. apply H. right. exact Hr.
Qed.

(* ------------------------------------------------------------------ *)
(* ff: length of the maximal prefix of ranges "less than" q *)
Fixpoint ff (s : nset) (q : N) : nat :=
  match s with
  | [] => O
  | r :: s' => if rless r q then S (ff s' q) else O
  end.

Lemma ff_le : forall s q, (ff s q <= length s)%nat.
Proof.
  induction s as [|r s IH]; intros q; cbn [ff length]; [lia|].
  destruct (rless r q); [specialize (IH q)|]; lia.
Qed.

Lemma rless_false_later : forall p l r q, canon (p :: l) = true -> rless p q = false ->
  In r l -> rless r q = false.
Proof.
  intros p l r q Hc Hp Hin. destruct (canon_In l p r Hc Hin) as [Hw Hl].
  destruct p as [pa pb], r as [ra rb]. rg_unfold. lia.
Qed.

Lemma ff_nth : forall s q i r, canon s = true -> nth_error s i = Some r ->
  rless r q = (i <? ff s q)%nat.
Proof.
  induction s as [|p s IH]; intros q i r Hc Hn.
  - destruct i; discriminate Hn.
  - cbn [ff]. destruct (rless p q) eqn:Ep.
    + destruct i as [|i]; cbn [nth_error] in Hn.
      * inversion Hn; subst r. rewrite Ep. reflexivity.
      * rewrite (IH q i r (canon_tail _ _ Hc) Hn). reflexivity.
    + destruct i as [|i]; cbn [nth_error] in Hn.
      * inversion Hn; subst r. rewrite Ep. reflexivity.
      * apply nth_error_In in Hn. rewrite (rless_false_later p s r q Hc Ep Hn). reflexivity.
Qed.

Lemma bisect_eq : forall fuel s q lo hi, bisect fuel s q lo hi =
  if Nat.ltb lo hi then
    match fuel with
    | O => None
    | S f =>
        let mid := Nat.div2 (lo + hi) in
        match nth_error s mid with
        | None => None
        | Some r => if rless r q then bisect f s q (S mid) hi else bisect f s q lo mid
        end
    end
  else Some lo.
Proof. intros [|f] s q lo hi; reflexivity. Qed.

Lemma bisect_spec : forall s q, canon s = true ->
  forall fuel lo hi,
  (lo <= Nat.min (ff s q) (length s - 1))%nat -> (Nat.min (ff s q) (length s - 1) <= hi)%nat ->
  (hi < length s)%nat -> (hi - lo < fuel)%nat ->
  bisect fuel s q lo hi = Some (Nat.min (ff s q) (length s - 1)).
Proof.
  intros s q Hc. induction fuel as [|f IH]; intros lo hi H1 H2 H3 H4; [lia|].
  rewrite bisect_eq. destruct (Nat.ltb lo hi) eqn:El.
  - apply Nat.ltb_lt in El. cbv zeta. rewrite Nat.div2_div.
    assert (Hm : (lo <= (lo + hi) / 2 < hi)%nat) by lia.
    set (mid := ((lo + hi) / 2)%nat) in *.
    destruct (nth_error s mid) as [r|] eqn:En.
    + rewrite (ff_nth s q mid r Hc En).
      destruct (mid <? ff s q)%nat eqn:Em.
      * apply Nat.ltb_lt in Em. apply IH; lia.
      * apply Nat.ltb_ge in Em. apply IH; lia.
    + apply nth_error_None in En. lia.
  - apply Nat.ltb_ge in El. f_equal. lia.
Qed.

Lemma search_spec : forall s q, canon s = true ->
  search s q = Some (ff s q, match nth_error s (ff s q) with
                             | Some r => rcontains r q | None => false end).
Proof.
  intros s q Hc. destruct s as [|x l]; [reflexivity|].
  unfold search. remember (x :: l) as s eqn:Es.
  assert (Hlen : (0 < length s)%nat) by (subst s; cbn [length]; lia).
  pose proof (ff_le s q) as Hle.
  rewrite (bisect_spec s q Hc (S (length s)) O (length s - 1)) by lia.
  set (k := Nat.min (ff s q) (length s - 1)).
  destruct (nth_error s k) as [r|] eqn:En.
  - rewrite (ff_nth s q k r Hc En).
    destruct (k <? ff s q)%nat eqn:Ek.
    + apply Nat.ltb_lt in Ek. assert (Hff : ff s q = length s) by lia.
      rewrite Hff. rewrite (proj2 (nth_error_None s (length s))) by lia. reflexivity.
    + apply Nat.ltb_ge in Ek. assert (Hk : k = ff s q) by lia.
      rewrite <- Hk, En. reflexivity.
  - apply nth_error_None in En. lia.
Qed.

(* denotation by the search index *)
Lemma den_ff : forall s q, canon s = true -> q <> 0 -> q < M32 ->
  den s q = match nth_error s (ff s q) with Some r => rcontains r q | None => false end.
Proof.
  induction s as [|p s IH]; intros q Hc Hq Hq'; [reflexivity|].
  rewrite den_cons. cbn [ff]. destruct (rless p q) eqn:Ep.
  - cbn [nth_error]. rewrite <- (IH q (canon_tail _ _ Hc) Hq Hq').
    replace (rden p q) with false; [reflexivity|].
    destruct p as [pa pb]. rg_unfold. destruct (q =? 0) eqn:E0; lia.
  - cbn [nth_error]. unfold rden at 1. rewrite den_false; [apply orb_false_r|].
    intros r Hr. destruct (canon_In s p r Hc Hr) as [Hw Hl].
    destruct p as [pa pb], r as [ra rb]. rg_unfold. destruct (q =? 0) eqn:E0; lia.
Qed.

