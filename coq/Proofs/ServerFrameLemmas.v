(* Proofs/ServerFrameLemmas.v — helper lemmas for C04 / C06 about Model/ServerFrame.v. *)
From GoImap.Base Require Import Bytes.
From GoImap.Model Require Import NumSet MatchList Utf7 Wire ServerConn ServerFrame.
From GoImap.Proofs Require Import NumSetText Utf7Codec WireSpec WireLemmas WireProofs ServerFrameSpec.
From Coq Require Import ZifyN ZifyNat ZifyBool.
Open Scope N_scope.

(* ---------------------------------------------------------------- *)
(* literal headers *)
Lemma lit_header_conts : forall s,
  match lit_header s with
  | SOk _ _ k => k = O
  | SErr _ _ k _ => k = O
  | SNo _ => True
  end.
Proof.
  intros s. unfold lit_header.
  destruct (dec_special (ch "{") s); auto.
  destruct (dec_number64 rest) as [n r1| |]; auto.
  destruct (match r1 with [] => (false, r1) | x :: t => if b2n x =? 43 then (true, t) else (false, r1) end) as [ns r2].
  destruct (dec_special (ch "}") r2); auto.
  destruct (dec_crlf rest0); auto.
Qed.

(* ---------------------------------------------------------------- *)
(* dispatch on the upper-cased command name *)
Definition enable_caps (c : conn) : nat -> bytes -> sres hok :=
  fix caps (fuel : nat) (s : bytes) : sres hok :=
  match fuel with
  | O => SErr 2 false O s
  | S f =>
      match dec_sp s with
      | DOk _ r => bind (s_atom r) (fun _ r' => caps f r')
      | DNo r => bind (s_crlf r) (fun _ r' => guard (check_state SAuth c) c [] [OUntagged 2] (st c) r')
      | DErr => bind (s_crlf s) (fun _ r' => guard (check_state SAuth c) c [] [OUntagged 2] (st c) r')
      end
  end.

Ltac dispatch := intros cfg c name s H; unfold handle_cmd; rewrite H; reflexivity.

Lemma hc_noop : forall cfg c name s, ascii_upper name = s2b "NOOP" ->
  handle_cmd cfg c name s = finish (st c) (just_crlf c s (fun r => done [] [] 0 (st c) r)).
Proof. dispatch. Qed.
Lemma hc_check : forall cfg c name s, ascii_upper name = s2b "CHECK" ->
  handle_cmd cfg c name s = finish (st c) (just_crlf c s (fun r => done [] [] 0 (st c) r)).
Proof. dispatch. Qed.
Lemma hc_capability : forall cfg c name s, ascii_upper name = s2b "CAPABILITY" ->
  handle_cmd cfg c name s = finish (st c) (just_crlf c s (fun r => done [] [OUntagged 1] 0 (st c) r)).
Proof. dispatch. Qed.
Lemma hc_expunge : forall cfg c name s, ascii_upper name = s2b "EXPUNGE" ->
  handle_cmd cfg c name s = finish (st c) (just_crlf c s (fun r => guard (check_state SSelected c) c [SExpunge] [] (st c) r)).
Proof. dispatch. Qed.
Lemma hc_close : forall cfg c name s, ascii_upper name = s2b "CLOSE" ->
  handle_cmd cfg c name s = finish (st c) (just_crlf c s (fun r => guard (check_state SSelected c) c ([SExpunge] ++ [SUnselect]) [] SAuth r)).
Proof. dispatch. Qed.
Lemma hc_unselect : forall cfg c name s, ascii_upper name = s2b "UNSELECT" ->
  handle_cmd cfg c name s = finish (st c) (just_crlf c s (fun r => guard (check_state SSelected c) c ([] ++ [SUnselect]) [] SAuth r)).
Proof. dispatch. Qed.
Lemma hc_delete : forall cfg c name s, ascii_upper name = s2b "DELETE" ->
  handle_cmd cfg c name s = finish (st c) (h_mailbox1 SDelete c s).
Proof. dispatch. Qed.
Lemma hc_subscribe : forall cfg c name s, ascii_upper name = s2b "SUBSCRIBE" ->
  handle_cmd cfg c name s = finish (st c) (h_mailbox1 SSubscribe c s).
Proof. dispatch. Qed.
Lemma hc_unsubscribe : forall cfg c name s, ascii_upper name = s2b "UNSUBSCRIBE" ->
  handle_cmd cfg c name s = finish (st c) (h_mailbox1 SUnsubscribe c s).
Proof. dispatch. Qed.
Lemma hc_select : forall cfg c name s (ex : bool),
  ascii_upper name = (if ex then s2b "EXAMINE" else s2b "SELECT") ->
  handle_cmd cfg c name s = finish (st c) (
      bind (s_sp s) (fun _ r1 => bind (s_mailbox r1) (fun m r2 => bind (s_crlf r2) (fun _ r3 =>
      let was := match st c with SSelected => true | _ => false end in
      guard (check_state SAuth c) c
            ((if was then [SUnselect] else []) ++ [SSelect m ex])
            ((if was then [OUntagged 4] else []) ++ [OUntagged 3]) SSelected r3)))).
Proof. intros cfg c name s ex H; unfold handle_cmd; rewrite H; destruct ex; reflexivity. Qed.
Lemma hc_create : forall cfg c name s, ascii_upper name = s2b "CREATE" ->
  handle_cmd cfg c name s = finish (st c) (
      bind (s_sp s) (fun _ r0 => bind (s_mailbox r0) (fun m r1 =>
      match dec_sp r1 with
      | DOk _ r2 =>
          bind (s_special (ch "(") r2) (fun _ r3 => bind (s_atom r3) (fun a r4 => bind (s_sp r4) (fun _ r5 =>
          if bytes_eqb (ascii_upper a) (s2b "USE") then
            bind (flag_list r5) (fun fl r6 => bind (s_special (ch ")") r6) (fun _ r7 => bind (s_crlf r7) (fun _ r8 =>
            guard (check_state SAuth c) c [SCreate m (canon_attr_list fl)] [] (st c) r8)))
          else SErr 2 false O r5)))
      | DNo r2 => bind (s_crlf r2) (fun _ r3 => guard (check_state SAuth c) c [SCreate m []] [] (st c) r3)
      | DErr => bind (s_crlf r1) (fun _ r3 => guard (check_state SAuth c) c [SCreate m []] [] (st c) r3)
      end))).
Proof. dispatch. Qed.
Lemma hc_login : forall cfg c name s, ascii_upper name = s2b "LOGIN" ->
  handle_cmd cfg c name s = finish (st c) (
      bind (s_sp s) (fun _ r1 => bind (s_astring r1) (fun u r2 => bind (s_sp r2) (fun _ r3 =>
      bind (s_astring r3) (fun p r4 => bind (s_crlf r4) (fun _ r5 =>
      if negb (check_state SNotAuth c) then done [] [] 2 (st c) r5
      else if negb (f_insecure cfg) then done [] [] 1 (st c) r5
      else done [SLogin u p] [] 0 SAuth r5)))))).
Proof. dispatch. Qed.
Lemma hc_rename : forall cfg c name s, ascii_upper name = s2b "RENAME" ->
  handle_cmd cfg c name s = finish (st c) (
      bind (s_sp s) (fun _ r1 => bind (s_mailbox r1) (fun a r2 => bind (s_sp r2) (fun _ r3 =>
      bind (s_mailbox r3) (fun b r4 => bind (s_crlf r4) (fun _ r5 =>
      guard (check_state SAuth c) c [SRename a b] [] (st c) r5)))))).
Proof. dispatch. Qed.
Lemma hc_enable : forall cfg c name s, ascii_upper name = s2b "ENABLE" ->
  handle_cmd cfg c name s = finish (st c) (enable_caps c (S (length s)) s).
Proof. dispatch. Qed.

(* ---------------------------------------------------------------- *)
(* every decoder returns a suffix of its input: length bookkeeping *)
Definition dlen {A} (n : nat) (r : dres A) : Prop :=
  match r with DOk _ rest => (length rest <= n)%nat | DNo rest => (length rest <= n)%nat | DErr => True end.
Definition slen {A} (n : nat) (r : sres A) : Prop :=
  match r with
  | SOk _ rest _ => (length rest <= n)%nat
  | SNo rest => (length rest <= n)%nat
  | SErr _ _ _ rest => (length rest <= n)%nat
  end.

Lemma take_while_len : forall valid s a r, take_while valid s = Some (a, r) ->
  (length a + length r = length s)%nat.
Proof.
  intros valid. induction s as [|c s IH]; cbn [take_while]; intros a r H; [discriminate|].
  destruct (valid c).
  - destruct (take_while valid s) as [[a' r']|]; [|discriminate]. inversion H; subst.
    cbn [length]. rewrite <- (IH a' r eq_refl). lia.
  - inversion H; subst. reflexivity.
Qed.

Lemma dec_func_len : forall valid s n, (length s <= n)%nat -> dlen n (dec_func valid s).
Proof.
  intros valid s n Hn. unfold dec_func. destruct (take_while valid s) as [[a r]|] eqn:E; [|exact I].
  apply take_while_len in E. destruct a; cbn [dlen]; lia.
Qed.

Lemma dec_func_strict : forall valid s a r, dec_func valid s = DOk a r -> (length r < length s)%nat.
Proof.
  intros valid s a r. unfold dec_func. destruct (take_while valid s) as [[a' r']|] eqn:E; [|discriminate].
  apply take_while_len in E. destruct a'; intros H; inversion H; subst. cbn [length] in E. lia.
Qed.

Lemma dec_atom_len : forall s n, (length s <= n)%nat -> dlen n (dec_atom s).
Proof. intros. apply dec_func_len. assumption. Qed.

Lemma dec_special_len : forall c s n, (length s <= n)%nat -> dlen n (dec_special c s).
Proof.
  intros c [|x r] n Hn; cbn [dec_special dlen]; [exact I|]. cbn [length] in Hn.
  destruct (beqb x c); cbn [dlen length]; lia.
Qed.

Lemma dec_sp_len : forall s n, (length s <= n)%nat -> dlen n (dec_sp s).
Proof.
  intros [|x r] n Hn; cbn [dec_sp dlen]; [exact I|]. cbn [length] in Hn.
  destruct (beqb x SP_).
  - destruct r as [|y r']; [exact I|]. destruct (beqb y CR_ || beqb y LF_); cbn [dlen length] in *; lia.
  - destruct (b2n x =? 40); cbn [dlen length]; lia.
Qed.

Lemma dec_crlf_len : forall s n, (length s <= n)%nat -> dlen n (dec_crlf s).
Proof.
  intros s n Hn. unfold dec_crlf. cbv zeta.
  repeat match goal with
         | |- context [match ?l with [] => _ | _ :: _ => _ end] => is_var l; destruct l
         | |- context [if ?b then _ else _] => destruct b
         end; cbn [dlen length] in *; try exact I; lia.
Qed.

Lemma quoted_body_len : forall k s a r, (length s <= k)%nat -> quoted_body s = Some (a, r) -> (length r <= length s)%nat.
Proof.
  induction k as [|k IH]; intros s a r Hk H.
  - destruct s; [discriminate|cbn [length] in Hk; lia].
  - destruct s as [|c s]; [discriminate|]. cbn [quoted_body] in H. cbn [length] in *.
    destruct (beqb c DQ_).
    + inversion H; subst. lia.
    + destruct (beqb c BSL_).
      * destruct s as [|e s']; [discriminate|].
        destruct (quoted_body s') as [[a' r']|] eqn:E; [|discriminate]. inversion H; subst.
        cbn [length] in *. apply IH in E; lia.
      * destruct (quoted_body s) as [[a' r']|] eqn:E; [|discriminate]. inversion H; subst.
        apply IH in E; lia.
Qed.

Lemma dec_quoted_len : forall s n, (length s <= n)%nat -> dlen n (dec_quoted s).
Proof.
  intros s n Hn. unfold dec_quoted. pose proof (dec_special_len DQ_ s n Hn) as H.
  destruct (dec_special DQ_ s) as [u r| r|]; cbn [dlen] in *; auto.
  destruct (quoted_body r) as [[a rest]|] eqn:E; [|exact I].
  apply (quoted_body_len (length r)) in E; cbn [dlen]; lia.
Qed.

Lemma dec_uint_len : forall b s n, (length s <= n)%nat -> dlen n (dec_uint b s).
Proof.
  intros b s n Hn. unfold dec_uint. pose proof (dec_func_len is_digit s n Hn) as H.
  destruct (dec_func is_digit s) as [d r|r|]; cbn [dlen] in *; auto.
  destruct (parse_uint b d); cbn [dlen]; auto.
Qed.

Lemma dec_flag_len : forall s n, (length s <= n)%nat -> dlen n (dec_flag s).
Proof.
  intros s n Hn. unfold dec_flag. pose proof (dec_special_len BSL_ s n Hn) as H.
  destruct (dec_special BSL_ s) as [u r|r|]; cbn [dlen] in *; auto.
  - pose proof (dec_special_len (ch "*") r n H) as H1.
    destruct (dec_special (ch "*") r) as [u' r'|r'|]; cbn [dlen] in *; auto.
    pose proof (dec_atom_len r n H) as H2. destruct (dec_atom r); cbn [dlen] in *; auto.
  - pose proof (dec_atom_len s n Hn) as H2. destruct (dec_atom s); cbn [dlen] in *; auto.
Qed.

Lemma io_or_syntax_any : forall s, io_or_syntax s = 3 \/ io_or_syntax s = 2.
Proof. intros [|]; cbn; auto. Qed.

Lemma expect_len : forall A s (r : dres A) n, (length s <= n)%nat -> dlen n r -> slen n (expect s r).
Proof. intros A s [v rest|rest|] n Hn H; cbn [expect slen dlen] in *; auto. Qed.

Lemma s_sp_len : forall s n, (length s <= n)%nat -> slen n (s_sp s).
Proof. intros. apply expect_len; [|apply dec_sp_len]; assumption. Qed.
Lemma s_crlf_len : forall s n, (length s <= n)%nat -> slen n (s_crlf s).
Proof. intros. apply expect_len; [|apply dec_crlf_len]; assumption. Qed.
Lemma s_special_len : forall c s n, (length s <= n)%nat -> slen n (s_special c s).
Proof. intros. apply expect_len; [|apply dec_special_len]; assumption. Qed.
Lemma s_atom_len : forall s n, (length s <= n)%nat -> slen n (s_atom s).
Proof. intros. apply expect_len; [|apply dec_atom_len]; assumption. Qed.

Lemma lit_header_len : forall s n, (length s <= n)%nat -> slen n (lit_header s).
Proof.
  intros s n Hn. unfold lit_header. pose proof (dec_special_len (ch "{") s n Hn) as H.
  destruct (dec_special (ch "{") s) as [u r|r|]; cbn [dlen slen] in *; auto.
  pose proof (dec_uint_len 9223372036854775808 r n H) as H1. fold dec_number64 in H1.
  destruct (dec_number64 r) as [v r1|r1|]; cbn [dlen slen] in *; auto.
  destruct (match r1 with [] => (false, r1) | x :: t => if b2n x =? 43 then (true, t) else (false, r1) end)
    as [ns r2] eqn:E.
  assert (H2 : (length r2 <= n)%nat).
  { destruct r1 as [|x t]; [inversion E; subst; exact H1|]. cbn [length] in H1.
    destruct (b2n x =? 43); inversion E; subst; cbn [length]; lia. }
  pose proof (dec_special_len (ch "}") r2 n H2) as H3.
  destruct (dec_special (ch "}") r2) as [u' r3|r3|]; cbn [dlen slen] in *; auto.
  pose proof (dec_crlf_len r3 n H3) as H4.
  destruct (dec_crlf r3) as [u'' r4|r4|]; cbn [dlen slen] in *; auto.
Qed.

Lemma s_literal_len : forall s n, (length s <= n)%nat -> slen n (s_literal s).
Proof.
  intros s n Hn. unfold s_literal. pose proof (lit_header_len s n Hn) as H.
  destruct (lit_header s) as [[v ns] r k|r|c cl k r]; cbn [slen] in *; auto.
  destruct (4096 <? v); cbn [slen]; auto. rewrite skipn_length. lia.
Qed.

Lemma s_string_len : forall s n, (length s <= n)%nat -> slen n (s_string s).
Proof.
  intros s n Hn. unfold s_string. pose proof (dec_quoted_len s n Hn) as H.
  destruct (dec_quoted s); cbn [slen dlen length] in *; auto; [|lia]. apply s_literal_len; assumption.
Qed.

Lemma s_astring_len : forall s n, (length s <= n)%nat -> slen n (s_astring s).
Proof.
  intros s n Hn. unfold s_astring. pose proof (s_string_len s n Hn) as H.
  destruct (s_string s); cbn [slen] in *; auto. apply expect_len; [|apply dec_atom_len]; assumption.
Qed.

Lemma s_mailbox_len : forall s n, (length s <= n)%nat -> slen n (s_mailbox s).
Proof.
  intros s n Hn. unfold s_mailbox. pose proof (s_astring_len s n Hn) as H.
  destruct (s_astring s); cbn [slen] in *; auto.
  destruct (equal_fold_ascii v INBOX); cbn [slen]; auto.
  destruct (utf7_decode v); cbn [slen]; auto.
Qed.

Lemma bind_len : forall A B (r : sres A) (f : A -> bytes -> sres B) n,
  slen n r -> (forall v rest, (length rest <= n)%nat -> slen n (f v rest)) -> slen n (bind r f).
Proof.
  intros A B [v rest k|rest|c cl k rest] f n Hr Hf; cbn [bind slen] in *; auto.
  specialize (Hf v rest Hr). destruct (f v rest); cbn [slen] in *; auto.
Qed.

Lemma flag_items_len : forall fuel s n, (length s <= n)%nat -> slen n (flag_items fuel s).
Proof.
  induction fuel as [|fuel IH]; intros s n Hn; cbn [flag_items]; [exact Hn|].
  apply bind_len; [apply expect_len; [|apply dec_flag_len]; assumption|].
  intros fl r1 H1. pose proof (dec_special_len (ch ")") r1 n H1) as H.
  destruct (dec_special (ch ")") r1); cbn [slen dlen] in *; auto.
  apply bind_len; [apply s_sp_len; assumption|]. intros _ r2 H2.
  apply bind_len; [apply IH; assumption|]. intros l r3 H3. exact H3.
Qed.

Lemma flag_list_len : forall s n, (length s <= n)%nat -> slen n (flag_list s).
Proof.
  intros s n Hn. unfold flag_list. pose proof (dec_special_len (ch "(") s n Hn) as H.
  destruct (dec_special (ch "(") s) as [u r|r|]; cbn [slen dlen] in *; auto.
  pose proof (dec_special_len (ch ")") r n H) as H1.
  destruct (dec_special (ch ")") r); cbn [slen dlen] in *; auto.
  apply flag_items_len; assumption.
Qed.

Lemma read_line_len : forall s l r, read_line s = Some (l, r) -> (length r <= length s)%nat.
Proof.
  induction s as [|c s IH]; cbn [read_line]; intros l r H; [discriminate|].
  destruct (beqb c LF_); [inversion H; subst; cbn [length]; lia|].
  destruct (read_line s) as [[l' r']|]; [|discriminate]. inversion H; subst.
  specialize (IH l' r eq_refl). cbn [length]. lia.
Qed.

Lemma discard_line_len : forall b s, (length (fst (discard_line b s)) <= length s)%nat.
Proof.
  intros b s. unfold discard_line, line_tail_rev. destruct b; [cbn; lia|].
  destruct (take_while not_lf s) as [[t r]|] eqn:E; [|cbn; lia].
  apply take_while_len in E. destruct r; cbn [fst length] in *; lia.
Qed.

(* ---------------------------------------------------------------- *)
(* no handler writes a tagged response itself; every handler returns a suffix of its input *)
Definition notagb (l : list sout) : bool :=
  forallb (fun o => match o with OTagged _ _ => false | _ => true end) l.
Definition good (n : nat) (r : sres hok) : Prop :=
  slen n r /\ match r with SOk o _ _ => notagb (k_outs o) = true | _ => True end.
Definition hgood (n : nat) (h : hres) : Prop :=
  (length (h_rest h) <= n)%nat /\ notagb (h_outs h) = true.

Lemma notag_conts : forall k, notagb (conts_out k) = true.
Proof. induction k; cbn; auto. Qed.

Lemma notag_app : forall a b, notagb (a ++ b) = notagb a && notagb b.
Proof. intros. unfold notagb. apply forallb_app. Qed.

Lemma finish_good : forall st0 r n, good n r -> hgood n (finish st0 r).
Proof.
  intros st0 [o rest k|rest|c cl k rest] n [H1 H2]; cbn [finish slen] in *; split; cbn [h_rest h_outs]; auto.
  - rewrite notag_app, notag_conts, H2. reflexivity.
  - apply notag_conts.
Qed.

Lemma finish_err_good : forall st0 c cl k rest n, (length rest <= n)%nat -> hgood n (finish st0 (SErr c cl k rest)).
Proof. intros. apply finish_good. split; [assumption|exact I]. Qed.
Lemma finish_no_good : forall st0 rest n, (length rest <= n)%nat -> hgood n (finish st0 (SNo rest)).
Proof. intros. apply finish_good. split; [assumption|exact I]. Qed.

Lemma bind_good : forall A (r : sres A) f n,
  slen n r -> (forall v rest, (length rest <= n)%nat -> good n (f v rest)) -> good n (bind r f).
Proof.
  intros A [v rest k|rest|c cl k rest] f n Hr Hf; cbn [bind slen] in *; try (split; [assumption|exact I]).
  destruct (Hf v rest Hr) as [H1 H2]. destruct (f v rest); cbn [slen] in *; split; auto.
Qed.

Lemma done_good : forall calls outs cls st' rest n, notagb outs = true -> (length rest <= n)%nat ->
  good n (done calls outs cls st' rest).
Proof. intros. split; assumption. Qed.

Lemma guard_good : forall ok c calls outs st' rest n, notagb outs = true -> (length rest <= n)%nat ->
  good n (guard ok c calls outs st' rest).
Proof. intros. unfold guard. destruct ok; apply done_good; auto. Qed.

Ltac slen_tac :=
  first [ apply s_sp_len | apply s_crlf_len | apply s_special_len | apply s_atom_len
        | apply s_astring_len | apply s_mailbox_len | apply flag_list_len ]; assumption.

Ltac goodstep :=
  match goal with
  | |- good _ (bind _ _) => apply bind_good; [ slen_tac | intros ]
  | |- good _ (guard _ _ _ _ _ _) => apply guard_good; [first [reflexivity | destruct (st _); reflexivity] | first [assumption | cbn; lia]]
  | |- good _ (done _ _ _ _ _) => apply done_good; [reflexivity | first [assumption | cbn; lia]]
  | |- good _ (just_crlf _ _ _) => unfold just_crlf
  | |- good _ (h_mailbox1 _ _ _) => unfold h_mailbox1
  | |- good _ (SErr _ _ _ _) => split; [cbn [slen]; assumption | exact I]
  | |- good _ (if ?b then _ else _) => destruct b
  end.

Lemma enable_caps_good : forall c fuel s n, (length s <= n)%nat -> good n (enable_caps c fuel s).
Proof.
  intros c. induction fuel as [|fuel IH]; intros s n Hn; cbn [enable_caps].
  - goodstep.
  - pose proof (dec_sp_len s n Hn) as H. destruct (dec_sp s); cbn [dlen] in H.
    + goodstep. apply IH. assumption.
    + repeat goodstep.
    + repeat goodstep.
Qed.

Ltac goodstep2 :=
  match goal with
  | |- good ?n (match dec_sp ?r with _ => _ end) =>
      let H := fresh "H" in assert (H := dec_sp_len r n ltac:(assumption)); destruct (dec_sp r); cbn [dlen] in H
  | |- good ?n (match read_line ?r with _ => _ end) =>
      let E := fresh "E" in destruct (read_line r) as [[? ?]|] eqn:E; [apply read_line_len in E|]
  | _ => goodstep
  end.


Ltac lenp := first [assumption | cbn [length] in *; rewrite ?skipn_length; lia].
Ltac astep n :=
  match goal with
  | |- hgood _ (finish _ (SErr _ _ _ _)) => apply finish_err_good; lenp
  | |- hgood _ (finish _ (SNo _)) => apply finish_no_good; lenp
  | |- hgood _ (mkH _ _ _ _ _ _ _) => split; cbn [h_rest h_outs]; [lenp | apply notag_conts]
  | |- context [flag_list ?x] =>
      let H := fresh "H" in assert (H := flag_list_len x n ltac:(lenp)); destruct (flag_list x); cbn [slen bind] in *
  | |- context [s_sp ?x] =>
      let H := fresh "H" in assert (H := s_sp_len x n ltac:(lenp)); destruct (s_sp x); cbn [slen bind] in *
  | |- context [dec_quoted ?x] =>
      let H := fresh "H" in assert (H := dec_quoted_len x n ltac:(lenp)); destruct (dec_quoted x); cbn [dlen] in *
  | |- context [dec_atom ?x] =>
      let H := fresh "H" in assert (H := dec_atom_len x n ltac:(lenp)); destruct (dec_atom x); cbn [dlen] in *
  | |- context [lit_header (match ?r with _ => _ end)] => destruct r
  | |- context [lit_header ?x] =>
      let H := fresh "H" in assert (H := lit_header_len x n ltac:(lenp)); destruct (lit_header x) as [[? ?] ? ?|?|? ? ? ?]; cbn [slen] in *
  | |- context [dec_crlf (skipn ?k ?r)] =>
      let H := fresh "H" in assert (H := dec_crlf_len (skipn k r) n ltac:(rewrite skipn_length; lenp));
      destruct (dec_crlf (skipn k r)); cbn [dlen] in *
  | |- context [if ?b then _ else _] => destruct b
  end.

Lemma handle_cmd_good : forall cfg c name s, hgood (length s) (handle_cmd cfg c name s).
Proof.
  intros cfg c name s. remember (length s) as n eqn:En.
  assert (Hs : (length s <= n)%nat) by lia.
  unfold handle_cmd. cbv zeta.
  repeat match goal with |- hgood _ (if ?b then _ else _) => destruct b end.
  all: try (apply finish_good; repeat goodstep2; fail).
  - change (hgood n (finish (st c) (enable_caps c (S (length s)) s))).
    apply finish_good, enable_caps_good. assumption.
  - match goal with |- hgood _ (match ?A with _ => _ end) =>
      assert (HA : slen n A) by (repeat (apply bind_len; [slen_tac | intros]); cbn [slen]; assumption);
      destruct A as [m r2 k|r|c1 cl k r]; cbn [slen] in HA end.
    2: apply finish_no_good; assumption.
    2: apply finish_err_good; assumption.
    repeat astep n.
  - destruct (st c); split; cbn [h_rest h_outs]; auto.
Qed.

(* ---------------------------------------------------------------- *)
(* one step of the serve loop *)
Definition tagged (o : sout) : bool := match o with OTagged _ _ => true | _ => false end.
Definition ntag (l : list sout) : nat := length (filter tagged l).

Lemma notag_filter : forall l, notagb l = true -> filter tagged l = [].
Proof.
  induction l as [|o l IH]; cbn [notagb forallb filter]; intros H; [reflexivity|].
  apply andb_true_iff in H. destruct H as [Ho Hl]. destruct o; try discriminate; cbn [tagged]; apply IH; exact Hl.
Qed.

Lemma notag_rev : forall l, notagb l = true -> notagb (rev l) = true.
Proof.
  intros l H. unfold notagb in *. rewrite forallb_forall in *. intros x Hx. apply H. apply in_rev. exact Hx.
Qed.

Lemma ntag_push : forall t c outs old, notagb outs = true ->
  ntag (OTagged t c :: rev outs ++ old) = S (ntag old).
Proof.
  intros t c outs old H. unfold ntag. cbn [filter tagged length]. rewrite filter_app.
  rewrite (notag_filter _ (notag_rev _ H)). reflexivity.
Qed.

Lemma ntag_bye : forall l, ntag (OBye :: l) = ntag l.
Proof. reflexivity. Qed.

Lemma read_command_step : forall cfg f total s f' o, read_command cfg f total s = (f', o) ->
  (length (fs_starts f') = S (length (fs_starts f)))%nat /\
  (ntag (fs_out f) <= ntag (fs_out f') <= S (ntag (fs_out f)))%nat /\
  (forall rest, o = Some rest -> (ntag (fs_out f') = S (ntag (fs_out f)))%nat /\ (length rest < length s)%nat).
Proof.
  intros cfg f total s f' o H. unfold read_command in H. cbv zeta in H.
  Ltac early H := inversion H; subst; cbn [fs_starts fs_out length]; split; [reflexivity|split; [lia|discriminate]].
  Ltac tailtac H :=
    match type of H with context [handle_cmd ?cfg ?c ?nm ?r] =>
      let Hr := fresh "Hr" in let Ht := fresh "Ht" in
      destruct (handle_cmd_good cfg c nm r) as [Hr Ht];
      set (h := handle_cmd cfg c nm r) in *;
      let Hd := fresh "Hd" in
      pose proof (discard_line_len (h_crlf h) (h_rest h)) as Hd;
      destruct (discard_line (h_crlf h) (h_rest h)) as [rest ann]; cbn [fst] in Hd;
      destruct (h_close h || (ann && negb (h_cls h =? 0))); destruct (h_cls h =? 3); cbn [orb] in H;
      try destruct (h_st h); inversion H; subst; cbn [fs_out fs_starts length];
      (split; [reflexivity|]);
      rewrite ?ntag_bye;
      rewrite (ntag_push _ _ _ _ Ht); (split; [lia|]); intros rest' E; inversion E; subst; (split; [reflexivity|lia])
    end.
  destruct (dec_atom s) as [tag r1|?|] eqn:E1; [|early H|early H].
  apply dec_func_strict in E1.
  pose proof (dec_sp_len r1 _ (le_n _)) as H2.
  destruct (dec_sp r1) as [u r2|?|]; [|early H|early H]. cbn [dlen] in H2.
  pose proof (dec_atom_len r2 _ (le_n _)) as H3.
  destruct (dec_atom r2) as [name r3|?|]; [|early H|early H]. cbn [dlen] in H3.
  destruct (existsb (fun b => b2n b =? 43) tag); [early H|].
  destruct (bytes_eqb (ascii_upper name) (s2b "UID")).
  - pose proof (dec_sp_len r3 _ (le_n _)) as H4.
    destruct (dec_sp r3) as [u' r4|?|]; [|early H|early H]. cbn [dlen] in H4.
    pose proof (dec_atom_len r4 _ (le_n _)) as H5.
    destruct (dec_atom r4) as [sub r5|?|]; [|early H|early H]. cbn [dlen] in H5.
    tailtac H.
  - tailtac H.
Qed.


Lemma serve_count : forall fuel cfg f total s,
  let f' := serve_bytes fuel cfg f total s in
  exists a b, (length (fs_starts f') = length (fs_starts f) + a /\
               ntag (fs_out f') = ntag (fs_out f) + b /\ b <= a <= S b)%nat.
Proof.
  induction fuel as [|fuel IH]; intros cfg f total s; cbn [serve_bytes].
  - exists O, O. lia.
  - destruct s as [|c s]; [exists O, O; lia|].
    destruct (read_command cfg f total (c :: s)) as [f1 o] eqn:E.
    destruct (read_command_step _ _ _ _ _ _ E) as (H1 & H2 & H3).
    destruct o as [rest|].
    + destruct (H3 rest eq_refl) as [H4 _].
      destruct (IH cfg f1 total rest) as (a & b & Ha & Hb & Hab).
      exists (S a), (S b). lia.
    + exists 1%nat, (ntag (fs_out f1) - ntag (fs_out f))%nat. lia.
Qed.

Lemma serve_fuel_any : forall k1 k2 cfg f total s, (length s < k1)%nat -> (length s < k2)%nat ->
  serve_bytes k1 cfg f total s = serve_bytes k2 cfg f total s.
Proof.
  induction k1 as [|k1 IH]; intros k2 cfg f total s H1 H2; [lia|].
  destruct k2 as [|k2]; [lia|]. cbn [serve_bytes].
  destruct s as [|c s]; [reflexivity|].
  destruct (read_command cfg f total (c :: s)) as [f1 o] eqn:E.
  destruct (read_command_step _ _ _ _ _ _ E) as (_ & _ & H3).
  destruct o as [rest|]; [|reflexivity].
  destruct (H3 rest eq_refl) as [_ H4]. apply IH; lia.
Qed.

(* ---------------------------------------------------------------- *)
(* atoms, names *)
Lemma atom_ok_spec : forall s, atom_ok s = true -> s <> [] /\ forallb is_atom_char s = true.
Proof.
  intros s H. unfold atom_ok in H. apply andb_true_iff in H. destruct H as [H1 H2].
  split; [|exact H2]. destruct s; [discriminate|discriminate].
Qed.

Lemma tag_ok_spec : forall s, tag_ok s = true ->
  atom_ok s = true /\ existsb (fun b => b2n b =? 43) s = false.
Proof.
  intros s H. unfold tag_ok in H. apply andb_true_iff in H. destruct H as [H1 H2].
  split; [exact H1|]. apply negb_true_iff in H2. exact H2.   (* has_plus unfolds to the existsb *)
Qed.

Lemma upper_atom_char : forall c, is_atom_char (to_upper_b c) = true -> is_atom_char c = true.
Proof. intros [[] [] [] [] [] [] [] []]; vm_compute; intros H; try discriminate H; reflexivity. Qed.

Lemma upper_atom : forall s, forallb is_atom_char (ascii_upper s) = true -> forallb is_atom_char s = true.
Proof.
  induction s as [|c s IH]; cbn [ascii_upper map forallb]; intros H; [reflexivity|].
  apply andb_true_iff in H. destruct H as [H1 H2]. rewrite (upper_atom_char _ H1). apply IH. exact H2.
Qed.

Definition known_names : list bytes :=
  map s2b ["NOOP"; "CHECK"; "CAPABILITY"; "EXPUNGE"; "CLOSE"; "UNSELECT"; "DELETE"; "SUBSCRIBE";
           "UNSUBSCRIBE"; "SELECT"; "EXAMINE"; "CREATE"; "LOGIN"; "RENAME"]%string.

Lemma name_is_eq : forall nm k, name_is nm k = true -> nm = s2b k.
Proof. intros nm k H. apply bytes_eqb_true_iff. exact H. Qed.

Lemma arity_cases : forall name n, arity name = Some n ->
  let u := ascii_upper name in
  (n = 0%nat /\ (u = s2b "NOOP" \/ u = s2b "CHECK" \/ u = s2b "CAPABILITY" \/ u = s2b "EXPUNGE" \/
                 u = s2b "CLOSE" \/ u = s2b "UNSELECT")) \/
  (n = 1%nat /\ (u = s2b "DELETE" \/ u = s2b "SUBSCRIBE" \/ u = s2b "UNSUBSCRIBE" \/ u = s2b "SELECT" \/
                 u = s2b "EXAMINE" \/ u = s2b "CREATE")) \/
  (n = 2%nat /\ (u = s2b "LOGIN" \/ u = s2b "RENAME")).
Proof.
  intros name n H u. unfold arity in H. fold u in H.
  repeat match type of H with
  | context [name_is u ?k] =>
      let E := fresh "E" in destruct (name_is u k) eqn:E;
      [apply name_is_eq in E; cbn [orb] in H; inversion H; subst; clear H; tauto | cbn [orb] in H]
  end.
  discriminate H.
Qed.

Lemma arity_known : forall name n, arity name = Some n -> In (ascii_upper name) known_names.
Proof.
  intros name n H. apply arity_cases in H. cbv zeta in H. unfold known_names. cbn [map In].
  intuition auto.
Qed.

Lemma known_name_facts : forall u, In u known_names ->
  u <> [] /\ forallb is_atom_char u = true /\ bytes_eqb u (s2b "UID") = false.
Proof.
  intros u H. unfold known_names in H. cbn [map In] in H.
  repeat (destruct H as [<-|H]; [split; [discriminate|split; reflexivity]|]). destruct H.
Qed.

Lemma wf_name : forall name n, arity name = Some n ->
  name <> [] /\ forallb is_atom_char name = true /\ bytes_eqb (ascii_upper name) (s2b "UID") = false.
Proof.
  intros name n H. destruct (known_name_facts _ (arity_known _ _ H)) as (H1 & H2 & H3).
  split; [|split; [apply upper_atom; exact H2|exact H3]].
  intros ->. apply H1. reflexivity.
Qed.

(* ---------------------------------------------------------------- *)
(* parsing what the honest client rendered *)
Ltac brw L := let H := fresh "Hrw" in pose proof L as H; unfold byte, bytes in H |- *; rewrite H; clear H.

Definition is_nonsync (a : arg) : bool := match a_form a with FNonSync => true | _ => false end.
Definition after_refused (a : arg) (more : bytes) : bytes :=
  match a_form a with FNonSync => a_val a ++ more | _ => more end.
Definition arg_strs (a : arg) : list bytes :=
  [a_val a; INBOX] ++ match utf7_decode (a_val a) with Some d => [d] | None => [] end.

Lemma astring_atom : forall v more, atom_ok v = true -> nonatom more -> s_astring (v ++ more) = SOk v more O.
Proof.
  intros v more Hv Hm. destruct (atom_ok_spec _ Hv) as [Hn Ha].
  destruct v as [|c v]; [congruence|]. pose proof Ha as Ha'. cbn [forallb] in Ha'.
  apply andb_true_iff in Ha'. destruct Ha' as [Hc _].
  destruct (atom_char_facts c Hc) as (_ & _ & Hdq & Hlb & _).
  unfold s_astring, s_string. cbn [app]. rewrite (dec_quoted_miss _ _ Hdq).
  unfold s_literal, lit_header. rewrite (dec_special_miss _ _ _ Hlb).
  change (c :: v ++ more) with ((c :: v) ++ more). brw (dec_atom_app _ _ Hn Ha Hm). reflexivity.
Qed.

Lemma astring_quoted : forall v more, s_astring (enc_quoted v ++ more) = SOk v more O.
Proof. intros. unfold s_astring, s_string. rewrite quoted_roundtrip. reflexivity. Qed.

Lemma lit_header_render : forall (ns : bool) n more, n < 9223372036854775808 ->
  lit_header (s2b "{" ++ dec_of_N n ++ (if ns then s2b "+}" else s2b "}") ++ CRLF_ ++ more) = SOk (n, ns) more O.
Proof.
  intros ns n more Hn. unfold lit_header. change (s2b "{") with [ch "{"]. cbn [app].
  rewrite dec_special_hit. unfold dec_number64.
  rewrite dec_uint_roundtrip; [|exact Hn|destruct ns; reflexivity].
  destruct ns.
  - change (s2b "+}") with [ch "+"; ch "}"]. cbn [app].
    change (b2n (ch "+") =? 43) with true. cbv iota.
    rewrite dec_special_hit. unfold CRLF_. cbn [app]. rewrite dec_crlf_crlf. reflexivity.
  - change (s2b "}") with [ch "}"]. cbn [app].
    change (b2n (ch "}") =? 43) with false. cbv iota.
    rewrite dec_special_hit. unfold CRLF_. cbn [app]. rewrite dec_crlf_crlf. reflexivity.
Qed.

Lemma lbrace_not_dq : forall t, dec_quoted (s2b "{" ++ t) = DNo (s2b "{" ++ t).
Proof. intros. apply dec_quoted_miss. reflexivity. Qed.

Lemma astring_literal : forall (ns : bool) v more, N.of_nat (length v) < 9223372036854775808 ->
  s_astring (s2b "{" ++ dec_of_N (N.of_nat (length v)) ++ (if ns then s2b "+}" else s2b "}") ++ CRLF_ ++ v ++ more) =
  if 4096 <? N.of_nat (length v) then SErr 4 ns O (v ++ more)
  else SOk v more (if ns then O else 1%nat).
Proof.
  intros ns v more Hv. unfold s_astring, s_string. rewrite lbrace_not_dq.
  unfold s_literal. rewrite (lit_header_render ns _ (v ++ more) Hv).
  destruct (4096 <? N.of_nat (length v)); [reflexivity|].
  rewrite Nat2N.id, firstn_length_app, skipn_length_app. reflexivity.
Qed.

Lemma astring_literal_cut : forall (v : bytes) more, N.of_nat (length v) < 9223372036854775808 ->
  4096 <? N.of_nat (length v) = true ->
  s_astring (s2b "{" ++ dec_of_N (N.of_nat (length v)) ++ s2b "}" ++ CRLF_ ++ more) = SErr 4 false O more.
Proof.
  intros v more Hv Hr. unfold s_astring, s_string. rewrite lbrace_not_dq.
  unfold s_literal. rewrite (lit_header_render false _ more Hv). rewrite Hr. reflexivity.
Qed.

Lemma wf_arg_form : forall mb a, wf_arg mb a = true ->
  match a_form a with
  | FAtom => atom_ok (a_val a) = true
  | FQuoted => True
  | _ => N.of_nat (length (a_val a)) < 9223372036854775808
  end.
Proof.
  intros mb a H. unfold wf_arg in H. apply andb_true_iff in H. destruct H as [H _].
  destruct (a_form a); auto; apply N.ltb_lt; exact H.
Qed.

Lemma astring_arg_ok : forall mb a more, wf_arg mb a = true -> arg_refused a = false -> nonatom more ->
  exists k, s_astring (render_arg a ++ more) = SOk (a_val a) more k.
Proof.
  intros mb a more Hw Hr Hm. pose proof (wf_arg_form _ _ Hw) as Hf.
  unfold render_arg, arg_refused in *. destruct (a_form a).
  - eexists. apply astring_atom; assumption.
  - eexists. apply astring_quoted.
  - rewrite Hr. rewrite <- !app_assoc.
    rewrite (astring_literal false _ more Hf). rewrite Hr. eexists. reflexivity.
  - rewrite <- !app_assoc.
    rewrite (astring_literal true _ more Hf). rewrite Hr. eexists. reflexivity.
Qed.

Lemma astring_arg_refused : forall mb a more, wf_arg mb a = true -> arg_refused a = true ->
  s_astring (render_arg a ++ more) = SErr 4 (is_nonsync a) O (after_refused a more).
Proof.
  intros mb a more Hw Hr. pose proof (wf_arg_form _ _ Hw) as Hf.
  unfold render_arg, arg_refused, is_nonsync, after_refused in *. destruct (a_form a); try discriminate.
  - rewrite Hr. rewrite <- !app_assoc. cbn [app]. apply astring_literal_cut; assumption.
  - rewrite <- !app_assoc.
    rewrite (astring_literal true _ more Hf). rewrite Hr. reflexivity.
Qed.

Lemma mailbox_arg_ok : forall a more, wf_arg true a = true -> arg_refused a = false -> nonatom more ->
  exists k m, s_mailbox (render_arg a ++ more) = SOk m more k /\ In m (arg_strs a).
Proof.
  intros a more Hw Hr Hm. destruct (astring_arg_ok _ _ _ Hw Hr Hm) as [k Hk].
  unfold s_mailbox. rewrite Hk. exists k.
  unfold wf_arg in Hw. apply andb_true_iff in Hw. destruct Hw as [_ Hw]. rewrite Hr in Hw.
  cbn [negb orb] in Hw. unfold arg_strs.
  destruct (equal_fold_ascii (a_val a) INBOX).
  - exists INBOX. split; [reflexivity|]. cbn [app In]. auto.
  - cbn [orb] in Hw. destruct (utf7_decode (a_val a)) as [d|]; [|discriminate].
    exists d. split; [reflexivity|]. cbn [app In]. auto.
Qed.

Lemma mailbox_arg_refused : forall mb a more, wf_arg mb a = true -> arg_refused a = true ->
  s_mailbox (render_arg a ++ more) = SErr 4 (is_nonsync a) O (after_refused a more).
Proof.
  intros mb a more Hw Hr. unfold s_mailbox. rewrite (astring_arg_refused _ _ _ Hw Hr). reflexivity.
Qed.

Lemma render_arg_head : forall mb a, wf_arg mb a = true ->
  exists y t, render_arg a = y :: t /\ beqb y CR_ = false /\ beqb y LF_ = false.
Proof.
  intros mb a Hw. pose proof (wf_arg_form _ _ Hw) as Hf. unfold render_arg. destruct (a_form a).
  - destruct (atom_ok_spec _ Hf) as [Hn Ha]. destruct (a_val a) as [|c v]; [congruence|].
    cbn [forallb] in Ha. apply andb_true_iff in Ha. destruct Ha as [Hc _].
    destruct (atom_char_facts c Hc) as (_ & _ & _ & _ & _ & _ & Hcr & Hlf & _).
    exists c, v. auto.
  - unfold enc_quoted. eexists _, _. split; [reflexivity|]. split; reflexivity.
  - change (s2b "{") with [ch "{"]. cbn [app]. eexists _, _. split; [reflexivity|]. split; reflexivity.
  - change (s2b "{") with [ch "{"]. cbn [app]. eexists _, _. split; [reflexivity|]. split; reflexivity.
Qed.

Lemma sp_arg : forall mb a more, wf_arg mb a = true ->
  s_sp (SP_ :: render_arg a ++ more) = SOk tt (render_arg a ++ more) O.
Proof.
  intros mb a more Hw. destruct (render_arg_head _ _ Hw) as (y & t & -> & Hcr & Hlf).
  unfold s_sp, dec_sp. cbn [app]. change (beqb SP_ SP_) with true. cbv iota.
  rewrite Hcr, Hlf. reflexivity.
Qed.

Lemma crlf_tail : forall tail, s_crlf (CRLF_ ++ tail) = SOk tt tail O.
Proof. reflexivity. Qed.

Lemma dec_sp_crlf : forall tail, dec_sp (CRLF_ ++ tail) = DNo (CRLF_ ++ tail).
Proof. reflexivity. Qed.

(* ---------------------------------------------------------------- *)
(* what a handler run on a rendered command line must deliver *)
Definition callsok (allowed : list bytes) (calls : list scall) : Prop :=
  forall k x, In k calls -> In x (call_strings k) -> In x allowed.

Definition rsum (c : conn) (allowed : list bytes) (tail : bytes) (r : sres hok) : Prop :=
  match r with
  | SOk o rest _ => rest = tail /\ k_cls o <> 3 /\ (st c <> SLogout -> k_st o <> SLogout) /\ callsok allowed (k_calls o)
  | SErr cls cl _ rest => cls = 4 /\ cl = false /\ rest = tail
  | SNo _ => False
  end.
Definition rclose (r : sres hok) : Prop := match r with SErr _ cl _ _ => cl = true | _ => False end.
Definition rres (c : conn) (allowed : list bytes) (tail : bytes) (closing : bool) (r : sres hok) : Prop :=
  if closing then rclose r else rsum c allowed tail r.

Lemma bind_ok_rres : forall A c al tail cl (r : sres A) f v rest k,
  r = SOk v rest k -> rres c al tail cl (f v rest) -> rres c al tail cl (bind r f).
Proof.
  intros A c al tail cl r f v rest k -> H. cbn [bind]. unfold rres in *.
  destruct cl; destruct (f v rest); cbn [rclose rsum] in *; auto; contradiction.
Qed.

Lemma bind_refused_rres : forall A c al tail (r : sres A) f (ns : bool) k rest,
  r = SErr 4 ns k rest -> (ns = false -> rest = tail) -> rres c al tail ns (bind r f).
Proof.
  intros A c al tail r f ns k rest -> H. cbn [bind]. unfold rres. destruct ns; cbn [rclose rsum]; auto.
Qed.

Lemma done_rres : forall c al tail calls outs cls st',
  cls <> 3 -> (st c <> SLogout -> st' <> SLogout) -> callsok al calls ->
  rres c al tail false (done calls outs cls st' tail).
Proof. intros. cbn. auto. Qed.

Lemma callsok_nil : forall al, callsok al [].
Proof. intros al k x []. Qed.

Lemma guard_rres : forall c al tail ok calls outs st',
  (st c <> SLogout -> st' <> SLogout) -> callsok al calls ->
  rres c al tail false (guard ok c calls outs st' tail).
Proof.
  intros. unfold guard. destruct ok; apply done_rres; auto; try discriminate. apply callsok_nil.
Qed.

(* the arguments as the recursion over them sees the stream *)
Fixpoint args_tail (args : list arg) (tail : bytes) : bytes :=
  match args with
  | [] => CRLF_ ++ tail
  | a :: r => SP_ :: render_arg a ++ (if arg_refused a then tail else args_tail r tail)
  end.
Fixpoint closes_args (args : list arg) : bool :=
  match args with
  | [] => false
  | a :: r => if arg_refused a then is_nonsync a else closes_args r
  end.

Lemma render_cmd_tail : forall c tail,
  render_cmd c ++ tail = c_tag c ++ SP_ :: c_name c ++ args_tail (c_args c) tail.
Proof.
  intros c tail. unfold render_cmd.
  assert (H : forall l, let '(args, refused) := sent_args l in
            (flat_map (fun a => SP_ :: render_arg a) args ++ (if refused then [] else CRLF_)) ++ tail = args_tail l tail).
  { induction l as [|a r IH]; cbn [sent_args args_tail]; [reflexivity|].
    destruct (arg_refused a).
    - cbn [flat_map app]. rewrite !app_nil_r. reflexivity.
    - destruct (sent_args r) as [w b]. cbn [flat_map app]. rewrite <- IH. rewrite <- !app_assoc. reflexivity. }
  specialize (H (c_args c)). destruct (sent_args (c_args c)) as [args refused].
  rewrite <- H. cbn [app]. rewrite <- !app_assoc. cbn [app]. rewrite <- !app_assoc. reflexivity.
Qed.

Lemma closes_closes_args : forall c, closes c = closes_args (c_args c).
Proof.
  intros c. unfold closes. induction (c_args c) as [|a r IH]; cbn [sent_args closes_args]; [reflexivity|].
  destruct (arg_refused a) eqn:E.
  - cbn [fst existsb]. rewrite E. unfold is_nonsync. destruct (a_form a); reflexivity.
  - destruct (sent_args r) as [w b]. cbn [fst existsb] in *. rewrite E. cbn [andb orb]. exact IH.
Qed.

Lemma args_tail_nonatom : forall args tail, nonatom (args_tail args tail).
Proof. intros [|a r] tail; cbn [args_tail]; reflexivity. Qed.

Lemma step_mailbox : forall c al tail a r (f : bytes -> bytes -> sres hok),
  wf_arg true a = true ->
  (arg_refused a = false -> forall m, In m (arg_strs a) ->
     rres c al tail (closes_args r) (f m (args_tail r tail))) ->
  rres c al tail (closes_args (a :: r))
    (bind (s_sp (args_tail (a :: r) tail)) (fun _ r1 => bind (s_mailbox r1) f)).
Proof.
  intros c al tail a r f Hw Hk. cbn [args_tail closes_args].
  eapply bind_ok_rres; [apply (sp_arg _ _ _ Hw)|].
  destruct (arg_refused a) eqn:E.
  - eapply bind_refused_rres; [apply (mailbox_arg_refused _ _ _ Hw E)|].
    unfold is_nonsync, after_refused. destruct (a_form a); intros; try discriminate; reflexivity.
  - destruct (mailbox_arg_ok a (args_tail r tail) Hw E (args_tail_nonatom _ _)) as (k & m & Hm & Hin).
    eapply bind_ok_rres; [exact Hm|]. apply Hk; auto.
Qed.

Lemma step_astring : forall mb c al tail a r (f : bytes -> bytes -> sres hok),
  wf_arg mb a = true ->
  (arg_refused a = false -> rres c al tail (closes_args r) (f (a_val a) (args_tail r tail))) ->
  rres c al tail (closes_args (a :: r))
    (bind (s_sp (args_tail (a :: r) tail)) (fun _ r1 => bind (s_astring r1) f)).
Proof.
  intros mb c al tail a r f Hw Hk. cbn [args_tail closes_args].
  eapply bind_ok_rres; [apply (sp_arg _ _ _ Hw)|].
  destruct (arg_refused a) eqn:E.
  - eapply bind_refused_rres; [apply (astring_arg_refused _ _ _ Hw E)|].
    unfold is_nonsync, after_refused. destruct (a_form a); intros; try discriminate; reflexivity.
  - destruct (astring_arg_ok _ a (args_tail r tail) Hw E (args_tail_nonatom _ _)) as (k & Hm).
    eapply bind_ok_rres; [exact Hm|]. apply Hk; auto.
Qed.

Lemma val_in_strs : forall a, In (a_val a) (arg_strs a).
Proof. intros. unfold arg_strs. cbn [app In]. auto. Qed.

Lemma arg_values_one : forall c, arg_values [c] = flat_map arg_strs (c_args c).
Proof. intros. unfold arg_values. cbn [flat_map]. rewrite app_nil_r. reflexivity. Qed.

Ltac callsok_tac :=
  unfold callsok; cbn [In app]; let k := fresh "k" in let x := fresh "x" in
  let Hk := fresh "Hk" in let Hx := fresh "Hx" in
  intros k x Hk Hx; repeat destruct Hk as [Hk|Hk]; subst; cbn [call_strings In] in Hx;
  intuition (subst; auto).

Lemma handle_wf : forall cfg conn c tail, wf_cmd c = true ->
  exists r, handle_cmd cfg conn (c_name c) (args_tail (c_args c) tail) = finish (st conn) r /\
            rres conn (arg_values [c]) tail (closes_args (c_args c)) r.
Proof.
  intros cfg conn c tail Hwf. unfold wf_cmd in Hwf. apply andb_true_iff in Hwf. destruct Hwf as [_ Hwf].
  destruct (arity (c_name c)) as [n|] eqn:Ea; [|discriminate].
  apply andb_true_iff in Hwf. destruct Hwf as [Hlen Hargs]. apply Nat.eqb_eq in Hlen.
  rewrite arg_values_one. unfold is_mailbox_cmd in Hargs.
  apply arity_cases in Ea. cbv zeta in Ea.
  destruct Ea as [[-> Hn]|[[-> Hn]|[-> Hn]]].
  - destruct (c_args c) as [|a l]; [|discriminate]. cbn [args_tail closes_args flat_map].
    destruct Hn as [Hn|[Hn|[Hn|[Hn|[Hn|Hn]]]]].
    + eexists; split; [apply hc_noop; exact Hn|]. unfold just_crlf.
      eapply bind_ok_rres; [apply crlf_tail|]. apply done_rres; [discriminate|auto|apply callsok_nil].
    + eexists; split; [apply hc_check; exact Hn|]. unfold just_crlf.
      eapply bind_ok_rres; [apply crlf_tail|]. apply done_rres; [discriminate|auto|apply callsok_nil].
    + eexists; split; [apply hc_capability; exact Hn|]. unfold just_crlf.
      eapply bind_ok_rres; [apply crlf_tail|]. apply done_rres; [discriminate|auto|apply callsok_nil].
    + eexists; split; [apply hc_expunge; exact Hn|]. unfold just_crlf.
      eapply bind_ok_rres; [apply crlf_tail|]. apply guard_rres; [auto|callsok_tac].
    + eexists; split; [apply hc_close; exact Hn|]. unfold just_crlf.
      eapply bind_ok_rres; [apply crlf_tail|]. apply guard_rres; [discriminate|callsok_tac].
    + eexists; split; [apply hc_unselect; exact Hn|]. unfold just_crlf.
      eapply bind_ok_rres; [apply crlf_tail|]. apply guard_rres; [discriminate|callsok_tac].
  - destruct (c_args c) as [|a [|b l]]; try discriminate. cbn [forallb] in Hargs.
    rewrite andb_true_r in Hargs. cbn [flat_map]. rewrite app_nil_r.
    destruct Hn as [Hn|[Hn|[Hn|[Hn|[Hn|Hn]]]]]; rewrite Hn in Hargs;
      change (negb (name_is _ "LOGIN")) with true in Hargs.
    + eexists; split; [apply hc_delete; exact Hn|]. unfold h_mailbox1.
      apply step_mailbox; [exact Hargs|]. intros Hr m Hm. cbn [args_tail closes_args].
      eapply bind_ok_rres; [apply crlf_tail|]. apply guard_rres; [auto|callsok_tac].
    + eexists; split; [apply hc_subscribe; exact Hn|]. unfold h_mailbox1.
      apply step_mailbox; [exact Hargs|]. intros Hr m Hm. cbn [args_tail closes_args].
      eapply bind_ok_rres; [apply crlf_tail|]. apply guard_rres; [auto|callsok_tac].
    + eexists; split; [apply hc_unsubscribe; exact Hn|]. unfold h_mailbox1.
      apply step_mailbox; [exact Hargs|]. intros Hr m Hm. cbn [args_tail closes_args].
      eapply bind_ok_rres; [apply crlf_tail|]. apply guard_rres; [auto|callsok_tac].
    + eexists; split; [apply (hc_select _ _ _ _ false); exact Hn|].
      apply step_mailbox; [exact Hargs|]. intros Hr m Hm. cbn [args_tail closes_args].
      eapply bind_ok_rres; [apply crlf_tail|]. cbv zeta.
      apply guard_rres; [discriminate|destruct (st conn); callsok_tac].
    + eexists; split; [apply (hc_select _ _ _ _ true); exact Hn|].
      apply step_mailbox; [exact Hargs|]. intros Hr m Hm. cbn [args_tail closes_args].
      eapply bind_ok_rres; [apply crlf_tail|]. cbv zeta.
      apply guard_rres; [discriminate|destruct (st conn); callsok_tac].
    + eexists; split; [apply hc_create; exact Hn|].
      apply step_mailbox; [exact Hargs|]. intros Hr m Hm. cbn [args_tail closes_args].
      rewrite dec_sp_crlf.
      eapply bind_ok_rres; [apply crlf_tail|]. apply guard_rres; [auto|callsok_tac].
  - destruct (c_args c) as [|a [|b [|b' l]]]; try discriminate. cbn [forallb] in Hargs.
    rewrite andb_true_r in Hargs. apply andb_true_iff in Hargs. destruct Hargs as [Ha Hb].
    cbn [flat_map]. rewrite app_nil_r.
    assert (Hia : forall x, In x (arg_strs a) -> In x (arg_strs a ++ arg_strs b)) by (intros; apply in_or_app; auto).
    assert (Hib : forall x, In x (arg_strs b) -> In x (arg_strs a ++ arg_strs b)) by (intros; apply in_or_app; auto).
    pose proof (val_in_strs a) as Hva. pose proof (val_in_strs b) as Hvb.
    destruct Hn as [Hn|Hn]; rewrite Hn in Ha, Hb.
    + eexists; split; [apply hc_login; exact Hn|].
      eapply step_astring; [exact Ha|]. intros Hra.
      eapply step_astring; [exact Hb|]. intros Hrb. cbn [args_tail closes_args].
      eapply bind_ok_rres; [apply crlf_tail|].
      destruct (negb (check_state SNotAuth conn)); [apply done_rres; [discriminate|auto|apply callsok_nil]|].
      destruct (negb (f_insecure cfg)); [apply done_rres; [discriminate|auto|apply callsok_nil]|].
      apply done_rres; [discriminate|discriminate|callsok_tac].
    + change (negb (name_is _ "LOGIN")) with true in Ha, Hb.
      eexists; split; [apply hc_rename; exact Hn|].
      apply step_mailbox; [exact Ha|]. intros Hra ma Hma.
      apply step_mailbox; [exact Hb|]. intros Hrb mb Hmb. cbn [args_tail closes_args].
      eapply bind_ok_rres; [apply crlf_tail|]. apply guard_rres; [auto|callsok_tac].
Qed.

(* ---------------------------------------------------------------- *)
(* readCommand on a rendered command *)
Lemma out_tags_app : forall a b, out_tags (a ++ b) = out_tags a ++ out_tags b.
Proof. intros. unfold out_tags. apply flat_map_app. Qed.

Lemma out_tags_notag : forall l, notagb l = true -> out_tags l = [].
Proof.
  induction l as [|o l IH]; cbn [notagb forallb]; intros H; [reflexivity|].
  apply andb_true_iff in H. destruct H as [Ho Hl]. unfold out_tags. cbn [flat_map].
  fold (out_tags l). rewrite (IH Hl). destruct o; try discriminate; reflexivity.
Qed.

Lemma out_tags_push : forall (bye : bool) t cls outs old, notagb outs = true ->
  out_tags (rev ((if bye then [OBye] else []) ++ OTagged t cls :: rev outs ++ old)) = out_tags (rev old) ++ [t].
Proof.
  intros bye t cls outs old H. rewrite rev_app_distr. cbn [rev]. rewrite rev_app_distr, rev_involutive.
  rewrite !out_tags_app. rewrite (out_tags_notag _ H). rewrite app_nil_r.
  destruct bye; cbn; rewrite ?app_nil_r; reflexivity.
Qed.

Lemma finish_rres : forall c al tail cl r, rres c al tail cl r ->
  let h := finish (st c) r in
  callsok al (h_calls h) /\
  if cl then h_close h = true
  else h_close h = false /\ h_crlf h = true /\ h_rest h = tail /\ h_cls h <> 3 /\
       (st c <> SLogout -> h_st h <> SLogout).
Proof.
  intros c al tail cl r H. unfold rres in H.
  destruct cl; destruct r as [o rest k|rest|cls cl' k rest]; cbn [rclose rsum] in H; try contradiction;
    cbn [finish h_calls h_close h_crlf h_rest h_cls h_st].
  - split; [apply callsok_nil|exact H].
  - destruct H as (H1 & H2 & H3 & H4). auto 10.
  - destruct H as (-> & -> & ->). split; [apply callsok_nil|]. cbn. repeat split; auto; discriminate.
Qed.

Lemma dec_sp_atom : forall v more, v <> [] -> forallb is_atom_char v = true ->
  dec_sp (SP_ :: v ++ more) = DOk tt (v ++ more).
Proof.
  intros [|y t] more Hn Ha; [congruence|]. cbn [forallb] in Ha. apply andb_true_iff in Ha. destruct Ha as [Hy _].
  destruct (atom_char_facts y Hy) as (_ & _ & _ & _ & _ & _ & Hcr & Hlf & _).
  unfold dec_sp. cbn [app]. change (beqb SP_ SP_) with true. cbv iota. rewrite Hcr, Hlf. reflexivity.
Qed.

Lemma read_cmd_wf : forall cfg f total c tail, wf_cmd c = true -> st (fs_conn f) <> SLogout ->
  let s := render_cmd c ++ tail in
  exists f', read_command cfg f total s = (f', if closes c then None else Some tail) /\
    fs_starts f' = (total - N.of_nat (length s)) :: fs_starts f /\
    out_tags (rev (fs_out f')) = out_tags (rev (fs_out f)) ++ [c_tag c] /\
    (closes c = false -> st (fs_conn f') <> SLogout) /\
    (forall k, In k (fs_calls f') -> In k (fs_calls f) \/
               forall x, In x (call_strings k) -> In x (arg_values [c])).
Proof.
  intros cfg f total c tail Hwf Hst s.
  destruct (handle_wf cfg (fs_conn f) c tail Hwf) as (r & Hh & Hr).
  apply finish_rres in Hr. cbv zeta in Hr. rewrite <- Hh in Hr. clear Hh r.
  pose proof (handle_cmd_good cfg (fs_conn f) (c_name c) (args_tail (c_args c) tail)) as [_ Hnt].
  rewrite <- closes_closes_args in Hr.
  unfold wf_cmd in Hwf. apply andb_true_iff in Hwf. destruct Hwf as [Htag Hwf].
  destruct (arity (c_name c)) as [n|] eqn:Ea; [|discriminate]. clear Hwf.
  destruct (wf_name _ _ Ea) as (Hn1 & Hn2 & Hn3).
  destruct (tag_ok_spec _ Htag) as [Htag' Hplus].
  destruct (atom_ok_spec _ Htag') as [Ht1 Ht2].
  subst s. rewrite render_cmd_tail.
  unfold read_command.
  brw (dec_atom_app (c_tag c) (SP_ :: c_name c ++ args_tail (c_args c) tail) Ht1 Ht2 eq_refl).
  brw (dec_sp_atom (c_name c) (args_tail (c_args c) tail) Hn1 Hn2).
  brw (dec_atom_app (c_name c) (args_tail (c_args c) tail) Hn1 Hn2 (args_tail_nonatom _ _)).
  brw Hplus. rewrite Hn3. cbv zeta.
  set (h := handle_cmd cfg (fs_conn f) (c_name c) (args_tail (c_args c) tail)) in *.
  destruct Hr as [Hcalls Hr].
  assert (Hcalls' : forall f0calls k, In k (rev (h_calls h) ++ f0calls) -> In k f0calls \/
             forall x, In x (call_strings k) -> In x (arg_values [c])).
  { intros f0calls k Hk. apply in_app_or in Hk. destruct Hk as [Hk|Hk]; [right|left; exact Hk].
    intros x Hx. apply (Hcalls k x); [apply in_rev; exact Hk|exact Hx]. }
  destruct (closes c).
  - destruct (discard_line (h_crlf h) (h_rest h)) as [rest ann]. rewrite Hr. cbn [orb]. rewrite orb_true_r.
    eexists. split; [reflexivity|]. cbn [fs_starts fs_out fs_calls fs_conn].
    split; [reflexivity|]. split; [exact (out_tags_push true _ _ _ _ Hnt)|]. split; [discriminate|].
    apply Hcalls'.
  - destruct Hr as (Hc & Hcr & Hrest & Hcls & Hs). rewrite Hcr, Hrest, Hc. cbn [discard_line orb andb].
    apply N.eqb_neq in Hcls. rewrite Hcls. specialize (Hs Hst).
    destruct (h_st h) eqn:Est; try congruence.
    all: eexists; (split; [reflexivity|]); cbn [fs_starts fs_out fs_calls fs_conn st];
      (split; [reflexivity|]); (split; [exact (out_tags_push false _ _ _ _ Hnt)|]); (split; [discriminate|]);
      apply Hcalls'.
Qed.


Lemma render_cmd_nonnil : forall c, wf_cmd c = true -> (0 < length (render_cmd c))%nat.
Proof.
  intros c H. pose proof (render_cmd_tail c []) as E. rewrite app_nil_r in E. rewrite E.
  unfold wf_cmd in H. apply andb_true_iff in H. destruct H as [H _].
  destruct (tag_ok_spec _ H) as [H' _].
  destruct (atom_ok_spec _ H') as [Hn _]. destruct (c_tag c); [congruence|]. cbn [app length]. lia.
Qed.

Lemma arg_values_cons : forall c cs, arg_values (c :: cs) = arg_values [c] ++ arg_values cs.
Proof. intros. unfold arg_values. cbn [flat_map]. rewrite app_nil_r. reflexivity. Qed.

Lemma serve_wf : forall cs cfg fuel f total, forallb wf_cmd cs = true -> st (fs_conn f) <> SLogout ->
  (length (render cs) < fuel)%nat -> N.of_nat (length (render cs)) <= total ->
  let f' := serve_bytes fuel cfg f total (render cs) in
  rev (fs_starts f') = rev (fs_starts f) ++ starts_from (total - N.of_nat (length (render cs))) cs /\
  out_tags (rev (fs_out f')) = out_tags (rev (fs_out f)) ++ tags_upto cs /\
  (forall k, In k (fs_calls f') -> In k (fs_calls f) \/
             forall x, In x (call_strings k) -> In x (arg_values cs)).
Proof.
  induction cs as [|c cs IH]; intros cfg fuel f total Hwf Hst Hfuel Htot.
  - cbn [render flat_map] in *. destruct fuel; [cbn in Hfuel; lia|]. cbn [serve_bytes starts_from tags_upto].
    rewrite !app_nil_r. auto.
  - cbn [forallb] in Hwf. apply andb_true_iff in Hwf. destruct Hwf as [Hc Hcs].
    change (render (c :: cs)) with (render_cmd c ++ render cs) in *.
    pose proof (render_cmd_nonnil c Hc) as Hpos.
    destruct fuel as [|fuel]; [lia|]. cbn [serve_bytes].
    destruct (read_cmd_wf cfg f total c (render cs) Hc Hst) as (f1 & Hrc & Hs1 & Ho1 & Hst1 & Hc1).
    cbv zeta in Hrc, Hs1.
    destruct (render_cmd c ++ render cs) as [|x0 s0] eqn:Es.
    { apply (f_equal (@length _)) in Es. rewrite app_length in Es. cbn [length] in Es. lia. }
    rewrite <- Es in *. rewrite Hrc. cbn [starts_from tags_upto]. rewrite arg_values_cons.
    rewrite app_length in *.
    destruct (closes c).
    + rewrite Hs1. cbn [rev]. split; [reflexivity|]. split; [exact Ho1|].
      intros k Hk. destruct (Hc1 k Hk) as [H|H]; [left; exact H|right].
      intros x Hx. apply in_or_app. left. auto.
    + destruct (IH cfg fuel f1 total Hcs (Hst1 eq_refl)) as (A1 & A2 & A3); [lia|lia|].
      split; [|split].
      * rewrite A1, Hs1. cbn [rev]. rewrite <- app_assoc. cbn [app]. do 3 f_equal. lia.
      * rewrite A2, Ho1. rewrite <- app_assoc. reflexivity.
      * intros k Hk. destruct (A3 k Hk) as [H|H].
        -- destruct (Hc1 k H) as [H'|H']; [left; exact H'|right].
           intros x Hx. apply in_or_app. left. auto.
        -- right. intros x Hx. apply in_or_app. right. auto.
Qed.

