(* Proofs/MemViewSpec.v — specification vocabulary for C08 (no proofs here).

   Two observers of what one connection receives:
     * [wire_step]: uses nothing but what is on the wire (the command the client sent and
       the responses): it keeps the announced message count and rejects a response that
       breaks one of the first three clauses of the property;
     * [ev_view]: the same with message identity: it keeps the list of messages (by UID)
       the client has been told about, using the ghost UID list of each EXISTS, and also
       rejects a FETCH whose UID is not the UID of the message with that number.
   The theorems say that no reachable stream is ever rejected, and relate the second
   observer's list to the mailbox.                                                          *)
From GoImap.Base Require Import Bytes.
From GoImap.Model Require Import NumSet Tracker MemView.
From GoImap.Proofs Require Import TrackerSpec.
Open Scope N_scope.

(* a response together with the command of the receiving connection it was written in
   answer to (None: written by the IDLE goroutine while another session's command ran) *)
Definition item := (option cmd * ev)%type.

Definition nonuid_fss (c : option cmd) : bool :=
  match c with
  | Some (CFetch false _ _ _) | Some (CStore false _ _ _) | Some (CSearch false _ _ _) => true
  | _ => false
  end.
Definition is_select (c : option cmd) : bool := match c with Some (CSelect _ _) => true | _ => false end.
Definition is_unselect (c : option cmd) : bool :=
  match c with Some CClose | Some CUnselect => true | _ => false end.
Definition is_ok (s : status) : bool := match s with StOK => true | _ => false end.
Definition in_range (k n : N) : bool := (1 <=? n) && (n <=? k).

(* ---- wire level: the announced count (None = no mailbox selected) ------------------------- *)
Definition wire_step (cnt : option N) (i : item) : option (option N) :=
  let '(ctx, e) := i in
  match e with
  | EvExists n _ =>
      match cnt with
      | None => if is_select ctx then Some (Some n) else None
      | Some k => if k <=? n then Some (Some n) else None       (* EXISTS never lowers the count *)
      end
  | EvExpunge n =>
      match cnt with
      | Some k => if in_range k n && negb (nonuid_fss ctx) then Some (Some (k - 1)) else None
      | None => None
      end
  | EvFetch n _ _ =>
      match cnt with Some k => if in_range k n then Some cnt else None | None => None end
  | EvSearch false nums =>
      match cnt with Some k => if forallb (in_range k) nums then Some cnt else None | None => None end
  | EvClosed => Some None
  | EvDone st _ => Some (if is_ok st && is_unselect ctx then None else cnt)
  | _ => Some cnt
  end.

Fixpoint fold_opt {S I} (f : S -> I -> option S) (s : S) (l : list I) : option S :=
  match l with
  | [] => Some s
  | i :: r => match f s i with Some s' => fold_opt f s' r | None => None end
  end.
Definition wire_run (l : list item) : option (option N) := fold_opt wire_step None l.

(* ---- with identity: the client's message list, by UID ---------------------------------- *)
Definition oN_eqb (a b : option N) : bool :=
  match a, b with Some x, Some y => x =? y | None, None => true | _, _ => false end.
Definition disjointb (a b : list N) : bool := forallb (fun x => negb (existsb (N.eqb x) b)) a.

Definition ev_view (v : option (list N)) (i : item) : option (option (list N)) :=
  let '(ctx, e) := i in
  match e with
  | EvExists n ids =>
      match v with
      | None => if is_select ctx && (n =? len ids) then Some (Some ids) else None
      | Some l => if (n =? len l + len ids) && disjointb ids l then Some (Some (l ++ ids)) else None
      end
  | EvExpunge n =>
      match v with
      | Some l => if in_range (len l) n && negb (nonuid_fss ctx)
                  then Some (Some (remove_at (N.to_nat n) l)) else None
      | None => None
      end
  | EvFetch n uid _ =>
      match v with
      | Some l => if oN_eqb (nth1 l n) (Some uid) then Some v else None
      | None => None
      end
  | EvSearch false nums =>
      match v with Some l => if forallb (in_range (len l)) nums then Some v else None | None => None end
  | EvClosed => Some None
  | EvDone st _ => Some (if is_ok st && is_unselect ctx then None else v)
  | _ => Some v
  end.
Definition view_run (l : list item) : option (option (list N)) := fold_opt ev_view None l.

(* the messages an EXPUNGE response removed from the client's list, and every message the
   client was ever told about, since the last SELECT *)
Definition ev_gone (s : option (list N) * list N * list N) (i : item)
  : option (option (list N) * list N * list N) :=
  let '(v, gone, told) := s in
  match ev_view v i with
  | None => None
  | Some v' =>
      Some (v',
            match snd i, v with
            | EvExpunge n, Some l => match nth1 l n with Some u => u :: gone | None => gone end
            | EvExists _ _, None => []
            | _, _ => gone
            end,
            match snd i, v with
            | EvExists _ ids, None => ids
            | EvExists _ ids, Some _ => told ++ ids
            | _, _ => told
            end)
  end.
Definition gone_run (l : list item) := fold_opt ev_gone (None, [], []) l.

(* ---- histories ---------------------------------------------------------------------------- *)
(* the log of a history: for each response, the connection it was written to and the command
   of that connection it answers (None for what the IDLE goroutines write) *)
Definition step_log (st : sys) (c : N) (cm : cmd) : sys * list (N * item) :=
  let '(st1, evs) := handle st c cm in
  let '(st2, l) := flush_idle st1 (conn_ids st1) in
  (st2, map (fun e => (c, (Some cm, e))) evs ++ map (fun x => (fst x, (None, snd x))) l).
Fixpoint run_log (st : sys) (h : list (N * cmd)) : sys * list (N * item) :=
  match h with
  | [] => (st, [])
  | (c, cm) :: r =>
      let '(st1, l1) := step_log st c cm in
      let '(st2, l2) := run_log st1 r in
      (st2, l1 ++ l2)
  end.
(* forgetting the annotation gives back the model's own run *)
Definition erase_log (l : list (N * item)) : list (N * ev) := map (fun x => (fst x, snd (snd x))) l.
Definition items_of (c : N) (l : list (N * item)) : list item :=
  map snd (filter (fun x => fst x =? c) l).

(* the tracker's ghost view of connection c's session: what the updates it has been sent,
   applied in order, make of the list it had when it selected the mailbox *)
Definition view_of (st : sys) (c : N) : option (list N) :=
  match sel_of st c with
  | Some (_, mb) => match find_sess c (t_sess (mb_tr mb)) with Some s => Some (s_view s) | None => None end
  | None => None
  end.
Definition uids_of (mb : mbox) : list N := map m_uid (mb_msgs mb).
