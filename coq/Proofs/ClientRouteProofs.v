(* Proofs/ClientRouteProofs.v — delivery of data responses to pending commands (C12). *)
From Coq Require Import Lia Permutation Sorted.
From Coq Require Import ZifyN ZifyNat ZifyBool.
From GoImap.Base Require Import Bytes.
From GoImap.Model Require Import ClientConn.
From GoImap.Proofs Require Import ClientConnProofs.
Open Scope N_scope.

(* ------------------------------------------------------------------ list helpers *)

Lemma sorted_snoc : forall (l : list N) y, StronglySorted N.lt l ->
  (forall x, In x l -> x < y) -> StronglySorted N.lt (l ++ [y]).
Proof.
  induction l as [|a r IH]; intros y S H; simpl.
  - constructor; constructor.
  - inversion S as [|a' r' Sr Fa]; subst. constructor.
    + apply IH; [exact Sr|]. intros x Hx. apply H. right; exact Hx.
    + apply Forall_app. split.
      * exact Fa.
      * constructor; [|constructor]. apply H. left; reflexivity.
Qed.

Lemma filter_none : forall (A : Type) (f : A -> bool) (l : list A),
  (forall x, In x l -> f x = false) -> filter f l = [].
Proof.
  induction l as [|a r IH]; intro H; simpl; [reflexivity|].
  rewrite (H a (or_introl eq_refl)). apply IH. intros x Hx. apply H. right; exact Hx.
Qed.

(* ------------------------------------------------------------------ take_tag / find on sorted lists *)

Lemma take_tag_sorted : forall t l p rest, take_tag t l = Some (p, rest) ->
  StronglySorted N.lt (map p_tag l) -> StronglySorted N.lt (map p_tag rest).
Proof.
  induction l as [|q r IH]; cbn [take_tag map]; intros p rest H S; [discriminate|].
  inversion S as [|a' r' Sr Fa]; subst.
  destruct (p_tag q =? t).
  - inversion H; subst. exact Sr.
  - destruct (take_tag t r) as [[q' r1]|] eqn:T; [|discriminate].
    inversion H; subst. cbn [map]. constructor.
    + eapply IH; [reflexivity|exact Sr].
    + destruct (take_tag_spec _ _ _ _ T) as [_ P].
      rewrite Forall_forall in *. intros x Hx. apply Fa.
      apply (Permutation_in _ (Permutation_sym P)). right; exact Hx.
Qed.

Lemma find_sorted_min : forall (f : pcmd -> bool) l p,
  StronglySorted N.lt (map p_tag l) -> find f l = Some p ->
  In p l /\ f p = true /\ (forall q, In q l -> f q = true -> p_tag p <= p_tag q).
Proof.
  induction l as [|a r IH]; cbn [find map]; intros p S H; [discriminate|].
  inversion S as [|a' r' Sr Fa]; subst.
  destruct (f a) eqn:Fa'.
  - inversion H; subst. split; [left; reflexivity|]. split; [exact Fa'|].
    intros q [->|Hq] _; [lia|].
    rewrite Forall_forall in Fa. assert (p_tag p < p_tag q); [|lia].
    apply Fa. apply in_map; exact Hq.
  - destruct (IH p Sr H) as (A & B & C). split; [right; exact A|]. split; [exact B|].
    intros q [->|Hq] Hf; [congruence|]. apply C; assumption.
Qed.

Lemma find_some_ex : forall (f : pcmd -> bool) l,
  (exists p, In p l /\ f p = true) -> exists q, find f l = Some q.
Proof.
  intros f l (p & Hp & Hf). destruct (find f l) as [q|] eqn:F; [exists q; reflexivity|].
  rewrite (find_none f l F p Hp) in Hf. discriminate.
Qed.

(* ------------------------------------------------------------------ invariants over reachable clients *)

(* pending commands are in issue order: their tags strictly increase *)
Definition SInv (c : client) : Prop := StronglySorted N.lt (pending_tags c).

Lemma SInv_init : SInv init_client.
Proof. unfold SInv, pending_tags; simpl. constructor. Qed.

Lemma pending_le_tag : forall c t, Inv c -> In t (pending_tags c) -> 1 <= t <= c_tag c.
Proof.
  intros c t (_ & R & _) H. apply R. unfold tags. apply in_or_app; left; exact H.
Qed.

Lemma SInv_step : forall c e, Inv c -> SInv c -> SInv (step c e).
Proof.
  intros c e I S. unfold SInv in *. destruct (c_closed c) eqn:Hc.
  - destruct (step_shape_closed c e Hc) as [-> | (A & _)]; [exact S|].
    unfold pending_tags; rewrite A; simpl; constructor.
  - destruct (step_shape_open c e Hc)
      as [(A & _) | [(A & _) | [(t & s & p & rest & T & A & _) | (A & _)]]].
    + rewrite A; exact S.
    + rewrite A. apply sorted_snoc; [exact S|].
      intros x Hx. apply (pending_le_tag c x I) in Hx. lia.
    + unfold pending_tags; rewrite A. eapply take_tag_sorted; [exact T|exact S].
    + unfold pending_tags; rewrite A; simpl; constructor.
Qed.

(* the two invariants together, as needed along a run *)
Definition RInv (c : client) : Prop := Inv c /\ SInv c.

Lemma RInv_step : forall c e, RInv c -> RInv (step c e).
Proof. intros c e [I S]. split; [apply Inv_step; exact I | apply SInv_step; assumption]. Qed.

Lemma RInv_fold : forall evs c, RInv c -> RInv (fold_left step evs c).
Proof. induction evs as [|e evs IH]; simpl; intros c H; auto using RInv_step. Qed.

Lemma RInv_run : forall evs, RInv (run evs).
Proof. intro evs. unfold run. apply RInv_fold. split; [apply Inv_init|apply SInv_init]. Qed.

Lemma pending_sorted : forall evs, StronglySorted N.lt (pending_tags (run evs)).
Proof. intro evs. exact (proj2 (RInv_run evs)). Qed.

Lemma closed_no_pending : forall evs, c_closed (run evs) = true -> c_pending (run evs) = [].
Proof. intros evs H. destruct (Inv_run evs) as (_ & _ & CL). exact (CL H). Qed.

(* the tag counter never decreases *)
Lemma tag_step_mono : forall c e, c_tag c <= c_tag (step c e).
Proof.
  intros c e. destruct (c_closed c) eqn:Hc.
  - destruct (step_shape_closed c e Hc) as [-> | (_ & _ & C & _)]; lia.
  - destruct (step_shape_open c e Hc)
      as [(_ & _ & C & _) | [(_ & _ & C & _) | [(t & s & p & rest & _ & _ & _ & C & _) | (_ & _ & C & _)]]];
      lia.
Qed.

Lemma tag_fold_mono : forall evs c, c_tag c <= c_tag (fold_left step evs c).
Proof.
  induction evs as [|e evs IH]; simpl; intro c; [lia|].
  specialize (IH (step c e)). pose proof (tag_step_mono c e). lia.
Qed.

(* a completed tag stays completed *)
Lemma done_tags_step : forall c e t, In t (done_tags c) -> In t (done_tags (step c e)).
Proof.
  intros c e t H. unfold done_tags in *. apply in_map_iff in H. destruct H as (x & <- & Hx).
  apply in_map. apply done_step; exact Hx.
Qed.

(* a completed tag is not pending *)
Lemma done_not_pending : forall c t, Inv c -> In t (done_tags c) -> ~ In t (pending_tags c).
Proof.
  intros c t (ND & _ & _) Hd Hp. unfold tags in ND.
  induction (pending_tags c) as [|a r IH]; [contradiction|].
  simpl in ND. inversion ND as [|a' r' Na Nr]; subst. destruct Hp as [->|Hp].
  - apply Na. apply in_or_app; right; exact Hd.
  - apply IH; assumption.
Qed.

(* ------------------------------------------------------------------ routing *)

Lemma first_tag_spec : forall f l t, first_tag f l = Some t ->
  exists p, find f l = Some p /\ p_tag p = t.
Proof.
  intros f l t H. unfold first_tag in H. destruct (find f l) as [p|]; [|discriminate].
  inversion H; subst. exists p; auto.
Qed.

Lemma route_spec : forall c e t n, In (t, n) (route c e) ->
  c_closed c = false /\
  exists f data p, wants e = Some (f, data) /\ find f (c_pending c) = Some p /\ p_tag p = t /\ In n data.
Proof.
  intros c e t n H. unfold route in H.
  destruct (c_closed c); [contradiction|]. split; [reflexivity|].
  destruct (wants e) as [[f data]|]; [|contradiction].
  destruct (first_tag f (c_pending c)) as [t'|] eqn:F; [|contradiction].
  apply in_map_iff in H. destruct H as (m & E & Hm). inversion E; subst.
  destruct (first_tag_spec _ _ _ F) as (p & Fp & Tp).
  exists f, data, p. auto.
Qed.

Lemma route_pending : forall c e t n, In (t, n) (route c e) -> In t (pending_tags c).
Proof.
  intros c e t n H. destruct (route_spec c e t n H) as (_ & f & data & p & _ & F & <- & _).
  apply find_some in F. destruct F as [F _]. unfold pending_tags. apply in_map; exact F.
Qed.

Lemma deliveries_from_app : forall evs evs' c,
  deliveries_from c (evs ++ evs') =
  deliveries_from c evs ++ deliveries_from (fold_left step evs c) evs'.
Proof.
  induction evs as [|e evs IH]; intros evs' c; cbn [deliveries_from app fold_left]; [reflexivity|].
  rewrite IH, app_assoc. reflexivity.
Qed.

(* from a state in which t is completed nothing is ever delivered to t *)
Lemma frozen_from : forall evs c t, Inv c -> In t (done_tags c) ->
  filter (fun d => fst d =? t) (deliveries_from c evs) = [].
Proof.
  induction evs as [|e evs IH]; intros c t I Hd; cbn [deliveries_from]; [reflexivity|].
  rewrite filter_app, (IH (step c e) t (Inv_step c e I) (done_tags_step c e t Hd)), app_nil_r.
  apply filter_none. intros [t' n] Hx. cbn [fst].
  destruct (N.eqb_spec t' t) as [->|]; [|reflexivity].
  exfalso. apply (done_not_pending c t I Hd). eapply route_pending; exact Hx.
Qed.

(* nothing is delivered to a tag above the counter reached at the end *)
Lemma unissued_from : forall evs c t, Inv c -> c_tag (fold_left step evs c) < t ->
  filter (fun d => fst d =? t) (deliveries_from c evs) = [].
Proof.
  induction evs as [|e evs IH]; intros c t I Ht; cbn [deliveries_from]; [reflexivity|].
  cbn [fold_left] in Ht.
  rewrite filter_app, (IH (step c e) t (Inv_step c e I) Ht), app_nil_r.
  apply filter_none. intros [t' n] Hx. cbn [fst].
  destruct (N.eqb_spec t' t) as [->|]; [|reflexivity].
  exfalso. apply route_pending in Hx. apply (pending_le_tag c t I) in Hx.
  pose proof (tag_step_mono c e). pose proof (tag_fold_mono evs (step c e)). lia.
Qed.

(* ------------------------------------------------------------------ main results *)

(* a datum is delivered to the OLDEST pending command of the matching kind (and to a pending one) *)
Lemma data_to_oldest_pending : forall evs e t n f data,
  wants e = Some (f, data) -> In (t, n) (route (run evs) e) ->
  In n data /\
  exists p, In p (c_pending (run evs)) /\ p_tag p = t /\ f p = true /\
            (forall q, In q (c_pending (run evs)) -> f q = true -> t <= p_tag q).
Proof.
  intros evs e t n f data W H.
  destruct (route_spec _ _ _ _ H) as (_ & f' & data' & p & W' & F & Tp & Hn).
  rewrite W in W'. inversion W'; subst f' data'. split; [exact Hn|].
  destruct (find_sorted_min f _ p (pending_sorted evs) F) as (A & B & C).
  exists p. split; [exact A|]. split; [exact Tp|]. split; [exact B|].
  intros q Hq Hf. rewrite <- Tp. apply C; assumption.
Qed.

(* nothing is dropped while a command of that kind is pending, and order is preserved *)
Lemma data_complete : forall evs e f data,
  wants e = Some (f, data) -> c_closed (run evs) = false ->
  (exists p, In p (c_pending (run evs)) /\ f p = true) ->
  map snd (route (run evs) e) = data.
Proof.
  intros evs e f data W Hc Hp. unfold route. rewrite Hc, W.
  destruct (find_some_ex f _ Hp) as (q & F). unfold first_tag. rewrite F.
  rewrite map_map. cbn [snd]. apply map_id.
Qed.

(* once a command has completed nothing more is delivered to it *)
Lemma collected_frozen : forall evs evs' t,
  In t (done_tags (run evs)) -> collected (evs ++ evs') t = collected evs t.
Proof.
  intros evs evs' t Hd. unfold collected, deliveries.
  rewrite deliveries_from_app, filter_app.
  fold (run evs). rewrite (frozen_from evs' (run evs) t (Inv_run evs) Hd), app_nil_r.
  reflexivity.
Qed.

(* nothing is delivered to a tag that has not been issued *)
Lemma collected_only_issued : forall evs t, c_tag (run evs) < t -> collected evs t = [].
Proof.
  intros evs t Ht. unfold collected, deliveries.
  rewrite (unissued_from evs init_client t Inv_init Ht). reflexivity.
Qed.
