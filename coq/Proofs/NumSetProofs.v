(* Proofs/NumSetProofs.v — proofs for C15 about Model/NumSet.v. *)
From Coq Require Import Sorting.Sorted.
From GoImap.Base Require Import Bytes.
From GoImap.Model Require Import NumSet.
From GoImap.Proofs Require Import NumSetSpec.
Open Scope N_scope.

(* every reachable set: no crash, canonical form *)
Lemma ops_canon : forall ops, forallb wf_op ops = true ->
  exists s, run_ops ops = Some s /\ canon s = true.
Admitted.

(* membership = union of what was inserted, for every probe (0 = "*") *)
Lemma ops_den : forall ops s q, forallb wf_op ops = true -> run_ops ops = Some s -> q < M32 ->
  den s q = existsb (fun o => op_den o q) ops.
Admitted.

(* the binary search agrees with the denotation *)
Lemma contains_spec : forall s q, canon s = true -> q < M32 ->
  contains s q = Some (den s q && negb (q =? 0)).
Admitted.

Lemma dynamic_iff : forall s, canon s = true -> dynamic s = den s 0.
Admitted.

(* text form parses back to an equal set *)
Lemma string_parse : forall s, canon s = true -> s <> [] ->
  parse_set (to_string s) = Some (Some s).
Admitted.

(* the parser accepts exactly the RFC grammar, and the result has the written members *)
Lemma parse_accepts_grammar : forall t rs, g_set t rs ->
  exists s, parse_set t = Some (Some s) /\ canon s = true /\
            forall q, q < M32 -> den s q = existsb (fun r => rden r q) rs.
Admitted.

Lemma parse_only_grammar : forall t r, parse_set t = Some r -> exists rs, g_set t rs.
Admitted.

(* enumeration of a static set: exactly the members, ascending, also at 2^32-1 *)
Lemma nums_spec : forall s, canon s = true -> dynamic s = false ->
  exists l, nums s = NumsOk l /\ StronglySorted N.lt l /\
            forall q, In q l <-> (q <> 0 /\ den s q = true).
Admitted.

Lemma nums_dynamic : forall s, canon s = true -> dynamic s = true -> nums s = NumsNotStatic.
Admitted.
