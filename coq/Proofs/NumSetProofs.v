(* Proofs/NumSetProofs.v — proofs for C15 about Model/NumSet.v. *)
From Coq Require Import Sorting.Sorted.
From Coq Require Import ZifyN ZifyNat ZifyBool.
From GoImap.Base Require Import Bytes.
From GoImap.Model Require Import NumSet.
From GoImap.Proofs Require Import NumSetSpec NumSetLemmas NumSetInsert NumSetText.
Open Scope N_scope.
Local Opaque canon.

(* ------------------------------------------------------------------ *)
(* operations *)
Lemma wf_single : forall q, q < M32 -> wf_range (q, q) = true.
Proof. intros q Hq. rg_unfold. lia. Qed.

Lemma add_set_spec : forall t s, forallb wf_range t = true -> canon s = true ->
  exists s', add_set s t = Some s' /\ canon s' = true /\
    forall q, q < M32 -> den s' q = den s q || den t q.
Proof.
  induction t as [|v t IH]; intros s Ht Hc.
  - exists s. cbn [add_set]. split; [reflexivity|]. split; [exact Hc|].
    intros q _. rewrite den_nil, orb_false_r. reflexivity.
  - cbn [forallb] in Ht. apply andb_true_iff in Ht as [Hv Ht].
    destruct (insert_spec s v Hv Hc) as (s1 & E1 & Hc1 & Hd1).
    destruct (IH s1 Ht Hc1) as (s2 & E2 & Hc2 & Hd2).
    exists s2. cbn [add_set]. rewrite E1. split; [exact E2|]. split; [exact Hc2|].
    intros q Hq. rewrite (Hd2 q Hq), (Hd1 q Hq), den_cons, orb_assoc. reflexivity.
Qed.

Lemma apply_op_spec : forall o s, wf_op o = true -> canon s = true ->
  exists s', apply_op (Some s) o = Some s' /\ canon s' = true /\
    forall q, q < M32 -> den s' q = den s q || op_den o q.
Proof.
  intros [x|a b|t] s Ho Hc; cbn [apply_op op_den wf_op] in *.
  - apply N.ltb_lt in Ho. exact (insert_spec s (x, x) (wf_single x Ho) Hc).
  - apply andb_true_iff in Ho as [Ha Hb]. apply N.ltb_lt in Ha. apply N.ltb_lt in Hb.
    exact (insert_spec s (norm_range a b) (wf_norm_range a b Ha Hb) Hc).
  - exact (add_set_spec t s Ho Hc).
Qed.

Lemma fold_ops_spec : forall ops s0, forallb wf_op ops = true -> canon s0 = true ->
  exists s, fold_left apply_op ops (Some s0) = Some s /\ canon s = true /\
    forall q, q < M32 -> den s q = den s0 q || existsb (fun o => op_den o q) ops.
Proof.
  induction ops as [|o ops IH]; intros s0 Hw Hc.
  - exists s0. split; [reflexivity|]. split; [exact Hc|].
    intros q _. cbn [existsb]. rewrite orb_false_r. reflexivity.
  - cbn [forallb] in Hw. apply andb_true_iff in Hw as [Ho Hw].
    destruct (apply_op_spec o s0 Ho Hc) as (s1 & E1 & Hc1 & Hd1).
    destruct (IH s1 Hw Hc1) as (s2 & E2 & Hc2 & Hd2).
    exists s2. cbn [fold_left]. rewrite E1. split; [exact E2|]. split; [exact Hc2|].
    intros q Hq. rewrite (Hd2 q Hq), (Hd1 q Hq). cbn [existsb]. rewrite orb_assoc. reflexivity.
Qed.

(* every reachable set: no crash, canonical form *)
Lemma ops_canon : forall ops, forallb wf_op ops = true ->
  exists s, run_ops ops = Some s /\ canon s = true.
Proof.
  intros ops Hw. destruct (fold_ops_spec ops [] Hw canon_nil) as (s & E & Hc & _).
  exists s. split; [exact E|exact Hc].
Qed.

(* membership = union of what was inserted, for every probe (0 = "*") *)
Lemma ops_den : forall ops s q, forallb wf_op ops = true -> run_ops ops = Some s -> q < M32 ->
  den s q = existsb (fun o => op_den o q) ops.
Proof.
  intros ops s q Hw Hr Hq. destruct (fold_ops_spec ops [] Hw canon_nil) as (s' & E & _ & Hd).
  assert (E' : Some s' = Some s) by (transitivity (run_ops ops); [symmetry; exact E|exact Hr]).
  inversion E'; subst s'.
  rewrite (Hd q Hq), den_nil. reflexivity.
Qed.

(* the binary search agrees with the denotation *)
Lemma contains_spec : forall s q, canon s = true -> q < M32 ->
  contains s q = Some (den s q && negb (q =? 0)).
Proof.
  intros s q Hc Hq. unfold contains. rewrite (search_spec s q Hc).
  destruct (N.eq_dec q 0) as [->|Hq0].
  - cbn [N.eqb negb]. rewrite !andb_false_r. reflexivity.
  - rewrite (den_ff s q Hc Hq0 Hq). reflexivity.
Qed.

Lemma rden_zero : forall r, rden r 0 = (snd r =? 0).
Proof. intros [a b]. reflexivity. Qed.

Lemma dynamic_cons2 : forall r r' l, dynamic (r :: r' :: l) = dynamic (r' :: l).
Proof.
  intros r r' l. unfold dynamic. cbn [rev]. destruct (rev l) as [|x y]; reflexivity.
Qed.

Lemma dynamic_single : forall r, dynamic [r] = (snd r =? 0).
Proof. intros [a b]. reflexivity. Qed.

Lemma dynamic_iff : forall s, canon s = true -> dynamic s = den s 0.
Proof.
  induction s as [|r s IH]; intros Hc; [reflexivity|].
  destruct s as [|r' l].
  - rewrite dynamic_single, den_cons, den_nil, rden_zero, orb_false_r. reflexivity.
  - rewrite dynamic_cons2, (IH (canon_tail _ _ Hc)), (den_cons r), rden_zero.
    pose proof (canon_okhd _ _ Hc) as Hl. cbn [okhd] in Hl. unfold linka in Hl.
    apply andb_true_iff in Hl as [Hl _]. apply negb_true_iff in Hl. rewrite Hl. reflexivity.
Qed.

(* ------------------------------------------------------------------ *)
(* nums *)
Lemma nums_range_In : forall a b q, In q (nums_range a b) <-> a <= q /\ q < b + 1.
Proof.
  intros a b q. unfold nums_range. rewrite in_map_iff. split.
  - intros (i & Hi & Hin). apply in_seq in Hin. lia.
  - intros H. exists (N.to_nat (q - a)). split; [lia|]. apply in_seq. lia.
Qed.

Lemma map_seq_sorted : forall a n s,
  StronglySorted N.lt (map (fun i => a + N.of_nat i) (seq s n)).
Proof.
  induction n as [|n IH]; intros s; cbn [seq map]; constructor.
  - apply IH.
  - apply Forall_forall. intros x Hx. apply in_map_iff in Hx as (i & Hi & Hin).
    apply in_seq in Hin. lia.
Qed.

Lemma sorted_app : forall l1 l2 : list N, StronglySorted N.lt l1 -> StronglySorted N.lt l2 ->
  (forall x y, In x l1 -> In y l2 -> x < y) -> StronglySorted N.lt (l1 ++ l2).
Proof.
  induction l1 as [|x l1 IH]; intros l2 H1 H2 H; [exact H2|].
  cbn [app]. inversion H1 as [|? ? Hs Hf]; subst. constructor.
  - apply IH; auto. intros x' y Hx Hy. apply H; [right; exact Hx|exact Hy].
  - apply Forall_app. split; [exact Hf|].
    apply Forall_forall. intros y Hy. apply H; [left; reflexivity|exact Hy].
Qed.

Lemma nums_spec : forall s, canon s = true -> dynamic s = false ->
  exists l, nums s = NumsOk l /\ StronglySorted N.lt l /\
            forall q, In q l <-> (q <> 0 /\ den s q = true).
Proof.
  induction s as [|[a b] s IH]; intros Hc Hd.
  - exists []. split; [reflexivity|]. split; [constructor|].
    intros q. rewrite den_nil. split; [intros []|intros [_ H]; discriminate H].
  - pose proof (canon_tail _ _ Hc) as Hc'. pose proof (canon_hd _ _ Hc) as Hw.
    rewrite (dynamic_iff _ Hc), den_cons, rden_zero in Hd. cbn [snd] in Hd.
    apply orb_false_iff in Hd as [Hb Hd']. rewrite <- (dynamic_iff _ Hc') in Hd'.
    destruct (IH Hc' Hd') as (l & Hn & Hs & Hin).
    assert (Hab : a <> 0 /\ a <= b /\ b <> 0) by (rg_unfold; lia).
    exists (nums_range a b ++ l). cbn [nums]. rewrite Hn.
    replace ((a =? 0) || (b =? 0)) with false by lia.
    split; [reflexivity|]. split.
    + apply sorted_app; [apply map_seq_sorted|exact Hs|].
      intros x y Hx Hy. apply nums_range_In in Hx. apply Hin in Hy as [Hy0 Hy].
      unfold den in Hy. apply existsb_exists in Hy as (r & Hr & Hy).
      destruct (canon_In s (a, b) r Hc Hr) as [Hwr Hl].
      destruct r as [ra rb]. rg_unfold. destruct (y =? 0) eqn:E0; lia.
    + intros q. rewrite in_app_iff, nums_range_In, Hin, den_cons, orb_true_iff.
      assert (Hq : (a <= q /\ q < b + 1) <-> (q <> 0 /\ rden (a, b) q = true)).
      { rg_unfold. destruct (q =? 0) eqn:E0; lia. }
      tauto.
Qed.

Lemma nums_dynamic : forall s, canon s = true -> dynamic s = true -> nums s = NumsNotStatic.
Proof.
  induction s as [|[a b] s IH]; intros Hc Hd; [discriminate Hd|].
  destruct s as [|r' l].
  - rewrite dynamic_single in Hd. cbn [snd] in Hd. cbn [nums]. rewrite Hd, orb_true_r. reflexivity.
  - rewrite dynamic_cons2 in Hd.
    change (nums ((a, b) :: r' :: l)) with
      (if (a =? 0) || (b =? 0) then NumsNotStatic
       else match nums (r' :: l) with
            | NumsOk l0 => NumsOk (nums_range a b ++ l0)
            | NumsNotStatic => NumsNotStatic
            end).
    rewrite (IH (canon_tail _ _ Hc) Hd). destruct ((a =? 0) || (b =? 0)); reflexivity.
Qed.

(* text form parses back to an equal set *)
Lemma string_parse : forall s, canon s = true -> s <> [] ->
  parse_set (to_string s) = Some (Some s).
Proof.
  intros s Hc Hne.
  rewrite (parse_set_g (to_string s) s (to_string_g s (fun r => canon_wf s r Hc) Hne)).
  rewrite (add_set_canon s [] Hc). reflexivity.
Qed.

(* the parser accepts exactly the RFC grammar, and the result has the written members *)
Lemma parse_accepts_grammar : forall t rs, g_set t rs ->
  exists s, parse_set t = Some (Some s) /\ canon s = true /\
            forall q, q < M32 -> den s q = existsb (fun r => rden r q) rs.
Proof.
  intros t rs H. rewrite (parse_set_g t rs H).
  destruct (add_set_spec rs [] (g_set_wf t rs H) canon_nil) as (s & E & Hc & Hd).
  exists s. rewrite E. split; [reflexivity|]. split; [exact Hc|].
  intros q Hq. rewrite (Hd q Hq), den_nil. reflexivity.
Qed.

Lemma parse_only_grammar : forall t r, parse_set t = Some r -> exists rs, g_set t rs.
Proof.
  intros t r H. unfold parse_set, split_byte in H.
  pose proof (parse_fields_only _ [] r canon_nil H) as Hf.
  destruct (split_on_nonnil (ch ",") t []) as (h & tl & Hs).
  destruct (g_set_join (ch ",") (split_on (ch ",") [] t)) as (rs & Hrs).
  - rewrite Hs. discriminate.
  - reflexivity.
  - exact Hf.
  - rewrite join_split in Hrs. exists rs. exact Hrs.
Qed.
