(* Proofs/CmdPrim.v — the server's argument readers (Model/CmdServer.v) undo the client's
   encoder primitives (Model/Wire.v, Model/CmdClient.v): one lemma per primitive, and the
   generic parenthesised-list lemma. *)
From GoImap.Base Require Import Bytes.
From GoImap.Model Require Import NumSet NumSetCorr MatchList Utf7 Wire Search ClientWrite CmdDate CmdTypes CmdClient CmdServer.
From GoImap.Proofs Require Import NumSetSpec Utf7Spec WireSpec WireLemmas WireProofs CmdDateProofs CmdSpec.
Open Scope N_scope.

(* what may follow SP: not the end of the line *)
Definition after_sp (r : bytes) : Prop :=
  match r with [] => False | c :: _ => beqb c CR_ = false /\ beqb c LF_ = false end.
(* the first byte of a list item: there is one, and it is neither ")" nor CR / LF *)
Definition item_start (b : bytes) : Prop :=
  match b with [] => False | c :: _ => beqb c (ch ")") = false /\ beqb c CR_ = false /\ beqb c LF_ = false end.
Definition nondigit (r : bytes) : Prop := match r with [] => False | c :: _ => is_digit c = false end.

(* ---- output combinators ---- *)
Lemma cat_some : forall a b segs, a +++ b = Some segs ->
  exists x y, a = Some x /\ b = Some y /\ segs = x ++ y.
Proof.
  intros [x|] [y|] segs H; cbn in H; try discriminate. inversion H. eauto.
Qed.

Lemma flatten_lit : forall b, flatten [SBytes b] = b.
Proof. exact flatten_single. Qed.

(* ---- separators ---- *)
Lemma beqb_rfl : forall a, beqb a a = true.
Proof. intros a. apply beqb_true_iff. reflexivity. Qed.

Lemma x_sp_sp : forall r, after_sp r -> x_sp (SP_ :: r) = Some (tt, r).
Proof.
  intros [|c r] H; [contradiction|]. destruct H as [H1 H2]. unfold x_sp, expect. cbn [dec_sp].
  rewrite beqb_rfl, H1, H2. reflexivity.
Qed.
Lemma m_sp_sp : forall r, after_sp r -> m_sp (SP_ :: r) = Some (true, r).
Proof.
  intros [|c r] H; [contradiction|]. destruct H as [H1 H2]. unfold m_sp, present, maybe, bind, ret.
  cbn [dec_sp]. rewrite beqb_rfl, H1, H2. reflexivity.
Qed.
Lemma m_sp_crlf : forall r, m_sp (CR_ :: LF_ :: r) = Some (false, CR_ :: LF_ :: r).
Proof. intros r. reflexivity. Qed.
Lemma x_crlf_crlf : forall r, x_crlf (CR_ :: LF_ :: r) = Some (tt, r).
Proof. intros r. reflexivity. Qed.

(* ---- atoms, numbers ---- *)
Lemma x_atom_lit : forall a rest, a <> [] -> forallb is_atom_char a = true -> delimited rest ->
  x_atom (a ++ rest) = Some (a, rest).
Proof.
  intros a rest Hn Ha Hr. unfold x_atom, expect.
  rewrite (dec_atom_app a rest Hn Ha (delimited_nonatom rest Hr)). reflexivity.
Qed.

Lemma x_number64_enc : forall z segs rest, wf_int64 z -> nondigit rest -> enc_number64 z = Some segs ->
  x_number64 (flatten segs ++ rest) = Some (z, rest).
Proof.
  intros z segs rest [Hz0 Hz] Hr H. unfold x_number64, bind, expect, ret.
  destruct (number64_roundtrip z segs rest Hz Hr H) as [Hd _]. rewrite Hd.
  rewrite Z2N.id by exact Hz0. reflexivity.
Qed.

(* ---- strings, mailboxes ---- *)
Lemma enc_string_shape : forall cfg s segs, enc_string cfg s = Some segs ->
  flatten segs = enc_quoted s \/
  exists plus : bool, flatten segs = ch "{" :: dec_of_N (N.of_nat (length s)) ++ (if plus then [ch "+"] else []) ++
                   ch "}" :: CR_ :: LF_ :: s.
Proof.
  intros cfg s segs H. unfold enc_string in H. destruct (valid_quoted cfg s).
  - left. inversion H; subst segs. apply flatten_single.
  - right. destruct (enc_literal_shape _ _ _ H) as (plus & _ & E). exists plus. exact E.
Qed.

Lemma lit_header_hdr : forall (plus : bool) n r, n < 9223372036854775808 ->
  lit_header (ch "{" :: dec_of_N n ++ (if plus then [ch "+"] else []) ++ ch "}" :: CR_ :: LF_ :: r) = DOk (n, plus) r.
Proof.
  intros plus n r Hn. unfold lit_header. rewrite dec_special_hit. unfold dec_number64.
  rewrite dec_uint_roundtrip; [|exact Hn|destruct plus; reflexivity].
  destruct plus; cbn [app].
  - change (b2n (ch "+") =? 43) with true. cbv iota beta. rewrite dec_special_hit, dec_crlf_crlf. reflexivity.
  - change (b2n (ch "}") =? 43) with false. cbv iota beta. rewrite dec_special_hit, dec_crlf_crlf. reflexivity.
Qed.

Lemma s_literal_enc : forall (plus : bool) s rest, short s ->
  s_literal (ch "{" :: dec_of_N (N.of_nat (length s)) ++ (if plus then [ch "+"] else []) ++
             ch "}" :: CR_ :: LF_ :: s ++ rest) = DOk s rest.
Proof.
  intros plus s rest Hs. unfold short, LIT_MAX in Hs. unfold s_literal.
  rewrite lit_header_hdr by lia.
  assert (H1 : LIT_MAX <? N.of_nat (length s) = false) by (apply N.ltb_ge; unfold LIT_MAX; exact Hs).
  assert (H2 : N.of_nat (length (s ++ rest)) <? N.of_nat (length s) = false)
    by (apply N.ltb_ge; rewrite app_length; lia).
  rewrite H1, H2, Nat2N.id, firstn_length_app, Utf7Codec.skipn_length_app. reflexivity.
Qed.

Lemma s_string_miss : forall x r, beqb x DQ_ = false -> beqb x (ch "{") = false ->
  s_string (x :: r) = DNo (x :: r).
Proof.
  intros x r H1 H2. unfold s_string. rewrite (dec_quoted_miss _ _ H1).
  unfold s_literal, lit_header. rewrite (dec_special_miss _ _ _ H2). reflexivity.
Qed.

Lemma s_string_enc : forall cfg s segs rest, short s -> enc_string cfg s = Some segs ->
  s_string (flatten segs ++ rest) = DOk s rest.
Proof.
  intros cfg s segs rest Hs H. unfold s_string.
  destruct (enc_string_shape _ _ _ H) as [->|(plus & ->)].
  - rewrite quoted_roundtrip. reflexivity.
  - cbn [app]. rewrite dec_quoted_miss by reflexivity. rewrite <- !app_assoc. cbn [app].
    rewrite s_literal_enc by exact Hs. reflexivity.
Qed.

Lemma x_astring_enc : forall cfg s segs rest, client_side cfg = true -> short s ->
  enc_string cfg s = Some segs -> x_astring (flatten segs ++ rest) = Some (s, rest).
Proof.
  intros cfg s segs rest _ Hs H. unfold x_astring, expect, s_astring.
  rewrite (s_string_enc cfg s segs rest Hs H). reflexivity.
Qed.

Lemma x_mailbox_enc : forall cfg m segs rest, client_side cfg = true -> wf_name m -> delimited rest ->
  enc_mailbox cfg m = Some segs -> x_mailbox (flatten segs ++ rest) = Some (norm_mbox m, rest).
Proof.
  intros cfg m segs rest Hc (runes & Hsc & Hm & Hshort) Hr H. unfold enc_mailbox in H.
  unfold norm_mbox, x_mailbox, bind. destruct (equal_fold_ascii m INBOX) eqn:E.
  - inversion H; subst segs. rewrite flatten_single.
    assert (Ha : x_astring (INBOX ++ rest) = Some (INBOX, rest)).
    { unfold x_astring, expect, s_astring.
      change (INBOX ++ rest) with (ch "I" :: s2b "NBOX" ++ rest).
      rewrite s_string_miss by reflexivity.
      change (ch "I" :: s2b "NBOX" ++ rest) with (INBOX ++ rest).
      rewrite dec_atom_app; [reflexivity|discriminate|reflexivity|apply delimited_nonatom; exact Hr]. }
    rewrite Ha. change (equal_fold_ascii INBOX INBOX) with true. reflexivity.
  - rewrite (x_astring_enc cfg _ segs rest Hc Hshort H).
    destruct (equal_fold_ascii (utf7_encode m) INBOX) eqn:E2.
    + apply utf7_encode_fold_inbox in E2 as E3. rewrite E3 in E2. congruence.
    + subst m. rewrite (Utf7Proofs.utf7_roundtrip runes Hsc). reflexivity.
Qed.

Lemma list_mailbox_enc : forall cfg p segs rest, client_side cfg = true -> wf_name p ->
  enc_string cfg (utf7_encode p) = Some segs -> list_mailbox (flatten segs ++ rest) = Some (p, rest).
Proof.
  intros cfg p segs rest Hc (runes & Hsc & Hm & Hshort) H. unfold list_mailbox.
  rewrite (s_string_enc cfg _ segs rest Hshort H). subst p.
  rewrite (Utf7Proofs.utf7_roundtrip runes Hsc). reflexivity.
Qed.

(* an encoded string never starts like the end of a list or of the line *)
Lemma enc_string_start : forall cfg s segs, enc_string cfg s = Some segs -> item_start (flatten segs).
Proof.
  intros cfg s segs H. destruct (enc_string_shape _ _ _ H) as [->|(plus & ->)];
    cbn; repeat split; reflexivity.
Qed.
Lemma enc_mailbox_start : forall cfg m segs, enc_mailbox cfg m = Some segs -> item_start (flatten segs).
Proof.
  intros cfg m segs H. unfold enc_mailbox in H. destruct (equal_fold_ascii m INBOX).
  - inversion H; subst segs. rewrite flatten_single. cbn. repeat split; reflexivity.
  - eapply enc_string_start. exact H.
Qed.

(* ---- number sets, flags ---- *)
Lemma x_numset_enc : forall uid s segs rest, wf_numarg uid s -> delimited rest -> w_numarg s = Some segs ->
  x_numset (flatten segs ++ rest) = Some (s, rest).
Proof.
  intros uid [|s] segs rest Hw Hr H; cbn [w_numarg] in H; unfold x_numset, bind, expect, ret.
  - inversion H; subst segs. rewrite flatten_single.
    unfold dec_numset. reflexivity.
  - destruct Hw as [Hc Hn]. rewrite (numset_roundtrip s segs rest Hc Hr H). reflexivity.
Qed.

Lemma x_flag_enc : forall f segs rest, delimited rest -> enc_flag f = Some segs ->
  x_flag (flatten segs ++ rest) = Some (canonical_flag f, rest).
Proof.
  intros f segs rest Hr H. unfold x_flag, expect. rewrite (flag_roundtrip f segs rest Hr H). reflexivity.
Qed.
Lemma valid_flag_start : forall f, is_valid_flag f = true -> item_start f.
Proof.
  intros f Hv. unfold is_valid_flag in Hv.
  apply andb_true_iff in Hv. destruct Hv as [Hv _].
  apply andb_true_iff in Hv. destruct Hv as [Hv Hnn].
  destruct f as [|c f]; [discriminate|]. cbn [valid_flag_chars] in Hv.
  apply andb_true_iff in Hv. destruct Hv as [Hc _]. cbn [item_start].
  destruct (beqb c BSL_) eqn:Ec.
  - apply beqb_true_iff in Ec. subst c. repeat split; reflexivity.
  - destruct (atom_char_facts c Hc) as (_&_&_&_&_&H1&H2&H3&_). repeat split; assumption.
Qed.

Lemma enc_flag_start : forall f segs, enc_flag f = Some segs -> item_start (flatten segs).
Proof.
  intros f segs H. unfold enc_flag in H. destruct (bytes_eqb f (s2b "\*")) eqn:E; cbn [orb] in H.
  - inversion H; subst segs. apply bytes_eqb_true_iff in E. subst f. rewrite flatten_single.
    cbn. repeat split; reflexivity.
  - destruct (is_valid_flag f) eqn:Ev; [|discriminate]. inversion H; subst segs.
    rewrite flatten_single. apply valid_flag_start. exact Ev.
Qed.

Lemma x_attr_enc : forall a segs rest, delimited rest -> enc_mailbox_attr a = Some segs ->
  x_attr (flatten segs ++ rest) = Some (norm_attr a, rest).
Proof.
  intros a segs rest Hr H. unfold x_attr, expect, norm_attr.
  rewrite (attr_roundtrip a segs rest Hr H). reflexivity.
Qed.
Lemma enc_attr_start : forall a segs, enc_mailbox_attr a = Some segs -> item_start (flatten segs).
Proof.
  intros a segs H. unfold enc_mailbox_attr in H.
  destruct (has_prefix [BSL_] a && is_valid_flag a) eqn:E; [|discriminate].
  inversion H; subst segs. apply andb_true_iff in E. destruct E as [_ Ev].
  rewrite flatten_single. apply valid_flag_start. exact Ev.
Qed.

(* ---- dates ---- *)
Lemma x_date_enc : forall cfg d segs rest, client_side cfg = true -> day_in_range d = true ->
  enc_string cfg (fmt_date d) = Some segs -> x_date (flatten segs ++ rest) = Some ((d * DAYSEC)%Z, rest).
Proof.
  intros cfg d segs rest Hc Hd H. unfold x_date, bind.
  assert (Hs : short (fmt_date d)).
  { destruct (fmt_date_plain d) as [_ Hl]. specialize (Hl Hd). unfold short, LIT_MAX. lia. }
  rewrite (x_astring_enc cfg _ segs rest Hc Hs H). rewrite (date_roundtrip d Hd). reflexivity.
Qed.

(* ---- parenthesised lists: Encoder.List / BeginList against Decoder.List ---- *)
Lemma m_list_absent : forall T (item : T -> P T) st c r, beqb c (ch "(") = false ->
  m_list item st (c :: r) = Some ((false, st), c :: r).
Proof.
  intros T item st c r H. unfold m_list. rewrite (dec_special_miss _ _ _ H). reflexivity.
Qed.

Lemma item_start_app : forall a b, item_start a -> item_start (a ++ b).
Proof. intros [|c a] b H; [contradiction|exact H]. Qed.

Lemma join_sp_cons2 : forall x y r, join_sp (x :: y :: r) = x +++ sp +++ join_sp (y :: r).
Proof. reflexivity. Qed.

Lemma join_sp_start : forall A (enc : A -> eres) l a z,
  (forall x, In x (a :: l) -> forall sg, enc x = Some sg -> item_start (flatten sg)) ->
  join_sp (map enc (a :: l)) = Some z -> item_start (flatten z).
Proof.
  intros A enc l a z Hst H. destruct l as [|b l].
  - cbn in H. apply (Hst a); [left; reflexivity|exact H].
  - cbn [map] in H. rewrite join_sp_cons2 in H. apply cat_some in H.
    destruct H as (x & y & Hx & _ & ->). rewrite flatten_app. apply item_start_app.
    apply (Hst a); [left; reflexivity|exact Hx].
Qed.

Lemma delimited_close : forall r, delimited (ch ")" :: r).
Proof. intros r. split; reflexivity. Qed.
Lemma delimited_sp : forall r, delimited (SP_ :: r).
Proof. intros r. split; reflexivity. Qed.

Lemma items_fold_join : forall T A (item : T -> P T) (enc : A -> eres) (step : T -> A -> T)
    (l : list A) a st segs rest fuel,
  (forall x, In x (a :: l) -> forall sg st r, enc x = Some sg -> delimited r ->
     item st (flatten sg ++ r) = Some (step st x, r)) ->
  (forall x, In x (a :: l) -> forall sg, enc x = Some sg -> item_start (flatten sg)) ->
  join_sp (map enc (a :: l)) = Some segs ->
  (length (flatten segs) < fuel)%nat ->
  items_fold fuel item st (flatten segs ++ ch ")" :: rest) = Some (fold_left step (a :: l) st, rest).
Proof.
  intros T A item enc step l. induction l as [|b l IH]; intros a st segs rest fuel Hit Hst H Hf.
  - cbn in H. destruct fuel as [|f]; [lia|]. cbn [items_fold].
    rewrite (Hit a (or_introl eq_refl) segs st _ H (delimited_close rest)).
    rewrite dec_special_hit. reflexivity.
  - cbn [map] in H. rewrite join_sp_cons2 in H. apply cat_some in H.
    destruct H as (x & y & Hx & Hy & ->). apply cat_some in Hy. destruct Hy as (s1 & z & Hs1 & Hz & ->).
    unfold sp, lit in Hs1. inversion Hs1; subst s1. clear Hs1.
    rewrite !flatten_app, flatten_single in *. rewrite <- !app_assoc. cbn [app].
    destruct fuel as [|f]; [lia|]. cbn [items_fold].
    rewrite (Hit a (or_introl eq_refl) x st _ Hx (delimited_sp _)).
    rewrite dec_special_miss by reflexivity.
    assert (Hst' : forall x0, In x0 (b :: l) -> forall sg, enc x0 = Some sg -> item_start (flatten sg))
      by (intros x0 Hx0; apply Hst; right; exact Hx0).
    pose proof (join_sp_start A enc l b z Hst' Hz) as Hs.
    assert (Hsp : dec_sp (SP_ :: flatten z ++ ch ")" :: rest) = DOk tt (flatten z ++ ch ")" :: rest)).
    { destruct (flatten z) as [|c t]; [contradiction|]. destruct Hs as (_ & H1 & H2).
      cbn [app dec_sp]. rewrite beqb_rfl, H1, H2. reflexivity. }
    rewrite Hsp. cbn [fold_left].
    rewrite (IH b (step st a) z rest f).
    + reflexivity.
    + intros x0 Hx0. apply Hit. right. exact Hx0.
    + exact Hst'.
    + exact Hz.
    + rewrite !app_length in Hf. cbn [length] in Hf. lia.
Qed.

Lemma m_list_plist : forall T A (item : T -> P T) (enc : A -> eres) (step : T -> A -> T)
    (l : list A) segs st rest,
  (forall a, In a l -> forall sg st r, enc a = Some sg -> delimited r ->
     item st (flatten sg ++ r) = Some (step st a, r)) ->
  (forall a, In a l -> forall sg, enc a = Some sg -> item_start (flatten sg)) ->
  plist (map enc l) = Some segs ->
  m_list item st (flatten segs ++ rest) = Some ((true, fold_left step l st), rest).
Proof.
  intros T A item enc step l segs st rest Hit Hst H. unfold plist in H.
  apply cat_some in H. destruct H as (x & y & Hx & Hy & ->).
  apply cat_some in Hy. destruct Hy as (j & z & Hj & Hz & ->).
  assert (Ex : x = [SBytes [ch "("]]) by (unfold slit, lit in Hx; injection Hx as <-; reflexivity).
  assert (Ez : z = [SBytes [ch ")"]]) by (unfold slit, lit in Hz; injection Hz as <-; reflexivity).
  subst x z. clear Hx Hz.
  rewrite !flatten_app, !flatten_single.
  rewrite <- !app_assoc. cbn [app]. unfold m_list. rewrite dec_special_hit.
  destruct l as [|a l].
  - cbn in Hj. inversion Hj; subst j. cbn [flatten flat_map app]. rewrite dec_special_hit. reflexivity.
  - pose proof (join_sp_start A enc l a j Hst Hj) as Hs.
    assert (Hm : dec_special (ch ")") (flatten j ++ ch ")" :: rest) = DNo (flatten j ++ ch ")" :: rest)).
    { destruct (flatten j) as [|c t]; [contradiction|]. destruct Hs as [Hs _]. cbn [app].
      apply dec_special_miss. exact Hs. }
    assert (HF : items_fold (S (length (flatten j ++ ch ")" :: rest))) item st (flatten j ++ ch ")" :: rest) =
                 Some (fold_left step (a :: l) st, rest)).
    { apply (items_fold_join T A item enc step l a st j rest _ Hit Hst Hj). rewrite app_length. lia. }
    unfold byte, bytes in *. rewrite Hm, HF. reflexivity.
Qed.

Lemma x_list_plist : forall T A (item : T -> P T) (enc : A -> eres) (step : T -> A -> T)
    (l : list A) segs st rest,
  (forall a, In a l -> forall sg st r, enc a = Some sg -> delimited r ->
     item st (flatten sg ++ r) = Some (step st a, r)) ->
  (forall a, In a l -> forall sg, enc a = Some sg -> item_start (flatten sg)) ->
  plist (map enc l) = Some segs ->
  x_list item st (flatten segs ++ rest) = Some (fold_left step l st, rest).
Proof.
  intros T A item enc step l segs st rest Hit Hst H. unfold x_list, bind.
  rewrite (m_list_plist T A item enc step l segs st rest Hit Hst H). reflexivity.
Qed.

(* a list of atoms written in map-iteration order *)
Lemma map_items_in : forall names order n, In n (map_items names order) <->
  exists i, In i order /\ nth_error names i = Some (n, true).
Proof.
  intros names order n. unfold map_items. rewrite in_flat_map. split.
  - intros (i & Hi & Hn). exists i. split; [exact Hi|].
    destruct (nth_error names i) as [[n' [|]]|]; cbn in Hn; try contradiction.
    destruct Hn as [->|[]]. reflexivity.
  - intros (i & Hi & Hn). exists i. split; [exact Hi|]. rewrite Hn. left. reflexivity.
Qed.
