(* Proofs/NumSetSpec.v — specification-side definitions for C15 (no proofs here). *)
From GoImap.Base Require Import Bytes.
From GoImap.Model Require Import NumSet.
Open Scope N_scope.

(* arguments the public API can be given: any uint32 endpoints; sets made of well-formed
   ranges (every set the API itself builds or parses is such a set) *)
Definition wf_op (o : op) : bool :=
  match o with
  | AddNum q => q <? M32
  | AddRange a b => (a <? M32) && (b <? M32)
  | AddSet t => forallb wf_range t
  end.

(* what an operation inserts, as a predicate on probes (probe 0 is "*") *)
Definition op_den (o : op) (q : N) : bool :=
  match o with
  | AddNum a => rden (a, a) q
  | AddRange a b => rden (norm_range a b) q
  | AddSet t => den t q
  end.

(* RFC 3501 sequence-set grammar, written independently of the parser:
   nz-number = canonical decimal of 1..2^32-1; seq-number = nz-number / "*";
   seq-range = seq-number ":" seq-number; sequence-set = elem *("," elem)          *)
Inductive g_seqnum : bytes -> N -> Prop :=
| g_nz n : 0 < n -> n < M32 -> g_seqnum (dec_of_N n) n
| g_star : g_seqnum (s2b "*") 0.

Inductive g_elem : bytes -> range -> Prop :=
| g_single t n : g_seqnum t n -> g_elem t (n, n)
| g_range t1 a t2 b : g_seqnum t1 a -> g_seqnum t2 b ->
    g_elem (t1 ++ s2b ":" ++ t2) (norm_range a b).

Inductive g_set : bytes -> list range -> Prop :=
| g_one t r : g_elem t r -> g_set t [r]
| g_more t r t' rs : g_elem t r -> g_set t' rs -> g_set (t ++ s2b "," ++ t') (r :: rs).
