(* Proofs/NumSetInsert.v — insert preserves canon and adds the denotation. *)
From Coq Require Import ZifyN ZifyNat ZifyBool.
From GoImap.Base Require Import Bytes.
From GoImap.Model Require Import NumSet.
From GoImap.Proofs Require Import NumSetSpec NumSetLemmas.
Open Scope N_scope.
Local Opaque canon.

(* ------------------------------------------------------------------ *)
(* absorb *)
Definition rle (a : N) (l : nset) : Prop :=
  match l with [] => True | r :: _ => a <> 0 /\ (fst r = 0 \/ a <= fst r) end.

Lemma rmerge_true_fst : forall s t u, wf_range s = true -> wf_range t = true ->
  rmerge s t = (u, true) -> fst s <> 0 -> (fst t = 0 \/ fst s <= fst t) -> fst u = fst s.
Proof.
  intros s t u Hs Ht H Hs0 Hle.
  destruct (rmerge_true s t u Hs Ht H) as (_ & _ & Hmin & _ & Hz).
  destruct (N.eq_dec (fst t) 0) as [E|E].
  - rewrite (Hz E Hs0). reflexivity.
  - rewrite (Hmin Hs0 E). lia.
Qed.

Lemma absorb_spec : forall rest acc, wf_range acc = true -> canon rest = true ->
  rle (fst acc) rest ->
  exists h tl, absorb acc rest = h :: tl /\ fst h = fst acc /\ canon (h :: tl) = true /\
    forall q, q < M32 -> den (h :: tl) q = rden acc q || den rest q.
Proof.
  induction rest as [|r rest IH]; intros acc Hw Hc Hle.
  - exists acc, []. cbn [absorb]. split; [reflexivity|]. split; [reflexivity|]. split.
    + apply canon_intro; auto.
    + intros q _. rewrite den_cons, den_nil. reflexivity.
  - cbn [absorb]. destruct (rmerge acc r) as [u ok] eqn:Em.
    pose proof (canon_hd _ _ Hc) as Hwr. pose proof (canon_tail _ _ Hc) as Hc'.
    destruct Hle as [Ha0 Hle].
    destruct ok.
    + destruct (rmerge_true acc r u Hw Hwr Em) as (Hwu & Hden & _).
      pose proof (rmerge_true_fst acc r u Hw Hwr Em Ha0 Hle) as Hfu.
      destruct (IH u Hwu Hc') as (h & tl & Heq & Hfh & Hch & Hdh).
      { destruct rest as [|r2 rest2]; [exact I|]. cbn [rle]. rewrite Hfu.
        split; [exact Ha0|].
        pose proof (canon_okhd _ _ Hc) as Hl. cbn [okhd] in Hl.
        destruct acc as [aa ab], r as [ra rb], r2 as [r2a r2b]. rg_unfold. lia. }
      exists h, tl. splits; auto.
      * congruence.
      * intros q Hq. rewrite (Hdh q Hq), (Hden q Hq), den_cons, orb_assoc. reflexivity.
    + pose proof (rmerge_false_eq _ _ _ Em) as ->.
      destruct (rmerge_false acc r acc Hw Hwr Em) as (_ & Hl & _).
      exists acc, (r :: rest). split; [reflexivity|]. split; [reflexivity|]. split.
      * apply canon_intro; auto.
      * intros q _. rewrite den_cons. reflexivity.
Qed.

(* ------------------------------------------------------------------ *)
(* insertion in front of / into the first range not less than the new start *)
Definition ins0 (s : nset) (v : range) : nset :=
  match s with
  | [] => [v]
  | p :: s' => let '(u, ok) := rmerge p v in if ok then absorb u s' else v :: s
  end.

Definition hd_not_less (s : nset) (q : N) : Prop :=
  match s with [] => True | p :: _ => rless p q = false end.

Lemma ins0_spec : forall s v, wf_range v = true -> canon s = true -> hd_not_less s (fst v) ->
  exists h tl, ins0 s v = h :: tl /\ canon (h :: tl) = true /\
    (fst h = fst v \/ match s with p :: _ => fst h = fst p | [] => False end) /\
    forall q, q < M32 -> den (h :: tl) q = den s q || rden v q.
Proof.
  intros [|p s] v Hv Hc Hnl.
  - exists v, []. cbn [ins0]. split; [reflexivity|]. split; [apply canon_intro; auto|].
    split; [left; reflexivity|]. intros q _. rewrite den_cons, !den_nil. apply orb_comm.
  - cbn [ins0 hd_not_less] in *. destruct (rmerge p v) as [u ok] eqn:Em.
    pose proof (canon_hd _ _ Hc) as Hwp. pose proof (canon_tail _ _ Hc) as Hc'.
    pose proof (canon_okhd _ _ Hc) as Hl.
    destruct ok.
    + destruct (rmerge_true p v u Hwp Hv Em) as (Hwu & Hden & Hmin & Hz1 & Hz2).
      assert (Hfu : fst u = fst v \/ fst u = fst p).
      { destruct (N.eq_dec (fst p) 0) as [E|E]; [left; rewrite (Hz1 E); reflexivity|].
        destruct (N.eq_dec (fst v) 0) as [E'|E']; [right; rewrite (Hz2 E' E); reflexivity|].
        rewrite (Hmin E E'). lia. }
      destruct (absorb_spec s u Hwu Hc') as (h & tl & Heq & Hfh & Hch & Hdh).
      { destruct s as [|r2 s2]; [exact I|]. cbn [rle okhd] in *.
        assert (E : fst p <> 0 /\ fst v <> 0).
        { destruct p as [pa pb], v as [va vb], r2 as [r2a r2b]. rg_unfold. lia. }
        destruct E as [E E']. rewrite (Hmin E E').
        destruct p as [pa pb], v as [va vb], r2 as [r2a r2b]. rg_unfold. lia. }
      exists h, tl. splits; auto.
      * rewrite Hfh. exact Hfu.
      * intros q Hq. rewrite (Hdh q Hq), (Hden q Hq), den_cons.
        destruct (rden p q), (rden v q), (den s q); reflexivity.
    + destruct (rmerge_false p v u Hwp Hv Em) as (Hnz & Hl1 & Hl2).
      exists v, (p :: s). splits; auto.
      * apply canon_intro; auto. cbn [okhd].
        destruct p as [pa pb], v as [va vb]. rg_unfold. lia.
      * intros q _. rewrite (den_cons v). apply orb_comm.
Qed.

(* ------------------------------------------------------------------ *)
(* list surgery *)
Lemma firstn_app_len : forall (A : Type) (a b : list A), firstn (length a) (a ++ b) = a.
Proof. intros A a b. rewrite firstn_app, Nat.sub_diag, firstn_all. cbn. apply app_nil_r. Qed.

Lemma skipn_app_len : forall (A : Type) (a b : list A), skipn (length a) (a ++ b) = b.
Proof. intros A a b. rewrite skipn_app, Nat.sub_diag, skipn_all. reflexivity. Qed.

Lemma nth_error_app_len : forall (A : Type) (a b : list A) x,
  nth_error (a ++ x :: b) (length a) = Some x.
Proof. intros A a b x. rewrite nth_error_app2, Nat.sub_diag by lia. reflexivity. Qed.

Lemma snoc_cons : forall (A : Type) (a b : list A) x, a ++ x :: b = (a ++ [x]) ++ b.
Proof. intros. rewrite <- app_assoc. reflexivity. Qed.

Lemma len_snoc : forall (A : Type) (a : list A) x, length (a ++ [x]) = S (length a).
Proof. intros. rewrite app_length. cbn. lia. Qed.

Lemma insert_eq0 : forall s v, canon s = true -> ff s (fst v) = O ->
  insert s v = Some (ins0 s v).
Proof.
  intros s v Hc Hff. unfold insert. rewrite (search_spec s (fst v) Hc), Hff.
  destruct s as [|p s]; [reflexivity|].
  cbn [length Nat.eqb nth_error ins0 firstn skipn app].
  destruct (rmerge p v) as [u ok]. destruct ok; reflexivity.
Qed.

Lemma insert_eqS : forall pre0 p suf v, canon (pre0 ++ p :: suf) = true ->
  ff (pre0 ++ p :: suf) (fst v) = S (length pre0) ->
  insert (pre0 ++ p :: suf) v =
  Some (pre0 ++ (let '(u, ok) := rmerge p v in if ok then absorb u suf else p :: ins0 suf v)).
Proof.
  intros pre0 p suf v Hc Hff. unfold insert. rewrite (search_spec _ (fst v) Hc), Hff.
  rewrite nth_error_app_len.
  destruct (rmerge p v) as [u ok] eqn:Em.
  rewrite firstn_app_len.
  replace (skipn (S (length pre0)) (pre0 ++ p :: suf)) with suf
    by (rewrite snoc_cons, <- (len_snoc _ pre0 p), skipn_app_len; reflexivity).
  destruct suf as [|x suf].
  - replace (S (length pre0) =? length (pre0 ++ [p]))%nat with true
      by (rewrite len_snoc; symmetry; apply Nat.eqb_refl).
    destruct ok.
    + reflexivity.
    + rewrite (rmerge_false_eq _ _ _ Em). cbn [ins0]. rewrite <- app_assoc. reflexivity.
  - replace (S (length pre0) =? length (pre0 ++ p :: x :: suf))%nat with false
      by (symmetry; apply Nat.eqb_neq; rewrite app_length; cbn [length]; lia).
    destruct ok.
    + cbn [Nat.pred]. rewrite nth_error_app_len, firstn_app_len.
      replace (skipn (S (length pre0)) (pre0 ++ u :: x :: suf)) with (x :: suf)
        by (rewrite (snoc_cons _ pre0), <- (len_snoc _ pre0 u), skipn_app_len; reflexivity).
      reflexivity.
    + rewrite (rmerge_false_eq _ _ _ Em).
      rewrite (snoc_cons _ pre0 (x :: suf) p), <- (len_snoc _ pre0 p).
      rewrite nth_error_app_len, firstn_app_len, skipn_app_len. cbn [ins0].
      destruct (rmerge x v) as [u2 ok2]. destruct ok2.
      * replace (skipn (S (length (pre0 ++ [p]))) ((pre0 ++ [p]) ++ x :: suf)) with suf
          by (rewrite (snoc_cons _ (pre0 ++ [p])), <- (len_snoc _ (pre0 ++ [p]) x), skipn_app_len;
              reflexivity).
        rewrite <- app_assoc. reflexivity.
      * rewrite <- app_assoc. reflexivity.
Qed.

Lemma ff_split : forall s q, exists pre suf, s = pre ++ suf /\ length pre = ff s q /\
  Forall (fun r => rless r q = true) pre /\ hd_not_less suf q.
Proof.
  induction s as [|p s IH]; intros q.
  - exists [], []. split; [reflexivity|]. split; [reflexivity|]. split; [constructor|exact I].
  - cbn [ff]. destruct (rless p q) eqn:Ep.
    + destruct (IH q) as (pre & suf & -> & Hlen & Hall & Hnl).
      exists (p :: pre), suf. split; [reflexivity|]. split; [cbn [length]; lia|].
      split; [constructor; assumption|assumption].
    + exists [], (p :: s). split; [reflexivity|]. split; [reflexivity|].
      split; [constructor|exact Ep].
Qed.

Lemma den_assoc4 : forall a b c d : bool, a || (b || c || d) = a || (b || d) || c.
Proof. intros [] [] [] []; reflexivity. Qed.

Theorem insert_spec : forall s v, wf_range v = true -> canon s = true ->
  exists s', insert s v = Some s' /\ canon s' = true /\
    forall q, q < M32 -> den s' q = den s q || rden v q.
Proof.
  intros s v Hv Hc.
  destruct (ff_split s (fst v)) as (pre & suf & Hs & Hlen & Hall & Hnl).
  destruct pre as [|p0 pre0'] using rev_ind.
  - cbn [app length] in *. subst suf.
    rewrite (insert_eq0 s v Hc (eq_sym Hlen)).
    destruct (ins0_spec s v Hv Hc Hnl) as (h & tl & Heq & Hch & _ & Hd).
    exists (h :: tl). rewrite Heq. auto.
  - clear IHpre0'. rename pre0' into pre0, p0 into p.
    rewrite <- app_assoc in Hs. cbn [app] in Hs. subst s.
    rewrite len_snoc in Hlen.
    rewrite (insert_eqS pre0 p suf v Hc (eq_sym Hlen)).
    apply Forall_app in Hall as [_ Hp]. inversion Hp as [|? ? Hpl _]; subst. clear Hp.
    pose proof Hc as Hc0.
    rewrite canon_app in Hc. apply andb_true_iff in Hc as [Hc Hcs].
    apply andb_true_iff in Hc as [Hcp Hps].
    assert (Hwp : wf_range p = true) by (apply (canon_wf _ p Hcp), in_or_app; right; left; reflexivity).
    destruct (rmerge p v) as [u ok] eqn:Em. destruct ok.
    + destruct (rmerge_true p v u Hwp Hv Em) as (Hwu & Hden & _).
      assert (Hfu : fst u = fst p).
      { apply (rmerge_true_fst p v u Hwp Hv Em);
          destruct p as [pa pb], v as [va vb]; rg_unfold; lia. }
      destruct (absorb_spec suf u Hwu Hcs) as (h & tl & Heq & Hfh & Hch & Hdh).
      { destruct suf as [|x suf]; [exact I|]. cbn [rle okhd] in *. rewrite Hfu.
        destruct p as [pa pb], v as [va vb], x as [xa xb]. rg_unfold. lia. }
      exists (pre0 ++ h :: tl). rewrite Heq. split; [reflexivity|]. split.
      * rewrite canon_app. rewrite (canon_snoc_replace pre0 p h Hcp (canon_hd _ _ Hch)) by congruence.
        rewrite (canon_okhd _ _ Hch), (canon_tail _ _ Hch). reflexivity.
      * intros q Hq. rewrite !den_app, (Hdh q Hq), (Hden q Hq), den_cons.
        apply den_assoc4.
    + pose proof (rmerge_false_eq _ _ _ Em) as ->.
      destruct (rmerge_false p v p Hwp Hv Em) as (_ & Hl1 & _).
      destruct (ins0_spec suf v Hv Hcs Hnl) as (h & tl & Heq & Hch & Hfh & Hd).
      exists (pre0 ++ p :: h :: tl). rewrite Heq. split; [reflexivity|]. split.
      * rewrite canon_app, Hcp, Hch. cbn [okhd].
        replace (linka p (fst h)) with true; [reflexivity|]. symmetry.
        destruct Hfh as [Hfh|Hfh].
        -- rewrite Hfh. apply Hl1; destruct p as [pa pb], v as [va vb]; rg_unfold; lia.
        -- destruct suf as [|x suf]; [destruct Hfh|]. rewrite Hfh. exact Hps.
      * intros q Hq. rewrite !den_app, (den_cons p (h :: tl)), (Hd q Hq), (den_cons p suf).
        destruct (den pre0 q), (rden p q), (den suf q), (rden v q); reflexivity.
Qed.
