(* Proofs/RespSpecCorr.v — the correspondence evaluator of Model/RespCorr.v completed with the
   domains (wf_X) and normal forms (norm_X) of Proofs/RespSpec.v: for data inside the domain of
   a C03 theorem the client model, run on the server model's bytes, must deliver the normal
   form the theorem promises.  (No proofs here: this re-checks the theorem statements on the
   data of every run.) *)
From GoImap.Base Require Import Bytes.
From GoImap.Model Require Import NumSet MatchList Utf7 Wire Resp RespFetch RespCmd RespCorr.
From GoImap.Proofs Require Import RespSpec.
Open Scope N_scope.

Definition guard {A} (b : bool) (v : A) : option A := if b then Some v else None.

Definition spec_wants : wants :=
  mkWants
    (fun x nonext extd uid tag req msgs =>
       guard (wf_tag tag && wf_fetch x nonext extd uid req msgs) (norm_msgs nonext extd msgs))
    (fun rs tag l => guard (wf_tag tag && forallb (wf_list rs) l) (map (norm_list rs) l))
    (fun o tag mbox d =>
       guard (wf_tag tag && wf_status d && same_mailbox mbox (norm_mailbox (sd_mailbox d))) (norm_status o d))
    (fun tag mbox d => guard (wf_tag tag && wf_select mbox d) (norm_select d))
    (fun rev2 extended tag o d => guard (wf_tag tag && wf_search (fill_all d)) (norm_search rev2 extended o (fill_all d)))
    (fun tag d => guard (wf_tag tag && wf_append d) (let a := norm_append d in (ad_uid a, ad_uidvalidity a)))
    (fun tag d => guard (wf_tag tag && wf_copy d) (let c := norm_copy d in (cd_uidvalidity c, cd_src c, cd_dst c)))
    (fun tag d => guard (wf_tag tag && wf_ns d) (norm_ns d))
    (fun tag caps => guard (wf_tag tag && forallb wf_cap caps) caps)
    (fun tag l => guard (wf_tag tag && wf_seqs l) l).

Definition resp_mismatches (cs : list ccase) : list N := mism spec_wants 0 cs.
(* for debugging a replay by hand: the model's answers *)
Definition resp_debug (cs : list ccase) : list (option mobs) := map (case_check spec_wants) cs.
