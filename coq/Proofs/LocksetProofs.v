(* Proofs/LocksetProofs.v — generic theorem for C13's data-race clause. *)
From Coq Require Import List String Bool Arith Lia.
Import ListNotations.
From GoImap.Model Require Import Lockset.

Lemma filter_two : forall (ts : list athread) i j t u,
  (i < j)%nat -> nth_error ts i = Some t -> nth_error ts j = Some u ->
  holds t = true -> holds u = true -> (2 <= List.length (filter holds ts))%nat.
Proof.
  intros ts i j t u Hij Hi Hj Ht Hu.
  destruct (nth_error_split ts i Hi) as (l1 & l2 & Hts & Hl1). subst ts.
  assert (Hj' : nth_error l2 (j - i - 1) = Some u).
  { rewrite nth_error_app2 in Hj by lia. rewrite Hl1 in Hj.
    replace (j - i)%nat with (S (j - i - 1)) in Hj by lia. exact Hj. }
  destruct (nth_error_split l2 (j - i - 1) Hj') as (l3 & l4 & Hl2 & _). subst l2.
  rewrite filter_app. cbn [filter]. rewrite Ht. rewrite filter_app. cbn [filter]. rewrite Hu.
  rewrite !app_length. cbn [List.length]. rewrite !app_length. cbn [List.length]. lia.
Qed.

(* no two distinct threads are ever both about to access a guarded field: conflicting
   accesses are never co-enabled, for any number of threads and in every state *)
Theorem no_concurrent_guarded_access : forall ts i j t u,
  mutex_ok ts -> disciplined ts -> i <> j ->
  nth_error ts i = Some t -> nth_error ts j = Some u ->
  at_guarded t = true -> at_guarded u = true -> False.
Proof.
  intros ts i j t u Hm Hd Hij Hi Hj Gt Gu.
  assert (Ht : holds t = true) by (apply Hd; [eapply nth_error_In; eauto | assumption]).
  assert (Hu : holds u = true) by (apply Hd; [eapply nth_error_In; eauto | assumption]).
  unfold mutex_ok in Hm.
  destruct (Nat.lt_ge_cases i j) as [L|L].
  - pose proof (filter_two ts i j t u L Hi Hj Ht Hu). lia.
  - assert (j < i)%nat by lia. pose proof (filter_two ts j i u t H Hj Hi Hu Ht). lia.
Qed.

(* a table that passes the check has no access outside the lock except in the constructor *)
Lemma table_ok_spec : forall t, table_ok t = true ->
  forall f fn pos w held ctor, In (f, fn, pos, w, held, ctor) t -> held = true \/ ctor = true.
Proof.
  intros t H f fn pos w held ctor Hin. unfold table_ok in H. rewrite forallb_forall in H.
  specialize (H _ Hin). cbn in H. apply orb_true_iff in H. exact H.
Qed.

(* ---- lockset condition ---------------------------------------------------------------- *)
Lemma mem_str_In : forall s l, mem_str s l = true <-> In s l.
Proof.
  intros s l. unfold mem_str. rewrite existsb_exists. split.
  - intros [x [Hin Heq]]. apply String.eqb_eq in Heq. subst. exact Hin.
  - intros Hin. exists s. split; [exact Hin | apply String.eqb_refl].
Qed.

(* every field that is accessed at all (outside fresh allocations) has a lock that is held at
   every one of its accesses *)
Theorem lockset_common_lock : forall t, lockset_ok t = true ->
  forall a, In a t -> a2_exempt a = false ->
  exists cls, In cls (a2_held a) /\
    forall b, In b t -> a2_field b = a2_field a -> a2_exempt b = false -> In cls (a2_held b).
Proof.
  intros t H a Ha He. unfold lockset_ok in H. rewrite forallb_forall in H.
  specialize (H a Ha). rewrite He in H. cbn [orb] in H.
  apply existsb_exists in H. destruct H as [cls [Hcls Hg]].
  exists cls. split; [exact Hcls|].
  intros b Hb Hf Heb. unfold guards in Hg. rewrite forallb_forall in Hg.
  specialize (Hg b Hb). rewrite Hf, String.eqb_refl, Heb in Hg. cbn in Hg.
  apply mem_str_In. exact Hg.
Qed.
