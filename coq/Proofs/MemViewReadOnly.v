(* Proofs/MemViewReadOnly.v — C08, the read-only view (EXAMINE): what the connection's
   MailboxView.readOnly bit (c_ro) does in the model of Model/MemView.v.

     * [select_records_ro]: a SELECT/EXAMINE answered OK leaves exactly its own form in the
       connection's bit;
     * [readonly_refuses]: on a read-only view STORE, UID EXPUNGE and MOVE answer NO and leave
       the whole state as it is, CLOSE only leaves the mailbox, EXPUNGE is a NOOP;
     * [readonly_no_change]: no command other than APPEND and COPY (which add messages to a
       mailbox named in the command, whatever is selected) issued on a connection whose view is
       read-only changes the messages (UIDs, order, \Deleted) or the uidNext of any mailbox, and
       neither do the flushes of the idling connections that follow it.
   None of this needs the system invariant: it holds in every state.                         *)
From GoImap.Base Require Import Bytes.
From GoImap.Model Require Import NumSet Tracker MemView.
From GoImap.Proofs Require Import TrackerSpec MemViewSpec MemViewLemmas MemViewSys MemViewProofs.
Open Scope N_scope.

(* what a mailbox holds, without the tracker *)
Definition box (mb : mbox) : list msg * N := (mb_msgs mb, mb_next mb).
Definition contents (st : sys) : list (list msg * N) := map box (s_mbs st).

(* the commands that add messages to a mailbox they name *)
Definition adds (cm : cmd) : bool :=
  match cm with CAppend _ _ | CCopy _ _ _ => true | _ => false end.

Lemma mb_do_box : forall mb o mb' cr, mb_do mb o = (mb', cr) -> box mb' = box mb.
Proof.
  intros mb o mb' cr H. unfold mb_do in H. destruct (step (mb_tr mb) o) as [t' out].
  destruct out; inversion H; subst; reflexivity.
Qed.

Lemma fetch_loop_box : forall uidk wflags seen s sid ms p mb mb' evs cr,
  fetch_loop uidk wflags seen s sid ms p mb = (mb', evs, cr) -> box mb' = box mb.
Proof.
  induction ms as [|m r IH]; intros p mb mb' evs cr H; simpl in H.
  - inversion H; subst. reflexivity.
  - destruct (selected uidk s (enc mb sid p) (m_uid m) && negb (enc mb sid p =? 0)).
    + destruct (if seen then mb_do mb (OQueueMsgFlags p (m_uid m) (flag_tok m) None) else (mb, false))
        as [mb1 c1] eqn:E1.
      destruct (fetch_loop uidk wflags seen s sid r (p + 1) mb1) as [[mb2 evs2] c2] eqn:E2.
      inversion H; subst. rewrite (IH _ _ _ _ _ E2).
      destruct seen; [eapply mb_do_box; eauto|inversion E1; subst; reflexivity].
    + eapply IH; eauto.
Qed.

Lemma map_set_nth_same : forall A B (f : A -> B) l i x y, nth_error l i = Some y -> f x = f y ->
  map f (set_nth l i x) = map f l.
Proof.
  induction l as [|z r IH]; intros [|i] x y Hn Hf; simpl in *; try discriminate.
  - inversion Hn; subst. rewrite Hf. reflexivity.
  - f_equal. eapply IH; eauto.
Qed.

Lemma contents_put_mb : forall st m mb mb' cr, get (s_mbs st) m = Some mb -> box mb' = box mb ->
  contents (put_mb st m mb' cr) = contents st.
Proof.
  intros st m mb mb' cr Hm Hb. unfold contents, put_mb, put. simpl.
  eapply map_set_nth_same; eauto.
Qed.

Lemma contents_put_conn : forall st c cn, contents (put_conn st c cn) = contents st.
Proof. reflexivity. Qed.

Lemma sys_poll_contents : forall st c allow st' evs, sys_poll st c allow = (st', evs) ->
  contents st' = contents st.
Proof.
  intros st c allow st' evs H. unfold sys_poll in H.
  destruct (sel_of st c) as [[m mb]|] eqn:Es; [|inversion H; subst; reflexivity].
  apply sel_of_some in Es. destruct Es as (cn & _ & _ & Hm).
  destruct (step (mb_tr mb) (OPoll c allow)) as [t' out]. destruct out; inversion H; subst.
  - reflexivity.
  - eapply contents_put_mb; eauto.
  - eapply contents_put_mb; eauto.
Qed.

Lemma sys_unselect_contents : forall st c, contents (sys_unselect st c) = contents st.
Proof.
  intros st c. unfold sys_unselect. destruct (sel_of st c) as [[m mb]|] eqn:Es; [|reflexivity].
  apply sel_of_some in Es. destruct Es as (cn & _ & _ & Hm).
  destruct (mb_do mb (OClose c)) as [mb' cr] eqn:Ed. rewrite contents_put_conn.
  eapply contents_put_mb; eauto. eapply mb_do_box; eauto.
Qed.

Lemma flush_idle_contents : forall cs st st' l, flush_idle st cs = (st', l) -> contents st' = contents st.
Proof.
  induction cs as [|c r IH]; intros st st' l H; simpl in H.
  - inversion H; subst. reflexivity.
  - destruct (get (s_conns st) c) as [cn|]; [|eapply IH; eauto].
    destruct (c_idle cn); [|eapply IH; eauto].
    destruct (sys_poll st c true) as [st1 evs] eqn:Ep.
    destruct (flush_idle st1 r) as [st2 l2] eqn:Ef. inversion H; subst.
    rewrite (IH _ _ _ Ef). eapply sys_poll_contents; eauto.
Qed.

(* ---- the bit is what the last SELECT/EXAMINE said ----------------------------------------------- *)
Lemma ro_of_put_conn : forall st c cn cn0, get (s_conns st) c = Some cn0 ->
  ro_of (put_conn st c cn) c = c_ro cn.
Proof.
  intros st c cn cn0 H. unfold ro_of, put_conn. simpl. rewrite (get_put_same _ _ _ _ _ H). reflexivity.
Qed.

Lemma sys_unselect_conn : forall st c cn, get (s_conns st) c = Some cn ->
  exists cn', get (s_conns (sys_unselect st c)) c = Some cn'.
Proof.
  intros st c cn H. unfold sys_unselect. destruct (sel_of st c) as [[m mb]|]; [|eauto].
  destruct (mb_do mb (OClose c)) as [mb' cr]. simpl. rewrite (get_put_same _ _ _ _ _ H). eauto.
Qed.

Theorem select_records_ro : forall st c cn m ro st' evs, get (s_conns st) c = Some cn ->
  handle_cmd st c (CSelect m ro) = (st', evs) -> In (EvDone StOK DNone) evs ->
  ro_of st' c = ro /\ exists cn', get (s_conns st') c = Some cn' /\ c_sel cn' = Some m.
Proof.
  intros st c cn m ro st' evs Hc Hh Hin. cbn [handle_cmd] in Hh.
  set (p := match sel_of st c with Some _ => (sys_unselect st c, [EvClosed]) | None => (st, []) end) in *.
  assert (Hp : exists cn1, get (s_conns (fst p)) c = Some cn1 /\ ~ In (EvDone StOK DNone) (snd p)).
  { unfold p. destruct (sel_of st c).
    - destruct (sys_unselect_conn _ _ _ Hc) as (cn1 & H1). exists cn1. split; [exact H1|].
      simpl. intros [H|[]]. discriminate.
    - exists cn. split; [exact Hc|simpl; tauto]. }
  destruct p as [st1 evs1]. destruct Hp as (cn1 & Hc1 & Hn1). simpl in Hc1, Hn1.
  destruct (get (s_mbs st1) m) as [mb|].
  - destruct (mb_do mb (ONewSession c)) as [mb' cr]. inversion Hh; subst.
    assert (Hc2 : get (s_conns (put_mb st1 m mb' cr)) c = Some cn1) by exact Hc1.
    split.
    + rewrite (ro_of_put_conn _ _ _ _ Hc2). reflexivity.
    + exists (mkConn (Some m) false ro). split; [|reflexivity].
      simpl. eapply get_put_same; eauto.
  - inversion Hh; subst. exfalso. apply in_app_iff in Hin. destruct Hin as [Hin|Hin]; [tauto|].
    simpl in Hin. destruct Hin as [Hin|[]]. discriminate.
Qed.

(* ---- what a read-only view answers ------------------------------------------------------------- *)
Theorem readonly_refuses : forall st c m mb, sel_of st c = Some (m, mb) -> ro_of st c = true ->
  (forall uidk s o silent, handle_cmd st c (CStore uidk s o silent) = (st, [EvDone StNO DNone])) /\
  (forall s, handle_cmd st c (CUidExpunge s) = (st, [EvDone StNO DNone])) /\
  (forall uidk s d, handle_cmd st c (CMove uidk s d) = (st, [EvDone StNO DNone])) /\
  handle_cmd st c CClose = (sys_unselect st c, [EvDone StOK DNone]) /\
  handle_cmd st c CExpunge = handle_cmd st c CNoop /\
  (forall uidk s wflags seen, handle_cmd st c (CFetch uidk s wflags seen) =
                              handle_cmd st c (CFetch uidk s wflags false)).
Proof.
  intros st c m mb Hs Hr. repeat split; intros; cbn [handle_cmd]; rewrite Hs, Hr; try reflexivity.
  rewrite andb_false_r. reflexivity.
Qed.

(* ---- a read-only view never changes a mailbox ---------------------------------------------------- *)
Lemma handle_cmd_readonly : forall st c cm st' evs, ro_of st c = true -> adds cm = false ->
  handle_cmd st c cm = (st', evs) -> contents st' = contents st.
Proof.
  intros st c cm st' evs Hr Ha Hh. destruct cm; try discriminate; cbn [handle_cmd] in Hh.
  - (* CSelect *)
    set (p := match sel_of st c with Some _ => (sys_unselect st c, [EvClosed]) | None => (st, []) end) in *.
    assert (Hp : contents (fst p) = contents st).
    { unfold p. destruct (sel_of st c); [apply sys_unselect_contents|reflexivity]. }
    destruct p as [st1 evs1]. simpl in Hp.
    destruct (get (s_mbs st1) mb) as [mbx|] eqn:Em.
    + destruct (mb_do mbx (ONewSession c)) as [mb' cr] eqn:Ed. inversion Hh; subst.
      rewrite contents_put_conn, <- Hp. eapply contents_put_mb; eauto. eapply mb_do_box; eauto.
    + inversion Hh; subst. exact Hp.
  - (* CUnselect *)
    destruct (sel_of st c); inversion Hh; subst; [apply sys_unselect_contents|reflexivity].
  - (* CClose *)
    destruct (sel_of st c) as [[m0 mb0]|]; [|inversion Hh; subst; reflexivity].
    rewrite Hr in Hh. inversion Hh; subst. apply sys_unselect_contents.
  - (* CNoop *)
    destruct (sys_poll st c true) as [st1 pevs] eqn:Ep. inversion Hh; subst. eapply sys_poll_contents; eauto.
  - (* CIdle *)
    inversion Hh; subst. reflexivity.
  - (* CDone *)
    inversion Hh; subst. reflexivity.
  - (* CFetch *)
    destruct (sel_of st c) as [[m0 mb0]|] eqn:Es; [|inversion Hh; subst; reflexivity].
    apply sel_of_some in Es. destruct Es as (cn & _ & _ & Hm).
    match type of Hh with context [mb_fetch ?a ?b ?x ?d ?e ?f] =>
      destruct (mb_fetch a b x d e f) as [[mb' fevs] cr] eqn:Ef end.
    destruct (sys_poll (put_mb st m0 mb' cr) c uidk) as [st1 pevs] eqn:Ep. inversion Hh; subst.
    rewrite (sys_poll_contents _ _ _ _ _ Ep). eapply contents_put_mb; eauto.
    unfold mb_fetch in Ef. eapply fetch_loop_box; eauto.
  - (* CStore *)
    destruct (sel_of st c) as [[m0 mb0]|]; [|inversion Hh; subst; reflexivity].
    rewrite Hr in Hh. inversion Hh; subst. reflexivity.
  - (* CExpunge *)
    destruct (sel_of st c) as [[m0 mb0]|]; [|inversion Hh; subst; reflexivity].
    rewrite Hr in Hh. destruct (sys_poll st c true) as [st1 pevs] eqn:Ep. inversion Hh; subst.
    eapply sys_poll_contents; eauto.
  - (* CUidExpunge *)
    destruct (sel_of st c) as [[m0 mb0]|]; [|inversion Hh; subst; reflexivity].
    rewrite Hr in Hh. inversion Hh; subst. reflexivity.
  - (* CMove *)
    destruct (sel_of st c) as [[m0 mb0]|]; [|inversion Hh; subst; reflexivity].
    rewrite Hr in Hh. inversion Hh; subst. reflexivity.
  - (* CSearch *)
    destruct (sel_of st c) as [[m0 mb0]|]; [|inversion Hh; subst; reflexivity].
    destruct (sys_poll st c uidk) as [st1 pevs] eqn:Ep. inversion Hh; subst. eapply sys_poll_contents; eauto.
  - (* CBad *)
    inversion Hh; subst. reflexivity.
Qed.

Lemma handle_readonly : forall st c cm st' evs, ro_of st c = true -> adds cm = false ->
  handle st c cm = (st', evs) -> contents st' = contents st.
Proof.
  intros st c cm st' evs Hr Ha Hh. unfold handle in Hh.
  destruct (get (s_conns st) c) as [cn|] eqn:Hc; [|inversion Hh; subst; reflexivity].
  destruct (c_idle cn); [|eapply handle_cmd_readonly; eauto].
  destruct cm; try (inversion Hh; subst; reflexivity).
  destruct (sys_poll (put_conn st c (mkConn (c_sel cn) false (c_ro cn))) c true) as [st1 pevs] eqn:Ep.
  inversion Hh; subst. rewrite (sys_poll_contents _ _ _ _ _ Ep). reflexivity.
Qed.

Theorem readonly_no_change : forall st c cm st' l, ro_of st c = true -> adds cm = false ->
  sys_step st c cm = (st', l) -> contents st' = contents st.
Proof.
  intros st c cm st' l Hr Ha Hs. unfold sys_step in Hs.
  destruct (handle st c cm) as [st1 evs] eqn:Eh.
  destruct (flush_idle st1 (conn_ids st1)) as [st2 l2] eqn:Ef. inversion Hs; subst.
  rewrite (flush_idle_contents _ _ _ _ Ef). eapply handle_readonly; eauto.
Qed.

Theorem readonly_no_change_log : forall st c cm st' l, ro_of st c = true -> adds cm = false ->
  step_log st c cm = (st', l) -> contents st' = contents st.
Proof.
  intros st c cm st' l Hr Ha Hs. apply step_log_erase in Hs. eapply readonly_no_change; eauto.
Qed.
